/-
C01 — non-vacuity: concrete instances of the hypotheses of the theorems in `PvProofs.C01`
(kept in a separate module only to keep each file's build time low).
-/
import PvProofs.C01

namespace PvProofs.C01
open PvModel PvModel.Settle PvModel.Coins PvModel.Ledger PvProofs.Settle

/-! ## Non-vacuity

One concrete request on which every hypothesis used above holds and every branch of interest is
taken: 2 asks / 3 bids, the last bid partially filled (split 5 of 10), seller ratio 1000:3, a flat fee
in the price denom, account `X1` on both sides, leftover price distributed (116 and 58 for asks of 100
and 50).  (The same request is in `corpus/C01/settle.examples.ops`, where it runs on the real code.) -/

def exAsks : List Order :=
  [⟨1, true, "S1", "apple", 10, "usd", 100, [("usd", 2)], false⟩,
   ⟨2, true, "X1", "apple", 5, "usd", 50, [("fig", 1)], true⟩]
def exBids : List Order :=
  [⟨11, false, "B1", "apple", 6, "usd", 66, [("fig", 3)], false⟩,
   ⟨12, false, "X1", "apple", 4, "usd", 48, [], false⟩,
   ⟨13, false, "B2", "apple", 10, "usd", 120, [("fig", 10), ("usd", 20)], true⟩]
def exLookup : Denom → Except Err (Option Ratio) := fun _ => .ok (some ⟨"usd", 1000, "usd", 3⟩)


/-- the request is in the domain of the property (stored orders, distinct ids) -/
example : inDomain exAsks exBids = true := by decide

/-- the ratio is valid -/
example : ∀ r, exLookup "usd" = .ok (some r) → 0 < r.priceAmt ∧ 0 ≤ r.feeAmt := by
  intro r h; simp only [exLookup, Except.ok.injEq, Option.some.injEq] at h; subst h; decide

/-- `BuildSettlement` succeeds on it, with a partial order left and the leftover price distributed -/
example : (match buildSettlement exAsks exBids exLookup with
    | .ok s => s.partialLeft == some ⟨13, false, "B2", "apple", 5, "usd", 60, [("fig", 5), ("usd", 10)], true⟩
        && s.fullyFilled.map (fun f => (f.order.id, f.actualPrice, Coins.canon f.actualFees)) ==
            [(1, 116, [("usd", 3)]), (2, 58, [("fig", 1), ("usd", 1)]), (11, 66, [("fig", 3)]), (12, 48, [])]
    | .error _ => false) = true := by decide

/-- the split of its last bid succeeds and satisfies the split checker (hypothesis of `split_exact`) -/
example : (match exBids with
    | [_, _, b3] => (match b3.split 5 with
        | .ok (f, u) => f.price == 60 && u.price == 60 && splitViolation b3 5 f u == none
        | .error _ => false)
    | _ => false) = true := by decide

/-- `closeSettlement` succeeds on it (5 % exchange split): `X1`, seller of 5 and buyer of 4, nets
`+58 − 48 − 1` usd; the market keeps the fees minus the exchange's rounded-up share; supply unchanged -/
example : (match plan exAsks exBids exLookup with
    | .ok p => (match p.settlement with
      | .ok s => (match closeSettlement "mkt" "feecol" (fun _ => 500) s with
        | .ok L => bal L "X1" "usd" == 58 - 48 - 1 && bal L "mkt" "usd" == 14 - 1 && bal L "feecol" "usd" == 1
            && bal L "feecol" "fig" == 1 && supply L "usd" == 0 && bal L "nobody" "usd" == 0
        | .error _ => false)
      | .error _ => false)
    | .error _ => false) = true := by decide

/-- `allocatePrice_total_and_exact`'s hypotheses hold for the example's prices (and the leftover loop
is entered: 174 > 150) -/
example : allocatePrice [100, 50] [66, 48, 60] [10, 5] =
    .ok [⟨0, 0, 66⟩, ⟨0, 1, 34⟩, ⟨1, 1, 14⟩, ⟨1, 2, 36⟩, ⟨0, 2, 16⟩, ⟨1, 2, 8⟩] := by decide

/-- an overflow is possible (the only way `allocatePrice` can die): leftover `2^200`, assets `2^100` -/
example : allocatePrice [1] [1 + 2 ^ 200] [2 ^ 100] = .error .overflow := by decide

/-- every account of the examples holds 1000 of each denom (the bank refuses a send the sender cannot
cover: `KErr.funds`) -/
def exFunds : Ledger :=
  ["S1", "X1", "B1", "B2", "S9", "B9"].foldl
    (fun L a => Ledger.credit L a [("apple", 1000), ("usd", 1000), ("fig", 1000)]) []

/-- a keeper state holding the example's orders (seller ratio 1000:3 usd, 5 % exchange split on usd) -/
def exState : KState :=
  { ratio := some ⟨"usd", 1000, "usd", 3⟩, split := [("usd", 500)], dfltSplit := 0, nextId := 14,
    orders := exAsks ++ exBids, ledger := exFunds }

/-- it satisfies the store invariant (hypothesis of `settleOrders_covered`, conclusion of `history_invariant`) -/
example : StoreInv exState :=
  ⟨fun o ho => orderPos_of_valid (by revert o ho; decide), by decide, by decide⟩

/-- `MsgMarketSettle` of all five orders succeeds with the expected partial bid left; a wrong
`ExpectPartial` flag or an unknown order id is rejected -/
example : (match exState.settleOrders "mkt" "feecol" [1, 2] [11, 12, 13] true with
    | .ok s' => s'.orders.map (fun o => (o.id, o.assets, o.price)) == [(13, 5, 60)]
    | .error _ => false) = true := by decide
example : exState.settleOrders "mkt" "feecol" [1, 2] [11, 12, 13] false = .error .expectPartial := by decide
example : exState.settleOrders "mkt" "feecol" [1, 7] [11, 12, 13] true = .error .order := by decide

/-- through `ValidateBasic` (hypothesis of `msgMarketSettle_covered` / `settled_orders_leave_store`): the
same request is accepted as a message, and only the remainder of bid 13 is still in the store -/
example : (match exState.msgMarketSettle "mkt" "feecol" [1, 2] [11, 12, 13] true with
    | .ok s' => s'.orders.map (fun o => (o.id, o.assets, o.price)) == [(13, 5, 60)]
    | .error _ => false) = true := by decide

/-- requests that name an order twice (a list of exactly two, adjacent, apart, on both sides), no
order or order zero are refused by `ValidateBasic` — while the keeper function behind it, handed the
id list `[12, 12]` directly, would fill bid 12 twice (so the refusal is what `repeated_ids_rejected`
rests on, not the keeper) -/
example : exState.msgFillBids "mkt" "feecol" "S9" [12, 12] [("apple", 8)] [] = .error .dupIds := by decide
example : exState.msgFillBids "mkt" "feecol" "S9" [11, 12, 11] [("apple", 16)] [] = .error .dupIds := by decide
example : exState.msgFillAsks "mkt" "feecol" "B9" [1, 1] ("usd", 200) [] = .error .dupIds := by decide
example : exState.msgMarketSettle "mkt" "feecol" [1, 2] [11, 12, 13, 12] true = .error .dupIds := by decide
example : exState.msgMarketSettle "mkt" "feecol" [1, 2, 11] [11, 12, 13] true = .error .bothSides := by decide
example : exState.msgMarketSettle "mkt" "feecol" [] [11] false = .error .noIds := by decide
example : exState.msgFillBids "mkt" "feecol" "S9" [11, 0] [("apple", 6)] [] = .error .zeroId := by decide
example : (match exState.fillBids "mkt" "feecol" "S9" [12, 12] [("apple", 8)] [] with
    | .ok s' => bal s'.ledger "X1" "usd" == 1000 - 96 && bal s'.ledger "X1" "apple" == 1000 + 8
    | .error _ => false) = true := by decide
example : exState.apply "mkt" "feecol" (.fillBids "S9" [12, 12] [("apple", 8)] []) = exState := by decide

/-- an accepted `MsgFillBids` (hypothesis of `msgFillBids_once`) -/
example : (match exState.msgFillBids "mkt" "feecol" "S9" [11, 12] [("apple", 10)] [("usd", 2)] with
    | .ok s' => s'.orders.map (·.id) == [1, 2, 13]
    | .error _ => false) = true := by decide

/-- a history: create two orders, settle them with a partial ask left, fill the rest of the ask as a
buyer — the store ends empty and `X1`/`B1` hold what they bought -/
example :
    let s := [KOp.create ⟨0, true, "S1", "apple", 10, "usd", 100, [], true⟩,
              KOp.create ⟨0, false, "B1", "apple", 4, "usd", 44, [("fig", 2)], false⟩,
              KOp.settle [1] [2] true,
              KOp.fillAsks "X1" [1] ("usd", 60) [("fig", 1)]].foldl (KState.apply "mkt" "feecol") ({ ledger := exFunds } : KState)
    s.orders = [] ∧ bal s.ledger "B1" "apple" = 1004 ∧ bal s.ledger "X1" "apple" = 1006 ∧
      bal s.ledger "S1" "usd" = 1104 ∧ bal s.ledger "mkt" "fig" = 3 := by decide

/-- `FillBids` on the example state (seller `S9` fills bids 11 and 12 with a 2 usd flat fee) -/
example : (match exState.fillBids "mkt" "feecol" "S9" [11, 12] [("apple", 10)] [("usd", 2)] with
    | .ok s' => bal s'.ledger "S9" "usd" == 1000 + 66 + 48 - 2 - 1 && bal s'.ledger "S9" "apple" == 1000 - 10
        && bal s'.ledger "feecol" "usd" == 1 && s'.orders.length == 3
    | .error _ => false) = true := by decide


end PvProofs.C01
