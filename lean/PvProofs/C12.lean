/-
C12 — Marker operations need the matching access right; authz transfers stay in grant.

Property theorems over the executable model `PvModel.Mkracc` (helper lemmas in
`PvProofs/Lemmas/MkraccCoins.lean`; theorems about the regenerated source facts in
`PvProofs/C12Facts.lean`).

* every marker operation: `runOp op c e = ok ↔` documented credential in the documented status
  (`op_succeeds_iff`, both directions, all 2^8 right sets × flags × statuses × types);
* `TransferCoin` = the `MsgTransferRequest` flowchart of 12_transfers.md (`transfer_ok_iff_flowchart`);
  forced transfers only on markers that allow them and never out of module / contract accounts;
  any other transfer on another account's behalf goes through that account's authz grant;
* the authz grant over ANY sequence of uses / of transfers: exact accounting
  (`useSeq_accounting`), the limit is never exceeded (`limit_never_exceeded`,
  `transfers_under_grant_within_limit`);
* both transfer endpoints (`MsgTransferRequest`, `MsgIbcTransferRequest`) over the authz STORE
  (one grant per (granter, grantee)): a message reads and writes only the grant the account the
  coins leave gave to the administrator that signs (`transfer_msg_effect`), needs exactly that
  grant (`transfer_msg_needs_the_sources_grant`, `no_grant_from_source_no_transfer`,
  `transfer_msg_ignores_other_grants` — a grant in the other direction or to another
  administrator never stands in), and over ANY history of messages of both kinds, by any
  administrators out of any accounts, each grant is used within its limit and allow list
  (`msgSeq_refines_useSeq`, `transfer_messages_within_each_grant`,
  `transfer_messages_recipients_on_allow_list_when_kept`, `no_grant_nothing_charged`).

* sign of the amounts: `Accept` never takes a negative amount (`accepted_use_nonneg`: `sdk.NewCoins`
  panics inside `SafeSub`), a negative transfer message is refused (`transfer_msg_amount_nonneg`),
  so the bound holds of the sum of the POSITIVE amounts and of each single amount
  (`limit_never_exceeded_pos`, `transfer_messages_within_each_grant_pos`);
* histories of messages on one marker through its whole life cycle ("in the marker's CURRENT
  status"): `PvProofs/C12Hist.lean`.

Two clauses were FALSE of the code as found and have been repaired in the repository; the model
carries one switch per repair, both now `true`:
* the allow-list clause — `Accept` used to return `Updated` without the `AllowList`
  (x/marker/types/authz.go:57, fixed by 599e8c764). `recipients_on_allow_list_when_kept` /
  `transfers_recipients_on_allow_list_when_kept` / `transfer_messages_recipients_on_allow_list_when_kept`
  are the clause for the code as it is (`allow_list_clause_current_code` selects that branch);
  `allowlist_dropped_after_partial_use` (the 2-transfer witness of the finding) and
  `first_recipient_on_allow_list_partial` remain as statements about the unrepaired variant.
* the whole-supply credential of `AddAccess` / `DeleteAccess` — `accountControlsAllSupply` used to
  compare the caller's balance with the RECORDED supply (marker.go:868, fixed by a784a9d34).
  `supply_control_is_documented` is the clause for the code as it is;
  `vacuous_supply_control` / `anyone_takes_over_zero_supply_marker` remain as the witness of the
  finding on the unrepaired variant.
-/
import PvModel.MkraccSpec
import PvProofs.Lemmas.MkraccCoins

namespace PvProofs.C12
open PvModel PvModel.Mkracc PvModel.Mkracc.Spec PvProofs.Lemmas

/-! ## Every marker operation: allowed exactly with the documented right in the documented status -/

/-- **Decision = documentation, both directions.** For every operation, every set of rights
of the caller, manager / governance / whole-supply flags, status, type and flags of the marker
and every environment: the handler accepts iff the operation exists for that status and type,
the caller holds one of the documented credentials for that status, and the conditions that
are not about the caller hold — or it is the no-op `Cancel` of a cancelled marker. -/
theorem op_succeeds_iff (op : Op) (c : Cfg) (e : Env) :
    runOp op c e = .ok () ↔
      (noop op c = true ∨ (available op c = true ∧ authorised op c = true ∧ envOk op c e = true)) := by
  obtain ⟨acc, mgr, gov, status, mtype, forced, govCtl, ctl⟩ := c
  obtain ⟨dest, circ⟩ := e
  cases op <;> cases status <;> cases mtype <;>
    simp [runOp, mintCoin, burnCoin, withdrawCoins, cancelMarker, deleteMarker, addAccess, removeAccess,
      accessChange, finalizeMarker, activateMarker, setMarkerDenomMetadata, grantAllowance,
      updateRequiredAttributes, updateForcedTransfer, setAccountData, updateSendDenyList,
      addNetAssetValues, validateHasAccess, validateSendToMarker, Cfg.has,
      noop, available, authorised, envOk, creds, restrictedOnly, Cred.holds] <;> grind

deriving instance DecidableEq for Except

/-- a configuration for the examples: rights, status, type, forced-transfer flag (all other flags off) -/
def exCfg (acc : List Access) (st : Status) (ty : MType) (forced : Bool := false) : Cfg :=
  { acc := acc, mgr := false, gov := false, status := st, mtype := ty, forced := forced, govCtl := true, ctlSupply := false }

-- non-vacuity: a burner may burn on an active marker; manager + governance + whole supply + other
-- rights do not help without `burn`; nobody may on a destroyed marker
example : runOp .burn (exCfg [.burn] .active .coin) {} = .ok ()
    ∧ runOp .burn { exCfg [.mint, .admin] .active .coin with mgr := true, gov := true, ctlSupply := true } {}
        = .error (.noaccess .burn)
    ∧ runOp .burn (exCfg [.burn] .destroyed .coin) {} = .error .status := by decide

/-- **Each marker operation succeeds only for a caller holding the right documented for it in
the marker's current status.** -/
theorem op_succeeds_only_with_right (op : Op) (c : Cfg) (e : Env) (h : runOp op c e = .ok ()) :
    authorised op c = true ∨ noop op c = true := by
  rcases (op_succeeds_iff op c e).mp h with h | h
  · exact Or.inr h
  · exact Or.inl h.2.1

/-- **The only success without a documented credential is `Cancel` on an already cancelled
marker** — and that one writes nothing (`cancel_of_cancelled_marker_is_identity` in
`PvProofs.C12Hist`: the state after it IS the state before, for every state and caller). -/
theorem success_without_credential_is_cancel_of_cancelled (op : Op) (c : Cfg) (e : Env)
    (h : runOp op c e = .ok ()) (hna : authorised op c = false) :
    op = .cancel ∧ c.status = .cancelled ∧ cancelChangesState c = false := by
  rcases (op_succeeds_iff op c e).mp h with hn | hn
  · simp only [noop, Bool.and_eq_true, beq_iff_eq] at hn
    exact ⟨hn.1, hn.2, by simp [cancelChangesState, hn.2]⟩
  · rw [hna] at hn; exact absurd hn.2.1 (by decide)

-- non-vacuity: anybody may "cancel" a cancelled marker
example : runOp .cancel (exCfg [] .cancelled .coin) {} = .ok ()
    ∧ authorised .cancel (exCfg [] .cancelled .coin) = false := by decide

/-- When a handler answers "does not have ACCESS_x", `x` is a right the caller lacks on the
marker and the one documented for the operation — or it is `deposit` on the restricted marker
a withdrawal goes to. -/
theorem noaccess_names_the_documented_right (op : Op) (c : Cfg) (e : Env) (a : Access)
    (h : runOp op c e = .error (.noaccess a)) :
    (c.has a = false ∧ a ∈ relevant op) ∨ (op = .withdraw ∧ a = .deposit ∧ e.dest = .rmkNoDep) := by
  obtain ⟨acc, mgr, gov, status, mtype, forced, govCtl, ctl⟩ := c
  obtain ⟨dest, circ⟩ := e
  cases op <;> cases status <;> cases dest <;>
    simp [runOp, mintCoin, burnCoin, withdrawCoins, cancelMarker, deleteMarker, addAccess, removeAccess,
      accessChange, finalizeMarker, activateMarker, setMarkerDenomMetadata, grantAllowance,
      updateRequiredAttributes, updateForcedTransfer, setAccountData, updateSendDenyList,
      addNetAssetValues, validateHasAccess, validateSendToMarker, Cfg.has, relevant] at h ⊢ <;> grind

/-- **No other right helps**: the outcome of an operation depends on the caller's rights only
through the rights documented for it — stripping every other right changes nothing. -/
theorem only_documented_rights_matter (op : Op) (c : Cfg) (e : Env) :
    runOp op { c with acc := c.acc.filter (relevant op).contains } e = runOp op c e := by
  obtain ⟨acc, mgr, gov, status, mtype, forced, govCtl, ctl⟩ := c
  have hall : ∀ a : Access, Access.all.contains a = true := by intro a; cases a <;> rfl
  have hid : acc.filter Access.all.contains = acc := by
    rw [List.filter_eq_self]; intro a _; exact hall a
  cases op <;>
    simp [runOp, mintCoin, burnCoin, withdrawCoins, cancelMarker, deleteMarker, addAccess, removeAccess,
      accessChange, finalizeMarker, activateMarker, setMarkerDenomMetadata, grantAllowance,
      updateRequiredAttributes, updateForcedTransfer, setAccountData, updateSendDenyList,
      addNetAssetValues, validateHasAccess, Cfg.has, relevant, hid]

/-! ### The whole-supply credential of `AddAccess` / `DeleteAccess`

`op_succeeds_iff` takes `Cfg.ctlSupply` as given. The code computes it with
`accountControlsAllSupply`; the documented meaning ("possess 100% of the total supply",
marker.go:866) is `holdsWholeSupply`: the caller holds every coin in existence and there is one. -/

/-- **The whole-supply credential as the code computes it is the documented one**: the caller
holds every coin in existence and there is at least one — whatever the marker's recorded supply
says (the record is not looked at: `supply_control_ignores_the_record`). -/
theorem supply_control_is_documented (bal record circ : Int) :
    accountControlsAllSupply bal record circ = holdsWholeSupply bal circ
    ∧ (accountControlsAllSupply bal record circ = true ↔ 0 < circ ∧ bal = circ) := by
  have h : accountControlsAllSupply bal record circ = holdsWholeSupply bal circ := by
    simp [accountControlsAllSupply, supplyControlViaBank, accountControlsAllSupplyWith, holdsWholeSupply]
  refine ⟨h, ?_⟩
  rw [h]
  simp only [holdsWholeSupply, Bool.and_eq_true, decide_eq_true_eq, beq_iff_eq]
  constructor
  · rintro ⟨h1, h2⟩; exact ⟨h1, h2.symm⟩
  · rintro ⟨h1, h2⟩; exact ⟨h1, h2.symm⟩

/-- A recorded supply of 0, or a stale one, opens nothing any more. -/
theorem supply_control_ignores_the_record (bal r₁ r₂ circ : Int) :
    accountControlsAllSupply bal r₁ circ = accountControlsAllSupply bal r₂ circ := by
  rw [(supply_control_is_documented bal r₁ circ).1, (supply_control_is_documented bal r₂ circ).1]

/-- In particular nobody "controls the supply" of a denom without coins, and a holder of part of
the coins does not. -/
theorem no_vacuous_supply_control (bal record : Int) :
    accountControlsAllSupply bal record 0 = false
    ∧ ∀ circ, bal ≠ circ → accountControlsAllSupply bal record circ = false := by
  constructor
  · cases h : accountControlsAllSupply bal record 0
    · rfl
    · have := (supply_control_is_documented bal record 0).2.mp h; omega
  · intro circ hne
    cases h : accountControlsAllSupply bal record circ
    · rfl
    · exact absurd ((supply_control_is_documented bal record circ).2.mp h).2 hne

/-- HISTORICAL (the code as found, `viaBank = false`; fixed in the repository by a784a9d34, kept as
the Lean witness of finding C12-vacuous-supply-control): with a recorded supply of 0 every account
with a zero balance "controlled all supply", however many coins existed and whoever held them; and
with a stale record a holder of exactly the recorded amount did. -/
theorem vacuous_supply_control (circ : Int) :
    accountControlsAllSupplyWith false 0 0 circ = true ∧ holdsWholeSupply 0 circ = false
    ∧ accountControlsAllSupplyWith false 5 5 100 = true ∧ holdsWholeSupply 5 100 = false := by
  refine ⟨rfl, ?_, rfl, by decide⟩
  simp only [holdsWholeSupply]
  by_cases h : 0 < circ
  · have : ¬ circ = 0 := by omega
    simp [h, this]
  · simp [h]

/-- HISTORICAL **witness on the message flow** (replayed on the real msg server, corpus/C12, where
the repaired code now refuses the second message): a marker is created with supply 0 and floating
supply by `A` (mint + admin); `E`, who holds no right and no coin, grants itself every right,
mints 9 and withdraws them — in the variant of the model with the unrepaired function. With the
function as it is now the same history leaves `E` without any right. -/
theorem anyone_takes_over_zero_supply_marker :
    let ops : List SOp := [.create 0 false .coin [.mint, .admin],
      .add "E" "E" [.mint, .burn, .withdraw, .admin], .mint "E" 9, .withdraw "E" "E" 9]
    let s := scenRunWith false {} ops
    let s₀ := scenRunWith false {} [.create 0 false .coin [.mint, .admin]]
    s.rightsOf "E" = [.mint, .burn, .withdraw, .admin] ∧ s.balOf "E" = 9
    -- … although in the documented sense `E` held no credential when it changed the access list
    ∧ authorised .addAccess { s₀.cfgWith false "E" with
        ctlSupply := holdsWholeSupply (s₀.balOf "E") s₀.circulating } = false
    -- the code as it is now
    ∧ (scenRunWith supplyControlViaBank {} ops).rightsOf "E" = []
    ∧ (scenRunWith supplyControlViaBank {} ops).balOf "E" = 0 := by decide

/-- The whole-supply clause for whichever variant `supplyControlViaBank` selects. -/
theorem supply_control_clause_current_code :
    if supplyControlViaBank then
      ∀ bal record circ, accountControlsAllSupply bal record circ = holdsWholeSupply bal circ
    else ∃ bal record circ, accountControlsAllSupply bal record circ = true ∧ holdsWholeSupply bal circ = false := by
  unfold accountControlsAllSupply
  cases h : supplyControlViaBank
  · simp only [Bool.false_eq_true, if_false]
    exact ⟨0, 0, 9, (vacuous_supply_control 9).1, (vacuous_supply_control 9).2.1⟩
  · simp only [if_true]
    intro bal record circ
    simp only [accountControlsAllSupplyWith, holdsWholeSupply, if_true]

/-! ## Authz -/

/-- What an accepting `Accept` has checked and what it returns. -/
theorem acceptWith_inv {keep : Bool} {g g' : Grant} {u : Use} {del : Bool}
    (h : acceptWith keep g u = .accept del g') :
    0 ≤ u.amount
    ∧ Coins.nonneg (Coins.sub g.limit [(u.denom, u.amount)]) = true
    ∧ (g.allow.isEmpty = true ∨ g.allow.contains u.to = true)
    ∧ del = Coins.isZero (Coins.sub g.limit [(u.denom, u.amount)])
    ∧ g' = { limit := Coins.sub g.limit [(u.denom, u.amount)], allow := if keep then g.allow else [] } := by
  unfold acceptWith at h
  split at h
  · cases h
  · rename_i hneg
    simp only at h
    split at h
    · cases h
    · rename_i hn
      split at h
      · cases h
      · rename_i hc
        injection h with h1 h2
        refine ⟨by omega, by simpa using hn, ?_, h1.symm, h2.symm⟩
        cases he : g.allow.isEmpty <;> cases hm : g.allow.contains u.to <;> simp_all

/-- **Every accepted use is of a non-negative amount**: `Accept` hands the amount to
`sdk.NewCoins`, which panics on a negative coin, so a "negative transfer" can never enlarge a
grant (and `MsgTransferRequest.ValidateBasic` refuses it before: `transfer_msg_amount_nonneg`). -/
theorem accepted_use_nonneg {keep : Bool} {g g' : Grant} {u : Use} {del : Bool}
    (h : acceptWith keep g u = .accept del g') : 0 ≤ u.amount := (acceptWith_inv h).1

theorem accept_accounting {keep : Bool} {g g' : Grant} {u : Use} {del : Bool}
    (h : acceptWith keep g u = .accept del g') :
    (∀ d, Coins.amountOf g'.limit d = Coins.amountOf g.limit d - (if u.denom = d then u.amount else 0))
    ∧ (∀ d, 0 ≤ Coins.amountOf g'.limit d)
    ∧ (del = true ↔ ∀ d, Coins.amountOf g'.limit d = 0)
    ∧ g'.allow = (if keep then g.allow else []) := by
  obtain ⟨_, hn, _, h1, h2⟩ := acceptWith_inv h
  subst h2
  refine ⟨?_, ?_, ?_, rfl⟩
  · intro d; simp
  · intro d
    have := (nonneg_iff _).mp hn d
    simpa using this
  · rw [h1]; exact isZero_iff _

/-- what is left of a stored grant (nothing once it is deleted) -/
def remaining : Option Grant → Denom → Int
  | none, _ => 0
  | some g, d => Coins.amountOf g.limit d

theorem useSeq_none (keep : Bool) (us : List Use) : useSeqWith keep none us = (none, []) := by
  induction us with
  | nil => rfl
  | cons u rest ih => simp [useSeqWith, authzHandlerWith, ih]

/-- **Exact accounting over any sequence of attempted uses**: what was moved under the grant
plus what the stored grant still allows is the original limit, denom by denom, and the
remainder is never negative. -/
theorem useSeq_accounting (keep : Bool) (us : List Use) (g : Grant)
    (hg : ∀ d, 0 ≤ Coins.amountOf g.limit d) (d : Denom) :
    moved (useSeqWith keep (some g) us).2 d + remaining (useSeqWith keep (some g) us).1 d
        = Coins.amountOf g.limit d
    ∧ 0 ≤ remaining (useSeqWith keep (some g) us).1 d := by
  induction us generalizing g with
  | nil => simp [useSeqWith, moved, remaining, hg d]
  | cons u rest ih =>
    simp only [useSeqWith, authzHandlerWith]
    cases h : acceptWith keep g u with
    | rejectLimit => simpa using ih g hg
    | rejectRecipient => simpa using ih g hg
    | panicNegative => simpa using ih g hg
    | accept del g' =>
      obtain ⟨hacc, hnn, hdel, _⟩ := accept_accounting h
      cases del with
      | true =>
        have hz := hdel.mp rfl d
        have := hacc d
        simp only [useSeq_none, moved, remaining]
        omega
      | false =>
        have := ih g' hnn
        have := hacc d
        simp only [moved]
        omega

/-- **The granted limit is never exceeded**, over any sequence of attempted uses (accepted
or rejected, any amounts, any recipients), denom by denom — whichever way the updated grant
treats its allow list. `g.limit` is any valid `sdk.Coins` (no negative amount). -/
theorem limit_never_exceeded (keep : Bool) (g : Grant) (us : List Use)
    (hg : Coins.nonneg g.limit = true) :
    WithinLimit g (useSeqWith keep (some g) us).2 := by
  intro d
  have h := useSeq_accounting keep us g ((nonneg_iff _).mp hg) d
  omega

-- non-vacuity: a valid limit, a history with accepted, rejected and exhausting uses
example : Coins.nonneg ([("tok", 10), ("zzz", 2)] : Coins) = true
    ∧ (useSeqWith false (some { limit := [("tok", 10), ("zzz", 2)], allow := [] })
        [⟨"tok", 4, "A"⟩, ⟨"tok", 7, "A"⟩, ⟨"zzz", 2, "B"⟩, ⟨"tok", 6, "C"⟩, ⟨"tok", 1, "C"⟩]).2
      = [⟨"tok", 4, "A"⟩, ⟨"zzz", 2, "B"⟩, ⟨"tok", 6, "C"⟩] := by decide

/-! ### Sign of the amounts

`WithinLimit` bounds a SIGNED sum; it says what the property means only if no accepted amount is
negative. That is so: `Accept` itself cannot be made to take a negative amount (`sdk.NewCoins`
panics inside `SafeSub`, replayed on the real function: corpus/C12 `use -5tok`), and
`MsgTransferRequest.ValidateBasic` / the ibc `MsgTransfer.ValidateBasic` refuse the message before
(`transfer_msg_amount_nonneg`). Hence the bound on the sum of the POSITIVE amounts, and on every
single accepted amount. -/

/-- Every accepted use of any sequence of attempts (any amounts, negative ones included among
the attempts) is of a non-negative amount. -/
theorem useSeq_accepted_nonneg (keep : Bool) (us : List Use) (st : Option Grant) :
    ∀ u ∈ (useSeqWith keep st us).2, 0 ≤ u.amount := by
  induction us generalizing st with
  | nil => intro u hu; simp [useSeqWith] at hu
  | cons v rest ih =>
    cases st with
    | none => intro u hu; simp [useSeq_none] at hu
    | some g =>
      intro u hu
      simp only [useSeqWith, authzHandlerWith] at hu
      cases h : acceptWith keep g v with
      | rejectLimit => rw [h] at hu; exact ih _ u hu
      | rejectRecipient => rw [h] at hu; exact ih _ u hu
      | panicNegative => rw [h] at hu; exact ih _ u hu
      | accept del g' =>
        rw [h] at hu
        have hv := accepted_use_nonneg h
        cases del <;> simp only [List.mem_cons] at hu <;> rcases hu with rfl | hu
        · exact hv
        · exact ih _ u hu
        · exact hv
        · exact ih _ u hu

theorem movedPos_eq_moved {us : List Use} (h : ∀ u ∈ us, 0 ≤ u.amount) (d : Denom) :
    movedPos us d = moved us d := by
  induction us with
  | nil => rfl
  | cons u rest ih =>
    have h0 := h u (List.mem_cons_self ..)
    have := ih (fun v hv => h v (List.mem_cons_of_mem _ hv))
    simp only [movedPos, moved, this]
    by_cases hd : u.denom = d <;> by_cases hp : 0 < u.amount <;> simp [hd, hp] <;> omega

theorem moved_nonneg {us : List Use} (h : ∀ u ∈ us, 0 ≤ u.amount) (d : Denom) : 0 ≤ moved us d := by
  induction us with
  | nil => simp [moved]
  | cons u rest ih =>
    have h0 := h u (List.mem_cons_self ..)
    have := ih (fun v hv => h v (List.mem_cons_of_mem _ hv))
    simp only [moved]
    split <;> omega

theorem mem_le_moved {us : List Use} (h : ∀ u ∈ us, 0 ≤ u.amount) {u : Use} (hu : u ∈ us) :
    u.amount ≤ moved us u.denom := by
  induction us with
  | nil => cases hu
  | cons v rest ih =>
    have hr : ∀ w ∈ rest, 0 ≤ w.amount := fun w hw => h w (List.mem_cons_of_mem _ hw)
    have h0 := h v (List.mem_cons_self ..)
    simp only [moved]
    rcases List.mem_cons.mp hu with rfl | hu'
    · have := moved_nonneg hr u.denom
      simp only [if_true]; omega
    · have := ih hr hu'
      split <;> omega

/-- **The granted limit is never exceeded — counting only what was really moved**: over any
sequence of attempted uses (any amounts of either sign, any recipients), the sum of the POSITIVE
accepted amounts stays within the original limit, denom by denom; and each accepted amount lies
between 0 and the limit of its denom. -/
theorem limit_never_exceeded_pos (keep : Bool) (g : Grant) (us : List Use)
    (hg : Coins.nonneg g.limit = true) :
    WithinLimitPos g (useSeqWith keep (some g) us).2
    ∧ ∀ u ∈ (useSeqWith keep (some g) us).2, 0 ≤ u.amount ∧ u.amount ≤ Coins.amountOf g.limit u.denom := by
  have hnn := useSeq_accepted_nonneg keep us (some g)
  have hw := limit_never_exceeded keep g us hg
  refine ⟨fun d => ?_, fun u hu => ⟨hnn u hu, ?_⟩⟩
  · rw [movedPos_eq_moved hnn d]; exact hw d
  · exact Int.le_trans (mem_le_moved hnn hu) (hw u.denom)

-- non-vacuity: attempts with negative amounts among them; none is accepted, the others are
example : (useSeqWith true (some { limit := [("tok", 10)], allow := [] })
      [⟨"tok", -5, "A"⟩, ⟨"tok", 4, "A"⟩, ⟨"tok", -1, "B"⟩, ⟨"tok", 7, "A"⟩, ⟨"tok", 6, "C"⟩]).2
      = [⟨"tok", 4, "A"⟩, ⟨"tok", 6, "C"⟩] := by decide

/-- A use is accepted exactly when the stored grant covers it (11_authorization.md). -/
theorem authzHandler_ok_iff (keep : Bool) (stored : Option Grant) (u : Use) :
    (∃ s', authzHandlerWith keep stored u = .ok s') ↔ grantCovers stored u = true := by
  cases stored with
  | none => simp [authzHandlerWith, grantCovers]
  | some g =>
    simp only [authzHandlerWith, acceptWith, grantCovers]
    by_cases hneg : u.amount < 0
    · have : ¬ (0 ≤ u.amount) := by omega
      simp [hneg, this]
    have hnn : 0 ≤ u.amount := by omega
    simp only [hneg, if_false, hnn, decide_true, Bool.true_and]
    cases h1 : Coins.nonneg (Coins.sub g.limit [(u.denom, u.amount)]) <;>
      cases h2 : g.allow.isEmpty <;> cases h3 : g.allow.contains u.to <;>
      cases hz : Coins.isZero (Coins.sub g.limit [(u.denom, u.amount)]) <;> simp

/-- With the allow list carried over to the updated grant, every accepted recipient of any
sequence of uses is on the original allow list. -/
theorem recipients_on_allow_list_when_kept (g : Grant) (us : List Use) :
    RecipientsAllowed g (useSeqWith true (some g) us).2 := by
  intro hne
  -- generalise: any grant with the same allow list
  suffices h : ∀ (g₁ : Grant), g₁.allow = g.allow → ∀ u ∈ (useSeqWith true (some g₁) us).2, u.to ∈ g.allow from
    h g rfl
  induction us with
  | nil => intro g₁ _ u hu; simp [useSeqWith] at hu
  | cons u rest ih =>
    intro g₁ hal v hv
    simp only [useSeqWith, authzHandlerWith] at hv
    cases h : acceptWith true g₁ u with
    | rejectLimit => rw [h] at hv; exact ih g₁ hal v hv
    | rejectRecipient => rw [h] at hv; exact ih g₁ hal v hv
    | panicNegative => rw [h] at hv; exact ih g₁ hal v hv
    | accept del g' =>
      rw [h] at hv
      obtain ⟨_, _, _, hal'⟩ := accept_accounting h
      have hto : u.to ∈ g.allow := by
        have hc := (acceptWith_inv h).2.2.1
        rw [hal] at hc
        have : g.allow.isEmpty = false := by
          cases hg : g.allow with
          | nil => exact absurd hg hne
          | cons _ _ => rfl
        simpa [this] using hc
      cases del with
      | true =>
        simp only [useSeq_none, List.mem_cons, List.not_mem_nil, or_false] at hv
        rw [hv]; exact hto
      | false =>
        simp only [List.mem_cons] at hv
        rcases hv with rfl | hv
        · exact hto
        · exact ih g' (by rw [hal']; simpa using hal) v hv

/-- The first accepted use of a grant goes to a recipient on its allow list, whatever
happens to the allow list afterwards. -/
theorem first_recipient_on_allow_list_partial (keep : Bool) (g : Grant) (us : List Use) (u : Use)
    (rest : List Use) (hacc : (useSeqWith keep (some g) us).2 = u :: rest) (hne : g.allow ≠ []) :
    u.to ∈ g.allow := by
  induction us with
  | nil => simp [useSeqWith] at hacc
  | cons v vs ih =>
    simp only [useSeqWith, authzHandlerWith] at hacc
    cases h : acceptWith keep g v with
    | rejectLimit => rw [h] at hacc; exact ih hacc
    | rejectRecipient => rw [h] at hacc; exact ih hacc
    | panicNegative => rw [h] at hacc; exact ih hacc
    | accept del g' =>
      rw [h] at hacc
      have hv : v = u := by cases del <;> simp at hacc <;> exact hacc.1
      subst hv
      have hc := (acceptWith_inv h).2.2.1
      have : g.allow.isEmpty = false := by
        cases hg : g.allow with
        | nil => exact absurd hg hne
        | cons _ _ => rfl
      simpa [this] using hc

example : (useSeqWith false (some { limit := [("tok", 10)], allow := ["B"] })
      [⟨"tok", 3, "C"⟩, ⟨"tok", 3, "B"⟩, ⟨"tok", 3, "C"⟩]).2 = [⟨"tok", 3, "B"⟩, ⟨"tok", 3, "C"⟩] := by decide

/-- **The code as found breaks the allow-list clause**: with the allow list dropped from the
updated grant (`authz.go:57`), a grant of 10 limited to recipient `B` accepts, after one
partial use, a transfer to `C`. -/
theorem allowlist_dropped_after_partial_use :
    ¬ RecipientsAllowed { limit := [("tok", 10)], allow := ["B"] }
        (useSeqWith false (some { limit := [("tok", 10)], allow := ["B"] })
          [⟨"tok", 3, "B"⟩, ⟨"tok", 3, "C"⟩]).2 := by
  intro h
  have := h (by decide) ⟨"tok", 3, "C"⟩ (by decide)
  revert this
  decide

/-- Even a zero-amount transfer to an allowed recipient strips the allow list. -/
theorem zero_amount_use_strips_allow_list :
    acceptWith false { limit := [("tok", 10)], allow := ["B"] } ⟨"tok", 0, "B"⟩
      = .accept false { limit := [("tok", 10), ("tok", 0)], allow := [] } := by decide

/-- The allow-list clause for whichever variant `keepAllowListOnUpdate` selects. -/
theorem allow_list_clause_general (keep : Bool) :
    if keep then ∀ g us, RecipientsAllowed g (useSeqWith true (some g) us).2
    else ∃ g us, ¬ RecipientsAllowed g (useSeqWith false (some g) us).2 := by
  cases keep
  · exact ⟨_, _, allowlist_dropped_after_partial_use⟩
  · exact fun g us => recipients_on_allow_list_when_kept g us

/-- …and for the code as modelled (`accept`, `useSeq`). -/
theorem allow_list_clause_current_code :
    if keepAllowListOnUpdate then ∀ g us, RecipientsAllowed g (useSeq (some g) us).2
    else ∃ g us, ¬ RecipientsAllowed g (useSeq (some g) us).2 := by
  have := allow_list_clause_general keepAllowListOnUpdate
  unfold useSeq
  cases h : keepAllowListOnUpdate <;> simp only [h] at this ⊢ <;> exact this

/-- Without an allow list the recipient plays no role. -/
theorem no_allow_list_any_recipient (keep : Bool) (g : Grant) (h : g.allow = []) (d : Denom)
    (a : Int) (to₁ to₂ : String) :
    acceptWith keep g ⟨d, a, to₁⟩ = acceptWith keep g ⟨d, a, to₂⟩ := by
  simp [acceptWith, h]

/-! ## Transfers -/

/-- `canForceTransferFrom` refuses exactly the accounts that exist, have never signed and are
neither marker, market nor group accounts — every module account and every smart-contract
account is one of those. -/
theorem canForceTransferFrom_eq (a : Acct) : canForceTransferFrom a = !moduleOrContractLike a := by
  obtain ⟨g, p, s, m, k⟩ := a
  cases g <;> cases p <;> cases s <;> cases m <;> cases k <;> rfl

private theorem authz_cases (keep : Bool) (stored : Option Grant) (u : Use) :
    (grantCovers stored u = true ∧ ∃ s', authzHandlerWith keep stored u = .ok s')
    ∨ (grantCovers stored u = false ∧ ∃ e, authzHandlerWith keep stored u = .error e) := by
  have hA := authzHandler_ok_iff keep stored u
  cases h : authzHandlerWith keep stored u with
  | error e =>
    right
    refine ⟨?_, e, rfl⟩
    cases hg : grantCovers stored u
    · rfl
    · obtain ⟨s', hs⟩ := hA.mpr hg
      rw [h] at hs; cases hs
  | ok s' => left; exact ⟨hA.mp ⟨s', h⟩, s', rfl⟩

/-- **`TransferCoin` decides exactly as the documented `MsgTransferRequest` flowchart**
(12_transfers.md) — for every configuration of status, type, rights of the administrator,
forced-transfer flag, kind of source and destination account, stored grant, amount and
balance. -/
theorem transfer_ok_iff_flowchart (keep : Bool) (c : Cfg) (x : Xfer) :
    (∃ s', transferCoinWith keep c x = .ok s') ↔ transferAllowed c x = true := by
  obtain ⟨acc, mgr, gov, status, mtype, forced, govCtl, ctl⟩ := c
  obtain ⟨selfFrom, src, dest, stored, use, fromBal⟩ := x
  cases status <;> try (simp [transferCoinWith, transferAllowed]; done)
  cases mtype <;> try (simp [transferCoinWith, transferAllowed]; done)
  have hF := canForceTransferFrom_eq src
  by_cases ht : Access.transfer ∈ acc <;> by_cases hf : Access.forceTransfer ∈ acc <;>
    by_cases hb : fromBal < use.amount <;>
    rcases authz_cases keep stored use with ⟨hg, s', hs⟩ | ⟨hg, e, hs⟩ <;>
    cases dest <;> cases selfFrom <;> cases forced <;>
    cases hm : moduleOrContractLike src <;>
    simp [transferCoinWith, transferAllowed, validateSendToMarker, Cfg.has, hs, hg, hF, ht, hf, hb, hm] <;>
    omega

/-- What a successful `TransferCoin` leaves in the authz store: the result of `authzHandler`
when the transfer went through the grant, the grant untouched otherwise. -/
theorem transfer_result {keep : Bool} {c : Cfg} {x : Xfer} {s' : Option Grant}
    (h : transferCoinWith keep c x = .ok s') :
    (usesGrant c x = true → authzHandlerWith keep x.stored x.use = .ok s')
    ∧ (usesGrant c x = false → s' = x.stored) := by
  obtain ⟨acc, mgr, gov, status, mtype, forced, govCtl, ctl⟩ := c
  obtain ⟨selfFrom, src, dest, stored, use, fromBal⟩ := x
  cases status <;> try (simp [transferCoinWith] at h; done)
  cases mtype <;> try (simp [transferCoinWith] at h; done)
  by_cases ht : Access.transfer ∈ acc <;> by_cases hf : Access.forceTransfer ∈ acc <;>
    by_cases hb : fromBal < use.amount <;>
    rcases authz_cases keep stored use with ⟨hg, s'', hs⟩ | ⟨hg, e, hs⟩ <;>
    cases dest <;> cases selfFrom <;> cases forced <;>
    cases hm : canForceTransferFrom src <;>
    simp [transferCoinWith, validateSendToMarker, Cfg.has, hs, ht, hf, hb, hm, usesGrant] at h ⊢ <;>
    first | exact h | exact h.symm | omega

/-- **Forced transfers never take coins out of module or smart-contract accounts**: if a
transfer out of such an account (not the administrator's own) succeeds, it went through an
authz grant of that account which covers it — in particular it never succeeds without one. -/
theorem forced_transfer_never_from_module_or_contract {keep : Bool} {c : Cfg} {x : Xfer}
    {s' : Option Grant} (h : transferCoinWith keep c x = .ok s') (hns : x.selfFrom = false)
    (hm : moduleOrContractLike x.src = true) :
    usesGrant c x = true ∧ grantCovers x.stored x.use = true := by
  have hfl := (transfer_ok_iff_flowchart keep c x).mp ⟨s', h⟩
  simp only [transferAllowed, hns, hm, Bool.and_eq_true, Bool.or_eq_true, Bool.false_or] at hfl
  cases hff : (c.forced && c.has .forceTransfer)
  · simp [hff] at hfl
    exact ⟨by simp [usesGrant, hns, hff], hfl.1.1.2⟩
  · simp [hff] at hfl

/-- an account that exists, never signed and is no marker / market / group account -/
def exModuleLike : Acct :=
  { isGroup := false, present := true, seqNonZero := false, isMarker := false, isMarket := false }

def exXfer (src : Acct) (stored : Option Grant) : Xfer :=
  { selfFrom := false, src := src, dest := .plain, stored := stored, use := ⟨"mkrtok", 5, "P1"⟩, fromBal := 9 }

-- non-vacuity: out of a module-like account a transfer does succeed through a covering grant,
-- is refused (`forcedFrom`) on the forced path, and the forced path works out of a signing account
example : moduleOrContractLike exModuleLike = true
    ∧ transferCoinWith false (exCfg [.transfer] .active .restricted true)
        (exXfer exModuleLike (some { limit := [("mkrtok", 5)], allow := [] })) = .ok none
    ∧ transferCoinWith false (exCfg [.transfer, .forceTransfer] .active .restricted true)
        (exXfer exModuleLike none) = .error .forcedFrom
    ∧ transferCoinWith false (exCfg [.forceTransfer] .active .restricted true)
        (exXfer { exModuleLike with seqNonZero := true } none) = .ok none := by decide

/-- **Forced transfers work only on markers that allow them** (and only for an administrator
with `force_transfer`): a successful transfer out of someone else's account that no grant
covers is on such a marker, and out of an account that permits it. -/
theorem forced_transfer_only_on_markers_that_allow_it {keep : Bool} {c : Cfg} {x : Xfer}
    {s' : Option Grant} (h : transferCoinWith keep c x = .ok s') (hns : x.selfFrom = false)
    (hnc : grantCovers x.stored x.use = false) :
    c.forced = true ∧ c.has .forceTransfer = true ∧ moduleOrContractLike x.src = false := by
  have hfl := (transfer_ok_iff_flowchart keep c x).mp ⟨s', h⟩
  simp only [transferAllowed, hns, hnc, Bool.and_eq_true, Bool.or_eq_true, Bool.false_or] at hfl
  cases hff : (c.forced && c.has .forceTransfer)
  · simp [hff] at hfl
  · simp [hff] at hfl
    simp only [Bool.and_eq_true] at hff
    exact ⟨hff.1, hff.2, hfl.1.1.2⟩

/-- **Any other transfer on another account's behalf requires that account's authz grant.** -/
theorem transfer_on_behalf_needs_grant_or_force {keep : Bool} {c : Cfg} {x : Xfer}
    {s' : Option Grant} (h : transferCoinWith keep c x = .ok s') (hns : x.selfFrom = false) :
    (c.forced = true ∧ c.has .forceTransfer = true ∧ moduleOrContractLike x.src = false ∧ s' = x.stored)
    ∨ (grantCovers x.stored x.use = true ∧ authzHandlerWith keep x.stored x.use = .ok s') := by
  have hr := transfer_result h
  cases hu : usesGrant c x
  · left
    have hff : (c.forced && c.has .forceTransfer) = true := by simpa [usesGrant, hns] using hu
    have hfl := (transfer_ok_iff_flowchart keep c x).mp ⟨s', h⟩
    simp only [transferAllowed, hns, hff, Bool.and_eq_true, Bool.or_eq_true, Bool.false_or] at hfl
    simp only [Bool.and_eq_true] at hff
    exact ⟨hff.1, hff.2, by simpa using hfl.1.1.2, hr.2 hu⟩
  · right
    exact ⟨(authzHandler_ok_iff keep _ _).mp ⟨s', hr.1 hu⟩, hr.1 hu⟩

/-- A transfer succeeds only on an active restricted marker for an administrator with
`transfer` or `force_transfer`, with `deposit` on a restricted destination marker. -/
theorem transfer_requires_right {keep : Bool} {c : Cfg} {x : Xfer} {s' : Option Grant}
    (h : transferCoinWith keep c x = .ok s') :
    c.status = .active ∧ c.mtype = .restricted ∧ (c.has .transfer = true ∨ c.has .forceTransfer = true)
    ∧ x.dest ≠ .rmkNoDep ∧ x.dest ≠ .blocked := by
  have hfl := (transfer_ok_iff_flowchart keep c x).mp ⟨s', h⟩
  simp only [transferAllowed, Bool.and_eq_true, Bool.or_eq_true, beq_iff_eq, bne_iff_ne] at hfl
  exact ⟨hfl.1.1.1.1.1.1, hfl.1.1.1.1.1.2, hfl.1.1.1.1.2, hfl.1.1.1.2, hfl.1.2⟩

/-- An IBC transfer of restricted coins needs the `transfer` right and, out of another
account, that account's covering grant (model of `IbcTransferCoin`'s guard). -/
theorem ibc_transfer_requires_right_and_grant {keep : Bool} {c : Cfg} {selfFrom : Bool}
    {stored s' : Option Grant} {u : Use} (h : ibcTransferCoinWith keep c selfFrom stored u = .ok s') :
    c.mtype = .restricted ∧ c.has .transfer = true ∧ (selfFrom = true ∨ grantCovers stored u = true) := by
  unfold ibcTransferCoinWith at h
  split at h
  · cases h
  · rename_i hty
    split at h
    · cases h
    · rename_i hacc
      refine ⟨by simpa using hty, by simpa using hacc, ?_⟩
      cases selfFrom
      · right
        simp only [Bool.not_false, if_true] at h
        exact (authzHandler_ok_iff keep _ _).mp ⟨s', h⟩
      · left; rfl

/-! ### Histories of transfers under one grant -/

theorem authzHandler_accounting {keep : Bool} {stored s' : Option Grant} {u : Use}
    (h : authzHandlerWith keep stored u = .ok s') :
    (∀ d, remaining s' d = remaining stored d - (if u.denom = d then u.amount else 0))
    ∧ (∀ d, 0 ≤ remaining s' d) := by
  cases stored with
  | none => simp [authzHandlerWith] at h
  | some g =>
    simp only [authzHandlerWith] at h
    cases ha : acceptWith keep g u with
    | rejectLimit => rw [ha] at h; cases h
    | rejectRecipient => rw [ha] at h; cases h
    | panicNegative => rw [ha] at h; cases h
    | accept del g' =>
      rw [ha] at h
      obtain ⟨hacc, hnn, hdel, _⟩ := accept_accounting ha
      cases del with
      | true =>
        injection h with h; subst h
        have hz := hdel.mp rfl
        refine ⟨fun d => ?_, fun d => by simp [remaining]⟩
        have := hacc d; have := hz d
        simp only [remaining]; omega
      | false =>
        injection h with h; subst h
        exact ⟨fun d => by simpa [remaining] using hacc d, fun d => by simpa [remaining] using hnn d⟩

/-- **A history of transfers is a history of uses of the grant**: replaying on the authz
handler exactly the transfers that went through the grant accepts every one of them and ends
with the same stored grant. Every statement about `useSeqWith` therefore holds of
transfer histories. -/
theorem transferSeq_refines_useSeq (keep : Bool) (c : Cfg) (xs : List Xfer) (stored : Option Grant) :
    useSeqWith keep stored (transferSeqWith keep c stored xs).2 = transferSeqWith keep c stored xs := by
  induction xs generalizing stored with
  | nil => simp [transferSeqWith, useSeqWith]
  | cons x rest ih =>
    simp only [transferSeqWith]
    cases h : transferCoinWith keep c { x with stored := stored } with
    | error e => simpa using ih stored
    | ok s' =>
      have hr := transfer_result h
      cases hu : usesGrant c x
      · have : s' = stored := by simpa using hr.2 (by simpa [usesGrant] using hu)
        subst this
        simpa [hu] using ih s'
      · have ha : authzHandlerWith keep stored x.use = .ok s' := by
          simpa using hr.1 (by simpa [usesGrant] using hu)
        have := ih s'
        simp only [if_true, useSeqWith, ha]
        rw [this]

/-- **Across any sequence of transfers under a grant the total moved never exceeds the granted
limit** — whatever else the requests in the history are (rejected ones, transfers out of the
administrator's own account, forced transfers). -/
theorem transfers_under_grant_within_limit (keep : Bool) (c : Cfg) (g : Grant) (xs : List Xfer)
    (hg : Coins.nonneg g.limit = true) :
    WithinLimit g (transferSeqWith keep c (some g) xs).2 := by
  have h := limit_never_exceeded keep g (transferSeqWith keep c (some g) xs).2 hg
  rw [transferSeq_refines_useSeq] at h
  exact h

/-- …and, once the updated grant keeps its allow list, every recipient of a transfer that went
through the grant is on the allow list. -/
theorem transfers_recipients_on_allow_list_when_kept (c : Cfg) (g : Grant) (xs : List Xfer) :
    RecipientsAllowed g (transferSeqWith true c (some g) xs).2 := by
  have h := recipients_on_allow_list_when_kept g (transferSeqWith true c (some g) xs).2
  rw [transferSeq_refines_useSeq] at h
  exact h

/-! ### The authz store: only the grant the source account gave the signing administrator counts -/

theorem put_same (t : AuthzStore) (p : Pair) (g : Option Grant) : (t.put p g) p = g := by
  simp [AuthzStore.put]

theorem put_other (t : AuthzStore) {p q : Pair} (g : Option Grant) (h : q ≠ p) : (t.put p g) q = t q := by
  simp [AuthzStore.put, h]

/-- What `IbcTransferCoin`'s guard leaves of the grant it is given. -/
theorem ibc_transfer_result {keep : Bool} {c : Cfg} {selfFrom : Bool} {stored s' : Option Grant} {u : Use}
    (h : ibcTransferCoinWith keep c selfFrom stored u = .ok s') :
    (selfFrom = false → authzHandlerWith keep stored u = .ok s') ∧ (selfFrom = true → s' = stored) := by
  unfold ibcTransferCoinWith at h
  split at h
  · cases h
  · split at h
    · cases h
    · cases selfFrom
      · simp only [Bool.not_false, if_true] at h
        exact ⟨fun _ => h, fun hh => (by cases hh)⟩
      · simp only [Bool.not_true] at h
        injection h with h
        exact ⟨fun hh => (by cases hh), fun _ => h.symm⟩

/-- **What a transfer message — `MsgTransferRequest` or `MsgIbcTransferRequest` — does to the
authz store**: it reads and writes one entry only, the grant given BY the account the coins
leave TO the administrator that signs. When the message goes through a grant
(`TMsg.charges`), that entry becomes what `authzHandler` returns for it; otherwise it stays.
Every other grant — the administrator's to the source account, the source's to another
administrator, anybody else's — is exactly as it was. -/
theorem transfer_msg_effect {keep : Bool} {t t' : AuthzStore} {m : TMsg} (h : m.runWith keep t = .ok t') :
    (∀ q, q ≠ (m.from_, m.admin) → t' q = t q)
    ∧ (m.charges = true →
        authzHandlerWith keep (t (m.from_, m.admin)) m.x.use = .ok (t' (m.from_, m.admin)))
    ∧ (m.charges = false → t' (m.from_, m.admin) = t (m.from_, m.admin)) := by
  obtain ⟨ibc, admin, from_, c, x⟩ := m
  cases ibc
  · -- MsgTransferRequest
    simp only [TMsg.runWith, transferMsgWith, Bool.false_eq_true, if_false] at h
    split at h
    · cases h
    cases hr : transferCoinWith keep c { x with selfFrom := admin == from_, stored := t (from_, admin) } with
    | error e => rw [hr] at h; cases h
    | ok s' =>
      rw [hr] at h
      injection h with h; subst h
      have hres := transfer_result hr
      refine ⟨fun q hq => put_other t s' hq, fun hc => ?_, fun hc => ?_⟩
      · rw [put_same]
        exact hres.1 (by simpa [TMsg.charges, usesGrant] using hc)
      · rw [put_same]
        exact hres.2 (by simpa [TMsg.charges, usesGrant] using hc)
  · -- MsgIbcTransferRequest
    simp only [TMsg.runWith, ibcTransferMsgWith, if_true] at h
    split at h
    · cases h
    · cases hr : ibcTransferCoinWith keep c (admin == from_) (t (from_, admin)) x.use with
      | error e => rw [hr] at h; cases h
      | ok s' =>
        rw [hr] at h
        simp only at h
        split at h
        · cases h
        · injection h with h; subst h
          have hres := ibc_transfer_result hr
          refine ⟨fun q hq => put_other t s' hq, fun hc => ?_, fun hc => ?_⟩
          · rw [put_same]
            exact hres.1 (by simpa [TMsg.charges] using hc)
          · rw [put_same]
            exact hres.2 (by simpa [TMsg.charges] using hc)

/-- **Any transfer made on another account's behalf, through either endpoint, requires THAT
account's authz grant to the administrator that signs** — unless it is a forced
`MsgTransferRequest` (marker allows forced transfers, administrator has `force_transfer`, source
neither module nor contract). A grant in the other direction, or to another administrator,
never stands in: only the entry `(from, admin)` of the store is consulted. -/
theorem transfer_msg_needs_the_sources_grant {keep : Bool} {t t' : AuthzStore} {m : TMsg}
    (h : m.runWith keep t = .ok t') (hne : (m.admin == m.from_) = false) :
    (m.ibc = false ∧ m.cfg.forced = true ∧ m.cfg.has .forceTransfer = true
        ∧ moduleOrContractLike m.x.src = false)
    ∨ grantCovers (t (m.from_, m.admin)) m.x.use = true := by
  have heff := (transfer_msg_effect h).2.1
  cases hc : m.charges
  · left
    obtain ⟨ibc, admin, from_, c, x⟩ := m
    cases ibc
    · simp only [TMsg.runWith, transferMsgWith, Bool.false_eq_true, if_false] at h
      split at h
      · cases h
      cases hr : transferCoinWith keep c { x with selfFrom := admin == from_, stored := t (from_, admin) } with
      | error e => rw [hr] at h; cases h
      | ok s' =>
        have hns : ({ x with selfFrom := admin == from_, stored := t (from_, admin) } : Xfer).selfFrom = false := hne
        rcases transfer_on_behalf_needs_grant_or_force hr hns with ⟨h1, h2, h3, _⟩ | ⟨_, h2⟩
        · exact ⟨rfl, h1, h2, h3⟩
        · -- went through the grant: contradicts `charges = false`
          simp only [TMsg.charges, Bool.false_eq_true, if_false, usesGrant] at hc
          simp only at hne
          have hfl := (transfer_ok_iff_flowchart keep c _).mp ⟨s', hr⟩
          simp only [hne, Bool.not_false, Bool.true_and, Bool.not_eq_false'] at hc
          simp only [Bool.and_eq_true] at hc
          exact ⟨rfl, hc.1, hc.2, by
            simp only [transferAllowed, hne, hc.1, hc.2, Bool.and_eq_true, Bool.or_eq_true, Bool.false_or,
              Bool.and_self, if_true] at hfl
            simpa using hfl.1.1.2⟩
    · simp [TMsg.charges, hne] at hc
  · right
    exact (authzHandler_ok_iff keep _ _).mp ⟨_, heff hc⟩

/-- In particular: without a grant from the source account to the signing administrator the
message is refused, whatever other grants the store holds. -/
theorem no_grant_from_source_no_transfer {keep : Bool} {t : AuthzStore} {m : TMsg}
    (hne : (m.admin == m.from_) = false) (hnone : t (m.from_, m.admin) = none)
    (hnf : m.ibc = true ∨ (m.cfg.forced && m.cfg.has .forceTransfer) = false) :
    ∃ e, m.runWith keep t = .error e := by
  cases hr : m.runWith keep t with
  | error e => exact ⟨e, rfl⟩
  | ok t' =>
    exfalso
    rcases transfer_msg_needs_the_sources_grant hr hne with ⟨h1, h2, h3, _⟩ | hcov
    · rcases hnf with hi | hf
      · rw [h1] at hi; cases hi
      · simp [h2, h3] at hf
    · simp [hnone, grantCovers] at hcov

/-- The outcome of a transfer message depends on no other grant: stores that agree on the
entry `(from, admin)` accept the same messages. -/
theorem transfer_msg_ignores_other_grants (keep : Bool) (t₁ t₂ : AuthzStore) (m : TMsg)
    (h : t₁ (m.from_, m.admin) = t₂ (m.from_, m.admin)) :
    (∃ t', m.runWith keep t₁ = .ok t') ↔ (∃ t', m.runWith keep t₂ = .ok t') := by
  obtain ⟨ibc, admin, from_, c, x⟩ := m
  simp only at h
  cases ibc
  · simp only [TMsg.runWith, transferMsgWith, Bool.false_eq_true, if_false, h]
    split
    · simp
    · cases transferCoinWith keep c { x with selfFrom := admin == from_, stored := t₂ (from_, admin) } <;> simp
  · simp only [TMsg.runWith, ibcTransferMsgWith, if_true, h]
    split
    · simp
    · cases ibcTransferCoinWith keep c (admin == from_) (t₂ (from_, admin)) x.use with
      | error e => simp
      | ok s' => simp only; split <;> simp

/-- `MsgIbcTransferRequest` succeeds only for a restricted marker, an administrator with
`transfer` (`force_transfer` does not help), a positive amount the sender holds, and — out of
another account — that account's covering grant to the administrator. -/
theorem ibc_transfer_msg_requires_right_and_senders_grant {keep : Bool} {c : Cfg} {t t' : AuthzStore}
    {admin from_ : String} {u : Use} {bal : Int}
    (h : ibcTransferMsgWith keep c t admin from_ u bal = .ok t') :
    c.mtype = .restricted ∧ c.has .transfer = true ∧ 0 < u.amount ∧ u.amount ≤ bal
    ∧ ((admin == from_) = true ∨ grantCovers (t (from_, admin)) u = true) := by
  unfold ibcTransferMsgWith at h
  split at h
  · cases h
  · rename_i hpos
    cases hr : ibcTransferCoinWith keep c (admin == from_) (t (from_, admin)) u with
    | error e => rw [hr] at h; cases h
    | ok s' =>
      rw [hr] at h
      simp only at h
      split at h
      · cases h
      · rename_i hbal
        obtain ⟨h1, h2, h3⟩ := ibc_transfer_requires_right_and_grant hr
        exact ⟨h1, h2, by omega, by omega, h3⟩

-- non-vacuity: with the sender's grant to the administrator the ibc transfer goes through and
-- debits that grant; with only a grant in the other direction it is refused
example :
    (ibcTransferMsgWith true (exCfg [.transfer] .active .restricted)
        (AuthzStore.empty.put ("S", "C") (some { limit := [("mkrtok", 10)], allow := [] })) "C" "S"
        ⟨"mkrtok", 4, "P1"⟩ 20).toOption.map (fun t => (t ("S", "C")).map (·.limit))
      = some (some [("mkrtok", 10), ("mkrtok", -4)])
    ∧ (ibcTransferMsgWith true (exCfg [.transfer] .active .restricted)
        (AuthzStore.empty.put ("C", "S") (some { limit := [("mkrtok", 10)], allow := [] })) "C" "S"
        ⟨"mkrtok", 4, "P1"⟩ 20).toOption.isSome = false := by decide

/-! ### Histories of transfer messages of both kinds over the authz store -/

theorem usesOf_cons (p q : Pair) (u : Use) (cs : List (Pair × Use)) :
    usesOf p ((q, u) :: cs) = if q = p then u :: usesOf p cs else usesOf p cs := by
  by_cases h : q = p <;> simp [usesOf, h]

/-- **A history of transfer messages is, grant by grant, a history of uses of that grant**:
for every `(granter, grantee)` pair, replaying on the authz handler exactly the transfers
charged to it accepts every one of them and ends with the entry the store holds — whatever
else happens in the history (other administrators, other endpoints, other grants, rejected
messages, forced transfers, own-account transfers). -/
theorem msgSeq_refines_useSeq (keep : Bool) (ms : List TMsg) (t : AuthzStore) (p : Pair) :
    useSeqWith keep (t p) (usesOf p (msgSeqWith keep t ms).2)
      = ((msgSeqWith keep t ms).1 p, usesOf p (msgSeqWith keep t ms).2) := by
  induction ms generalizing t with
  | nil => simp [msgSeqWith, usesOf, useSeqWith]
  | cons m rest ih =>
    simp only [msgSeqWith]
    cases h : m.runWith keep t with
    | error e => simpa using ih t
    | ok t' =>
      obtain ⟨hframe, hch, hnch⟩ := transfer_msg_effect h
      have ih' := ih t'
      simp only
      cases hc : m.charges
      · have htp : t' p = t p := by
          by_cases hp : p = (m.from_, m.admin)
          · rw [hp]; exact hnch hc
          · exact hframe p hp
        simp only [Bool.false_eq_true, if_false]
        rw [← htp]; exact ih'
      · simp only [if_true, usesOf_cons]
        by_cases hp : (m.from_, m.admin) = p
        · simp only [hp, if_true]
          have ha := hch hc
          rw [hp] at ha
          simp only [useSeqWith, ha]
          rw [ih']
        · simp only [hp, if_false]
          have htp : t' p = t p := hframe p (fun hh => hp hh.symm)
          rw [← htp]; exact ih'

/-- **Across any sequence of transfer messages — `MsgTransferRequest` and
`MsgIbcTransferRequest`, by any administrators, out of any accounts — the total moved under
each grant never exceeds that grant's limit.** -/
theorem transfer_messages_within_each_grant (keep : Bool) (ms : List TMsg) (t : AuthzStore) (p : Pair)
    (g : Grant) (ht : t p = some g) (hg : Coins.nonneg g.limit = true) :
    WithinLimit g (usesOf p (msgSeqWith keep t ms).2) := by
  have h := limit_never_exceeded keep g (usesOf p (msgSeqWith keep t ms).2) hg
  have hr := msgSeq_refines_useSeq keep ms t p
  rw [ht] at hr
  rw [hr] at h
  exact h

/-- …and with the allow list carried over by `Accept`, every recipient of a transfer charged
to a grant is on that grant's allow list. -/
theorem transfer_messages_recipients_on_allow_list_when_kept (ms : List TMsg) (t : AuthzStore)
    (p : Pair) (g : Grant) (ht : t p = some g) :
    RecipientsAllowed g (usesOf p (msgSeqWith true t ms).2) := by
  have h := recipients_on_allow_list_when_kept g (usesOf p (msgSeqWith true t ms).2)
  have hr := msgSeq_refines_useSeq true ms t p
  rw [ht] at hr
  rw [hr] at h
  exact h

/-- A pair without a grant is never charged: nothing moves under a grant that does not exist
(a grant of another pair cannot be used in its place). -/
theorem no_grant_nothing_charged (keep : Bool) (ms : List TMsg) (t : AuthzStore) (p : Pair)
    (ht : t p = none) : usesOf p (msgSeqWith keep t ms).2 = [] := by
  have hr := msgSeq_refines_useSeq keep ms t p
  rw [ht, useSeq_none] at hr
  exact (Prod.mk.inj hr).2.symm

/-- **A transfer message with a negative amount is refused** (`ValidateBasic`, before the marker,
the rights or the grant are looked at); an ibc transfer needs a positive one. -/
theorem transfer_msg_amount_nonneg {keep : Bool} {t t' : AuthzStore} {m : TMsg}
    (h : m.runWith keep t = .ok t') : 0 ≤ m.x.use.amount ∧ (m.ibc = true → 0 < m.x.use.amount) := by
  obtain ⟨ibc, admin, from_, c, x⟩ := m
  cases ibc
  · simp only [TMsg.runWith, transferMsgWith, Bool.false_eq_true, if_false] at h
    split at h
    · cases h
    · rename_i hv
      simp only [validateBasicTransfer, Bool.not_eq_true', decide_eq_false_iff_not, Decidable.not_not] at hv
      exact ⟨hv, fun hh => by cases hh⟩
  · simp only [TMsg.runWith, if_true] at h
    have hpos : 0 < x.use.amount := (ibc_transfer_msg_requires_right_and_senders_grant h).2.2.1
    exact ⟨Int.le_of_lt hpos, fun _ => hpos⟩

/-- Every use charged to a grant in any history of transfer messages is of a non-negative amount. -/
theorem charged_uses_nonneg (keep : Bool) (ms : List TMsg) (t : AuthzStore) :
    ∀ e ∈ (msgSeqWith keep t ms).2, 0 ≤ e.2.amount := by
  induction ms generalizing t with
  | nil => intro e he; simp [msgSeqWith] at he
  | cons m rest ih =>
    intro e he
    simp only [msgSeqWith] at he
    cases h : m.runWith keep t with
    | error err => rw [h] at he; exact ih t e he
    | ok t' =>
      rw [h] at he
      simp only at he
      split at he
      · rcases List.mem_cons.mp he with rfl | he'
        · exact (transfer_msg_amount_nonneg h).1
        · exact ih t' e he'
      · exact ih t' e he

/-- **Across any sequence of transfer messages of both kinds the total really moved under each
grant — the sum of the positive amounts — never exceeds that grant's limit**, and every single
transfer charged to it is between 0 and the limit. -/
theorem transfer_messages_within_each_grant_pos (keep : Bool) (ms : List TMsg) (t : AuthzStore) (p : Pair)
    (g : Grant) (ht : t p = some g) (hg : Coins.nonneg g.limit = true) :
    WithinLimitPos g (usesOf p (msgSeqWith keep t ms).2)
    ∧ ∀ u ∈ usesOf p (msgSeqWith keep t ms).2, 0 ≤ u.amount ∧ u.amount ≤ Coins.amountOf g.limit u.denom := by
  have h := limit_never_exceeded_pos keep g (usesOf p (msgSeqWith keep t ms).2) hg
  have hr := msgSeq_refines_useSeq keep ms t p
  rw [ht] at hr
  rw [hr] at h
  exact h

/-- …and likewise for histories of `MsgTransferRequest`s under one grant. -/
theorem transfers_under_grant_within_limit_pos (keep : Bool) (c : Cfg) (g : Grant) (xs : List Xfer)
    (hg : Coins.nonneg g.limit = true) :
    WithinLimitPos g (transferSeqWith keep c (some g) xs).2 := by
  have h := (limit_never_exceeded_pos keep g (transferSeqWith keep c (some g) xs).2 hg).1
  rw [transferSeq_refines_useSeq] at h
  exact h

-- non-vacuity: a negative transfer message is refused, the grant stays what it was
example :
    let t : AuthzStore := AuthzStore.empty.put ("S", "C") (some { limit := [("mkrtok", 10)], allow := [] })
    let x : Xfer := { exXfer { exModuleLike with seqNonZero := true } none with use := ⟨"mkrtok", -5, "P1"⟩ }
    (TMsg.runWith true t ⟨false, "C", "S", exCfg [.transfer] .active .restricted, x⟩).toOption.isSome = false
    ∧ (TMsg.runWith true t ⟨true, "C", "S", exCfg [.transfer] .active .restricted, x⟩).toOption.isSome = false := by
  decide

-- non-vacuity: a history with both endpoints, two administrators and grants in both
-- directions: each transfer is charged to the grant source → signer, the others stay
example :
    let g (n : Int) : Option Grant := some { limit := [("mkrtok", n)], allow := [] }
    let t : AuthzStore := ((AuthzStore.empty.put ("S", "C") (g 10)).put ("C", "S") (g 50)).put ("S", "K") (g 7)
    let x : Xfer := exXfer { exModuleLike with seqNonZero := true } none
    let c := exCfg [.transfer] .active .restricted
    let r := msgSeqWith true t
      [⟨true, "C", "S", c, x⟩, ⟨false, "K", "S", c, x⟩, ⟨true, "C", "S", c, x⟩, ⟨true, "C", "S", c, x⟩,
       ⟨false, "K", "S", c, x⟩]
    usesOf ("S", "C") r.2 = [⟨"mkrtok", 5, "P1"⟩, ⟨"mkrtok", 5, "P1"⟩]
    ∧ usesOf ("S", "K") r.2 = [⟨"mkrtok", 5, "P1"⟩]
    ∧ usesOf ("C", "S") r.2 = []
    ∧ r.1 ("S", "C") = none
    ∧ (r.1 ("C", "S")).map (·.limit) = some [("mkrtok", 50)] := by decide

end PvProofs.C12
