/-
C19 — the translated Go code equals the hand-written model.

`Generated/FeeArith.lean` is written by `tools/extract/arith.go` from the repository's current
source on every run (statement-by-statement translation of `QuoIntRoundUp`,
`FeeRatio.applyLooselyTo/ApplyTo/ApplyToLoosely`, `SplitCoinByBips`, `MinSDKInt`). The theorems
below state, for ALL inputs, that each translated definition computes exactly what the model
function the C19 theorems are about computes; the corollaries at the end restate the property
clauses directly on the translated code. A change of the Go arithmetic changes the generated
definitions and breaks these proofs (or makes the function untranslatable, which removes the
definition).
-/
import Generated.FeeArith
import PvProofs.C19

namespace PvProofs.C19Gen
open PvModel PvModel.Fees PvModel.GoInt PvProofs PvProofs.C19

/-- every target function was found and is inside the translatable subset -/
theorem translation_complete :
    Generated.FeeArith.status.all (fun p => p.2 == "ok") = true := by decide

/-- so was every function the harness drives (guards against a silently shrinking target list) -/
theorem translation_targets :
    Generated.FeeArith.status.map (·.1) =
      ["MinSDKInt", "QuoIntRoundUp", "applyLooselyTo", "ApplyTo", "ApplyToLoosely", "SplitCoinByBips",
        "CalculateExchangeSplit.body"] := by
  decide

theorem fits256_of_abs_le {x y : Int} (hy : fits256 y = true) (h : x.natAbs ≤ y.natAbs) :
    fits256 x = true := by
  unfold fits256 at *
  simp only [decide_eq_true_eq] at *
  omega

theorem fits256_of_nonneg_le {x y : Int} (hy : fits256 y = true) (h0 : 0 ≤ x) (h : x ≤ y) :
    fits256 x = true := fits256_of_abs_le hy (by omega)

theorem gen_MinSDKInt (a b : Int) :
    Generated.FeeArith.MinSDKInt a b = .ok (min a b) := by
  unfold Generated.FeeArith.MinSDKInt GoInt.lte
  by_cases h : a ≤ b
  · simp [h, pure, Except.pure, Int.min_def]
  · simp [h, pure, Except.pure, Int.min_def]

/-- a truncated quotient with a non-zero remainder is strictly smaller in magnitude than the
dividend, so rounding it away from zero cannot leave the 256-bit range -/
theorem tdiv_succ_le {a b : Int} (hr : a.tmod b ≠ 0) :
    (a.tdiv b).natAbs + 1 ≤ a.natAbs := by
  have h1 : (a.tmod b).natAbs ≠ 0 := fun h => hr (Int.natAbs_eq_zero.mp h)
  rw [Int.natAbs_tmod] at h1
  rw [Int.natAbs_tdiv]
  show a.natAbs / b.natAbs + 1 ≤ a.natAbs
  rcases Nat.eq_zero_or_pos b.natAbs with hb | hb
  · rw [hb] at h1 ⊢
    simp only [Nat.mod_zero, Nat.div_zero] at h1 ⊢
    omega
  have h2 := Nat.div_add_mod a.natAbs b.natAbs
  have h3 : a.natAbs / b.natAbs ≤ b.natAbs * (a.natAbs / b.natAbs) := Nat.le_mul_of_pos_left _ hb
  omega

theorem gen_QuoIntRoundUp (a b : Int) (hb : b ≠ 0) (ha : fits256 a = true) :
    Generated.FeeArith.QuoIntRoundUp a b = .ok (quoIntRoundUp a b) := by
  unfold Generated.FeeArith.QuoIntRoundUp quoIntRoundUp GoInt.quoRemInt GoInt.isZero GoInt.isNegative
    GoInt.sign GoInt.add add256
  by_cases hr : a.tmod b = 0
  · simp [hb, hr, bind, Except.bind, pure, Except.pure]
  · have hle := tdiv_succ_le hr
    have hfa : a.natAbs < 2 ^ 256 := by simpa [fits256] using ha
    have f1 : fits256 (a.tdiv b + 1) = true := by
      unfold fits256; simp only [decide_eq_true_eq]; omega
    have f2 : fits256 (a.tdiv b + -1) = true := by
      unfold fits256; simp only [decide_eq_true_eq]; omega
    by_cases hc : a.tdiv b < 0 ∨ (a.tdiv b = 0 ∧ a.sign * b.sign < 0)
    · simp [hb, hr, hc, f2, bind, Except.bind, pure, Except.pure]
      omega
    · simp [hb, hr, hc, f1, bind, Except.bind, pure, Except.pure]

/-- `big.Int.BitLen() > 256` is exactly "does not fit 256 bits" -/
theorem bitLen_gt_iff (q : Int) : decide (GoInt.bitLen q > 256) = !fits256 q := by
  unfold GoInt.bitLen fits256
  by_cases h0 : q = 0
  · subst h0; simp
  · have hn : q.natAbs ≠ 0 := fun h => h0 (Int.natAbs_eq_zero.mp h)
    simp only [h0, if_false]
    have key : (256 < q.natAbs.log2 + 1) ↔ ¬ q.natAbs < 2 ^ 256 := by
      rw [Nat.not_lt, ← Nat.le_log2 hn]; omega
    have cast : ((↑(q.natAbs.log2 + 1) : Int) > 256) ↔ (256 < q.natAbs.log2 + 1) := by omega
    by_cases hlt : q.natAbs < 2 ^ 256
    · have h1 : ¬ ((↑(q.natAbs.log2 + 1) : Int) > 256) := fun h => (key.mp (cast.mp h)) hlt
      have a : ¬ (256 < (q.natAbs.log2 : Int) + 1) := by omega
      simp [a]; omega
    · have h1 : ((↑(q.natAbs.log2 + 1) : Int) > 256) := cast.mpr (key.mpr hlt)
      have a : (256 < (q.natAbs.log2 : Int) + 1) := by omega
      simp [a]; omega

/-- the translated `applyLooselyTo` is the model's, error classes included; a price in another
denomination is rejected before any arithmetic -/
theorem gen_applyLooselyTo (r : GoFeeRatio) (price : GoCoin) :
    Generated.FeeArith.applyLooselyTo r price =
      if r.price.denom = price.denom
      then Fees.applyLooselyTo price.amount r.price.amount r.fee.amount
      else .error .invalid := by
  unfold Generated.FeeArith.applyLooselyTo Fees.applyLooselyTo GoInt.quoRemInt GoInt.isZero
    GoInt.newIntFromBigInt GoInt.sign
  by_cases hd : r.price.denom = price.denom
  · by_cases hz : r.price.amount = 0
    · simp [hd, hz, throw, throwThe, MonadExceptOf.throw]
    · simp only [hd, hz, bind, Except.bind, pure, Except.pure, throw, throwThe, MonadExceptOf.throw,
        ne_eq, not_true_eq_false, decide_false, decide_true, if_true, if_false, Bool.false_eq_true,
        Bool.not_eq_true', bitLen_gt_iff]
      by_cases hrem : (price.amount * r.fee.amount).tmod r.price.amount = 0
      · have hs : ((price.amount * r.fee.amount).tmod r.price.amount).sign = 0 := by simp [hrem]
        simp only [hrem, hs, not_true_eq_false, decide_false, if_false, Bool.false_eq_true]
        cases hf : fits256 ((price.amount * r.fee.amount).tdiv r.price.amount) <;> simp [hf]
      · have hs : ¬ ((price.amount * r.fee.amount).tmod r.price.amount).sign = 0 := by
          simpa [Int.sign_eq_zero_iff_zero] using hrem
        simp only [hrem, hs, not_false_eq_true, decide_true, if_true]
        cases hf : fits256 ((price.amount * r.fee.amount).tdiv r.price.amount + 1) <;> simp [hf]
  · simp [hd, throw, throwThe, MonadExceptOf.throw]

theorem gen_ApplyTo (r : GoFeeRatio) (price : GoCoin) (hd : r.price.denom = price.denom) :
    Generated.FeeArith.ApplyTo r price =
      (Fees.applyTo price.amount r.price.amount r.fee.amount).map (fun a => ⟨r.fee.denom, a⟩) := by
  unfold Generated.FeeArith.ApplyTo Fees.applyTo
  rw [gen_applyLooselyTo]
  simp only [hd, if_true]
  cases Fees.applyLooselyTo price.amount r.price.amount r.fee.amount with
  | error e => rfl
  | ok v =>
    obtain ⟨amt, rounded⟩ := v
    cases rounded <;> rfl

theorem gen_ApplyToLoosely (r : GoFeeRatio) (price : GoCoin) (hd : r.price.denom = price.denom) :
    Generated.FeeArith.ApplyToLoosely r price =
      (Fees.applyLooselyTo price.amount r.price.amount r.fee.amount).map
        (fun v => ⟨r.fee.denom, v.1⟩) := by
  unfold Generated.FeeArith.ApplyToLoosely
  rw [gen_applyLooselyTo]
  simp only [hd, if_true]
  cases Fees.applyLooselyTo price.amount r.price.amount r.fee.amount with
  | error e => rfl
  | ok v => rfl

/-- the translated `SplitCoinByBips` on a valid coin (non-negative amount inside the 256-bit
range, which `sdk.Coin` guarantees) is the model's, with both parts in the coin's denomination:
none of the intermediate `sdkmath` operations can overflow, divide by zero or build a negative coin -/
theorem gen_SplitCoinByBips (coin : GoCoin) (bips : Nat)
    (h0 : 0 ≤ coin.amount) (hf : fits256 coin.amount = true) :
    Generated.FeeArith.SplitCoinByBips coin bips =
      (Fees.splitCoinByBips coin.amount bips).map
        (fun v => (⟨coin.denom, v.1⟩, ⟨coin.denom, v.2⟩)) := by
  unfold Generated.FeeArith.SplitCoinByBips Fees.splitCoinByBips
  by_cases hgt : bips > 10000
  · simp [hgt, bind, Except.bind, throw, throwThe, MonadExceptOf.throw, Except.map]
  · by_cases h10 : bips = 10000
    · subst h10
      simp [GoInt.newCoin, bind, Except.bind, pure, Except.pure, Except.map]
    · have hbl : (bips : Int) < 10000 := by omega
      have hb0 : (0 : Int) ≤ bips := Int.natCast_nonneg _
      obtain ⟨e1, e2⟩ := tdiv_tmod_nonneg h0 (by decide : (0 : Int) < 10000)
      obtain ⟨f1, f2, f3⟩ := ediv_facts coin.amount (by decide : (0 : Int) < 10000)
      have hq : 0 ≤ coin.amount / 10000 := Int.ediv_nonneg h0 (by decide)
      have hrem : 0 ≤ coin.amount % 10000 * (bips : Int) := Int.mul_nonneg f2 hb0
      obtain ⟨g1, g2⟩ := tdiv_tmod_nonneg hrem (by decide : (0 : Int) < 10000)
      obtain ⟨k1, k2, k3⟩ := ediv_facts (coin.amount % 10000 * (bips : Int)) (by decide : (0 : Int) < 10000)
      have hq2 : 0 ≤ coin.amount % 10000 * (bips : Int) / 10000 := Int.ediv_nonneg hrem (by decide)
      have hwb : 0 ≤ coin.amount / 10000 * (bips : Int) := Int.mul_nonneg hq hb0
      have h3 : coin.amount % 10000 * (bips : Int) ≤ coin.amount % 10000 * 10000 := by nlinarith
      have h4 : coin.amount / 10000 * (bips : Int) ≤ coin.amount / 10000 * 10000 := by nlinarith
      -- the intermediate values and their ranges
      have hsub : coin.amount - coin.amount / 10000 * 10000 = coin.amount % 10000 := by omega
      have r1 : fits256 (coin.amount / 10000 * 10000) = true :=
        fits256_of_nonneg_le hf (by omega) (by omega)
      have r2 : fits256 (coin.amount % 10000) = true := fits256_of_nonneg_le hf f2 (by omega)
      have r3 : fits256 (coin.amount / 10000 * (bips : Int)) = true :=
        fits256_of_nonneg_le hf hwb (by omega)
      have r4 : fits256 (coin.amount % 10000 * (bips : Int)) = true := by
        unfold fits256; simp only [decide_eq_true_eq]
        have : coin.amount % 10000 * (bips : Int) < 100000000 := by nlinarith
        omega
      have hle : coin.amount / 10000 * (bips : Int) + coin.amount % 10000 * (bips : Int) / 10000
          ≤ coin.amount := by nlinarith
      have r5 : fits256 (coin.amount / 10000 * (bips : Int) +
          coin.amount % 10000 * (bips : Int) / 10000) = true :=
        fits256_of_nonneg_le hf (by omega) hle
      have r6 : fits256 (coin.amount - (coin.amount / 10000 * (bips : Int) +
          coin.amount % 10000 * (bips : Int) / 10000)) = true :=
        fits256_of_nonneg_le hf (by omega) (by omega)
      have n1 : ¬ (coin.amount / 10000 * (bips : Int) +
          coin.amount % 10000 * (bips : Int) / 10000 < 0) := by omega
      have n2 : ¬ (coin.amount - (coin.amount / 10000 * (bips : Int) +
          coin.amount % 10000 * (bips : Int) / 10000) < 0) := by omega
      simp [hgt, h10, e1, e2, g1, hsub, r1, r2, r3, r4, r5, r6, n1, n2, GoInt.quo, GoInt.mul,
        GoInt.sub, GoInt.add, GoInt.newCoin, mul256, add256, bind, Except.bind, pure, Except.pure,
        Except.map]

theorem mul256_ok {a b r : Int} (h : mul256 a b = .ok r) : r = a * b ∧ fits256 r = true := by
  unfold mul256 at h
  by_cases hf : fits256 (a * b) = true
  · simp [hf] at h; subst h; exact ⟨rfl, hf⟩
  · simp [hf] at h

theorem add256_ok {a b r : Int} (h : add256 a b = .ok r) : r = a + b ∧ fits256 r = true := by
  unfold add256 at h
  by_cases hf : fits256 (a + b) = true
  · simp [hf] at h; subst h; exact ⟨rfl, hf⟩
  · simp [hf] at h

/-- the translated body of `CalculateExchangeSplit`'s loop (one fee coin, with the denom's split
as looked up by the keeper) is the model's `exchangeSplitCoin`, the result being a coin of the same
denomination; `sdk.NewCoin` cannot panic because the share of a non-negative amount is non-negative -/
theorem gen_exchangeSplit_body (coin : GoCoin) (split : Nat) (h0 : 0 ≤ coin.amount) :
    Generated.FeeArith.«CalculateExchangeSplit.body» coin split =
      (Fees.exchangeSplitCoin coin.amount split).map (Option.map fun x => ⟨coin.denom, x⟩) := by
  unfold Generated.FeeArith.«CalculateExchangeSplit.body» Fees.exchangeSplitCoin GoInt.isZero
    GoInt.quoRemInt GoInt.mul GoInt.add GoInt.newCoin
  by_cases ha : coin.amount = 0
  · simp [ha, pure, Except.pure, Except.map]
  · by_cases hs : split = 0
    · simp [ha, hs, pure, Except.pure, Except.map]
    · have hs' : ¬ ((split : Int) = 0) := by omega
      obtain ⟨e1, e2⟩ := tdiv_tmod_nonneg h0 (by decide : (0 : Int) < 10000)
      obtain ⟨f1, f2, f3⟩ := ediv_facts coin.amount (by decide : (0 : Int) < 10000)
      have hq : 0 ≤ coin.amount / 10000 := Int.ediv_nonneg h0 (by decide)
      have hsn : (0 : Int) ≤ split := Int.natCast_nonneg _
      simp only [ha, hs, hs', decide_false, decide_true, if_false, Bool.false_eq_true, bind, Except.bind,
        pure, Except.pure, show ¬ ((10000 : Int) = 0) by decide]
      cases hm1 : mul256 (coin.amount.tdiv 10000) (split : Int) with
      | error e => simp [Except.map]
      | ok a =>
        simp only []
        cases hm2 : mul256 (coin.amount.tmod 10000) (split : Int) with
        | error e => simp [Except.map]
        | ok b =>
          simp only []
          have hbfit : fits256 b = true := (mul256_ok hm2).2
          have hbv : b = coin.amount.tmod 10000 * (split : Int) := (mul256_ok hm2).1
          have hav : a = coin.amount.tdiv 10000 * (split : Int) := (mul256_ok hm1).1
          rw [gen_QuoIntRoundUp b 10000 (by decide) hbfit]
          simp only []
          cases hadd : add256 a (quoIntRoundUp b 10000) with
          | error e => simp [Except.map]
          | ok r =>
            have hr : r = a + quoIntRoundUp b 10000 := (add256_ok hadd).1
            have hb0 : 0 ≤ b := by rw [hbv, e2]; exact Int.mul_nonneg f2 hsn
            have hc0 : 0 ≤ quoIntRoundUp b 10000 :=
              isCeilDiv_nonneg (by decide) hb0 (quoIntRoundUp_isCeil hb0 (by decide))
            have ha0 : 0 ≤ a := by rw [hav, e1]; exact Int.mul_nonneg hq hsn
            have hneg : ¬ (r < 0) := by omega
            simp [hneg, Except.map]

/-! ### The property clauses, restated on the translated code -/

/-- [on the code] `QuoIntRoundUp` rounds away from zero for every sign combination. -/
theorem code_QuoIntRoundUp_away_from_zero (a b : Int) (hb : b ≠ 0) (ha : fits256 a = true) :
    Generated.FeeArith.QuoIntRoundUp a b = .ok (roundAway a b) := by
  rw [gen_QuoIntRoundUp a b hb ha, quoIntRoundUp_away_from_zero a b hb]

/-- [on the code] the ratio fee is the ceiling of `price·fee/ratioPrice` in the ratio's fee
denomination, whenever the FEE itself fits 256 bits (the product may be of any size; the exact
failing set is `applyLoosely_fails_iff`). -/
theorem code_ApplyToLoosely_is_ceil (r : GoFeeRatio) (price : GoCoin)
    (hd : r.price.denom = price.denom) (hp : 0 ≤ price.amount) (hrf : 0 ≤ r.fee.amount)
    (hrp : 0 < r.price.amount)
    (hfit : fits256 (ceilDiv (price.amount * r.fee.amount) r.price.amount) = true) :
    ∃ fee, Generated.FeeArith.ApplyToLoosely r price = .ok fee ∧ fee.denom = r.fee.denom ∧
      IsCeilDiv (price.amount * r.fee.amount) r.price.amount fee.amount ∧ 0 ≤ fee.amount := by
  obtain ⟨a, rd, hok, hceil, _, hnn⟩ := applyLoosely_is_ceil hp hrf hrp hfit
  refine ⟨⟨r.fee.denom, a⟩, ?_, rfl, hceil, hnn⟩
  rw [gen_ApplyToLoosely r price hd, hok]; rfl

/-- [on the code] the strict application succeeds exactly on exact divisions, with the exact quotient. -/
theorem code_ApplyTo_exact (r : GoFeeRatio) (price : GoCoin)
    (hd : r.price.denom = price.denom) (hp : 0 ≤ price.amount) (hrf : 0 ≤ r.fee.amount)
    (hrp : 0 < r.price.amount)
    (hfit : fits256 (ceilDiv (price.amount * r.fee.amount) r.price.amount) = true) :
    (∀ fee, Generated.FeeArith.ApplyTo r price = .ok fee →
        fee.amount * r.price.amount = price.amount * r.fee.amount ∧ fee.denom = r.fee.denom) ∧
    ((price.amount * r.fee.amount) % r.price.amount = 0 →
        ∃ fee, Generated.FeeArith.ApplyTo r price = .ok fee) := by
  obtain ⟨h1, h2⟩ := applyTo_exact hp hrf hrp hfit
  rw [gen_ApplyTo r price hd]
  constructor
  · intro fee hfee
    cases hm : Fees.applyTo price.amount r.price.amount r.fee.amount with
    | error e => rw [hm] at hfee; cases hfee
    | ok a =>
      rw [hm] at hfee
      have : fee = ⟨r.fee.denom, a⟩ := by
        simp only [Except.map] at hfee; cases hfee; rfl
      subst this
      exact ⟨h1 a hm, rfl⟩
  · intro hex
    obtain ⟨a, ha⟩ := h2 hex
    exact ⟨⟨r.fee.denom, a⟩, by rw [ha]; rfl⟩

/-- [on the code] message-fee split of a valid coin: never fails, recipient gets the floor of
`amount·bips/10000`, the two parts are in the coin's denomination, non-negative and add up. -/
theorem code_SplitCoinByBips_floor_and_adds_up (coin : GoCoin) (bips : Nat)
    (h0 : 0 ≤ coin.amount) (hf : fits256 coin.amount = true) (hb : bips ≤ 10000) :
    ∃ rc mc, Generated.FeeArith.SplitCoinByBips coin bips = .ok (rc, mc) ∧
      rc.denom = coin.denom ∧ mc.denom = coin.denom ∧
      IsFloorDiv (coin.amount * bips) 10000 rc.amount ∧
      rc.amount + mc.amount = coin.amount ∧ 0 ≤ rc.amount ∧ 0 ≤ mc.amount := by
  obtain ⟨r, m, hok, hfl, hsum, hr, hm⟩ := splitByBips_floor_and_adds_up h0 hb
  refine ⟨⟨coin.denom, r⟩, ⟨coin.denom, m⟩, ?_, rfl, rfl, hfl, hsum, hr, hm⟩
  rw [gen_SplitCoinByBips coin bips h0 hf, hok]; rfl

/-- [on the code] more than 10000 basis points is rejected. -/
theorem code_SplitCoinByBips_rejects (coin : GoCoin) (bips : Nat) (hb : 10000 < bips) :
    Generated.FeeArith.SplitCoinByBips coin bips = .error .invalid := by
  unfold Generated.FeeArith.SplitCoinByBips
  simp [hb, bind, Except.bind, throw, throwThe, MonadExceptOf.throw]

/-- non-vacuity: the hypotheses are met by a concrete coin beyond 2^63 and the code's answer is computed -/
example : Generated.FeeArith.SplitCoinByBips ⟨"nhash", 2 ^ 64 + 7⟩ 2500 =
    .ok (⟨"nhash", 4611686018427387905⟩, ⟨"nhash", 13835058055282163718⟩) := by decide

example : Generated.FeeArith.ApplyToLoosely ⟨⟨"usd", 1000⟩, ⟨"nhash", 25⟩⟩ ⟨"usd", 1200⟩ =
    .ok ⟨"nhash", 30⟩ := by decide

/-- [on the code] the exchange's share of one fee coin, as `CalculateExchangeSplit` computes it:
for a valid coin and a split of at most 10000 bips it never fails and is exactly
`⌈amount·split/10000⌉` in the coin's denomination, between 0 and the amount (skipped for a zero
amount or a zero split). -/
theorem code_exchangeSplit_is_ceil (coin : GoCoin) (split : Nat) (h0 : 0 < coin.amount)
    (hs0 : 0 < split) (hs : split ≤ 10000) (hf : fits256 coin.amount = true) :
    ∃ x, Generated.FeeArith.«CalculateExchangeSplit.body» coin split = .ok (some ⟨coin.denom, x⟩) ∧
      IsCeilDiv (coin.amount * split) 10000 x ∧ 0 ≤ x ∧ x ≤ coin.amount := by
  obtain ⟨x, hx, hc, h1, h2⟩ := exchangeSplit_is_ceil h0 hs0 hs hf
  refine ⟨x, ?_, hc, h1, h2⟩
  rw [gen_exchangeSplit_body coin split (by omega), hx]; rfl

example : Generated.FeeArith.«CalculateExchangeSplit.body» ⟨"nhash", 2 ^ 256 - 2⟩ 8047 =
    .ok (some ⟨"nhash", 93177894209268342457347571636491159449526356660440961882551517851167695421255⟩) := by
  decide

end PvProofs.C19Gen
