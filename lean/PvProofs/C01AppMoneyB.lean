/-
C01 — soundness of the keeper-level checker: the three per-user money clauses (`app_assets_exact`,
`app_buyer_pays_exact`, `app_seller_gets_at_least`) never fire on the model's own dumps, given the
abstract description `MoneyCtx` of what an accepted message moved.
-/
import PvProofs.C01AppBase
import Mathlib.Tactic.Linarith
namespace PvProofs.C01
open PvModel PvModel.Settle PvModel.Coins PvModel.Ledger PvProofs.Settle

/-! ### Generic sums -/

theorem sum_forall₂_congr {α β : Type} {R : α → β → Prop} {g : α → Int} {h : β → Int}
    {l : List α} {r : List β} (hf : List.Forall₂ R l r) :
    (∀ a b, a ∈ l → R a b → g a = h b) → (l.map g).sum = (r.map h).sum := by
  induction hf with
  | nil => intro _; rfl
  | cons hab _ ih =>
    intro hp
    simp only [List.map_cons, List.sum_cons]
    rw [hp _ _ (List.mem_cons_self ..) hab, ih (fun a b ha => hp a b (List.mem_cons_of_mem _ ha))]

theorem sum_forall₂_le {α β : Type} {R : α → β → Prop} {g : α → Int} {h : β → Int}
    {l : List α} {r : List β} (hf : List.Forall₂ R l r) :
    (∀ a b, a ∈ l → R a b → g a ≤ h b) → (l.map g).sum ≤ (r.map h).sum := by
  induction hf with
  | nil => intro _; exact Int.le_refl _
  | cons hab _ ih =>
    intro hp
    simp only [List.map_cons, List.sum_cons]
    have h1 := hp _ _ (List.mem_cons_self ..) hab
    have h2 := ih (fun a b ha => hp a b (List.mem_cons_of_mem _ ha))
    omega

theorem sum_map_neg' {α : Type} (l : List α) (f : α → Int) :
    (l.map fun a => - f a).sum = - (l.map f).sum := by
  induction l with
  | nil => simp
  | cons a t ih => simp only [List.map_cons, List.sum_cons, ih]; omega

/-! ### The seller ratio fee is 1-Lipschitz in the price -/

theorem ratioCeil_mono {ratio : Option Ratio} (h : RatioOk ratio) {p P : Int} (hp : p ≤ P) :
    p - ratioCeil ratio p ≤ P - ratioCeil ratio P := by
  cases ratio with
  | none => simp only [ratioCeil]; omega
  | some r =>
    obtain ⟨hb, _, hfb⟩ := h r rfl
    simp only [ratioCeil]
    have h1 := ceilDiv_isCeil (p * r.feeAmt) hb
    have h2 := ceilDiv_isCeil (P * r.feeAmt) hb
    generalize Fees.ceilDiv (p * r.feeAmt) r.priceAmt = r1 at *
    generalize Fees.ceilDiv (P * r.feeAmt) r.priceAmt = r2 at *
    unfold Fees.IsCeilDiv at h1 h2
    obtain ⟨_, h1⟩ := h1
    obtain ⟨h2, _⟩ := h2
    have e : (P - p) * r.feeAmt ≤ (P - p) * r.priceAmt := Int.mul_le_mul_of_nonneg_left hfb (by omega)
    have e2 : r.priceAmt * (r2 - 1 - r1) < r.priceAmt * (P - p) := by
      have a1 : r.priceAmt * (r2 - 1 - r1) = r.priceAmt * (r2 - 1) - r.priceAmt * r1 := by ring
      have a2 : (P - p) * r.feeAmt = P * r.feeAmt - p * r.feeAmt := by ring
      have a3 : (P - p) * r.priceAmt = r.priceAmt * (P - p) := by ring
      linarith
    have := Int.lt_of_mul_lt_mul_left e2 (by omega)
    omega

/-! ### A user's balance change in terms of the filled orders -/

section
variable {accts : List Addr} {s s' : KState} {ratio : Option Ratio} {splitOf : Denom → Nat}
  {parts : List Order}

theorem ctx_not_mem (ctx : MoneyCtx accts s s' ratio splitOf parts) :
    marketName ∉ accts ∧ collectorName ∉ accts := by
  have h := ctx.nodup
  rw [List.nodup_append] at h
  obtain ⟨_, _, h3⟩ := h
  exact ⟨fun hm => h3 _ hm _ (by simp) rfl, fun hc => h3 _ hc _ (by simp) rfl⟩

theorem user_bal (ctx : MoneyCtx accts s s' ratio splitOf parts) {x : Addr} (hx : x ∈ accts) (d : Denom) :
    Ledger.bal ctx.L x d =
      (ctx.fos.map fun f => if f.order.owner = x then f.delta d - amountOf f.actualFees d else 0).sum := by
  obtain ⟨hm, hc⟩ := ctx_not_mem ctx
  have hm' : marketName ≠ x := fun e => hm (e ▸ hx)
  have hc' : collectorName ≠ x := fun e => hc (e ▸ hx)
  rw [ctx.bal x d, if_neg hm', if_neg hc']
  unfold expectedDelta expectedFees
  rw [Int.add_zero, Int.add_zero, ← sum_map_sub]
  apply congrArg
  apply List.map_congr_left
  intro f _
  by_cases h : f.order.owner = x <;> simp [h]

theorem user_delta (ctx : MoneyCtx accts s s' ratio splitOf parts) {x : Addr} (hx : x ∈ accts) (d : Denom) :
    cDelta (dumpOf accts s) (dumpOf accts s') x d =
      (ctx.fos.map fun f => if f.order.owner = x then f.delta d - amountOf f.actualFees d else 0).sum := by
  rw [cDelta_dumpOf ctx.ledger x d (List.mem_append_left _ hx)]
  exact user_bal ctx hx d

/-! ### The three equalities / inequality in `Prop` form -/

theorem assets_eq (ctx : MoneyCtx accts s s' ratio splitOf parts) {x : Addr} (hx : x ∈ accts) (ad : Denom)
    (hg : ∀ q ∈ parts, q.priceDenom ≠ ad ∧ ad ∉ denoms q.fees) :
    cDelta (dumpOf accts s) (dumpOf accts s') x ad =
      ((parts.filter fun q => q.owner = x ∧ q.assetsDenom = ad).map fun q =>
        if q.isAsk then - q.assets else q.assets).sum := by
  rw [user_delta ctx hx ad, sum_filter_eq_sum_ite]
  symm
  apply sum_forall₂_congr ctx.parts
  intro q f hq ⟨ho, hs, had, hpd, has, _, hfee⟩
  obtain ⟨hne, hnm⟩ := hg q hq
  have hne' : ¬ (q.isAsk = true ∧ ad = q.priceDenom) := fun h => hne h.2.symm
  rw [hfee ad, amountOf_not_mem hnm, if_neg hne']
  simp only [FilledOrder.delta, ← ho, ← hs, ← had, ← hpd, ← has, if_neg hne]
  by_cases h1 : q.owner = x <;> by_cases h2 : q.assetsDenom = ad <;> by_cases h3 : q.isAsk = true <;>
    simp [h1, h2, h3]

theorem buyer_eq (ctx : MoneyCtx accts s s' ratio splitOf parts) {x : Addr} (hx : x ∈ accts) (d : Denom)
    (hb : ∀ q ∈ parts, q.owner = x → q.isAsk = false) (hd : ∀ q ∈ parts, q.owner = x → q.assetsDenom ≠ d) :
    cDelta (dumpOf accts s) (dumpOf accts s') x d =
      - ((parts.filter (·.owner = x)).map fun q =>
          (if q.priceDenom = d then q.price else 0) + amountOf q.fees d).sum := by
  rw [user_delta ctx hx d, sum_filter_eq_sum_ite, ← sum_map_neg']
  symm
  apply sum_forall₂_congr ctx.parts
  intro q f hq ⟨ho, hs, had, hpd, has, hpr, hfee⟩
  by_cases h1 : q.owner = x
  · have hbid := hb q hq h1
    have hne := hd q hq h1
    have hne' : ¬ (q.isAsk = true ∧ d = q.priceDenom) := by simp [hbid]
    rw [hbid] at hpr
    simp only [Bool.false_eq_true, if_false] at hpr
    rw [hfee d, if_neg hne']
    simp only [FilledOrder.delta, ← ho, ← hs, ← had, ← hpd, ← has, if_neg hne, hbid, hpr]
    simp [h1]
    omega
  · simp only [← ho]
    simp [h1]

theorem seller_ge (ctx : MoneyCtx accts s s' ratio splitOf parts) {x : Addr} (hx : x ∈ accts) (d : Denom)
    (hb : ∀ q ∈ parts, q.owner = x → q.isAsk = true) (hd : ∀ q ∈ parts, q.owner = x → q.assetsDenom ≠ d) :
    ((parts.filter (·.owner = x)).map fun q =>
        (if q.priceDenom = d then q.price - ratioCeil ratio q.price else 0) - amountOf q.fees d).sum ≤
      cDelta (dumpOf accts s) (dumpOf accts s') x d := by
  rw [user_delta ctx hx d, sum_filter_eq_sum_ite]
  apply sum_forall₂_le ctx.parts
  intro q f hq ⟨ho, hs, had, hpd, has, hpr, hfee⟩
  by_cases h1 : q.owner = x
  · have hask := hb q hq h1
    have hne := hd q hq h1
    rw [hask] at hpr
    simp only [if_true] at hpr
    have hmono := ratioCeil_mono ctx.ratioOk hpr
    rw [hfee d]
    simp only [FilledOrder.delta, ← ho, ← hs, ← had, ← hpd, ← has, if_neg hne, hask]
    by_cases h2 : q.priceDenom = d
    · have h2' : d = q.priceDenom := h2.symm
      simp [h1, h2]
      omega
    · have h2' : ¬ d = q.priceDenom := fun e => h2 e.symm
      simp [h1, h2, h2']
  · simp only [← ho]
    simp [h1]

end

/-! ### The clauses never fire -/

section
variable {accts : List Addr} {s s' : KState} {ratio : Option Ratio} {splitOf : Denom → Nat}
  {parts : List Order} {ids : List Nat} {virt : Option Order}

theorem money_clAssets (ctx : MoneyCtx accts s s' ratio splitOf parts)
    (hparts : cParts ids virt (dumpOf accts s) (dumpOf accts s') = parts) :
    clAssets ids virt (dumpOf accts s) (dumpOf accts s') = false := by
  obtain ⟨hm, hc⟩ := ctx_not_mem ctx
  unfold clAssets
  simp only [hparts]
  rw [List.any_eq_false]
  intro p _ h
  rw [Bool.and_eq_true] at h
  obtain ⟨hg, hu⟩ := h
  rw [List.any_eq_true] at hu
  obtain ⟨x, hx, hne⟩ := hu
  rw [mem_cUsers _ hm hc] at hx
  have hne' := of_decide_eq_true hne
  apply hne'
  apply assets_eq ctx hx
  intro q hq
  have hg' := of_decide_eq_true hg
  rw [List.all_eq_true] at hg'
  have := of_decide_eq_true (hg' q hq)
  refine ⟨this.1, fun hmem => ?_⟩
  have h2 := this.2
  rw [List.all_eq_true] at h2
  exact of_decide_eq_true (h2 _ hmem) rfl

theorem money_clBuyer (ctx : MoneyCtx accts s s' ratio splitOf parts)
    (hparts : cParts ids virt (dumpOf accts s) (dumpOf accts s') = parts) :
    clBuyer ids virt (dumpOf accts s) (dumpOf accts s') = false := by
  obtain ⟨hm, hc⟩ := ctx_not_mem ctx
  unfold clBuyer
  simp only [hparts]
  rw [List.any_eq_false]
  intro x hx h
  rw [mem_cUsers _ hm hc] at hx
  simp only [Bool.and_eq_true, List.any_eq_true, List.all_eq_true, List.mem_filter,
    decide_eq_true_eq, Bool.not_eq_eq_eq_not, Bool.not_true] at h
  obtain ⟨⟨_, hb⟩, d, _, hd, hne⟩ := h
  exact hne (buyer_eq ctx hx d (fun q hq ho => hb q ⟨hq, ho⟩) (fun q hq ho => hd q ⟨hq, ho⟩))

theorem money_clSeller (ctx : MoneyCtx accts s s' ratio splitOf parts)
    (hparts : cParts ids virt (dumpOf accts s) (dumpOf accts s') = parts) :
    clSeller ratio ids virt (dumpOf accts s) (dumpOf accts s') = false := by
  obtain ⟨hm, hc⟩ := ctx_not_mem ctx
  unfold clSeller
  simp only [hparts]
  rw [List.any_eq_false]
  intro x hx h
  rw [mem_cUsers _ hm hc] at hx
  simp only [Bool.and_eq_true, List.any_eq_true, List.all_eq_true, List.mem_filter,
    decide_eq_true_eq] at h
  obtain ⟨⟨_, hb⟩, d, _, hd, hlt⟩ := h
  have := seller_ge ctx hx d (fun q hq ho => hb q ⟨hq, ho⟩) (fun q hq ho => hd q ⟨hq, ho⟩)
  omega

end

end PvProofs.C01
