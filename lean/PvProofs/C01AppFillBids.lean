/-
C01 — soundness of the keeper-level checker: an accepted `MsgFillBids` in the abstract form `MoneyCtx`
(the named bids plus the seller as the virtual ask order the checker builds from the dump).
-/
import PvProofs.C01AppMsgBase
import Mathlib.Tactic.Linarith
namespace PvProofs.C01
open PvModel PvModel.Settle PvModel.Coins PvModel.Ledger PvProofs.Settle

theorem fb_perm_sum {l₁ l₂ : List Int} (h : l₁.Perm l₂) : l₁.sum = l₂.sum := by
  induction h with
  | nil => rfl
  | cons x _ ih => simp only [List.sum_cons, ih]
  | swap x y l => simp only [List.sum_cons]; omega
  | trans _ _ ih1 ih2 => exact ih1.trans ih2

theorem fb_amountOf_nonneg {c : Coins} (h : ∀ x ∈ c, 0 ≤ x.2) (d : Denom) : 0 ≤ amountOf c d := by
  induction c with
  | nil => simp
  | cons x t ih =>
    obtain ⟨d', a⟩ := x
    have h1 : 0 ≤ a := h (d', a) (by simp)
    have h2 := ih (fun y hy => h y (by simp [hy]))
    simp only [amountOf_cons]
    split <;> omega

theorem fb_forall₂_append_single {α β : Type} {R : α → β → Prop} {l₁ : List α} {l₂ : List β} {a : α} {b : β}
    (h : List.Forall₂ R l₁ l₂) (hab : R a b) : List.Forall₂ R (l₁ ++ [a]) (l₂ ++ [b]) := by
  induction h with
  | nil => exact .cons hab .nil
  | cons h1 _ ih => exact .cons h1 ih

theorem fb_forall₂_map_right {α β : Type} {R : α → β → Prop} (l : List α) (g : α → β)
    (H : ∀ a ∈ l, R a (g a)) : List.Forall₂ R l (l.map g) := by
  induction l with
  | nil => exact .nil
  | cons a t ih =>
    exact .cons (H a (by simp)) (ih fun b hb => H b (by simp [hb]))

/-- the stored orders named by `ids` are, up to their order, the orders `getOrders` fetched -/
theorem fb_filter_perm {s : KState} {ids : List Nat} {seller : Addr} {orders : List Order}
    (hI : (s.orders.map (·.id)).Nodup) (hg : s.getOrders false ids seller = .ok orders)
    (hnd : (orders.map (·.id)).Nodup) :
    (s.orders.filter (fun o => ids.contains o.id)).Perm orders := by
  have hmem := getOrders_mem hg
  have hidl := getOrders_ids hg
  have n1 : s.orders.Nodup := List.Pairwise.of_map _ (fun a b hab e => hab (by rw [e])) hI
  have n2 : orders.Nodup := List.Pairwise.of_map _ (fun a b hab e => hab (by rw [e])) hnd
  rw [List.perm_ext_iff_of_nodup (n1.filter _) n2]
  intro a
  simp only [List.mem_filter, List.contains_eq_mem, decide_eq_true_eq]
  constructor
  · rintro ⟨ha, hid⟩
    rw [← hidl, List.mem_map] at hid
    obtain ⟨b, hb, hbid⟩ := hid
    have : b = a := eq_of_mem_same_key (·.id) hI (hmem b hb).1 ha hbid
    exact this ▸ hb
  · intro ha
    refine ⟨(hmem a ha).1, ?_⟩
    rw [← hidl]
    exact List.mem_map.mpr ⟨a, ha, rfl⟩

/-- the seller of a `FillBids` as the ask order it stands for -/
def fb_virt (seller : Addr) (ad pd : Denom) (flat : Coins) (orders : List Order) : Order :=
  { id := 0, isAsk := true, owner := seller, assetsDenom := ad, assets := (orders.map (·.assets)).sum,
    priceDenom := pd, price := (orders.map (·.price)).sum, fees := flat, allowPartial := false }

theorem fb_fillVirt_eq {s : KState} {accts : List Addr} {ids : List Nat} {seller : Addr} {orders : List Order}
    {flat : Coins} {ad pd : Denom}
    (hI : (s.orders.map (·.id)).Nodup) (hg : s.getOrders false ids seller = .ok orders)
    (hnd : (orders.map (·.id)).Nodup) (hne : orders ≠ []) (hsd : SingleDenom s ad pd) :
    fillVirt true seller ids flat (dumpOf accts s) = some (fb_virt seller ad pd flat orders) := by
  have hperm := fb_filter_perm hI hg hnd
  have hdo : (dumpOf accts s).orders = s.orders := rfl
  cases hF : s.orders.filter (fun o => ids.contains o.id) with
  | nil =>
    rw [hF] at hperm
    exact absurd hperm.symm.eq_nil hne
  | cons o t =>
    have ho : o ∈ s.orders := by
      have : o ∈ s.orders.filter (fun o => ids.contains o.id) := by rw [hF]; simp
      exact (List.mem_filter.mp this).1
    obtain ⟨h1, h2⟩ := hsd o ho
    have ha : ((o :: t).map (·.assets)).sum = (orders.map (·.assets)).sum := by
      rw [← hF]; exact fb_perm_sum (hperm.map _)
    have hp : ((o :: t).map (·.price)).sum = (orders.map (·.price)).sum := by
      rw [← hF]; exact fb_perm_sum (hperm.map _)
    simp only [fillVirt, hdo, hF, ha, hp, h1, h2, fb_virt]

theorem fb_sum_fillOwnerDelta (orders : List Order) (ad pd d : Denom)
    (h : ∀ o ∈ orders, o.assetsDenom = ad ∧ o.priceDenom = pd) :
    (orders.map fun o => fillOwnerDelta o d).sum =
      (if ad = d then (orders.map (·.assets)).sum else 0) - (if pd = d then (orders.map (·.price)).sum else 0) := by
  induction orders with
  | nil => simp
  | cons o t ih =>
    obtain ⟨h1, h2⟩ := h o (by simp)
    have ih := ih (fun o ho => h o (by simp [ho]))
    simp only [List.map_cons, List.sum_cons]
    rw [ih]
    simp only [fillOwnerDelta, h1, h2]
    split <;> split <;> omega

theorem fb_expectedDelta (orders : List Order) (hask : ∀ o ∈ orders, o.isAsk = false) (v : FilledOrder)
    (x : Addr) (d : Denom) :
    expectedDelta (orders.map (fun o => (⟨o, o.price, o.fees⟩ : FilledOrder)) ++ [v]) x d =
      (orders.map fun o => if o.owner = x then fillOwnerDelta o d else 0).sum
        + (if v.order.owner = x then v.delta d else 0) := by
  unfold expectedDelta
  simp only [List.map_append, List.sum_append, List.map_map, List.map_cons, List.map_nil, List.sum_cons,
    List.sum_nil, Int.add_zero]
  congr 2
  apply List.map_congr_left
  intro o ho
  simp [FilledOrder.delta, fillOwnerDelta, hask o ho]

theorem fb_expectedFees (orders : List Order) (v : FilledOrder) (x : Addr) (d : Denom) :
    expectedFees (orders.map (fun o => (⟨o, o.price, o.fees⟩ : FilledOrder)) ++ [v]) x d =
      (orders.map fun o => if o.owner = x then amountOf o.fees d else 0).sum
        + (if v.order.owner = x then amountOf v.actualFees d else 0) := by
  unfold expectedFees
  simp only [List.map_append, List.sum_append, List.map_map, List.map_cons, List.map_nil, List.sum_cons,
    List.sum_nil, Int.add_zero]
  rfl

theorem fb_totalFees (orders : List Order) (v : FilledOrder) (d : Denom) :
    totalFees (orders.map (fun o => (⟨o, o.price, o.fees⟩ : FilledOrder)) ++ [v]) d =
      (orders.map fun o => amountOf o.fees d).sum + amountOf v.actualFees d := by
  unfold totalFees
  simp only [List.map_append, List.sum_append, List.map_map, List.map_cons, List.map_nil, List.sum_cons,
    List.sum_nil, Int.add_zero]
  rfl

theorem fb_flatten_nil_of_none {s : KState} (hr : s.ratio = none) {l : Coins} {rf : List Coins}
    (h : List.Forall₂ (IsRatioFeeOf s) l rf) : rf.flatten = [] := by
  induction h with
  | nil => rfl
  | cons hab _ ih =>
    unfold IsRatioFeeOf at hab
    rw [hr] at hab
    simp only at hab
    simp [hab, ih]

/-- the seller's ratio fee of a `FillBids`: `⌈(Σ prices)·fee/price⌉` in the price denom, non-negative -/
theorem fb_ratio_fee {s : KState} {orders : List Order} {ratioFees : List Coins} {pd : Denom}
    (hr : SellerRatioOk s.ratio) (hne : orders ≠ []) (hpos : ∀ o ∈ orders, 0 < o.price)
    (hpd : ∀ o ∈ orders, o.priceDenom = pd)
    (h : List.Forall₂ (IsRatioFeeOf s) (sumCoins (orders.map fun o => [(o.priceDenom, o.price)])) ratioFees) :
    0 ≤ ratioCeil s.ratio (orders.map (·.price)).sum ∧
    ∀ d, amountOf ratioFees.flatten d = if d = pd then ratioCeil s.ratio (orders.map (·.price)).sum else 0 := by
  cases hsr : s.ratio with
  | none =>
    rw [fb_flatten_nil_of_none hsr h]
    simp [ratioCeil]
  | some r =>
    obtain ⟨hrd, hrp, hrf0, _⟩ := hr r hsr
    obtain ⟨hall, amt, hfl, hceil⟩ := fillBids_seller_fee_ceil hsr hrp hrf0 hne hpos h
    have hP : 0 ≤ (orders.map (·.price)).sum :=
      (le_sum_of_mem_nonneg (fun o : Order => o.price) orders (fun a ha => Int.le_of_lt (hpos a ha))).1
    have hamt : amt = ratioCeil (some r) (orders.map (·.price)).sum := ratioCeil_of_isCeil hrp hceil
    have hamt0 : 0 ≤ amt := isCeilDiv_nonneg hrp (Int.mul_nonneg hP hrf0) hceil
    have hpdr : pd = r.feeDenom := by
      cases orders with
      | nil => exact absurd rfl hne
      | cons o t =>
        rw [← hpd o (by simp), hall o (by simp), hrd]
    refine ⟨hamt ▸ hamt0, fun d => ?_⟩
    rw [hfl, ← hamt, hpdr]
    simp only [amountOf_cons, amountOf_nil, Int.add_zero]
    by_cases hd : r.feeDenom = d
    · simp [hd]
    · have hd' : ¬ d = r.feeDenom := fun e => hd e.symm
      simp [hd, hd']

theorem fillBids_moneyCtx {s s' : KState} {accts : List Addr} {seller : Addr} {ids : List Nat} {ta flat : Coins}
    {ad pd : Denom}
    (hI : StoreInv s) (h : s.msgFillBids marketName collectorName seller ids ta flat = .ok s')
    (hn : (accts ++ [marketName, collectorName]).Nodup) (hown : ∀ o ∈ s.orders, o.owner ∈ accts)
    (hseller : seller ∈ accts) (hr : SellerRatioOk s.ratio) (hsd : SingleDenom s ad pd)
    (hflat : ∀ c ∈ flat, 0 ≤ c.2) :
    ∃ orders virt, s.getOrders false ids seller = .ok orders ∧
      fillVirt true seller ids flat (dumpOf accts s) = some virt ∧
      ∃ ctx : MoneyCtx accts s s' s.ratio s.splitOf (orders ++ [virt]), ∀ d, supply ctx.L d = 0 := by
  obtain ⟨hfb, orders0, hg0, hnd, _⟩ := msgFillBids_once h
  have hids : ids ≠ [] := by
    unfold KState.msgFillBids at h
    split at h; · simp at h
    rename_i hv
    exact (validateOrderIDs_ok hv).1
  obtain ⟨orders, ratioFees, sellerFees, ex, L, hg, hL, _, hsf, hrf, hshare, hbal, hsup⟩ := fillBids_deltas hfb
  have he : orders0 = orders := by
    rw [hg0] at hg; exact Except.ok.inj hg
  subst he
  have hmem := getOrders_mem hg
  have hidl := getOrders_ids hg
  have hne : orders0 ≠ [] := by
    intro e; rw [e] at hidl; exact hids hidl.symm
  have hden : ∀ o ∈ orders0, o.assetsDenom = ad ∧ o.priceDenom = pd := fun o ho => hsd o (hmem o ho).1
  have hask : ∀ o ∈ orders0, o.isAsk = false := fun o ho => (hmem o ho).2.1
  have hpos : ∀ o ∈ orders0, 0 < o.price := fun o ho => (hI.pos o (hmem o ho).1).price
  obtain ⟨hrc0, hrfee⟩ := fb_ratio_fee hr hne hpos (fun o ho => (hden o ho).2) hrf
  have hsfd : ∀ d, amountOf sellerFees d = amountOf flat d +
      (if d = pd then ratioCeil s.ratio (orders0.map (·.price)).sum else 0) := by
    intro d; rw [hsf, amountOf_append, hrfee d]
  refine ⟨orders0, fb_virt seller ad pd flat orders0, hg, fb_fillVirt_eq hI.nodup hg hnd hne hsd, ?_⟩
  refine ⟨{ L := L
            fos := orders0.map (fun o => (⟨o, o.price, o.fees⟩ : FilledOrder)) ++
              [⟨fb_virt seller ad pd flat orders0, (fb_virt seller ad pd flat orders0).price, sellerFees⟩]
            ex := ex
            nodup := hn
            ledger := hL
            bal := ?_
            share := ?_
            owners := ?_
            feesNonneg := ?_
            ratioOk := hr.ratioOk
            parts := ?_ }, hsup⟩
  · intro x d
    rw [hbal x d, fb_expectedDelta orders0 hask, fb_expectedFees, fb_totalFees]
    have hsplit : (orders0.map fun o => if o.owner = x then fillOwnerDelta o d - amountOf o.fees d else 0).sum
        = (orders0.map fun o => if o.owner = x then fillOwnerDelta o d else 0).sum
          - (orders0.map fun o => if o.owner = x then amountOf o.fees d else 0).sum := by
      rw [← sum_map_sub]
      congr 1
      apply List.map_congr_left
      intro o _
      split <;> omega
    have hvd : (⟨fb_virt seller ad pd flat orders0, (fb_virt seller ad pd flat orders0).price, sellerFees⟩ :
        FilledOrder).delta d = - (orders0.map fun o => fillOwnerDelta o d).sum := by
      rw [fb_sum_fillOwnerDelta orders0 ad pd d hden]
      by_cases h1 : pd = d <;> by_cases h2 : ad = d <;>
        simp only [FilledOrder.delta, fb_virt, h1, h2, ↓reduceIte] <;> omega
    rw [hsplit, hvd]
    simp only [fb_virt]
    by_cases h1 : seller = x <;> by_cases h2 : marketName = x <;> by_cases h3 : collectorName = x <;>
      simp only [h1, h2, h3, ↓reduceIte] <;> omega
  · intro d
    rw [fb_totalFees]
    exact hshare d
  · intro f hf
    rw [List.mem_append] at hf
    rcases hf with hf | hf
    · obtain ⟨o, ho, rfl⟩ := List.mem_map.mp hf
      exact hown o (hmem o ho).1
    · rw [List.mem_singleton] at hf
      subst hf
      exact hseller
  · intro f hf d
    rw [List.mem_append] at hf
    rcases hf with hf | hf
    · obtain ⟨o, ho, rfl⟩ := List.mem_map.mp hf
      exact fb_amountOf_nonneg (hI.pos o (hmem o ho).1).fees d
    · rw [List.mem_singleton] at hf
      subst hf
      show 0 ≤ amountOf sellerFees d
      rw [hsfd d]
      have := fb_amountOf_nonneg hflat d
      split <;> omega
  · refine fb_forall₂_append_single (fb_forall₂_map_right _ _ ?_) ?_
    · intro o ho
      refine partOf_self (f := ⟨o, o.price, o.fees⟩) ?_ ?_
      · simp [hask o ho]
      · intro d; simp [hask o ho]
    · refine partOf_self
        (f := ⟨fb_virt seller ad pd flat orders0, (fb_virt seller ad pd flat orders0).price, sellerFees⟩) ?_ ?_
      · simp [fb_virt]
      · intro d
        rw [hsfd d]
        simp [fb_virt]

end PvProofs.C01
