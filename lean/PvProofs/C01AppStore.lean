/-
C01 — soundness of the keeper-level checker: the order-store clauses (`clUnknown`, `clOther`, `clNew`,
`clTwoPartials`, `clPartial`) and the holds clause (`clHolds`) of `acceptedViolation` never fire on the
model's own dumps of an accepted `MsgMarketSettle` / `MsgFillBids` / `MsgFillAsks`; and what the checker's
`parts` are on those dumps (`cParts_eq`), for the money clauses.
-/
import PvProofs.C01AppBase

namespace PvProofs.C01
open PvModel PvModel.Settle PvModel.Coins PvModel.Ledger PvProofs.Settle

/-! ### list helpers -/

theorem eraseDups_of_nodup {l : List Nat} (h : l.Nodup) : l.eraseDups = l := by
  induction l with
  | nil => simp
  | cons a t ih =>
    rw [List.nodup_cons] at h
    rw [List.eraseDups_cons]
    have e : t.filter (fun b => !b == a) = t := by
      rw [List.filter_eq_self]
      intro b hb
      have : b ≠ a := fun e => h.1 (e ▸ hb)
      simp [this]
    rw [e, ih h.2]

theorem filterMap_eq_map_of {α β : Type} (l : List α) (g : α → Option β) (f : α → β)
    (h : ∀ a ∈ l, g a = some (f a)) : l.filterMap g = l.map f := by
  induction l with
  | nil => rfl
  | cons a t ih =>
    rw [List.filterMap_cons, h a (by simp), List.map_cons, ih (fun b hb => h b (by simp [hb]))]

/-! ### the abstract store step -/

/-- What an accepted message does to the order store, abstractly: it names the distinct ids `ids`, these
are the ids of the stored orders `os` (in this order), the store afterwards is `storeAfter`, and what is
left (`left`) is the remainder of a split of one of the named orders (of positive price). -/
structure StoreCtx (s s' : KState) (ids : List Nat) (os : List Order) (left : Option Order) : Prop where
  hI : StoreInv s
  hids : ids.Nodup
  hos : os.map (·.id) = ids
  hmem : ∀ o ∈ os, o ∈ s.orders
  hstore : s'.orders = storeAfter s.orders ids left
  hleft : ∀ l, left = some l → ∃ o f amt, o ∈ os ∧ o.id = l.id ∧ o.split amt = .ok (f, l) ∧ 0 < o.price

/-- what the store has under `o`'s id afterwards -/
def leftFor (left : Option Order) (o : Order) : Option Order :=
  match left with
  | some l => if l.id = o.id then some l else none
  | none => none

section
variable {s s' : KState} {ids : List Nat} {os : List Order} {left : Option Order}

theorem StoreCtx.id_mem (C : StoreCtx s s' ids os left) {o : Order} (ho : o ∈ os) : o.id ∈ ids := by
  rw [← C.hos]; exact List.mem_map_of_mem ho

theorem StoreCtx.left_id_mem (C : StoreCtx s s' ids os left) : ∀ l, left = some l → l.id ∈ ids := by
  intro l hl
  obtain ⟨o, f, amt, ho, hid, _, _⟩ := C.hleft l hl
  rw [← hid]; exact C.id_mem ho

theorem StoreCtx.after_nodup (C : StoreCtx s s' ids os left) : (s'.orders.map (·.id)).Nodup := by
  rw [C.hstore]; exact List.Nodup.sublist (storeAfter_spec s.orders ids left).1 C.hI.nodup

theorem StoreCtx.find_before (C : StoreCtx s s' ids os left) {o : Order} (ho : o ∈ os) :
    s.orders.find? (fun x => x.id = o.id) = some o :=
  find?_of_nodup C.hI.nodup (C.hmem o ho)

theorem StoreCtx.find_after (C : StoreCtx s s' ids os left) {o : Order} (ho : o ∈ os) :
    s'.orders.find? (fun x => x.id = o.id) = leftFor left o := by
  have hoid : o.id ∈ ids := C.id_mem ho
  have hgone : ∀ x ∈ s'.orders, x.id = o.id → left = some x := by
    intro x hx hid
    rw [C.hstore] at hx
    exact (storeAfter_spec s.orders ids left).2.2 x hx (hid ▸ hoid)
  unfold leftFor
  cases hl : left with
  | none =>
    simp only
    rw [List.find?_eq_none]
    intro x hx
    simp only [decide_eq_true_eq]
    intro hid
    have := hgone x hx hid
    rw [hl] at this; cases this
  | some l =>
    simp only
    by_cases hid : l.id = o.id
    · rw [if_pos hid, ← hid]
      apply find?_of_nodup C.after_nodup
      obtain ⟨o', f, amt, ho', hid', _, _⟩ := C.hleft l hl
      rw [C.hstore, hl]
      unfold storeAfter
      simp only
      exact List.mem_map.mpr ⟨o', List.mem_filter.mpr ⟨C.hmem o' ho', by simp [hid']⟩, by simp [hid']⟩
    · rw [if_neg hid, List.find?_eq_none]
      intro x hx
      simp only [decide_eq_true_eq]
      intro hxid
      have := hgone x hx hxid
      rw [hl] at this
      cases this
      exact hid hxid

/-- **The checker's `touched` on the model's own dumps**: the named orders, in the order of the request,
each with what the store has under its id afterwards — nothing, or the remainder `left`. -/
theorem cTouched_eq (C : StoreCtx s s' ids os left) (accts : List Addr) :
    cTouched ids (dumpOf accts s) (dumpOf accts s') =
      os.map fun o => (o, match (generalizing := false) left with
        | some l => if l.id = o.id then some l else none
        | none => none) := by
  unfold cTouched
  rw [eraseDups_of_nodup C.hids, ← C.hos, List.filterMap_map]
  apply filterMap_eq_map_of
  intro o ho
  show ((dumpOf accts s).orders.find? (fun x => x.id = o.id)).map
      (fun ob => (ob, (dumpOf accts s').orders.find? (fun x => x.id = o.id))) = _
  show (s.orders.find? (fun x => x.id = o.id)).map
      (fun ob => (ob, s'.orders.find? (fun x => x.id = o.id))) = _
  rw [C.find_before ho, C.find_after ho]
  rfl

/-- **The checker's `parts` on the model's own dumps**: every named order as stored, except the one left
partially filled, which takes part with what was filled of it; then the sender of a user fill. -/
theorem cParts_eq (C : StoreCtx s s' ids os left) (accts : List Addr) (virt : Option Order) :
    cParts ids virt (dumpOf accts s) (dumpOf accts s') =
      (os.map fun o => match (generalizing := false) left with
        | some l => if l.id = o.id then filledPart o (some l) else o
        | none => o) ++ virt.toList := by
  unfold cParts
  rw [cTouched_eq C accts, List.map_map]
  congr 1
  apply List.map_congr_left
  intro o _
  simp only [Function.comp]
  cases left with
  | none => rfl
  | some l =>
    simp only
    split <;> rfl

/-! ### the store clauses -/

theorem store_clUnknown (C : StoreCtx s s' ids os left) (accts : List Addr) :
    ¬ clUnknown ids (dumpOf accts s) (dumpOf accts s') := by
  unfold clUnknown
  rw [cTouched_eq C accts, eraseDups_of_nodup C.hids, List.length_map, ← C.hos, List.length_map]
  exact fun h => h rfl

theorem store_clOther (C : StoreCtx s s' ids os left) (accts : List Addr) :
    clOther ids (dumpOf accts s) (dumpOf accts s') = false := by
  unfold clOther
  rw [eraseDups_of_nodup C.hids, List.any_eq_false]
  intro o ho
  have ho : o ∈ s.orders := ho
  show ¬ ((!ids.contains o.id && !s'.orders.contains o) = true)
  by_cases hin : o.id ∈ ids
  · simp [hin]
  · have : o ∈ s'.orders := by
      rw [C.hstore]
      exact ((storeAfter_spec s.orders ids left).2.1 o hin C.left_id_mem).mpr ho
    simp [this]

theorem store_clNew (C : StoreCtx s s' ids os left) (accts : List Addr) :
    clNew (dumpOf accts s) (dumpOf accts s') = false := by
  unfold clNew
  rw [List.any_eq_false]
  intro o ho
  have ho : o ∈ s'.orders := ho
  show ¬ ((!s.orders.any (fun x => x.id = o.id)) = true)
  have hsub := (storeAfter_spec s.orders ids left).1
  rw [← C.hstore] at hsub
  have : o.id ∈ s.orders.map (·.id) := hsub.subset (List.mem_map_of_mem ho)
  obtain ⟨x, hx, hxid⟩ := List.mem_map.mp this
  have : s.orders.any (fun x => x.id = o.id) = true := by
    rw [List.any_eq_true]; exact ⟨x, hx, by simpa using hxid⟩
  simp [this]

theorem store_clTwoPartials (C : StoreCtx s s' ids os left) (accts : List Addr) :
    ¬ clTwoPartials ids (dumpOf accts s) (dumpOf accts s') := by
  unfold clTwoPartials
  rw [cTouched_eq C accts, List.filter_map, List.length_map]
  cases left with
  | none =>
    have e : os.filter ((fun p : Order × Option Order => p.2.isSome) ∘ fun o => (o, (none : Option Order))) = [] := by
      rw [List.filter_eq_nil_iff]; intro a _; simp
    simp only at e ⊢
    rw [e]; simp
  | some l =>
    have h1 := filter_length_le_one (fun o : Order => o.id) l.id os (by rw [C.hos]; exact C.hids)
    have e : os.filter ((fun p : Order × Option Order => p.2.isSome) ∘ fun o =>
        (o, if l.id = o.id then some l else none)) = os.filter (fun o => decide (o.id = l.id)) := by
      apply List.filter_congr
      intro o _
      simp only [Function.comp]
      by_cases h : l.id = o.id
      · simp [h]
      · have : ¬ o.id = l.id := fun e => h e.symm
        simp [h, this]
    simp only at e ⊢
    rw [e]
    omega

/-! ### the holds clause -/

theorem store_clHolds {accts : List Addr} (s s' : KState) (hm : marketName ∉ accts) (hc : collectorName ∉ accts) :
    clHolds (dumpOf accts s) (dumpOf accts s') = false := by
  unfold clHolds
  rw [List.any_eq_false]
  intro x hx
  have hx : x ∈ accts := (mem_cUsers s hm hc x).mp hx
  rw [Bool.not_eq_true, List.any_eq_false]
  intro d _
  rw [dump_hold accts s' x d hx]
  show ¬ (decide (amountOf (s'.holdsOf x) d ≠
    ((s'.orders.filter (fun o => o.owner = x)).map fun o => amountOf o.holdAmount d).sum) = true)
  unfold KState.holdsOf
  rw [amountOf_flatten, List.map_map]
  simp [Function.comp_def]

end

/-! ### the partial order's remainder keeps the proportions -/

/-- the hold amount per denom is determined by side, denoms, assets, price and the fees per denom -/
theorem holdAmount_congr {a b : Order} (h1 : a.isAsk = b.isAsk) (h2 : a.assetsDenom = b.assetsDenom)
    (h3 : a.priceDenom = b.priceDenom) (h4 : a.assets = b.assets) (h5 : a.price = b.price)
    (h6 : ∀ d, amountOf a.fees d = amountOf b.fees d) (d : Denom) :
    amountOf a.holdAmount d = amountOf b.holdAmount d := by
  unfold Order.holdAmount
  rw [h1, h2, h3, h4, h5]
  by_cases hk : b.isAsk = true
  · simp only [hk, if_true, amountOf_cons]
    rw [amountOf_filter_denom a.fees (fun x => decide (x ≠ b.priceDenom)) d,
      amountOf_filter_denom b.fees (fun x => decide (x ≠ b.priceDenom)) d, h6]
  · simp only [hk, Bool.false_eq_true, if_false, amountOf_append, h6]

/-- **What the checker reconstructs as the filled part of a split order passes `splitViolation`.**
For `o.split amt = .ok (f, l)` the checker sees only `o` (before) and `l` (after); its filled part
`o − l` (fees: `dropZero (canon (o.fees − l.fees))`) has the assets, price and per-denom fees of `f`, and
the filled amount it computes, `o.assets − l.assets`, is `amt`. -/
theorem filledPart_split_sound {o f l : Order} {amt : Int} (h : o.split amt = .ok (f, l)) (hp : 0 < o.price) :
    splitViolation o (o.assets - l.assets)
      { filledPart o (some l) with fees := dropZero (filledPart o (some l)).fees } l = none := by
  obtain ⟨hf, hlt, hal, ha, hb, haf, hsum, hps, hpa, hpb, hfee⟩ := split_exact h
  obtain ⟨hpa', hpb'⟩ := split_prices_positive h hp
  have hamt : o.assets - l.assets = amt := by omega
  rw [hamt]
  generalize hf' : ({ filledPart o (some l) with fees := dropZero (filledPart o (some l)).fees } : Order) = f'
  have e_assets : f'.assets = f.assets := by subst hf'; show o.assets - l.assets = _; omega
  have e_price : f'.price = f.price := by subst hf'; show o.price - l.price = _; omega
  have e_fees : ∀ d, amountOf f'.fees d = amountOf f.fees d := by
    intro d; subst hf'
    show amountOf (dropZero (canon (o.fees ++ neg l.fees))) d = _
    rw [amountOf_dropZero, amountOf_canon, amountOf_append, amountOf_neg]
    have := (hfee d).1; omega
  have e_party : f'.sameParty o := by subst hf'; exact ⟨rfl, rfl, rfl, rfl, rfl, rfl⟩
  have hbf : l.assets = o.assets - amt := by omega
  have c6 : coinsEq (f'.fees ++ l.fees) o.fees = true :=
    coinsEq_of_forall (fun d => by simp [e_fees d, (hfee d).1])
  have c7 : proportional f' o amt o.assets = true := by
    simp only [proportional, Bool.and_eq_true, decide_eq_true_eq, List.all_eq_true]
    exact ⟨⟨by rw [e_assets, haf]; exact Int.mul_comm _ _, by rw [e_price, ← haf]; exact hpa⟩,
      fun d _ => by rw [e_fees d, ← haf]; exact (hfee d).2.1⟩
  have c8 : proportional l o (o.assets - amt) o.assets = true := by
    simp only [proportional, Bool.and_eq_true, decide_eq_true_eq, List.all_eq_true]
    exact ⟨⟨by rw [hbf]; exact Int.mul_comm _ _, by rw [← hbf]; exact hpb⟩,
      fun d _ => by rw [← hbf]; exact (hfee d).2.2⟩
  have c10 : coinsEq (f'.holdAmount ++ l.holdAmount) o.holdAmount = true :=
    coinsEq_of_forall (fun d => by
      rw [amountOf_append, holdAmount_congr (e_party.2.1.trans ha.2.1.symm)
        (e_party.2.2.2.1.trans ha.2.2.2.1.symm) (e_party.2.2.2.2.1.trans ha.2.2.2.2.1.symm)
        e_assets e_price e_fees d]
      exact split_hold h d)
  unfold splitViolation
  rw [if_neg (not_not.mpr ⟨hf, hlt⟩), if_neg (not_not.mpr hal), if_neg (not_not.mpr ⟨e_party, hb⟩),
    if_neg (not_not.mpr ⟨e_assets.trans haf, by rw [e_assets]; exact hsum⟩),
    if_neg (not_not.mpr (by rw [e_price]; exact hps)), if_neg (not_not.mpr c6),
    if_neg (not_not.mpr c7), if_neg (not_not.mpr c8), if_neg (not_not.mpr ⟨by rw [e_price]; exact hpa', hpb'⟩),
    if_neg (not_not.mpr c10)]

section
variable {s s' : KState} {ids : List Nat} {os : List Order} {left : Option Order}

theorem store_clPartial (C : StoreCtx s s' ids os left) (accts : List Addr) :
    clPartial ids (dumpOf accts s) (dumpOf accts s') = none := by
  unfold clPartial
  rw [cTouched_eq C accts, List.findSome?_eq_none_iff]
  intro p hp
  obtain ⟨o, ho, rfl⟩ := List.mem_map.mp hp
  cases left with
  | none => rfl
  | some l =>
    simp only
    by_cases hid : l.id = o.id
    · rw [if_pos hid]
      simp only
      obtain ⟨o', f, amt, ho', hid', hsplit, hpos⟩ := C.hleft l rfl
      have : o' = o := eq_of_mem_same_key (·.id) (by rw [C.hos]; exact C.hids) ho' ho (hid'.trans hid)
      subst this
      rw [filledPart_split_sound hsplit hpos]; rfl
    · rw [if_neg hid]

/-- all store clauses and the holds clause at once -/
theorem StoreCtx.clauses (C : StoreCtx s s' ids os left) {accts : List Addr}
    (hm : marketName ∉ accts) (hc : collectorName ∉ accts) :
    ¬ clUnknown ids (dumpOf accts s) (dumpOf accts s') ∧
    clOther ids (dumpOf accts s) (dumpOf accts s') = false ∧
    clNew (dumpOf accts s) (dumpOf accts s') = false ∧
    ¬ clTwoPartials ids (dumpOf accts s) (dumpOf accts s') ∧
    clPartial ids (dumpOf accts s) (dumpOf accts s') = none ∧
    clHolds (dumpOf accts s) (dumpOf accts s') = false :=
  ⟨store_clUnknown C accts, store_clOther C accts, store_clNew C accts, store_clTwoPartials C accts,
    store_clPartial C accts, store_clHolds s s' hm hc⟩

end

/-! ### the three messages -/

/-- an accepted `MsgMarketSettle` in a state satisfying `StoreInv` is a `StoreCtx`: ids `a ++ b`, the
fetched asks then bids, `PartialOrderLeft` -/
theorem settle_storeCtx {s s' : KState} {m c : Addr} {a b : List Nat} {ep : Bool}
    (hI : StoreInv s) (h : s.msgMarketSettle m c a b ep = .ok s') :
    ∃ asks bids st, s.getOrders true a "" = .ok asks ∧ s.getOrders false b "" = .ok bids ∧
      buildSettlement asks bids s.lookup = .ok st ∧
      StoreCtx s s' (a ++ b) (asks ++ bids) st.partialLeft := by
  obtain ⟨asks, bids, st, ha, hb, hst, hstore, _, hl⟩ := settle_store_post hI h
  have hidsEq : (asks ++ bids).map (·.id) = a ++ b := by
    rw [List.map_append, getOrders_ids ha, getOrders_ids hb]
  have hnd : (a ++ b).Nodup := by
    unfold KState.msgMarketSettle at h
    split at h; · simp at h
    rename_i hv
    exact (settleValidateBasic_ok hv).2.2.2
  refine ⟨asks, bids, st, ha, hb, hst, ⟨hI, hnd, hidsEq, ?_, hstore, ?_⟩⟩
  · intro o ho
    rcases List.mem_append.mp ho with h' | h'
    · exact (getOrders_mem ha o h').1
    · exact (getOrders_mem hb o h').1
  · intro l hll
    obtain ⟨o, f, amt, hos, hid, _, hlast, hsplit, _⟩ := hl l hll
    refine ⟨o, f, amt, ?_, hid, hsplit, (hI.pos o hos).price⟩
    rcases hlast with h' | h'
    · exact List.mem_append_left _ (List.mem_of_getLast? h')
    · exact List.mem_append_right _ (List.mem_of_getLast? h')

/-- an accepted `MsgFillBids` is a `StoreCtx`: the named bids, nothing left -/
theorem fillBids_storeCtx {s s' : KState} {m c seller : Addr} {ids : List Nat} {ta flat : Coins}
    (hI : StoreInv s) (h : s.msgFillBids m c seller ids ta flat = .ok s') :
    ∃ orders, s.getOrders false ids seller = .ok orders ∧ StoreCtx s s' ids orders none := by
  obtain ⟨_, orders, hor, hnd, _⟩ := msgFillBids_once h
  refine ⟨orders, hor, ⟨hI, by rw [← getOrders_ids hor]; exact hnd, getOrders_ids hor,
    fun o ho => (getOrders_mem hor o ho).1, fillBids_store_post h, fun l hl => by cases hl⟩⟩

/-- an accepted `MsgFillAsks` is a `StoreCtx`: the named asks, nothing left -/
theorem fillAsks_storeCtx {s s' : KState} {m c buyer : Addr} {ids : List Nat} {tp : Denom × Int} {fees : Coins}
    (hI : StoreInv s) (h : s.msgFillAsks m c buyer ids tp fees = .ok s') :
    ∃ orders, s.getOrders true ids buyer = .ok orders ∧ StoreCtx s s' ids orders none := by
  obtain ⟨_, orders, hor, hnd, _⟩ := msgFillAsks_once h
  refine ⟨orders, hor, ⟨hI, by rw [← getOrders_ids hor]; exact hnd, getOrders_ids hor,
    fun o ho => (getOrders_mem hor o ho).1, fillAsks_store_post h, fun l hl => by cases hl⟩⟩

/-- **The store clauses and the holds clause never fire on the model's own dumps of an accepted
`MsgMarketSettle`** (every state satisfying `StoreInv`, every list of involved accounts not containing
the market account / fee collector names). -/
theorem settle_store_clauses {s s' : KState} {m c : Addr} {a b : List Nat} {ep : Bool} {accts : List Addr}
    (hI : StoreInv s) (h : s.msgMarketSettle m c a b ep = .ok s')
    (hm : marketName ∉ accts) (hc : collectorName ∉ accts) :
    ¬ clUnknown (a ++ b) (dumpOf accts s) (dumpOf accts s') ∧
    clOther (a ++ b) (dumpOf accts s) (dumpOf accts s') = false ∧
    clNew (dumpOf accts s) (dumpOf accts s') = false ∧
    ¬ clTwoPartials (a ++ b) (dumpOf accts s) (dumpOf accts s') ∧
    clPartial (a ++ b) (dumpOf accts s) (dumpOf accts s') = none ∧
    clHolds (dumpOf accts s) (dumpOf accts s') = false := by
  obtain ⟨_, _, _, _, _, _, C⟩ := settle_storeCtx hI h
  exact C.clauses hm hc

theorem fillBids_store_clauses {s s' : KState} {m c seller : Addr} {ids : List Nat} {ta flat : Coins}
    {accts : List Addr} (hI : StoreInv s) (h : s.msgFillBids m c seller ids ta flat = .ok s')
    (hm : marketName ∉ accts) (hc : collectorName ∉ accts) :
    ¬ clUnknown ids (dumpOf accts s) (dumpOf accts s') ∧
    clOther ids (dumpOf accts s) (dumpOf accts s') = false ∧
    clNew (dumpOf accts s) (dumpOf accts s') = false ∧
    ¬ clTwoPartials ids (dumpOf accts s) (dumpOf accts s') ∧
    clPartial ids (dumpOf accts s) (dumpOf accts s') = none ∧
    clHolds (dumpOf accts s) (dumpOf accts s') = false := by
  obtain ⟨_, _, C⟩ := fillBids_storeCtx hI h
  exact C.clauses hm hc

theorem fillAsks_store_clauses {s s' : KState} {m c buyer : Addr} {ids : List Nat} {tp : Denom × Int}
    {fees : Coins} {accts : List Addr} (hI : StoreInv s) (h : s.msgFillAsks m c buyer ids tp fees = .ok s')
    (hm : marketName ∉ accts) (hc : collectorName ∉ accts) :
    ¬ clUnknown ids (dumpOf accts s) (dumpOf accts s') ∧
    clOther ids (dumpOf accts s) (dumpOf accts s') = false ∧
    clNew (dumpOf accts s) (dumpOf accts s') = false ∧
    ¬ clTwoPartials ids (dumpOf accts s) (dumpOf accts s') ∧
    clPartial ids (dumpOf accts s) (dumpOf accts s') = none ∧
    clHolds (dumpOf accts s) (dumpOf accts s') = false := by
  obtain ⟨_, _, C⟩ := fillAsks_storeCtx hI h
  exact C.clauses hm hc

/-- the checker's `parts` for an accepted `MsgMarketSettle`: the fetched asks then bids, the partially
filled one replaced by what was filled of it -/
theorem settle_cParts {s s' : KState} {m c : Addr} {a b : List Nat} {ep : Bool}
    (hI : StoreInv s) (h : s.msgMarketSettle m c a b ep = .ok s') (accts : List Addr) (virt : Option Order) :
    ∃ asks bids st, s.getOrders true a "" = .ok asks ∧ s.getOrders false b "" = .ok bids ∧
      buildSettlement asks bids s.lookup = .ok st ∧
      cParts (a ++ b) virt (dumpOf accts s) (dumpOf accts s') =
        ((asks ++ bids).map fun o => match st.partialLeft with
          | some l => if l.id = o.id then filledPart o (some l) else o
          | none => o) ++ virt.toList := by
  obtain ⟨asks, bids, st, ha, hb, hst, C⟩ := settle_storeCtx hI h
  exact ⟨asks, bids, st, ha, hb, hst, cParts_eq C accts virt⟩

/-- the checker's `parts` for an accepted `MsgFillBids`: the fetched bids, then the seller -/
theorem fillBids_cParts {s s' : KState} {m c seller : Addr} {ids : List Nat} {ta flat : Coins}
    (hI : StoreInv s) (h : s.msgFillBids m c seller ids ta flat = .ok s') (accts : List Addr) (virt : Option Order) :
    ∃ orders, s.getOrders false ids seller = .ok orders ∧
      cParts ids virt (dumpOf accts s) (dumpOf accts s') = orders ++ virt.toList := by
  obtain ⟨orders, hor, C⟩ := fillBids_storeCtx hI h
  refine ⟨orders, hor, ?_⟩
  rw [cParts_eq C accts virt]
  simp

/-- the checker's `parts` for an accepted `MsgFillAsks`: the fetched asks, then the buyer -/
theorem fillAsks_cParts {s s' : KState} {m c buyer : Addr} {ids : List Nat} {tp : Denom × Int} {fees : Coins}
    (hI : StoreInv s) (h : s.msgFillAsks m c buyer ids tp fees = .ok s') (accts : List Addr) (virt : Option Order) :
    ∃ orders, s.getOrders true ids buyer = .ok orders ∧
      cParts ids virt (dumpOf accts s) (dumpOf accts s') = orders ++ virt.toList := by
  obtain ⟨orders, hor, C⟩ := fillAsks_storeCtx hI h
  refine ⟨orders, hor, ?_⟩
  rw [cParts_eq C accts virt]
  simp

end PvProofs.C01
