/-
C04 — the bank wiring model MEETS the declarative movement specification (`PvModel.MkrBankSpec`, the
`bankx` checker's side): for every marker configuration, every sanction/quarantine configuration
(`Bank.appLater`), every locked amounts, every ledger and every list of inputs and outputs, the model of
InputOutputCoinsProv
  * fails with one of the bank keeper's own errors when the specification says `rejected`,
  * fails with the marker restriction's refusal or a later restriction's (`err:later`) when it says
    `refused` — the marker's when no payer is sanctioned, the later one's when the rules permit every pair,
  * succeeds with exactly the specified balances when it says `performed`.
So the executable checker's expectation is not a second, unrelated model: it is a theorem about the first.
-/
import PvProofs.C04Bank
import PvModel.MkrBankSpec

namespace PvProofs.C04
open PvModel PvModel.MkrSend PvModel.MkrSend.Bank PvProofs.MkrBankLemmas

/-! ### the specification's vocabulary in the model's terms -/

theorem paid_eq_inTotal (ins : List IO) (a : Addr) (d : Denom) : Spec.paid ins a d = inTotal ins a d := by
  induction ins with
  | nil => rfl
  | cons i rest ih => simp only [Spec.paid, inTotal, ih]

theorem flatMap_singleton_map {α β : Type} (xs : List α) (f : α → β) :
    xs.flatMap (fun x => [f x]) = xs.map f := by
  induction xs with
  | nil => rfl
  | cons x t ih => simp [List.flatMap_cons, ih]

theorem shapeOk_iff (ins outs : List IO) :
    Spec.shapeOk ins outs = true ↔ ins ≠ [] ∧ outs ≠ [] ∧ (ins.length ≤ 1 ∨ outs.length ≤ 1) := by
  simp [Spec.shapeOk, List.isEmpty_iff, and_assoc]

/-- With one input or one output the combinations are the pairs the keeper asks the restriction about. -/
theorem triples_eq_pairs (ins outs : List IO) (h : Spec.shapeOk ins outs = true) :
    Spec.triples ins outs = pairs ins outs := by
  obtain ⟨hi, ho, hm⟩ := (shapeOk_iff ins outs).mp h
  match ins, outs, hi, ho, hm with
  | [i], outs, _, _, _ => simp [Spec.triples, pairs]
  | i1 :: i2 :: r, [o], _, _, _ =>
    have hl : ¬ (i1 :: i2 :: r).length = 1 := by simp
    simp only [Spec.triples, hl, if_false, List.map_cons, List.map_nil]
    rw [flatMap_singleton_map]
    rfl
  | i1 :: i2 :: r, o1 :: o2 :: r', _, _, hm => simp at hm

theorem denoms_sumCoins (ios : List IO) : Coins.denoms (sumCoins ios) = Spec.allDenoms ios := by
  simp [Coins.denoms, sumCoins, Spec.allDenoms, List.map_flatMap]

theorem coinsOk_eq_ioValid (io : IO) : Spec.coinsOk io.coins = ioValid io := by
  rw [Bool.eq_iff_iff]
  unfold Spec.coinsOk ioValid
  simp only [Bool.and_eq_true, decide_eq_true_eq, List.all_eq_true, isValid_iff]

theorem totalsEqual_eq_sumsMatch (ins outs : List IO) : Spec.totalsEqual ins outs = sumsMatch ins outs := by
  unfold Spec.totalsEqual sumsMatch
  rw [denoms_sumCoins, denoms_sumCoins]
  rfl

theorem fundedAt_eq (w : World) (l : Ledger) (ins : List IO) (a : Addr) :
    fundedAt w l ins a =
      (Spec.allDenoms (ins.filter fun j => j.addr = a)).all fun d =>
        Decidable.decide (Spec.paid ins a d ≤ l.bal a d - w.locked a d) := by
  unfold fundedAt mineOf
  rw [denoms_sumCoins]
  congr 1
  funext d
  rw [amountOf_sumCoins_filter, paid_eq_inTotal]

theorem funded_iff (w : World) (l : Ledger) (ins : List IO) :
    Spec.funded w.locked l ins = true ↔ ∃ l1, debitPhase w l ins = .ok l1 := by
  rw [show (∃ l1, debitPhase w l ins = .ok l1) ↔ ∀ i ∈ ins, fundedAt w l ins i.addr = true from
    debitPhaseAux_ok_iff w ins.length ins l (Nat.le_refl _)]
  unfold Spec.funded
  rw [List.all_eq_true]
  refine forall_congr' fun i => forall_congr' fun _ => ?_
  rw [fundedAt_eq]

theorem validate_ok_iff (ins outs : List IO) :
    validateInputsOutputs ins outs = .ok () ↔
      (ins.all ioValid && outs.all ioValid) = true ∧ sumsMatch ins outs = true := by
  unfold validateInputsOutputs
  by_cases h1 : (ins.all ioValid && outs.all ioValid) = true
  · by_cases h2 : sumsMatch ins outs = true
    · simp [h1, h2]
    · simp [h1, h2]
  · simp [h1]

theorem validate_err (ins outs : List IO) (e : Err) (h : validateInputsOutputs ins outs = .error e) :
    e = .invalid ∨ e = .mismatch := by
  unfold validateInputsOutputs at h
  split_ifs at h
  · cases h; exact Or.inl rfl
  · cases h; exact Or.inr rfl

/-- **`wellFormed` is exactly "the keeper gets as far as asking the restriction"**: shape, validation and
the debit of every paying address succeed. -/
theorem wellFormed_iff (w : World) (l : Ledger) (ins outs : List IO) :
    Spec.wellFormed w.locked l ins outs = true ↔
      (ins ≠ [] ∧ outs ≠ [] ∧ (ins.length ≤ 1 ∨ outs.length ≤ 1)) ∧
      validateInputsOutputs ins outs = .ok () ∧ ∃ l1, debitPhase w l ins = .ok l1 := by
  have e1 : (ins.all fun i => Spec.coinsOk i.coins) = ins.all ioValid := by
    congr 1; funext i; exact coinsOk_eq_ioValid i
  have e2 : (outs.all fun i => Spec.coinsOk i.coins) = outs.all ioValid := by
    congr 1; funext i; exact coinsOk_eq_ioValid i
  unfold Spec.wellFormed
  rw [e1, e2, totalsEqual_eq_sumsMatch]
  simp only [Bool.and_eq_true, shapeOk_iff, funded_iff, validate_ok_iff]
  constructor
  · rintro ⟨⟨⟨⟨hs, hi⟩, ho⟩, hm⟩, hf⟩
    exact ⟨hs, ⟨⟨hi, ho⟩, hm⟩, hf⟩
  · rintro ⟨hs, ⟨⟨hi, ho⟩, hm⟩, hf⟩
    exact ⟨⟨⟨⟨hs, hi⟩, ho⟩, hm⟩, hf⟩

/-! ### how the keeper's call splits -/

/-- Either the call stops before the restriction with one of the bank keeper's own errors (and then it is
not well-formed), or it is well-formed and its result is the restriction's verdict over the pairs. -/
theorem inputOutputCoinsProv_cases (w : World) (l : Ledger) (ins outs : List IO) :
    (Spec.wellFormed w.locked l ins outs = false ∧
      ∃ e, inputOutputCoinsProv w l ins outs = .error e ∧ e ≠ .later ∧ ∀ r, e ≠ .denied r) ∨
    (Spec.wellFormed w.locked l ins outs = true ∧ ∃ l1, debitPhase w l ins = .ok l1 ∧
      inputOutputCoinsProv w l ins outs =
        match restrictAll w (pairs ins outs) with
        | .error e => .error e
        | .ok credits => .ok (creditAll l1 credits)) := by
  have hwf := wellFormed_iff w l ins outs
  by_cases hi : ins = []
  · left
    refine ⟨?_, .noInputs, by simp [inputOutputCoinsProv, hi], by simp, by simp⟩
    rw [Bool.eq_false_iff]; intro h; exact (hwf.mp h).1.1 hi
  by_cases ho : outs = []
  · left
    refine ⟨?_, .noOutputs, by simp [inputOutputCoinsProv, hi, ho], by simp, by simp⟩
    rw [Bool.eq_false_iff]; intro h; exact (hwf.mp h).1.2.1 ho
  by_cases hm : ins.length ≤ 1 ∨ outs.length ≤ 1
  · have hm' : ¬ (1 < ins.length ∧ 1 < outs.length) := by omega
    have hshape : inputOutputCoinsProv w l ins outs =
        match validateInputsOutputs ins outs with
        | .error e => .error e
        | .ok _ =>
          match debitPhase w l ins with
          | .error e => .error e
          | .ok l1 =>
            match restrictAll w (pairs ins outs) with
            | .error e => .error e
            | .ok credits => .ok (creditAll l1 credits) := by
      unfold inputOutputCoinsProv
      simp only [List.isEmpty_iff, hi, ho, if_false, gt_iff_lt, Bool.and_eq_true, decide_eq_true_eq, hm']
      cases validateInputsOutputs ins outs with
      | error e => rfl
      | ok u =>
        cases debitPhase w l ins with
        | error e => rfl
        | ok l1 => cases restrictAll w (pairs ins outs) <;> rfl
    cases hv : validateInputsOutputs ins outs with
    | error e =>
      left
      refine ⟨?_, e, by rw [hshape, hv], ?_, ?_⟩
      · rw [Bool.eq_false_iff]; intro h; rw [(hwf.mp h).2.1] at hv; cases hv
      · rcases validate_err ins outs e hv with rfl | rfl <;> simp
      · rcases validate_err ins outs e hv with rfl | rfl <;> simp
    | ok u =>
      cases hd : debitPhase w l ins with
      | error e =>
        have he : e = .funds := debitPhaseAux_err w ins.length ins l e hd
        subst he
        left
        refine ⟨?_, .funds, by rw [hshape, hv]; simp only [hd], by simp, by simp⟩
        rw [Bool.eq_false_iff]; intro h
        obtain ⟨l1, h1⟩ := (hwf.mp h).2.2
        rw [hd] at h1; cases h1
      | ok l1 =>
        right
        refine ⟨hwf.mpr ⟨⟨hi, ho, hm⟩, hv, l1, hd⟩, l1, rfl, ?_⟩
        rw [hshape, hv]
        simp only [hd]
  · left
    have hm' : 1 < ins.length ∧ 1 < outs.length := by omega
    refine ⟨?_, .manyToMany, by simp [inputOutputCoinsProv, List.isEmpty_iff, hi, ho, hm'], by simp, by simp⟩
    rw [Bool.eq_false_iff]; intro h; exact hm (hwf.mp h).1.2.2

theorem restrictAll_error (w : World) : ∀ (ps : List (Addr × Addr × Coins)) (e : Err),
    restrictAll w ps = .error e → ∃ p ∈ ps, applyRestriction w p.1 p.2.1 p.2.2 = .error e
  | [], e, h => by simp [restrictAll] at h
  | (f, t, c) :: rest, e, h => by
    unfold restrictAll at h
    cases ha : applyRestriction w f t c with
    | error e' =>
      rw [ha] at h
      cases h
      exact ⟨(f, t, c), by simp, ha⟩
    | ok t' =>
      rw [ha] at h
      cases hr : restrictAll w rest with
      | error e' =>
        rw [hr] at h
        cases h
        obtain ⟨p, hp, hpe⟩ := restrictAll_error w rest e hr
        exact ⟨p, List.mem_cons_of_mem _ hp, hpe⟩
      | ok o => rw [hr] at h; cases h

theorem applyRestriction_error (w : World) (f t : Addr) (amt : Coins) (e : Err)
    (h : applyRestriction w f t amt = .error e) :
    (∃ r, e = .denied r ∧ MkrSend.decide (pairCfg w.env f t) amt = deny r) ∨
    (e = .later ∧ MkrSend.decide (pairCfg w.env f t) amt = allow ∧ w.later f t amt = none) := by
  unfold applyRestriction at h
  cases hd : MkrSend.decide (pairCfg w.env f t) amt with
  | error r =>
    rw [hd] at h
    cases h
    exact Or.inl ⟨r, rfl, rfl⟩
  | ok u =>
    rw [hd] at h
    cases hl : w.later f t amt with
    | none =>
      rw [hl] at h
      cases h
      exact Or.inr ⟨rfl, rfl, rfl⟩
    | some t' => rw [hl] at h; cases h

/-! ### sanction and quarantine -/

theorem appLater_none_iff (c : LaterCfg) (f t : Addr) (amt : Coins) :
    appLater c f t amt = none ↔ c.sanctioned f = true := by
  unfold appLater sanctionRestriction quarantineRestriction
  by_cases hs : c.sanctioned f = true
  · simp [hs]
  · simp only [hs, Bool.false_eq_true, if_false]
    constructor
    · intro h
      split_ifs at h
    · intro h; cases h

/-- The receiver the app's later restrictions return for an unsanctioned payer is the specification's
destination. -/
theorem appLater_getD_eq_dest (c : LaterCfg) (f t : Addr) (amt : Coins) (hs : c.sanctioned f = false) :
    (appLater c f t amt).getD t = Spec.dest c false f t := by
  unfold appLater sanctionRestriction quarantineRestriction Spec.dest
  simp only [hs, Bool.false_eq_true, if_false]
  by_cases h1 : f = t <;> by_cases h2 : f = c.fundsHolder <;>
    cases h3 : c.quarantined t <;> cases h4 : c.autoAccept t f <;> simp [h1, h2]

theorem pairs_payer (ins outs : List IO) (p : Addr × Addr × Coins) (hp : p ∈ pairs ins outs) :
    ∃ i ∈ ins, i.addr = p.1 := by
  unfold pairs at hp
  split at hp
  · obtain ⟨o, _, rfl⟩ := List.mem_map.mp hp
    exact ⟨_, by simp, rfl⟩
  · obtain ⟨i, hi, rfl⟩ := List.mem_map.mp hp
    exact ⟨i, hi, rfl⟩
  · cases hp

theorem payer_in_pairs (ins outs : List IO) (ho : outs ≠ []) (i : IO) (hi : i ∈ ins) :
    ∃ p ∈ pairs ins outs, p.1 = i.addr := by
  match ins, outs, ho, hi with
  | [j], o :: r, _, hi =>
    simp only [List.mem_singleton] at hi
    subst hi
    exact ⟨(i.addr, o.addr, o.coins), by simp [pairs], rfl⟩
  | [], o :: r, _, hi => cases hi
  | j1 :: j2 :: r', o :: r, _, hi =>
    exact ⟨(i.addr, o.addr, i.coins), List.mem_map.mpr ⟨i, hi, rfl⟩, rfl⟩

theorem received_eq_creditTotal (env : Cfg) (c : LaterCfg) (locked : Addr → Denom → Int) (hacc : Addr → Bool)
    (ps : List (Addr × Addr × Coins)) (hs : ∀ p ∈ ps, c.sanctioned p.1 = false) (a : Addr) (d : Denom) :
    Spec.received c false ps a d =
      creditTotal (ps.map (resolved ⟨env, locked, appLater c, hacc⟩)) a d := by
  induction ps with
  | nil => rfl
  | cons p rest ih =>
    obtain ⟨f, t, cs⟩ := p
    have h1 := hs (f, t, cs) (by simp)
    simp only [Spec.received, List.map_cons, creditTotal, resolved]
    rw [ih fun p hp => hs p (List.mem_cons_of_mem _ hp), appLater_getD_eq_dest c f t cs h1]

/-! ### the model meets the specification -/

/-- The world of a marker configuration, locked amounts and the app's sanction/quarantine composition. -/
def appWorld (env : Cfg) (c : LaterCfg) (locked : Addr → Denom → Int) (hacc : Addr → Bool) : World :=
  ⟨env, locked, appLater c, hacc⟩

theorem rulesPermit_iff (env : Cfg) (ins outs : List IO) (hshape : Spec.shapeOk ins outs = true)
    (hv : validateInputsOutputs ins outs = .ok ()) :
    Spec.rulesPermit env ins outs = true ↔
      ∀ p ∈ pairs ins outs, MkrSend.decide (pairCfg env p.1 p.2.1) p.2.2 = allow := by
  unfold Spec.rulesPermit
  rw [triples_eq_pairs ins outs hshape, List.all_eq_true]
  refine forall_congr' fun p => forall_congr' fun hp => ?_
  rw [permitted_iff_rules_permit _ _ (isValid_imp _ (pairs_coins_valid ins outs hv p hp)).1]

theorem payerSanctioned_false_iff (c : LaterCfg) (ins : List IO) :
    Spec.payerSanctioned c ins = false ↔ ∀ i ∈ ins, c.sanctioned i.addr = false := by
  unfold Spec.payerSanctioned
  rw [Bool.eq_false_iff]
  simp only [ne_eq, List.any_eq_true, not_exists, not_and, Bool.not_eq_true]

/-- **`rejected`**: a malformed or unfunded call fails with one of the bank keeper's own errors — never
with a restriction's. -/
theorem spec_rejected (env : Cfg) (c : LaterCfg) (locked : Addr → Denom → Int) (hacc : Addr → Bool)
    (l : Ledger) (ins outs : List IO) (h : Spec.outcome env c locked l ins outs = .rejected) :
    ∃ e, inputOutputCoinsProv (appWorld env c locked hacc) l ins outs = .error e ∧
      e ≠ .later ∧ ∀ r, e ≠ .denied r := by
  have hwf : Spec.wellFormed locked l ins outs = false := by
    unfold Spec.outcome at h
    split_ifs at h with h1
    simpa using h1
  rcases inputOutputCoinsProv_cases (appWorld env c locked hacc) l ins outs with ⟨_, he⟩ | ⟨ht, _⟩
  · exact he
  · rw [show (appWorld env c locked hacc).locked = locked from rfl, hwf] at ht; cases ht

/-- **`performed`**: a well-formed call whose every combination the documented rules permit and none of
whose payers is sanctioned succeeds, and every balance is the specified one (payers lose their inputs,
receivers gain their combinations, quarantined receivers' coins sit with the funds holder). -/
theorem spec_performed (env : Cfg) (c : LaterCfg) (locked : Addr → Denom → Int) (hacc : Addr → Bool)
    (l : Ledger) (ins outs : List IO) (h : Spec.outcome env c locked l ins outs = .performed) :
    ∃ l', inputOutputCoinsProv (appWorld env c locked hacc) l ins outs = .ok l' ∧
      ∀ a d, l'.bal a d = Spec.expectedBal env c false locked l ins outs a d := by
  have hparts : Spec.wellFormed locked l ins outs = true ∧ Spec.rulesPermit env ins outs = true ∧
      Spec.payerSanctioned c ins = false := by
    unfold Spec.outcome at h
    split_ifs at h with h1 h2
    simp only [Bool.not_eq_true', Bool.not_eq_false] at h1
    simp only [Bool.and_eq_true, Bool.not_eq_true'] at h2
    exact ⟨h1, h2.1, h2.2⟩
  obtain ⟨hwf, hrp, hps⟩ := hparts
  let w := appWorld env c locked hacc
  obtain ⟨hshape, hv, l1, hd⟩ := (wellFormed_iff w l ins outs).mp hwf
  have hsh : Spec.shapeOk ins outs = true := (shapeOk_iff ins outs).mpr hshape
  have hallow := (rulesPermit_iff env ins outs hsh hv).mp hrp
  have hns := (payerSanctioned_false_iff c ins).mp hps
  have hpns : ∀ p ∈ pairs ins outs, c.sanctioned p.1 = false := by
    intro p hp
    obtain ⟨i, hi, hie⟩ := pairs_payer ins outs p hp
    rw [← hie]; exact hns i hi
  have hall : ∀ p ∈ pairs ins outs,
      MkrSend.decide (pairCfg w.env p.1 p.2.1) p.2.2 = allow ∧ (w.later p.1 p.2.1 p.2.2).isSome = true := by
    intro p hp
    refine ⟨hallow p hp, ?_⟩
    cases hl : w.later p.1 p.2.1 p.2.2 with
    | some t' => rfl
    | none =>
      have := (appLater_none_iff c p.1 p.2.1 p.2.2).mp hl
      rw [hpns p hp] at this; cases this
  have hok := (inputOutputCoinsProv_ok_iff w l _ ins outs).mpr
    ⟨hshape.1, hshape.2.1, hshape.2.2, hv, l1, hd, hall, rfl⟩
  refine ⟨_, hok, fun a d => ?_⟩
  rw [multiSend_moves_exactly w l _ ins outs hok a d]
  simp only [Spec.expectedBal, h]
  rw [paid_eq_inTotal, triples_eq_pairs ins outs hsh,
    received_eq_creditTotal env c locked hacc (pairs ins outs) hpns a d]
  rfl

/-- **`refused`**: a well-formed call with a combination the rules refuse or a sanctioned payer fails with
the marker restriction's refusal or a later restriction's — the later one's when the rules permit every
combination, the marker's when no payer is sanctioned.  (Either way `Bank.commit` keeps the old ledger.) -/
theorem spec_refused (env : Cfg) (c : LaterCfg) (locked : Addr → Denom → Int) (hacc : Addr → Bool)
    (l : Ledger) (ins outs : List IO) (rules sanction : Bool)
    (h : Spec.outcome env c locked l ins outs = .refused rules sanction) :
    ∃ e, inputOutputCoinsProv (appWorld env c locked hacc) l ins outs = .error e ∧
      (e = .later ∨ ∃ r, e = .denied r) ∧
      (rules = false → e = .later) ∧ (sanction = false → ∃ r, e = .denied r) := by
  have hparts : Spec.wellFormed locked l ins outs = true ∧
      ¬ (Spec.rulesPermit env ins outs = true ∧ Spec.payerSanctioned c ins = false) ∧
      rules = !Spec.rulesPermit env ins outs ∧ sanction = Spec.payerSanctioned c ins := by
    unfold Spec.outcome at h
    split_ifs at h with h1 h2
    simp only [Bool.not_eq_true', Bool.not_eq_false] at h1
    simp only [Bool.and_eq_true, Bool.not_eq_true'] at h2
    simp only [Spec.Outcome.refused.injEq] at h
    exact ⟨h1, h2, h.1.symm, h.2.symm⟩
  obtain ⟨hwf, hnot, hrules, hsanc⟩ := hparts
  let w := appWorld env c locked hacc
  obtain ⟨hshape, hv, _, _⟩ := (wellFormed_iff w l ins outs).mp hwf
  have hsh : Spec.shapeOk ins outs = true := (shapeOk_iff ins outs).mpr hshape
  have hrp := rulesPermit_iff env ins outs hsh hv
  rcases inputOutputCoinsProv_cases w l ins outs with ⟨hf, _⟩ | ⟨_, l1, hd, hres⟩
  · rw [show w.locked = locked from rfl, hwf] at hf; cases hf
  cases hr : restrictAll w (pairs ins outs) with
  | ok credits =>
    exfalso
    obtain ⟨hall, _⟩ := (restrictAll_ok_iff w (pairs ins outs) credits).mp hr
    apply hnot
    refine ⟨hrp.mpr fun p hp => (hall p hp).1, (payerSanctioned_false_iff c ins).mpr fun i hi => ?_⟩
    obtain ⟨p, hp, hpe⟩ := payer_in_pairs ins outs hshape.2.1 i hi
    have hsome := (hall p hp).2
    cases hsf : c.sanctioned i.addr with
    | false => rfl
    | true =>
      have : w.later p.1 p.2.1 p.2.2 = none := (appLater_none_iff c p.1 p.2.1 p.2.2).mpr (by rw [hpe]; exact hsf)
      rw [this] at hsome; cases hsome
  | error e =>
    rw [hr] at hres
    obtain ⟨p, hp, hpe⟩ := restrictAll_error w (pairs ins outs) e hr
    refine ⟨e, hres, ?_, ?_, ?_⟩
    · rcases applyRestriction_error w p.1 p.2.1 p.2.2 e hpe with ⟨r, he, _⟩ | ⟨he, _, _⟩
      · exact Or.inr ⟨r, he⟩
      · exact Or.inl he
    · intro hrf
      have hperm : Spec.rulesPermit env ins outs = true := by
        rw [hrules] at hrf; simpa using hrf
      rcases applyRestriction_error w p.1 p.2.1 p.2.2 e hpe with ⟨r, _, hdeny⟩ | ⟨he, _, _⟩
      · have := hrp.mp hperm p hp
        rw [show w.env = env from rfl] at hdeny
        rw [hdeny] at this; cases this
      · exact he
    · intro hsf
      have hns := (payerSanctioned_false_iff c ins).mp (hsanc ▸ hsf)
      rcases applyRestriction_error w p.1 p.2.1 p.2.2 e hpe with ⟨r, he, _⟩ | ⟨_, _, hnone⟩
      · exact ⟨r, he⟩
      · exfalso
        obtain ⟨i, hi, hie⟩ := pairs_payer ins outs p hp
        have := (appLater_none_iff c p.1 p.2.1 p.2.2).mp hnone
        rw [← hie, hns i hi] at this; cases this

/-- The world the correspondence driver builds for a `bankx` line is an `appWorld`, so the three theorems
above are about exactly the model run that is compared with the real keeper. -/
theorem bankx_world_is_appWorld (x : CaseX) :
    x.world = appWorld x.env x.laterCfg x.locked (fun _ => true) := rfl

/-! ### a plain send is the one-input one-output multi-send -/

/-- **SendCoins of a non-empty coin list is InputOutputCoinsProv with that one input and one output**
(the same error or literally the same ledger), so `spec_rejected` / `spec_performed` / `spec_refused`
speak about plain sends too (`bankx … via=send` is checked against the same specification).  For the
empty list `SendCoins` succeeds trivially while `Input.ValidateBasic` refuses it. -/
theorem sendCoins_as_single_multiSend (w : World) (l : Ledger) (f t : Addr) (amt : Coins) (hne : amt ≠ []) :
    sendCoins w l f t amt = inputOutputCoinsProv w l [⟨f, amt⟩] [⟨t, amt⟩] := by
  have hsm : sumsMatch [⟨f, amt⟩] [⟨t, amt⟩] = true := by simp [sumsMatch, sumCoins]
  have hemp : amt.isEmpty = false := by
    cases amt with
    | nil => exact absurd rfl hne
    | cons _ _ => rfl
  rw [sendCoins_eq]
  unfold inputOutputCoinsProv validateInputsOutputs
  by_cases hv : isValid amt = true
  · have hfs := fundsSuffice_merged w l f amt amt hv (fun _ => rfl) (allPos_of_isValid hv)
    simp only [List.isEmpty_cons, Bool.false_eq_true, if_false, List.length_cons, List.length_nil, Nat.zero_add,
      gt_iff_lt, Nat.lt_irrefl, decide_false, Bool.and_false, List.all_cons, List.all_nil, ioValid, hv, hemp,
      Bool.not_false, Bool.and_true, Bool.not_true, hsm, if_true, debitPhase_single, ← hfs]
    by_cases hf : fundsSuffice w l f amt = true
    · simp only [hf, if_true, pairs, List.map_cons, List.map_nil, restrictAll, applyRestriction]
      cases MkrSend.decide (pairCfg w.env f t) amt with
      | error r => rfl
      | ok u =>
        cases w.later f t amt with
        | none => rfl
        | some t' => rfl
    · simp only [hf, Bool.false_eq_true, if_false]
  · simp only [List.isEmpty_cons, Bool.false_eq_true, if_false, List.length_cons, List.length_nil, Nat.zero_add,
      gt_iff_lt, Nat.lt_irrefl, decide_false, Bool.and_false, List.all_cons, List.all_nil, ioValid, hv,
      Bool.false_and, Bool.not_false, if_true]

/-- e.g. the send of `exWorld`'s example is the one-pair multi-send -/
example : ([("rs", (3 : Int)), ("usd", 5)] : Coins) ≠ [] := by simp

/-! ### Non-vacuity: each outcome occurs -/

def exLater : LaterCfg :=
  { sanctioned := fun a => a = "S", quarantined := fun a => a = "Q", autoAccept := fun _ _ => false,
    fundsHolder := "bp:quarantine" }

/-- performed, with a quarantined receiver: `A` pays 3rs, 2 for `B` and 1 for `Q` — which the funds holder gets. -/
example :
    let ins : List IO := [⟨"A", [("rs", 3)]⟩]
    let outs : List IO := [⟨"B", [("rs", 2)]⟩, ⟨"Q", [("rs", 1)]⟩]
    Spec.outcome exWorld.env exLater exWorld.locked exLedger ins outs = .performed ∧
    Spec.expectedBal exWorld.env exLater false exWorld.locked exLedger ins outs "bp:quarantine" "rs" = 1 ∧
    Spec.expectedBal exWorld.env exLater false exWorld.locked exLedger ins outs "Q" "rs" = 0 ∧
    Spec.expectedBal exWorld.env exLater false exWorld.locked exLedger ins outs "A" "rs" = 7 := by
  refine ⟨by rfl, by rfl, by rfl, by rfl⟩

/-- rejected (6 usd asked, 9 − 4 locked spendable) and refused (the fee collector may not get `rs`). -/
example :
    Spec.outcome exWorld.env exLater exWorld.locked exLedger [⟨"A", [("usd", 6)]⟩] [⟨"B", [("usd", 6)]⟩] = .rejected ∧
    Spec.outcome exWorld.env exLater exWorld.locked exLedger [⟨"A", [("rs", 3)]⟩]
      [⟨"B", [("rs", 2)]⟩, ⟨"fc", [("rs", 1)]⟩] = .refused true false := by
  refine ⟨by rfl, by rfl⟩

end PvProofs.C04
