/-
C07 — Quarantined funds are held, never lost, and released only on acceptance.

Property theorems only (helper lemmas: `PvProofs/Lemmas/Quar*.lean`).  The model is
`PvModel.Quar` (x/quarantine keeper + msg server over the bank `Ledger`, with the marker
restriction for a restricted denom in front of the quarantine restriction); the statements
quantify over ALL states satisfying the store invariant `StoreInv` (which every reachable state
does: `store_invariant`) and ALL operation lists `ops : List Op`
(opt-in/out, auto-response updates, MsgSend, MsgMultiSend, multi-input InputOutputCoins,
the bypassed SendCoins of the exchange module, accept/decline naming any senders with or
without the permanent flag, AddQuarantinedCoins for an arbitrary sender set).  A rejected operation leaves the state unchanged by
construction of `step` (the harness checks that on the implementation).

Two hypotheses appear where they are needed and nowhere else:
* `holderNeverSigns`: no operation is signed by the funds holder (a module account without
  a key).  Without it the holder could simply send the quarantined coins away.
* `holderNotNamed` (only for the equality): nobody sends coins to the holder directly.

Section 8 judges "who may be paid / credited" against the HISTORY of the receiver's successful
messages (`Hist`, rebuilt from the messages alone) instead of the store's own accepted lists and
auto-response entries: the store always agrees with that history, so a record is paid exactly
when every sender on it is currently accepted, and a one-time accept never becomes auto-accept.

Section 7 goes beyond the anchored files: genesis export followed by import.  There the clause
"never lost" is FALSE of the code; `regenesis_can_lose_funds_observation` is the witness and
`regenesis_preserves_partial_observation` is what does hold.  Both belong to C18, not to C07; see observations/.
-/
import PvProofs.Lemmas.QuarHist

namespace PvProofs.C07
open PvModel PvModel.Quar PvProofs.QuarL

/-! ### 0. the store invariant -/

/-- Every state reached from a state satisfying the store invariant satisfies it: records sit
under the key recomputed from their own senders, keys are unique, no stored record is fully
accepted, and every multi-sender record is listed in the suffix index of each of its senders. -/
theorem store_invariant (s : State) (ops : List Op) (inv : StoreInv s) : StoreInv (run s ops) :=
  (run_induction (fun _ _ => True) (fun _ => trivial) (fun _ _ _ _ _ => trivial) (fun _ _ => True)
    (fun _ _ _ _ i _ he => ⟨trivial, (exec_ok i he).inv⟩) (fun _ _ _ _ _ => trivial) ops s inv
    (fun _ _ => trivial)).2

/-- a fresh chain (nothing quarantined) satisfies the store invariant -/
theorem init_inv (h : Addr) (rd : List Denom) (xf : List Addr) (b : Ledger) : StoreInv (init h rd xf b) :=
  ⟨fun _ he => by simp [init] at he, by simp [KeysNodup, init], fun _ he => by simp [init] at he,
   fun _ he => by simp [init] at he, fun _ he => by simp [init] at he⟩

/-- the holder address never changes -/
theorem holder_constant (s : State) (ops : List Op) (inv : StoreInv s) : (run s ops).holder = s.holder :=
  (run_induction (fun a b => b.holder = a.holder) (fun _ => rfl) (fun _ _ _ h1 h2 => h2.trans h1) (fun _ _ => True)
    (fun _ _ _ _ i _ he => ⟨(exec_ok i he).holder, (exec_ok i he).inv⟩) (fun _ _ _ _ _ => trivial) ops s inv
    (fun _ _ => trivial)).1

/-! ### 1. the holder covers all records -/

/-- **Holder slack never decreases.** For every operation list in which the holder signs
nothing, what the holder has beyond the total of all records never decreases, per denom. -/
theorem holder_slack_never_decreases (s : State) (ops : List Op) (inv : StoreInv s)
    (hsign : ∀ op ∈ ops, op.holderNeverSigns s.holder = true) :
    ∀ d, slack s d ≤ slack (run s ops) d := by
  have := (run_induction (fun a b => b.holder = a.holder ∧ ∀ d, slack a d ≤ slack b d)
    (fun _ => ⟨rfl, fun _ => Int.le_refl _⟩)
    (fun _ _ _ h1 h2 => ⟨h2.1.trans h1.1, fun d => Int.le_trans (h1.2 d) (h2.2 d)⟩)
    (fun s op => op.holderNeverSigns s.holder = true)
    (fun _ _ _ _ i hp he => ⟨⟨(exec_ok i he).holder, (exec_ok i he).slack_ge hp⟩, (exec_ok i he).inv⟩)
    (fun _ _ _ hR hp => by rw [hR.1]; exact hp) ops s inv hsign).1
  exact this.2

/-- **Holder slack is exact.** If in addition nobody names the holder as a recipient, the
holder's balance moves exactly with the total of the records: `balance − records` is constant. -/
theorem holder_slack_exact (s : State) (ops : List Op) (inv : StoreInv s)
    (hname : ∀ op ∈ ops, op.holderNotNamed s.holder = true) :
    ∀ d, slack (run s ops) d = slack s d := by
  have := (run_induction (fun a b => b.holder = a.holder ∧ ∀ d, slack b d = slack a d)
    (fun _ => ⟨rfl, fun _ => rfl⟩)
    (fun _ _ _ h1 h2 => ⟨h2.1.trans h1.1, fun d => (h2.2 d).trans (h1.2 d)⟩)
    (fun s op => op.holderNotNamed s.holder = true)
    (fun _ _ _ _ i hp he => ⟨⟨(exec_ok i he).holder, (exec_ok i he).slack_eq hp⟩, (exec_ok i he).inv⟩)
    (fun _ _ _ hR hp => by rw [hR.1]; exact hp) ops s inv hname).1
  exact this.2

/-- **The invariant of the property.** The holder's balance covers the total of all quarantine
records, per denom, after every operation list (holder signs nothing). -/
theorem holder_covers_records (s : State) (ops : List Op) (inv : StoreInv s) (h0 : HolderCovers s)
    (hsign : ∀ op ∈ ops, op.holderNeverSigns s.holder = true) : HolderCovers (run s ops) := by
  intro d
  have h1 := holder_slack_never_decreases s ops inv hsign d
  have h2 := h0 d
  have hh := holder_constant s ops inv
  unfold slack at h1
  rw [hh] at h1 ⊢
  omega

/-- … in particular from a fresh chain whose holder account has no negative balance. -/
theorem holder_covers_records_from_genesis (h : Addr) (rd : List Denom) (xf : List Addr) (b : Ledger)
    (hb : ∀ d, 0 ≤ Ledger.bal b h d) (ops : List Op)
    (hsign : ∀ op ∈ ops, op.holderNeverSigns h = true) : HolderCovers (run (init h rd xf b) ops) :=
  holder_covers_records _ ops (init_inv h rd xf b) (fun d => by simpa [init, outstanding, sumRecs] using hb d) hsign

/-- and when nobody sends to the holder directly, the holder's balance *equals* its initial
balance plus the total of all records. -/
theorem holder_equals_records_from_genesis (h : Addr) (rd : List Denom) (xf : List Addr) (b : Ledger)
    (ops : List Op) (hname : ∀ op ∈ ops, op.holderNotNamed h = true) (d : Denom) :
    Ledger.bal (run (init h rd xf b) ops).bank h d = Ledger.bal b h d + outstanding (run (init h rd xf b) ops) d := by
  have h1 := holder_slack_exact _ ops (init_inv h rd xf b) hname d
  have hh := holder_constant _ ops (init_inv h rd xf b)
  unfold slack at h1
  rw [hh] at h1
  simp only [init, outstanding, sumRecs] at h1 ⊢
  omega

/-- the chain's own invariant `FundsHolderBalanceInvariant` (invariants.go) is never broken -/
theorem fundsHolderBalanceInvariant_never_broken (s : State) (ops : List Op) (inv : StoreInv s) (h0 : HolderCovers s)
    (hsign : ∀ op ∈ ops, op.holderNeverSigns s.holder = true) :
    fundsHolderBalanceInvariant (run s ops) = true := by
  unfold fundsHolderBalanceInvariant
  rw [List.all_eq_true]
  intro d _
  simpa using holder_covers_records s ops inv h0 hsign d

/-! ### 2. ghost ledger and supply -/

/-- **Ghost ledger.** Everything ever quarantined is either released by an accept or still on
record: `quarantined_in = released + outstanding`, per denom, after every operation list. -/
theorem ghost_ledger (s : State) (ops : List Op) (inv : StoreInv s) (h0 : GhostLedger s) : GhostLedger (run s ops) := by
  have := (run_induction
    (fun a b => ∀ d, Coins.amountOf b.qin d - Coins.amountOf b.qout d - outstanding b d
        = Coins.amountOf a.qin d - Coins.amountOf a.qout d - outstanding a d)
    (fun _ _ => rfl) (fun _ _ _ h1 h2 d => (h2 d).trans (h1 d)) (fun _ _ => True)
    (fun _ _ _ _ i _ he => ⟨(exec_ok i he).ghost, (exec_ok i he).inv⟩) (fun _ _ _ _ _ => trivial)
    ops s inv (fun _ _ => trivial)).1
  intro d
  have h1 := this d
  have h2 := h0 d
  omega

/-- **Total supply is conserved** by every operation list (no hypothesis on the holder). -/
theorem supply_conserved (s : State) (ops : List Op) (inv : StoreInv s) (d : Denom) :
    Ledger.supply (run s ops).bank d = Ledger.supply s.bank d :=
  (run_induction (fun a b => ∀ d, Ledger.supply b.bank d = Ledger.supply a.bank d)
    (fun _ _ => rfl) (fun _ _ _ h1 h2 d => (h2 d).trans (h1 d)) (fun _ _ => True)
    (fun _ _ _ _ i _ he => ⟨(exec_ok i he).supply, (exec_ok i he).inv⟩) (fun _ _ _ _ _ => trivial)
    ops s inv (fun _ _ => trivial)).1 d

/-! ### 3. who gets the coins of a send -/

/-- **Delivery of every send.** For a successful `MsgSend`, `MsgMultiSend` or multi-input
`InputOutputCoins`, every account's balance changes by exactly what the documentation says
(`expDelta`: each transfer goes to the holder iff the recipient opted in and did not set the
sender to auto-accept, evaluated before the message), the record total grows by exactly the
quarantined amounts, each single-sender record `(to,[from])` grows by exactly the transfers
quarantined for it, and no multi-sender record is touched. -/
theorem send_delivery {s s' : State} {op : Op} {rel : Coins} (inv : StoreInv s)
    (h : exec s op = .ok (s', rel)) (hop : op.xfers ≠ []) :
    (∀ a d, Ledger.bal s'.bank a d = Ledger.bal s.bank a d + expDelta s op.xfers a d) ∧
    (∀ d, outstanding s' d = outstanding s d + expQuarantined s op.xfers d) ∧
    (∀ to f d, Coins.amountOf (coinsAt s' to [f]) d = Coins.amountOf (coinsAt s to [f]) d + expRecord s op.xfers to f d) ∧
    (∀ k : Addr × Suffix, k.2.length ≠ 1 → kvGet s'.recs k = kvGet s.recs k) := by
  have T := exec_transfer inv h hop
  exact ⟨T.bal, T.out, T.single, T.multi⟩

/-- **Not credited until accepted.** A send to a receiver that opted in, from a sender it has
not set to auto-accept, credits the receiver nothing: the coins go to the holder and onto the
record `(to,[from])`. -/
theorem not_credited_until_accepted {s s' : State} {f t : Addr} {c rel : Coins} (inv : StoreInv s)
    (hq : isQuarantinedAddr s t = true) (hna : getAutoResponse s t f ≠ .accept)
    (hf : f ≠ s.holder) (ht : t ≠ s.holder)
    (h : exec s (.send f t c) = .ok (s', rel)) :
    (∀ d, Ledger.bal s'.bank t d = Ledger.bal s.bank t d) ∧
    (∀ d, Ledger.bal s'.bank s.holder d = Ledger.bal s.bank s.holder d + Coins.amountOf c d) ∧
    (∀ d, Coins.amountOf (coinsAt s' t [f]) d = Coins.amountOf (coinsAt s t [f]) d + Coins.amountOf c d) := by
  obtain ⟨hb, _, hr, _⟩ := send_delivery inv h (by simp [Op.xfers])
  have hqq : quarantines s f t = true := by simp [quarantines, hq, hna, hf]
  have hft : f ≠ t := by
    intro e; subst e; simp [getAutoResponse] at hna
  refine ⟨fun d => ?_, fun d => ?_, fun d => ?_⟩
  · rw [hb]; simp [Op.xfers, expDelta, destOf, hqq, hft, Ne.symm ht]
  · rw [hb]; simp [Op.xfers, expDelta, destOf, hqq, hf]
  · rw [hr]; simp [Op.xfers, expRecord, hqq]

/-- The same for any of the three send operations and any number of inputs/outputs: an account
that only receives, and only from senders that are quarantined for it, is credited nothing. -/
theorem not_credited_by_any_transfer {s s' : State} {op : Op} {rel : Coins} (inv : StoreInv s)
    (h : exec s op = .ok (s', rel)) (hop : op.xfers ≠ []) (a : Addr) (ha : a ≠ s.holder)
    (hin : ∀ x ∈ op.xfers, x.from_ ≠ a) (hq : ∀ x ∈ op.xfers, x.to = a → quarantines s x.from_ a = true) :
    ∀ d, Ledger.bal s'.bank a d = Ledger.bal s.bank a d := by
  intro d
  rw [(send_delivery inv h hop).1]
  suffices hz : ∀ xs : List Xfer, (∀ x ∈ xs, x.from_ ≠ a) → (∀ x ∈ xs, x.to = a → quarantines s x.from_ a = true) →
      expDelta s xs a d = 0 by rw [hz _ hin hq]; omega
  intro xs
  induction xs with
  | nil => intro _ _; rfl
  | cons x rest ih =>
    intro h1 h2
    have := ih (fun y hy => h1 y (List.mem_cons_of_mem _ hy)) (fun y hy => h2 y (List.mem_cons_of_mem _ hy))
    have hx1 := h1 x (List.mem_cons_self ..)
    have hx2 := h2 x (List.mem_cons_self ..)
    have hd : destOf s x ≠ a := by
      unfold destOf
      by_cases hto : x.to = a
      · have := hx2 hto
        rw [← hto] at this
        simp [this, Ne.symm ha]
      · by_cases hqq : quarantines s x.from_ x.to = true
        · simp [hqq, Ne.symm ha]
        · have hqf : quarantines s x.from_ x.to = false := by simpa using hqq
          simp [hqf, hto]
    simp only [expDelta, this, hx1, hd, if_false]
    omega

/-- **Funds from an auto-accepted sender arrive directly** (also: receiver not opted in, or the
holder / the receiver itself sending): the receiver is credited in full, nothing is recorded. -/
theorem autoaccept_direct {s s' : State} {f t : Addr} {c rel : Coins} (inv : StoreInv s)
    (hq : quarantines s f t = false) (hft : f ≠ t)
    (h : exec s (.send f t c) = .ok (s', rel)) :
    (∀ d, Ledger.bal s'.bank t d = Ledger.bal s.bank t d + Coins.amountOf c d) ∧
    (∀ d, outstanding s' d = outstanding s d) ∧
    (∀ to f' d, Coins.amountOf (coinsAt s' to [f']) d = Coins.amountOf (coinsAt s to [f']) d) := by
  obtain ⟨hb, ho, hr, _⟩ := send_delivery inv h (by simp [Op.xfers])
  refine ⟨fun d => ?_, fun d => ?_, fun to f' d => ?_⟩
  · rw [hb]; simp [Op.xfers, expDelta, destOf, hq, hft]
  · rw [ho]; simp [Op.xfers, expQuarantined, hq]
  · rw [hr]; simp [Op.xfers, expRecord, hq]

/-- **The context bypass delivers directly** (`quarantine.WithBypass`, used by the exchange
module for settlements and accepted payments): the receiver is credited in full whether or not
it opted in, and the quarantine store is untouched. -/
theorem bypass_direct {s s' : State} {f t : Addr} {c rel : Coins}
    (h : exec s (.bsend f t c) = .ok (s', rel)) :
    (∀ a d, Ledger.bal s'.bank a d = Ledger.bal s.bank a d
        - (if f = a then Coins.amountOf c d else 0) + (if t = a then Coins.amountOf c d else 0)) ∧
    s'.recs = s.recs ∧ s'.index = s.index := by
  simp only [exec, bypassSend] at h
  cases hv : coinsValid c
  · simp [hv, Except.map] at h
  · simp only [hv, Bool.not_true, Bool.false_eq_true, if_false] at h
    cases hb : bankTransfers s true [⟨f, t, c⟩] with
    | error e => simp [hb, Except.map] at h
    | ok s1 =>
      simp only [hb, Except.map, Except.ok.injEq, Prod.mk.injEq] at h
      obtain ⟨rfl, _⟩ := h
      obtain ⟨rfl, _, _⟩ := bankTransfers_bypass_ok hb
      exact ⟨fun a d => Ledger.bal_move _ _ _ _ _ _, rfl, rfl⟩

/-! ### 4. declining, opting in or out, changing auto-responses -/

/-- **Decline / opt-in / opt-out / auto-response updates never move or lose funds**: every
balance is unchanged and every record keeps exactly its coins (no record appears or vanishes). -/
theorem settings_and_decline_move_nothing {s s' : State} {op : Op} {rel : Coins} (inv : StoreInv s)
    (h : exec s op = .ok (s', rel)) (hop : op.movesNoFunds = true) :
    s'.bank = s.bank ∧ ∀ k, (kvGet s'.recs k).map (·.coins) = (kvGet s.recs k).map (·.coins) := by
  cases op with
  | optIn a =>
    simp only [exec, Except.ok.injEq, Prod.mk.injEq] at h
    obtain ⟨rfl, _⟩ := h
    exact ⟨rfl, fun _ => rfl⟩
  | optOut a =>
    simp only [exec, Except.ok.injEq, Prod.mk.injEq] at h
    obtain ⟨rfl, _⟩ := h
    exact ⟨rfl, fun _ => rfl⟩
  | auto to ups =>
    simp only [exec] at h
    split at h
    · cases h
    · simp only [Except.ok.injEq, Prod.mk.injEq] at h
      obtain ⟨rfl, _⟩ := h
      have O := setAutoResponses_only to ups s
      exact ⟨O.bank, fun k => by rw [O.recs]⟩
  | decline to froms perm =>
    simp only [exec, msgDecline] at h
    cases hf : froms.isEmpty
    · simp only [hf, Bool.false_eq_true, if_false, Except.map, Except.ok.injEq, Prod.mk.injEq] at h
      obtain ⟨rfl, _⟩ := h
      have D := declineQuarantinedFunds_ok inv to froms
      split
      · have O := setAutoResponses_only to (froms.map fun f => (f, AutoResp.decline)) (declineQuarantinedFunds s to froms)
        exact ⟨O.bank.trans D.bank, fun k => by rw [O.recs]; exact D.coins k⟩
      · exact ⟨D.bank, D.coins⟩
    · simp [hf, Except.map] at h
  | send f t c => simp [Op.movesNoFunds] at hop
  | msend f outs => simp [Op.movesNoFunds] at hop
  | iosend ins t => simp [Op.movesNoFunds] at hop
  | bsend f t c => simp [Op.movesNoFunds] at hop
  | accept to froms perm => simp [Op.movesNoFunds] at hop
  | qadd to froms amt payer => simp [Op.movesNoFunds] at hop

/-! ### 5. accept: paid exactly once, in full, when the last unaccepted sender is accepted -/

/-- **Released in full, exactly the completed records.** A successful `accept to froms` pays
`to`, out of the holder, exactly the coins of those records of `to` whose every still
unaccepted sender is named in `froms` — that amount is also what the message reports as
released — and changes no other balance. -/
theorem accept_pays_completed_records {s s' : State} {to : Addr} {froms : List Addr} {perm : Bool} {rel : Coins}
    (inv : StoreInv s) (h : exec s (.accept to froms perm) = .ok (s', rel)) :
    (∀ d, Coins.amountOf rel d = expReleased s.recs to froms d) ∧
    (∀ a d, Ledger.bal s'.bank a d = Ledger.bal s.bank a d
        + (if to = a then expReleased s.recs to froms d else 0)
        - (if s.holder = a then expReleased s.recs to froms d else 0)) ∧
    (∀ d, outstanding s' d = outstanding s d - expReleased s.recs to froms d) := by
  obtain ⟨s1, A, O⟩ := accept_facts inv h
  have hsum := relSum_eq_expReleased inv to froms
  refine ⟨fun d => ?_, fun a d => ?_, fun d => ?_⟩
  · rw [A.rel, hsum]; simp
  · rw [O.bank, A.bal, hsum]
  · rw [O.outstanding, A.out, hsum]

/-- **The fate of every record under an accept.** A record of `to` all of whose unaccepted
senders are named is gone afterwards (so it cannot be paid again); every other record — of
`to` or of anybody else — is still there with exactly the same coins, and no record appears. -/
theorem accept_record_fate {s s' : State} {to : Addr} {froms : List Addr} {perm : Bool} {rel : Coins}
    (inv : StoreInv s) (h : exec s (.accept to froms perm) = .ok (s', rel)) (k : Addr × Suffix) :
    match kvGet s.recs k with
    | none => kvGet s'.recs k = none
    | some r =>
      if k.1 = to ∧ completes froms r = true then kvGet s'.recs k = none
      else (kvGet s'.recs k).map (·.coins) = some r.coins := by
  obtain ⟨s1, A, O⟩ := accept_facts inv h
  rw [O.recs]
  -- is the key among the snapshot's keys?
  by_cases hin : k ∈ (getQuarantineRecords s to froms).map (fun r => (to, keyOf r))
  · obtain ⟨r, hr, rfl⟩ := List.mem_map.mp hin
    have hst := (getQuarantineRecords_snapshot inv to froms).stored r hr
    rw [hst]
    have hnfa : r.isFullyAccepted = false := inv.nfa _ (mem_of_kvGet hst)
    have he := A.each r hr
    rw [releases_eq_completes froms hnfa] at he
    by_cases hc : completes froms r = true
    · simp only [hc, if_true] at he
      simp [hc, he]
    · simp only [hc] at he
      obtain ⟨r', hg, hc', _⟩ := he
      simp [hc, hg, hc']
  · rw [A.other k hin]
    cases hg : kvGet s.recs k with
    | none => rfl
    | some r =>
      simp only
      have hmem := mem_of_kvGet hg
      split
      · -- a completed record of `to` is always found through the index: contradiction
        rename_i hc
        obtain ⟨rfl, hc⟩ := hc
        exfalso
        apply hin
        have hnfa : r.isFullyAccepted = false := inv.nfa _ hmem
        cases hu : r.unacc with
        | nil => simp [Record.isFullyAccepted, hu] at hnfa
        | cons a rest =>
          have ha : a ∈ r.unacc := by rw [hu]; exact List.mem_cons_self ..
          have hfrom : a ∈ froms := by
            have := List.all_eq_true.mp hc a ha
            simpa using this
          obtain ⟨t, k2⟩ := k
          have hk := mem_suffixes inv hmem (show a ∈ r.getAllFromAddrs from List.mem_append_left _ ha) hfrom
          have hkey : keyOf r = k2 := inv_key_of_get inv hg
          refine List.mem_map.mpr ⟨r, ?_, by rw [hkey]⟩
          unfold getQuarantineRecords
          exact List.mem_filterMap.mpr ⟨k2, hk, hg⟩
      · rfl

/-- **An accept never fails** for lack of funds or for any other reason, in any state whose
holder covers the records: the loop pays every completed record out of the holder. -/
theorem accept_never_fails {s : State} (inv : StoreInv s) (hcov : HolderCovers s) (to : Addr) (froms : List Addr)
    (perm : Bool) (hf : froms ≠ []) : ∃ s' rel, exec s (.accept to froms perm) = .ok (s', rel) := by
  obtain ⟨s1, rel1, h1⟩ := acceptLoop_succeeds to froms _ s [] inv (getQuarantineRecords_snapshot inv to froms) hcov
  have hfe : froms.isEmpty = false := by cases froms with
    | nil => exact absurd rfl hf
    | cons a t => rfl
  simp only [exec, msgAccept, hfe, Bool.false_eq_true, if_false, acceptQuarantinedFunds, h1]
  exact ⟨_, _, rfl⟩

/-- **Never lost: quarantined funds can always be claimed.** After any history in which the
holder signs nothing, for every record on file for a receiver `to`: the receiver's accept of
that record's unaccepted senders succeeds, removes the record, and credits `to` with at least
the record's coins. -/
theorem funds_always_claimable (s0 : State) (ops : List Op) (inv0 : StoreInv s0) (hcov0 : HolderCovers s0)
    (hsign : ∀ op ∈ ops, op.holderNeverSigns s0.holder = true)
    {to : Addr} {k : Suffix} {r : Record} (hmem : ((to, k), r) ∈ (run s0 ops).recs) (hto : to ≠ s0.holder)
    (perm : Bool) :
    ∃ s' rel, exec (run s0 ops) (.accept to r.unacc perm) = .ok (s', rel) ∧ kvGet s'.recs (to, k) = none ∧
      ∀ d, Ledger.bal (run s0 ops).bank to d + Coins.amountOf r.coins d ≤ Ledger.bal s'.bank to d := by
  have inv := store_invariant s0 ops inv0
  have hcov := holder_covers_records s0 ops inv0 hcov0 hsign
  have hh := holder_constant s0 ops inv0
  have hne : r.unacc ≠ [] := by
    intro e
    have := inv.nfa _ hmem
    simp [Record.isFullyAccepted, e] at this
  have hcomp : completes r.unacc r = true := by
    unfold completes
    rw [List.all_eq_true]
    intro a ha
    simpa using ha
  obtain ⟨s', rel, hex⟩ := accept_never_fails inv hcov to r.unacc perm hne
  refine ⟨s', rel, hex, ?_, ?_⟩
  · have hfate := accept_record_fate inv hex (to, k)
    rw [kvGet_of_mem_nodup inv.nodup hmem] at hfate
    simpa [hcomp] using hfate
  · intro d
    rw [(accept_pays_completed_records inv hex).2.1 to d, hh]
    have := le_expReleased_of_mem (d := d) hmem hcomp (fun x hx => inv.nonneg x hx d)
    simp [Ne.symm hto]
    omega

/-! ### 6. the suffix index never loses a record -/

/-- **Lookup by any sender finds every record containing that sender**: for every stored record
of `to` and every one of its senders (accepted or not) named in `froms`, `GetQuarantineRecords`
returns that record — single-sender records through their own key, multi-sender records
through the suffix index. -/
theorem index_complete {s : State} (inv : StoreInv s) {to : Addr} {k : Suffix} {r : Record}
    (hmem : ((to, k), r) ∈ s.recs) {f : Addr} (hf : f ∈ r.getAllFromAddrs) {froms : List Addr} (hff : f ∈ froms) :
    r ∈ getQuarantineRecords s to froms := by
  unfold getQuarantineRecords
  exact List.mem_filterMap.mpr ⟨k, mem_suffixes inv hmem hf hff, kvGet_of_mem_nodup inv.nodup hmem⟩

/-- … and it returns each record once (the snapshot has no duplicates), so the accept loop can
pay a record only once. -/
theorem lookup_no_duplicates {s : State} (inv : StoreInv s) (to : Addr) (froms : List Addr) :
    ((getQuarantineRecords s to froms).map keyOf).Nodup :=
  (getQuarantineRecords_snapshot inv to froms).nodup

/-- over all histories: the index of every reachable state is complete -/
theorem index_complete_always (s0 : State) (ops : List Op) (inv : StoreInv s0) {to : Addr} {k : Suffix} {r : Record}
    (hmem : ((to, k), r) ∈ (run s0 ops).recs) {f : Addr} (hf : f ∈ r.getAllFromAddrs) {froms : List Addr}
    (hff : f ∈ froms) : r ∈ getQuarantineRecords (run s0 ops) to froms :=
  index_complete (store_invariant s0 ops inv) hmem hf hff

/-! ### 7. observations beyond C07: genesis export followed by import

These two statements are NOT part of property C07 (whose quantifier has no genesis operation);
they belong to C18 (genesis round trip); see `observations/C07.md` and
the repair b5c01b2ec in /repo (these statements are about the PRE-FIX import, `regenesisPreFix`).  The C07 check evaluates no verdict on `regenesisPreFix`
lines (the op is in the stream as a correspondence op only). -/

/-- (belongs to C18; see observations/) **Export/import keeps every quarantined coin on record — partial.**
Full statement (FALSE of the code, see `regenesis_can_lose_funds_observation`): after `ExportGenesis` followed
by `InitGenesis` the total on record is what it was.  Proved here under the hypothesis that is
missing in the code: no two exported entries share receiver and unaccepted-sender set (true
whenever no multi-sender record is partially accepted). -/
theorem regenesis_preserves_partial_observation {s s' : State} (inv : StoreInv s) (order : List GenFunds → List GenFunds)
    (hperm : ∀ l, (order l).Perm l)
    (hdistinct : ((exportGenesis s).map fun g => (g.to, createRecordSuffix g.unacc)).Nodup)
    (h : regenesisPreFix s order = .ok s') : ∀ d, outstanding s' d = outstanding s d := by
  intro d
  unfold regenesisPreFix regenesisWith at h
  simp only at h
  split at h
  · injection h with h
    subst h
    have hp := hperm (exportGenesis s)
    have hmem : ∀ g ∈ order (exportGenesis s), ∃ e ∈ s.recs, g = ⟨e.1.1, e.2.unacc, e.2.coins, e.2.declined⟩ := by
      intro g hg
      have := hp.mem_iff.mp hg
      simp only [exportGenesis, List.mem_map] at this
      obtain ⟨e, he, rfl⟩ := this
      exact ⟨e, he, rfl⟩
    rw [initGenesisFunds_total d _ _ ⟨fun _ he => by simp at he, by simp [KeysNodup], fun _ he => by simp at he,
        fun _ he => by simp at he, fun _ he => by simp at he⟩]
    · -- the totals agree
      have h1 : genTotal (order (exportGenesis s)) d = genTotal (exportGenesis s) d := genTotal_perm d hp
      have h2 : genTotal (exportGenesis s) d = outstanding s d := by
        unfold outstanding exportGenesis
        induction s.recs with
        | nil => rfl
        | cons e t ih => obtain ⟨k, r⟩ := e; simp [genTotal, sumRecs, ih]
      rw [h1, h2]
      simp [outstanding, sumRecs]
    · exact (hp.map _).nodup_iff.mpr hdistinct
    · intro g _; rfl
    · intro g hg
      obtain ⟨e, he, rfl⟩ := hmem g hg
      intro hu
      have := inv.nfa e he
      simp only [Record.isFullyAccepted] at this
      have hu' : e.2.unacc = [] := hu
      rw [hu'] at this
      cases this
    · intro g hg
      obtain ⟨e, he, rfl⟩ := hmem g hg
      exact inv.nonneg e he
  · cases h

/-! ### 8. payment and direct delivery judged by the HISTORY of the receiver's messages

The accepted / unaccepted lists of a record, the auto-response entries and the opt-in flags are
the store's own bookkeeping.  `Hist` (PvModel/QuarSpec.lean) rebuilds the receiver's choices from
the successful messages alone: an accept marks the named senders accepted on every record of the
receiver they are on, a decline takes every named sender's acceptance back, a new record starts
with the senders on auto-accept at that moment, and auto-responses change only by
`UpdateAutoResponses` and by PERMANENT accepts / declines.  The theorems below say that the store
always agrees with that history (`HistOK`), hence: a record is paid exactly when every sender on
it is currently accepted (accepted and not declined since), and funds arrive directly only from
senders whose auto-response — as set by the messages seen so far — is accept. -/

/-- a fresh chain agrees with the empty history -/
theorem history_init (h : Addr) (rd : List Denom) (xf : List Addr) (b : Ledger) :
    HistOK Hist.empty (init h rd xf b) :=
  ⟨rfl, rfl, fun _ _ hg => by simp [init] at hg, fun _ _ => rfl⟩

/-- **One successful operation keeps the store in agreement with the history**: opt-ins and
auto-responses are exactly what the messages so far set, and the accepted list of every stored
record is exactly the set of senders accepted and not declined since. -/
theorem history_step {h : Hist} {s s' : State} {op : Op} {rel : Coins} (inv : StoreInv s) (H : HistOK h s)
    (he : exec s op = .ok (s', rel)) : HistOK (h.step op (s'.recs.map (·.1))) s' :=
  exec_histOK inv H he

/-- … hence after every operation list -/
theorem history_agrees (s0 : State) (h0 : Hist) (ops : List Op) (inv : StoreInv s0) (H0 : HistOK h0 s0) :
    HistOK (histRun h0 s0 ops) (run s0 ops) :=
  histRun_ok ops h0 s0 inv H0

/-- … in particular from a fresh chain -/
theorem history_agrees_from_genesis (h : Addr) (rd : List Denom) (xf : List Addr) (b : Ledger) (ops : List Op) :
    HistOK (histRun Hist.empty (init h rd xf b) ops) (run (init h rd xf b) ops) :=
  history_agrees _ _ ops (init_inv h rd xf b) (history_init h rd xf b)

/-- **A record is paid exactly when every sender on it is currently accepted.** A successful
`accept to froms` removes (= pays, `accept_pays_completed_records`) the record `(to, k)` if and
only if every sender of the record is named in `froms` or is accepted according to the history
(accepted earlier and not declined since). -/
theorem paid_iff_every_sender_accepted {h : Hist} {s s' : State} {to : Addr} {froms : List Addr} {perm : Bool}
    {rel : Coins} (inv : StoreInv s) (H : HistOK h s) (he : exec s (.accept to froms perm) = .ok (s', rel))
    {k : Suffix} {r : Record} (hg : kvGet s.recs (to, k) = some r) :
    kvGet s'.recs (to, k) = none ↔ ∀ a ∈ k, a ∈ froms ∨ a ∈ h.accepted (to, k) := by
  obtain ⟨ga, hga, hag, hd⟩ := H.recs (to, k) r hg
  have hacc : h.accepted (to, k) = ga := by simp [Hist.accepted, hga]
  have hfate := accept_record_fate inv he (to, k)
  rw [hg] at hfate
  simp only [true_and] at hfate
  have hcomp : completes froms r = true ↔ ∀ a ∈ k, a ∈ froms ∨ a ∈ h.accepted (to, k) := by
    unfold completes
    rw [List.all_eq_true, hacc]
    constructor
    · intro hall a ha
      rcases (mem_key_iff inv hg a).mp ha with h1 | h1
      · exact Or.inl (by simpa using hall a h1)
      · exact Or.inr ((hag a).mp h1)
    · intro hall a ha
      rcases hall a ((mem_key_iff inv hg a).mpr (Or.inl ha)) with h1 | h1
      · simpa using h1
      · exact absurd ((hag a).mpr h1) (hd a ha)
  rw [← hcomp]
  by_cases hc : completes froms r = true
  · simp only [hc, if_true] at hfate
    exact ⟨fun _ => hc, fun _ => hfate⟩
  · simp only [hc] at hfate
    constructor
    · intro hn; rw [hn] at hfate; simp at hfate
    · intro h1; exact absurd h1 hc

/-- the direction the property names: **paid only when EVERY sender is currently accepted** -/
theorem paid_only_when_every_sender_accepted {h : Hist} {s s' : State} {to : Addr} {froms : List Addr} {perm : Bool}
    {rel : Coins} (inv : StoreInv s) (H : HistOK h s) (he : exec s (.accept to froms perm) = .ok (s', rel))
    {k : Suffix} {r : Record} (hg : kvGet s.recs (to, k) = some r) (hpaid : kvGet s'.recs (to, k) = none) :
    ∀ a ∈ k, a ∈ froms ∨ a ∈ h.accepted (to, k) :=
  (paid_iff_every_sender_accepted inv H he hg).mp hpaid

/-- **A decline takes an earlier acceptance back**: after a decline naming `a`, the history does
not have `a` as accepted on any record of that receiver it knew (so by `paid_iff_every_sender_accepted`
the record is not paid until `a` is accepted again) — whether or not the record was already declined. -/
theorem decline_revokes_acceptance {h : Hist} {to : Addr} {froms : List Addr} {perm : Bool}
    {keys : List (Addr × Suffix)} {k : Suffix} {ga : List Addr} {a : Addr}
    (hk : kvGet h.acc (to, k) = some ga) (ha : a ∈ froms) :
    a ∉ (h.step (.decline to froms perm) keys).accepted (to, k) := by
  unfold Hist.accepted Hist.step
  simp only
  rw [kvGet_map_keys (h.accAfter (.decline to froms perm))]
  split
  · simp [Hist.accAfter, kvGet_stepAccExisting, hk, accUpd, ha]
  · simp

/-- **What an accept pays, read off the history**: the released coins are the coins of the
records of `to` all of whose senders are named or currently accepted according to the history. -/
theorem accept_pays_per_history {h : Hist} {s s' : State} {to : Addr} {froms : List Addr} {perm : Bool} {rel : Coins}
    (inv : StoreInv s) (H : HistOK h s) (he : exec s (.accept to froms perm) = .ok (s', rel)) :
    (∀ d, Coins.amountOf rel d = expReleased (h.view s).recs to froms d) ∧
    (∀ a d, Ledger.bal s'.bank a d = Ledger.bal s.bank a d
        + (if to = a then expReleased (h.view s).recs to froms d else 0)
        - (if s.holder = a then expReleased (h.view s).recs to froms d else 0)) := by
  obtain ⟨h1, h2, _⟩ := accept_pays_completed_records inv he
  simp only [expReleased_view inv H]
  exact ⟨h1, h2⟩

/-- **Delivery of every send, read off the history**: every account's balance changes by exactly
`expDelta` evaluated with the receiver's opt-in and auto-responses AS SET BY THE MESSAGES SO FAR:
a transfer reaches an opted-in receiver directly only if the history has the sender on
auto-accept; otherwise it goes to the holder and onto the record. -/
theorem send_delivery_per_history {h : Hist} {s s' : State} {op : Op} {rel : Coins} (inv : StoreInv s)
    (H : HistOK h s) (he : exec s op = .ok (s', rel)) (hop : op.xfers ≠ []) :
    (∀ a d, Ledger.bal s'.bank a d = Ledger.bal s.bank a d + expDelta (h.view s) op.xfers a d) ∧
    (∀ d, outstanding s' d = outstanding s d + expQuarantined (h.view s) op.xfers d) ∧
    (∀ to f d, Coins.amountOf (coinsAt s' to [f]) d
        = Coins.amountOf (coinsAt s to [f]) d + expRecord (h.view s) op.xfers to f d) := by
  obtain ⟨h1, h2, h3, _⟩ := send_delivery inv he hop
  have R := view_sameRest H
  refine ⟨fun a d => ?_, fun d => ?_, fun to f d => ?_⟩
  · rw [expDelta_congr R]; exact h1 a d
  · rw [expQuarantined_congr R]; exact h2 d
  · rw [expRecord_congr R]; exact h3 to f d

/-- **A one-time accept or decline changes no setting**: only `UpdateAutoResponses` and the
PERMANENT forms change auto-responses, only opt-in/out change the opt-in flag
(`history_step` for every operation; this is the instance for the non-permanent forms). -/
theorem one_time_response_keeps_settings {h : Hist} {s s' : State} {to : Addr} {froms : List Addr} {rel : Coins}
    (inv : StoreInv s) (H : HistOK h s)
    (he : exec s (.accept to froms false) = .ok (s', rel) ∨ exec s (.decline to froms false) = .ok (s', rel)) :
    s'.auto = s.auto ∧ s'.optin = s.optin := by
  rcases he with he | he
  · have H' := history_step inv H he
    exact ⟨H'.auto.symm.trans H.auto, H'.optin.symm.trans H.optin⟩
  · have H' := history_step inv H he
    exact ⟨H'.auto.symm.trans H.auto, H'.optin.symm.trans H.optin⟩

/-! ### non-vacuity: a concrete history meets every hypothesis used above -/

namespace Demo

def s0 : State :=
  init "H" ["rcoin"] ["A"] (Ledger.entries "A" [("aaa", 100), ("rcoin", 9)] ++ Ledger.entries "B" [("aaa", 50)])

/-- C opts in; A's send is quarantined; A+B's joint funds are quarantined; B's send tops up nothing of A's;
C accepts A (single-sender record paid, joint record only partially accepted); C declines B for good. -/
def ops : List Op :=
  [.optIn "C", .send "A" "C" [("aaa", 5)], .qadd "C" ["A", "B"] [("aaa", 3)] "B", .send "B" "C" [("aaa", 2)],
   .accept "C" ["A"] false, .decline "C" ["B"] true]

example : StoreInv s0 := init_inv _ _ _ _
example : HolderCovers s0 := fun d => by simp [s0, init, outstanding, sumRecs, Ledger.entries, Ledger.bal]
example : GhostLedger s0 := fun d => by simp [s0, init, outstanding, sumRecs]
example : ∀ op ∈ ops, op.holderNeverSigns s0.holder = true := by decide
example : ∀ op ∈ ops, op.holderNotNamed s0.holder = true := by decide
-- the run really quarantines, releases and keeps a partially accepted multi-sender record
example : Ledger.bal (run s0 ops).bank "C" "aaa" = 5 := by decide
example : Ledger.bal (run s0 ops).bank "H" "aaa" = 5 := by decide
example : outstanding (run s0 ops) "aaa" = 5 := by decide
example : (run s0 ops).recs.map (fun e => (e.1, e.2.unacc, e.2.acc, e.2.declined))
    = [(("C", ["A", "B"]), ["B"], ["A"], true), (("C", ["B"]), ["B"], [], true)] := by decide
example : (run s0 ops).index = [(("C", "A"), [["A", "B"]]), (("C", "B"), [["A", "B"]])] := by decide

/-- state in which C has opted in -/
def s1 : State := run s0 (ops.take 1)
-- hypotheses of `not_credited_until_accepted` / `send_delivery`
example : isQuarantinedAddr s1 "C" = true := by decide
example : getAutoResponse s1 "C" "A" ≠ .accept := by decide
example : (exec s1 (.send "A" "C" [("aaa", 5)])).toBool = true := by decide
-- hypothesis of `autoaccept_direct` (B is not opted in)
example : quarantines s1 "A" "B" = false := by decide
example : (exec s1 (.send "A" "B" [("aaa", 5)])).toBool = true := by decide
-- hypotheses of `settings_and_decline_move_nothing`
example : (Op.decline "C" ["B"] true).movesNoFunds = true := rfl

/-- state with three records for C -/
def s4 : State := run s0 (ops.take 4)
-- hypotheses of the accept theorems: the accept succeeds and really releases one of three records
example : (exec s4 (.accept "C" ["A"] false)).toBool = true := by decide
example : expReleased s4.recs "C" ["A"] "aaa" = 5 := by decide
example : s4.recs.length = 3 := by decide
-- hypotheses of `funds_always_claimable` (with `s0`, `ops.take 4` above): a record of C, C is not the holder
example : (("C", ["A"]), (⟨["A"], [], [("aaa", 5)], false⟩ : Record)) ∈ (run s0 (ops.take 4)).recs := by decide
-- hypotheses of `index_complete`: a multi-sender record, looked up by its second sender only
example : (("C", ["A", "B"]), (⟨["A", "B"], [], [("aaa", 3)], false⟩ : Record)) ∈ s4.recs := by decide
example : (getQuarantineRecords s4 "C" ["B"]).length = 2 := by decide

/-- (belongs to C18; see observations/) **Export/import can lose quarantined funds (witness).** In the reachable state `run s0 ops`
(a partially accepted record `C<A+B` with unaccepted `[B]` next to the record `C<B`), exporting
and importing genesis leaves 2aaa or 3aaa on record out of 5aaa (depending on which of the two
entries is imported last), while the holder still has all 5aaa: the rest can never be accepted. -/
theorem _root_.PvProofs.C07.regenesis_can_lose_funds_observation :
    outstanding (run s0 ops) "aaa" = 5 ∧
    (∀ s', regenesisPreFix (run s0 ops) id = .ok s' → outstanding s' "aaa" = 2 ∧ Ledger.bal s'.bank "H" "aaa" = 5) ∧
    (∀ s', regenesisPreFix (run s0 ops) List.reverse = .ok s' → outstanding s' "aaa" = 3 ∧ Ledger.bal s'.bank "H" "aaa" = 5) ∧
    (regenesisPreFix (run s0 ops) id).toBool = true := by
  refine ⟨by decide, ?_, ?_, by decide⟩
  · intro s' h
    rw [regenesis_ok_eq h]
    decide
  · intro s' h
    rw [regenesis_ok_eq h]
    decide

-- hypotheses of section 8: the history of `ops` from the fresh chain `s0` agrees with the store …
example : HistOK (histRun Hist.empty s0 ops) (run s0 ops) := history_agrees_from_genesis _ _ _ _ ops
-- … and is not trivial: A accepted on the joint record, B permanently declined
example : (histRun Hist.empty s0 ops).accepted ("C", ["A", "B"]) = ["A"] := by decide
example : (histRun Hist.empty s0 ops).auto = [(("C", "B"), AutoResp.decline)] := by decide

/-- accept A, decline B (marks the record declined), decline A (takes A's acceptance back on the
already declined record), accept B: the joint record must NOT be paid -/
def opsRevoke : List Op :=
  [.optIn "C", .qadd "C" ["A", "B"] [("aaa", 3)] "B", .accept "C" ["A"] false, .decline "C" ["B"] false,
   .decline "C" ["A"] false, .accept "C" ["B"] false]
example : (run s0 opsRevoke).recs.map (fun e => (e.1, e.2.unacc, e.2.acc)) = [(("C", ["A", "B"]), ["A"], ["B"])] := by decide
example : Ledger.bal (run s0 opsRevoke).bank "C" "aaa" = 0 := by decide
example : (histRun Hist.empty s0 opsRevoke).accepted ("C", ["A", "B"]) = ["B"] := by decide

/-- permanent decline of A, A sends (held), one-time accept of A (paid), A sends again: held again -/
def opsOneTime : List Op :=
  [.optIn "C", .decline "C" ["A"] true, .send "A" "C" [("aaa", 5)], .accept "C" ["A"] false, .send "A" "C" [("aaa", 4)]]
example : Ledger.bal (run s0 opsOneTime).bank "C" "aaa" = 5 := by decide
example : Ledger.bal (run s0 opsOneTime).bank "H" "aaa" = 4 := by decide
example : (run s0 opsOneTime).auto = [(("C", "A"), AutoResp.decline)] := by decide

-- hypotheses of `regenesis_preserves_partial_observation`: before C accepts A nothing is partially accepted
example : ((exportGenesis s4).map fun g => (g.to, createRecordSuffix g.unacc)).Nodup := by decide
example : (regenesisPreFix s4 id).toBool = true := by decide

end Demo

end PvProofs.C07
