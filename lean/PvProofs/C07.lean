/-
C07 — Quarantined funds are held, never lost, and released only on acceptance.

Property theorems only (helper lemmas: `PvProofs/Lemmas/Quar*.lean`).  The model is
`PvModel.Quar` (x/quarantine keeper + msg server over the bank `Ledger`, with the marker
restriction for a restricted denom in front of the quarantine restriction); the statements
quantify over ALL states satisfying the store invariant `StoreInv` (which every reachable state
does: `store_invariant`) and ALL operation lists `ops : List Op`
(opt-in/out, auto-response updates, MsgSend, MsgMultiSend, multi-input InputOutputCoins,
accept/decline naming any senders with or without the permanent flag, AddQuarantinedCoins
for an arbitrary sender set).  A rejected operation leaves the state unchanged by
construction of `step` (the harness checks that on the implementation).

Two hypotheses appear where they are needed and nowhere else:
* `holderNeverSigns`: no operation is signed by the funds holder (a module account without
  a key).  Without it the holder could simply send the quarantined coins away.
* `holderNotNamed` (only for the equality): nobody sends coins to the holder directly.
-/
import PvProofs.Lemmas.QuarStep

namespace PvProofs.C07
open PvModel PvModel.Quar PvProofs.QuarL

/-! ### plumbing: `step` / `run` -/

theorem step_eq (s : State) (op : Op) :
    (∃ s' rel, exec s op = .ok (s', rel) ∧ step s op = s') ∨ ((∃ e, exec s op = .error e) ∧ step s op = s) := by
  unfold step
  cases h : exec s op with
  | error e => exact Or.inr ⟨⟨e, rfl⟩, rfl⟩
  | ok p => exact Or.inl ⟨p.1, p.2, rfl, rfl⟩

/-- A generic induction principle over operation lists: a relation between the start state
and the current state that is reflexive, transitive and established by every successful
operation on a state satisfying the store invariant holds for the whole run. -/
theorem run_induction (R : State → State → Prop) (hrefl : ∀ s, R s s)
    (htrans : ∀ a b c, R a b → R b c → R a c)
    (P : State → Op → Prop)
    (hstep : ∀ (s s' : State) (op : Op) (rel : Coins), StoreInv s → P s op → exec s op = .ok (s', rel) → R s s' ∧ StoreInv s')
    (hP : ∀ (s s' : State) (op op' : Op), R s s' → P s op' → P s' op') :
    ∀ (ops : List Op) (s : State), StoreInv s → (∀ op ∈ ops, P s op) → R s (run s ops) ∧ StoreInv (run s ops) := by
  intro ops
  induction ops with
  | nil => intro s inv _; exact ⟨hrefl s, inv⟩
  | cons op rest ih =>
    intro s inv hall
    show R s (run (step s op) rest) ∧ StoreInv (run (step s op) rest)
    rcases step_eq s op with ⟨s', rel, he, hs⟩ | ⟨_, hs⟩
    · rw [hs]
      obtain ⟨hR, inv'⟩ := hstep s s' op rel inv (hall op (List.mem_cons_self ..)) he
      have := ih s' inv' (fun o ho => hP s s' op o hR (hall o (List.mem_cons_of_mem _ ho)))
      exact ⟨htrans _ _ _ hR this.1, this.2⟩
    · rw [hs]
      exact ih s inv (fun o ho => hall o (List.mem_cons_of_mem _ ho))

/-! ### 0. the store invariant -/

/-- Every state reached from a state satisfying the store invariant satisfies it: records sit
under the key recomputed from their own senders, keys are unique, no stored record is fully
accepted, and every multi-sender record is listed in the suffix index of each of its senders. -/
theorem store_invariant (s : State) (ops : List Op) (inv : StoreInv s) : StoreInv (run s ops) :=
  (run_induction (fun _ _ => True) (fun _ => trivial) (fun _ _ _ _ _ => trivial) (fun _ _ => True)
    (fun _ _ _ _ i _ he => ⟨trivial, (exec_ok i he).inv⟩) (fun _ _ _ _ _ _ => trivial) ops s inv
    (fun _ _ => trivial)).2

/-- a fresh chain (nothing quarantined) satisfies the store invariant -/
theorem init_inv (h : Addr) (rd : List Denom) (xf : List Addr) (b : Ledger) : StoreInv (init h rd xf b) :=
  ⟨fun _ he => by simp [init] at he, by simp [KeysNodup, init], fun _ he => by simp [init] at he,
   fun _ he => by simp [init] at he⟩

/-- the holder address never changes -/
theorem holder_constant (s : State) (ops : List Op) (inv : StoreInv s) : (run s ops).holder = s.holder :=
  (run_induction (fun a b => b.holder = a.holder) (fun _ => rfl) (fun _ _ _ h1 h2 => h2.trans h1) (fun _ _ => True)
    (fun _ _ _ _ i _ he => ⟨(exec_ok i he).holder, (exec_ok i he).inv⟩) (fun _ _ _ _ _ _ => trivial) ops s inv
    (fun _ _ => trivial)).1

/-! ### 1. the holder covers all records -/

/-- **Holder slack never decreases.** For every operation list in which the holder signs
nothing, what the holder has beyond the total of all records never decreases, per denom. -/
theorem holder_slack_never_decreases (s : State) (ops : List Op) (inv : StoreInv s)
    (hsign : ∀ op ∈ ops, op.holderNeverSigns s.holder = true) :
    ∀ d, slack s d ≤ slack (run s ops) d := by
  have := (run_induction (fun a b => b.holder = a.holder ∧ ∀ d, slack a d ≤ slack b d)
    (fun _ => ⟨rfl, fun _ => Int.le_refl _⟩)
    (fun a b c h1 h2 => ⟨h2.1.trans h1.1, fun d => Int.le_trans (h1.2 d) (h2.2 d)⟩)
    (fun s op => op.holderNeverSigns s.holder = true)
    (fun s s' op rel i hp he => ⟨⟨(exec_ok i he).holder, (exec_ok i he).slack_ge hp⟩, (exec_ok i he).inv⟩)
    (fun s s' op op' hR hp => by rw [hR.1]; exact hp) ops s inv hsign).1
  exact this.2

/-- **Holder slack is exact.** If in addition nobody names the holder as a recipient, the
holder's balance moves exactly with the total of the records: `balance − records` is constant. -/
theorem holder_slack_exact (s : State) (ops : List Op) (inv : StoreInv s)
    (hname : ∀ op ∈ ops, op.holderNotNamed s.holder = true) :
    ∀ d, slack (run s ops) d = slack s d := by
  have := (run_induction (fun a b => b.holder = a.holder ∧ ∀ d, slack b d = slack a d)
    (fun _ => ⟨rfl, fun _ => rfl⟩)
    (fun a b c h1 h2 => ⟨h2.1.trans h1.1, fun d => (h2.2 d).trans (h1.2 d)⟩)
    (fun s op => op.holderNotNamed s.holder = true)
    (fun s s' op rel i hp he => ⟨⟨(exec_ok i he).holder, (exec_ok i he).slack_eq hp⟩, (exec_ok i he).inv⟩)
    (fun s s' op op' hR hp => by rw [hR.1]; exact hp) ops s inv hname).1
  exact this.2

/-- **The invariant of the property.** The holder's balance covers the total of all quarantine
records, per denom, after every operation list (holder signs nothing). -/
theorem holder_covers_records (s : State) (ops : List Op) (inv : StoreInv s) (h0 : HolderCovers s)
    (hsign : ∀ op ∈ ops, op.holderNeverSigns s.holder = true) : HolderCovers (run s ops) := by
  intro d
  have h1 := holder_slack_never_decreases s ops inv hsign d
  have h2 := h0 d
  have hh := holder_constant s ops inv
  unfold slack at h1
  rw [hh] at h1 ⊢
  omega

/-- … in particular from a fresh chain whose holder account has no negative balance. -/
theorem holder_covers_records_from_genesis (h : Addr) (rd : List Denom) (xf : List Addr) (b : Ledger)
    (hb : ∀ d, 0 ≤ Ledger.bal b h d) (ops : List Op)
    (hsign : ∀ op ∈ ops, op.holderNeverSigns h = true) : HolderCovers (run (init h rd xf b) ops) :=
  holder_covers_records _ ops (init_inv h rd xf b) (fun d => by simpa [init, outstanding, sumRecs] using hb d) hsign

/-- and when nobody sends to the holder directly, the holder's balance *equals* its initial
balance plus the total of all records. -/
theorem holder_equals_records_from_genesis (h : Addr) (rd : List Denom) (xf : List Addr) (b : Ledger)
    (ops : List Op) (hname : ∀ op ∈ ops, op.holderNotNamed h = true) (d : Denom) :
    Ledger.bal (run (init h rd xf b) ops).bank h d = Ledger.bal b h d + outstanding (run (init h rd xf b) ops) d := by
  have h1 := holder_slack_exact _ ops (init_inv h rd xf b) hname d
  have hh := holder_constant _ ops (init_inv h rd xf b)
  unfold slack at h1
  rw [hh] at h1
  simp only [init, outstanding, sumRecs] at h1 ⊢
  omega

/-- the chain's own invariant `FundsHolderBalanceInvariant` (invariants.go) is never broken -/
theorem fundsHolderBalanceInvariant_never_broken (s : State) (ops : List Op) (inv : StoreInv s) (h0 : HolderCovers s)
    (hsign : ∀ op ∈ ops, op.holderNeverSigns s.holder = true) :
    fundsHolderBalanceInvariant (run s ops) = true := by
  unfold fundsHolderBalanceInvariant
  rw [List.all_eq_true]
  intro d _
  simpa using holder_covers_records s ops inv h0 hsign d

/-! ### 2. ghost ledger and supply -/

/-- **Ghost ledger.** Everything ever quarantined is either released by an accept or still on
record: `quarantined_in = released + outstanding`, per denom, after every operation list. -/
theorem ghost_ledger (s : State) (ops : List Op) (inv : StoreInv s) (h0 : GhostLedger s) : GhostLedger (run s ops) := by
  have := (run_induction
    (fun a b => ∀ d, Coins.amountOf b.qin d - Coins.amountOf b.qout d - outstanding b d
        = Coins.amountOf a.qin d - Coins.amountOf a.qout d - outstanding a d)
    (fun _ _ => rfl) (fun a b c h1 h2 d => (h2 d).trans (h1 d)) (fun _ _ => True)
    (fun s s' op rel i _ he => ⟨(exec_ok i he).ghost, (exec_ok i he).inv⟩) (fun _ _ _ _ _ _ => trivial)
    ops s inv (fun _ _ => trivial)).1
  intro d
  have h1 := this d
  have h2 := h0 d
  omega

/-- **Total supply is conserved** by every operation list (no hypothesis on the holder). -/
theorem supply_conserved (s : State) (ops : List Op) (inv : StoreInv s) (d : Denom) :
    Ledger.supply (run s ops).bank d = Ledger.supply s.bank d :=
  (run_induction (fun a b => ∀ d, Ledger.supply b.bank d = Ledger.supply a.bank d)
    (fun _ _ => rfl) (fun a b c h1 h2 d => (h2 d).trans (h1 d)) (fun _ _ => True)
    (fun s s' op rel i _ he => ⟨(exec_ok i he).supply, (exec_ok i he).inv⟩) (fun _ _ _ _ _ _ => trivial)
    ops s inv (fun _ _ => trivial)).1 d

end PvProofs.C07
