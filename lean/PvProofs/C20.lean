/-
C20 — Markets admit only eligible, sufficiently paid orders and commitments.

Property theorems only (helpers: `PvProofs/Lemmas/Admit*.lean`).  Every statement is for all
market configurations (any lists of flat options and ratios per fee kind, any required
attribute lists, any flags), all account attribute sets, all offered fees and all amounts.
Hypotheses are only what the chain itself guarantees before the checks run:
* the market store is a map (one flat option per denom, one ratio per (price, fee) denom
  pair), amounts are non-negative and ratio prices positive (`Market.Validate`,
  `FeeRatio.Validate`);
* explicit 256-bit guards (`RatiosFit`, `SumsFit`, `AskSumFits`): outside them the Go code
  panics in `sdkmath.Int` — that failing set is C19's finding, not repeated here; the
  theorems `*_panics_iff`/`buyerFee_no_panic` say the guards are exactly what is needed.

Before provenance commit 7640f62e9 the code violated one clause: `CreateMarket` stored the
create-commitment required attributes without normalising them, so a market that asked for
`KYC.pb` refused an account that carries `kyc.pb`
(`commit_reqattr_not_normalised_before_fix`, about the `storeMarketPreFix` definition;
known_findings.json, status fixed).  For the current code the clause is proved for all three
lists (`reqattrs_normalised`, `commit_reqattr_normalised_admits`).
-/
import PvProofs.Lemmas.AdmitBuyer
import PvProofs.Lemmas.AdmitAttr
import PvProofs.Lemmas.AdmitStore
import Mathlib.Tactic.SplitIfs

namespace PvProofs.C20
open PvModel PvModel.Admit PvModel.Fees PvProofs PvProofs.AdmitL

/-! ### Flat fees (creation fees, seller settlement flat fee) -/

/-- A flat fee is accepted exactly when the market defines no option of that kind or the
offered coin covers one of the options. -/
theorem flatFee_accepts_iff_spec {opts : List Coin} (hn : (opts.map (·.1)).Nodup)
    (fee : Option Coin) :
    validateFlatFee opts fee = .ok () ↔ FlatFeeOk opts fee := by
  unfold validateFlatFee FlatFeeOk
  cases opts with
  | nil => simp [hasFlatFee]
  | cons o rest =>
    simp only [hasFlatFee, List.isEmpty_cons, Bool.not_false, Bool.not_true, Bool.false_eq_true,
      if_false, reduceCtorEq, false_or]
    cases fee with
    | none => simp
    | some c =>
      simp only [Option.some.injEq, exists_eq_left']
      cases hg : getFlatFee (o :: rest) c.1 with
      | none =>
        have := (getFlatFee_none_iff _ _).1 hg
        simp only [reduceCtorEq, false_iff, not_exists, not_and]
        intro o' ho' hc
        exact this o' ho' hc.1
      | some req =>
        have hmem := getFlatFee_mem hg
        by_cases hlt : c.2 < req
        · simp only [hlt, if_true, reduceCtorEq, false_iff, not_exists, not_and]
          intro o' ho' hc
          have : getFlatFee (o :: rest) c.1 = some o'.2 :=
            getFlatFee_of_mem hn (by rw [← hc.1]; exact ho')
          rw [hg] at this
          have h2 := hc.2
          cases this; omega
        · simp only [hlt, if_false, true_iff]
          exact ⟨(c.1, req), hmem, rfl, by simp only; omega⟩

/-- Whatever the configuration, a flat fee check either passes or refuses with the fee class
(it never panics). -/
theorem flatFee_refusal_is_fee (opts : List Coin) (fee : Option Coin) :
    validateFlatFee opts fee = .ok () ∨ validateFlatFee opts fee = .error .fee := by
  unfold validateFlatFee
  split
  · exact Or.inl rfl
  · split
    · exact Or.inr rfl
    · split
      · exact Or.inr rfl
      · split <;> simp

/-! ### Buyer settlement fee -/

/-- the ratio fee a coin covers, written with the spec's ceiling -/
def rcSpec (ratios : List Ratio) (price c : Coin) : Option Int :=
  match getFeeRatio ratios price.1 c.1 with
  | some r => if c.2 < ratioFeeSpec r price.2 then none else some (ratioFeeSpec r price.2)
  | none => none

theorem ratioCover_eq {ratios : List Ratio} {price : Coin} (hw : RatiosWf ratios)
    (hp : 0 ≤ price.2) (hfit : RatiosFit ratios price) (c : Coin) :
    ratioCover ratios price c = .ok (rcSpec ratios price c) := by
  unfold ratioCover rcSpec
  cases hg : getFeeRatio ratios price.1 c.1 with
  | none => rfl
  | some r =>
    obtain ⟨hmem, hpd, _⟩ := getFeeRatio_mem hg
    obtain ⟨hpa, hfa⟩ := hw.2 r hmem
    simp only [applyToLoosely_eq_spec hpd hp hpa hfa (hfit r hmem hpd)]
    split <;> rfl

theorem rcSpec_some_iff {ratios : List Ratio} {price : Coin} (hw : RatiosWf ratios) (c : Coin)
    (rf : Int) :
    rcSpec ratios price c = some rf ↔
      ∃ r ∈ ratios, RatioFor r price c ∧ rf = ratioFeeSpec r price.2 ∧ rf ≤ c.2 := by
  unfold rcSpec
  constructor
  · intro h
    cases hg : getFeeRatio ratios price.1 c.1 with
    | none => simp [hg] at h
    | some r =>
      obtain ⟨hmem, hpd, hfd⟩ := getFeeRatio_mem hg
      simp only [hg] at h
      split_ifs at h with hlt
      cases h
      exact ⟨r, hmem, ⟨hpd, hfd⟩, rfl, by omega⟩
  · rintro ⟨r, hmem, ⟨hpd, hfd⟩, rfl, hle⟩
    have := getFeeRatio_of_mem hw.1 hmem
    rw [hpd, hfd] at this
    simp only [this]
    split_ifs with hlt
    · omega
    · rfl

theorem flatCover_some_iff {flats : List Coin} (hn : (flats.map (·.1)).Nodup) (c : Coin) (f : Int) :
    flatCover flats c = some f ↔ (c.1, f) ∈ flats ∧ f ≤ c.2 := by
  unfold flatCover
  constructor
  · intro h
    cases hg : getFlatFee flats c.1 with
    | none => simp [hg] at h
    | some req =>
      simp only [hg] at h
      split_ifs at h with hlt
      cases h
      exact ⟨getFlatFee_mem hg, by omega⟩
  · rintro ⟨hmem, hle⟩
    rw [getFlatFee_of_mem hn hmem]
    simp only
    split_ifs with hlt
    · omega
    · rfl

theorem flatCover_isSome_iff {flats : List Coin} (hn : (flats.map (·.1)).Nodup) (c : Coin) :
    (flatCover flats c).isSome = true ↔ ∃ o ∈ flats, CoversOpt c o := by
  rw [Option.isSome_iff_exists]
  constructor
  · rintro ⟨f, hf⟩
    obtain ⟨hm, hle⟩ := (flatCover_some_iff hn c f).1 hf
    exact ⟨(c.1, f), hm, rfl, hle⟩
  · rintro ⟨o, ho, hd, hle⟩
    refine ⟨o.2, (flatCover_some_iff hn c o.2).2 ⟨?_, hle⟩⟩
    rw [← hd]; exact ho

theorem rcSpec_isSome_iff {ratios : List Ratio} {price : Coin} (hw : RatiosWf ratios) (c : Coin) :
    (rcSpec ratios price c).isSome = true ↔
      ∃ r ∈ ratios, RatioFor r price c ∧ ratioFeeSpec r price.2 ≤ c.2 := by
  rw [Option.isSome_iff_exists]
  constructor
  · rintro ⟨rf, h⟩
    obtain ⟨r, hm, hfor, rfl, hle⟩ := (rcSpec_some_iff hw c rf).1 h
    exact ⟨r, hm, hfor, hle⟩
  · rintro ⟨r, hm, hfor, hle⟩
    exact ⟨_, (rcSpec_some_iff hw c _).2 ⟨r, hm, hfor, rfl, hle⟩⟩

/-- positions ⇔ "one coin, summed" or "two positions" -/
theorem posCover_iff {flats : List Coin} {ratios : List Ratio} {price : Coin}
    (hw : BuyerWf flats ratios price) (fee : List Coin) :
    PosCover flats (rcSpec ratios price) fee ↔
      OneCoinCoversSum flats ratios price fee ∨ TwoPositionsCover flats ratios price fee := by
  have hn := hw.hflats.1
  constructor
  · rintro ⟨i, j, c, d, hi, hj, hf, hr, hs⟩
    by_cases hij : i = j
    · subst hij
      rw [hi] at hj; cases hj
      left
      obtain ⟨f, hf'⟩ := Option.isSome_iff_exists.1 hf
      obtain ⟨rf, hr'⟩ := Option.isSome_iff_exists.1 hr
      obtain ⟨hm, _⟩ := (flatCover_some_iff hn c f).1 hf'
      obtain ⟨r, hrm, hfor, rfl, _⟩ := (rcSpec_some_iff hw.hratios c rf).1 hr'
      exact ⟨c, List.mem_of_getElem? hi, (c.1, f), hm, r, hrm, rfl, hfor, hs rfl f _ hf' hr'⟩
    · right
      exact ⟨i, j, c, d, hij, hi, hj, (flatCover_isSome_iff hn c).1 hf,
        (rcSpec_isSome_iff hw.hratios d).1 hr⟩
  · rintro (⟨c, hc, o, ho, r, hr, hoc, hfor, hsum⟩ | ⟨i, j, c, d, hij, hi, hj, hf, hr⟩)
    · obtain ⟨i, hi⟩ := List.mem_iff_getElem?.1 hc
      obtain ⟨hpa, hfa⟩ := hw.hratios.2 r hr
      have hrf := ratioFeeSpec_nonneg hw.hprice hpa hfa
      have ho2 := hw.hflats.2 o ho
      have hfc : flatCover flats c = some o.2 :=
        (flatCover_some_iff hn c o.2).2 ⟨by rw [← hoc]; exact ho, by omega⟩
      have hrc : rcSpec ratios price c = some (ratioFeeSpec r price.2) :=
        (rcSpec_some_iff hw.hratios c _).2 ⟨r, hr, hfor, rfl, by omega⟩
      refine ⟨i, i, c, c, hi, hi, by simp [hfc], by simp [hrc], fun _ f' r' hf' hr' => ?_⟩
      rw [hfc] at hf'; rw [hrc] at hr'
      cases hf'; cases hr'; exact hsum
    · exact ⟨i, j, c, d, hi, hj, (flatCover_isSome_iff hn c).2 hf,
        (rcSpec_isSome_iff hw.hratios d).2 hr, fun h => absurd h hij⟩

/-- The search over fee coins, for every configuration and every list of fee coins (valid
`sdk.Coins` or not): it never panics, refuses only with the fee class, and accepts exactly
when the declarative condition holds. -/
theorem buyerFee_fold_iff_spec {flats : List Coin} {ratios : List Ratio} {price : Coin}
    (hw : BuyerWf flats ratios price) (fee : List Coin) :
    (validateBuyerSettlementFee flats ratios price fee = .ok () ∨
      validateBuyerSettlementFee flats ratios price fee = .error .fee) ∧
    (validateBuyerSettlementFee flats ratios price fee = .ok () ↔
      BuyerFeeOkAny flats ratios price fee) := by
  have hn := hw.hflats.1
  have hR : ∀ c ∈ fee, ratioCover ratios price c = .ok (rcSpec ratios price c) :=
    fun c _ => ratioCover_eq hw.hratios hw.hprice hw.hfit c
  unfold validateBuyerSettlementFee BuyerFeeOkAny
  by_cases hf : flats = [] <;> by_cases hr : ratios = []
  · subst hf; subst hr; simp [hasFlatFee, hasFeeRatio]
  · -- ratio only
    have hrr : hasFeeRatio ratios = true := (hasFeeRatio_eq _).2 hr
    subst hf
    obtain ⟨b, hb, hiff⟩ := buyerLoop_ratioOnly [] ratios price (rcSpec ratios price) fee hR false false
    simp only [hasFlatFee, List.isEmpty_nil, Bool.not_true, hrr, Bool.not_false, Bool.and_false,
      Bool.false_eq_true, if_false, hb]
    have hsp : SomeCoinCoversRatio ratios price fee ↔ ∃ c ∈ fee, (rcSpec ratios price c).isSome = true := by
      unfold SomeCoinCoversRatio
      constructor
      · rintro ⟨c, hc, h⟩; exact ⟨c, hc, (rcSpec_isSome_iff hw.hratios c).2 h⟩
      · rintro ⟨c, hc, h⟩; exact ⟨c, hc, (rcSpec_isSome_iff hw.hratios c).1 h⟩
    cases b with
    | true => simp [hr, hsp, ← hiff]
    | false =>
      have : ¬ ∃ c ∈ fee, (rcSpec ratios price c).isSome = true := fun h => by simpa using hiff.2 h
      simp [hr, hsp, this]
  · -- flat only
    have hff : hasFlatFee flats = true := (hasFlatFee_eq _).2 hf
    subst hr
    obtain ⟨b, hb, hiff⟩ := buyerLoop_flatOnly flats [] price fee false false
    simp only [hff, hasFeeRatio, List.isEmpty_nil, Bool.not_true, Bool.not_false, Bool.false_and,
      Bool.false_eq_true, if_false, hb]
    have hsp : SomeCoinCoversFlat flats fee ↔ ∃ c ∈ fee, (flatCover flats c).isSome = true := by
      unfold SomeCoinCoversFlat
      constructor
      · rintro ⟨c, hc, h⟩; exact ⟨c, hc, (flatCover_isSome_iff hn c).2 h⟩
      · rintro ⟨c, hc, h⟩; exact ⟨c, hc, (flatCover_isSome_iff hn c).1 h⟩
    cases b with
    | true => simp [hf, hsp, ← hiff]
    | false =>
      have : ¬ ∃ c ∈ fee, (flatCover flats c).isSome = true := fun h => by simpa using hiff.2 h
      simp [hf, hsp, this]
  · -- both
    have hff : hasFlatFee flats = true := (hasFlatFee_eq _).2 hf
    have hrr : hasFeeRatio ratios = true := (hasFeeRatio_eq _).2 hr
    have hS : ∀ c ∈ fee, ∀ f r, flatCover flats c = some f → rcSpec ratios price c = some r →
        fits256 (f + r) = true := by
      intro c _ f r hfc hrc
      obtain ⟨hm, _⟩ := (flatCover_some_iff hn c f).1 hfc
      obtain ⟨rr, hrm, hfor, rfl, _⟩ := (rcSpec_some_iff hw.hratios c r).1 hrc
      exact hw.hsums (c.1, f) hm rr hrm hfor.1
    obtain ⟨b, hb, hiff⟩ := buyerLoop_both flats ratios price (rcSpec ratios price) fee hR hS false false
    simp only [hff, hrr, Bool.not_true, Bool.and_self, Bool.false_eq_true, if_false, hb]
    simp only [Bool.false_eq_true, false_and, or_false] at hiff
    rw [posCover_iff hw] at hiff
    cases b with
    | true => simp [hf, hr, ← hiff]
    | false =>
      have : ¬ (OneCoinCoversSum flats ratios price fee ∨ TwoPositionsCover flats ratios price fee) :=
        fun h => by simpa using hiff.2 h
      simp [hf, hr, this]

/-- For a valid `sdk.Coins` fee (one coin per denom) "two positions" is "two denoms". -/
theorem twoPositions_iff_twoCoins (flats : List Coin) (ratios : List Ratio) (price : Coin)
    {fee : List Coin} (hfee : (fee.map (·.1)).Nodup) :
    TwoPositionsCover flats ratios price fee ↔ TwoCoinsCover flats ratios price fee := by
  constructor
  · rintro ⟨i, j, c, d, hij, hi, hj, hf, hr⟩
    refine ⟨c, List.mem_of_getElem? hi, d, List.mem_of_getElem? hj, ?_, hf, hr⟩
    intro hcd
    have hi' : (fee.map (·.1))[i]? = some c.1 := by simp [hi]
    have hj' : (fee.map (·.1))[j]? = some d.1 := by simp [hj]
    have hlt : i < (fee.map (·.1)).length := by
      rcases Nat.lt_or_ge i (fee.map (·.1)).length with h | h
      · exact h
      · rw [List.getElem?_eq_none h] at hi'; cases hi'
    exact hij ((List.getElem?_inj hlt hfee).1 (by rw [hi', hj', hcd]))
  · rintro ⟨c, hc, d, hd, hcd, hf, hr⟩
    obtain ⟨i, hi⟩ := List.mem_iff_getElem?.1 hc
    obtain ⟨j, hj⟩ := List.mem_iff_getElem?.1 hd
    refine ⟨i, j, c, d, ?_, hi, hj, hf, hr⟩
    rintro rfl
    rw [hi] at hj; cases hj; exact hcd rfl

/-- **Buyer settlement fee, both directions**, for every market configuration, price and
valid fee: accepted ⇔ a flat option is covered and a ratio option for the price denom is
covered, by two coins in different denoms or by one coin that covers the sum (with only one
kind of fee defined: that kind is covered; with none: always). -/
theorem buyerFee_accepts_iff_spec {flats : List Coin} {ratios : List Ratio} {price : Coin}
    (hw : BuyerWf flats ratios price) {fee : List Coin} (hfee : (fee.map (·.1)).Nodup) :
    validateBuyerSettlementFee flats ratios price fee = .ok () ↔
      BuyerFeeOk flats ratios price fee := by
  rw [(buyerFee_fold_iff_spec hw fee).2]
  unfold BuyerFeeOkAny BuyerFeeOk
  rw [twoPositions_iff_twoCoins flats ratios price hfee]

/-- The buyer fee check never panics inside the 256-bit guards and refuses only as "fee". -/
theorem buyerFee_no_panic {flats : List Coin} {ratios : List Ratio} {price : Coin}
    (hw : BuyerWf flats ratios price) (fee : List Coin) :
    validateBuyerSettlementFee flats ratios price fee = .ok () ∨
      validateBuyerSettlementFee flats ratios price fee = .error .fee :=
  (buyerFee_fold_iff_spec hw fee).1

/-- A panic of the buyer fee check can only come from outside the 256-bit guards. -/
theorem buyerFee_panic_only_outside_guards {flats : List Coin} {ratios : List Ratio} {price : Coin}
    (hf : FlatsWf flats) (hr : RatiosWf ratios) (hp : 0 ≤ price.2) {fee : List Coin}
    (h : validateBuyerSettlementFee flats ratios price fee = .error .overflow) :
    ¬ (RatiosFit ratios price ∧ SumsFit flats ratios price) := by
  rintro ⟨h1, h2⟩
  rcases buyerFee_no_panic ⟨hf, hr, hp, h1, h2⟩ fee with a | a <;> rw [a] at h <;> cases h

theorem buyerFeeOk_perm {flats flats' : List Coin} {ratios ratios' : List Ratio} {price : Coin}
    {fee fee' : List Coin} (hf : flats.Perm flats') (hr : ratios.Perm ratios') (hfee : fee.Perm fee') :
    BuyerFeeOk flats ratios price fee ↔ BuyerFeeOk flats' ratios' price fee' := by
  have e1 : flats = [] ↔ flats' = [] :=
    ⟨fun h => (h ▸ hf).symm.eq_nil, fun h => (h ▸ hf).eq_nil⟩
  have e2 : ratios = [] ↔ ratios' = [] :=
    ⟨fun h => (h ▸ hr).symm.eq_nil, fun h => (h ▸ hr).eq_nil⟩
  unfold BuyerFeeOk SomeCoinCoversFlat SomeCoinCoversRatio OneCoinCoversSum TwoCoinsCover
  simp only [ne_eq, e1, e2, hf.mem_iff, hr.mem_iff, hfee.mem_iff]

/-- **Order independence of the search**: permuting the fee coins, the flat options and the
ratios does not change the outcome. -/
theorem buyerFee_order_independent {flats flats' : List Coin} {ratios ratios' : List Ratio}
    {price : Coin} {fee fee' : List Coin}
    (hw : BuyerWf flats ratios price) (hfee : (fee.map (·.1)).Nodup)
    (hf : flats.Perm flats') (hr : ratios.Perm ratios') (hp : fee.Perm fee') :
    validateBuyerSettlementFee flats ratios price fee =
      validateBuyerSettlementFee flats' ratios' price fee' := by
  have hw' : BuyerWf flats' ratios' price := by
    refine ⟨⟨((hf.map _).nodup_iff).1 hw.hflats.1, fun o ho => hw.hflats.2 o (hf.mem_iff.2 ho)⟩,
      ⟨((hr.map _).nodup_iff).1 hw.hratios.1, fun r h => hw.hratios.2 r (hr.mem_iff.2 h)⟩,
      hw.hprice, fun r h => hw.hfit r (hr.mem_iff.2 h),
      fun o ho r h => hw.hsums o (hf.mem_iff.2 ho) r (hr.mem_iff.2 h)⟩
  have hfee' : (fee'.map (·.1)).Nodup := ((hp.map _).nodup_iff).1 hfee
  have h1 := buyerFee_accepts_iff_spec hw hfee
  have h2 := buyerFee_accepts_iff_spec hw' hfee'
  have h3 := buyerFeeOk_perm (price := price) hf hr hp
  rcases buyerFee_no_panic hw fee with a | a <;> rcases buyerFee_no_panic hw' fee' with b | b
  · rw [a, b]
  · exact absurd (h2.2 (h3.1 (h1.1 a))) (by rw [b]; simp)
  · exact absurd (h1.2 (h3.2 (h2.1 b))) (by rw [a]; simp)
  · rw [a, b]

/-! ### Ask price -/

theorem askFlat_cases {price : Coin} {flat : Option Coin} :
    (askCheckFlat price flat = true → flatOutOfPrice price flat = askFlatAmt flat) ∧
    (askCheckFlat price flat = false → flatOutOfPrice price flat = 0) := by
  unfold askCheckFlat askFlatAmt flatOutOfPrice
  cases flat with
  | none => simp
  | some f =>
    by_cases h0 : f.2 = 0 <;> by_cases hd : f.1 = price.1 <;> simp [h0, hd, eq_comm]
    · intro h; exact absurd h.symm hd

/-- **Ask price, both directions**: the price check passes exactly when the market has a
seller ratio for the price denom (or no seller ratios at all) and the price is more than the
flat fee taken out of it (same denom) plus the ratio fee; it never panics inside the 256-bit
guards and refuses only with the price class. -/
theorem askPrice_accepts_iff_spec {rs : List Ratio} {price : Coin} {flat : Option Coin}
    (hw : AskWf rs price flat) :
    (validateAskPrice rs price flat = .ok () ∨ validateAskPrice rs price flat = .error .price) ∧
    (validateAskPrice rs price flat = .ok () ↔ AskPriceOk rs price flat) := by
  obtain ⟨hrw, hp, hfl, hfit, hsum⟩ := hw
  obtain ⟨hc1, hc0⟩ := @askFlat_cases price flat
  unfold validateAskPrice getSellerSettlementRatio AskPriceOk
  cases hg : getFeeRatio rs price.1 price.1 with
  | none =>
    have hnone := (getFeeRatio_none_iff _ _ _).1 hg
    by_cases hrs : rs = []
    · subst hrs
      simp only [hasFeeRatio, List.isEmpty_nil, Bool.not_true, Bool.false_eq_true, if_false,
        List.not_mem_nil, false_imp_iff, implies_true, and_true, true_or, true_and,
        Bool.and_eq_true, decide_eq_true_eq]
      cases hcf : askCheckFlat price flat with
      | false =>
        rw [hc0 hcf]
        simp [hp]
      | true =>
        rw [hc1 hcf]
        by_cases hle : price.2 ≤ askFlatAmt flat
        · simp [hle]
        · simp [hle]; omega
    · have hrr : hasFeeRatio rs = true := (hasFeeRatio_eq _).2 hrs
      simp only [hrr, if_true, reduceCtorEq, or_true, false_iff, true_and, not_and]
      intro h
      rcases h with h | ⟨r, hr, h1, h2⟩
      · exact absurd h hrs
      · exact absurd ⟨h1, h2⟩ (hnone r hr)
  | some r =>
    obtain ⟨hmem, hpd, hfd⟩ := getFeeRatio_mem hg
    obtain ⟨hpa, hfa⟩ := hrw.2 r hmem
    have hrf := ratioFeeSpec_nonneg (Int.le_of_lt hp) hpa hfa
    have huniq : ∀ r' ∈ rs, r'.pd = price.1 → r'.fd = price.1 → r' = r := by
      intro r' hr' h1 h2
      have := getFeeRatio_of_mem hrw.1 hr'
      rw [h1, h2, hg] at this
      exact (Option.some.inj this).symm
    have hfirst : rs = [] ∨ ∃ r ∈ rs, r.pd = price.1 ∧ r.fd = price.1 := Or.inr ⟨r, hmem, hpd, hfd⟩
    have hthird : ∀ {F : Int}, (∀ r' ∈ rs, r'.pd = price.1 → r'.fd = price.1 →
        F + ratioFeeSpec r' price.2 < price.2) ↔ F + ratioFeeSpec r price.2 < price.2 := by
      intro F
      constructor
      · intro h; exact h r hmem hpd hfd
      · intro h r' hr' h1 h2; rw [huniq r' hr' h1 h2]; exact h
    simp only [applyToLoosely_eq_spec hpd (Int.le_of_lt hp) hpa hfa (hfit r hmem hpd), hfirst,
      true_and, hthird]
    cases hcf : askCheckFlat price flat with
    | false =>
      rw [hc0 hcf]
      simp only [Bool.not_false, if_true]
      by_cases hle : price.2 ≤ ratioFeeSpec r price.2
      · simp [hle]
      · simp [hle]; omega
    | true =>
      have hF := hc1 hcf
      have hfits := hsum r hmem hpd hfd
      rw [hF] at hfits ⊢
      simp only [Bool.not_true, Bool.false_eq_true, if_false, add256, hfits, if_true]
      by_cases hle : price.2 ≤ askFlatAmt flat + ratioFeeSpec r price.2
      · simp [hle]
      · simp [hle]; omega

/-- **An ask is refused exactly when its price cannot cover the seller fees taken out of
it**: with a seller ratio `r` for the price denom, refusal ⇔ price ≤ flat (same denom) +
⌈price·fee/ratioPrice⌉. -/
theorem askPrice_refused_iff_cannot_cover {rs : List Ratio} {price : Coin} {flat : Option Coin}
    (hw : AskWf rs price flat) {r : Ratio} (hr : r ∈ rs) (hpd : r.pd = price.1) (hfd : r.fd = price.1) :
    validateAskPrice rs price flat = .error .price ↔
      price.2 ≤ flatOutOfPrice price flat + ratioFeeSpec r price.2 := by
  obtain ⟨hor, hiff⟩ := askPrice_accepts_iff_spec hw
  obtain ⟨hpa, hfa⟩ := hw.hratios.2 r hr
  have hrf := ratioFeeSpec_nonneg (Int.le_of_lt hw.hprice) hpa hfa
  have huniq : ∀ r' ∈ rs, r'.pd = price.1 → r'.fd = price.1 → r' = r := by
    intro r' hr' h1 h2
    have a := getFeeRatio_of_mem hw.hratios.1 hr'
    have b := getFeeRatio_of_mem hw.hratios.1 hr
    rw [h1, h2] at a; rw [hpd, hfd] at b
    rw [a] at b; exact Option.some.inj b
  constructor
  · intro herr
    by_contra hlt
    have hok : AskPriceOk rs price flat := by
      refine ⟨Or.inr ⟨r, hr, hpd, hfd⟩, by omega, ?_⟩
      intro r' hr' h1 h2; rw [huniq r' hr' h1 h2]; omega
    rw [hiff.2 hok] at herr; cases herr
  · intro hle
    rcases hor with hok | herr
    · have := (hiff.1 hok).2.2 r hr hpd hfd
      omega
    · exact herr

/-- Without any seller ratio only the flat fee in the price denom matters. -/
theorem askPrice_refused_iff_cannot_cover_flat {price : Coin} {flat : Option Coin}
    (hp : 0 < price.2) (hfl : ∀ f, flat = some f → 0 ≤ f.2) :
    validateAskPrice [] price flat = .error .price ↔ price.2 ≤ flatOutOfPrice price flat := by
  have hw : AskWf [] price flat :=
    ⟨⟨by simp, by simp⟩, hp, hfl, by simp [RatiosFit], by simp [AskSumFits]⟩
  obtain ⟨hor, hiff⟩ := askPrice_accepts_iff_spec hw
  constructor
  · intro herr
    by_contra hlt
    have hok : AskPriceOk [] price flat := ⟨Or.inl rfl, by omega, by simp⟩
    rw [hiff.2 hok] at herr; cases herr
  · intro hle
    rcases hor with hok | herr
    · have := (hiff.1 hok).2.1; omega
    · exact herr

/-- Outside the guards: when the applicable seller ratio fee itself needs more than 256 bits the
price check rejects the ask as an ordinary error (since the repair of `applyLooselyTo`; before it
the check panicked as soon as the product `price·fee` needed more than 256 bits). -/
theorem askPrice_rejects_when_fee_unrepresentable {rs : List Ratio} {price : Coin} {flat : Option Coin}
    (hrw : RatiosWf rs) (hp : 0 ≤ price.2) {r : Ratio} (hr : r ∈ rs) (hpd : r.pd = price.1)
    (hfd : r.fd = price.1) (hbig : fits256 (ceilDiv (price.2 * r.fa) r.pa) = false) :
    validateAskPrice rs price flat = .error .price := by
  unfold validateAskPrice getSellerSettlementRatio
  have := getFeeRatio_of_mem hrw.1 hr
  rw [hpd, hfd] at this
  obtain ⟨e, he⟩ := (C19.applyLoosely_fails_iff hp (hrw.2 r hr).2 (hrw.2 r hr).1).mpr hbig
  have h0 : r.pa ≠ 0 := by have := (hrw.2 r hr).1; omega
  have hne : Fees.applyLooselyTo price.2 r.pa r.fa = .error .invalid := by
    rw [he, C19.applyLoosely_error_invalid h0 he]
  simp only [this, applyToLoosely, hpd, ne_eq, not_true_eq_false, if_false, hne]

/-! ### Required attributes -/

/-- Without a leading `*.` a required attribute is matched by itself only. -/
theorem reqAttr_exact {req acc : List Char} (hnw : ['*', '.'].isPrefixOf req = false) :
    isReqAttrMatchL req acc = true ↔ req ≠ [] ∧ req = acc := by
  unfold isReqAttrMatchL
  by_cases hr : req = []
  · simp [hr]
  · by_cases ha : acc = []
    · subst ha; simp [hr]
    · simp [hr, ha, hnw]

/-- **Wildcard rule**: for well-formed names, `*.x` is matched by exactly the names
`y₁.….yₖ.x` with one or more extra leading levels (whole segments — `*.b.a` is matched by
`c.b.a` and `d.c.b.a`, not by `b.a`, not by `c.evilb.a`). -/
theorem reqAttr_wildcard_spec {base acc : List (List Char)} (hb : SegsOk base) (ha : SegsOk acc) :
    isReqAttrMatchL ('*' :: '.' :: joinDots base) (joinDots acc) = true ↔ WildcardMatch base acc := by
  have hacc : joinDots acc ≠ [] := joinDots_ne_nil ha.1 (fun s hs => (ha.2 s hs).1)
  have hsa := splitDots_joinDots ha.1 (fun s hs => (ha.2 s hs).2)
  have hsb := splitDots_joinDots hb.1 (fun s hs => (hb.2 s hs).2)
  unfold isReqAttrMatchL WildcardMatch
  simp only [List.isEmpty_cons, Bool.false_or, List.isEmpty_iff, hacc, decide_false,
    Bool.false_eq_true, if_false, List.isPrefixOf, beq_self_eq_true, Bool.and_self, if_true,
    List.drop_succ_cons, List.drop_zero, List.isSuffixOf_iff_suffix]
  constructor
  · rintro ⟨t, ht⟩
    refine ⟨splitDots t, splitDots_ne_nil t, ?_⟩
    rw [← ht, splitDots_append_dot, hsb] at hsa
    exact hsa.symm
  · rintro ⟨extra, hne, rfl⟩
    exact ⟨joinDots extra, (joinDots_append hne hb.1).symm⟩

/-- A wildcard never matches the name it ends with (zero extra levels). -/
theorem reqAttr_wildcard_needs_extra_level {base : List (List Char)} (hb : SegsOk base) :
    isReqAttrMatchL ('*' :: '.' :: joinDots base) (joinDots base) = false := by
  cases h : isReqAttrMatchL ('*' :: '.' :: joinDots base) (joinDots base) with
  | false => rfl
  | true =>
    obtain ⟨extra, hne, he⟩ := (reqAttr_wildcard_spec hb hb).1 h
    have := congrArg List.length he
    simp only [List.length_append] at this
    cases extra with
    | nil => exact absurd rfl hne
    | cons x xs => simp at this

/-- `FindUnmatchedReqAttrs` returns exactly the required attributes without a match. -/
theorem findUnmatched_spec (reqs accs : List String) (r : String) :
    r ∈ findUnmatchedReqAttrs reqs accs ↔ r ∈ reqs ∧ ¬ ∃ a ∈ accs, isReqAttrMatch r a = true := by
  simp [findUnmatchedReqAttrs, hasReqAttrMatch]

/-- The account may act ⇔ every required attribute has a match by the code's matcher (any
strings, valid names or not). -/
theorem acctHasReqAttrs_iff_matched (reqs accs : List String) :
    acctHasReqAttrs reqs accs = true ↔ AttrsMatched reqs accs := by
  unfold acctHasReqAttrs AttrsMatched
  by_cases h : reqs = []
  · subst h; simp
  · have : reqs.isEmpty = false := by cases reqs <;> simp_all
    simp only [this, Bool.false_eq_true, if_false, List.isEmpty_iff, findUnmatchedReqAttrs,
      hasReqAttrMatch, List.filter_eq_nil_iff, Bool.not_eq_true', Bool.not_eq_false,
      List.any_eq_true]

/-- `IsReqAttrMatch` on character lists is the documented rule on segments: for a valid
required attribute and a valid name, `*.b` matches exactly the names with one or more extra
leading levels before the segments of `b`; anything else matches only itself. -/
theorem isReqAttrMatchL_iff_doc {rl al : List Char}
    (hr : if ['*', '.'].isPrefixOf rl = true then SegsOk (splitDots (rl.drop 2)) else SegsOk (splitDots rl))
    (ha : SegsOk (splitDots al)) :
    isReqAttrMatchL rl al = true ↔
      if ['*', '.'].isPrefixOf rl = true then WildcardMatch (splitDots (rl.drop 2)) (splitDots al)
      else rl = al := by
  by_cases hw : ['*', '.'].isPrefixOf rl = true
  · simp only [hw, if_true] at hr ⊢
    obtain ⟨t, rfl⟩ := List.isPrefixOf_iff_prefix.1 hw
    simp only [List.cons_append, List.nil_append, List.drop_succ_cons, List.drop_zero] at hr ⊢
    have h := reqAttr_wildcard_spec hr ha
    rw [joinDots_splitDots, joinDots_splitDots] at h
    exact h
  · have hw' : ['*', '.'].isPrefixOf rl = false := Bool.eq_false_iff.2 hw
    simp only [hw', Bool.false_eq_true, if_false] at hr ⊢
    rw [reqAttr_exact hw']
    constructor
    · exact fun h => h.2
    · intro h
      refine ⟨?_, h⟩
      rintro rfl
      exact (hr.2 [] (by simp [splitDots])).1 rfl

/-- **The code's matcher is the documented match** (`DocMatch`, stated on segments without
reference to `IsReqAttrMatch`): for every exact required attribute and every string, and for
every valid wildcard attribute and valid name. -/
theorem isReqAttrMatch_iff_doc {r a : String} (hg : MatchGuard r a) :
    isReqAttrMatch r a = true ↔ DocMatch r a := by
  unfold isReqAttrMatch DocMatch
  by_cases hw : isWild r = true
  · obtain ⟨hr, ha⟩ := hg hw
    unfold ReqOk at hr
    simp only [hw, if_true] at hr ⊢
    unfold isWild at hw
    have := isReqAttrMatchL_iff_doc (rl := r.toList) (al := a.toList) (by simp only [hw, if_true]; exact hr) ha
    simpa only [hw, if_true] using this
  · have hw' : isWild r = false := Bool.eq_false_iff.2 hw
    simp only [hw', Bool.false_eq_true, if_false]
    unfold isWild at hw'
    rw [reqAttr_exact hw', String.toList_inj]
    constructor
    · rintro ⟨h1, h2⟩
      exact ⟨fun e => h1 (by rw [e]; rfl), h2⟩
    · rintro ⟨h1, h2⟩
      exact ⟨fun e => h1 (String.toList_inj.1 (by rw [e]; rfl)), h2⟩

theorem attrsMatched_iff_doc {reqs accs : List String} (hn : PairsOk reqs accs) :
    AttrsMatched reqs accs ↔ AttrsOk reqs accs := by
  unfold AttrsMatched AttrsOk
  constructor
  · intro h r hr
    obtain ⟨a, ha, hm⟩ := h r hr
    exact ⟨a, ha, (isReqAttrMatch_iff_doc (hn r hr a ha)).1 hm⟩
  · intro h r hr
    obtain ⟨a, ha, hm⟩ := h r hr
    exact ⟨a, ha, (isReqAttrMatch_iff_doc (hn r hr a ha)).2 hm⟩

/-- **`FindUnmatchedReqAttrs` returns exactly the list of required attributes without a
documented match — same order, same multiplicities** (`docUnmatched` is what the checker
compares the implementation's list with). -/
theorem findUnmatched_eq_doc {reqs accs : List String} (hn : PairsOk reqs accs) :
    findUnmatchedReqAttrs reqs accs = docUnmatched reqs accs := by
  unfold findUnmatchedReqAttrs docUnmatched
  apply List.filter_congr
  intro r hr
  have : hasReqAttrMatch r accs = true ↔ ∃ a ∈ accs, DocMatch r a := by
    unfold hasReqAttrMatch
    rw [List.any_eq_true]
    constructor
    · rintro ⟨a, ha, hm⟩; exact ⟨a, ha, (isReqAttrMatch_iff_doc (hn r hr a ha)).1 hm⟩
    · rintro ⟨a, ha, hm⟩; exact ⟨a, ha, (isReqAttrMatch_iff_doc (hn r hr a ha)).2 hm⟩
  by_cases h : hasReqAttrMatch r accs = true
  · simp [h, this.1 h]
  · have h' : hasReqAttrMatch r accs = false := Bool.eq_false_iff.2 h
    simp only [h', Bool.not_false, true_eq_decide_iff]
    exact fun x => h (this.2 x)

/-- **The account may act ⇔ every required attribute has a documented match** among the
account's attributes (`AttrsOk` is stated with `DocMatch`, not with the code's matcher). -/
theorem acctHasReqAttrs_iff {reqs accs : List String} (hn : PairsOk reqs accs) :
    acctHasReqAttrs reqs accs = true ↔ AttrsOk reqs accs :=
  (acctHasReqAttrs_iff_matched reqs accs).trans (attrsMatched_iff_doc hn)

/-! ### `NormalizeName` -/

/-- The segments of a normalised name are the segments of the name, each trimmed and
lower-cased (no segment is created, merged or lost). -/
theorem normalizeName_segments (s : String) :
    splitDots (normalizeName s).toList =
      (splitDots s.toList).map fun seg => (trimSpaces seg).map Char.toLower := by
  unfold normalizeName
  rw [String.toList_ofList]
  exact splitDots_normalizeNameL s.toList

/-- **`NormalizeName` is idempotent**: a stored (normalised) name is a fixed point. -/
theorem normalizeName_idempotent (s : String) : normalizeName (normalizeName s) = normalizeName s := by
  unfold normalizeName
  rw [String.toList_ofList, normalizeNameL_idem]

/-- **`SegsOk`-closure**: the normalised name is a valid name exactly when no segment of the
given name is blank; in particular a valid name with no blank segment stays valid. -/
theorem normalizeName_nameOk_iff (s : String) :
    NameOk (normalizeName s) ↔ ∀ seg ∈ splitDots s.toList, trimSpaces seg ≠ [] := by
  unfold NameOk SegsOk
  rw [normalizeName_segments]
  constructor
  · rintro ⟨_, h⟩ seg hseg he
    have := (h _ (List.mem_map.2 ⟨seg, hseg, rfl⟩)).1
    simp only [he, List.map_nil, ne_eq, not_true_eq_false] at this
  · intro h
    refine ⟨by simpa using splitDots_ne_nil s.toList, ?_⟩
    intro seg hseg
    obtain ⟨t, ht, rfl⟩ := List.mem_map.1 hseg
    refine ⟨by simpa using h t ht, ?_⟩
    exact normSeg_dotfree (splitDots_dotfree_segs s.toList t ht)

/-- **Required attributes as requested**: for the list a market asked for, stored normalised,
the account may act ⇔ every requested attribute, normalised, has a documented match. -/
theorem acctHasReqAttrs_normalised_iff {reqs accs : List String}
    (hr : ∀ r ∈ reqs, ReqOk (normalizeName r)) (ha : ∀ a ∈ accs, NameOk a) :
    acctHasReqAttrs (reqs.map normalizeName) accs = true ↔
      ∀ r ∈ reqs, ∃ a ∈ accs, DocMatch (normalizeName r) a := by
  rw [acctHasReqAttrs_iff (NamesOk.pairsOk ⟨by simpa using hr, ha⟩)]
  unfold AttrsOk
  simp

/-! ### Funds -/

theorem collectThenHold_iff (bal : Coins) (fee : Option Coin) (hold : Coins) :
    collectThenHold bal fee hold = .ok () ↔ FundsOk bal fee hold := by
  unfold collectThenHold FundsOk covers
  cases fee with
  | none =>
    simp only
    cases h1 : Coins.covers bal [] <;> cases h2 : Coins.covers (Coins.sub bal []) hold <;> simp
  | some c =>
    simp only
    cases h1 : Coins.covers bal [c] <;> cases h2 : Coins.covers (Coins.sub bal [c]) hold <;> simp

/-! ### Admission: an item is accepted ⇔ it is valid, admissible and funded -/

theorem acceptingOrders_ok_iff (mk : Option Market) (mkt : Market) :
    validateMarketIsAcceptingOrders mk = .ok mkt ↔ mk = some mkt ∧ mkt.acceptingOrders = true := by
  unfold validateMarketIsAcceptingOrders
  cases mk with
  | none => simp
  | some m =>
    by_cases h : m.acceptingOrders = true
    · simp only [h, if_true, Except.ok.injEq, Option.some.injEq]
      constructor
      · rintro rfl; exact ⟨rfl, h⟩
      · rintro ⟨rfl, _⟩; rfl
    · simp only [h, if_false, reduceCtorEq, Option.some.injEq, false_iff, not_and]
      rintro rfl; exact h

theorem askMsg_valid_facts {m : AskMsg} (hv : m.valid = true) :
    0 < m.price.2 ∧ ∀ f, m.sflat = some f → 0 ≤ f.2 := by
  unfold AskMsg.valid at hv
  simp only [Bool.and_eq_true, decide_eq_true_eq] at hv
  refine ⟨hv.1.1.1.2, ?_⟩
  intro f hf
  have := hv.2
  rw [hf] at this
  simp only [decide_eq_true_eq] at this
  omega

/-- **Create ask**: accepted ⇔ the message is valid, the market exists and accepts orders, the
seller carries every required attribute, the creation fee and the seller settlement flat fee
each cover an option (or none is defined), the price covers the fees taken out of it, and
the seller has the funds. -/
theorem createAsk_admits_iff {mk : Option Market} {attrs : List String} {bal : Coins} {m : AskMsg}
    (hw : ∀ mkt, mk = some mkt → MarketAskWf mkt m)
    (hn : ∀ mkt, mk = some mkt → PairsOk mkt.reqAsk attrs) :
    createAsk mk attrs bal m = .ok () ↔
      m.valid = true ∧ AskAdmissible mk attrs m ∧ FundsOk bal m.cfee m.holdAmount := by
  unfold createAsk AskAdmissible
  by_cases hv : m.valid = true
  swap
  · simp [hv]
  simp only [hv, Bool.not_true, Bool.false_eq_true, if_false, true_and]
  cases mk with
  | none => simp [validateMarketIsAcceptingOrders]
  | some mkt =>
    have hmw := hw mkt rfl
    simp only [validateMarketIsAcceptingOrders, Option.some.injEq, exists_eq_left']
    by_cases hacc : mkt.acceptingOrders = true
    swap
    · simp [hacc]
    simp only [hacc, if_true, true_and]
    by_cases hat : acctHasReqAttrs mkt.reqAsk attrs = true
    swap
    · have := (acctHasReqAttrs_iff (hn mkt rfl)).not.1 hat
      simp [hat, this]
    have hat' := (acctHasReqAttrs_iff (hn mkt rfl)).1 hat
    simp only [hat, Bool.not_true, Bool.false_eq_true, if_false, hat', true_and]
    have h1 := flatFee_accepts_iff_spec hmw.hcflat m.cfee
    have h2 := flatFee_accepts_iff_spec hmw.hsflat m.sflat
    obtain ⟨hprice, hflat⟩ := askMsg_valid_facts hv
    have haw : AskWf mkt.sellerRatios m.price m.sflat :=
      ⟨hmw.hratios, hprice, hflat, hmw.hfit, hmw.hsums⟩
    obtain ⟨h3or, h3⟩ := askPrice_accepts_iff_spec haw
    have h4 := collectThenHold_iff bal m.cfee m.holdAmount
    rw [← h1, ← h2, ← h3, ← h4]
    unfold validateCreateAskFees
    rcases flatFee_refusal_is_fee mkt.createAskFlat m.cfee with a | a <;>
    rcases flatFee_refusal_is_fee mkt.sellerFlat m.sflat with b | b <;>
    rcases h3or with c | c <;> simp [a, b, c]

theorem coinsValid_head_lt : ∀ {c : Coin} {rest : List Coin}, coinsValid (c :: rest) = true →
    ∀ x ∈ rest, c.1 < x.1
  | _, [], _, x, hx => by simp at hx
  | c, d :: rest, h, x, hx => by
    simp only [coinsValid, Bool.and_eq_true, decide_eq_true_eq] at h
    rcases List.mem_cons.1 hx with rfl | hx'
    · exact h.1.2
    · exact String.lt_trans h.1.2 (coinsValid_head_lt h.2 x hx')

/-- Valid `sdk.Coins` have one coin per denom. -/
theorem coinsValid_nodup : ∀ {cs : List Coin}, coinsValid cs = true → (cs.map (·.1)).Nodup
  | [], _ => by simp
  | [c], _ => by simp
  | c :: d :: rest, h => by
    have hlt := coinsValid_head_lt h
    simp only [coinsValid, Bool.and_eq_true, decide_eq_true_eq] at h
    have ih := coinsValid_nodup h.2
    rw [List.map_cons, List.nodup_cons]
    refine ⟨?_, ih⟩
    intro hmem
    obtain ⟨x, hx, hxe⟩ := List.mem_map.1 hmem
    have := hlt x hx
    rw [hxe] at this
    exact String.lt_irrefl _ this

/-- **Create bid**: accepted ⇔ valid, market exists and accepts orders, the buyer carries every
required attribute, the creation fee covers an option, the buyer settlement fees cover a flat
option plus a ratio option (different denoms or summed in one), and the buyer has the funds. -/
theorem createBid_admits_iff {mk : Option Market} {attrs : List String} {bal : Coins} {m : BidMsg}
    (hw : ∀ mkt, mk = some mkt → MarketBidWf mkt m.price)
    (hn : ∀ mkt, mk = some mkt → PairsOk mkt.reqBid attrs) :
    createBid mk attrs bal m = .ok () ↔
      m.valid = true ∧ BidAdmissible mk attrs m ∧ FundsOk bal m.cfee m.holdAmount := by
  unfold createBid BidAdmissible
  by_cases hv : m.valid = true
  swap
  · simp [hv]
  simp only [hv, Bool.not_true, Bool.false_eq_true, if_false, true_and]
  cases mk with
  | none => simp [validateMarketIsAcceptingOrders]
  | some mkt =>
    have hmw := hw mkt rfl
    simp only [validateMarketIsAcceptingOrders, Option.some.injEq, exists_eq_left']
    by_cases hacc : mkt.acceptingOrders = true
    swap
    · simp [hacc]
    simp only [hacc, if_true, true_and]
    by_cases hat : acctHasReqAttrs mkt.reqBid attrs = true
    swap
    · have := (acctHasReqAttrs_iff (hn mkt rfl)).not.1 hat
      simp [hat, this]
    have hat' := (acctHasReqAttrs_iff (hn mkt rfl)).1 hat
    simp only [hat, Bool.not_true, Bool.false_eq_true, if_false, hat', true_and]
    have hfees : (m.fees.map (·.1)).Nodup := by
      unfold BidMsg.valid at hv
      simp only [Bool.and_eq_true] at hv
      exact coinsValid_nodup hv.2
    have h1 := flatFee_accepts_iff_spec hmw.hcflat m.cfee
    have h2 := buyerFee_accepts_iff_spec hmw.hbuyer hfees
    have h2or := buyerFee_no_panic hmw.hbuyer m.fees
    have h4 := collectThenHold_iff bal m.cfee m.holdAmount
    rw [← h1, ← h2, ← h4]
    unfold validateCreateBidFees
    rcases flatFee_refusal_is_fee mkt.createBidFlat m.cfee with a | a <;>
    rcases h2or with b | b <;> simp [a, b]

/-- **Commit funds**: accepted ⇔ valid, market exists and accepts commitments, the account
carries every attribute the stored create-commitment list names, the creation fee covers an
option, and the account has the fee and the amount.  `s` is whatever is stored under the
market id — the statement holds for ids that are not markets too (then nothing is accepted,
whatever flags, fee options or attribute lists were written under the id). -/
theorem commitFunds_admits_iff {s : MStore} {attrs : List String} {bal : Coins} {m : CommitMsg}
    (hw : s.known = true → (s.m.createCommitFlat.map (·.1)).Nodup)
    (hn : s.known = true → PairsOk s.m.reqCommit attrs) :
    commitFunds s attrs bal m = .ok () ↔
      m.valid = true ∧ CommitAdmissible s.view attrs m ∧ FundsOk bal m.cfee m.amount := by
  unfold commitFunds CommitAdmissible FundsOk covers MStore.view
  by_cases hv : m.valid = true
  swap
  · simp [hv]
  simp only [hv, Bool.not_true, Bool.false_eq_true, if_false, true_and]
  cases hk : s.known with
  | false =>
    simp only [Bool.false_eq_true, if_false, validateMarketIsAcceptingCommitments, reduceCtorEq,
      false_and, exists_false, iff_false]
    rcases flatFee_refusal_is_fee s.m.createCommitFlat m.cfee with a | a <;> simp only [a] <;>
      (try split_ifs) <;> simp
  | true =>
    have h1 := flatFee_accepts_iff_spec (hw hk) m.cfee
    simp only [if_true, validateMarketIsAcceptingCommitments, Option.some.injEq, exists_eq_left']
    rw [← h1, ← acctHasReqAttrs_iff (hn hk)]
    rcases flatFee_refusal_is_fee s.m.createCommitFlat m.cfee with a | a
    swap
    · simp [a]
    simp only [a, true_and]
    cases m.cfee with
    | none =>
      simp only
      cases hc1 : Coins.covers bal [] <;> cases hacc : s.m.acceptingCommitments <;>
        cases hat : acctHasReqAttrs s.m.reqCommit attrs <;>
        cases hc2 : Coins.covers (Coins.sub bal []) m.amount <;> simp [hc1, hacc, hat, hc2]
    | some c =>
      simp only
      cases hc1 : Coins.covers bal [c] <;> cases hacc : s.m.acceptingCommitments <;>
        cases hat : acctHasReqAttrs s.m.reqCommit attrs <;>
        cases hc2 : Coins.covers (Coins.sub bal [c]) m.amount <;> simp [hc1, hacc, hat, hc2]

/-- **User fill of bids** passes the market's gate ⇔ the market exists, accepts orders, allows
user settlement, the filler carries the create-ask attributes, and the ask creation fee and
seller settlement flat fee each cover an option. -/
theorem fillBidsGate_iff {mk : Option Market} {attrs : List String} {cfee sflat : Option Coin}
    (hw : ∀ mkt, mk = some mkt → (mkt.createAskFlat.map (·.1)).Nodup ∧ (mkt.sellerFlat.map (·.1)).Nodup)
    (hn : ∀ mkt, mk = some mkt → PairsOk mkt.reqAsk attrs) :
    fillBidsGate mk attrs cfee sflat = .ok () ↔
      fillBidsValid cfee sflat = true ∧ FillBidsAdmissible mk attrs cfee sflat := by
  unfold fillBidsGate FillBidsAdmissible validateAcceptingOrdersAndCanUserSettle
    validateMarketIsAcceptingOrders
  by_cases hv : fillBidsValid cfee sflat = true
  swap
  · simp [hv]
  simp only [hv, Bool.not_true, Bool.false_eq_true, if_false, true_and]
  cases mk with
  | none => simp
  | some mkt =>
    obtain ⟨hn1, hn2⟩ := hw mkt rfl
    simp only [Option.some.injEq, exists_eq_left']
    rw [← flatFee_accepts_iff_spec hn1 cfee, ← flatFee_accepts_iff_spec hn2 sflat,
      ← acctHasReqAttrs_iff (hn mkt rfl)]
    unfold validateCreateAskFees
    rcases flatFee_refusal_is_fee mkt.createAskFlat cfee with a | a <;>
    rcases flatFee_refusal_is_fee mkt.sellerFlat sflat with b | b <;>
    cases hacc : mkt.acceptingOrders <;> cases hus : mkt.userSettle <;>
    cases hat : acctHasReqAttrs mkt.reqAsk attrs <;> simp [a, b, hacc, hus, hat]

/-- **User fill of asks** passes the market's gate ⇔ exists, accepting, user settlement allowed,
create-bid attributes, bid creation fee, and buyer settlement fees for the total price. -/
theorem fillAsksGate_iff {mk : Option Market} {attrs : List String} {cfee : Option Coin}
    {tp : Coin} {fees : List Coin}
    (hw : ∀ mkt, mk = some mkt → MarketBidWf mkt tp)
    (hn : ∀ mkt, mk = some mkt → PairsOk mkt.reqBid attrs) :
    fillAsksGate mk attrs cfee tp fees = .ok () ↔
      fillAsksValid cfee tp fees = true ∧ FillAsksAdmissible mk attrs cfee tp fees := by
  unfold fillAsksGate FillAsksAdmissible validateAcceptingOrdersAndCanUserSettle
    validateMarketIsAcceptingOrders
  by_cases hv : fillAsksValid cfee tp fees = true
  swap
  · simp [hv]
  simp only [hv, Bool.not_true, Bool.false_eq_true, if_false, true_and]
  have hfees : (fees.map (·.1)).Nodup := by
    unfold fillAsksValid at hv
    simp only [Bool.and_eq_true] at hv
    exact coinsValid_nodup hv.2
  cases mk with
  | none => simp
  | some mkt =>
    have hmw := hw mkt rfl
    simp only [Option.some.injEq, exists_eq_left']
    rw [← flatFee_accepts_iff_spec hmw.hcflat cfee, ← buyerFee_accepts_iff_spec hmw.hbuyer hfees,
      ← acctHasReqAttrs_iff (hn mkt rfl)]
    unfold validateCreateBidFees
    rcases flatFee_refusal_is_fee mkt.createBidFlat cfee with a | a <;>
    rcases buyerFee_no_panic hmw.hbuyer fees with b | b <;>
    cases hacc : mkt.acceptingOrders <;> cases hus : mkt.userSettle <;>
    cases hat : acctHasReqAttrs mkt.reqBid attrs <;> simp [a, b, hacc, hus, hat]

theorem collectThenHold_error {bal : Coins} {fee : Option Coin} {hold : Coins} {e : Rej}
    (h : collectThenHold bal fee hold = .error e) : e = .funds := by
  unfold collectThenHold at h
  simp only at h
  split_ifs at h <;> cases h <;> rfl

/-- what a refusal class says about an ask -/
def AskRefusalReason (mk : Option Market) (attrs : List String) (bal : Coins) (m : AskMsg) : Rej → Prop
  | .invalid => m.valid = false
  | .market => mk = none
  | .closed => ∃ mkt, mk = some mkt ∧ mkt.acceptingOrders = false
  | .attr => ∃ mkt, mk = some mkt ∧ ¬ AttrsOk mkt.reqAsk attrs
  | .fee => ∃ mkt, mk = some mkt ∧
      ¬ (FlatFeeOk mkt.createAskFlat m.cfee ∧ FlatFeeOk mkt.sellerFlat m.sflat)
  | .price => ∃ mkt, mk = some mkt ∧ ¬ AskPriceOk mkt.sellerRatios m.price m.sflat
  | .funds => ¬ FundsOk bal m.cfee m.holdAmount
  | .usersettle => False
  | .overflow => False

/-- **Every refusal of an ask names a condition that fails** (and inside the guards an ask is
never refused by a panic or for a reason that does not apply to asks). -/
theorem createAsk_refusal_reason {mk : Option Market} {attrs : List String} {bal : Coins} {m : AskMsg}
    (hw : ∀ mkt, mk = some mkt → MarketAskWf mkt m)
    (hn : ∀ mkt, mk = some mkt → PairsOk mkt.reqAsk attrs) {e : Rej}
    (h : createAsk mk attrs bal m = .error e) : AskRefusalReason mk attrs bal m e := by
  unfold createAsk at h
  by_cases hv : m.valid = true
  swap
  · have hv' : m.valid = false := by simpa using hv
    simp only [hv', Bool.not_false, if_true, Except.error.injEq] at h
    subst h; exact hv'
  simp only [hv, Bool.not_true, Bool.false_eq_true, if_false] at h
  cases mk with
  | none =>
    simp only [validateMarketIsAcceptingOrders, Except.error.injEq] at h
    subst h; rfl
  | some mkt =>
    have hmw := hw mkt rfl
    simp only [validateMarketIsAcceptingOrders] at h
    by_cases hacc : mkt.acceptingOrders = true
    swap
    · have hacc' : mkt.acceptingOrders = false := by simpa using hacc
      simp only [hacc', Bool.false_eq_true, if_false, Except.error.injEq] at h
      subst h; exact ⟨mkt, rfl, hacc'⟩
    simp only [hacc, if_true] at h
    by_cases hat : acctHasReqAttrs mkt.reqAsk attrs = true
    swap
    · have hat' : acctHasReqAttrs mkt.reqAsk attrs = false := by simpa using hat
      simp only [hat', Bool.not_false, if_true, Except.error.injEq] at h
      subst h; exact ⟨mkt, rfl, (acctHasReqAttrs_iff (hn mkt rfl)).not.1 hat⟩
    simp only [hat, Bool.not_true, Bool.false_eq_true, if_false] at h
    have h1 := flatFee_accepts_iff_spec hmw.hcflat m.cfee
    have h2 := flatFee_accepts_iff_spec hmw.hsflat m.sflat
    obtain ⟨hprice, hflat⟩ := askMsg_valid_facts hv
    have haw : AskWf mkt.sellerRatios m.price m.sflat :=
      ⟨hmw.hratios, hprice, hflat, hmw.hfit, hmw.hsums⟩
    obtain ⟨h3or, h3⟩ := askPrice_accepts_iff_spec haw
    have h4 := collectThenHold_iff bal m.cfee m.holdAmount
    unfold validateCreateAskFees at h
    rcases flatFee_refusal_is_fee mkt.createAskFlat m.cfee with a | a
    swap
    · simp only [a, Except.error.injEq] at h
      subst h
      refine ⟨mkt, rfl, fun hh => ?_⟩
      rw [h1.2 hh.1] at a; cases a
    rcases flatFee_refusal_is_fee mkt.sellerFlat m.sflat with b | b
    swap
    · simp only [a, b, Except.error.injEq] at h
      subst h
      refine ⟨mkt, rfl, fun hh => ?_⟩
      rw [h2.2 hh.2] at b; cases b
    rcases h3or with c | c
    swap
    · simp only [a, b, c, Except.error.injEq] at h
      subst h
      refine ⟨mkt, rfl, fun hh => ?_⟩
      rw [h3.2 hh] at c; cases c
    simp only [a, b, c] at h
    have he := collectThenHold_error h
    subst he
    intro hh
    rw [h4.2 hh] at h; cases h

/-- what a refusal class says about a bid -/
def BidRefusalReason (mk : Option Market) (attrs : List String) (bal : Coins) (m : BidMsg) : Rej → Prop
  | .invalid => m.valid = false
  | .market => mk = none
  | .closed => ∃ mkt, mk = some mkt ∧ mkt.acceptingOrders = false
  | .attr => ∃ mkt, mk = some mkt ∧ ¬ AttrsOk mkt.reqBid attrs
  | .fee => ∃ mkt, mk = some mkt ∧
      ¬ (FlatFeeOk mkt.createBidFlat m.cfee ∧ BuyerFeeOk mkt.buyerFlat mkt.buyerRatios m.price m.fees)
  | .funds => ¬ FundsOk bal m.cfee m.holdAmount
  | .price => False
  | .usersettle => False
  | .overflow => False

/-- **Every refusal of a bid names a condition that fails**; inside the guards a bid is never
refused by a panic, nor with a class that does not apply to bids. -/
theorem createBid_refusal_reason {mk : Option Market} {attrs : List String} {bal : Coins} {m : BidMsg}
    (hw : ∀ mkt, mk = some mkt → MarketBidWf mkt m.price)
    (hn : ∀ mkt, mk = some mkt → PairsOk mkt.reqBid attrs) {e : Rej}
    (h : createBid mk attrs bal m = .error e) : BidRefusalReason mk attrs bal m e := by
  unfold createBid at h
  by_cases hv : m.valid = true
  swap
  · have hv' : m.valid = false := by simpa using hv
    simp only [hv', Bool.not_false, if_true, Except.error.injEq] at h
    subst h; exact hv'
  simp only [hv, Bool.not_true, Bool.false_eq_true, if_false] at h
  cases mk with
  | none =>
    simp only [validateMarketIsAcceptingOrders, Except.error.injEq] at h
    subst h; rfl
  | some mkt =>
    have hmw := hw mkt rfl
    simp only [validateMarketIsAcceptingOrders] at h
    by_cases hacc : mkt.acceptingOrders = true
    swap
    · have hacc' : mkt.acceptingOrders = false := by simpa using hacc
      simp only [hacc', Bool.false_eq_true, if_false, Except.error.injEq] at h
      subst h; exact ⟨mkt, rfl, hacc'⟩
    simp only [hacc, if_true] at h
    by_cases hat : acctHasReqAttrs mkt.reqBid attrs = true
    swap
    · have hat' : acctHasReqAttrs mkt.reqBid attrs = false := by simpa using hat
      simp only [hat', Bool.not_false, if_true, Except.error.injEq] at h
      subst h; exact ⟨mkt, rfl, (acctHasReqAttrs_iff (hn mkt rfl)).not.1 hat⟩
    simp only [hat, Bool.not_true, Bool.false_eq_true, if_false] at h
    have hfees : (m.fees.map (·.1)).Nodup := by
      unfold BidMsg.valid at hv
      simp only [Bool.and_eq_true] at hv
      exact coinsValid_nodup hv.2
    have h1 := flatFee_accepts_iff_spec hmw.hcflat m.cfee
    have h2 := buyerFee_accepts_iff_spec hmw.hbuyer hfees
    have h4 := collectThenHold_iff bal m.cfee m.holdAmount
    unfold validateCreateBidFees at h
    rcases flatFee_refusal_is_fee mkt.createBidFlat m.cfee with a | a
    swap
    · simp only [a, Except.error.injEq] at h
      subst h
      refine ⟨mkt, rfl, fun hh => ?_⟩
      rw [h1.2 hh.1] at a; cases a
    rcases buyerFee_no_panic hmw.hbuyer m.fees with b | b
    swap
    · simp only [a, b, Except.error.injEq] at h
      subst h
      refine ⟨mkt, rfl, fun hh => ?_⟩
      rw [h2.2 hh.2] at b; cases b
    simp only [a, b] at h
    have he := collectThenHold_error h
    subst he
    intro hh
    rw [h4.2 hh] at h; cases h

/-- what a refusal class says about a commitment (`s` = what is stored under the id; the
creation fee is checked and collected before the market is looked at) -/
def CommitRefusalReason (s : MStore) (attrs : List String) (bal : Coins) (m : CommitMsg) : Rej → Prop
  | .invalid => m.valid = false
  | .fee => ¬ FlatFeeOk s.m.createCommitFlat m.cfee
  | .funds => ¬ FundsOk bal m.cfee m.amount
  | .market => s.known = false
  | .closed => s.known = true ∧ s.m.acceptingCommitments = false
  | .attr => s.known = true ∧ ¬ AttrsOk s.m.reqCommit attrs
  | .price => False
  | .usersettle => False
  | .overflow => False

/-- the creation fee as a coin list -/
def feeCoinsOf (fee : Option Coin) : Coins := match fee with | some c => [c] | none => []

theorem commitFunds_eq (s : MStore) (attrs : List String) (bal : Coins) (m : CommitMsg) :
    commitFunds s attrs bal m =
      if !m.valid then .error .invalid else
      match validateFlatFee s.m.createCommitFlat m.cfee with
      | .error e => .error e
      | .ok _ =>
        if !covers bal (feeCoinsOf m.cfee) then .error .funds else
        match validateMarketIsAcceptingCommitments s.view with
        | .error e => .error e
        | .ok mkt =>
          if !acctHasReqAttrs mkt.reqCommit attrs then .error .attr
          else if !covers (Coins.sub bal (feeCoinsOf m.cfee)) m.amount then .error .funds
          else .ok () := rfl

theorem fundsOk_eq (bal : Coins) (fee : Option Coin) (hold : Coins) :
    FundsOk bal fee hold ↔
      covers bal (feeCoinsOf fee) = true ∧ covers (Coins.sub bal (feeCoinsOf fee)) hold = true := Iff.rfl

/-- **Every refusal of a commitment names a condition that fails**, and `CommitFunds` never
panics (no 256-bit guard is needed: no fee arithmetic on this path). -/
theorem commitFunds_refusal_reason {s : MStore} {attrs : List String} {bal : Coins} {m : CommitMsg}
    (hw : (s.m.createCommitFlat.map (·.1)).Nodup)
    (hn : s.known = true → PairsOk s.m.reqCommit attrs) {e : Rej}
    (h : commitFunds s attrs bal m = .error e) : CommitRefusalReason s attrs bal m e := by
  rw [commitFunds_eq] at h
  have hF := fundsOk_eq bal m.cfee m.amount
  generalize feeCoinsOf m.cfee = fc at h hF
  by_cases hv : m.valid = true
  swap
  · have hv' : m.valid = false := by simpa using hv
    simp only [hv', Bool.not_false, if_true, Except.error.injEq] at h
    subst h; exact hv'
  simp only [hv, Bool.not_true, Bool.false_eq_true, if_false] at h
  have h1 := flatFee_accepts_iff_spec hw m.cfee
  rcases flatFee_refusal_is_fee s.m.createCommitFlat m.cfee with a | a
  swap
  · simp only [a, Except.error.injEq] at h
    subst h
    intro hh; rw [h1.2 hh] at a; cases a
  simp only [a] at h
  by_cases hc1 : covers bal fc = true
  swap
  · have hc1' : covers bal fc = false := by simpa using hc1
    simp only [hc1', Bool.not_false, if_true, Except.error.injEq] at h
    subst h
    intro hh; exact hc1 (hF.1 hh).1
  simp only [hc1, Bool.not_true, Bool.false_eq_true, if_false] at h
  unfold MStore.view validateMarketIsAcceptingCommitments at h
  cases hk : s.known with
  | false =>
    simp only [hk, Bool.false_eq_true, if_false, Except.error.injEq] at h
    subst h; exact hk
  | true =>
    simp only [hk, if_true] at h
    by_cases hacc : s.m.acceptingCommitments = true
    swap
    · have hacc' : s.m.acceptingCommitments = false := by simpa using hacc
      simp only [hacc', Bool.false_eq_true, if_false, Except.error.injEq] at h
      subst h; exact ⟨hk, hacc'⟩
    simp only [hacc, if_true] at h
    by_cases hat : acctHasReqAttrs s.m.reqCommit attrs = true
    swap
    · have hat' : acctHasReqAttrs s.m.reqCommit attrs = false := by simpa using hat
      simp only [hat', Bool.not_false, if_true, Except.error.injEq] at h
      subst h; exact ⟨hk, (acctHasReqAttrs_iff (hn hk)).not.1 hat⟩
    simp only [hat, Bool.not_true, Bool.false_eq_true, if_false] at h
    by_cases hc2 : covers (Coins.sub bal fc) m.amount = true
    swap
    · have hc2' : covers (Coins.sub bal fc) m.amount = false := by simpa using hc2
      simp only [hc2', Bool.not_false, if_true, Except.error.injEq] at h
      subst h
      intro hh; exact hc2 (hF.1 hh).2
    simp only [hc2, Bool.not_true, Bool.false_eq_true, if_false, reduceCtorEq] at h

/-- what a refusal class says about a user fill of bids at the market's gate -/
def FillBidsRefusalReason (mk : Option Market) (attrs : List String) (cfee sflat : Option Coin) : Rej → Prop
  | .invalid => fillBidsValid cfee sflat = false
  | .market => mk = none
  | .closed => ∃ mkt, mk = some mkt ∧ mkt.acceptingOrders = false
  | .usersettle => ∃ mkt, mk = some mkt ∧ mkt.acceptingOrders = true ∧ mkt.userSettle = false
  | .attr => ∃ mkt, mk = some mkt ∧ ¬ AttrsOk mkt.reqAsk attrs
  | .fee => ∃ mkt, mk = some mkt ∧ ¬ (FlatFeeOk mkt.createAskFlat cfee ∧ FlatFeeOk mkt.sellerFlat sflat)
  | .price => False
  | .funds => False
  | .overflow => False

/-- **Every refusal at the gate of a user fill of bids names a condition that fails**; the
gate never panics (no guard needed). -/
theorem fillBidsGate_refusal_reason {mk : Option Market} {attrs : List String} {cfee sflat : Option Coin}
    (hw : ∀ mkt, mk = some mkt → (mkt.createAskFlat.map (·.1)).Nodup ∧ (mkt.sellerFlat.map (·.1)).Nodup)
    (hn : ∀ mkt, mk = some mkt → PairsOk mkt.reqAsk attrs) {e : Rej}
    (h : fillBidsGate mk attrs cfee sflat = .error e) : FillBidsRefusalReason mk attrs cfee sflat e := by
  unfold fillBidsGate validateAcceptingOrdersAndCanUserSettle validateMarketIsAcceptingOrders at h
  by_cases hv : fillBidsValid cfee sflat = true
  swap
  · have hv' : fillBidsValid cfee sflat = false := by simpa using hv
    simp only [hv', Bool.not_false, if_true, Except.error.injEq] at h
    subst h; exact hv'
  simp only [hv, Bool.not_true, Bool.false_eq_true, if_false] at h
  cases mk with
  | none =>
    simp only [Except.error.injEq] at h
    subst h; rfl
  | some mkt =>
    obtain ⟨hn1, hn2⟩ := hw mkt rfl
    simp only at h
    by_cases hacc : mkt.acceptingOrders = true
    swap
    · have hacc' : mkt.acceptingOrders = false := by simpa using hacc
      simp only [hacc', Bool.false_eq_true, if_false, Except.error.injEq] at h
      subst h; exact ⟨mkt, rfl, hacc'⟩
    simp only [hacc, if_true] at h
    by_cases hus : mkt.userSettle = true
    swap
    · have hus' : mkt.userSettle = false := by simpa using hus
      simp only [hus', Bool.false_eq_true, if_false, Except.error.injEq] at h
      subst h; exact ⟨mkt, rfl, hacc, hus'⟩
    simp only [hus, if_true] at h
    by_cases hat : acctHasReqAttrs mkt.reqAsk attrs = true
    swap
    · have hat' : acctHasReqAttrs mkt.reqAsk attrs = false := by simpa using hat
      simp only [hat', Bool.not_false, if_true, Except.error.injEq] at h
      subst h; exact ⟨mkt, rfl, (acctHasReqAttrs_iff (hn mkt rfl)).not.1 hat⟩
    simp only [hat, Bool.not_true, Bool.false_eq_true, if_false] at h
    have h1 := flatFee_accepts_iff_spec hn1 cfee
    have h2 := flatFee_accepts_iff_spec hn2 sflat
    unfold validateCreateAskFees at h
    rcases flatFee_refusal_is_fee mkt.createAskFlat cfee with a | a
    swap
    · simp only [a, Except.error.injEq] at h
      subst h
      refine ⟨mkt, rfl, fun hh => ?_⟩
      rw [h1.2 hh.1] at a; cases a
    rcases flatFee_refusal_is_fee mkt.sellerFlat sflat with b | b
    swap
    · simp only [a, b, Except.error.injEq] at h
      subst h
      refine ⟨mkt, rfl, fun hh => ?_⟩
      rw [h2.2 hh.2] at b; cases b
    simp only [a, b, reduceCtorEq] at h

/-- what a refusal class says about a user fill of asks at the market's gate -/
def FillAsksRefusalReason (mk : Option Market) (attrs : List String) (cfee : Option Coin)
    (tp : Coin) (fees : List Coin) : Rej → Prop
  | .invalid => fillAsksValid cfee tp fees = false
  | .market => mk = none
  | .closed => ∃ mkt, mk = some mkt ∧ mkt.acceptingOrders = false
  | .usersettle => ∃ mkt, mk = some mkt ∧ mkt.acceptingOrders = true ∧ mkt.userSettle = false
  | .attr => ∃ mkt, mk = some mkt ∧ ¬ AttrsOk mkt.reqBid attrs
  | .fee => ∃ mkt, mk = some mkt ∧
      ¬ (FlatFeeOk mkt.createBidFlat cfee ∧ BuyerFeeOk mkt.buyerFlat mkt.buyerRatios tp fees)
  | .price => False
  | .funds => False
  | .overflow => False

/-- **Every refusal at the gate of a user fill of asks names a condition that fails**; inside
the guards the gate never panics. -/
theorem fillAsksGate_refusal_reason {mk : Option Market} {attrs : List String} {cfee : Option Coin}
    {tp : Coin} {fees : List Coin}
    (hw : ∀ mkt, mk = some mkt → MarketBidWf mkt tp)
    (hn : ∀ mkt, mk = some mkt → PairsOk mkt.reqBid attrs) {e : Rej}
    (h : fillAsksGate mk attrs cfee tp fees = .error e) :
    FillAsksRefusalReason mk attrs cfee tp fees e := by
  unfold fillAsksGate validateAcceptingOrdersAndCanUserSettle validateMarketIsAcceptingOrders at h
  by_cases hv : fillAsksValid cfee tp fees = true
  swap
  · have hv' : fillAsksValid cfee tp fees = false := by simpa using hv
    simp only [hv', Bool.not_false, if_true, Except.error.injEq] at h
    subst h; exact hv'
  simp only [hv, Bool.not_true, Bool.false_eq_true, if_false] at h
  have hfees : (fees.map (·.1)).Nodup := by
    unfold fillAsksValid at hv
    simp only [Bool.and_eq_true] at hv
    exact coinsValid_nodup hv.2
  cases mk with
  | none =>
    simp only [Except.error.injEq] at h
    subst h; rfl
  | some mkt =>
    have hmw := hw mkt rfl
    simp only at h
    by_cases hacc : mkt.acceptingOrders = true
    swap
    · have hacc' : mkt.acceptingOrders = false := by simpa using hacc
      simp only [hacc', Bool.false_eq_true, if_false, Except.error.injEq] at h
      subst h; exact ⟨mkt, rfl, hacc'⟩
    simp only [hacc, if_true] at h
    by_cases hus : mkt.userSettle = true
    swap
    · have hus' : mkt.userSettle = false := by simpa using hus
      simp only [hus', Bool.false_eq_true, if_false, Except.error.injEq] at h
      subst h; exact ⟨mkt, rfl, hacc, hus'⟩
    simp only [hus, if_true] at h
    by_cases hat : acctHasReqAttrs mkt.reqBid attrs = true
    swap
    · have hat' : acctHasReqAttrs mkt.reqBid attrs = false := by simpa using hat
      simp only [hat', Bool.not_false, if_true, Except.error.injEq] at h
      subst h; exact ⟨mkt, rfl, (acctHasReqAttrs_iff (hn mkt rfl)).not.1 hat⟩
    simp only [hat, Bool.not_true, Bool.false_eq_true, if_false] at h
    have h1 := flatFee_accepts_iff_spec hmw.hcflat cfee
    have h2 := buyerFee_accepts_iff_spec hmw.hbuyer hfees
    unfold validateCreateBidFees at h
    rcases flatFee_refusal_is_fee mkt.createBidFlat cfee with a | a
    swap
    · simp only [a, Except.error.injEq] at h
      subst h
      refine ⟨mkt, rfl, fun hh => ?_⟩
      rw [h1.2 hh.1] at a; cases a
    rcases buyerFee_no_panic hmw.hbuyer fees with b | b
    swap
    · simp only [a, b, Except.error.injEq] at h
      subst h
      refine ⟨mkt, rfl, fun hh => ?_⟩
      rw [h2.2 hh.2] at b; cases b
    simp only [a, b, reduceCtorEq] at h

/-- **No admission panics inside the guards**: none of the five message-level admissions
returns the overflow class when the stored market is well formed for the message. -/
theorem admissions_no_panic {mk : Option Market} {attrs : List String} {bal : Coins} :
    (∀ m : AskMsg, (∀ mkt, mk = some mkt → MarketAskWf mkt m) → (∀ mkt, mk = some mkt → PairsOk mkt.reqAsk attrs) →
      createAsk mk attrs bal m ≠ .error .overflow) ∧
    (∀ m : BidMsg, (∀ mkt, mk = some mkt → MarketBidWf mkt m.price) → (∀ mkt, mk = some mkt → PairsOk mkt.reqBid attrs) →
      createBid mk attrs bal m ≠ .error .overflow) ∧
    (∀ cfee sflat, (∀ mkt, mk = some mkt → (mkt.createAskFlat.map (·.1)).Nodup ∧ (mkt.sellerFlat.map (·.1)).Nodup) →
      (∀ mkt, mk = some mkt → PairsOk mkt.reqAsk attrs) →
      fillBidsGate mk attrs cfee sflat ≠ .error .overflow) ∧
    (∀ cfee tp fees, (∀ mkt, mk = some mkt → MarketBidWf mkt tp) → (∀ mkt, mk = some mkt → PairsOk mkt.reqBid attrs) →
      fillAsksGate mk attrs cfee tp fees ≠ .error .overflow) :=
  ⟨fun _ hw hn h => createAsk_refusal_reason hw hn h, fun _ hw hn h => createBid_refusal_reason hw hn h,
   fun _ _ hw hn h => fillBidsGate_refusal_reason hw hn h,
   fun _ _ _ hw hn h => fillAsksGate_refusal_reason hw hn h⟩

/-- `CommitFunds` never panics, whatever is stored under the id. -/
theorem commitFunds_no_panic (s : MStore) (attrs : List String) (bal : Coins) (m : CommitMsg) :
    commitFunds s attrs bal m ≠ .error .overflow := by
  intro h
  rw [commitFunds_eq] at h
  unfold validateMarketIsAcceptingCommitments at h
  rcases flatFee_refusal_is_fee s.m.createCommitFlat m.cfee with a | a <;> simp only [a] at h
  · cases hv : s.view with
    | none => simp only [hv] at h; split_ifs at h <;> cases h
    | some mk =>
      simp only [hv] at h
      cases hmv : m.valid <;> cases hm : mk.acceptingCommitments <;> cases hA : acctHasReqAttrs mk.reqCommit attrs <;>
        cases hc1 : covers bal (feeCoinsOf m.cfee) <;>
        cases hc2 : covers (Coins.sub bal (feeCoinsOf m.cfee)) m.amount <;>
        simp [hmv, hm, hA, hc1, hc2] at h
  · split_ifs at h <;> cases h

/-! ### Paying more never hurts; a larger price stays coverable -/

/-- A flat fee that is accepted stays accepted when more of the same coin is offered. -/
theorem flatFee_monotone {opts : List Coin} (hn : (opts.map (·.1)).Nodup) {d : Denom} {a a' : Int}
    (hle : a ≤ a') (h : validateFlatFee opts (some (d, a)) = .ok ()) :
    validateFlatFee opts (some (d, a')) = .ok () := by
  rw [flatFee_accepts_iff_spec hn] at h ⊢
  rcases h with h | ⟨c, hc, o, ho, hd, hamt⟩
  · exact Or.inl h
  · cases hc
    exact Or.inr ⟨(d, a'), rfl, o, ho, hd, by simp only at hamt ⊢; omega⟩

/-- Buyer settlement fees that are accepted stay accepted when every coin is replaced by at
least as much of the same denom (`fee'` pointwise ≥ `fee`). -/
theorem buyerFee_monotone {flats : List Coin} {ratios : List Ratio} {price : Coin}
    (hw : BuyerWf flats ratios price) {fee fee' : List Coin}
    (hfee' : (fee'.map (·.1)).Nodup) (hfee : (fee.map (·.1)).Nodup)
    (hge : ∀ c ∈ fee, ∃ c' ∈ fee', c'.1 = c.1 ∧ c.2 ≤ c'.2)
    (h : validateBuyerSettlementFee flats ratios price fee = .ok ()) :
    validateBuyerSettlementFee flats ratios price fee' = .ok () := by
  rw [buyerFee_accepts_iff_spec hw hfee] at h
  rw [buyerFee_accepts_iff_spec hw hfee']
  unfold BuyerFeeOk at h ⊢
  rcases h with h | ⟨h1, h2, c, hc, o, ho, hd, ha⟩ | ⟨h1, h2, c, hc, r, hr, hfor, ha⟩ |
    ⟨h1, h2, h3⟩
  · exact Or.inl h
  · obtain ⟨c', hc', hd', ha'⟩ := hge c hc
    exact Or.inr (Or.inl ⟨h1, h2, c', hc', o, ho, by rw [hd', hd], by omega⟩)
  · obtain ⟨c', hc', hd', ha'⟩ := hge c hc
    exact Or.inr (Or.inr (Or.inl ⟨h1, h2, c', hc', r, hr, ⟨hfor.1, by rw [hd']; exact hfor.2⟩,
      by omega⟩))
  · refine Or.inr (Or.inr (Or.inr ⟨h1, h2, ?_⟩))
    rcases h3 with ⟨c, hc, o, ho, r, hr, hd, hfor, ha⟩ | ⟨c, hc, d, hd, hne, ⟨o, ho, hod, hoa⟩, r, hr, hfor, ha⟩
    · obtain ⟨c', hc', hd', ha'⟩ := hge c hc
      exact Or.inl ⟨c', hc', o, ho, r, hr, by rw [hd', hd], ⟨hfor.1, by rw [hd']; exact hfor.2⟩,
        by omega⟩
    · obtain ⟨c', hc', hcd', hca'⟩ := hge c hc
      obtain ⟨d', hd', hdd', hda'⟩ := hge d hd
      exact Or.inr ⟨c', hc', d', hd', by rw [hcd', hdd']; exact hne,
        ⟨o, ho, by rw [hcd']; exact hod, by omega⟩,
        r, hr, ⟨hfor.1, by rw [hdd']; exact hfor.2⟩, by omega⟩

/-- The ratio fee grows no faster than the price when the ratio is at most one
(`FeeRatio.Validate` for same-denom ratios). -/
theorem ratioFeeSpec_slope {r : Ratio} {p p' : Int} (hpa : 0 < r.pa) (hle : r.fa ≤ r.pa)
    (hpp : p ≤ p') : ratioFeeSpec r p' - ratioFeeSpec r p ≤ p' - p := by
  have h := ceilDiv_isCeil (p * r.fa) hpa
  have h' := ceilDiv_isCeil (p' * r.fa) hpa
  unfold IsCeilDiv at h h'
  unfold ratioFeeSpec
  generalize ceilDiv (p * r.fa) r.pa = c at h
  generalize ceilDiv (p' * r.fa) r.pa = c' at h'
  have h3 : (p' - p) * r.fa ≤ (p' - p) * r.pa :=
    Int.mul_le_mul_of_nonneg_left hle (by omega)
  have h4 : r.pa * (c' - 1) < r.pa * (c + (p' - p)) := by nlinarith
  have := Int.lt_of_mul_lt_mul_left h4 (by omega)
  omega

/-- **The ask price is a minimum**: if the check passes for the stated price it passes for
every larger price in the same denom (so settling above the ask price still covers the
seller fees taken out of it). -/
theorem askPrice_ok_for_larger_price {rs : List Ratio} {price : Coin} {flat : Option Coin} {a' : Int}
    (hw : AskWf rs price flat) (hw' : AskWf rs (price.1, a') flat)
    (hratio : ∀ r ∈ rs, r.pd = r.fd → r.fa ≤ r.pa) (hle : price.2 ≤ a')
    (h : validateAskPrice rs price flat = .ok ()) :
    validateAskPrice rs (price.1, a') flat = .ok () := by
  rw [(askPrice_accepts_iff_spec hw).2] at h
  rw [(askPrice_accepts_iff_spec hw').2]
  obtain ⟨h1, h2, h3⟩ := h
  have hF : flatOutOfPrice (price.1, a') flat = flatOutOfPrice price flat := by
    unfold flatOutOfPrice; rfl
  refine ⟨h1, ?_, ?_⟩
  · rw [hF]; simp only; omega
  · intro r hr hpd hfd
    rw [hF]
    have := h3 r hr hpd hfd
    have hs := ratioFeeSpec_slope (hw.hratios.2 r hr).1 (hratio r hr (by rw [hpd, hfd])) hle
    simp only at hs ⊢
    omega

/-! ### Required attributes are the ones the market asked for (after name normalisation) -/

/-- **The stored required attributes are the requested ones, normalised — for asks, bids and
commitments**: on a market created from `requested`, the account may act ⇔ every attribute
the market asked for, normalised like every name on chain, has a documented match among the
account's attributes — whatever spelling the market was created with. -/
theorem reqattrs_normalised (requested : Market) {attrs : List String} (ha : ∀ a ∈ attrs, NameOk a)
    (hr : ∀ r ∈ requested.reqAsk ++ requested.reqBid ++ requested.reqCommit, ReqOk (normalizeName r)) :
    (acctHasReqAttrs (storeMarket requested).reqAsk attrs = true ↔
      ∀ r ∈ requested.reqAsk, ∃ a ∈ attrs, DocMatch (normalizeName r) a) ∧
    (acctHasReqAttrs (storeMarket requested).reqBid attrs = true ↔
      ∀ r ∈ requested.reqBid, ∃ a ∈ attrs, DocMatch (normalizeName r) a) ∧
    (acctHasReqAttrs (storeMarket requested).reqCommit attrs = true ↔
      ∀ r ∈ requested.reqCommit, ∃ a ∈ attrs, DocMatch (normalizeName r) a) := by
  refine ⟨acctHasReqAttrs_normalised_iff (fun r h => hr r ?_) ha,
    acctHasReqAttrs_normalised_iff (fun r h => hr r ?_) ha,
    acctHasReqAttrs_normalised_iff (fun r h => hr r ?_) ha⟩ <;> simp [h]

/-- kept under its first name: the ask and bid part -/
theorem ask_bid_reqattrs_normalised (requested : Market) {attrs : List String} (ha : ∀ a ∈ attrs, NameOk a)
    (hr : ∀ r ∈ requested.reqAsk ++ requested.reqBid ++ requested.reqCommit, ReqOk (normalizeName r)) :
    (acctHasReqAttrs (storeMarket requested).reqAsk attrs = true ↔
      ∀ r ∈ requested.reqAsk, ∃ a ∈ attrs, DocMatch (normalizeName r) a) ∧
    (acctHasReqAttrs (storeMarket requested).reqBid attrs = true ↔
      ∀ r ∈ requested.reqBid, ∃ a ∈ attrs, DocMatch (normalizeName r) a) :=
  ⟨(reqattrs_normalised requested ha hr).1, (reqattrs_normalised requested ha hr).2.1⟩

/-- What `CreateMarket` stores is a fixed point of the normalisation: normalising the stored
lists again (as `UpdateReqAttrs` does with every name it compares them to) changes nothing. -/
theorem storeMarket_reqattrs_fixed (requested : Market) :
    (storeMarket requested).reqAsk.map normalizeName = (storeMarket requested).reqAsk ∧
    (storeMarket requested).reqBid.map normalizeName = (storeMarket requested).reqBid ∧
    (storeMarket requested).reqCommit.map normalizeName = (storeMarket requested).reqCommit := by
  simp [storeMarket, List.map_map, Function.comp_def, normalizeName_idempotent]

/-- Everything else `CreateMarket` writes is what was requested. -/
theorem storeMarket_keeps_fees_and_flags (m : Market) :
    (storeMarket m).createAskFlat = m.createAskFlat ∧ (storeMarket m).createBidFlat = m.createBidFlat ∧
    (storeMarket m).createCommitFlat = m.createCommitFlat ∧ (storeMarket m).sellerFlat = m.sellerFlat ∧
    (storeMarket m).buyerFlat = m.buyerFlat ∧ (storeMarket m).sellerRatios = m.sellerRatios ∧
    (storeMarket m).buyerRatios = m.buyerRatios ∧ (storeMarket m).acceptingOrders = m.acceptingOrders ∧
    (storeMarket m).userSettle = m.userSettle ∧
    (storeMarket m).acceptingCommitments = m.acceptingCommitments :=
  ⟨rfl, rfl, rfl, rfl, rfl, rfl, rfl, rfl, rfl, rfl⟩

/-- **Commit funds in terms of the market as requested**: for every requested market, a
commitment is accepted ⇔ valid, the market accepts commitments, the account carries every
requested create-commitment attribute (normalised), the creation fee covers an option, and
the funds are there. -/
theorem commitFunds_requested_iff {requested : Market} {attrs : List String} {bal : Coins}
    {m : CommitMsg} (hw : (requested.createCommitFlat.map (·.1)).Nodup)
    (hn : PairsOk (requested.reqCommit.map normalizeName) attrs) :
    commitFunds ⟨true, storeMarket requested⟩ attrs bal m = .ok () ↔
      m.valid = true ∧ requested.acceptingCommitments = true ∧
      AttrsOkNorm requested.reqCommit attrs ∧ FlatFeeOk requested.createCommitFlat m.cfee ∧
      FundsOk bal m.cfee m.amount := by
  rw [commitFunds_admits_iff (s := ⟨true, storeMarket requested⟩) (fun _ => hw) (fun _ => hn)]
  unfold CommitAdmissible MStore.view
  simp only [if_true, Option.some.injEq, exists_eq_left']
  constructor
  · rintro ⟨hv, ⟨ha, hat, hf⟩, hfu⟩; exact ⟨hv, ha, hat, hf, hfu⟩
  · rintro ⟨hv, ha, hat, hf, hfu⟩; exact ⟨hv, ⟨ha, hat, hf⟩, hfu⟩

/-- Historical witness (the code before provenance commit 7640f62e9, modelled by
`storeMarketPreFix`): the create-commitment list was stored as given, so a market asking for
`KYC.pb` refused the account that carries `kyc.pb` although the requested attribute,
normalised like every name on chain, is matched — and accepted nobody, since account
attribute names are always normalised. -/
theorem commit_reqattr_not_normalised_before_fix :
    let requested : Market := { acceptingCommitments := true, reqCommit := ["KYC.pb"] }
    let msg : CommitMsg := { marketId := 1, amount := [("usd", 5)], cfee := none }
    commitFunds ⟨true, storeMarketPreFix requested⟩ ["kyc.pb"] [("usd", 10)] msg = .error .attr ∧
    AttrsOkNorm requested.reqCommit ["kyc.pb"] ∧
    msg.valid = true ∧ FundsOk [("usd", 10)] msg.cfee msg.amount := by
  refine ⟨by rfl, by decide, by decide, by decide⟩

/-- The current code admits the same commitment. -/
theorem commit_reqattr_normalised_admits :
    commitFunds ⟨true, storeMarket { acceptingCommitments := true, reqCommit := ["KYC.pb"] }⟩
      ["kyc.pb"] [("usd", 10)] { marketId := 1, amount := [("usd", 5)], cfee := none } = .ok () := by
  rfl

/-! ### Histories: only a created market admits, with the configuration in force

The authority's per-market messages do not look whether the id is a market, so flags, fee
options and required attributes can be written under any id at any time.  These theorems say
that none of it matters for admission: an id that was never created admits nothing, and a
market admits by the configuration it was created with as changed by the messages sent
after its creation — for every history. -/

/-- **What was stored under an id before the market was created does not survive its
creation**, and an id that was never created is not a market: for every history the market
an admission sees is the declared configuration in force. -/
theorem history_view_eq_configInForce (h : History) : h.run.view = h.configInForce := by
  unfold History.run History.configInForce MStore.view
  cases hr : h.requested with
  | none =>
    simp only [foldl_admin_known, Option.map_none]
    rfl
  | some rq =>
    have hk : (List.foldl MStore.admin {} h.pre).known = false := by
      rw [foldl_admin_known]
    simp only [foldl_admin_known, foldl_admin_m, MStore.create, hk, Bool.false_eq_true, if_false,
      if_true, Option.map_some]
    rfl

/-- **An id that is not a market admits nothing**, whatever is stored under it (accepting
flags, user-settle flag, fee options, required attributes). -/
theorem unknown_id_admits_nothing {s : MStore} (hk : s.known = false) (attrs : List String)
    (bal : Coins) :
    (∀ m, createAsk s.view attrs bal m ≠ .ok ()) ∧ (∀ m, createBid s.view attrs bal m ≠ .ok ()) ∧
    (∀ m, commitFunds s attrs bal m ≠ .ok ()) ∧
    (∀ cfee sflat, fillBidsGate s.view attrs cfee sflat ≠ .ok ()) ∧
    (∀ cfee tp fees, fillAsksGate s.view attrs cfee tp fees ≠ .ok ()) := by
  have hv : s.view = none := by unfold MStore.view; simp [hk]
  refine ⟨?_, ?_, ?_, ?_, ?_⟩
  · intro m; rw [hv]; unfold createAsk validateMarketIsAcceptingOrders; split_ifs <;> simp
  · intro m; rw [hv]; unfold createBid validateMarketIsAcceptingOrders; split_ifs <;> simp
  · intro m h
    have := (commitFunds_admits_iff (s := s) (attrs := attrs) (bal := bal) (m := m)
      (fun h' => by rw [hk] at h'; cases h') (fun h' => by rw [hk] at h'; cases h')).1 h
    obtain ⟨_, ⟨mkt, hm, _⟩, _⟩ := this
    rw [hv] at hm; cases hm
  · intro cfee sflat; rw [hv]
    unfold fillBidsGate validateAcceptingOrdersAndCanUserSettle validateMarketIsAcceptingOrders
    split_ifs <;> simp
  · intro cfee tp fees; rw [hv]
    unfold fillAsksGate validateAcceptingOrdersAndCanUserSettle validateMarketIsAcceptingOrders
    split_ifs <;> simp

/-- A history without a creation leaves an id that is not a market. -/
theorem history_without_creation_unknown {h : History} (hn : h.requested = none) :
    h.run.known = false := by
  unfold History.run
  simp only [hn, foldl_admin_known]

/-- **The entries under a market id stay a map** (one flat option per denom and kind, one
ratio per denom pair and kind) under every authority message: the well-formedness the
admission theorems assume of a stored market is an invariant of histories, not only of
`Market.Validate` at creation. -/
theorem configInForce_keys_nodup {h : History}
    (hw : ∀ rq, h.requested = some rq → KeysNodup rq) :
    ∀ c, h.configInForce = some c → KeysNodup c := by
  intro c hc
  unfold History.configInForce at hc
  cases hr : h.requested with
  | none => rw [hr] at hc; cases hc
  | some rq =>
    rw [hr] at hc
    simp only [Option.map_some, Option.some.injEq] at hc
    subst hc
    exact foldl_applyTo_keys_nodup (asRequested_keys_nodup (hw rq hr)) h.post

/-- **Commit funds, for every history**: accepted ⇔ valid, the id was created as a market and
the configuration in force accepts commitments, names no attribute the account lacks, and has
a creation-fee option the offer covers (or none), and the funds are there. -/
theorem commitFunds_history_iff {h : History} {attrs : List String} {bal : Coins} {m : CommitMsg}
    (hw : ∀ rq, h.requested = some rq → KeysNodup rq)
    (hn : ∀ c, h.configInForce = some c → PairsOk c.reqCommit attrs) :
    commitFunds h.run attrs bal m = .ok () ↔
      m.valid = true ∧ CommitAdmissible h.configInForce attrs m ∧ FundsOk bal m.cfee m.amount := by
  rw [← history_view_eq_configInForce]
  have hv : h.run.known = true → h.configInForce = some h.run.m := by
    intro hk
    rw [← history_view_eq_configInForce]; unfold MStore.view; simp [hk]
  exact commitFunds_admits_iff (fun hk => (configInForce_keys_nodup hw _ (hv hk)).flats .commit)
    (fun hk => hn _ (hv hk))

/-- **Create ask, for every history** (hypothesis: the configuration in force is well formed
for the message, as in `createAsk_admits_iff`). -/
theorem createAsk_history_iff {h : History} {attrs : List String} {bal : Coins} {m : AskMsg}
    (hw : ∀ c, h.configInForce = some c → MarketAskWf c m)
    (hn : ∀ c, h.configInForce = some c → PairsOk c.reqAsk attrs) :
    createAsk h.run.view attrs bal m = .ok () ↔
      m.valid = true ∧ AskAdmissible h.configInForce attrs m ∧ FundsOk bal m.cfee m.holdAmount := by
  rw [history_view_eq_configInForce]
  exact createAsk_admits_iff hw hn

/-- **Create bid, for every history.** -/
theorem createBid_history_iff {h : History} {attrs : List String} {bal : Coins} {m : BidMsg}
    (hw : ∀ c, h.configInForce = some c → MarketBidWf c m.price)
    (hn : ∀ c, h.configInForce = some c → PairsOk c.reqBid attrs) :
    createBid h.run.view attrs bal m = .ok () ↔
      m.valid = true ∧ BidAdmissible h.configInForce attrs m ∧ FundsOk bal m.cfee m.holdAmount := by
  rw [history_view_eq_configInForce]
  exact createBid_admits_iff hw hn

/-- **User fill of bids, for every history** (no hypothesis beyond the requested market
being a map). -/
theorem fillBidsGate_history_iff {h : History} {attrs : List String} {cfee sflat : Option Coin}
    (hw : ∀ rq, h.requested = some rq → KeysNodup rq)
    (hn : ∀ c, h.configInForce = some c → PairsOk c.reqAsk attrs) :
    fillBidsGate h.run.view attrs cfee sflat = .ok () ↔
      fillBidsValid cfee sflat = true ∧ FillBidsAdmissible h.configInForce attrs cfee sflat := by
  rw [history_view_eq_configInForce]
  refine fillBidsGate_iff ?_ hn
  intro c hc
  have := configInForce_keys_nodup hw c hc
  exact ⟨this.flats .ask, this.flats .seller⟩

/-- **User fill of asks, for every history.** -/
theorem fillAsksGate_history_iff {h : History} {attrs : List String} {cfee : Option Coin}
    {tp : Coin} {fees : List Coin}
    (hw : ∀ c, h.configInForce = some c → MarketBidWf c tp)
    (hn : ∀ c, h.configInForce = some c → PairsOk c.reqBid attrs) :
    fillAsksGate h.run.view attrs cfee tp fees = .ok () ↔
      fillAsksValid cfee tp fees = true ∧ FillAsksAdmissible h.configInForce attrs cfee tp fees := by
  rw [history_view_eq_configInForce]
  exact fillAsksGate_iff hw hn

/-- **After MsgGovCloseMarket nothing is admitted** (until a later message reopens the
market): a history whose last message is the closing one admits no order and no commitment. -/
theorem closed_market_admits_nothing {h : History} {post : List Step}
    (hp : h.post = post ++ [.close]) (attrs : List String) (bal : Coins) :
    (∀ m, createAsk h.run.view attrs bal m ≠ .ok ()) ∧
    (∀ m, createBid h.run.view attrs bal m ≠ .ok ()) ∧
    (∀ m, commitFunds h.run attrs bal m ≠ .ok ()) := by
  have hcfg : ∀ c, h.run.view = some c → c.acceptingOrders = false ∧ c.acceptingCommitments = false := by
    intro c hc
    rw [history_view_eq_configInForce] at hc
    unfold History.configInForce at hc
    cases hr : h.requested with
    | none => rw [hr] at hc; cases hc
    | some rq =>
      rw [hr, hp] at hc
      simp only [Option.map_some, Option.some.injEq, List.foldl_append, List.foldl_cons,
        List.foldl_nil] at hc
      subst hc
      exact ⟨rfl, rfl⟩
  refine ⟨?_, ?_, ?_⟩
  · intro m hm
    unfold createAsk at hm
    cases hv : h.run.view with
    | none =>
      simp only [hv, validateMarketIsAcceptingOrders] at hm
      split_ifs at hm
    | some c =>
      have := (hcfg c hv).1
      simp only [hv, validateMarketIsAcceptingOrders, this, Bool.false_eq_true, if_false] at hm
      split_ifs at hm
  · intro m hm
    unfold createBid at hm
    cases hv : h.run.view with
    | none =>
      simp only [hv, validateMarketIsAcceptingOrders] at hm
      split_ifs at hm
    | some c =>
      have := (hcfg c hv).1
      simp only [hv, validateMarketIsAcceptingOrders, this, Bool.false_eq_true, if_false] at hm
      split_ifs at hm
  · intro m hm
    unfold commitFunds at hm
    cases hv : h.run.view with
    | none =>
      simp only [hv, validateMarketIsAcceptingCommitments] at hm
      split_ifs at hm <;> (try split at hm) <;> simp_all
    | some c =>
      have := (hcfg c hv).2
      simp only [hv, validateMarketIsAcceptingCommitments, this, Bool.false_eq_true, if_false] at hm
      split_ifs at hm <;> (try split at hm) <;> simp_all

/-! ### Non-vacuity: concrete instances of the hypotheses and of both outcomes -/

/-- a market with two flat options and two buyer ratios for `usd` prices -/
example : BuyerWf [("fee", 10), ("usd", 3)]
    [⟨"usd", 100, "fee", 1⟩, ⟨"usd", 50, "usd", 1⟩] ("usd", 1001) := by
  refine ⟨⟨by decide, by decide⟩, ⟨by decide, by decide⟩, by decide, by decide, by decide⟩

-- one coin covering flat 10fee + ratio ⌈1001/100⌉ = 11fee: 21fee accepted, 20fee refused
example : validateBuyerSettlementFee [("fee", 10), ("usd", 3)]
    [⟨"usd", 100, "fee", 1⟩, ⟨"usd", 50, "usd", 1⟩] ("usd", 1001) [("fee", 21)] = .ok () := by rfl
example : validateBuyerSettlementFee [("fee", 10), ("usd", 3)]
    [⟨"usd", 100, "fee", 1⟩, ⟨"usd", 50, "usd", 1⟩] ("usd", 1001) [("fee", 20)] = .error .fee := by rfl
-- two coins in different denoms: flat 3usd + ratio 11fee
example : validateBuyerSettlementFee [("fee", 10), ("usd", 3)]
    [⟨"usd", 100, "fee", 1⟩, ⟨"usd", 50, "usd", 1⟩] ("usd", 1001) [("fee", 11), ("usd", 3)] = .ok () := by rfl
example : BuyerFeeOk [("fee", 10), ("usd", 3)]
    [⟨"usd", 100, "fee", 1⟩, ⟨"usd", 50, "usd", 1⟩] ("usd", 1001) [("fee", 11), ("usd", 3)] := by decide
example : ¬ BuyerFeeOk [("fee", 10), ("usd", 3)]
    [⟨"usd", 100, "fee", 1⟩, ⟨"usd", 50, "usd", 1⟩] ("usd", 1001) [("fee", 20)] := by decide

example : AskWf [⟨"usd", 100, "usd", 1⟩] ("usd", 100) (some ("usd", 98)) := by
  refine ⟨⟨by decide, by decide⟩, by decide, by decide, by decide, by decide⟩
-- price 100usd, flat 98usd, ratio fee 1usd: 99 < 100 accepted; flat 99usd: refused
example : validateAskPrice [⟨"usd", 100, "usd", 1⟩] ("usd", 100) (some ("usd", 98)) = .ok () := by rfl
example : validateAskPrice [⟨"usd", 100, "usd", 1⟩] ("usd", 100) (some ("usd", 99)) = .error .price := by rfl

example : SegsOk ["kyc".toList, "pb".toList] := by
  unfold SegsOk; decide
example : WildcardMatch ["kyc".toList, "pb".toList] ["us".toList, "kyc".toList, "pb".toList] :=
  ⟨["us".toList], by decide, by decide⟩
example : ReqOk "*.kyc.pb" ∧ ReqOk (normalizeName "*. KYC.Pb ") ∧ NameOk "us.kyc.pb" := by decide
example : NamesOk ["*.kyc.pb", "aml.gov"] ["us.kyc.pb", "aml.gov"] := by decide
example : PairsOk ["*.kyc.pb", "aml.gov"] ["us.kyc.pb", "aml.gov"] := by decide
example : docUnmatched ["zz", "*.kyc.pb", "aml.gov", "zz"] ["us.kyc.pb"] = ["zz", "aml.gov", "zz"] := by decide
example : DocMatch "*.kyc.pb" "us.kyc.pb" ∧ ¬ DocMatch "*.kyc.pb" "kyc.pb" ∧
    ¬ DocMatch "*.kyc.pb" "us.evilkyc.pb" ∧ DocMatch "aml.gov" "aml.gov" := by decide
example : AttrsOk ["*.kyc.pb", "aml.gov"] ["us.kyc.pb", "aml.gov"] := by decide
example : normalizeName " Kyc .PB" = "kyc.pb" := by decide
example : isReqAttrMatch "*.kyc.pb" "us.kyc.pb" = true := by decide
example : isReqAttrMatch "*.kyc.pb" "kyc.pb" = false := by decide
example : isReqAttrMatch "*.kyc.pb" "us.evilkyc.pb" = false := by decide

-- refusal reasons: a bid without the creation fee the market asks is refused as "fee", a
-- commitment on an id that is not a market as "market", a fill on a market without user
-- settlement as "usersettle" (hypotheses of the `*_refusal_reason` theorems on these instances)
example : MarketBidWf { createBidFlat := [("aaa", 5)] } ("usd", 5) :=
  ⟨by decide, ⟨⟨by decide, by decide⟩, ⟨by decide, by decide⟩, by decide, by decide, by decide⟩⟩
example : createBid (some { createBidFlat := [("aaa", 5)] }) [] [("usd", 10)]
    { marketId := 1, assets := ("apple", 1), price := ("usd", 5), fees := [], cfee := none } = .error .fee := by rfl
example : commitFunds { known := false, m := { acceptingCommitments := true } } [] [("usd", 10)]
    { marketId := 1, amount := [("usd", 5)], cfee := none } = .error .market := by rfl
example : fillBidsGate (some { userSettle := false }) [] none none = .error .usersettle := by rfl
example : fillAsksGate (some { userSettle := true, reqBid := ["kyc.pb"] }) ["aml.gov"] none ("usd", 5) []
    = .error .attr := by rfl

/-- a history with residue: before the market exists the authority switches commitments on,
writes a create-commitment fee option and a required attribute under its id; the market is then
created not accepting commitments, with no fee and no required attribute -/
def residueHistory : History :=
  { pre := [.acceptingCommitments true, .flatFees .commit [] [("aaa", 5)], .reqAttrs .commit [] ["Kyc.pb"]],
    requested := some {}, post := [] }

example : residueHistory.configInForce = some {} := by rfl
example : (residueHistory.run.view.map (·.acceptingCommitments)) = some false := by rfl
example : commitFunds residueHistory.run [] [("usd", 10)]
    { marketId := 1, amount := [("usd", 5)], cfee := none } = .error .closed := by rfl
/-- the same messages for an id that never becomes a market: refused as "no such market" -/
example : commitFunds ({ pre := residueHistory.pre, requested := none, post := [] } : History).run ["kyc.pb"]
    [("usd", 10), ("aaa", 5)] { marketId := 1, amount := [("usd", 5)], cfee := some ("aaa", 5) }
    = .error .market := by rfl
/-- sent after the creation they count -/
example : commitFunds ({ pre := [], requested := some {}, post := residueHistory.pre } : History).run
    ["kyc.pb"] [("usd", 10), ("aaa", 5)]
    { marketId := 1, amount := [("usd", 5)], cfee := some ("aaa", 5) } = .ok () := by rfl
example : KeysNodup { createAskFlat := [("fee", 10), ("usd", 3)],
                      buyerRatios := [⟨"usd", 100, "fee", 1⟩, ⟨"usd", 100, "usd", 2⟩] } :=
  ⟨fun k => by cases k <;> decide, by decide, by decide⟩

end PvProofs.C20
