/-
C02 — Funds on hold always equal the account's open exchange obligations.

Property theorems (helper lemmas live in `PvProofs/Lemmas/Exhold*.lean`).  All statements are
about the executable model `PvModel.Exhold` (bank + hold store + exchange records, one
operation = one message), for ALL states, amounts, accounts, denoms and ALL operation lists.

* `holds_always_match` — from any state satisfying the invariant, after any list of operations
  (order creation, cancellation, market settlement incl. partial fills, user fills, commitments,
  their settlement and release, payment create/accept/reject/cancel/retarget, fee and switch
  changes, market closure, bank sends): for every account and denom the hold equals what the
  open orders, commitments and payments require (`Spec.HoldsMatch`, no more, no less) and does
  not exceed the balance (`Spec.HoldsCovered`).
* `from_matching_genesis` — the same from an accepted genesis whose holds match its records
  (`matching_genesis_inv`: the records' well-formedness follows from `GenesisState.Validate`).
* `*_delta_exact` — each operation changes the hold by exactly the reserved amount of the item(s)
  it handles (create, cancel, settle incl. the written-back remainder, fills, commit, release,
  commitment settlement, payment create/accept/reject/cancel, market closure; no change for
  retarget / bank send / fee changes); `hold_change_eq_obligation_change` for every operation.
  Item level: `marketReleaseCommitments_delta_exact` (the real message: a LIST of entries, an
  account named several times, release-all via an empty amount — per account the hold falls by all
  it had committed if one of its entries is a release-all, else by the sum of the named amounts);
  `commitmentSettle_delta_exact` (hold change = outputs − inputs − fees named for the account);
  `fillBids/fillAsks_delta_exact` (the filled orders are the stored orders with the listed ids,
  each is deleted, all others kept); `cancelPayments_delta_exact` (exactly the named payments of
  the source are removed, all others kept).
* `refused_changes_nothing` — clean form: `refusal s op = some e` (the handler returns an error)
  ⟹ `step s op = s`; `accepted_reports_ok` (not refused ⟹ the result line is ok);
  `refused_frame`.  (`rejected_changes_nothing` is the older string-level form.)
* `split_hold_additive` — filled + remaining hold = original hold for every `Order.Split`.
* `cancel_by_owner_never_fails`, `closeMarket_never_swallows_an_error` — "no less": the hold is
  never short when a record is released.
* genesis: `InitGenesis` accepts EXACTLY the valid geneses whose holds COVER the records
  (`initGenesis_accepts_iff` over the record keys, `initGenesis_accepts_iff_covering` for every
  account and denom when the hold genesis is non-negative; `initGenesis_accepts_covering` is the
  forward half); coverage is not equality (`genesis_excess_hold_accepted`, a concrete accepted
  genesis with a larger hold), which is why the property starts "from a genesis whose holds match
  its exchange records".

The settlement's price/fee arithmetic is property C01's: `settle`/`fill*` take the observed
result class and net balance moves as an input (`Oracle`); the theorems hold for every such input.
-/
import PvProofs.Lemmas.ExholdRelease

namespace PvProofs.C02
open PvModel PvModel.Exhold PvProofs.Exhold

/-! ### the model's hold amounts are the documented ones -/

/-- `GetHoldAmount` (ask: assets + flat fee unless it is paid from the price; bid: price + fees)
is the documented reserved amount, per denom. -/
theorem holdAmt_spec (o : Order) (d : Denom) : Coins.amountOf (holdAmt o) d = Spec.orderReserved o d :=
  holdAmt_eq_reserved o d

/-- the model's obligation sum is the declarative one -/
theorem obligations_spec (s : State) (a : Addr) (d : Denom) :
    obligations s a d = Spec.obligations s.orders s.commitments s.payments a d := by
  simp only [obligations, Spec.obligations, sumOver_orders, sumOver_commits, sumOver_pays]

/-! ### the invariant over all operation sequences -/

def isGenesis : Op → Bool
  | .genesis _ => true
  | _ => false

/-- Every operation (every message of the exchange module that touches holds, plus fee/switch
changes, funding and bank sends) preserves: holds = obligations, holds ≤ balances, records
well-formed. -/
theorem step_preserves_inv (s : State) (op : Op) (hg : isGenesis op = false) (hi : Inv s) : Inv (step s op) := by
  unfold step applyOp
  cases op with
  | setMarket mk => exact hi.of_markets _
  | fund a coins =>
    simp only
    split
    · exact hi
    · rename_i hneg
      apply hi.of_bank
      intro b e
      have hnn := amountOf_nonneg (anyNegative_false (by simpa using hneg)) e
      have := hi.covered b e
      simp only [hold, bal, Ledger.bal_credit] at *
      split <;> omega
  | genesis g => simp [isGenesis] at hg
  | createOrder o fee =>
    simp only
    split
    · rename_i s' id h; exact (createOrder_inv hi h).1
    · exact hi
  | cancel id signer =>
    simp only
    split
    · rename_i s' h
      obtain ⟨_, _, hi', _⟩ := cancelOrder_inv hi h
      exact hi'
    · exact hi
  | settle admin m asks bids ep orc =>
    simp only
    split
    · rename_i s' h
      obtain ⟨_, _, _, hi', _, _⟩ := settleOrders_inv hi h
      exact hi'
    · exact hi
  | fillBids seller m bids total flat cfee orc =>
    simp only
    split
    · rename_i s' h
      obtain ⟨_, _, hi', _⟩ := fillBids_inv hi h
      exact hi'
    · exact hi
  | fillAsks buyer m asks total fees cfee orc =>
    simp only
    split
    · rename_i s' h
      obtain ⟨_, _, hi', _⟩ := fillAsks_inv hi h
      exact hi'
    · exact hi
  | commit a m amount cfee =>
    simp only
    split
    · rename_i s' h; exact (commitFunds_inv hi h).1
    · exact hi
  | release admin m entries =>
    simp only
    split
    · rename_i s' h; exact marketReleaseCommitments_inv hi h
    · exact hi
  | csettle admin m i o f =>
    simp only
    split
    · rename_i s' h; exact settleCommitments_inv hi h
    · exact hi
  | pay p =>
    simp only
    split
    · rename_i s' h; exact (createPayment_inv hi h).1
    · exact hi
  | accept p =>
    simp only
    split
    · rename_i s' h
      obtain ⟨_, _, hi', _⟩ := acceptPayment_inv hi h
      exact hi'
    · exact hi
  | reject t src ext =>
    simp only
    split
    · rename_i s' h
      obtain ⟨_, _, hi', _⟩ := rejectPayment_inv hi h
      exact hi'
    · exact hi
  | rejectAll t srcs =>
    simp only
    split
    · rename_i s' h; exact (rejectPayments_inv hi h).1
    · exact hi
  | cancelPay src exts =>
    simp only
    split
    · rename_i s' h
      obtain ⟨_, _, hi', _⟩ := cancelPayments_inv hi h
      exact hi'
    · exact hi
  | retarget src ext nt =>
    simp only
    split
    · rename_i s' h; exact (updatePaymentTarget_inv hi h).1
    · exact hi
  | closeMarket m => exact closeMarket_inv hi m
  | send f t coins =>
    simp only
    split
    · rename_i s' h; exact (bankSend_inv hi h).1
    · exact hi
  | delegate f coin =>
    simp only
    split
    · rename_i s' h; exact (stakeDelegate_inv hi h).1
    · exact hi

theorem run_preserves_inv (ops : List Op) (s : State) (hg : ∀ op ∈ ops, isGenesis op = false) (hi : Inv s) :
    Inv (run s ops) := by
  induction ops generalizing s with
  | nil => exact hi
  | cons op t ih =>
    simp only [run, List.foldl_cons]
    exact ih (step s op) (fun o ho => hg o (by simp [ho])) (step_preserves_inv s op (hg op (by simp)) hi)

/-- **Main theorem.** Starting from a state whose holds match its exchange records (and do not
exceed balances), after ANY sequence of operations, for every account and denom the amount on
hold equals the total that the account's open orders, commitments and outstanding payments
require — no more, no less — and never exceeds the account's balance. -/
theorem holds_always_match (s₀ : State) (ops : List Op) (hg : ∀ op ∈ ops, isGenesis op = false) (h₀ : Inv s₀) :
    Spec.HoldsMatch (run s₀ ops) ∧ Spec.HoldsCovered (run s₀ ops) := by
  have hi := run_preserves_inv ops s₀ hg h₀
  exact ⟨fun a d => by rw [← obligations_spec]; exact hi.holdsMatch a d, hi.covered⟩

/-- the empty chain state satisfies the invariant, so it holds on every state reachable from it -/
theorem inv_empty : Inv ({} : State) :=
  ⟨fun a d => by simp [hold, obligations], fun a d => by simp [hold, bal],
   ⟨fun o h => by simp at h, fun o h => by simp at h, by simp, fun c h => by simp at h, by simp, fun p h => by simp at h, by simp⟩⟩

theorem reachable_holds_match (ops : List Op) (hg : ∀ op ∈ ops, isGenesis op = false) :
    Spec.HoldsMatch (run {} ops) ∧ Spec.HoldsCovered (run {} ops) :=
  holds_always_match {} ops hg inv_empty

/-- Every operation changes the hold by exactly the change of what the records require. -/
theorem hold_change_eq_obligation_change (s : State) (op : Op) (hg : isGenesis op = false) (hi : Inv s)
    (a : Addr) (d : Denom) :
    hold (step s op) a d - hold s a d =
      Spec.obligations (step s op).orders (step s op).commitments (step s op).payments a d
        - Spec.obligations s.orders s.commitments s.payments a d := by
  have h1 := (step_preserves_inv s op hg hi).holdsMatch a d
  have h2 := hi.holdsMatch a d
  rw [← obligations_spec, ← obligations_spec]
  omega

/-- a rejected message leaves everything unchanged (one message = one transaction) -/
theorem rejected_changes_nothing (s : State) (op : Op) (e : Err) (h : (applyOp s op).2 = e.toString)
    (hne : ∀ id : Nat, e.toString ≠ s!"ok {id}") (hok : e.toString ≠ "ok") : step s op = s := by
  unfold step
  unfold applyOp at h ⊢
  cases op <;> simp only at h ⊢ <;>
    first
    | exact absurd h.symm hok
    | (split at h <;> first | rfl | (exfalso; first | exact hok h.symm | exact hne _ h.symm))


/-- the result of an `Except`-valued handler: `none` = accepted, `some e` = refused with `e` -/
def errOf {α : Type} : Except Err α → Option Err
  | .ok _ => none
  | .error e => some e

/-- **Is the operation refused?**  The error the message's handler (ValidateBasic + msg server +
keeper) returns in state `s`, `none` when it accepts.  `setMarket` / `fund` / `closeMarket` are
governance / test set-up steps that cannot fail. -/
def refusal (s : State) (op : Op) : Option Err :=
  match op with
  | .setMarket _ => none
  | .fund _ _ => none
  | .closeMarket _ => none
  | .genesis g => errOf (initGenesis s g)
  | .createOrder o fee => errOf (createOrder s o fee)
  | .cancel id signer => errOf (cancelOrder s id signer)
  | .settle admin m asks bids ep orc => errOf (settleOrders s admin m asks bids ep orc)
  | .fillBids seller m bids total flat cfee orc => errOf (fillBids s seller m bids total flat cfee orc)
  | .fillAsks buyer m asks total fees cfee orc => errOf (fillAsks s buyer m asks total fees cfee orc)
  | .commit a m amount cfee => errOf (commitFunds s a m amount cfee)
  | .release admin m entries => errOf (marketReleaseCommitments s admin m entries)
  | .csettle admin m i o f => errOf (settleCommitments s admin m i o f)
  | .pay p => errOf (createPayment s p)
  | .accept p => errOf (acceptPayment s p)
  | .reject t src ext => errOf (rejectPayment s t src ext)
  | .rejectAll t srcs => errOf (rejectPayments s t srcs)
  | .cancelPay src exts => errOf (cancelPayments s src exts)
  | .retarget src ext nt => errOf (updatePaymentTarget s src ext nt)
  | .send f t coins => errOf (bankSend s f t coins)
  | .delegate f coin => errOf (stakeDelegate s f coin)

/-- **A refused message changes nothing** (clean form): whenever the handler of `op` returns an
error in state `s`, the whole state — records, holds, balances, markets — is unchanged, and the
result line is that error's class. -/
theorem refused_changes_nothing (s : State) (op : Op) (e : Err) (h : refusal s op = some e) :
    step s op = s ∧ (applyOp s op).2 = e.toString := by
  unfold step applyOp
  cases op <;> simp only [refusal] at h <;>
    first
    | exact absurd h (by simp)
    | (unfold errOf at h
       split at h
       · simp at h
       · rename_i e' heq
         injection h with h; subst h
         simp only [heq]
         first
         | exact ⟨rfl, rfl⟩
         | exact ⟨trivial, rfl⟩
         | exact ⟨trivial, trivial⟩
         | trivial)

/-- … and `refusal` is exactly "the result line is not ok": an operation that is not refused
reports `ok` (or `ok <new order id>`). -/
theorem accepted_reports_ok (s : State) (op : Op) (h : refusal s op = none) :
    (applyOp s op).2 = "ok" ∨ ∃ id : Nat, (applyOp s op).2 = s!"ok {id}" := by
  unfold applyOp
  cases op <;> simp only [refusal] at h <;>
    first
    | exact Or.inl rfl
    | (unfold errOf at h
       split at h
       · rename_i x heq
         simp only [heq]
         first
         | exact Or.inl rfl
         | exact Or.inl trivial
         | exact Or.inr ⟨_, rfl⟩
         | trivial
       · simp at h)

/-- a refused message leaves every hold, every balance and every record as it was -/
theorem refused_frame (s : State) (op : Op) (e : Err) (h : refusal s op = some e) (a : Addr) (d : Denom) :
    hold (step s op) a d = hold s a d ∧ bal (step s op) a d = bal s a d ∧
    (step s op).orders = s.orders ∧ (step s op).commitments = s.commitments ∧
    (step s op).payments = s.payments := by
  rw [(refused_changes_nothing s op e h).1]
  exact ⟨rfl, rfl, rfl, rfl, rfl⟩


/-! ### each operation changes the hold by exactly its item's reserved amount -/

/-- sum of the reserved amounts of a list of orders owned by `a` -/
def reservedOf (os : List Order) (a : Addr) (d : Denom) : Int :=
  Spec.sumOver os (fun o => if o.owner = a then Spec.orderReserved o d else 0)

/-- sum of the source amounts of a list of payments whose source is `a` -/
def sourceAmountsOf (ps : List Payment) (a : Addr) (d : Denom) : Int :=
  Spec.sumOver ps (fun p => if p.source = a then Spec.paymentReserved p d else 0)

/-- Creating an order raises the owner's hold by exactly the order's reserved amount
(and nobody else's). -/
theorem createOrder_delta_exact {s s' : State} {o : Order} {fee : Option Coin} {id : Nat} (hi : Inv s)
    (h : createOrder s o fee = .ok (s', id)) (a : Addr) (d : Denom) :
    hold s' a d = hold s a d + (if o.owner = a then Spec.orderReserved o d else 0) := by
  rw [(createOrder_inv hi h).2.2 a d, contrib_spec]

/-- Cancelling an order lowers the owner's hold by exactly that order's reserved amount. -/
theorem cancelOrder_delta_exact {s s' : State} {id : Nat} {signer : Addr} (hi : Inv s)
    (h : cancelOrder s id signer = .ok s') :
    ∃ o, getOrder s.orders id = some o ∧ getOrder s'.orders id = getOrder (deleteOrder s.orders id) id ∧
      ∀ a d, hold s' a d = hold s a d - (if o.owner = a then Spec.orderReserved o d else 0) := by
  obtain ⟨o, hg, _, hh⟩ := cancelOrder_inv hi h
  refine ⟨o, hg, ?_, fun a d => by rw [hh a d, contrib_spec]⟩
  unfold cancelOrder at h
  simp only [hg] at h
  split at h
  · simp at h
  · split at h
    · simp at h
    · rename_i s1 hs1
      injection h with h
      obtain ⟨h', e1, _, _⟩ := releaseHoldTx_eq hs1
      rw [← h, e1]

/-- `Order.Split`: the filled part's hold plus the remainder's hold is the original hold
(per denom), for asks (flat fee in or out of the price denom) and bids (any fees). -/
theorem split_hold_additive {o fl left : Order} {f : Int} (h : o.split f = some (fl, left)) (d : Denom) :
    Spec.orderReserved fl d + Spec.orderReserved left d = Spec.orderReserved o d ∧
    fl.owner = o.owner ∧ left.owner = o.owner ∧ left.id = o.id := by
  obtain ⟨_, h2, h3, h4, h5, _⟩ := split_spec h
  have := h5 d
  simp only [holdAmt_spec] at this
  exact ⟨this, h3, h4, h2⟩

/-- Market settlement (`MarketSettle`): the hold of every fully filled order is released in
full, the hold of the filled part of the (at most one) partially filled order is released, and
what is left of that order is written back under the same id with the rest of the hold:
`reserved(left) = reserved(original) − reserved(filled part)`.  Holds for every observed outcome
of the price/fee half of the settlement. -/
theorem settle_delta_exact {s s' : State} {admin : Addr} {m : Nat} {askIds bidIds : List Nat} {ep : Bool}
    {orc : Oracle} (hi : Inv s) (h : settleOrders s admin m askIds bidIds ep orc = .ok s') :
    ∃ plan, settlePlan s admin m askIds bidIds = .ok plan ∧
      (∀ o ∈ plan.full, getOrder s.orders o.id = some o ∧ getOrder s'.orders o.id = none) ∧
      (∀ a d, hold s' a d = hold s a d - reservedOf plan.full a d -
        (match plan.part with
         | some (fl, _) => if fl.owner = a then Spec.orderReserved fl d else 0
         | none => 0)) ∧
      (∀ fl left, plan.part = some (fl, left) → ∃ orig, getOrder s.orders left.id = some orig ∧
        getOrder s'.orders left.id = some left ∧ left.owner = orig.owner ∧
        ∀ d, Spec.orderReserved left d = Spec.orderReserved orig d - Spec.orderReserved fl d) := by
  obtain ⟨plan, hplan, hp, _, hh, hord⟩ := settleOrders_inv hi h
  refine ⟨plan, hplan, ?_, ?_, ?_⟩
  · intro o ho
    refine ⟨hp.found o ho, ?_⟩
    rw [hord]
    apply getOrder_deleteAll_mem _ (List.mem_map.mpr ⟨o, ho, rfl⟩)
    cases hpart : plan.part with
    | none => exact hi.wf.idsNodup
    | some pr =>
      obtain ⟨fl, left⟩ := pr
      obtain ⟨orig, f, hgo, _, _⟩ := hp.part fl left hpart
      simp only
      rw [ids_setOrder_some hgo]
      exact hi.wf.idsNodup
  · intro a d
    rw [hh a d, reservedOf, ← sumOver_orders]
    cases plan.part with
    | none => rfl
    | some pr => simp only [contrib_spec]
  · intro fl left hpart
    obtain ⟨orig, f, hgo, hsp, hnot⟩ := hp.part fl left hpart
    have hlo := (split_hold_additive hsp "").2.2.1
    refine ⟨orig, hgo, ?_, hlo, fun d => by have := (split_hold_additive hsp d).1; omega⟩
    rw [hord, hpart]
    simp only
    rw [getOrder_deleteAll_not_mem _ _ hnot, getOrder_setOrder_self]


/-- `FillBids`: the filled orders are exactly the stored bid orders with the listed ids (in that
order, of that market, none the seller's own); each of them is deleted, every other order is kept;
and every account's hold falls by exactly the reserved amounts of its filled orders (the seller
needed no hold). -/
theorem fillBids_delta_exact {s s' : State} {seller : Addr} {m : Nat} {ids : List Nat} {total : Coins}
    {flat cfee : Option Coin} {orc : Oracle} (hi : Inv s)
    (h : fillBids s seller m ids total flat cfee orc = .ok s') :
    ∃ bids, fillBidsOrders s seller m ids total flat cfee = .ok bids ∧
      bids.map (·.id) = ids ∧
      (∀ o ∈ bids, getOrder s.orders o.id = some o ∧ o.isAsk = false ∧ o.market = m ∧ o.owner ≠ seller ∧
        getOrder s'.orders o.id = none) ∧
      (∀ id, id ∉ ids → getOrder s'.orders id = getOrder s.orders id) ∧
      ∀ a d, hold s' a d = hold s a d - reservedOf bids a d := by
  obtain ⟨bids, hb, _, hh⟩ := fillBids_inv hi h
  have hgo := fillBidsOrders_getOrders hb
  obtain ⟨hids, hfound⟩ := getOrders_spec hgo
  have hside := getOrders_side hgo
  have hcs : closeSettlement s { full := bids, part := none } orc.moves = .ok s' := by
    unfold fillBids at h
    rw [hb] at h
    simp only at h
    split at h
    · simp at h
    · exact h
  obtain ⟨hdel, hkeep⟩ := fill_orders_deleted hi (fillBidsOrders_ok hb) hcs
  refine ⟨bids, hb, hids, fun o ho => ?_, fun id hid => hkeep id (by rw [hids]; exact hid),
    fun a d => by rw [hh a d, reservedOf, ← sumOver_orders]⟩
  obtain ⟨h1, h2, h3⟩ := hside o ho
  exact ⟨hfound o ho, h1, h2, h3, hdel o ho⟩

/-- `FillAsks`: the filled orders are exactly the stored ask orders with the listed ids; each is
deleted, every other order is kept; every account's hold falls by exactly the reserved amounts
of its filled orders. -/
theorem fillAsks_delta_exact {s s' : State} {buyer : Addr} {m : Nat} {ids : List Nat} {total : Coin}
    {fees : Coins} {cfee : Option Coin} {orc : Oracle} (hi : Inv s)
    (h : fillAsks s buyer m ids total fees cfee orc = .ok s') :
    ∃ asks, fillAsksOrders s buyer m ids total fees cfee = .ok asks ∧
      asks.map (·.id) = ids ∧
      (∀ o ∈ asks, getOrder s.orders o.id = some o ∧ o.isAsk = true ∧ o.market = m ∧ o.owner ≠ buyer ∧
        getOrder s'.orders o.id = none) ∧
      (∀ id, id ∉ ids → getOrder s'.orders id = getOrder s.orders id) ∧
      ∀ a d, hold s' a d = hold s a d - reservedOf asks a d := by
  obtain ⟨asks, hb, _, hh⟩ := fillAsks_inv hi h
  have hgo := fillAsksOrders_getOrders hb
  obtain ⟨hids, hfound⟩ := getOrders_spec hgo
  have hside := getOrders_side hgo
  have hcs : closeSettlement s { full := asks, part := none } orc.moves = .ok s' := by
    unfold fillAsks at h
    rw [hb] at h
    simp only at h
    split at h
    · simp at h
    · exact h
  obtain ⟨hdel, hkeep⟩ := fill_orders_deleted hi (fillAsksOrders_ok hb) hcs
  refine ⟨asks, hb, hids, fun o ho => ?_, fun id hid => hkeep id (by rw [hids]; exact hid),
    fun a d => by rw [hh a d, reservedOf, ← sumOver_orders]⟩
  obtain ⟨h1, h2, h3⟩ := hside o ho
  exact ⟨hfound o ho, h1, h2, h3, hdel o ho⟩

/-- `CommitFunds`: the account's hold rises by exactly the committed amount. -/
theorem commit_delta_exact {s s' : State} {m : Nat} {acct : Addr} {amount : Coins} {fee : Option Coin} (hi : Inv s)
    (h : commitFunds s acct m amount fee = .ok s') (a : Addr) (d : Denom) :
    hold s' a d = hold s a d + (if acct = a then Coins.amountOf amount d else 0) :=
  (commitFunds_inv hi h).2 a d

/-- `ReleaseCommitment`: the hold falls by exactly the released amount — the given amount, or
the whole commitment when no amount is given. -/
theorem releaseCommitment_delta_exact {s s' : State} {m : Nat} {acct : Addr} {amount : Coins} (hi : Inv s)
    (h : releaseCommitment s m acct amount = .ok s') (a : Addr) (d : Denom) :
    hold s' a d = hold s a d - (if acct = a then Coins.amountOf (releasedAmount s m acct amount) d else 0) :=
  (releaseCommitment_inv hi h).2 a d

/-- does the entry list of a `MsgMarketReleaseCommitments` ask to release EVERYTHING account `a`
has committed (one of its entries has an empty amount)? -/
def releasesAll (es : List (Addr × Coins)) (a : Addr) : Bool := es.any fun e => e.1 = a && e.2.isEmpty

/-- what the entries release for account `a` in denom `d`, given what `a` has committed to the
market: all of it if one of `a`'s entries has an empty amount, else the sum of the amounts that
`a`'s entries name (`entriesAt`; an account may be named by several entries). -/
def releasedByEntries (committed : Int) (es : List (Addr × Coins)) (a : Addr) (d : Denom) : Int :=
  if releasesAll es a then committed else entriesAt es a d

theorem anyZeroFor_eq_releasesAll {es : List (Addr × Coins)} (hv : ∀ e ∈ es, isValidCoins e.2 = true) (a : Addr) :
    anyZeroFor es a = releasesAll es a := by
  induction es with
  | nil => rfl
  | cons e t ih =>
    have := ih (fun e' he' => hv e' (by simp [he']))
    simp only [anyZeroFor, releasesAll] at this ⊢
    simp only [List.any_cons, this, allZero_eq_isEmpty_of_valid (hv e (by simp))]

/-- **`MarketReleaseCommitments`, the real message** (a LIST of entries, an account may be named
several times, an empty amount = release all).  When the message is accepted: orders and
payments are untouched; every account's hold falls by exactly what its entries release — all it
had committed to the market if one of its entries is a release-all, else the sum of the amounts
its entries name; what stays committed to the market is the rest; commitments to other markets
are untouched. -/
theorem marketReleaseCommitments_delta_exact {s s' : State} {admin : Addr} {m : Nat}
    {entries : List (Addr × Coins)} (hi : Inv s)
    (h : marketReleaseCommitments s admin m entries = .ok s') (a : Addr) (d : Denom) :
    s'.orders = s.orders ∧ s'.payments = s.payments ∧
    hold s' a d = hold s a d
      - releasedByEntries (Coins.amountOf (getCommitment s.commitments m a) d) entries a d ∧
    Coins.amountOf (getCommitment s'.commitments m a) d =
      Coins.amountOf (getCommitment s.commitments m a) d
        - releasedByEntries (Coins.amountOf (getCommitment s.commitments m a) d) entries a d ∧
    (∀ m' a', m' ≠ m → getCommitment s'.commitments m' a' = getCommitment s.commitments m' a') := by
  unfold marketReleaseCommitments at h
  split at h
  · simp at h
  · rename_i hv
    split at h
    · simp at h
    · have hvalid : ∀ e ∈ entries, isValidCoins e.2 = true := by
        simp only [not_or, Bool.not_eq_true', Bool.not_eq_false'] at hv
        have := hv.2.2
        simpa [List.all_eq_true] using this
      obtain ⟨ho, hp⟩ := releaseCommitments_sameOP h
      obtain ⟨h1, h2, h3⟩ := releaseCommitments_delta hi h a d
      simp only [relZ, anyZeroFor_eq_releasesAll hvalid a] at h1 h2
      exact ⟨ho, hp, h1, h2, h3⟩

/-- a release-all entry empties the account's commitment to the market and frees all of it -/
theorem marketReleaseCommitments_release_all {s s' : State} {admin : Addr} {m : Nat}
    {entries : List (Addr × Coins)} (hi : Inv s)
    (h : marketReleaseCommitments s admin m entries = .ok s') {a : Addr} (hall : (a, []) ∈ entries) (d : Denom) :
    Coins.amountOf (getCommitment s'.commitments m a) d = 0 ∧
    hold s' a d = hold s a d - Coins.amountOf (getCommitment s.commitments m a) d := by
  obtain ⟨_, _, h1, h2, _⟩ := marketReleaseCommitments_delta_exact hi h a d
  have hra : releasesAll entries a = true := by
    simp only [releasesAll, List.any_eq_true, Bool.and_eq_true, decide_eq_true_eq]
    exact ⟨(a, []), hall, rfl, rfl⟩
  simp only [releasedByEntries, hra, ↓reduceIte] at h1 h2
  exact ⟨by omega, h1⟩

/-- **`MarketCommitmentSettle`, item by item** (release inputs + fees, transfer, re-commit outputs).
When the message is accepted it touches neither orders nor payments, and every account's hold
changes by exactly what the message names for it: plus what the outputs give it, minus what the
inputs and the fees take from it (`entriesAt`: the sum over the entries naming the account, an
account may be named several times and in several lists) — and that is also the change of what
the account has committed. -/
theorem commitmentSettle_delta_exact {s s' : State} {admin : Addr} {m : Nat} {ins outs fees : List (Addr × Coins)}
    (hi : Inv s) (h : settleCommitments s admin m ins outs fees = .ok s') (a : Addr) (d : Denom) :
    s'.orders = s.orders ∧ s'.payments = s.payments ∧
    hold s' a d - hold s a d = entriesAt outs a d - entriesAt ins a d - entriesAt fees a d ∧
    Spec.sumOver s'.commitments (fun c => if c.account = a then Spec.commitmentReserved c d else 0)
      - Spec.sumOver s.commitments (fun c => if c.account = a then Spec.commitmentReserved c d else 0)
      = entriesAt outs a d - entriesAt ins a d - entriesAt fees a d := by
  obtain ⟨ho, hp⟩ := settleCommitments_sameOP h
  have h1 := (settleCommitments_inv hi h).holdsMatch a d
  have h2 := hi.holdsMatch a d
  have hd := settleCommitments_delta hi h a d
  refine ⟨ho, hp, by omega, ?_⟩
  simp only [obligations, ho, hp] at h1 h2
  rw [← sumOver_commits, ← sumOver_commits]
  omega

/-- `CreatePayment`: the source's hold rises by exactly the source amount (the target amount is
not reserved). -/
theorem createPayment_delta_exact {s s' : State} {p : Payment} (hi : Inv s) (h : createPayment s p = .ok s')
    (a : Addr) (d : Denom) :
    hold s' a d = hold s a d + (if p.source = a then Spec.paymentReserved p d else 0) := by
  rw [(createPayment_inv hi h).2 a d]; rfl

/-- `AcceptPayment`: the stored payment's source amount is released from the source's hold. -/
theorem acceptPayment_delta_exact {s s' : State} {p : Payment} (hi : Inv s) (h : acceptPayment s p = .ok s') :
    ∃ ex, getPayment s.payments p.source p.extId = some ex ∧
      ∀ a d, hold s' a d = hold s a d - (if ex.source = a then Spec.paymentReserved ex d else 0) := by
  obtain ⟨ex, hg, _, hh⟩ := acceptPayment_inv hi h
  exact ⟨ex, hg, fun a d => by rw [hh a d]; rfl⟩

/-- `RejectPayment` -/
theorem rejectPayment_delta_exact {s s' : State} {t src : Addr} {ext : String} (hi : Inv s)
    (h : rejectPayment s t src ext = .ok s') :
    ∃ ex, getPayment s.payments src ext = some ex ∧
      ∀ a d, hold s' a d = hold s a d - (if ex.source = a then Spec.paymentReserved ex d else 0) := by
  obtain ⟨ex, hg, _, hh⟩ := rejectPayment_inv hi h
  exact ⟨ex, hg, fun a d => by rw [hh a d]; rfl⟩

/-- `RejectPayments`: exactly the payments, to the target, of the accounts the source list names —
each payment's reserved amount once, however often an account is listed and however the
message spells it (lower or upper case bech32, adjacent or not). -/
theorem rejectPayments_delta_exact {s s' : State} {t : Addr} {srcs : List Spelled} (hi : Inv s)
    (h : rejectPayments s t srcs = .ok s') (a : Addr) (d : Denom) :
    hold s' a d = hold s a d -
      sourceAmountsOf (s.payments.filter fun p => p.target = t ∧ (srcs.map (·.acct)).contains p.source) a d := by
  rw [(rejectPayments_inv hi h).2 a d, sourceAmountsOf, ← sumOver_pays]

/-- The loop of `RejectPayments` never collects a payment twice (so no hold is released twice),
whatever the list of parsed sources looks like. -/
theorem rejectPayments_each_payment_once {s : State} {t : Addr} {srcs : List Addr} {l : List Payment} (hi : Inv s)
    (h : collectRejected s.payments t srcs [] = some l) :
    (l.map payKey).Nodup ∧ ∀ p ∈ l, getPayment s.payments p.source p.extId = some p :=
  have hs := collectRejected_spec hi.wf.keys h
  ⟨hs.2.1, fun p hp => getPayment_of_mem_nodup hi.wf.keys (hs.1 p hp).1⟩

/-- Two accepted source lists that name the same accounts (in any order, multiplicity and
spelling) change every hold in the same way. -/
theorem rejectPayments_spelling_irrelevant {s s₁ s₂ : State} {t : Addr} {srcs₁ srcs₂ : List Spelled} (hi : Inv s)
    (h₁ : rejectPayments s t srcs₁ = .ok s₁) (h₂ : rejectPayments s t srcs₂ = .ok s₂)
    (hsame : ∀ a, a ∈ srcs₁.map (·.acct) ↔ a ∈ srcs₂.map (·.acct)) (a : Addr) (d : Denom) :
    hold s₁ a d = hold s₂ a d := by
  rw [rejectPayments_delta_exact hi h₁, rejectPayments_delta_exact hi h₂]
  congr 2
  apply List.filter_congr
  intro p _
  have := hsame p.source
  by_cases h1 : p.source ∈ srcs₁.map (·.acct)
  · have h2 := this.mp h1
    simp only [List.contains_eq_mem, h1, h2]
  · have h2 : ¬ p.source ∈ srcs₂.map (·.acct) := fun hc => h1 (this.mpr hc)
    simp only [List.contains_eq_mem, h1, h2]

/-- `CancelPayments`: the cancelled payments are exactly the stored payments of the source with
the listed external ids (one per id, in that order); each of them is removed, every other payment
is kept, orders and commitments are untouched; and every account's hold falls by exactly the
source amounts of its cancelled payments. -/
theorem cancelPayments_delta_exact {s s' : State} {src : Addr} {exts : List String} (hi : Inv s)
    (h : cancelPayments s src exts = .ok s') :
    ∃ found, lookupPayments s.payments src exts = some found ∧
      found.map payKey = exts.map (fun e => (src, e)) ∧
      (∀ p ∈ found, getPayment s.payments p.source p.extId = some p ∧ p.source = src ∧
        getPayment s'.payments p.source p.extId = none) ∧
      (∀ src' ext, ¬ (src' = src ∧ ext ∈ exts) → getPayment s'.payments src' ext = getPayment s.payments src' ext) ∧
      s'.orders = s.orders ∧ s'.commitments = s.commitments ∧
      ∀ a d, hold s' a d = hold s a d - sourceAmountsOf found a d := by
  obtain ⟨found, hf, _, hh⟩ := cancelPayments_inv hi h
  obtain ⟨hk, hg⟩ := lookupPayments_spec hf
  have hnd : exts.Nodup := by
    unfold cancelPayments at h
    split at h
    · simp at h
    · rename_i hv
      simp only [not_or, Bool.not_eq_true', Bool.not_eq_false'] at hv
      simpa using hv.2
  have hdr : deletePaymentsAndReleaseHolds s found = some s' := by
    unfold cancelPayments at h
    split at h
    · simp at h
    · rw [hf] at h
      simp only at h
      split at h
      · simp at h
      · rename_i s1 hs1
        injection h with h; subst h; exact hs1
  have hkn : (found.map payKey).Nodup := by rw [hk]; exact nodup_map_pair src hnd
  obtain ⟨hgone, hkeep, ho, hc⟩ := deletePaymentsAndReleaseHolds_records hi hkn hg hdr
  refine ⟨found, hf, hk, fun p hp => ⟨hg p hp, ?_, hgone p hp⟩, fun src' ext hne => ?_, ho, hc,
    fun a d => by rw [hh a d, sourceAmountsOf, ← sumOver_pays]⟩
  · have : payKey p ∈ exts.map (fun e => (src, e)) := by rw [← hk]; exact List.mem_map.mpr ⟨p, hp, rfl⟩
    obtain ⟨e, _, he⟩ := List.mem_map.mp this
    simp only [payKey, Prod.mk.injEq] at he
    exact he.1.symm
  · apply hkeep
    rw [hk]
    intro hm
    obtain ⟨e, he, heq⟩ := List.mem_map.mp hm
    simp only [Prod.mk.injEq] at heq
    exact hne ⟨heq.1.symm, by rw [← heq.2]; exact he⟩

/-- retargeting a payment, a bank send, and a change of a market's fees or switches do not
touch any hold -/
theorem no_hold_change {s : State} (hi : Inv s) (a : Addr) (d : Denom) :
    (∀ src ext nt s', updatePaymentTarget s src ext nt = .ok s' → hold s' a d = hold s a d) ∧
    (∀ f t coins s', bankSend s f t coins = .ok s' → hold s' a d = hold s a d) ∧
    (∀ mk, hold (setMarket s mk) a d = hold s a d) :=
  ⟨fun _ _ _ _ h => (updatePaymentTarget_inv hi h).2 a d, fun _ _ _ _ h => (bankSend_inv hi h).2 a d, fun _ => rfl⟩

/-- **Funds on hold cannot be delegated** ("... and never exceeds the account's balance", for the
one bank outflow that is not a send: staking `MsgDelegate` → bank `DelegateCoins`). An accepted
delegation took no more than the balance minus the hold, touched no hold, and leaves every hold
covered by its balance; a delegation of more than the un-held balance is refused. -/
theorem delegate_respects_hold {s : State} (hi : Inv s) (f : Addr) (coin : Coin) :
    (∀ s', stakeDelegate s f coin = .ok s' →
      coin.2 ≤ bal s f coin.1 - hold s f coin.1 ∧ (∀ a d, hold s' a d = hold s a d) ∧
      (∀ a d, hold s' a d ≤ bal s' a d)) ∧
    (bal s f coin.1 - hold s f coin.1 < coin.2 → ∃ e, stakeDelegate s f coin = .error e) := by
  constructor
  · intro s' h
    have hinv := stakeDelegate_inv hi h
    refine ⟨?_, hinv.2, hinv.1.covered⟩
    unfold stakeDelegate at h
    split at h
    · simp at h
    · split at h
      · simp at h
      · split at h
        · simp at h
        · rename_i s1 hs1
          unfold delegateCoins at hs1
          split at hs1
          · simp at hs1
          · split at hs1
            · rename_i hc
              simp only [canSpend, spendable, List.all_cons, List.all_nil, Bool.and_true] at hc
              exact of_decide_eq_true hc
            · simp at hs1
  · intro hlt
    unfold stakeDelegate
    split
    · exact ⟨_, rfl⟩
    · split
      · exact ⟨_, rfl⟩
      · have hn : delegateCoins s f bondedPool [coin] = none := by
          unfold delegateCoins
          split
          · rfl
          · have hc : canSpend s f [coin] = false := by
              simp only [canSpend, spendable, List.all_cons, List.all_nil, Bool.and_true]
              exact decide_eq_false (by omega)
            simp [hc]
        rw [hn]
        exact ⟨_, rfl⟩

/-- 10fig, 8 of them on hold: delegating 3 is refused (`funds`), delegating 2 is accepted. -/
example : errOf (stakeDelegate { bank := [⟨"A", "fig", 10⟩], hold := [⟨"A", "fig", 8⟩] } "A" ("fig", 3)) = some .funds ∧
    errOf (stakeDelegate { bank := [⟨"A", "fig", 10⟩], hold := [⟨"A", "fig", 8⟩] } "A" ("fig", 2)) = none := by decide

/-! ### "no less": a release never finds the hold short -/

/-- Under the invariant the owner can always cancel: `ReleaseHold` cannot fail. -/
theorem cancel_by_owner_never_fails {s : State} {id : Nat} {o : Order} (hi : Inv s)
    (hg : getOrder s.orders id = some o) : ∃ s', cancelOrder s id o.owner = .ok s' :=
  cancelOrder_by_owner_succeeds hi hg

/-- `CloseMarket` drops the errors of its `CancelOrder` / `ReleaseCommitment` calls; under the
invariant there is never one to drop: every release of a stored order's or commitment's amount
succeeds in full. -/
theorem closeMarket_never_swallows_an_error {s : State} (hi : Inv s) :
    (∀ id o, getOrder s.orders id = some o → (releaseHold s o.owner (holdAmt o)).2 = true) ∧
    (∀ m a, (releaseHold s a (getCommitment s.commitments m a)).2 = true) := by
  constructor
  · intro id o hg
    exact releaseHold_never_fails s o.owner (holdAmt o)
      (holdAmt_entriesNonneg (hi.wf.orders o (getOrder_mem hg)))
      (fun e => by
        rw [hi.holdsMatch o.owner e]
        have h1 := contrib_le_ordersObl hi.wf.orders hg o.owner e
        have h2 := commitsObl_nonneg hi.wf.commits o.owner e
        have h3 := paysObl_nonneg hi.wf.paysNonneg o.owner e
        simp only [contrib, ↓reduceIte] at h1
        simp only [obligations]; omega)
  · intro m a
    exact releaseHold_never_fails s a _ (getCommitment_nonneg hi.wf.commits m a)
      (fun e => by
        rw [hi.holdsMatch a e]
        have h1 := commit_le_commitsObl hi.wf.commits m a e
        have h2 := ordersObl_nonneg hi.wf.orders a e
        have h3 := paysObl_nonneg hi.wf.paysNonneg a e
        simp only [obligations]; omega)

/-- **Market closure, exactly.** `CloseMarket` removes precisely the orders of that market and
empties precisely its commitments; every account's hold falls by exactly the reserved amounts of
its orders in that market plus its commitments to that market; everything else stays. -/
theorem closeMarket_delta_exact {s : State} (hi : Inv s) (m : Nat) :
    (∀ o, o ∈ (closeMarket s m).orders ↔ o ∈ s.orders ∧ o.market ≠ m) ∧
    (∀ c ∈ (closeMarket s m).commitments, c.market = m → allZero c.amount = true) ∧
    (∀ m' a', m' ≠ m → getCommitment (closeMarket s m).commitments m' a' = getCommitment s.commitments m' a') ∧
    (∀ a d, hold (closeMarket s m) a d = hold s a d
        - reservedOf (s.orders.filter (·.market = m)) a d
        - Spec.sumOver (s.commitments.filter (·.market = m))
            (fun c => if c.account = a then Spec.commitmentReserved c d else 0)) := by
  -- the switches first (records untouched)
  have hs1 : ∃ s1 : State, Inv s1 ∧ s1.orders = s.orders ∧ s1.commitments = s.commitments ∧
      (∀ a d, hold s1 a d = hold s a d) ∧
      closeMarket s m = releaseAllCommitmentsForMarket (cancelAllOrdersForMarket s1 m) m := by
    unfold closeMarket
    cases getMarket s m with
    | none => exact ⟨s, hi, rfl, rfl, fun _ _ => rfl, rfl⟩
    | some mk =>
      exact ⟨setMarket s { mk with acceptingOrders := false, acceptingCommitments := false },
        hi.of_markets _, rfl, rfl, fun _ _ => rfl, rfl⟩
  obtain ⟨s1, hi1, ho1, hc1, hh1, hcm⟩ := hs1
  rw [hcm]
  unfold cancelAllOrdersForMarket releaseAllCommitmentsForMarket
  -- cancel every order of the market
  have hsubO : (s1.orders.filter (·.market = m)).Sublist s1.orders := List.filter_sublist
  obtain ⟨hi2, ho2, hc2, hh2⟩ := foldl_cancel_spec hi1 (s1.orders.filter (·.market = m))
    (hi1.wf.idsNodup.sublist (hsubO.map _))
    (fun o ho => getOrder_of_mem_nodup hi1.wf.idsNodup (hsubO.subset ho))
  generalize ((s1.orders.filter (·.market = m)).map (·.id)).foldl cancelOrderNoTx s1 = s2 at hi2 ho2 hc2 hh2
  -- release every commitment to the market
  have hsubC : (s2.commitments.filter (·.market = m)).Sublist s2.commitments := List.filter_sublist
  have hmk : ∀ c ∈ s2.commitments.filter (·.market = m), c.market = m := fun c hc => by
    simpa using (List.mem_filter.mp hc).2
  obtain ⟨hi3, ho3, hsub3, hkey3, hoth3, hh3⟩ := foldl_release_spec hi2 m (s2.commitments.filter (·.market = m))
    (accounts_nodup_of_keys (hi2.wf.ckeys.sublist (hsubC.map _)) hmk)
    (fun c hc => by
      have := getCommitment_of_mem_nodup hi2.wf.ckeys (hsubC.subset hc)
      rw [hmk c hc] at this; exact this)
  generalize ((s2.commitments.filter (·.market = m)).map (·.account)).foldl
    (fun st a => releaseCommitmentNoTx st m a) s2 = s3 at hi3 ho3 hsub3 hkey3 hoth3 hh3
  refine ⟨?_, ?_, ?_, ?_⟩
  · intro o
    rw [ho3, ho2, ho1]
    constructor
    · intro hmem
      have hin : o ∈ s.orders := (deleteAll_sublist _ _).subset hmem
      refine ⟨hin, fun hmo => ?_⟩
      have hnd : ((deleteAll s.orders ((s.orders.filter (·.market = m)).map (·.id))).map (·.id)).Nodup :=
        hi.wf.idsNodup.sublist ((deleteAll_sublist _ _).map _)
      have h1 := getOrder_of_mem_nodup hnd hmem
      have h2 := getOrder_deleteAll_mem hi.wf.idsNodup
        (ids := (s.orders.filter (·.market = m)).map (·.id)) (id := o.id)
        (List.mem_map.mpr ⟨o, List.mem_filter.mpr ⟨hin, by simpa using hmo⟩, rfl⟩)
      rw [h2] at h1; simp at h1
    · rintro ⟨hin, hmo⟩
      have hnot : o.id ∉ (s.orders.filter (·.market = m)).map (·.id) := by
        intro hm
        obtain ⟨o', ho', hid⟩ := List.mem_map.mp hm
        have hf := List.mem_filter.mp ho'
        have h1 := getOrder_of_mem_nodup hi.wf.idsNodup hf.1
        have h2 := getOrder_of_mem_nodup hi.wf.idsNodup hin
        rw [hid, h2] at h1
        injection h1 with h1
        subst h1
        exact hmo (by simpa using hf.2)
      have := getOrder_deleteAll_not_mem s.orders _ hnot
      rw [getOrder_of_mem_nodup hi.wf.idsNodup hin] at this
      exact getOrder_mem this
  · intro c hc hcm'
    cases hz : allZero c.amount with
    | true => rfl
    | false =>
      exfalso
      have hin2 : c ∈ s2.commitments := hsub3.subset hc
      have := hkey3 c (List.mem_filter.mpr ⟨hin2, by simpa using hcm'⟩) hz
      apply this
      exact List.mem_map.mpr ⟨c, hc, by simp [commitKey, hcm']⟩
  · intro m' a' hne
    rw [hoth3 m' a' hne, hc2, hc1]
  · intro a d
    rw [hh3, hh2, hh1, hc2, hc1, ho1, reservedOf, ← sumOver_orders, ← sumOver_commits]

/-- order ids stay distinct and never exceed the last assigned id -/
theorem order_ids_distinct (ops : List Op) (hg : ∀ op ∈ ops, isGenesis op = false) :
    ((run {} ops).orders.map (·.id)).Nodup ∧ ∀ o ∈ (run {} ops).orders, o.id ≤ (run {} ops).lastOrderId :=
  let hi := run_preserves_inv ops {} hg inv_empty
  ⟨hi.wf.idsNodup, hi.wf.ids⟩

/-! ### genesis -/

/-- `InitGenesis` accepts (does not panic) only when every account's hold COVERS what its
records need, for every (account, denom) a record mentions. -/
theorem initGenesis_accepts_covering {s s' : State} {g : Genesis} (h : initGenesis s g = .ok s') :
    ∀ k ∈ recordKeys s', obligations s' k.1 k.2 ≤ hold s' k.1 k.2 := by
  unfold initGenesis at h
  simp only at h
  split at h
  · simp at h
  · split at h
    · simp at h
    · split at h
      · simp at h
      · split at h
        · rename_i hall
          injection h with h
          subst h
          simpa using hall
        · simp at h

/-- the state `InitGenesis` writes when it accepts: the records of the genesis file (orders by
id, commitments accumulated per (market, account), the payments) and the hold module's holds -/
def genesisLoaded (s : State) (g : Genesis) (ps : List Payment) : State :=
  { s with orders := g.orders.foldl setOrder [], lastOrderId := g.lastOrderId,
           commitments := loadCommitments g.commitments [], payments := ps,
           hold := genesisHoldLedger g.holds }

/-- **`InitGenesis`, both directions.**  It accepts (does not panic) exactly the geneses that are
valid (`GenesisState.Validate`), whose last order id is not below an order's id, whose payments
have distinct (source, external id) — and whose holds COVER what the records need, for every
(account, denom) a record mentions; and then it writes exactly `genesisLoaded`. -/
theorem initGenesis_accepts_iff {s s' : State} {g : Genesis} :
    initGenesis s g = .ok s' ↔
      g.validate = true ∧ g.orders.foldl (fun m o => max m o.id) 0 ≤ g.lastOrderId ∧
      ∃ ps, loadPayments g.payments [] = some ps ∧ s' = genesisLoaded s g ps ∧
        ∀ k ∈ recordKeys s', obligations s' k.1 k.2 ≤ hold s' k.1 k.2 := by
  constructor
  · intro h
    unfold initGenesis at h
    simp only at h
    split at h
    · simp at h
    · rename_i hv
      split at h
      · simp at h
      · rename_i hid
        split at h
        · simp at h
        · rename_i ps hps
          split at h
          · rename_i hall
            injection h with h
            subst h
            exact ⟨by simpa using hv, by omega, ps, hps, rfl, by simpa using hall⟩
          · simp at h
  · rintro ⟨hv, hid, ps, hps, rfl, hcov⟩
    have hid' : ¬ g.lastOrderId < g.orders.foldl (fun m o => max m o.id) 0 := by omega
    have hall : ((recordKeys (genesisLoaded s g ps)).all fun k =>
        decide (obligations (genesisLoaded s g ps) k.1 k.2 ≤ hold (genesisLoaded s g ps) k.1 k.2)) = true := by
      simpa using hcov
    unfold initGenesis
    simp only [hv, Bool.not_true, Bool.false_eq_true, ↓reduceIte, hid', hps]
    unfold genesisLoaded at hall
    rw [if_pos hall]
    rfl

/-- **"Accepts exactly covering holds."**  For a genesis whose hold entries are non-negative (the
hold module's own genesis validation), `InitGenesis` accepts if and only if the genesis is valid
and, for EVERY account and denom, the hold is at least what the account's genesis orders,
commitments and payments require. -/
theorem initGenesis_accepts_iff_covering {s : State} {g : Genesis} (hh : ∀ e ∈ g.holds, EntriesNonneg e.2) :
    (∃ s', initGenesis s g = .ok s') ↔
      g.validate = true ∧ g.orders.foldl (fun m o => max m o.id) 0 ≤ g.lastOrderId ∧
      ∃ ps, loadPayments g.payments [] = some ps ∧
        ∀ a d, obligations (genesisLoaded s g ps) a d ≤ hold (genesisLoaded s g ps) a d := by
  constructor
  · rintro ⟨s', h⟩
    obtain ⟨hv, hid, ps, hps, rfl, hcov⟩ := initGenesis_accepts_iff.mp h
    refine ⟨hv, hid, ps, hps, fun a d => ?_⟩
    by_cases hk : (a, d) ∈ recordKeys (genesisLoaded s g ps)
    · exact hcov (a, d) hk
    · rw [obligations_zero_off_keys hk]
      exact genesisHold_nonneg hh a d
  · rintro ⟨hv, hid, ps, hps, hcov⟩
    exact ⟨_, initGenesis_accepts_iff.mpr ⟨hv, hid, ps, hps, rfl, fun k _ => hcov k.1 k.2⟩⟩

/-- **The property's starting point.** A genesis that `InitGenesis` accepts and whose holds
match its exchange records (and do not exceed balances — the hold module's own genesis check)
satisfies the invariant; the records' well-formedness follows from `GenesisState.Validate`. -/
theorem matching_genesis_inv {s s₀ : State} {g : Genesis} (h : initGenesis s g = .ok s₀)
    (hmatch : Spec.HoldsMatch s₀) (hcov : Spec.HoldsCovered s₀) : Inv s₀ :=
  ⟨fun a d => by rw [obligations_spec]; exact hmatch a d, hcov, initGenesis_wf h⟩

/-- **Main theorem, from genesis.** Starting from a genesis whose holds match its exchange
records, after any sequence of operations the holds equal the open obligations and never
exceed the balances. -/
theorem from_matching_genesis {s s₀ : State} {g : Genesis} (ops : List Op) (h : initGenesis s g = .ok s₀)
    (hmatch : Spec.HoldsMatch s₀) (hcov : Spec.HoldsCovered s₀) (hg : ∀ op ∈ ops, isGenesis op = false) :
    Spec.HoldsMatch (run s₀ ops) ∧ Spec.HoldsCovered (run s₀ ops) :=
  holds_always_match s₀ ops hg (matching_genesis_inv h hmatch hcov)

def excessGenesis : Genesis :=
  { orders := [⟨1, 1, "A", true, ("apple", 10), ("usd", 20), [], true⟩], lastOrderId := 1,
    commitments := [], payments := [], holds := [("A", [("apple", 11)])] }

/-- The genesis check is coverage only: a genesis holding MORE than its records need is accepted,
and then hold ≠ obligations — so the premise "holds match" cannot be weakened to "accepted". -/
theorem genesis_excess_hold_accepted :
    ∃ s', initGenesis {} excessGenesis = .ok s' ∧ hold s' "A" "apple" = 11 ∧ obligations s' "A" "apple" = 10 := by
  refine ⟨_, rfl, ?_, ?_⟩ <;> decide

/-! ### non-vacuity -/

def exMarket : Market := { id := 1, sellerFlat := [("fig", 3), ("usd", 2)] }
def exAsk : Order := ⟨0, 1, "A", true, ("apple", 10), ("usd", 20), [("fig", 3)], true⟩
def exBid : Order := ⟨0, 1, "B", false, ("apple", 4), ("usd", 8), [], true⟩

/-- a short history: two orders, a partial settlement (the ask is filled 4 of 10: not evenly
divisible fee → rejected), then a commitment and a payment -/
def exOps : List Op :=
  [.setMarket exMarket, .fund "A" [("apple", 100), ("fig", 10)], .fund "B" [("usd", 100)],
   .createOrder exAsk none, .createOrder exBid none,
   .commit "B" 1 [("usd", 5)] none,
   .pay ⟨"A", "x1", "B", [("apple", 7)], []⟩]

example : hold (run {} exOps) "A" "apple" = 17 ∧ hold (run {} exOps) "A" "fig" = 3 ∧
    hold (run {} exOps) "B" "usd" = 13 := by decide

example : Spec.HoldsMatch (run {} exOps) := (reachable_holds_match exOps (by decide)).1

/-- a split that succeeds: 5 of 10 apples, fee 4fig → 2fig + 2fig -/
example : ∃ fl left, (⟨7, 1, "A", true, ("apple", 10), ("usd", 20), [("fig", 4)], true⟩ : Order).split 5 = some (fl, left) ∧
    holdAmt fl = [("apple", 5), ("fig", 2)] ∧ holdAmt left = [("apple", 5), ("fig", 2)] := by
  refine ⟨_, _, rfl, ?_, ?_⟩ <;> decide

/-- non-trivial instance of `rejectPayments_delta_exact` / `rejectPayments_each_payment_once`: A is
listed twice, not adjacent, the second time in upper case; A's payment to T is released once and
A's payment to another target stays reserved. -/
def exPays : List Op :=
  [.fund "A" [("usd", 100)], .fund "B" [("usd", 100)],
   .pay ⟨"A", "x1", "T", [("usd", 10)], []⟩, .pay ⟨"A", "x2", "U", [("usd", 10)], []⟩,
   .pay ⟨"B", "x1", "T", [("usd", 5)], []⟩,
   .rejectAll "T" [⟨"A", .lower⟩, ⟨"B", .lower⟩, ⟨"A", .upper⟩]]

example : hold (run {} exPays) "A" "usd" = 10 ∧ hold (run {} exPays) "B" "usd" = 0 ∧
    (run {} exPays).payments.length = 1 := by decide

example : (applyOp (run {} (exPays.take 5)) (.rejectAll "T" [⟨"A", .lower⟩, ⟨"A", .lower⟩])).2 = "err:invalid" ∧
    (applyOp (run {} (exPays.take 5)) (.rejectAll "T" [⟨"A", .lower⟩, ⟨"B", .mixed⟩])).2 = "err:invalid" ∧
    (applyOp (run {} (exPays.take 5)) (.rejectAll "T" [⟨"A", .lower⟩, ⟨"C", .lower⟩])).2 = "err:notfound" := by decide


/-! ### non-vacuity of the round-3 theorems -/

/-- two accounts commit to market 1 -/
def exCommitOps : List Op :=
  [.setMarket { id := 1 }, .fund "A" [("fig", 10), ("usd", 100)], .fund "B" [("usd", 50)], .fund "C" [("usd", 5)],
   .commit "A" 1 [("fig", 5), ("usd", 20)] none, .commit "B" 1 [("usd", 7)] none]

example : Inv (run {} exCommitOps) := run_preserves_inv exCommitOps {} (by decide) inv_empty

/-- `marketReleaseCommitments_delta_exact`, hypotheses met by a message that names A three times
(3usd, then 4usd, then release-all) and B once (release-all): accepted; A's hold falls by all it
had committed (20usd, 5fig), B's by 7usd. -/
example : ∃ s', marketReleaseCommitments (run {} exCommitOps) "ADM" 1
      [("A", [("usd", 3)]), ("B", []), ("A", [("usd", 4)]), ("A", [])] = .ok s' ∧
    hold (run {} exCommitOps) "A" "usd" = 20 ∧ hold s' "A" "usd" = 0 ∧ hold s' "A" "fig" = 0 ∧ hold s' "B" "usd" = 0 := by
  refine ⟨_, rfl, ?_, ?_, ?_, ?_⟩ <;> decide

/-- without a release-all the amounts named add up: 3usd + 4usd of A's 20usd -/
example : ∃ s', marketReleaseCommitments (run {} exCommitOps) "ADM" 1
      [("A", [("usd", 3)]), ("A", [("usd", 4)])] = .ok s' ∧
    hold s' "A" "usd" = 13 ∧ hold s' "A" "fig" = 5 ∧ getCommitment s'.commitments 1 "A" = [("fig", 5), ("usd", 13)] := by
  refine ⟨_, rfl, ?_, ?_, ?_⟩ <;> decide

/-- an entry after a release-all of the same account is refused (nothing is committed any more) -/
example : refusal (run {} exCommitOps) (.release "ADM" 1 [("A", []), ("A", [("usd", 1)])]) = some .commitx := by decide

/-- `commitmentSettle_delta_exact`, hypotheses met: A pays 10usd to C and 2usd of fees, named by
two input entries; accepted; A's hold falls by 12usd, C's rises by 10usd. -/
example : ∃ s', settleCommitments (run {} exCommitOps) "ADM" 1
      [("A", [("usd", 4)]), ("A", [("usd", 6)])] [("C", [("usd", 10)])] [("A", [("usd", 2)])] = .ok s' ∧
    hold s' "A" "usd" = 8 ∧ hold s' "C" "usd" = 10 ∧ hold s' "B" "usd" = 7 ∧ bal s' "mkt1" "usd" = 2 := by
  refine ⟨_, rfl, ?_, ?_, ?_, ?_⟩ <;> decide

/-- `fillBids_delta_exact`, hypotheses met: B's bid (4 apples for 8usd) is filled by A -/
def exFillOps : List Op :=
  [.setMarket { id := 1 }, .fund "A" [("apple", 100)], .fund "B" [("usd", 100)],
   .createOrder ⟨0, 1, "B", false, ("apple", 4), ("usd", 8), [], false⟩ none,
   .createOrder ⟨0, 1, "A", true, ("apple", 10), ("usd", 30), [], false⟩ none]

example : ∃ s', fillBids (run {} exFillOps) "A" 1 [1] [("apple", 4)] none none
      ⟨"ok", [("A", [("apple", -4), ("usd", 8)]), ("B", [("apple", 4), ("usd", -8)])]⟩ = .ok s' ∧
    hold (run {} exFillOps) "B" "usd" = 8 ∧ hold s' "B" "usd" = 0 ∧ hold s' "A" "apple" = 10 ∧
    getOrder s'.orders 1 = none ∧ (getOrder s'.orders 2).isSome = true := by
  refine ⟨_, rfl, ?_, ?_, ?_, ?_, ?_⟩ <;> decide

/-- `fillAsks_delta_exact`, hypotheses met: A's ask (10 apples for 30usd) is filled by B -/
example : ∃ s', fillAsks (run {} exFillOps) "B" 1 [2] ("usd", 30) [] none
      ⟨"ok", [("A", [("apple", -10), ("usd", 30)]), ("B", [("apple", 10), ("usd", -30)])]⟩ = .ok s' ∧
    hold s' "A" "apple" = 0 ∧ hold s' "B" "usd" = 8 ∧ getOrder s'.orders 2 = none := by
  refine ⟨_, rfl, ?_, ?_, ?_⟩ <;> decide

/-- `cancelPayments_delta_exact`, hypotheses met: A cancels two of its three payments -/
def exCancelOps : List Op :=
  [.fund "A" [("usd", 100)], .pay ⟨"A", "x1", "T", [("usd", 10)], []⟩, .pay ⟨"A", "x2", "U", [("usd", 20)], []⟩,
   .pay ⟨"A", "x3", "", [("usd", 30)], []⟩]

example : ∃ s', cancelPayments (run {} exCancelOps) "A" ["x3", "x1"] = .ok s' ∧
    hold (run {} exCancelOps) "A" "usd" = 60 ∧ hold s' "A" "usd" = 20 ∧ s'.payments.length = 1 := by
  refine ⟨_, rfl, ?_, ?_, ?_⟩ <;> decide

/-- `refused_changes_nothing`, hypothesis met: cancelling an unknown order, an under-funded
commitment, a release by a non-admin are refused -/
example : refusal (run {} exFillOps) (.cancel 99 "A") = some .notfound ∧
    refusal (run {} exCommitOps) (.commit "C" 1 [("usd", 6)] none) = some .funds ∧
    refusal (run {} exCommitOps) (.release "A" 1 [("A", [])]) = some .perm ∧
    refusal (run {} exCommitOps) (.commit "C" 1 [("usd", 5)] none) = none := by decide

/-- `initGenesis_accepts_iff_covering`: `excessGenesis` (hold 11 ≥ 10 needed) has non-negative
holds and is accepted; the same records with a hold of 9 are refused. -/
example : (∀ e ∈ excessGenesis.holds, EntriesNonneg e.2) ∧ refusal {} (.genesis excessGenesis) = none ∧
    refusal {} (.genesis { excessGenesis with holds := [("A", [("apple", 9)])] }) = some .genesis := by
  refine ⟨?_, by decide, by decide⟩
  intro e he c hc
  simp only [excessGenesis, List.mem_singleton] at he
  subst he
  simp only [List.mem_singleton] at hc
  subst hc
  decide

end PvProofs.C02
