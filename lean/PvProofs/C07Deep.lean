/-
C07 — deepening round (targets of the audit): exact effect of `qadd` and of EVERY operation,
"paid exactly once" per receiver over histories, the context bypass as the only route to an
unaccepted credit, soundness of the driver's `simplify_*` / `chain_invariant_wrong` clauses.

Same conventions as `PvProofs/C07.lean` (all statements for ALL states satisfying the store
invariant / ALL operation lists); helper lemmas are in `PvProofs/Lemmas/QuarExact.lean`.
-/
import PvProofs.C07
import PvProofs.Lemmas.QuarExact

namespace PvProofs.C07
open PvModel PvModel.Quar PvProofs.QuarL

/-! ### 9. `qadd` (AddQuarantinedCoins for a sender SET + the transfer to the holder) -/

/-- **Exact effect of `qadd`** — the only way a multi-sender record arises or is topped up.
Balances: payer −amt, holder +amt, nobody else; the record under `(to, suffix froms)` gains exactly
`amt` and every other key keeps its record unchanged; the record written is the existing one with
the coins added, or — when there was none — a NEW record whose senders are split by the receiver's
auto-accept settings (`isAutoAccept`), in both cases marked declined iff some sender is on
auto-decline; no setting changes and nothing is released. -/
theorem qadd_exact {s s' : State} {to : Addr} {froms : List Addr} {amt : Coins} {payer : Addr} {rel : Coins}
    (inv : StoreInv s) (h : exec s (.qadd to froms amt payer) = .ok (s', rel)) :
    (∀ a d, Ledger.bal s'.bank a d = Ledger.bal s.bank a d
        - (if payer = a then Coins.amountOf amt d else 0) + (if s.holder = a then Coins.amountOf amt d else 0)) ∧
    (∀ d, Coins.amountOf (coinsAt s' to (createRecordSuffix froms)) d
        = Coins.amountOf (coinsAt s to (createRecordSuffix froms)) d + Coins.amountOf amt d) ∧
    (∀ k, k ≠ (to, createRecordSuffix froms) → kvGet s'.recs k = kvGet s.recs k) ∧
    kvGet s'.recs (to, createRecordSuffix froms) = some
      (match kvGet s.recs (to, createRecordSuffix froms) with
       | some r => { r with coins := Coins.add r.coins amt, declined := isAutoDecline s to froms }
       | none => { unacc := froms.filter (fun f => !isAutoAccept s to [f]),
                   acc := froms.filter (fun f => isAutoAccept s to [f]),
                   coins := amt, declined := isAutoDecline s to froms }) ∧
    s'.optin = s.optin ∧ s'.auto = s.auto ∧ rel = [] := by
  obtain ⟨Q, _, hrel⟩ := qadd_facts inv h
  refine ⟨fun a d => ?_, Q.at_key, Q.other, ?_, Q.rest.optin, Q.rest.auto, hrel⟩
  · rw [Q.bank]; exact Ledger.bal_move _ _ _ _ _ _
  · rw [Q.written]
    show some ({ toppedUpOrNew { s with bank := _ } amt to froms with declined := isAutoDecline s to froms } : Record) = _
    unfold toppedUpOrNew getQuarantineRecord
    cases hg : kvGet s.recs (to, createRecordSuffix froms) with
    | some r => rfl
    | none => rfl

/-- **A multi-sender record is topped up by repeated `qadd`s**: two successful `qadd`s for the same
receiver and sender set (in any order of the senders) leave under that key the sum of what was
there and both amounts. -/
theorem qadd_tops_up {s s1 s2 : State} {to : Addr} {froms froms' : List Addr} {a1 a2 : Coins} {p1 p2 : Addr}
    {r1 r2 : Coins} (inv : StoreInv s) (hperm : froms'.Perm froms)
    (h1 : exec s (.qadd to froms a1 p1) = .ok (s1, r1)) (h2 : exec s1 (.qadd to froms' a2 p2) = .ok (s2, r2)) (d : Denom) :
    Coins.amountOf (coinsAt s2 to (createRecordSuffix froms)) d
      = Coins.amountOf (coinsAt s to (createRecordSuffix froms)) d + Coins.amountOf a1 d + Coins.amountOf a2 d := by
  have inv1 := (exec_ok inv h1).inv
  have e1 := (qadd_exact inv h1).2.1 d
  have e2 := (qadd_exact inv1 h2).2.1 d
  rw [createRecordSuffix_perm hperm] at e2
  omega

/-! ### 10. EVERY operation has an exact effect -/

/-- **Exact effect of every operation** (widens `send_delivery`): whatever the successful
operation is — opt-in/out, auto-response update, MsgSend, MsgMultiSend, multi-input
InputOutputCoins, a bypassed exchange transfer, accept, decline, `qadd` — every account's balance
changes by exactly `op.expBalDelta` and the coins under EVERY record key (single- or multi-sender,
existing or new) change by exactly `op.expRecDelta`, both computed from the state before. -/
theorem every_op_exact_effect {s s' : State} {op : Op} {rel : Coins} (inv : StoreInv s)
    (h : exec s op = .ok (s', rel)) :
    (∀ a d, Ledger.bal s'.bank a d = Ledger.bal s.bank a d + op.expBalDelta s a d) ∧
    (∀ k d, Coins.amountOf (coinsAt s' k.1 k.2) d = Coins.amountOf (coinsAt s k.1 k.2) d + op.expRecDelta s k d) := by
  have hsend : op.xfers ≠ [] → (∀ a d, Ledger.bal s'.bank a d = Ledger.bal s.bank a d + expDelta s op.xfers a d) ∧
      (∀ k d, Coins.amountOf (coinsAt s' k.1 k.2) d = Coins.amountOf (coinsAt s k.1 k.2) d + expRecordAt s op.xfers k d) := by
    intro hop
    obtain ⟨hb, _, hs1, hm⟩ := send_delivery inv h hop
    refine ⟨hb, fun k d => ?_⟩
    obtain ⟨t, sfx⟩ := k
    have hmulti : sfx.length ≠ 1 → Coins.amountOf (coinsAt s' t sfx) d = Coins.amountOf (coinsAt s t sfx) d + 0 := by
      intro hl
      have := hm (t, sfx) hl
      unfold coinsAt; rw [this]; omega
    match sfx with
    | [] => exact hmulti (by simp)
    | [f] => exact hs1 t f d
    | f :: g :: rest => exact hmulti (by simp)
  have hnone : op.movesNoFunds = true → (∀ a d, Ledger.bal s'.bank a d = Ledger.bal s.bank a d + 0) ∧
      (∀ (k : Addr × Suffix) d, Coins.amountOf (coinsAt s' k.1 k.2) d = Coins.amountOf (coinsAt s k.1 k.2) d + 0) := by
    intro hop
    obtain ⟨hb, hc⟩ := settings_and_decline_move_nothing inv h hop
    exact ⟨fun a d => by rw [hb]; omega, fun k d => by rw [coinsAt_congr (hc k)]; omega⟩
  cases op with
  | optIn a => exact hnone rfl
  | optOut a => exact hnone rfl
  | auto to ups => exact hnone rfl
  | decline to froms perm => exact hnone rfl
  | send f t c => exact hsend (by simp [Op.xfers])
  | msend f outs =>
    by_cases ho : outs = []
    · subst ho; simp [exec, msgMultiSend, Except.map] at h
    · exact hsend (by simpa [Op.xfers] using ho)
  | iosend ins t =>
    by_cases ho : ins = []
    · subst ho; simp [exec, ioSend, Except.map] at h
    · exact hsend (by simpa [Op.xfers] using ho)
  | bsend f t c =>
    obtain ⟨hb, hr, _⟩ := bypass_direct h
    refine ⟨fun a d => ?_, fun k d => ?_⟩
    · rw [hb]; simp only [Op.expBalDelta]; omega
    · simp only [Op.expRecDelta, coinsAt, hr]; omega
  | qadd to froms amt payer =>
    obtain ⟨hb, hk, ho, _⟩ := qadd_exact inv h
    refine ⟨fun a d => ?_, fun k d => ?_⟩
    · rw [hb]; simp only [Op.expBalDelta]; omega
    · simp only [Op.expRecDelta]
      by_cases hkk : k = (to, createRecordSuffix froms)
      · subst hkk; rw [if_pos rfl]; exact hk d
      · rw [if_neg hkk]
        have := ho k hkk
        unfold coinsAt; rw [show (k.1, k.2) = k from rfl, this]; omega
  | accept to froms perm =>
    obtain ⟨_, hb, _⟩ := accept_pays_completed_records inv h
    refine ⟨fun a d => ?_, fun k d => ?_⟩
    · rw [hb]; simp only [Op.expBalDelta]; omega
    · have hf := accept_record_fate inv h k
      have e1 : (k.1, k.2) = k := rfl
      simp only [Op.expRecDelta, completedAt, coinsAt, e1]
      revert hf
      cases kvGet s.recs k with
      | none =>
        intro hf
        simp only at hf
        simp [hf]
      | some r =>
        intro hf
        simp only at hf
        by_cases hc : k.1 = to ∧ completes froms r = true
        · rw [if_pos hc] at hf
          simp [hf, hc.1, hc.2]
          omega
        · rw [if_neg hc] at hf
          cases hg' : kvGet s'.recs k with
          | none => rw [hg'] at hf; simp at hf
          | some r' =>
            rw [hg'] at hf
            simp only [Option.map_some, Option.some.injEq] at hf
            have hcf : (decide (k.1 = to) && completes froms r) = false := by
              by_cases h1 : k.1 = to
              · have : completes froms r = false := by
                  cases hcc : completes froms r
                  · rfl
                  · exact absurd ⟨h1, hcc⟩ hc
                simp [this]
              · simp [h1]
            simp [hcf, hf]

/-! ### 11. paid exactly once — per receiver, over histories -/

/-- One successful operation changes the total on record for receiver `t` by exactly what it
quarantines for `t` minus what `t`'s own accept releases to it. -/
theorem per_receiver_step {s s' : State} {op : Op} {rel : Coins} (inv : StoreInv s) (h : exec s op = .ok (s', rel))
    (t : Addr) (d : Denom) :
    outstandingFor s' t d = outstandingFor s t d + op.quarantinedFor s t d - op.ownRelease s t d :=
  exec_outFor inv h t d

/-- what an accept credits its signer (read off the balances) is what the accept releases to it -/
theorem accept_credit_is_own_release {s s' : State} {op : Op} {rel : Coins} (inv : StoreInv s)
    (he : exec s op = .ok (s', rel)) (to : Addr) (hto : to ≠ s.holder) (d : Denom) :
    op.observedRelease s.bank s'.bank to d = op.ownRelease s to d := by
  cases op with
  | accept t froms perm =>
    simp only [Op.ownRelease, Op.observedRelease]
    by_cases htt : t = to
    · subst htt
      rw [if_pos rfl, if_pos rfl, (accept_pays_completed_records inv he).2.1 t d]
      simp [Ne.symm hto]
      omega
    · rw [if_neg htt, if_neg htt]
  | _ => rfl

/-- **Paid exactly once, per receiver, over every history.** For every operation list and every
receiver `to` (not the holder), per denom: the total CREDITED to `to` by its accepts (read off its
balance before/after each accept) equals the total quarantined for `to` by the successful
operations of the history, plus what was on record for it at the start, minus what is still on
record for it at the end.  So nothing quarantined for `to` is paid twice, paid to somebody else
or lost: it is either still on record for `to` or has been credited to `to`. -/
theorem paid_exactly_once_per_receiver (ops : List Op) : ∀ (s : State), StoreInv s → ∀ (to : Addr), to ≠ s.holder →
    ∀ d, creditedByReleases s to d ops
      = quarantinedForRun s to d ops + outstandingFor s to d - outstandingFor (run s ops) to d := by
  induction ops with
  | nil => intro s _ to _ d; simp [creditedByReleases, quarantinedForRun, run]
  | cons op rest ih =>
    intro s inv to hto d
    show creditedByReleases s to d (op :: rest) = quarantinedForRun s to d (op :: rest) + outstandingFor s to d
      - outstandingFor (run (step s op) rest) to d
    rcases step_eq s op with ⟨s', rel, he, hs⟩ | ⟨⟨e, he⟩, hs⟩
    · have S := exec_ok inv he
      have hstep := exec_outFor inv he to d
      have hih := ih s' S.inv to (by rw [S.holder]; exact hto) d
      have hcred := accept_credit_is_own_release inv he to hto d
      simp only [creditedByReleases, quarantinedForRun, hs, he]
      rw [hcred, hih]
      omega
    · have hih := ih s inv to hto d
      simp only [creditedByReleases, quarantinedForRun, hs, he]
      rw [hih]
      cases op <;> simp [Op.observedRelease]

/-- … from a fresh chain: credited to `to` by its accepts = quarantined for `to` − still on
record for `to`. -/
theorem paid_exactly_once_per_receiver_from_genesis (h : Addr) (rd : List Denom) (xf : List Addr) (b : Ledger)
    (ops : List Op) (to : Addr) (hto : to ≠ h) (d : Denom) :
    creditedByReleases (init h rd xf b) to d ops
      = quarantinedForRun (init h rd xf b) to d ops - outstandingFor (run (init h rd xf b) ops) to d := by
  have := paid_exactly_once_per_receiver ops _ (init_inv h rd xf b) to hto d
  simpa [init, outstandingFor, sumRecsFor] using this

/-- … and once nothing is on record for `to` any more, everything ever quarantined for it has
been credited to it — exactly once, in full. -/
theorem paid_in_full_when_nothing_outstanding (h : Addr) (rd : List Denom) (xf : List Addr) (b : Ledger)
    (ops : List Op) (to : Addr) (hto : to ≠ h) (d : Denom)
    (hnone : outstandingFor (run (init h rd xf b) ops) to d = 0) :
    creditedByReleases (init h rd xf b) to d ops = quarantinedForRun (init h rd xf b) to d ops := by
  rw [paid_exactly_once_per_receiver_from_genesis h rd xf b ops to hto d, hnone]; omega

/-! ### 12. "never credited until it accepts" — with exactly the bypass routes excluded

`quarantine.WithBypass` has four call sites in the repository (`PvProofs.C07Facts`, regenerated
from the source on every run): the release inside `AcceptQuarantinedFunds` (part of `.accept`) and
`DoTransfer` / `AcceptPayment` / `WithdrawMarketFunds` (only when the admin withdraws to itself) of
the exchange module, for which `.bsend` stands (`Op.exchangeBypass`). -/

/-- **Credited only by acceptance.** For every successful operation that is not an exchange
transfer under the context bypass, an opted-in account `a` (not the holder) has afterwards exactly:
what it had, plus the transfers addressed to it by senders it has on auto-accept (or by itself),
plus what its OWN accept releases, minus what it pays itself.  Nothing else reaches it. -/
theorem credited_only_by_acceptance {s s' : State} {op : Op} {rel : Coins} (inv : StoreInv s)
    (h : exec s op = .ok (s', rel)) (hx : op.exchangeBypass = false)
    (a : Addr) (ha : a ≠ s.holder) (hq : isQuarantinedAddr s a = true)
    (hsign : op.holderNeverSigns s.holder = true) (d : Denom) :
    Ledger.bal s'.bank a d = Ledger.bal s.bank a d + acceptedCredit s op.xfers a d + op.ownRelease s a d - op.paidBy a d := by
  rw [(every_op_exact_effect inv h).1 a d]
  have hsends : (∀ x ∈ op.xfers, x.from_ ≠ s.holder) →
      expDelta s op.xfers a d = acceptedCredit s op.xfers a d - sentBy op.xfers a d :=
    expDelta_opted_in s op.xfers a d ha hq
  cases op with
  | optIn b => simp [Op.expBalDelta, Op.xfers, acceptedCredit, Op.ownRelease, Op.paidBy, sentBy]
  | optOut b => simp [Op.expBalDelta, Op.xfers, acceptedCredit, Op.ownRelease, Op.paidBy, sentBy]
  | auto to ups => simp [Op.expBalDelta, Op.xfers, acceptedCredit, Op.ownRelease, Op.paidBy, sentBy]
  | decline to froms perm => simp [Op.expBalDelta, Op.xfers, acceptedCredit, Op.ownRelease, Op.paidBy, sentBy]
  | bsend f t c => simp [Op.exchangeBypass] at hx
  | send f t c =>
    have := hsends (by
      intro x hx'
      simp only [Op.xfers, List.mem_singleton] at hx'; subst hx'
      simpa [Op.holderNeverSigns] using hsign)
    simp only [Op.expBalDelta, Op.ownRelease, Op.paidBy, this]; omega
  | msend f outs =>
    have := hsends (by
      intro x hx'
      simp only [Op.xfers] at hx'
      obtain ⟨o, _, rfl⟩ := List.mem_map.mp hx'
      simpa [Op.holderNeverSigns] using hsign)
    simp only [Op.expBalDelta, Op.ownRelease, Op.paidBy, this]; omega
  | iosend ins t =>
    have := hsends (by
      intro x hx'
      simp only [Op.xfers] at hx'
      obtain ⟨o, ho, rfl⟩ := List.mem_map.mp hx'
      simp only [Op.holderNeverSigns, List.all_eq_true, decide_eq_true_eq] at hsign
      exact hsign o ho)
    simp only [Op.expBalDelta, Op.ownRelease, Op.paidBy, this]; omega
  | qadd to froms amt payer =>
    simp [Op.expBalDelta, Op.xfers, acceptedCredit, Op.ownRelease, Op.paidBy, Ne.symm ha]
    omega
  | accept to froms perm =>
    simp [Op.expBalDelta, Op.xfers, acceptedCredit, Op.ownRelease, Op.paidBy, sentBy, Ne.symm ha]

/-- **Never credited until it accepts.** If, in addition, no transfer of the operation addressed
to `a` comes from a sender `a` has on auto-accept, and the operation is not `a`'s own accept, then
`a`'s balance changes only by what `a` itself pays: it is credited NOTHING — whatever the
operation (any send with one or many inputs/outputs, `qadd`, anybody else's accept, decline,
settings), in any state. -/
theorem never_credited_until_it_accepts {s s' : State} {op : Op} {rel : Coins} (inv : StoreInv s)
    (h : exec s op = .ok (s', rel)) (hx : op.exchangeBypass = false)
    (a : Addr) (ha : a ≠ s.holder) (hq : isQuarantinedAddr s a = true)
    (hsign : op.holderNeverSigns s.holder = true)
    (hna : ∀ x ∈ op.xfers, x.to = a → getAutoResponse s a x.from_ ≠ .accept)
    (hown : ∀ fs p, op ≠ .accept a fs p) (d : Denom) :
    Ledger.bal s'.bank a d = Ledger.bal s.bank a d - op.paidBy a d := by
  rw [credited_only_by_acceptance inv h hx a ha hq hsign d]
  have h1 : ∀ xs : List Xfer, (∀ x ∈ xs, x.to = a → getAutoResponse s a x.from_ ≠ .accept) → acceptedCredit s xs a d = 0 := by
    intro xs
    induction xs with
    | nil => intro _; rfl
    | cons x rest ih =>
      intro hh
      have := ih (fun y hy => hh y (List.mem_cons_of_mem _ hy))
      have hx0 := hh x (List.mem_cons_self ..)
      simp only [acceptedCredit, this]
      rw [if_neg (fun e => hx0 e.1 e.2)]; rfl
  have h2 : op.ownRelease s a d = 0 := by
    cases op with
    | accept to froms perm =>
      simp only [Op.ownRelease]
      rw [if_neg (fun e => hown froms perm (by rw [e]))]
    | _ => rfl
  rw [h1 _ hna, h2]; omega

/-- the same judged by the HISTORY of `a`'s messages (`Hist`, section 8) instead of the store's
auto-response entries -/
theorem credited_only_by_acceptance_per_history {hist : Hist} {s s' : State} {op : Op} {rel : Coins} (inv : StoreInv s)
    (H : HistOK hist s) (h : exec s op = .ok (s', rel)) (hx : op.exchangeBypass = false)
    (a : Addr) (ha : a ≠ s.holder) (hq : isQuarantinedAddr s a = true)
    (hsign : op.holderNeverSigns s.holder = true) (d : Denom) :
    Ledger.bal s'.bank a d = Ledger.bal s.bank a d + acceptedCredit (hist.view s) op.xfers a d
      + op.ownRelease s a d - op.paidBy a d := by
  rw [acceptedCredit_congr (view_sameRest H).auto]
  exact credited_only_by_acceptance inv h hx a ha hq hsign d

/-- **What the bypass does, for any number of inputs and outputs** (`DoTransfer` hands the bypass
context to `SendCoins` or to `InputOutputCoinsProv`): every named receiver is credited in full
whether or not it opted in, every sender is debited, and the quarantine store, the opt-ins and the
auto-responses are untouched. -/
theorem bypass_transfers_direct {s s' : State} {xs : List Xfer} (h : bankTransfers s true xs = .ok s') :
    (∀ a d, Ledger.bal s'.bank a d = Ledger.bal s.bank a d + receivedBy xs a d - sentBy xs a d) ∧
    s'.recs = s.recs ∧ s'.index = s.index ∧ s'.optin = s.optin ∧ s'.auto = s.auto := by
  unfold bankTransfers at h
  cases hd : debitAll s.bank xs with
  | error e => simp [hd] at h
  | ok b1 =>
    simp only [hd] at h
    cases ha : applyRestrictions { s with bank := b1 } true xs with
    | error e => simp [ha] at h
    | ok p =>
      obtain ⟨s2, outs⟩ := p
      simp only [ha, Except.ok.injEq] at h
      subst h
      obtain ⟨rfl, rfl⟩ := applyRestrictions_bypass xs _ _ _ ha
      obtain ⟨hb, _⟩ := debitAll_ok xs _ _ hd
      refine ⟨fun a d => ?_, rfl, rfl, rfl, rfl⟩
      show Ledger.bal (creditAll b1 _) a d = _
      rw [bal_creditAll, hb, creditSum_map_to, debitSum_eq_sentBy]; omega

/-! ### 13. the driver's `simplify_*` and `chain_invariant_wrong` clauses -/

/-- **`Simplify` meets the three clauses the driver checks on the implementation**: the result is
strictly increasing (sorted, duplicate-free), contains only input entries that were not to be
removed, and loses none of those. -/
theorem simplify_meets_clauses (rm l : List Suffix) :
    simplifySortedUnique (simplify rm l) = true ∧ simplifyNothingInvented rm l (simplify rm l) = true ∧
      simplifyNothingLost rm l (simplify rm l) = true := by
  refine ⟨strictSorted_simplify rm l, ?_, ?_⟩
  · unfold simplifyNothingInvented
    rw [List.all_eq_true]
    intro x hx
    have := mem_simplify.mp hx
    simp [this.1, this.2]
  · unfold simplifyNothingLost
    rw [List.all_eq_true]
    intro x hx
    by_cases hr : x ∈ rm
    · simp [hr]
    · have : x ∈ simplify rm l := mem_simplify.mpr ⟨hx, hr⟩
      simp [this]

/-- hence the checker's verdict on the model's own output is `ok` (the three `simplify_*` failure
clauses never fire on the model) -/
theorem simplify_verdict_ok (rm l : List Suffix) : simplifyVerdict rm l (simplify rm l) = "ok" := by
  obtain ⟨h1, h2, h3⟩ := simplify_meets_clauses rm l
  simp [simplifyVerdict, h1, h2, h3]

/-- the membership form: exactly the input entries not to be removed, each once -/
theorem simplify_spec (rm l : List Suffix) :
    (∀ x, x ∈ simplify rm l ↔ x ∈ l ∧ x ∉ rm) ∧ (simplify rm l).Nodup :=
  ⟨fun _ => mem_simplify, nodup_simplify rm l⟩

/-- **The three clauses pin the `Simplify` output down completely**: an output that is strictly
sorted, invents nothing / keeps nothing removed, and loses nothing IS the model's output. -/
theorem simplify_unique {rm l out : List Suffix} (h1 : simplifySortedUnique out = true)
    (h2 : simplifyNothingInvented rm l out = true) (h3 : simplifyNothingLost rm l out = true) :
    out = simplify rm l := by
  apply strictSorted_ext _ _ h1 (strictSorted_simplify rm l)
  intro x
  rw [mem_simplify]
  unfold simplifyNothingInvented at h2
  unfold simplifyNothingLost at h3
  rw [List.all_eq_true] at h2 h3
  constructor
  · intro hx
    have := h2 x hx
    simpa using this
  · intro ⟨hx, hr⟩
    have := h3 x hx
    simp only [Bool.or_eq_true, List.contains_iff_mem] at this
    rcases this with h | h
    · exact absurd h hr
    · exact h

/-- both directions: the checker says `ok` exactly on the model's output -/
theorem simplify_verdict_ok_iff (rm l out : List Suffix) :
    simplifyVerdict rm l out = "ok" ↔ out = simplify rm l := by
  constructor
  · intro h
    unfold simplifyVerdict at h
    cases h1 : simplifySortedUnique out
    · simp [h1] at h
    · cases h2 : simplifyNothingInvented rm l out
      · simp [h1, h2] at h
      · cases h3 : simplifyNothingLost rm l out
        · simp [h1, h2, h3] at h
        · exact simplify_unique h1 h2 h3
  · intro h
    subst h
    obtain ⟨h1, h2, h3⟩ := simplify_meets_clauses rm l
    simp [simplifyVerdict, h1, h2, h3]

/-- **The chain's `FundsHolderBalanceInvariant` says "holder covers the records" — both
directions.** The Go invariant only looks at the denoms that occur in some record; on a holder
account without a negative balance that is the same as covering EVERY denom. -/
theorem chain_invariant_iff_holder_covers (s : State) (hb : ∀ d, 0 ≤ Ledger.bal s.bank s.holder d) :
    fundsHolderBalanceInvariant s = true ↔ HolderCovers s := by
  unfold fundsHolderBalanceInvariant HolderCovers
  rw [List.all_eq_true]
  constructor
  · intro hall d
    by_cases hd : d ∈ s.recs.flatMap fun e => Coins.denoms e.2.coins
    · simpa using hall d hd
    · unfold outstanding; rw [sumRecs_eq_zero_of_not_mem hd]; exact hb d
  · intro hc d _
    simpa using hc d

/-- the Bool form the driver evaluates (clause `chain_invariant_wrong`): on any denom list `ds`
that contains the record denoms and on which the holder has no negative balance, the chain's
verdict equals `holderCoversB`. -/
theorem chain_invariant_clause_sound (s : State) (ds : List Denom)
    (hds : ∀ d ∈ s.recs.flatMap (fun e => Coins.denoms e.2.coins), d ∈ ds)
    (hb : ∀ d ∈ ds, 0 ≤ Ledger.bal s.bank s.holder d) :
    chainInvariantAgrees (fundsHolderBalanceInvariant s) s ds = true := by
  unfold chainInvariantAgrees
  simp only [decide_eq_true_eq]
  cases hc : holderCoversB s ds
  · -- some denom of `ds` is not covered: it must be a record denom, so the chain invariant is broken too
    unfold holderCoversB at hc
    obtain ⟨d, hd, hnot⟩ := List.all_eq_false.mp hc
    have hlt : ¬ outstanding s d ≤ Ledger.bal s.bank s.holder d := by simpa using hnot
    have hrec : d ∈ s.recs.flatMap fun e => Coins.denoms e.2.coins := by
      apply Classical.byContradiction
      intro hn
      apply hlt
      unfold outstanding; rw [sumRecs_eq_zero_of_not_mem hn]; exact hb d hd
    unfold fundsHolderBalanceInvariant
    rw [List.all_eq_false]
    exact ⟨d, hrec, by simpa using hlt⟩
  · unfold holderCoversB at hc
    unfold fundsHolderBalanceInvariant
    rw [List.all_eq_true] at hc ⊢
    intro d hd
    exact hc d (hds d hd)

/-- over all histories (holder signs nothing): the chain's invariant is not broken AND the
holder covers every denom, so the clause holds of every reachable state on every denom list. -/
theorem chain_invariant_clause_always (s : State) (ops : List Op) (inv : StoreInv s) (h0 : HolderCovers s)
    (hsign : ∀ op ∈ ops, op.holderNeverSigns s.holder = true) (ds : List Denom) :
    chainInvariantAgrees (fundsHolderBalanceInvariant (run s ops)) (run s ops) ds = true := by
  have hc := holder_covers_records s ops inv h0 hsign
  have hi := fundsHolderBalanceInvariant_never_broken s ops inv h0 hsign
  unfold chainInvariantAgrees
  rw [hi]
  simp only [decide_eq_true_eq]
  symm
  unfold holderCoversB
  rw [List.all_eq_true]
  intro d _
  simpa using hc d

/-! ### non-vacuity of the hypotheses used above (concrete states / histories from `Demo`) -/

namespace Demo2
open Demo

/-- C opted in and has A on auto-accept -/
def sA : State := run s0 [.optIn "C", .auto "C" [("A", .accept)]]
example : StoreInv sA := store_invariant _ _ (init_inv _ _ _ _)

-- `qadd_exact`: a successful qadd creating a NEW two-sender record, split by auto-accept (A accepted, B not)
example : (exec sA (.qadd "C" ["B", "A"] [("aaa", 3)] "B")).toBool = true := by decide
example : (run sA [.qadd "C" ["B", "A"] [("aaa", 3)] "B"]).recs
    = [(("C", ["A", "B"]), ⟨["B"], ["A"], [("aaa", 3)], false⟩)] := by decide
-- `qadd_tops_up`: the second qadd names the senders in the other order and tops the same record up
def opsTop : List Op := [.qadd "C" ["B", "A"] [("aaa", 3)] "B", .qadd "C" ["A", "B"] [("aaa", 4)] "A"]
example : ["A", "B"].Perm ["B", "A"] := List.Perm.swap _ _ _
example : (exec (run sA (opsTop.take 1)) (.qadd "C" ["A", "B"] [("aaa", 4)] "A")).toBool = true := by decide
example : Coins.amountOf (coinsAt (run sA opsTop) "C" ["A", "B"]) "aaa" = 7 := by decide
example : Ledger.bal (run sA opsTop).bank "H" "aaa" = 7 := by decide

-- `every_op_exact_effect`: the deltas are not trivially zero
example : (Op.qadd "C" ["B", "A"] [("aaa", 3)] "B").expRecDelta sA ("C", ["A", "B"]) "aaa" = 3 := by decide
example : (Op.accept "C" ["A"] false).expRecDelta s4 ("C", ["A"]) "aaa" = -5 := by decide
example : (Op.accept "C" ["A"] false).expBalDelta s4 "C" "aaa" = 5 := by decide
example : (Op.send "A" "C" [("aaa", 5)]).expRecDelta s1 ("C", ["A"]) "aaa" = 5 := by decide

-- `paid_exactly_once_per_receiver`: C is not the holder; over `Demo.ops` 10aaa were quarantined for C,
-- 5aaa credited to it by its accept, 5aaa still on record for it
example : ("C" : Addr) ≠ s0.holder := by decide
example : quarantinedForRun s0 "C" "aaa" ops = 10 := by decide
example : creditedByReleases s0 "C" "aaa" ops = 5 := by decide
example : outstandingFor (run s0 ops) "C" "aaa" = 5 := by decide
-- `paid_in_full_when_nothing_outstanding`: C accepts both senders at once: nothing left, all 10 credited
def opsAll : List Op := ops.take 4 ++ [.accept "C" ["A", "B"] false]
example : outstandingFor (run s0 opsAll) "C" "aaa" = 0 := by decide
example : creditedByReleases s0 "C" "aaa" opsAll = 10 := by decide

-- `credited_only_by_acceptance` / `never_credited_until_it_accepts`: C opted in, A not on auto-accept
example : (Op.send "A" "C" [("aaa", 5)]).exchangeBypass = false := rfl
example : ("C" : Addr) ≠ s1.holder := by decide
example : isQuarantinedAddr s1 "C" = true := by decide
example : (Op.send "A" "C" [("aaa", 5)]).holderNeverSigns s1.holder = true := by decide
example : ∀ x ∈ (Op.send "A" "C" [("aaa", 5)]).xfers, x.to = "C" → getAutoResponse s1 "C" x.from_ ≠ .accept := by decide
example : ∀ fs p, Op.send "A" "C" [("aaa", 5)] ≠ .accept "C" fs p := by intro _ _ h; cases h
-- … and with A on auto-accept the credit is the accepted credit
example : acceptedCredit sA (Op.send "A" "C" [("aaa", 5)]).xfers "C" "aaa" = 5 := by decide

-- `bypass_transfers_direct`: a two-output transfer under the bypass to the opted-in C succeeds
example : (bankTransfers s1 true [⟨"A", "C", [("aaa", 2)]⟩, ⟨"A", "B", [("aaa", 1)]⟩]).toBool = true := by decide

-- `chain_invariant_clause_sound`: a state with records; `ds` holds the record denoms, holder not negative
example : ∀ d ∈ (run s0 ops).recs.flatMap (fun e => Coins.denoms e.2.coins), d ∈ ["aaa", "rcoin"] := by decide
example : ∀ d ∈ ["aaa", "rcoin"], 0 ≤ Ledger.bal (run s0 ops).bank (run s0 ops).holder d := by decide
-- `chain_invariant_iff_holder_covers`
example : ∀ d, 0 ≤ Ledger.bal s0.bank s0.holder d := fun d => by simp [s0, init, Ledger.entries, Ledger.bal]
-- the clause is not trivially true: a holder that does not cover its records is reported by both sides
def sBroken : State := { run s0 ops with bank := [] }
example : fundsHolderBalanceInvariant sBroken = false ∧ holderCoversB sBroken ["aaa", "rcoin"] = false := by decide

-- the `simplify_*` clauses reject wrong outputs (the checker is not vacuous)
example : simplifyVerdict [["A"]] [["B"], ["A"], ["A", "B"], ["B"]] (simplify [["A"]] [["B"], ["A"], ["A", "B"], ["B"]]) = "ok" := by decide
example : simplify [["A"]] [["B"], ["A"], ["A", "B"], ["B"]] = [["A", "B"], ["B"]] := by decide
example : simplifyVerdict [["A"]] [["B"], ["A"], ["A", "B"], ["B"]] [["B"], ["A", "B"]] = "fail:simplify_not_sorted_unique" := by decide
example : simplifyVerdict [["A"]] [["B"], ["A"], ["A", "B"], ["B"]] [["A"], ["B"]] = "fail:simplify_invented_or_kept_removed" := by decide
example : simplifyVerdict [["A"]] [["B"], ["A"], ["A", "B"], ["B"]] [["B"]] = "fail:simplify_lost_suffix" := by decide

-- `simplify_unique`: the hypotheses are met by the model's own output (`simplify_meets_clauses`) and by nothing else
example : simplifyVerdict [] [["B"], ["A"]] [["A"], ["B"]] = "ok" := by decide

end Demo2

end PvProofs.C07
