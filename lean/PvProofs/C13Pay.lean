/-
C13 — payment listings are EXACT.

What the prefix scans behind the payment lookups return, as LISTS (members, multiplicity and
order), judged against the declarative `specPayments` the driver compares the implementation's
listings with:

* `getPayment_iff` — the point lookup answers from the records;
* `paymentsBySource_exact` / `allPayments_exact` / `paymentsByTarget_exact` — the scan of
  `prefixPaymentsForSource a` / `prefixPayment` / `prefixTargetToPayments a`, rendered the way
  the driver renders it (`pageOnce`: "paysrc" / "payall" / "paytgt"), IS `specPayments`, forward
  and reversed;
* `getPaymentsForTargetAndSource_exact` — what `RejectPayments` collects for one source.

Hypotheses: `IndexInv s` and `KeysNodup s` (both hold after every history and of every dump the
driver accepts); the by-target listing also needs every stored payment to have a non-empty source
(`paymentValid` enforces it at creation): `parseLengthPrefixedAddr` refuses a zero length byte.
-/
import PvProofs.C13
import PvProofs.Lemmas.ExrecDump

namespace PvProofs.C13
open PvModel.Exrec PvProofs.Exrec

/-! ### helpers -/

/-- the order of the listings: by `(source, external id)` key bytes -/
def payLt (p q : Payment) : Prop := bytesLt (paymentSortKey p) (paymentSortKey q) = true

theorem payLt_asymm (a b : Payment) : payLt a b → payLt b a → False := by
  intro h1 h2
  unfold payLt at h1 h2
  rw [bytesLt_asymm h1] at h2
  cases h2

theorem payLt_irrefl (a : Payment) : ¬ payLt a a := by
  unfold payLt
  rw [bytesLt_irrefl]
  exact Bool.false_ne_true

/-- a common prefix does not change the byte order -/
theorem bytesLt_append_left : ∀ (x a b : Bytes), bytesLt (x ++ a) (x ++ b) = bytesLt a b
  | [], _, _ => rfl
  | c :: x, a, b => by
    simp only [List.cons_append, bytesLt, Nat.lt_irrefl, decide_false, decide_true, Bool.true_and,
      Bool.false_or]
    exact bytesLt_append_left x a b

theorem mem_insertPayment (p x : Payment) : ∀ (l : List Payment), x ∈ insertPayment p l ↔ x = p ∨ x ∈ l
  | [] => by simp [insertPayment]
  | y :: r => by
    unfold insertPayment
    split_ifs
    · simp
    · rw [List.mem_cons, mem_insertPayment p x r, List.mem_cons]
      constructor
      · rintro (h | h | h)
        · exact Or.inr (Or.inl h)
        · exact Or.inl h
        · exact Or.inr (Or.inr h)
      · rintro (h | h | h)
        · exact Or.inr (Or.inl h)
        · exact Or.inl h
        · exact Or.inr (Or.inr h)

theorem mem_foldr_insertPayment (x : Payment) : ∀ (l : List Payment), x ∈ l.foldr insertPayment [] ↔ x ∈ l
  | [] => by simp
  | y :: r => by
    rw [List.foldr_cons, mem_insertPayment, mem_foldr_insertPayment x r, List.mem_cons]

theorem sorted_insertPayment (p : Payment) : ∀ (l : List Payment), l.Pairwise payLt →
    (∀ x ∈ l, paymentSortKey x ≠ paymentSortKey p) → (insertPayment p l).Pairwise payLt
  | [], _, _ => by simp [insertPayment]
  | y :: r, hs, hne => by
    unfold insertPayment
    have hy := List.pairwise_cons.mp hs
    split_ifs with h
    · have hlt : payLt p y := by
        rcases bytesLe_iff.mp h with h | h
        · exact absurd h.symm (hne y (List.mem_cons_self ..))
        · exact h
      refine List.pairwise_cons.mpr ⟨fun b hb => ?_, hs⟩
      rcases List.mem_cons.mp hb with rfl | hb
      · exact hlt
      · exact bytesLt_trans hlt (hy.1 b hb)
    · have hlt : payLt y p := by
        rcases bytesLt_trichotomy (paymentSortKey y) (paymentSortKey p) with h' | h' | h'
        · exact h'
        · exact absurd h' (hne y (List.mem_cons_self ..))
        · exact absurd (bytesLe_of_lt h') h
      refine List.pairwise_cons.mpr ⟨fun b hb => ?_, sorted_insertPayment p r hy.2
        (fun x hx => hne x (List.mem_cons_of_mem _ hx))⟩
      rcases (mem_insertPayment p b r).mp hb with rfl | hb
      · exact hlt
      · exact hy.1 b hb

theorem sorted_foldr_insertPayment : ∀ (l : List Payment),
    l.Pairwise (fun a b => paymentSortKey a ≠ paymentSortKey b) → (l.foldr insertPayment []).Pairwise payLt
  | [], _ => by simp
  | y :: r, h => by
    have hy := List.pairwise_cons.mp h
    rw [List.foldr_cons]
    exact sorted_insertPayment y _ (sorted_foldr_insertPayment r hy.2)
      (fun x hx => fun e => hy.1 x ((mem_foldr_insertPayment x r).mp hx) e.symm)

/-- the forward `specPayments` is strictly sorted by key -/
theorem specPayments_sorted {s : Store} (hinv : IndexInv s) (hnd : KeysNodup s) (l : PaymentLookup) :
    (specPayments s l false).Pairwise payLt := by
  unfold specPayments
  simp only [Bool.false_eq_true, ↓reduceIte]
  exact sorted_foldr_insertPayment _ ((paymentRecords_keys_pairwise hinv hnd).filter _)

theorem mem_specPayments {s : Store} (l : PaymentLookup) (p : Payment) :
    p ∈ specPayments s l false ↔ p ∈ paymentRecords s ∧ l.matches p = true := by
  unfold specPayments
  simp only [Bool.false_eq_true, ↓reduceIte]
  rw [mem_foldr_insertPayment, List.mem_filter]

theorem specPayments_reverse (s : Store) (l : PaymentLookup) :
    specPayments s l true = (specPayments s l false).reverse := by
  unfold specPayments
  simp

/-- A scan rendered by `f` is strictly sorted by payment key as soon as every rendered entry's payment
key is the entry key behind a common prefix `c`. -/
theorem scan_sorted {L : List Entry} (hL : Sorted L) (f : Entry → Option Payment) (c : Bytes)
    (hf : ∀ e ∈ L, ∀ p, f e = some p → paymentSortKey p = c ++ e.1) : (L.filterMap f).Pairwise payLt := by
  have h1 : L.Pairwise (fun a b => a ∈ L ∧ b ∈ L ∧ bytesLt a.1 b.1 = true) :=
    (List.Pairwise.and_mem.mp hL).imp (fun h => h)
  refine List.Pairwise.filterMap _ ?_ h1
  intro a a' ⟨ha, ha', hlt⟩ p hp p' hp'
  unfold payLt
  rw [hf a ha p hp, hf a' ha' p' hp', bytesLt_append_left]
  exact hlt

/-- two renderings with the same members, both strictly sorted: the same list, in both directions -/
theorem scan_eq_spec {s : Store} (hinv : IndexInv s) (hnd : KeysNodup s) (l : PaymentLookup)
    {L : List Entry} (f : Entry → Option Payment) (hs : (L.filterMap f).Pairwise payLt)
    (hm : ∀ p, p ∈ L.filterMap f ↔ p ∈ paymentRecords s ∧ l.matches p = true) :
    L.filterMap f = specPayments s l false ∧ L.reverse.filterMap f = specPayments s l true := by
  have h : L.filterMap f = specPayments s l false :=
    eq_of_pairwise_of_mem_iff payLt payLt_asymm payLt_irrefl _ _ hs (specPayments_sorted hinv hnd l)
      (fun p => by rw [hm, mem_specPayments])
  refine ⟨h, ?_⟩
  rw [specPayments_reverse, ← h, List.filterMap_reverse]

/-! ### 1. the point lookup -/

/-- **`GetPayment` answers from the records**: it returns `p` iff `p` is a stored payment with that
source and external id. -/
theorem getPayment_iff {s : Store} (hinv : IndexInv s) (hnd : KeysNodup s) (src e : Bytes) (p : Payment) :
    getPaymentFromStore s src e = some p ↔ (p ∈ paymentRecords s ∧ p.source = src ∧ p.ext = e) := by
  rw [mem_paymentRecords_iff hinv hnd]
  constructor
  · intro h
    have hg := getPaymentFromStore_eq h
    obtain ⟨h1, h2⟩ := payment_unique hinv hg
    subst h1 h2
    exact ⟨hg, rfl, rfl⟩
  · rintro ⟨hg, rfl, rfl⟩
    unfold getPaymentFromStore
    rw [hg]

example :
    let s := (run init [.pay ⟨[65], 3, [66], 0, [120], false, false⟩, .pay ⟨[65], 1, [67], 2, [], false, false⟩,
      .pay ⟨[68], 1, [66], 2, [121], false, true⟩]).kv
    paymentRecords s = [⟨[68], 1, [66], 2, [121], false, true⟩, ⟨[65], 1, [67], 2, [], false, false⟩,
      ⟨[65], 3, [66], 0, [120], false, false⟩] ∧
    getPaymentFromStore s [65] [120] = some ⟨[65], 3, [66], 0, [120], false, false⟩ ∧
    getPaymentFromStore s [68] [121] = some ⟨[68], 1, [66], 2, [121], false, true⟩ ∧
    getPaymentFromStore s [68] [120] = none ∧ getPaymentFromStore s [66] [120] = none := by decide

/-! ### 2. payments of a source -/

/-- how the driver renders an entry of the payment records (`pageOnce`, "paysrc" / "payall") -/
abbrev payOfEntry : Entry → Option Payment := fun e => match e.2 with | .payment p => some p | _ => none

theorem payOfEntry_eq_some {e : Entry} {p : Payment} : payOfEntry e = some p ↔ e.2 = .payment p := by
  obtain ⟨k, v⟩ := e
  cases v <;> simp [payOfEntry]

/-- **`GetPaymentsWithSource` lists exactly the payments of the source, in key order**: the scan of
`prefixPaymentsForSource a`, rendered as the driver renders it, is `specPayments s (.source a)` — the
same payments, each once, in the same order; and the reversed scan is the reversed specification. -/
theorem paymentsBySource_exact {s : Store} (hinv : IndexInv s) (hnd : KeysNodup s) (a : Bytes) :
    (prefixStore s (prefixPaymentsForSource a)).filterMap
        (fun e => match e.2 with | .payment p => some p | _ => none) = specPayments s (.source a) false ∧
    (prefixStore s (prefixPaymentsForSource a)).reverse.filterMap
        (fun e => match e.2 with | .payment p => some p | _ => none) = specPayments s (.source a) true := by
  have key : ∀ e ∈ prefixStore s (prefixPaymentsForSource a), ∀ p, payOfEntry e = some p →
      s.get (keyPayment p.source p.ext) = some (.payment p) ∧ p.source = a ∧ p.ext = e.1 := by
    intro e he p hp
    have hg := (mem_prefixStore s _ e).mp he
    rw [payOfEntry_eq_some.mp hp] at hg
    have hg' : s.get (keyPayment a e.1) = some (.payment p) := hg
    obtain ⟨h1, h2⟩ := payment_unique hinv hg'
    rw [h1, h2]
    exact ⟨hg', rfl, rfl⟩
  refine scan_eq_spec hinv hnd (.source a) payOfEntry ?_ ?_
  · refine scan_sorted (sorted_prefixStore s _) payOfEntry (lengthPrefix a) (fun e he p hp => ?_)
    obtain ⟨_, h1, h2⟩ := key e he p hp
    unfold paymentSortKey
    rw [h1, h2]
  · intro p
    rw [List.mem_filterMap, mem_paymentRecords_iff hinv hnd]
    constructor
    · rintro ⟨e, he, hp⟩
      obtain ⟨h0, h1, _⟩ := key e he p hp
      exact ⟨h0, by simp [PaymentLookup.matches, h1]⟩
    · rintro ⟨hg, hm⟩
      have h1 : p.source = a := by simpa [PaymentLookup.matches] using hm
      refine ⟨(p.ext, .payment p), (mem_prefixStore s _ _).mpr ?_, rfl⟩
      rw [← h1]
      exact hg

theorem paymentsBySource_exact_rev {s : Store} (hinv : IndexInv s) (hnd : KeysNodup s) (a : Bytes) :
    (prefixStore s (prefixPaymentsForSource a)).reverse.filterMap
        (fun e => match e.2 with | .payment p => some p | _ => none) = specPayments s (.source a) true :=
  (paymentsBySource_exact hinv hnd a).2

example :
    let s := (run init [.pay ⟨[65], 3, [66], 0, [120], false, false⟩, .pay ⟨[65], 1, [67], 2, [], false, false⟩,
      .pay ⟨[68], 1, [66], 2, [121], false, true⟩]).kv
    let f : Entry → Option Payment := fun e => match e.2 with | .payment p => some p | _ => none
    (prefixStore s (prefixPaymentsForSource [65])).filterMap f =
      [⟨[65], 1, [67], 2, [], false, false⟩, ⟨[65], 3, [66], 0, [120], false, false⟩] ∧
    specPayments s (.source [65]) false =
      [⟨[65], 1, [67], 2, [], false, false⟩, ⟨[65], 3, [66], 0, [120], false, false⟩] ∧
    (prefixStore s (prefixPaymentsForSource [65])).reverse.filterMap f = specPayments s (.source [65]) true ∧
    (prefixStore s (prefixPaymentsForSource [66])).filterMap f = [] ∧ specPayments s (.source [66]) false = [] := by
  decide

/-! ### 5. what `RejectPayments` collects for one source -/

/-- **`getPaymentsForTargetAndSource` returns exactly the stored payments with that target and that
source**, each once, by ascending external id. -/
theorem getPaymentsForTargetAndSource_exact {s : Store} (hinv : IndexInv s) (hnd : KeysNodup s) {t src : Bytes}
    (ht : t ≠ []) (hsrc : src ≠ []) :
    (∀ p, p ∈ getPaymentsForTargetAndSource s t src ↔ (p ∈ paymentRecords s ∧ p.target = t ∧ p.source = src)) ∧
    (getPaymentsForTargetAndSource s t src).Nodup ∧
    (getPaymentsForTargetAndSource s t src).Pairwise (fun p q => bytesLt p.ext q.ext = true) := by
  have hh := (indexInvF_iff.mp hinv).2
  have hdef : getPaymentsForTargetAndSource s t src =
      (prefixStore s (prefixTargetToPaymentsForSource t src)).filterMap (fun e => getPaymentFromStore s src e.1) := by
    unfold getPaymentsForTargetAndSource
    rw [if_neg (by simp [ht, hsrc])]
  have hkey : ∀ x : Bytes, prefixTargetToPaymentsForSource t src ++ x = idxTargetToPayment t src x := by
    intro x
    simp [prefixTargetToPaymentsForSource, idxTargetToPayment, List.append_assoc]
  have hsorted : (getPaymentsForTargetAndSource s t src).Pairwise (fun p q => bytesLt p.ext q.ext = true) := by
    rw [hdef]
    refine List.Pairwise.filterMap _ ?_ (sorted_prefixStore s _)
    intro a a' hlt p hp p' hp'
    rw [(payment_unique hinv (getPaymentFromStore_eq hp)).2, (payment_unique hinv (getPaymentFromStore_eq hp')).2]
    exact hlt
  refine ⟨fun p => ?_, ?_, hsorted⟩
  · rw [hdef, List.mem_filterMap, mem_paymentRecords_iff hinv hnd]
    constructor
    · rintro ⟨e, he, hp⟩
      have hg := (mem_prefixStore s _ e).mp he
      rw [hkey] at hg
      obtain ⟨p', hp', htgt, _⟩ := (payment_listed_under_current_target_only hinv t src e.1).mp ⟨_, hg⟩
      have hgp := getPaymentFromStore_eq hp
      rw [hgp] at hp'
      cases hp'
      obtain ⟨h1, h2⟩ := payment_unique hinv hgp
      refine ⟨?_, htgt, h1⟩
      rw [h1, h2]; exact hgp
    · rintro ⟨hg, rfl, rfl⟩
      refine ⟨(p.ext, .empty), (mem_prefixStore s _ _).mpr ?_, ?_⟩
      · rw [hkey]
        exact hh.pay_indexed p hg _ (mem_paymentIndexEntries.mpr ⟨ht, rfl⟩)
      · unfold getPaymentFromStore
        simp only [hg]
  · refine hsorted.imp ?_
    intro p q hlt e
    rw [e, bytesLt_irrefl] at hlt
    cases hlt

example :
    let s := (run init [.pay ⟨[65], 3, [66], 0, [120], false, false⟩, .pay ⟨[65], 1, [67], 2, [], false, false⟩,
      .pay ⟨[68], 1, [66], 2, [121], false, true⟩, .pay ⟨[65], 5, [66], 1, [119, 1], true, false⟩]).kv
    getPaymentsForTargetAndSource s [66] [65] =
      [⟨[65], 5, [66], 1, [119, 1], true, false⟩, ⟨[65], 3, [66], 0, [120], false, false⟩] ∧
    getPaymentsForTargetAndSource s [66] [68] = [⟨[68], 1, [66], 2, [121], false, true⟩] ∧
    getPaymentsForTargetAndSource s [67] [68] = [] ∧
    (paymentRecords s).filter (fun p => p.target = [66] ∧ p.source = [65]) =
      [⟨[65], 5, [66], 1, [119, 1], true, false⟩, ⟨[65], 3, [66], 0, [120], false, false⟩] := by decide

/-! ### 3. all payments -/

/-- **`GetAllPayments` lists exactly the stored payments, in key order**: the scan of the whole payment
family `0x70`, rendered as the driver renders it, is `specPayments s .all`, forward and reversed. -/
theorem allPayments_exact {s : Store} (hinv : IndexInv s) (hnd : KeysNodup s) :
    (prefixStore s prefixPayment).filterMap
        (fun e => match e.2 with | .payment p => some p | _ => none) = specPayments s .all false ∧
    (prefixStore s prefixPayment).reverse.filterMap
        (fun e => match e.2 with | .payment p => some p | _ => none) = specPayments s .all true := by
  have hh := (indexInvF_iff.mp hinv).2
  have key : ∀ e ∈ prefixStore s prefixPayment, ∀ p, payOfEntry e = some p →
      s.get (keyPayment p.source p.ext) = some (.payment p) ∧ e.1 = paymentSortKey p := by
    intro e he p hp
    have hg : s.get (112 :: e.1) = some e.2 := (mem_prefixStore s _ e).mp he
    rw [payOfEntry_eq_some.mp hp] at hg
    obtain ⟨p', hv, hk⟩ := hh.pay_key _ _ hg
    cases hv
    refine ⟨hk ▸ hg, ?_⟩
    simpa [keyPayment, paymentSortKey] using hk
  refine scan_eq_spec hinv hnd .all payOfEntry ?_ ?_
  · refine scan_sorted (sorted_prefixStore s _) payOfEntry [] (fun e he p hp => ?_)
    rw [List.nil_append]
    exact (key e he p hp).2.symm
  · intro p
    rw [List.mem_filterMap, mem_paymentRecords_iff hinv hnd]
    constructor
    · rintro ⟨e, he, hp⟩
      exact ⟨(key e he p hp).1, rfl⟩
    · rintro ⟨hg, _⟩
      exact ⟨(paymentSortKey p, .payment p), (mem_prefixStore s _ _).mpr hg, rfl⟩

theorem allPayments_exact_rev {s : Store} (hinv : IndexInv s) (hnd : KeysNodup s) :
    (prefixStore s prefixPayment).reverse.filterMap
        (fun e => match e.2 with | .payment p => some p | _ => none) = specPayments s .all true :=
  (allPayments_exact hinv hnd).2

example :
    let s := (run init [.pay ⟨[65], 3, [66], 0, [120], false, false⟩, .pay ⟨[65], 1, [67], 2, [], false, false⟩,
      .pay ⟨[68], 1, [66], 2, [121], false, true⟩, .pay ⟨[65, 1], 1, [], 2, [7], false, false⟩]).kv
    let f : Entry → Option Payment := fun e => match e.2 with | .payment p => some p | _ => none
    (prefixStore s prefixPayment).filterMap f =
      [⟨[65], 1, [67], 2, [], false, false⟩, ⟨[65], 3, [66], 0, [120], false, false⟩,
       ⟨[68], 1, [66], 2, [121], false, true⟩, ⟨[65, 1], 1, [], 2, [7], false, false⟩] ∧
    specPayments s .all false = (prefixStore s prefixPayment).filterMap f ∧
    (prefixStore s prefixPayment).reverse.filterMap f = specPayments s .all true := by
  decide

/-! ### 4. payments for a target -/

/-- a length-prefixed NON-EMPTY address followed by anything parses back (the model's length byte is an
unbounded `Nat`; an empty address would give the length byte 0, which `parseLengthPrefixedAddr` refuses) -/
theorem parseLengthPrefixedAddr_lengthPrefix {src : Bytes} (hsrc : src ≠ []) (ext : Bytes) :
    parseLengthPrefixedAddr (lengthPrefix src ++ ext) = some (src, ext) := by
  have h0 : src.length ≠ 0 := fun h => hsrc (List.length_eq_zero_iff.mp h)
  have h1 : ¬ (src ++ ext).length < src.length := by rw [List.length_append]; omega
  simp only [lengthPrefix, List.cons_append, parseLengthPrefixedAddr]
  rw [if_neg h0, if_neg h1, List.take_left' rfl, List.drop_left' rfl]

/-- the empty source does NOT parse back: this is why `paymentsByTarget_exact` needs `hsrc` -/
example : parseLengthPrefixedAddr (lengthPrefix [] ++ [120]) = none := by decide

/-- how the driver renders an entry of the target index (`pageOnce`, "paytgt") -/
abbrev payOfTargetEntry (s : Store) : Entry → Option Payment := fun e =>
  match parseLengthPrefixedAddr e.1 with
  | some (src, ext) => getPaymentFromStore s src ext
  | none => none

/-- **`GetPaymentsWithTarget` lists exactly the payments whose current target is `a`, in key order**: the
scan of `prefixTargetToPayments a`, each entry resolved through `getPaymentFromStore` as the query does,
is `specPayments s (.target a)`, forward and reversed — provided no stored payment has an empty source. -/
theorem paymentsByTarget_exact {s : Store} (hinv : IndexInv s) (hnd : KeysNodup s) {a : Bytes} (ha : a ≠ [])
    (hsrc : ∀ p ∈ paymentRecords s, p.source ≠ []) :
    (prefixStore s (prefixTargetToPayments a)).filterMap
        (fun e => match parseLengthPrefixedAddr e.1 with
          | some (src, ext) => getPaymentFromStore s src ext
          | none => none) = specPayments s (.target a) false ∧
    (prefixStore s (prefixTargetToPayments a)).reverse.filterMap
        (fun e => match parseLengthPrefixedAddr e.1 with
          | some (src, ext) => getPaymentFromStore s src ext
          | none => none) = specPayments s (.target a) true := by
  have hh := (indexInvF_iff.mp hinv).2
  -- every entry of the scan is the index entry of a stored payment with target `a`, and renders to it
  have key : ∀ e ∈ prefixStore s (prefixTargetToPayments a), ∃ p,
      s.get (keyPayment p.source p.ext) = some (.payment p) ∧ p.target = a ∧ e.1 = paymentSortKey p ∧
      payOfTargetEntry s e = some p := by
    intro e he
    have hg : s.get (16 :: (lengthPrefix a ++ e.1)) = some e.2 := (mem_prefixStore s _ e).mp he
    obtain ⟨p, hp, hm⟩ := hh.pay_no_dangling _ _ hg
    obtain ⟨_, hk⟩ := mem_paymentIndexEntries.mp hm
    have hk1 : lengthPrefix a ++ e.1 = lengthPrefix p.target ++ (lengthPrefix p.source ++ p.ext) := by
      simpa [idxTargetToPayment] using congrArg Prod.fst hk
    obtain ⟨h1, h2⟩ := lengthPrefix_append_inj hk1
    refine ⟨p, hp, h1.symm, h2, ?_⟩
    have hne := hsrc p ((mem_paymentRecords_iff hinv hnd p).mpr hp)
    show (match parseLengthPrefixedAddr e.1 with
      | some (src, ext) => getPaymentFromStore s src ext
      | none => none) = some p
    rw [h2, parseLengthPrefixedAddr_lengthPrefix hne]
    show getPaymentFromStore s p.source p.ext = some p
    unfold getPaymentFromStore
    simp only [hp]
  refine scan_eq_spec hinv hnd (.target a) (payOfTargetEntry s) ?_ ?_
  · refine scan_sorted (sorted_prefixStore s _) _ [] (fun e he p hp => ?_)
    obtain ⟨p', _, _, h3, h4⟩ := key e he
    rw [h4] at hp
    cases hp
    rw [List.nil_append]
    exact h3.symm
  · intro p
    rw [List.mem_filterMap, mem_paymentRecords_iff hinv hnd]
    constructor
    · rintro ⟨e, he, hp⟩
      obtain ⟨p', h1, h2, _, h4⟩ := key e he
      rw [h4] at hp
      cases hp
      exact ⟨h1, by simp [PaymentLookup.matches, ha, h2]⟩
    · rintro ⟨hg, hm⟩
      have h1 : p.target = a := by
        simp only [PaymentLookup.matches, Bool.and_eq_true, decide_eq_true_eq] at hm
        exact hm.2
      have he : (paymentSortKey p, Val.empty) ∈ prefixStore s (prefixTargetToPayments a) := by
        refine (mem_prefixStore s _ _).mpr ?_
        have := hh.pay_indexed p hg _ (mem_paymentIndexEntries.mpr ⟨h1 ▸ ha, rfl⟩)
        rw [h1] at this
        exact this
      obtain ⟨p', h1', _, h3, h4⟩ := key _ he
      refine ⟨_, he, ?_⟩
      rw [h4]
      -- the same key: the same record
      have hk : keyPayment p.source p.ext = keyPayment p'.source p'.ext := by
        simp only [keyPayment]
        exact congrArg (List.cons 112) h3
      rw [hk, h1'] at hg
      cases hg
      rfl

theorem paymentsByTarget_exact_rev {s : Store} (hinv : IndexInv s) (hnd : KeysNodup s) {a : Bytes} (ha : a ≠ [])
    (hsrc : ∀ p ∈ paymentRecords s, p.source ≠ []) :
    (prefixStore s (prefixTargetToPayments a)).reverse.filterMap
        (fun e => match parseLengthPrefixedAddr e.1 with
          | some (src, ext) => getPaymentFromStore s src ext
          | none => none) = specPayments s (.target a) true :=
  (paymentsByTarget_exact hinv hnd ha hsrc).2

example :
    let s := (run init [.pay ⟨[65], 3, [66], 0, [120], false, false⟩, .pay ⟨[65], 1, [67], 2, [], false, false⟩,
      .pay ⟨[68], 1, [66], 2, [121], false, true⟩, .pay ⟨[65, 1], 1, [], 2, [7], false, false⟩,
      .payTarget [65] [] [66]]).kv
    let f : Entry → Option Payment := fun e =>
      match parseLengthPrefixedAddr e.1 with
      | some (src, ext) => getPaymentFromStore s src ext
      | none => none
    (paymentRecords s).all (fun p => p.source ≠ []) = true ∧
    (prefixStore s (prefixTargetToPayments [66])).filterMap f =
      [⟨[65], 1, [66], 2, [], false, false⟩, ⟨[65], 3, [66], 0, [120], false, false⟩,
       ⟨[68], 1, [66], 2, [121], false, true⟩] ∧
    specPayments s (.target [66]) false = (prefixStore s (prefixTargetToPayments [66])).filterMap f ∧
    (prefixStore s (prefixTargetToPayments [66])).reverse.filterMap f = specPayments s (.target [66]) true ∧
    (prefixStore s (prefixTargetToPayments [67])).filterMap f = [] ∧ specPayments s (.target [67]) false = [] := by
  decide

/-- a hand-made store (never reachable: `paymentValid` refuses an empty source) holding one payment with
the EMPTY source and its target-index entry -/
def emptySourceStore : Store :=
  [(keyPayment [] [120], .payment ⟨[], 1, [66], 0, [120], false, false⟩),
   (idxTargetToPayment [66] [] [120], .empty)]

/-- `hsrc` cannot be dropped: `emptySourceStore` has each key once and satisfies `IndexInv`, but the
by-target query does not list its payment (the index key `… | 0x00 | ext` does not parse back), while
`specPayments` does.  (The executable `checkInv` parses the index key the same way and therefore flags
this store as `dangling_target_index`.) -/
theorem paymentsByTarget_needs_nonempty_source :
    IndexInv emptySourceStore ∧ KeysNodup emptySourceStore ∧
    (prefixStore emptySourceStore (prefixTargetToPayments [66])).filterMap
        (fun e => match parseLengthPrefixedAddr e.1 with
          | some (src, ext) => getPaymentFromStore emptySourceStore src ext
          | none => none) = [] ∧
    specPayments emptySourceStore (.target [66]) false = [⟨[], 1, [66], 0, [120], false, false⟩] := by
  have hget : ∀ k, emptySourceStore.get k =
      if k = [112, 0, 120] then some (.payment ⟨[], 1, [66], 0, [120], false, false⟩)
      else if k = [16, 1, 66, 0, 120] then some .empty else none := by
    intro k
    simp only [emptySourceStore, get_cons, get_nil, keyPayment, idxTargetToPayment, lengthPrefix,
      List.length_nil, List.length_cons, List.nil_append, List.cons_append, eq_comm (b := k)]
  refine ⟨indexInvF_iff.mpr ⟨⟨?_, ?_, ?_⟩, ⟨?_, ?_, ?_⟩⟩, by unfold KeysNodup; decide, by decide, by decide⟩
  · intro r v h
    rw [hget] at h
    split_ifs at h with h1 h2 <;> simp_all
  · intro id o h
    rw [hget] at h
    split_ifs at h with h1 h2 <;> simp_all [keyOrder]
  · intro k v hk h
    rw [hget] at h
    split_ifs at h with h1 h2 <;> simp_all [isOrderIndexKey]
  · intro r v h
    rw [hget] at h
    split_ifs at h with h1 h2
    · cases h
      exact ⟨_, rfl, h1⟩
    · simp at h2
  · intro p h e he
    rw [hget] at h
    split_ifs at h with h1 h2
    · cases h
      obtain ⟨_, rfl⟩ := mem_paymentIndexEntries.mp he
      rw [hget]
      decide
    · simp [keyPayment] at h2
  · intro r v h
    rw [hget] at h
    split_ifs at h with h1 h2
    · simp at h1
    · cases h
      refine ⟨⟨[], 1, [66], 0, [120], false, false⟩, by rw [hget]; decide, ?_⟩
      rw [h2]
      decide

example : checkInv emptySourceStore = some "dangling_target_index" := by decide

end PvProofs.C13
