/-
C05 — Marker supply and lifecycle stay sound under every administration history.

Property theorems only (helpers: `PvProofs/Lemmas/LedgerSum.lean`, `MkrSupBasic.lean`,
`MkrSupPost.lean`, `MkrSupOps.lean`, `MkrSupStep.lean`).  The model is `PvModel.MkrSup`
(`exec` = one transaction-level operation on the real handlers' logic, `step` = `exec` with
transaction atomicity, `run` = a whole history).  Every theorem is for all states / all
operation lists; nothing is bounded.

Environment hypothesis, visible in the statements that need it (`EnvOK`, `EnvOKRun`): no module
other than `marker` mints or burns a denom while that denom has an active fixed-supply marker.
The code does not enforce it: `foreign_burn_breaks_supply_eq` is the concrete witness (a
governance deposit burn, reachable without wasm) of the drift the hypothesis rules out.
-/
import PvProofs.Lemmas.MkrSupStep

namespace PvProofs.C05
open PvModel PvModel.MkrSup PvModel.Ledger PvProofs.LedgerSum PvProofs.MkrSupL

/-! ### the four possible shapes of a step -/

theorem step_cases (s : State) (op : Op) :
    step s op = s ∨
    (op = .beginblock ∧ ∃ s', beginBlock s = .ok s' ∧ step s op = refreshPlain op s s') ∨
    (((∃ t d n, op = .fmint t d n) ∨ (∃ f d n, op = .govburn f d n)) ∧
      (step s op).markers = s.markers ∧ (NonNeg s.bank → NonNeg (step s op).bank) ∧
      (Consistent s.bank → Consistent (step s op).bank)) ∨
    (op ≠ .beginblock ∧ Post s (step s op) (opDenom op)) := by
  unfold step
  cases h : exec s op with
  | error e => left; rfl
  | ok s' =>
    right
    simp only
    by_cases hbb : op = .beginblock
    · left; subst hbb; exact ⟨rfl, s', h, rfl⟩
    · right
      by_cases henv : (∃ t d n, op = .fmint t d n) ∨ (∃ f d n, op = .govburn f d n)
      · left
        exact ⟨henv, (env_basic h henv).1, (env_basic h henv).2.1, (env_basic h henv).2.2⟩
      · right
        refine ⟨hbb, (exec_post h hbb ?_).refresh op s⟩
        cases op <;> first
          | trivial
          | (exfalso; apply henv; first | exact Or.inl ⟨_, _, _, rfl⟩ | exact Or.inr ⟨_, _, _, rfl⟩)

/-! ### (0) well-formedness and non-negative balances along every history (no hypothesis) -/

theorem wf_nonneg_step {s : State} (hwf : WF s) (hnn : NonNeg s.bank) (op : Op) :
    WF (step s op) ∧ NonNeg (step s op).bank := by
  rcases step_cases s op with h | ⟨_, s', h, hst⟩ | ⟨_, hm, hn, _⟩ | ⟨_, hp⟩
  · rw [h]; exact ⟨hwf, hnn⟩
  · obtain ⟨b, hb, he⟩ := beginBlock_ok h
    rw [hst, he]
    exact ⟨wf_filter hwf _ b, bbAdjust_nonneg hb hnn⟩
  · refine ⟨?_, hn hnn⟩
    unfold WF at *; rw [hm]; exact hwf
  · exact ⟨hp.wf hwf, hp.nonneg hnn⟩

theorem wf_nonneg_run {s : State} (hwf : WF s) (hnn : NonNeg s.bank) (ops : List Op) :
    WF (run s ops) ∧ NonNeg (run s ops).bank := by
  induction ops generalizing s with
  | nil => exact ⟨hwf, hnn⟩
  | cons op rest ih =>
    obtain ⟨h1, h2⟩ := wf_nonneg_step hwf hnn op
    exact ih h1 h2

theorem wf_init : WF {} := by simp [WF]
theorem nonneg_init : NonNeg ({} : State).bank := by intro a d; exact Int.le_refl 0

/-- **Every balance stays non-negative** after every history from the empty chain. -/
theorem balances_nonneg_after_every_history (ops : List Op) : NonNeg (run {} ops).bank :=
  (wf_nonneg_run wf_init nonneg_init ops).2

/-! ### (1) record supply = bank supply for active fixed-supply markers, after EVERY transaction -/

/-- One transaction-level operation preserves the supply equality — begin-block repair is not
used: the statement is about the state right after the operation. -/
theorem supply_eq_record_step {s : State} (hwf : WF s) (hinv : SupplyInv s) (op : Op)
    (henv : EnvOK s op) : SupplyInv (step s op) := by
  unfold step
  cases h : exec s op with
  | error e => exact hinv
  | ok s' =>
    simp only
    by_cases hbb : op = .beginblock
    · subst hbb; exact supplyInv_refresh (beginBlock_supplyInv hwf h) _ s
    · exact supplyInv_refresh (supplyInv_of_post (exec_post h hbb henv) hinv) op s

/-- **For every history** of add / finalize / activate / mint / burn / withdraw / transfer /
cancel / delete / access changes / governance handlers / parameter changes / bank sends /
begin-blocks (and foreign mints or burns that respect the hypothesis), **after every
operation** each active fixed-supply marker's recorded supply equals the bank supply. -/
theorem supply_eq_record_after_every_tx {s : State} (hwf : WF s) (hnn : NonNeg s.bank) (hinv : SupplyInv s) :
    ∀ ops, EnvOKRun s ops → SupplyInv (run s ops) := by
  intro ops
  induction ops generalizing s with
  | nil => intro _; exact hinv
  | cons op rest ih =>
    intro henv
    obtain ⟨h1, h2⟩ := henv
    obtain ⟨hwf', hnn'⟩ := wf_nonneg_step hwf hnn op
    exact ih hwf' hnn' (supply_eq_record_step hwf hinv op h1) h2

theorem supplyInv_init : SupplyInv {} := by
  intro d m hm; simp [State.find] at hm

/-- the same from the empty chain -/
theorem supply_eq_record_from_genesis (ops : List Op) (henv : EnvOKRun {} ops) : SupplyInv (run {} ops) :=
  supply_eq_record_after_every_tx wf_init nonneg_init supplyInv_init ops henv

/-- The equality does not depend on the begin-block correction: whenever it holds, `BeginBlocker`
leaves every balance and every supply untouched. -/
theorem beginblock_is_noop_on_bank_when_supply_eq {s s' : State} (hwf : WF s) (hinv : SupplyInv s)
    (h : exec s .beginblock = .ok s') : s'.bank = s.bank :=
  beginBlock_bank_unchanged hwf hinv h

/-- `BeginBlocker` (when it does not panic) re-establishes the equality from any state. -/
theorem beginblock_restores_supply_eq {s s' : State} (hwf : WF s) (h : exec s .beginblock = .ok s') :
    SupplyInv s' :=
  beginBlock_supplyInv hwf h

/-- history used by the witnesses below: an active fixed-supply coin marker `mka` with supply 100,
of which `B` holds 10. -/
def witnessOps : List Op :=
  [.addfa { sender := "A", denom := "mka", amt := 100, status := .proposed, restricted := false,
            fixed := true, gov := true, forced := false, manager := "A",
            access := [("A", [.mint, .burn, .withdraw, .delete, .admin])] },
   .withdraw "A" "B" "mka" [("mka", 10)]]

def witnessState : State := run {} witnessOps

theorem witnessState_inv : SupplyInv witnessState :=
  supply_eq_record_from_genesis witnessOps ⟨trivial, trivial, trivial⟩

/-- the hypothesis is satisfiable by histories that do contain foreign mints: pre-existing supply
minted before the marker exists -/
example : EnvOKRun {} (.fmint "B" "mka" 7 :: witnessOps) :=
  ⟨by intro m hm; simp [State.find] at hm, trivial, trivial, trivial⟩

/-- **The unconditional statement is false of the code** (known finding C05-foreign-burn-drift):
a governance deposit of 5mka by `B` that is then burned (`DeleteAndBurnDeposits`) leaves the
active fixed-supply marker recording 100 while the bank supply is 95, until the next block. -/
theorem foreign_burn_breaks_supply_eq :
    SupplyInv witnessState ∧ ¬ SupplyInv (step witnessState (.govburn "B" "mka" 5)) := by
  refine ⟨witnessState_inv, ?_⟩
  intro h
  have hf : ((step witnessState (.govburn "B" "mka" 5)).find "mka").map
      (fun m => (m.status, m.fixed, m.supply)) = some (.active, true, 100) := by decide
  have hs : (step witnessState (.govburn "B" "mka" 5)).bank.supply "mka" = 95 := by decide
  cases hm : (step witnessState (.govburn "B" "mka" 5)).find "mka" with
  | none => rw [hm] at hf; cases hf
  | some m =>
    rw [hm] at hf
    simp only [Option.map_some, Option.some.injEq, Prod.mk.injEq] at hf
    have := h "mka" m hm hf.1 hf.2.1
    rw [hs, hf.2.2] at this
    omega

/-- the supply theorem holds only `_partial`ly without the hypothesis: what remains true for
*every* history (foreign burns included) is that the next successful `BeginBlocker` repairs it. -/
theorem supply_eq_record_partial {s : State} (hwf : WF s) (hnn : NonNeg s.bank) (ops : List Op)
    {s' : State} (h : exec (run s ops) .beginblock = .ok s') : SupplyInv s' :=
  beginBlock_supplyInv (wf_nonneg_run hwf hnn ops).1 h

/-! ### (2) bank supply = Σ balances, for every denom

The bank's supply store (`Bank.sup`, read by `GetSupply`) and its balances (`Bank.led`) are two
independent pieces of state: a mint that forgets the credit, or a burn that forgets the debit,
is a perfectly well-formed `Bank` (`supply_store_is_independent_of_balances`).  That they agree
after every history is an invariant proved by induction over the operation list. -/

/-- The clause is not true by definition: a bank whose supply store says 5 while no balance exists
(a "mint without credit"), or whose balances hold 5 that the supply store does not know of (a
"burn without debit" / "credit without mint"), is expressible and violates it. -/
theorem supply_store_is_independent_of_balances :
    ¬ Consistent { led := [], sup := [("mka", 5)] } ∧
    ¬ Consistent { led := [⟨"A", "mka", 5⟩], sup := [] } ∧
    ¬ Consistent (({} : Bank).mintTo "A" [("mka", 5)] |>.burnFrom "A" [("mka", 5)]
                    |> fun b => { b with sup := b.sup ++ [("mka", 1)] }) := by
  refine ⟨fun h => ?_, fun h => ?_, fun h => ?_⟩ <;>
    (have := h "mka"; revert this; decide)

/-- One transaction-level operation — ANY operation, foreign mints and burns included, no
environment hypothesis — keeps the stored supply equal to the sum of the balances. -/
theorem bank_supply_eq_sum_step {s : State} (hc : Consistent s.bank) (op : Op) :
    Consistent (step s op).bank := by
  rcases step_cases s op with h | ⟨_, s', h, hst⟩ | ⟨_, _, _, hcs⟩ | ⟨_, hp⟩
  · rw [h]; exact hc
  · obtain ⟨b, hb, he⟩ := beginBlock_ok h
    rw [hst, he]
    exact bbAdjust_cons hb hc
  · exact hcs hc
  · exact hp.cons hc

theorem bank_supply_eq_sum_run {s : State} (hc : Consistent s.bank) (ops : List Op) :
    Consistent (run s ops).bank := by
  induction ops generalizing s with
  | nil => exact hc
  | cons op rest ih => exact ih (bank_supply_eq_sum_step hc op)

theorem consistent_init : Consistent ({} : State).bank := by intro d; rfl

/-- **For every history from the empty chain and every denom, the bank's stored supply
(`GetSupply`) equals the sum of all balance entries of the denom.** -/
theorem bank_supply_store_eq_balances_after_every_history (ops : List Op) (d : Denom) :
    (run {} ops).bank.supply d = (run {} ops).bank.led.supply d :=
  bank_supply_eq_sum_run consistent_init ops d

/-- **For every ledger**: the sum of all balance entries of a denom is the sum of the balances of
the accounts (any duplicate-free list of accounts that covers every account that ever received or
sent) — the arithmetic half of the clause. -/
theorem bank_supply_eq_sum_of_balances (l : Ledger) (d : Denom) (accounts : List Addr)
    (hnd : accounts.Nodup) (hcov : ∀ e ∈ l, e.addr ∈ accounts) :
    l.supply d = sumBal l d accounts :=
  supply_eq_sumBal d accounts l hnd hcov

/-- **bank supply = Σ balances after every history**: what `GetSupply d` returns (the supply
store, written only by `MintCoins` / `BurnCoins`) is the sum over the accounts of `GetBalance a d`. -/
theorem bank_supply_eq_sum_after_every_history (ops : List Op) (d : Denom) (accounts : List Addr)
    (hnd : accounts.Nodup) (hcov : ∀ e ∈ (run {} ops).bank.led, e.addr ∈ accounts) :
    (run {} ops).bank.supply d = sumBal (run {} ops).bank.led d accounts := by
  rw [bank_supply_store_eq_balances_after_every_history]
  exact supply_eq_sumBal d accounts _ hnd hcov

example : (run {} witnessOps).bank.supply "mka" = sumBal (run {} witnessOps).bank.led "mka" ["@mka", "B"] := by
  decide

example : ∀ e ∈ (run {} witnessOps).bank.led, e.addr ∈ ["@mka", "B"] := by decide

/-- withdraw, transfer, the governance escrow withdrawal and plain sends move coins but never
change any supply -/
theorem moves_preserve_every_supply {s s' : State} {op : Op} (h : exec s op = .ok s')
    (hop : (∃ c t d cs, op = .withdraw c t d cs) ∨ (∃ a f t d n, op = .transfer a f t d n) ∨
      (∃ au d t cs, op = .govwithdraw au d t cs) ∨ (∃ f t d n, op = .send f t d n)) (d' : Denom) :
    s'.bank.supply d' = s.bank.supply d' := by
  rcases hop with ⟨c, t, d, cs, rfl⟩ | ⟨a, f, t, d, n, rfl⟩ | ⟨au, d, t, cs, rfl⟩ | ⟨f, t, d, n, rfl⟩
  · simp only [exec, withdrawCoins, bind_ok, check_ok, pure_ok] at h
    obtain ⟨_, _, m, _, _, _, _, _, _, _, _, _, b, hb, rfl⟩ := h
    exact send_supply hb d'
  · simp only [exec, transferCoin, bind_ok, check_ok, pure_ok] at h
    obtain ⟨_, _, m, _, _, _, _, _, _, _, _, _, _, _, _, _, _, _, b, hb, rfl⟩ := h
    exact send_supply hb d'
  · simp only [exec, govWithdrawEscrow, bind_ok, check_ok, pure_ok] at h
    obtain ⟨_, _, _, _, _, _, b, hb, rfl⟩ := h
    exact send_supply hb d'
  · simp only [exec, bankSend, bind_ok, check_ok, pure_ok] at h
    obtain ⟨_, _, _, _, b, hb, _, _, rfl⟩ := h
    exact send_supply hb d'

/-! ### (3) minting into an active marker never exceeds the maximum -/

theorem mint_into_active_le_max {s s' : State} {c : Addr} {d : Denom} {n : Int} {m : Marker}
    (h : exec s (.mint c d n) = .ok s') (hm : s.find d = some m) (ha : m.status = .active) :
    s'.bank.supply d = s.bank.supply d + n ∧ s'.bank.supply d ≤ s.maxSupply ∧
      (∀ a d', s'.bank.bal a d' = s.bank.bal a d' + if acct d = a ∧ d = d' then n else 0) := by
  simp only [exec, mintCoin, bind_ok, check_ok, pure_ok] at h
  obtain ⟨_, _, m0, hm0, _, _, h⟩ := h
  have hm0' := getMarker_ok hm0
  rw [hm] at hm0'; cases hm0'
  have hd := find_denom hm
  subst hd
  rw [if_neg (by rw [ha]; decide), if_neg (by rw [ha]; decide)] at h
  obtain ⟨_, hmax, hsup, hbal⟩ := increaseSupply_spec hm h
  exact ⟨hsup, by rw [hsup]; exact hmax, hbal⟩

theorem gov_increase_of_active_le_max {s s' : State} {au : Addr} {d : Denom} {n : Int} {t : Addr}
    {m : Marker} (h : exec s (.govinc au d n t) = .ok s') (hm : s.find d = some m)
    (ha : m.status = .active) :
    s'.bank.supply d = s.bank.supply d + n ∧ s'.bank.supply d ≤ s.maxSupply := by
  simp only [exec, govSupplyIncrease, bind_ok, check_ok, pure_ok] at h
  obtain ⟨_, _, _, _, m0, hm0, h⟩ := h
  have hm0' := (govMarker_ok hm0).1
  rw [hm] at hm0'; cases hm0'
  have hd := find_denom hm
  subst hd
  rw [if_neg (by rw [ha]; decide), if_neg (by rw [ha]; decide)] at h
  simp only [bind_ok, pure_ok] at h
  obtain ⟨s1, hs1, h⟩ := h
  obtain ⟨_, hmax, hsup, _⟩ := increaseSupply_spec hm hs1
  split at h
  · simp only [bind_ok, pure_ok] at h
    obtain ⟨b, hb, rfl⟩ := h
    have : b.supply m.denom = s1.bank.supply m.denom := send_supply hb m.denom
    exact ⟨by show b.supply m.denom = _; rw [this, hsup], by show b.supply m.denom ≤ _; rw [this, hsup]; exact hmax⟩
  · simp only [pure_ok] at h
    subst h
    exact ⟨hsup, by rw [hsup]; exact hmax⟩

example : ∃ s', exec witnessState (.mint "A" "mka" 7) = .ok s' ∧ s'.bank.supply "mka" = 107 := by
  refine ⟨_, rfl, ?_⟩
  decide

/-- A configured maximum that is already reached freezes minting: with `max_supply` at or below
what exists of the denom (in particular `max_supply = 0`, the smallest value `Params.Validate`
lets governance store, and any negative one) no positive `MsgMint` into an active marker is
accepted. -/
theorem mint_into_active_rejected_once_max_reached {s : State} {c : Addr} {d : Denom} {n : Int}
    {m : Marker} (hm : s.find d = some m) (ha : m.status = .active)
    (hmax : s.maxSupply ≤ s.bank.supply d) (hn : 0 < n) (s' : State) :
    exec s (.mint c d n) ≠ .ok s' := by
  intro h
  obtain ⟨hsup, hle, _⟩ := mint_into_active_le_max h hm ha
  omega

/-- the same for the governance supply-increase proposal -/
theorem gov_increase_of_active_rejected_once_max_reached {s : State} {au : Addr} {d : Denom}
    {n : Int} {t : Addr} {m : Marker} (hm : s.find d = some m) (ha : m.status = .active)
    (hmax : s.maxSupply ≤ s.bank.supply d) (hn : 0 < n) (s' : State) :
    exec s (.govinc au d n t) ≠ .ok s' := by
  intro h
  obtain ⟨hsup, hle⟩ := gov_increase_of_active_le_max h hm ha
  omega

/-- A governance `UpdateParams` is in force for the very next transaction: whatever the old
maximum was and whatever the deprecated `max_total_supply` carries (`mts`, any value), a mint or
supply-increase proposal into an active marker after it is bounded by the NEW `max_supply`; the
update itself touches neither the marker records nor the bank. -/
theorem params_update_bounds_the_next_mint {s s1 s2 : State} {au : Addr} {mx mts : Int} {eg : Bool}
    {d : Denom} {m : Marker} (hp : exec s (.params au mx mts eg) = .ok s1)
    (hm : s1.find d = some m) (ha : m.status = .active) :
    s1.markers = s.markers ∧ s1.bank = s.bank ∧
    (∀ c n, exec s1 (.mint c d n) = .ok s2 → s2.bank.supply d ≤ mx) ∧
    (∀ au' n t, exec s1 (.govinc au' d n t) = .ok s2 → s2.bank.supply d ≤ mx) := by
  simp only [exec, updateParams, bind_ok, check_ok, pure_ok] at hp
  obtain ⟨_, _, rfl⟩ := hp
  refine ⟨rfl, rfl, fun c n h => ?_, fun au' n t h => ?_⟩
  · exact (mint_into_active_le_max h hm ha).2.1
  · exact (gov_increase_of_active_le_max h hm ha).2

/-- non-trivial instance: the witness marker is active with 100 coins; governance sets
`max_supply = 0` (legacy field 5000): the next mint of 1 is rejected, as it is with the maximum
set to exactly the existing supply, while a maximum of 101 admits exactly one more coin. -/
example : exec (step witnessState (.params GOV 0 5000 true)) (.mint "A" "mka" 1) = .error .max ∧
    exec (step witnessState (.params GOV 100 0 true)) (.mint "A" "mka" 1) = .error .max ∧
    exec (step witnessState (.params GOV (-1) 0 true)) (.mint "A" "mka" 1) = .error .negcoin ∧
    (∃ s', exec (step witnessState (.params GOV 101 0 true)) (.mint "A" "mka" 1) = .ok s') ∧
    exec (step witnessState (.params GOV 101 0 true)) (.mint "A" "mka" 2) = .error .max := by
  exact ⟨rfl, rfl, rfl, ⟨_, rfl⟩, rfl⟩

/-- The maximum is enforced only on that path: activating a marker whose configured supply was
raised above the maximum while still proposed mints past it.  The exact bound that holds at
activation (bank supply = recorded supply, `max_supply` not consulted) and the reading of the
clause are in `PvProofs.C05Deep`, section (3b). -/
theorem activation_is_not_bounded_by_max :
    (run {} [.params GOV 50 0 true,
             .add { sender := "A", denom := "mka", amt := 10, status := .proposed, restricted := false,
                    fixed := true, gov := false, forced := false, manager := "A", access := [("A", [.mint])] },
             .mint "A" "mka" 1000, .finalize "A" "mka", .activate "A" "mka"]).bank.supply "mka" = 1010 := by
  decide

/-! ### (4) burning only debits the marker's own account -/

/-- `MsgBurn`: no balance other than the marker's own balance of its own denom changes; on an
active marker exactly `n` coins leave that account and the supply. -/
theorem burn_only_debits_marker_account {s s' : State} {c : Addr} {d : Denom} {n : Int}
    (h : exec s (.burn c d n) = .ok s') :
    (∀ a d', (a ≠ acct d ∨ d' ≠ d) → s'.bank.bal a d' = s.bank.bal a d') ∧
    (∀ m, s.find d = some m → m.status = .active →
      s'.bank.bal (acct d) d = s.bank.bal (acct d) d - n ∧ s'.bank.supply d = s.bank.supply d - n ∧
      n ≤ s.bank.bal (acct d) d) := by
  simp only [exec, burnCoin, bind_ok, check_ok, pure_ok] at h
  obtain ⟨_, _, m0, hm0, _, _, h⟩ := h
  have hm0' := getMarker_ok hm0
  have hd := find_denom hm0'
  subst hd
  split at h
  · rename_i hst
    simp only [bind_ok, check_ok, pure_ok] at h
    obtain ⟨_, _, _, _, rfl⟩ := h
    refine ⟨fun _ _ _ => rfl, ?_⟩
    intro m hm ha
    rw [hm0'] at hm; cases hm
    rcases hst with hst | hst <;> (rw [hst] at ha; cases ha)
  · split at h
    · cases h
    · obtain ⟨_, hesc, hsup, hbal⟩ := decreaseSupply_spec hm0' h
      refine ⟨?_, ?_⟩
      · intro a d' hne
        rw [hbal a d']
        have : ¬ (acct m0.denom = a ∧ m0.denom = d') := by
          intro ⟨h1, h2⟩
          rcases hne with hne | hne
          · exact hne h1.symm
          · exact hne h2.symm
        simp [this]
      · intro m hm _
        refine ⟨?_, hsup, hesc⟩
        rw [hbal]; simp; omega

/-- the governance supply decrease and the deletion burn from the same account only (the
governance destroy, `govstatus … destroyed`: `gov_destroy_only_debits_marker_account` and
`gov_destroy_burns_whole_supply_from_escrow` in `PvProofs.C05Deep`) -/
theorem gov_decrease_only_debits_marker_account {s s' : State} {au : Addr} {d : Denom} {n : Int}
    (h : exec s (.govdec au d n) = .ok s') :
    (∀ a d', (a ≠ acct d ∨ d' ≠ d) → s'.bank.bal a d' = s.bank.bal a d') ∧
      s'.bank.bal (acct d) d = s.bank.bal (acct d) d - n ∧ s'.bank.supply d = s.bank.supply d - n := by
  simp only [exec, govSupplyDecrease, bind_ok, check_ok, pure_ok] at h
  obtain ⟨_, _, _, _, m0, hm0, h⟩ := h
  have hm0' := (govMarker_ok hm0).1
  have hd := find_denom hm0'
  subst hd
  obtain ⟨_, _, hsup, hbal⟩ := decreaseSupply_spec hm0' h
  refine ⟨?_, ?_, hsup⟩
  · intro a d' hne
    rw [hbal a d']
    have : ¬ (acct m0.denom = a ∧ m0.denom = d') := by
      intro ⟨h1, h2⟩
      rcases hne with hne | hne
      · exact hne h1.symm
      · exact hne h2.symm
    simp [this]
  · rw [hbal]; simp; omega

theorem delete_only_debits_marker_account {s s' : State} {c : Addr} {d : Denom}
    (h : exec s (.delete c d) = .ok s') :
    (∀ a d', (a ≠ acct d ∨ d' ≠ d) → s'.bank.bal a d' = s.bank.bal a d') ∧
      s'.bank.supply d = 0 ∧ s'.bank.bal (acct d) d = s.bank.bal (acct d) d - s.bank.supply d := by
  simp only [exec, deleteMarker, bind_ok, check_ok, pure_ok] at h
  obtain ⟨m, hm, _, _, _, _, _, _, s1, hs1, _, _, m2, _, _, _, rfl⟩ := h
  have hm' := getMarker_ok hm
  have hd := find_denom hm'
  subst hd
  obtain ⟨_, _, hsup, hbal⟩ := decreaseSupply_spec hm' hs1
  refine ⟨?_, ?_, ?_⟩
  · intro a d' hne
    show s1.bank.bal a d' = _
    rw [hbal a d']
    have : ¬ (acct m.denom = a ∧ m.denom = d') := by
      intro ⟨h1, h2⟩
      rcases hne with hne | hne
      · exact hne h1.symm
      · exact hne h2.symm
    simp [this]
  · show s1.bank.supply m.denom = 0
    rw [hsup]; omega
  · show s1.bank.bal (acct m.denom) m.denom = _
    rw [hbal]; simp; omega

/-! ### (5) status never moves backwards -/

/-- One operation never lowers the status of an existing marker. -/
theorem status_never_backwards_step {s : State} (hwf : WF s) (op : Op) {d : Denom} {m m' : Marker}
    (hm : s.find d = some m) (hm' : (step s op).find d = some m') : m.status ≤ m'.status := by
  rcases step_cases s op with h | ⟨_, s1, h, hst⟩ | ⟨_, hmk, _, _⟩ | ⟨_, hp⟩
  · rw [h, hm] at hm'; cases hm'; exact status_le_refl _
  · have := find_beginBlock hwf h d
    rw [hst, refresh_find] at hm'
    rw [hm', hm] at this
    simp only at this
    split at this
    · cases this
    · cases this; exact status_le_refl _
  · have : (step s op).find d = s.find d := by unfold State.find; rw [hmk]
    rw [this, hm] at hm'; cases hm'; exact status_le_refl _
  · by_cases hd : d = opDenom op
    · subst hd
      obtain ⟨m1, hm1, hle⟩ := hp.mono m hm
      rw [hm1] at hm'; cases hm'; exact hle
    · rw [hp.find_ne d hd, hm] at hm'; cases hm'; exact status_le_refl _

/-- A marker record only disappears at a begin-block, and only once it is destroyed — the end
of that marker incarnation. -/
theorem marker_removed_only_when_destroyed {s : State} (hwf : WF s) (op : Op) {d : Denom} {m : Marker}
    (hm : s.find d = some m) (hnone : (step s op).find d = none) :
    op = .beginblock ∧ m.status = .destroyed := by
  rcases step_cases s op with h | ⟨hop, s1, h, hst⟩ | ⟨_, hmk, _, _⟩ | ⟨_, hp⟩
  · rw [h, hm] at hnone; cases hnone
  · refine ⟨hop, ?_⟩
    have := find_beginBlock hwf h d
    rw [hst, refresh_find] at hnone
    rw [hnone, hm] at this
    simp only at this
    split at this
    · assumption
    · cases this
  · have : (step s op).find d = s.find d := by unfold State.find; rw [hmk]
    rw [this, hm] at hnone; cases hnone
  · by_cases hd : d = opDenom op
    · subst hd
      obtain ⟨m1, hm1, _⟩ := hp.mono m hm
      rw [hm1] at hnone; cases hnone
    · rw [hp.find_ne d hd, hm] at hnone; cases hnone

/-- the marker of `d` is never removed along the history (one incarnation) -/
def NeverRemoved (d : Denom) : State → List Op → Prop
  | _, [] => True
  | s, op :: rest => ((step s op).find d).isSome ∧ NeverRemoved d (step s op) rest

/-- **Within one marker incarnation the status never moves backwards**, over every history. -/
theorem status_never_backwards {d : Denom} : ∀ (ops : List Op) {s : State} {m m' : Marker}, WF s →
    NonNeg s.bank → NeverRemoved d s ops → s.find d = some m → (run s ops).find d = some m' →
    m.status ≤ m'.status := by
  intro ops
  induction ops with
  | nil => intro s m m' _ _ _ hm hm'; rw [show run s [] = s from rfl, hm] at hm'; cases hm'; exact status_le_refl _
  | cons op rest ih =>
    intro s m m' hwf hnn hnr hm hm'
    obtain ⟨hsome, hrest⟩ := hnr
    cases hm1 : (step s op).find d with
    | none => rw [hm1] at hsome; cases hsome
    | some m1 =>
      obtain ⟨hwf', hnn'⟩ := wf_nonneg_step hwf hnn op
      exact status_le_trans (status_never_backwards_step hwf op hm hm1) (ih hwf' hnn' hrest hm1 hm')

example : NeverRemoved "mka" {} witnessOps := ⟨by decide, by decide, trivial⟩

/-! ### (6) destroy / administrator cancel only with every coin in the marker's own account -/

theorem allInEscrow_of_escrowed {s : State} (hnn : NonNeg s.bank) (hc : Consistent s.bank)
    {d : Denom} (h : Escrowed s d) : AllInEscrow s d := by
  unfold Escrowed at h
  rw [hc d] at h
  rcases h with h | h
  · exact others_zero_of_holds_all (l := s.bank.led) hnn h
  · intro a _
    have h1 := bal_le_supply (l := s.bank.led) hnn a d
    have h2 := hnn a d
    show s.bank.led.bal a d = 0
    have h2' : 0 ≤ s.bank.led.bal a d := h2
    omega

/-- **Whatever operation moves an existing marker into `destroyed`** (MsgDelete, the governance
status change, …), in the state before it no coin of the denom was held outside the marker's own
account. -/
theorem destroy_requires_all_in_escrow {s : State} (hwf : WF s) (hnn : NonNeg s.bank)
    (hc : Consistent s.bank) (op : Op)
    {d : Denom} {m m' : Marker} (hm : s.find d = some m) (hm' : (step s op).find d = some m')
    (hnot : m.status ≠ .destroyed) (hdes : m'.status = .destroyed) : AllInEscrow s d := by
  rcases step_cases s op with h | ⟨_, s1, h, hst⟩ | ⟨_, hmk, _, _⟩ | ⟨_, hp⟩
  · rw [h, hm] at hm'; cases hm'; exact absurd hdes hnot
  · have := find_beginBlock hwf h d
    rw [hst, refresh_find] at hm'
    rw [hm', hm] at this
    simp only at this
    split at this
    · cases this
    · cases this; exact absurd hdes hnot
  · have : (step s op).find d = s.find d := by unfold State.find; rw [hmk]
    rw [this, hm] at hm'; cases hm'; exact absurd hdes hnot
  · by_cases hd : d = opDenom op
    · subst hd
      rcases hp.destroyed m m' hm hm' hdes with h | h
      · exact absurd h hnot
      · exact allInEscrow_of_escrowed hnn hc h
    · rw [hp.find_ne d hd, hm] at hm'; cases hm'; exact absurd hdes hnot

/-- **`MsgCancel` of a finalized or active marker** succeeds only when the caller holds
`ACCESS_DELETE` and no coin of the denom is held outside the marker's own account. -/
theorem admin_cancel_requires_all_in_escrow {s s' : State} (hnn : NonNeg s.bank)
    (hc : Consistent s.bank) {c : Addr}
    {d : Denom} {m : Marker} (h : exec s (.cancel c d) = .ok s') (hm : s.find d = some m)
    (hst : m.status = .finalized ∨ m.status = .active) :
    AllInEscrow s d ∧ m.hasAccess c .delete = true := by
  simp only [exec, cancelMarker, bind_ok, check_ok, pure_ok] at h
  obtain ⟨m0, hm0, h⟩ := h
  have hm0' := getMarker_ok hm0
  rw [hm] at hm0'; cases hm0'
  have key : ∀ {x : Bool}, ((!decide (0 < s.bank.supply d - s.bank.bal (acct d) d)) = true) →
      x = true → AllInEscrow s d ∧ x = true := by
    intro x hesc hx
    refine ⟨allInEscrow_of_escrowed hnn hc (Or.inl ?_), hx⟩
    have : ¬ (0 < s.bank.supply d - s.bank.bal (acct d) d) := by simpa using hesc
    omega
  split at h
  · simp only [bind_ok, check_ok, pure_ok] at h
    obtain ⟨_, hacc, _, hesc, _⟩ := h
    exact key hesc hacc
  · simp only [bind_ok, check_ok, pure_ok] at h
    obtain ⟨_, hacc, _, hesc, _⟩ := h
    exact key hesc hacc
  · rename_i hp; rcases hst with h1 | h1 <;> (rw [h1] at hp; cases hp)
  · rename_i hp; rcases hst with h1 | h1 <;> (rw [h1] at hp; cases hp)
  · rename_i h1 h2 h3 h4
    rcases hst with hx | hx
    · exact absurd hx h1
    · exact absurd hx h2

example : ∃ s', exec witnessState (.cancel "A" "mka") = .error .escrow ∧
    exec witnessState (.transfer "A" "A" "A" "mka" 0) = .error .type ∧
    exec (run witnessState [.send "B" "@mka" "mka" 10]) (.cancel "A" "mka") = .ok s' := by
  exact ⟨_, rfl, rfl, rfl⟩

/-- The clause is about the marker's administrators: the governance status change can cancel an
active marker while coins are held outside (observation, not a violation of the property). -/
theorem gov_cancel_skips_escrow_check :
    ((step witnessState (.govstatus GOV "mka" .cancelled)).find "mka").map (·.status) = some .cancelled ∧
      witnessState.bank.bal "B" "mka" = 10 := by
  decide

/-! ### (7) who may do what: the access guards of the supply / lifecycle endpoints -/

theorem mint_requires_mint_access {s s' : State} {c : Addr} {d : Denom} {n : Int}
    (h : exec s (.mint c d n) = .ok s') : ∃ m, s.find d = some m ∧ m.hasAccess c .mint = true ∧ 0 ≤ n := by
  simp only [exec, mintCoin, bind_ok, check_ok, pure_ok] at h
  obtain ⟨_, hn, m, hm, _, hacc, _⟩ := h
  exact ⟨m, getMarker_ok hm, hacc, by simpa using hn⟩

theorem burn_requires_burn_access {s s' : State} {c : Addr} {d : Denom} {n : Int}
    (h : exec s (.burn c d n) = .ok s') : ∃ m, s.find d = some m ∧ m.hasAccess c .burn = true ∧ 0 ≤ n := by
  simp only [exec, burnCoin, bind_ok, check_ok, pure_ok] at h
  obtain ⟨_, hn, m, hm, _, hacc, _⟩ := h
  exact ⟨m, getMarker_ok hm, hacc, by simpa using hn⟩

theorem withdraw_requires_withdraw_access_and_active {s s' : State} {c t : Addr} {d : Denom} {cs : Coins}
    (h : exec s (.withdraw c t d cs) = .ok s') :
    ∃ m, s.find d = some m ∧ m.hasAccess c .withdraw = true ∧ m.status = .active := by
  simp only [exec, withdrawCoins, bind_ok, check_ok, pure_ok] at h
  obtain ⟨_, _, m, hm, _, hacc, _, _, _, hst, _⟩ := h
  exact ⟨m, getMarker_ok hm, hacc, by simpa using hst⟩

theorem delete_requires_delete_access_and_cancelled {s s' : State} {c : Addr} {d : Denom}
    (h : exec s (.delete c d) = .ok s') :
    ∃ m, s.find d = some m ∧ (m.hasAccess c .delete = true ∨ m.manager = c) ∧ m.status = .cancelled := by
  simp only [exec, deleteMarker, bind_ok, check_ok, pure_ok] at h
  obtain ⟨m, hm, _, hacc, _, hst, _⟩ := h
  refine ⟨m, getMarker_ok hm, ?_, by simpa using hst⟩
  simpa using hacc

theorem finalize_activate_only_by_manager {s s' : State} {c : Addr} {d : Denom}
    (h : exec s (.finalize c d) = .ok s' ∨ exec s (.activate c d) = .ok s') :
    ∃ m, s.find d = some m ∧ m.manager = c := by
  rcases h with h | h
  · simp only [exec, finalizeMarker, bind_ok, check_ok, pure_ok] at h
    obtain ⟨m, hm, _, hmg, _⟩ := h
    exact ⟨m, getMarker_ok hm, by simpa using hmg⟩
  · simp only [exec, activateMarker, bind_ok, check_ok, pure_ok] at h
    obtain ⟨m, hm, _, hmg, _⟩ := h
    exact ⟨m, getMarker_ok hm, by simpa using hmg⟩

/-- every governance handler needs the authority and the marker's governance flag -/
theorem gov_handlers_need_authority_and_flag {s s' : State} {au : Addr} {d : Denom}
    (h : (∃ n t, exec s (.govinc au d n t) = .ok s') ∨ (∃ n, exec s (.govdec au d n) = .ok s') ∨
      (∃ st, exec s (.govstatus au d st) = .ok s') ∨ (∃ t cs, exec s (.govwithdraw au d t cs) = .ok s') ∨
      (∃ a ps, exec s (.govsetadmin au d a ps) = .ok s') ∨ (∃ a, exec s (.govrmadmin au d a) = .ok s')) :
    au = GOV ∧ ∃ m, s.find d = some m ∧ m.gov = true := by
  rcases h with ⟨n, t, h⟩ | ⟨n, h⟩ | ⟨st, h⟩ | ⟨t, cs, h⟩ | ⟨a, ps, h⟩ | ⟨a, h⟩
  · simp only [exec, govSupplyIncrease, bind_ok, check_ok, pure_ok] at h
    obtain ⟨_, _, _, hau, m, hm, _⟩ := h
    exact ⟨by simpa using hau, m, govMarker_ok hm⟩
  · simp only [exec, govSupplyDecrease, bind_ok, check_ok, pure_ok] at h
    obtain ⟨_, _, _, hau, m, hm, _⟩ := h
    exact ⟨by simpa using hau, m, govMarker_ok hm⟩
  · simp only [exec, govChangeStatus, bind_ok, check_ok, pure_ok] at h
    obtain ⟨_, hau, m, hm, _⟩ := h
    exact ⟨by simpa using hau, m, govMarker_ok hm⟩
  · simp only [exec, govWithdrawEscrow, bind_ok, check_ok, pure_ok] at h
    obtain ⟨_, _, _, hau, m, hm, _⟩ := h
    exact ⟨by simpa using hau, m, govMarker_ok hm⟩
  · simp only [exec, govSetAdministrator, bind_ok, check_ok, pure_ok] at h
    obtain ⟨_, hau, m, hm, _⟩ := h
    exact ⟨by simpa using hau, m, govMarker_ok hm⟩
  · simp only [exec, govRemoveAdministrator, bind_ok, check_ok, pure_ok] at h
    obtain ⟨_, hau, m, hm, _⟩ := h
    exact ⟨by simpa using hau, m, govMarker_ok hm⟩

/-- `MsgAddAccess` / `MsgDeleteAccess` on a finalized or active marker succeed only for the manager
(finalized only), a holder of `ACCESS_ADMIN`, or an account that holds the whole, positive bank
supply of the denom (`accountControlsAllSupply` after the fix a784a9d34). -/
theorem access_change_needs_manager_admin_or_whole_supply {s s' : State} {c : Addr} {d : Denom}
    (h : (∃ a ps, exec s (.addaccess c d a ps) = .ok s') ∨ (∃ a, exec s (.delaccess c d a) = .ok s'))
    {m : Marker} (hm : s.find d = some m) (hst : m.status = .finalized ∨ m.status = .active) :
    (c = m.manager ∧ m.status = .finalized) ∨ m.hasAccess c .admin = true ∨
      (0 < s.bank.supply d ∧ s.bank.bal c d = s.bank.supply d) := by
  have key : accessChangeAllowed s c m = .ok () →
      ((c = m.manager ∧ m.status = .finalized) ∨ m.hasAccess c .admin = true ∨
        (0 < s.bank.supply d ∧ s.bank.bal c d = s.bank.supply d)) := by
    intro hacc
    have hd := find_denom hm
    unfold accessChangeAllowed at hacc
    split at hacc
    · simp only [check_ok, controlsAllSupply, Bool.or_eq_true, Bool.and_eq_true, decide_eq_true_eq] at hacc
      rcases hacc with (h1 | h1) | h1
      · exact Or.inl h1
      · exact Or.inr (Or.inl h1)
      · rw [hd] at h1; exact Or.inr (Or.inr ⟨h1.1, h1.2.symm⟩)
    · simp only [check_ok, controlsAllSupply, Bool.or_eq_true, Bool.and_eq_true, decide_eq_true_eq] at hacc
      rcases hacc with (h1 | h1) | h1
      · exact Or.inl h1
      · exact Or.inr (Or.inl h1)
      · rw [hd] at h1; exact Or.inr (Or.inr ⟨h1.1, h1.2.symm⟩)
    · rename_i hp; rcases hst with h1 | h1 <;> (rw [h1] at hp; cases hp)
    · rename_i h1 h2 h3
      rcases hst with hx | hx
      · exact absurd hx h1
      · exact absurd hx h2
  rcases h with ⟨a, ps, h⟩ | ⟨a, h⟩
  · simp only [exec, addAccess, bind_ok, pure_ok] at h
    obtain ⟨m0, hm0, u, hacc, _⟩ := h
    have := getMarker_ok hm0
    rw [hm] at this; cases this
    exact key hacc
  · simp only [exec, removeAccess, bind_ok, pure_ok] at h
    obtain ⟨m0, hm0, u, hacc, _⟩ := h
    have := getMarker_ok hm0
    rw [hm] at this; cases this
    exact key hacc

/-- an active floating-supply marker created with amount 0 (its record stays 0 forever) -/
def zeroSupplyState : State :=
  run {} [.addfa {
    sender := "A", denom := "mka", amt := 0, status := .proposed,
    restricted := false, fixed := false, gov := false, forced := false, manager := "A",
    access := [("A", [.mint, .admin])] }]

/-- Before the fix a784a9d34 `accountControlsAllSupply` compared the caller's balance with the
*recorded* supply (`controlsAllSupplyPreFix`): on `zeroSupplyState` an account `E` with no access
right and a zero balance passed the check (and could then grant itself any right); the repaired
rule rejects it, and the same `MsgAddAccess` is now refused. -/
theorem zero_supply_marker_let_anyone_grant_access_before_fix :
    (zeroSupplyState.find "mka").map (fun m => (controlsAllSupplyPreFix zeroSupplyState "E" m,
      controlsAllSupply zeroSupplyState "E" m)) = some (true, false) ∧
    ((step zeroSupplyState (.addaccess "E" "mka" "E" [.mint, .burn, .withdraw, .admin])).find "mka").map
      (fun m => m.hasAccess "E" .mint) = some false := by
  decide

end PvProofs.C05
