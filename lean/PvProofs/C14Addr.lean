/-
C14 (addresses) — metadata addresses convert between bytes and their component parts without
loss, and every derived address matches its parent.

All statements are for ALL uuids (any 16 bytes), ALL names, ALL byte strings and EVERY hash
function `sha` (sha256 is never assumed to have any property).  The bech32 text form is in
`PvProofs.C14Bech32` (`fromBech32_toString`).
-/
import PvProofs.Lemmas.MdAddr

namespace PvProofs.C14
open PvModel.MdAddr PvProofs.MdAddrLemmas

/-! ### validate ⇔ well-formed -/

/-- `Validate()` accepts exactly the byte strings of a documented shape: known type byte and the
length of that type. -/
theorem validate_iff_wellformed (bz : Bytes) : validate bz = none ↔ WellFormed bz := by
  cases bz with
  | nil => simp [validate, verifyMetadataAddressFormat, WellFormed]
  | cons b r =>
    simp only [validate, verifyMetadataAddressFormat, WellFormed, List.head?_cons, Option.some.injEq]
    cases h : Kind.ofByte? b with
    | none =>
      simp only [reduceCtorEq, false_iff, not_exists, not_and]
      intro k _ hb
      rw [hb, ofByte_byte] at h
      cases h
    | some k =>
      have hk := byte_of_ofByte h
      constructor
      · intro hv
        refine ⟨k, mem_all k, hk.symm, ?_⟩
        by_cases hl' : r.length + 1 = k.len
        · simpa using hl'
        · simp [hl'] at hv
      · rintro ⟨k', _, hb, hl⟩
        have : k' = k := byte_injective (hb ▸ hk.symm ▸ rfl)
        subst this
        simp [hl]

/-- the hrp returned with a successful validation is the one of the type byte -/
theorem validate_hrp (bz : Bytes) (h : validate bz = none) :
    ∃ k : Kind, bz.head? = some k.byte ∧ (verifyMetadataAddressFormat bz).1 = k.hrp := by
  cases bz with
  | nil => simp [validate, verifyMetadataAddressFormat] at h
  | cons b r =>
    simp only [validate, verifyMetadataAddressFormat] at h ⊢
    cases hk : Kind.ofByte? b with
    | none => simp [hk] at h
    | some k =>
      refine ⟨k, by simp [byte_of_ofByte hk], ?_⟩
      simp only
      split <;> rfl

/-! ### bytes ⇄ parts, without loss -/

/-- parts → bytes → parts is the identity (for parts of the documented sizes) -/
theorem ofBytes_toBytes (p : Parts) (h : p.WF) : Parts.ofBytes? p.toBytes = some p := by
  have hl := length_toBytes h
  obtain ⟨k, u, t⟩ := p
  obtain ⟨hu, ht⟩ := h
  simp only [Parts.toBytes] at hl ⊢
  simp only [Parts.ofBytes?, ofByte_byte, hl, if_true]
  simp only at hu
  simp [hu]

/-- bytes → parts → bytes is the identity, and parsed parts have the documented sizes -/
theorem toBytes_ofBytes (bz : Bytes) (p : Parts) (h : Parts.ofBytes? bz = some p) :
    p.toBytes = bz ∧ p.WF := by
  cases bz with
  | nil => simp [Parts.ofBytes?] at h
  | cons b r =>
    simp only [Parts.ofBytes?] at h
    cases hk : Kind.ofByte? b with
    | none => simp [hk] at h
    | some k =>
      simp only [hk] at h
      split at h
      · rename_i hl
        cases h
        have hb := byte_of_ofByte hk
        have hlen : r.length = 16 + k.tailLen := by
          have := len_eq k
          simp only [List.length_cons] at hl
          omega
        refine ⟨by simp [Parts.toBytes, hb], ?_, ?_⟩
        · simp [List.length_take]; omega
        · simp [List.length_drop]; omega
      · cases h

/-- a byte string parses iff it is well formed -/
theorem ofBytes_isSome_iff (bz : Bytes) : (Parts.ofBytes? bz).isSome ↔ WellFormed bz := by
  constructor
  · intro h
    obtain ⟨p, hp⟩ := Option.isSome_iff_exists.mp h
    obtain ⟨hb, hw⟩ := toBytes_ofBytes bz p hp
    exact ⟨p.kind, mem_all _, by rw [← hb]; rfl, by rw [← hb]; exact length_toBytes hw⟩
  · rintro ⟨k, _, hb, hl⟩
    cases bz with
    | nil => simp at hb
    | cons b r =>
      simp only [List.head?_cons, Option.some.injEq] at hb
      subst hb
      simp [Parts.ofBytes?, ofByte_byte, hl]

/-- two addresses with the same bytes have the same parts -/
theorem toBytes_injective (p q : Parts) (hp : p.WF) (hq : q.WF) (h : p.toBytes = q.toBytes) : p = q := by
  have := ofBytes_toBytes p hp
  rw [h, ofBytes_toBytes q hq] at this
  exact (Option.some.inj this).symm

/-- every address built from parts of the documented sizes validates, with its own hrp -/
theorem validate_toBytes (p : Parts) (h : p.WF) :
    verifyMetadataAddressFormat p.toBytes = (p.kind.hrp, none) := by
  have hl := length_toBytes h
  simp only [Parts.toBytes] at hl
  simp [verifyMetadataAddressFormat, Parts.toBytes, ofByte_byte, hl]

/-! ### the Go constructors build exactly these bytes -/

theorem scopeMetadataAddress_eq (u : Bytes) : scopeMetadataAddress u = (⟨.scope, u, []⟩ : Parts).toBytes := by
  simp [scopeMetadataAddress, Parts.toBytes]
theorem sessionMetadataAddress_eq (u s : Bytes) :
    sessionMetadataAddress u s = (⟨.session, u, s⟩ : Parts).toBytes := rfl
theorem scopeSpecMetadataAddress_eq (u : Bytes) :
    scopeSpecMetadataAddress u = (⟨.scopeSpec, u, []⟩ : Parts).toBytes := by
  simp [scopeSpecMetadataAddress, Parts.toBytes]
theorem contractSpecMetadataAddress_eq (u : Bytes) :
    contractSpecMetadataAddress u = (⟨.contractSpec, u, []⟩ : Parts).toBytes := by
  simp [contractSpecMetadataAddress, Parts.toBytes]
theorem recordMetadataAddress_eq (sha : String → Bytes) (u : Bytes) (name : String)
    (hn : normalizeName name ≠ "") :
    recordMetadataAddress sha u name = some (⟨.record, u, nameHash16 sha name⟩ : Parts).toBytes := by
  simp [recordMetadataAddress, hn, Parts.toBytes]
theorem recordSpecMetadataAddress_eq (sha : String → Bytes) (u : Bytes) (name : String)
    (hn : normalizeName name ≠ "") :
    recordSpecMetadataAddress sha u name = some (⟨.recordSpec, u, nameHash16 sha name⟩ : Parts).toBytes := by
  simp [recordSpecMetadataAddress, hn, Parts.toBytes]

/-- build → bytes → parse gives back the uuids: scope / session -/
theorem build_roundtrip_session (u s : Bytes) (hu : u.length = 16) (hs : s.length = 16) :
    Parts.ofBytes? (sessionMetadataAddress u s) = some ⟨.session, u, s⟩ ∧
    validate (sessionMetadataAddress u s) = none := by
  have hw : (⟨.session, u, s⟩ : Parts).WF := ⟨hu, hs⟩
  rw [sessionMetadataAddress_eq]
  exact ⟨ofBytes_toBytes _ hw, by simp [validate, validate_toBytes _ hw]⟩

theorem build_roundtrip_scope (u : Bytes) (hu : u.length = 16) :
    Parts.ofBytes? (scopeMetadataAddress u) = some ⟨.scope, u, []⟩ ∧
    validate (scopeMetadataAddress u) = none := by
  have hw : (⟨.scope, u, []⟩ : Parts).WF := ⟨hu, rfl⟩
  rw [scopeMetadataAddress_eq]
  exact ⟨ofBytes_toBytes _ hw, by simp [validate, validate_toBytes _ hw]⟩

/-- build → bytes → parse for a record address, for every name and every hash function whose
digests have at least 16 bytes: the parts are the scope uuid and the first 16 digest bytes of
the normalised name. -/
theorem build_roundtrip_record (sha : String → Bytes) (u : Bytes) (name : String)
    (hu : u.length = 16) (hsha : 16 ≤ (sha (normalizeName name)).length)
    (hn : normalizeName name ≠ "") :
    ∃ a, recordMetadataAddress sha u name = some a ∧
      Parts.ofBytes? a = some ⟨.record, u, (sha (normalizeName name)).take 16⟩ ∧ validate a = none := by
  have hw : (⟨.record, u, nameHash16 sha name⟩ : Parts).WF :=
    ⟨hu, by simp [nameHash16, Kind.tailLen, Kind.len, List.length_take]; omega⟩
  refine ⟨_, recordMetadataAddress_eq sha u name hn, ofBytes_toBytes _ hw, ?_⟩
  simp [validate, validate_toBytes _ hw]

theorem build_roundtrip_recordSpec (sha : String → Bytes) (u : Bytes) (name : String)
    (hu : u.length = 16) (hsha : 16 ≤ (sha (normalizeName name)).length)
    (hn : normalizeName name ≠ "") :
    ∃ a, recordSpecMetadataAddress sha u name = some a ∧
      Parts.ofBytes? a = some ⟨.recordSpec, u, (sha (normalizeName name)).take 16⟩ ∧ validate a = none := by
  have hw : (⟨.recordSpec, u, nameHash16 sha name⟩ : Parts).WF :=
    ⟨hu, by simp [nameHash16, Kind.tailLen, Kind.len, List.length_take]; omega⟩
  refine ⟨_, recordSpecMetadataAddress_eq sha u name hn, ofBytes_toBytes _ hw, ?_⟩
  simp [validate, validate_toBytes _ hw]

/-- names that differ only in case or surrounding white space give the same address -/
theorem recordMetadataAddress_normalized (sha : String → Bytes) (u : Bytes) (n m : String)
    (h : normalizeName n = normalizeName m) :
    recordMetadataAddress sha u n = recordMetadataAddress sha u m := by
  simp [recordMetadataAddress, nameHash16, h]

/-! ### accessors give back the parts -/

theorem primaryUUID_toBytes (p : Parts) (h : p.WF) : primaryUUID p.toBytes = .ok p.primary := by
  have hl := length_toBytes h
  have h17 := len_eq p.kind
  simp only [Parts.toBytes] at hl ⊢
  have h1 : ¬ (p.kind.byte :: (p.primary ++ p.tail)).length < 1 := by simp
  have h2 : ¬ (p.kind.byte :: (p.primary ++ p.tail)).length < 17 := by omega
  simp only [primaryUUID, h1, h2, if_false, isTypeOneOf_cons, mem_all, decide_true, Bool.not_true,
    Bool.false_eq_true, slice1_17_cons _ _ h.1]

theorem secondaryUUID_toBytes (p : Parts) (h : p.WF) (hk : p.kind = .session) :
    secondaryUUID p.toBytes = .ok p.tail := by
  have hl := length_toBytes h
  obtain ⟨k, u, t⟩ := p
  simp only at hk
  subst hk
  obtain ⟨hu, ht⟩ := h
  simp only [Parts.toBytes] at hl ⊢
  have h1 : ¬ (Kind.session.byte :: (u ++ t)).length < 1 := by simp
  have h2 : ¬ (Kind.session.byte :: (u ++ t)).length < 33 := by simp only [Kind.len] at hl; omega
  simp only [secondaryUUID, h1, h2, if_false, isTypeOneOf_cons, List.mem_singleton, decide_true,
    Bool.not_true, Bool.false_eq_true, slice17_33_cons _ hu ht]

theorem nameHash_toBytes (p : Parts) (h : p.WF) (hk : p.kind = .record ∨ p.kind = .recordSpec) :
    nameHash p.toBytes = .ok p.tail := by
  have hl := length_toBytes h
  obtain ⟨k, u, t⟩ := p
  obtain ⟨hu, ht⟩ := h
  simp only at hk hu ht
  simp only [Parts.toBytes] at hl ⊢
  have h1 : ¬ (k.byte :: (u ++ t)).length < 1 := by simp
  have ht16 : t.length = 16 := by rcases hk with rfl | rfl <;> simpa [Kind.tailLen, Kind.len] using ht
  have h2 : ¬ (k.byte :: (u ++ t)).length < 33 := by simp [hu, ht16]
  have hm : decide (k ∈ [Kind.record, Kind.recordSpec]) = true := by rcases hk with rfl | rfl <;> simp
  simp only [nameHash, h1, h2, if_false, isTypeOneOf_cons, hm, Bool.not_true, Bool.false_eq_true,
    slice17_33_cons _ hu ht16]

private theorem details_short (k : Kind) (u : Bytes) (hu : u.length = 16) (h1 : k ≠ .session)
    (h2 : k ≠ .record) (h3 : k ≠ .recordSpec) :
    (getDetails (Parts.toBytes ⟨k, u, []⟩)).concat = Parts.toBytes ⟨k, u, []⟩ ∧
    (getDetails (Parts.toBytes ⟨k, u, []⟩)).excess = [] := by
  have hprim : slice1_17 (Parts.toBytes ⟨k, u, []⟩) = u := slice1_17_cons _ _ hu
  have hs : secondaryUUID (Parts.toBytes ⟨k, u, []⟩) = .error .err := by
    simp [secondaryUUID, Parts.toBytes, isTypeOneOf_cons, h1]
  have hn : nameHash (Parts.toBytes ⟨k, u, []⟩) = .error .err := by
    simp [nameHash, Parts.toBytes, isTypeOneOf_cons, h2, h3]
  simp only [getDetails, Details.concat, hs, hn, hprim, exceptOr]
  simp [Parts.toBytes, Except.toBool, hu]

/-- `GetDetails` loses nothing: prefix ‖ primary ‖ secondary ‖ name hash ‖ excess is the address,
for every well-formed address (and nothing is reported as excess). -/
theorem details_concat_toBytes (p : Parts) (h : p.WF) :
    (getDetails p.toBytes).concat = p.toBytes ∧ (getDetails p.toBytes).excess = [] := by
  have hl := length_toBytes h
  have hprim : slice1_17 p.toBytes = p.primary := slice1_17_cons _ _ h.1
  obtain ⟨k, u, t⟩ := p
  obtain ⟨hu, ht⟩ := h
  simp only at hu ht hprim
  cases k
  all_goals
    simp only [Kind.tailLen, Kind.len] at ht hl
  case session =>
    have hs := secondaryUUID_toBytes ⟨.session, u, t⟩ ⟨hu, ht⟩ rfl
    have hn : nameHash (Parts.toBytes ⟨.session, u, t⟩) = .error .err := by
      simp [nameHash, Parts.toBytes, isTypeOneOf_cons]
    simp only [getDetails, Details.concat, hs, hn, hprim, hl, exceptOr]
    simp [Parts.toBytes, Except.toBool, hu, ht]
  case record =>
    have hs : secondaryUUID (Parts.toBytes ⟨.record, u, t⟩) = .error .err := by
      simp [secondaryUUID, Parts.toBytes, isTypeOneOf_cons]
    have hn := nameHash_toBytes ⟨.record, u, t⟩ ⟨hu, ht⟩ (Or.inl rfl)
    simp only [getDetails, Details.concat, hs, hn, hprim, hl, exceptOr]
    simp [Parts.toBytes, Except.toBool, hu, ht]
  case recordSpec =>
    have hs : secondaryUUID (Parts.toBytes ⟨.recordSpec, u, t⟩) = .error .err := by
      simp [secondaryUUID, Parts.toBytes, isTypeOneOf_cons]
    have hn := nameHash_toBytes ⟨.recordSpec, u, t⟩ ⟨hu, ht⟩ (Or.inr rfl)
    simp only [getDetails, Details.concat, hs, hn, hprim, hl, exceptOr]
    simp [Parts.toBytes, Except.toBool, hu, ht]
  case scope =>
    have ht0 : t = [] := List.eq_nil_of_length_eq_zero (by simpa using ht)
    subst ht0
    exact details_short .scope u hu (by decide) (by decide) (by decide)
  case contractSpec =>
    have ht0 : t = [] := List.eq_nil_of_length_eq_zero (by simpa using ht)
    subst ht0
    exact details_short .contractSpec u hu (by decide) (by decide) (by decide)
  case scopeSpec =>
    have ht0 : t = [] := List.eq_nil_of_length_eq_zero (by simpa using ht)
    subst ht0
    exact details_short .scopeSpec u hu (by decide) (by decide) (by decide)

/-! ### derived addresses match their parent -/

/-- The scope address derived from any address that carries a scope uuid (scope, session,
record; any length ≥ 17) is `0x00 ‖ bytes 1..17`. -/
theorem asScopeAddress_eq (ma : Bytes) (a : Bytes) (h : asScopeAddress ma = .ok a) :
    a = Kind.scope.byte :: slice1_17 ma ∧ 17 ≤ ma.length := by
  simp only [asScopeAddress, scopeUUID, primaryUUID] at h
  split at h
  · cases h
  · split at h
    · cases h
    · split at h
      · cases h
      · split at h
        · cases h
        · rename_i h17
          simp only [Except.map, Except.ok.injEq] at h
          exact ⟨h.symm, by omega⟩

/-- a session's or record's scope part is its parent scope's address -/
theorem derived_parent_matches (p : Parts) (h : p.WF) (hk : p.kind.parent? = some .scope) :
    asScopeAddress p.toBytes = .ok (⟨.scope, p.primary, []⟩ : Parts).toBytes ∧
    (getDetails p.toBytes).parent = (⟨.scope, p.primary, []⟩ : Parts).toBytes := by
  have hp := primaryUUID_toBytes p h
  have hks : p.kind = .session ∨ p.kind = .record := by
    cases hkk : p.kind <;> simp [Kind.parent?, hkk] at hk <;> simp
  have hm : decide (p.kind ∈ [Kind.scope, Kind.session, Kind.record]) = true := by
    rcases hks with e | e <;> simp [e]
  have hm2 : decide (p.kind ∈ [Kind.contractSpec, Kind.recordSpec]) = false := by
    rcases hks with e | e <;> simp [e]
  have h1 : asScopeAddress p.toBytes = .ok (⟨.scope, p.primary, []⟩ : Parts).toBytes := by
    simp only [asScopeAddress, scopeUUID]
    rw [show p.toBytes = p.kind.byte :: (p.primary ++ p.tail) from rfl, isTypeOneOf_cons, hm]
    simp only [Bool.not_true, Bool.false_eq_true, if_false]
    rw [show p.kind.byte :: (p.primary ++ p.tail) = p.toBytes from rfl, hp]
    simp [Except.map, scopeMetadataAddress, Parts.toBytes]
  refine ⟨h1, ?_⟩
  have hns : isScopeAddress p.toBytes = false := by
    simp only [isScopeAddress, isKind, verifyMetadataAddressHasType, validate_toBytes p h]
    rcases hks with e | e <;> simp [e, Kind.hrp]
  have hnc : isContractSpecificationAddress p.toBytes = false := by
    simp only [isContractSpecificationAddress, isKind, verifyMetadataAddressHasType, validate_toBytes p h]
    rcases hks with e | e <;> simp [e, Kind.hrp]
  have h2 : asContractSpecAddress p.toBytes = .error .err := by
    simp only [asContractSpecAddress, contractSpecUUID]
    rw [show p.toBytes = p.kind.byte :: (p.primary ++ p.tail) from rfl, isTypeOneOf_cons, hm2]
    simp [Except.map]
  simp only [getDetails, hns, hnc, h1, h2, exceptOr, Bool.not_false, if_true]

/-- a record specification's contract-spec part is its parent contract specification's address -/
theorem derived_contractSpec_matches (p : Parts) (h : p.WF) (hk : p.kind = .recordSpec) :
    asContractSpecAddress p.toBytes = .ok (⟨.contractSpec, p.primary, []⟩ : Parts).toBytes ∧
    (getDetails p.toBytes).parent = (⟨.contractSpec, p.primary, []⟩ : Parts).toBytes := by
  have hp := primaryUUID_toBytes p h
  have h1 : asContractSpecAddress p.toBytes = .ok (⟨.contractSpec, p.primary, []⟩ : Parts).toBytes := by
    simp only [asContractSpecAddress, contractSpecUUID]
    rw [show p.toBytes = p.kind.byte :: (p.primary ++ p.tail) from rfl, isTypeOneOf_cons, hk]
    simp only [List.mem_cons, reduceCtorEq, List.mem_singleton, or_true, decide_true, Bool.not_true,
      Bool.false_eq_true, if_false, List.not_mem_nil, or_false]
    rw [← hk, show p.kind.byte :: (p.primary ++ p.tail) = p.toBytes from rfl, hp]
    simp [Except.map, contractSpecMetadataAddress, Parts.toBytes]
  refine ⟨h1, ?_⟩
  have hns : isScopeAddress p.toBytes = false := by
    simp [isScopeAddress, isKind, verifyMetadataAddressHasType, validate_toBytes p h, hk, Kind.hrp]
  have hnc : isContractSpecificationAddress p.toBytes = false := by
    simp [isContractSpecificationAddress, isKind, verifyMetadataAddressHasType, validate_toBytes p h, hk, Kind.hrp]
  have h2 : asScopeAddress p.toBytes = .error .err := by
    simp only [asScopeAddress, scopeUUID]
    rw [show p.toBytes = p.kind.byte :: (p.primary ++ p.tail) from rfl, isTypeOneOf_cons, hk]
    simp [Except.map]
  simp only [getDetails, hns, hnc, h1, h2, exceptOr, Bool.not_false, if_true]

/-- the record address derived from a session address (as `SetRecord` does) lies in the
session's scope: same primary uuid, record type -/
theorem asRecordAddress_of_session (sha : String → Bytes) (u s : Bytes) (name : String)
    (hu : u.length = 16) (hs : s.length = 16) (hname : name ≠ "") :
    asRecordAddress sha (sessionMetadataAddress u s) name =
      match recordMetadataAddress sha u name with
      | some a => .ok a
      | none => .error .panic := by
  have hw : (⟨.session, u, s⟩ : Parts).WF := ⟨hu, hs⟩
  have hp := primaryUUID_toBytes _ hw
  rw [← sessionMetadataAddress_eq] at hp
  simp only at hp
  have : scopeUUID (sessionMetadataAddress u s) = .ok u := by
    simp only [scopeUUID, sessionMetadataAddress, isTypeOneOf_cons]
    simpa [sessionMetadataAddress] using hp
  simp only [asRecordAddress, this, hname, if_false]
  cases recordMetadataAddress sha u name <;> rfl

/-- the session address derived from a scope / session / record address keeps the scope uuid -/
theorem asSessionAddress_of_toBytes (p : Parts) (h : p.WF) (s : Bytes)
    (hk : p.kind = .scope ∨ p.kind = .session ∨ p.kind = .record) :
    asSessionAddress p.toBytes s = .ok (⟨.session, p.primary, s⟩ : Parts).toBytes := by
  have hp := primaryUUID_toBytes p h
  have hm : decide (p.kind ∈ [Kind.scope, Kind.session, Kind.record]) = true := by
    rcases hk with e | e | e <;> simp [e]
  simp only [asSessionAddress, scopeUUID]
  rw [show p.toBytes = p.kind.byte :: (p.primary ++ p.tail) from rfl, isTypeOneOf_cons, hm]
  simp only [Bool.not_true, Bool.false_eq_true, if_false]
  rw [show p.kind.byte :: (p.primary ++ p.tail) = p.toBytes from rfl, hp]
  simp [Except.map, sessionMetadataAddress, Parts.toBytes]

/-- parts → address without loss: a session address is put together again from its parent scope
address and its own session uuid — for EVERY session uuid (the all-zero one included) -/
theorem session_rebuilt_from_parts (p : Parts) (h : p.WF) (hk : p.kind = .session) :
    ∃ sc su, asScopeAddress p.toBytes = .ok sc ∧ sessionUUID p.toBytes = .ok su ∧
      asSessionAddress sc su = .ok p.toBytes := by
  have hpar : p.kind.parent? = some .scope := by simp [hk, Kind.parent?]
  have h1 := (derived_parent_matches p h hpar).1
  have h2 : sessionUUID p.toBytes = .ok p.tail := by
    have hs := secondaryUUID_toBytes p h hk
    rw [show p.toBytes = p.kind.byte :: (p.primary ++ p.tail) from rfl] at hs ⊢
    simp only [sessionUUID, hk, ne_eq, not_true_eq_false, if_false]
    rw [hk] at hs
    exact hs
  have hw : (⟨.scope, p.primary, []⟩ : Parts).WF := ⟨h.1, rfl⟩
  have h3 := asSessionAddress_of_toBytes ⟨.scope, p.primary, []⟩ hw p.tail (Or.inl rfl)
  refine ⟨_, _, h1, h2, ?_⟩
  rw [h3]
  obtain ⟨k, u, t⟩ := p
  simp only at hk
  subst hk
  rfl

/-- the record-spec address derived from a contract-spec address keeps the contract-spec uuid -/
theorem asRecordSpecAddress_of_contractSpec (sha : String → Bytes) (u : Bytes) (name : String)
    (hu : u.length = 16) :
    asRecordSpecAddress sha (contractSpecMetadataAddress u) name =
      match recordSpecMetadataAddress sha u name with
      | some a => .ok a
      | none => .error .panic := by
  have hw : (⟨.contractSpec, u, []⟩ : Parts).WF := ⟨hu, rfl⟩
  have hp := primaryUUID_toBytes _ hw
  rw [← contractSpecMetadataAddress_eq] at hp
  simp only at hp
  have : contractSpecUUID (contractSpecMetadataAddress u) = .ok u := by
    simp only [contractSpecUUID, contractSpecMetadataAddress, isTypeOneOf_cons]
    simpa [contractSpecMetadataAddress] using hp
  simp only [asRecordSpecAddress, this]
  cases recordSpecMetadataAddress sha u name <;> rfl

/-! ### iterator prefixes: a scope's sessions and records are exactly the keys under its prefix -/

/-- the record (session) iterator prefix of a scope address is `0x02 ‖ uuid` (`0x01 ‖ uuid`) -/
theorem scope_iterator_prefixes (u : Bytes) (hu : u.length = 16) :
    scopeRecordIteratorPrefix (scopeMetadataAddress u) = .ok (Kind.record.byte :: u) ∧
    scopeSessionIteratorPrefix (scopeMetadataAddress u) = .ok (Kind.session.byte :: u) := by
  have hs : slice1_17 (Kind.scope.byte :: u) = u := by
    have := slice1_17_cons Kind.scope.byte [] hu
    simpa using this
  have h1 : ¬ (Kind.scope.byte :: u).length < 1 := by simp
  have h2 : ¬ (Kind.scope.byte :: u).length < 17 := by simp [hu]
  constructor <;>
    simp only [scopeRecordIteratorPrefix, scopeSessionIteratorPrefix, iteratorPrefix, scopeMetadataAddress,
      h1, h2, if_false, isTypeOneOf_cons, hs] <;> simp

/-- a well-formed record or session address lies under a scope's iterator prefix iff its scope
part is that scope's uuid (so `RemoveScope`'s prefix walk visits exactly the scope's records) -/
theorem under_scope_prefix_iff (p : Parts) (h : p.WF) (u : Bytes) (hu : u.length = 16) :
    (p.kind.byte :: u).isPrefixOf p.toBytes = true ↔ p.primary = u := by
  simp only [Parts.toBytes, List.isPrefixOf_cons_cons, beq_self_eq_true, Bool.true_and]
  rw [List.isPrefixOf_iff_prefix]
  have h16 := h.1
  constructor
  · intro hp
    have := List.prefix_of_prefix_length_le hp (List.prefix_append p.primary p.tail) (by omega)
    exact (List.IsPrefix.eq_of_length this (by omega)).symm
  · rintro rfl
    exact List.prefix_append _ _

/-! ### index keys (keys.go): a by-address iteration sees exactly that address's entries -/

/-- For the length-prefixed indexes (party address → scope, owner → scope spec, owner → contract
spec): the key of `(a', id)` lies under the iterator prefix of `a` iff `a' = a`, for all
non-empty addresses of at most 255 bytes; and the bytes after the prefix are `id`. -/
theorem index_key_prefix_iff (ix : Index) (hix : ix.lenPrefixed = true) (a a' id : Bytes)
    (ha : 0 < a.length ∧ a.length ≤ 255) (ha' : 0 < a'.length ∧ a'.length ≤ 255) :
    ∃ p k, iterPrefix ix a = some p ∧ indexKey ix a' id = some k ∧
      (p.isPrefixOf k = true ↔ a' = a) ∧ (a' = a → k.drop p.length = id) := by
  have hla : lengthPrefix a = some (UInt8.ofNat a.length :: a) := by
    simp only [lengthPrefix]; split
    · omega
    · split
      · omega
      · rfl
  have hla' : lengthPrefix a' = some (UInt8.ofNat a'.length :: a') := by
    simp only [lengthPrefix]; split
    · omega
    · split
      · omega
      · rfl
  refine ⟨ix.byte :: UInt8.ofNat a.length :: a, ix.byte :: UInt8.ofNat a'.length :: (a' ++ id), ?_, ?_, ?_, ?_⟩
  · simp [iterPrefix, hix, hla]
  · simp [indexKey, iterPrefix, hix, hla']
  · simp only [List.isPrefixOf_cons_cons, beq_self_eq_true, Bool.true_and, Bool.and_eq_true, beq_iff_eq]
    rw [List.isPrefixOf_iff_prefix]
    constructor
    · rintro ⟨hlen, hp⟩
      have hn : a.length = a'.length := by
        have := congrArg UInt8.toNat hlen
        simp only [UInt8.toNat_ofNat'] at this
        omega
      have := List.prefix_of_prefix_length_le hp (List.prefix_append a' id) (by omega)
      exact (List.IsPrefix.eq_of_length this hn).symm
    · rintro rfl
      exact ⟨rfl, List.prefix_append _ _⟩
  · rintro rfl
    simp

/-- For the two indexes keyed by a specification id (scope spec → scope, contract spec → scope
spec; no length prefix): the key of `(s', id)` lies under the iterator prefix of `s` iff `s' = s`,
for first components of equal length (specification ids are always 17 bytes). -/
theorem index_key_prefix_iff_fixed (ix : Index) (hix : ix.lenPrefixed = false) (s s' id : Bytes)
    (hlen : s.length = s'.length) :
    ∃ p k, iterPrefix ix s = some p ∧ indexKey ix s' id = some k ∧
      (p.isPrefixOf k = true ↔ s' = s) ∧ (s' = s → k.drop p.length = id) := by
  refine ⟨ix.byte :: s, ix.byte :: (s' ++ id), by simp [iterPrefix, hix], by simp [indexKey, iterPrefix, hix], ?_, ?_⟩
  · simp only [List.isPrefixOf_cons_cons, beq_self_eq_true, Bool.true_and]
    rw [List.isPrefixOf_iff_prefix]
    constructor
    · intro hp
      have := List.prefix_of_prefix_length_le hp (List.prefix_append s' id) (by omega)
      exact (List.IsPrefix.eq_of_length this hlen).symm
    · rintro rfl
      exact List.prefix_append _ _
  · rintro rfl
    simp

/-- index keys determine their components: two (address, id) pairs with the same key are equal
(no two lookup entries collide) -/
theorem index_key_injective (ix : Index) (hix : ix.lenPrefixed = true) (a a' id id' : Bytes)
    (ha : 0 < a.length ∧ a.length ≤ 255) (ha' : 0 < a'.length ∧ a'.length ≤ 255)
    (h : indexKey ix a id = indexKey ix a' id') : a = a' ∧ id = id' := by
  obtain ⟨p, k, hp, hk, hiff, hdrop⟩ := index_key_prefix_iff ix hix a a id' ha ha
  obtain ⟨p', k', hp', hk', hiff', hdrop'⟩ := index_key_prefix_iff ix hix a' a id ha' ha
  rw [hk'] at h
  obtain ⟨p2, k2, hp2, hk2, hiff2, hdrop2⟩ := index_key_prefix_iff ix hix a' a' id' ha' ha'
  rw [hk2] at h
  cases h
  rw [hp'] at hp2; cases hp2
  have : a = a' := hiff'.mp (hiff2.mpr rfl)
  subst this
  refine ⟨rfl, ?_⟩
  rw [← hdrop' rfl, hdrop2 rfl]

/-! ### non-vacuity -/

example : (⟨.session, List.replicate 16 7, List.replicate 16 9⟩ : Parts).WF := by decide
example : WellFormed (Kind.record.byte :: List.replicate 32 1) := by decide
example : ¬ WellFormed (Kind.record.byte :: List.replicate 31 1) := by decide
example : ¬ WellFormed ((6 : UInt8) :: List.replicate 16 1) := by decide
example : (0 < (List.replicate 20 (3 : UInt8)).length ∧ (List.replicate 20 (3 : UInt8)).length ≤ 255) := by decide

end PvProofs.C14
