/-
C05 — deepening round: the governance destroy, the exact bound at activation, and what a re-added
incarnation of a denom can find of the destroyed one.

Uses the model of `PvProofs.C05` unchanged (`Bank` = balances + separately stored supply).
-/
import PvProofs.C05

namespace PvProofs.C05
open PvModel PvModel.MkrSup PvModel.Ledger PvProofs.LedgerSum PvProofs.MkrSupL

/-! ### helpers -/

/-- with non-negative balances and a supply store that agrees with them, a stored supply of 0
means that no account holds a coin of the denom -/
theorem no_coin_anywhere_of_supply_zero {b : Bank} (hnn : NonNeg b) (hc : Consistent b) {d : Denom}
    (h0 : b.supply d = 0) : ∀ a, b.bal a d = 0 := by
  intro a
  have h1 := bal_le_supply (l := b.led) hnn a d
  have h2 : 0 ≤ b.led.bal a d := hnn a d
  have h3 := hc d
  show b.led.bal a d = 0
  omega

/-- with non-negative balances and a consistent supply store the stored supply is non-negative and
bounds every single balance -/
theorem supply_bounds {b : Bank} (hnn : NonNeg b) (hc : Consistent b) (a : Addr) (d : Denom) :
    0 ≤ b.supply d ∧ b.bal a d ≤ b.supply d := by
  have h1 := bal_le_supply (l := b.led) hnn a d
  have h2 := supply_nonneg (l := b.led) hnn d
  have h3 := hc d
  refine ⟨by omega, ?_⟩
  show b.led.bal a d ≤ _
  omega

/-! ### (4b) the governance destroy burns from the marker's own account only -/

/-- `HandleChangeStatusProposal(… destroyed)` (proposal_handler.go:164): the marker was cancelled
and governance-enabled; no balance other than the marker's own balance of its own denom changes;
that balance drops by exactly the former stored supply; afterwards the stored supply of the denom
is 0 and the record is `destroyed`. -/
theorem gov_destroy_only_debits_marker_account {s s' : State} {au : Addr} {d : Denom}
    (h : exec s (.govstatus au d .destroyed) = .ok s') :
    (∀ a d', (a ≠ acct d ∨ d' ≠ d) → s'.bank.bal a d' = s.bank.bal a d') ∧
      s'.bank.supply d = 0 ∧
      s'.bank.bal (acct d) d = s.bank.bal (acct d) d - s.bank.supply d ∧
      (∀ d', d' ≠ d → s'.bank.supply d' = s.bank.supply d') ∧
      (∃ m, s.find d = some m ∧ m.status = .cancelled ∧ m.gov = true) ∧
      (∃ m', s'.find d = some m' ∧ m'.status = .destroyed) := by
  simp only [exec, govChangeStatus, bind_ok, check_ok, pure_ok] at h
  obtain ⟨_, _, m, hm, _, _, _, _, b1, hb1, b2, hb2, _, _, rfl⟩ := h
  have hm' := govMarker_ok hm
  have hd := find_denom hm'.1
  simp only [show ¬ (Status.destroyed = Status.active) by decide, if_false, pure_ok] at hb1
  subst hb1
  simp only [if_true, bind_ok, check_ok] at hb2
  obtain ⟨_, hcan, hb2⟩ := hb2
  have hcan' : m.status = .cancelled := by simpa using hcan
  have hbal := adjust_bal hb2
  refine ⟨?_, adjust_supply hb2, ?_, fun d' hd' => adjust_supply_ne hb2 hd',
    ⟨m, hm'.1, hcan', hm'.2⟩, ⟨m.setStatus .destroyed, ?_, rfl⟩⟩
  · intro a d' hne
    show b2.bal a d' = _
    rw [hbal a d']
    have : ¬ (acct d = a ∧ d = d') := by
      intro ⟨h1, h2⟩
      rcases hne with hne | hne
      · exact hne h1.symm
      · exact hne h2.symm
    simp [this]
  · show b2.bal (acct d) d = _
    rw [hbal]; simp; omega
  · show (s.setMarker (m.setStatus .destroyed)).find d = _
    have := find_setMarker_self s (m.setStatus .destroyed)
    rw [show (m.setStatus .destroyed).denom = d from hd] at this
    exact this

/-- on a chain state (non-negative balances, supply store = Σ balances) the governance destroy is
a genuine debit of the marker account: the whole supply sat there, nobody else held a coin of the
denom before, and nobody — the marker account included — holds one afterwards -/
theorem gov_destroy_burns_whole_supply_from_escrow {s s' : State} (hnn : NonNeg s.bank)
    (hc : Consistent s.bank) {au : Addr} {d : Denom}
    (h : exec s (.govstatus au d .destroyed) = .ok s') :
    0 ≤ s.bank.supply d ∧ s.bank.bal (acct d) d = s.bank.supply d ∧ AllInEscrow s d ∧
      ∀ a, s'.bank.bal a d = 0 := by
  obtain ⟨hoth, h0, hself, _, _, _⟩ := gov_destroy_only_debits_marker_account h
  have hp := govChangeStatus_post h
  have hnn' := hp.nonneg hnn
  have hc' := hp.cons hc
  have hz := no_coin_anywhere_of_supply_zero hnn' hc' h0
  have hb := supply_bounds hnn hc (acct d) d
  have hself0 := hz (acct d)
  have heq : s.bank.bal (acct d) d = s.bank.supply d := by omega
  refine ⟨hb.1, heq, ?_, hz⟩
  intro a ha
  have := hoth a d (Or.inl ha)
  rw [hz a] at this
  exact this.symm

/-- non-trivial instance: the witness marker with the 10 coins of `B` sent back, cancelled by its
administrator, then destroyed by governance: 100 coins leave `@mka`, nothing else moves. -/
def cancelledWitness : State :=
  run witnessState [.send "B" "@mka" "mka" 10, .cancel "A" "mka"]

example : ∃ s', exec cancelledWitness (.govstatus GOV "mka" .destroyed) = .ok s' ∧
    cancelledWitness.bank.supply "mka" = 100 ∧ cancelledWitness.bank.bal "@mka" "mka" = 100 ∧
    s'.bank.supply "mka" = 0 ∧ s'.bank.bal "@mka" "mka" = 0 := by
  refine ⟨_, rfl, ?_, ?_, ?_, ?_⟩ <;> decide

example : NonNeg cancelledWitness.bank ∧ Consistent cancelledWitness.bank :=
  ⟨(wf_nonneg_run (wf_nonneg_run wf_init nonneg_init witnessOps).1
      (wf_nonneg_run wf_init nonneg_init witnessOps).2 _).2,
   bank_supply_eq_sum_run (bank_supply_eq_sum_run consistent_init witnessOps) _⟩

/-- with coins outside the marker account the governance destroy is refused (`AdjustCirculation`
cannot burn what the marker account does not hold) -/
example : exec (run witnessState [.govstatus GOV "mka" .cancelled]) (.govstatus GOV "mka" .destroyed)
    = .error .funds := rfl

/-- the same for `MsgDelete` on a chain state: afterwards nobody holds a coin of the denom -/
theorem delete_leaves_no_coin_anywhere {s s' : State} (hnn : NonNeg s.bank) (hc : Consistent s.bank)
    {c : Addr} {d : Denom} (h : exec s (.delete c d) = .ok s') : ∀ a, s'.bank.bal a d = 0 := by
  have h0 := (delete_only_debits_marker_account h).2.1
  have hp := deleteMarker_post h
  exact no_coin_anywhere_of_supply_zero (hp.nonneg hnn) (hp.cons hc) h0

/-! ### (3b) what bounds the supply at activation

Decision on the clause "minting into an active marker never takes the total past the configured
maximum": read literally it is about mints into a marker that IS active (`MsgMint`, the supply
increase proposal; section (3) of `PvProofs.C05`).  The activation paths (`MsgActivate`,
`MsgAddFinalizeActivate`, `MsgAddMarker` with status active by the governance authority, the
governance status change to active) mint too — into a marker that becomes active in the same
transaction — and `ActivateMarker` never reads `GetMaxSupply`.  The exact bound that holds there:
the bank supply after activation EQUALS the supply recorded on the marker, whatever the maximum is;
it is within the maximum iff the record is, and nothing keeps the record within it: `MsgAddMarker`
and a mint into a proposed / finalized marker (`MintCoin`, marker.go:232-240) never compare with
the maximum.  So the total of a marker that is active at the end of a transaction can exceed
`max_supply` (witness `activation_is_not_bounded_by_max`, replayed on the implementation in
`corpus/C05/mkrsup.witness.ops`).  Under the wider reading of the clause this is a defect of the
code; it is reported, the model stays faithful. -/

/-- `ActivateMarker` (marker.go:467): the bank supply afterwards is exactly the recorded supply,
the difference to the pre-existing supply is minted into the marker's own account, no other
balance moves, and `max_supply` plays no role (it is neither read nor changed). -/
theorem activation_mints_up_to_recorded_supply {s s' : State} {c : Addr} {d : Denom}
    (h : exec s (.activate c d) = .ok s') :
    ∃ m, s.find d = some m ∧ m.status = .finalized ∧ s.bank.supply d ≤ m.supply ∧
      s'.bank.supply d = m.supply ∧
      (∀ a d', s'.bank.bal a d' =
        s.bank.bal a d' + if acct d = a ∧ d = d' then m.supply - s.bank.supply d else 0) ∧
      (∃ m', s'.find d = some m' ∧ m'.status = .active ∧ m'.supply = m.supply) := by
  simp only [exec, activateMarker, bind_ok, check_ok, pure_ok] at h
  obtain ⟨m, hm, _, _, _, hst, _, hpre, b, hb, _, _, rfl⟩ := h
  have hm' := getMarker_ok hm
  have hd := find_denom hm'
  have hpre' : ¬ (m.supply < s.bank.supply d) := by simpa using hpre
  refine ⟨m, hm', by simpa using hst, by omega, adjust_supply hb, adjust_bal hb,
    ⟨m.setStatus .active, ?_, rfl, rfl⟩⟩
  show (s.setMarker (m.setStatus .active)).find d = _
  have := find_setMarker_self s (m.setStatus .active)
  rw [show (m.setStatus .active).denom = d from hd] at this
  exact this

/-- hence: activation stays within the maximum exactly when the recorded supply does -/
theorem activation_within_max_iff_record_within_max {s s' : State} {c : Addr} {d : Denom} {m : Marker}
    (h : exec s (.activate c d) = .ok s') (hm : s.find d = some m) :
    s'.bank.supply d ≤ s.maxSupply ↔ m.supply ≤ s.maxSupply := by
  obtain ⟨m0, hm0, _, _, hsup, _, _⟩ := activation_mints_up_to_recorded_supply h
  rw [hm] at hm0; cases hm0
  rw [hsup]

/-- the governance status change to `active` (from proposed or finalized): the bank supply
afterwards is the recorded supply, again without a look at the maximum -/
theorem gov_activation_sets_supply_to_record {s s' : State} {au : Addr} {d : Denom}
    (h : exec s (.govstatus au d .active) = .ok s') :
    ∃ m, s.find d = some m ∧ m.status ≤ .active ∧ s'.bank.supply d = m.supply ∧
      (∀ a d', s'.bank.bal a d' =
        s.bank.bal a d' + if acct d = a ∧ d = d' then m.supply - s.bank.supply d else 0) := by
  simp only [exec, govChangeStatus, bind_ok, check_ok, pure_ok] at h
  obtain ⟨_, _, m, hm, _, _, _, hle, b1, hb1, b2, hb2, _, _, rfl⟩ := h
  have hm' := (govMarker_ok hm).1
  simp only [if_true] at hb1
  simp only [show ¬ (Status.active = Status.destroyed) by decide, if_false, pure_ok] at hb2
  subst hb2
  have hle' : m.status ≤ .active := by
    have : ¬ (Status.active < m.status) := by simpa using hle
    rw [status_lt_iff] at this
    rw [status_le_iff]; omega
  exact ⟨m, hm', hle', adjust_supply hb1, adjust_bal hb1⟩

/-- before activation nothing compares the recorded supply with the maximum: `MsgMint` into a
proposed or finalized marker raises the record by `n`, whatever `max_supply` is, and leaves the
bank alone -/
theorem preactivation_mint_ignores_max {s s' : State} {c : Addr} {d : Denom} {n : Int} {m : Marker}
    (h : exec s (.mint c d n) = .ok s') (hm : s.find d = some m)
    (hst : m.status = .proposed ∨ m.status = .finalized) :
    s'.bank = s.bank ∧ ∃ m', s'.find d = some m' ∧ m'.supply = m.supply + n ∧ m'.status = m.status := by
  simp only [exec, mintCoin, bind_ok, check_ok, pure_ok] at h
  obtain ⟨_, _, m0, hm0, _, _, h⟩ := h
  have hm0' := getMarker_ok hm0
  rw [hm] at hm0'; cases hm0'
  have hd := find_denom hm
  rw [if_pos hst] at h
  simp only [bind_ok, pure_ok] at h
  obtain ⟨_, _, rfl⟩ := h
  refine ⟨rfl, { m with supply := m.supply + n }, ?_, rfl, rfl⟩
  have := find_setMarker_self s { m with supply := m.supply + n }
  rw [← hd]
  exact this

/-- the three facts on the witness history of `activation_is_not_bounded_by_max` (max 50): the
pre-activation mint of 1000 is accepted although 1010 > 50, activation then mints all 1010, and
the very next `MsgMint` of 0 into the now active marker is refused as past the maximum -/
def overMaxOps : List Op :=
  [.params GOV 50 0 true,
   .add { sender := "A", denom := "mka", amt := 10, status := .proposed, restricted := false,
          fixed := true, gov := false, forced := false, manager := "A", access := [("A", [.mint])] },
   .mint "A" "mka" 1000, .finalize "A" "mka"]

theorem activation_past_max_witness :
    (∃ s', exec (run {} overMaxOps) (.activate "A" "mka") = .ok s' ∧ s'.bank.supply "mka" = 1010 ∧
      s'.maxSupply = 50 ∧ s'.bank.bal "@mka" "mka" = 1010 ∧
      exec s' (.mint "A" "mka" 0) = .error .max) := by
  refine ⟨_, rfl, ?_, rfl, ?_, rfl⟩ <;> decide

example : ∃ s' m, exec (run {} overMaxOps) (.activate "A" "mka") = .ok s' ∧
    (run {} overMaxOps).find "mka" = some m ∧ ¬ (m.supply ≤ (run {} overMaxOps).maxSupply) := by
  refine ⟨_, _, rfl, rfl, ?_⟩
  decide

/-! ### (8) a re-added incarnation of a denom and the destroyed one's coins

What holds, for all states: (a) whichever way a marker is destroyed (`MsgDelete`, governance) the
stored supply of its denom is 0 afterwards and — on a chain state — no account, the marker's own
included, holds a coin of it (`delete_leaves_no_coin_anywhere`,
`gov_destroy_burns_whole_supply_from_escrow`); (b) while the record is `destroyed`, and after the
begin-block purge while no record exists, every minting endpoint of the marker module refuses the
denom (`no_mint_while_destroyed`, `no_mint_without_record`); (c) `MsgAddMarker` for the denom is
refused until the purge (`readd_refused_until_purged`) and afterwards creates a record whose
supply is the requested amount and (for a proposed / finalized add) leaves the bank untouched
(`readd_starts_from_the_request`); (d) activation of the new incarnation then makes the bank
supply equal to the new record (`activation_mints_up_to_recorded_supply`), so coins of the denom
that the ENVIRONMENT minted in between (`fmint`; the marker module cannot, by (b)) are counted
inside the new supply, never on top of it.

`readd_after_destroy_partial`: the per-operation facts above are theorems; the history-level
statement "between the destroying transaction and the activation of the next incarnation the
stored supply of the denom stays 0 along every history without a foreign mint of that denom" is
NOT proved here (it needs one more case analysis over all 23 operations for a destroyed / absent
record; every case is covered by (b), (c) or is a move, but the induction is not written). -/

/-- (b) while the record is `destroyed` every minting endpoint of the marker module refuses -/
theorem no_mint_while_destroyed {s : State} {d : Denom} {m : Marker} (hm : s.find d = some m)
    (hst : m.status = .destroyed) (s' : State) :
    (∀ c n, exec s (.mint c d n) ≠ .ok s') ∧
    (∀ au n t, exec s (.govinc au d n t) ≠ .ok s') ∧
    (∀ c, exec s (.activate c d) ≠ .ok s') ∧
    (∀ c, exec s (.finalize c d) ≠ .ok s') ∧
    (∀ au st, exec s (.govstatus au d st) ≠ .ok s') := by
  have hgm : getMarkerByDenom s d = .ok m := by unfold getMarkerByDenom; rw [hm]
  refine ⟨?_, ?_, ?_, ?_, ?_⟩
  · intro c n h
    simp only [exec, mintCoin, bind_ok, check_ok, pure_ok] at h
    obtain ⟨_, _, m0, hm0, _, _, h⟩ := h
    rw [hgm] at hm0; cases hm0
    rw [if_neg (by rw [hst]; decide), if_pos (by rw [hst]; decide)] at h
    cases h
  · intro au n t h
    simp only [exec, govSupplyIncrease, bind_ok, check_ok, pure_ok] at h
    obtain ⟨_, _, _, _, m0, hm0, h⟩ := h
    have := (govMarker_ok hm0).1
    rw [hm] at this; cases this
    rw [if_neg (by rw [hst]; decide), if_pos (by rw [hst]; decide)] at h
    cases h
  · intro c h
    obtain ⟨m0, hm0, hfin, _⟩ := activation_mints_up_to_recorded_supply h
    rw [hm] at hm0; cases hm0
    rw [hst] at hfin; cases hfin
  · intro c h
    simp only [exec, finalizeMarker, bind_ok, check_ok, pure_ok] at h
    obtain ⟨m0, hm0, _, _, _, hp, _⟩ := h
    rw [hgm] at hm0; cases hm0
    rw [hst] at hp
    simp at hp
  · intro au st h
    simp only [exec, govChangeStatus, bind_ok, check_ok, pure_ok] at h
    obtain ⟨_, _, m0, hm0, _, _, _, hle, b1, hb1, b2, hb2, _⟩ := h
    have := (govMarker_ok hm0).1
    rw [hm] at this; cases this
    rw [hst] at hle hb2
    cases st <;> simp at hle <;> first
      | (exact absurd hle (by decide))
      | (simp only [if_true, bind_ok, check_ok] at hb2
         obtain ⟨_, hx, _⟩ := hb2
         simp at hx)

/-- (b) once the begin-block has purged the record, the marker module cannot touch the denom at
all until it is added again: every supply / lifecycle endpoint answers "not found" -/
theorem no_mint_without_record {s : State} {d : Denom} (hm : s.find d = none) :
    (∀ c n, exec s (.mint c d n) = .error .notfound ∨ exec s (.mint c d n) = .error .invalid) ∧
    (∀ c, exec s (.activate c d) = .error .notfound) ∧
    (∀ c, exec s (.finalize c d) = .error .notfound) ∧
    (∀ st, exec s (.govstatus GOV d st) = .error .notfound) := by
  have hgm : getMarkerByDenom s d = .error .notfound := by unfold getMarkerByDenom; rw [hm]
  refine ⟨?_, ?_, ?_, ?_⟩
  · intro c n
    by_cases hn : 0 ≤ n
    · left; simp [exec, mintCoin, check, hn, hgm, bind, Except.bind]
    · right; simp [exec, mintCoin, check, hn, bind, Except.bind]
  · intro c; simp [exec, activateMarker, hgm, bind, Except.bind]
  · intro c; simp [exec, finalizeMarker, hgm, bind, Except.bind]
  · intro st; simp [exec, govChangeStatus, govMarker, check, hgm, bind, Except.bind]

/-- (c) as long as a record of the denom exists — the destroyed one, until the begin-block purge —
`MsgAddMarker` / `MsgAddFinalizeActivate` for the same denom are refused -/
theorem readd_refused_until_purged {s : State} {r : AddReq} {m : Marker}
    (hm : s.find r.denom = some m) (s' : State) :
    exec s (.add r) ≠ .ok s' ∧ exec s (.addfa r) ≠ .ok s' := by
  constructor
  · intro h
    simp only [exec, addMarker, bind_ok, check_ok, pure_ok] at h
    obtain ⟨_, _, _, _, _, _, _, _, s1, hs1, _⟩ := h
    have := (addMarkerAccount_ok hs1).2
    simp only [newMarkerAccount] at this
    rw [hm] at this; cases this
  · intro h
    simp only [exec, addFinalizeActivate, bind_ok, check_ok, pure_ok] at h
    obtain ⟨_, _, _, _, _, _, _, _, s1, hs1, _⟩ := h
    have := (addMarkerAccount_ok hs1).2
    simp only [newMarkerAccount] at this
    rw [hm] at this; cases this

/-- (c) a (re-)added marker starts from the request alone: the new record carries the requested
amount, and unless it is created active (governance authority only) the bank is untouched — no
coin is minted, none is burned, nothing of an earlier incarnation is consulted -/
theorem readd_starts_from_the_request {s s' : State} {r : AddReq} (h : exec s (.add r) = .ok s') :
    s.find r.denom = none ∧
    (∃ m', s'.find r.denom = some m' ∧ m'.supply = r.amt ∧ m'.status = r.status) ∧
    (r.status ≠ .active → s'.bank = s.bank) ∧
    (r.status = .active → s'.bank.supply r.denom = r.amt) := by
  simp only [exec, addMarker, bind_ok, check_ok, pure_ok] at h
  obtain ⟨_, _, _, _, _, _, _, _, s1, hs1, h⟩ := h
  generalize (if r.manager ≠ "" then r.manager else if r.status ≠ Status.active then r.sender else "") = mgr at h hs1
  generalize (r.gov || !decide (r.sender = GOV) && s.enableGov) = ag at h hs1
  obtain ⟨rfl, hnone⟩ := addMarkerAccount_ok hs1
  have hfind : (s.setMarker (newMarkerAccount r mgr r.status ag)).find r.denom
      = some (newMarkerAccount r mgr r.status ag) := find_setMarker_self s _
  by_cases hact : (newMarkerAccount r mgr r.status ag).status = .active
  · rw [if_pos hact] at h
    simp only [bind_ok, pure_ok] at h
    obtain ⟨b, hb, rfl⟩ := h
    have hact' : r.status = .active := hact
    exact ⟨hnone, ⟨_, hfind, rfl, rfl⟩, fun hne => absurd hact' hne, fun _ => adjust_supply hb⟩
  · rw [if_neg hact] at h
    simp only [pure_ok] at h
    subst h
    have hact' : r.status ≠ .active := hact
    exact ⟨hnone, ⟨_, hfind, rfl, rfl⟩, fun _ => rfl, fun he => absurd he hact'⟩

/-- `MsgDelete` leaves the record in place, `destroyed`, until the begin-block purge -/
theorem delete_leaves_destroyed_record {s s' : State} {c : Addr} {d : Denom}
    (h : exec s (.delete c d) = .ok s') : ∃ m', s'.find d = some m' ∧ m'.status = .destroyed := by
  simp only [exec, deleteMarker, bind_ok, check_ok, pure_ok] at h
  obtain ⟨m, hm, _, _, _, _, _, _, s1, hs1, _, _, m2, hm2, _, _, rfl⟩ := h
  have hd2 := find_denom (getMarker_ok hm2)
  refine ⟨m2.setStatus .destroyed, ?_, rfl⟩
  have := find_setMarker_self s1 (m2.setStatus .destroyed)
  rw [show (m2.setStatus .destroyed).denom = d from hd2] at this
  exact this

/-- **What a re-added incarnation can find of the destroyed one** — `_partial`: the facts are per
transaction, for every chain state; the full statement ("along EVERY history without a foreign
mint of the denom, from the destroying transaction to the activation of the next incarnation the
stored supply of the denom is 0 and no account holds a coin of it") additionally needs an induction
over the operations in between, which is not written (see the section comment).  After a
successful `MsgDelete`: nobody holds a coin of the denom, its stored supply is 0, the record stays
as `destroyed`, and in that state the marker module neither mints the denom (`MsgMint`, supply
increase proposal, activation, governance status change) nor accepts a new marker for it. -/
theorem readd_after_destroy_partial {s s1 : State} (hnn : NonNeg s.bank) (hc : Consistent s.bank)
    {c : Addr} {d : Denom} (hdel : exec s (.delete c d) = .ok s1) :
    (∀ a, s1.bank.bal a d = 0) ∧ s1.bank.supply d = 0 ∧
    (∃ m, s1.find d = some m ∧ m.status = .destroyed) ∧
    (∀ s2 c' n, exec s1 (.mint c' d n) ≠ .ok s2) ∧
    (∀ s2 au n t, exec s1 (.govinc au d n t) ≠ .ok s2) ∧
    (∀ s2 c', exec s1 (.activate c' d) ≠ .ok s2) ∧
    (∀ s2 au st, exec s1 (.govstatus au d st) ≠ .ok s2) ∧
    (∀ s2 r, r.denom = d → exec s1 (.add r) ≠ .ok s2 ∧ exec s1 (.addfa r) ≠ .ok s2) := by
  obtain ⟨m, hm, hst⟩ := delete_leaves_destroyed_record hdel
  refine ⟨delete_leaves_no_coin_anywhere hnn hc hdel, (delete_only_debits_marker_account hdel).2.1,
    ⟨m, hm, hst⟩, fun s2 => (no_mint_while_destroyed hm hst s2).1,
    fun s2 => (no_mint_while_destroyed hm hst s2).2.1,
    fun s2 => (no_mint_while_destroyed hm hst s2).2.2.1,
    fun s2 => (no_mint_while_destroyed hm hst s2).2.2.2.2, ?_⟩
  intro s2 r hr
  subst hr
  exact readd_refused_until_purged hm s2

/-- non-trivial instance: the cancelled witness marker (100 coins, all in `@mka`) can be deleted -/
example : ∃ s1, exec cancelledWitness (.delete "A" "mka") = .ok s1 := ⟨_, rfl⟩

/-- the begin-block purge removes exactly the destroyed records and, when every active
fixed-supply marker matches the bank (which the supply theorem provides), leaves the bank — the
zero supply of the destroyed denom included — untouched -/
theorem purge_keeps_zero_supply {s s' : State} (hwf : WF s) (hinv : SupplyInv s) {d : Denom} {m : Marker}
    (hm : s.find d = some m) (hst : m.status = .destroyed) (h : exec s .beginblock = .ok s') :
    s'.find d = none ∧ s'.bank = s.bank := by
  refine ⟨?_, beginBlock_bank_unchanged hwf hinv h⟩
  have := find_beginBlock hwf h d
  rw [hm] at this
  simp only [hst, if_true] at this
  exact this

/-- **A whole life cycle, on the model and (corpus `mkrsup.readd.ops`) on the implementation**:
the witness marker is emptied, cancelled, deleted (100 coins burned, supply 0, nobody holds `mka`),
purged at the begin-block, and added again with amount 7: the new incarnation is proposed with
record 7, the bank still has no `mka`; after finalize + activate the supply is exactly 7. -/
def readdOp : Op :=
  .add { sender := "C", denom := "mka", amt := 7, status := .proposed, restricted := false,
         fixed := true, gov := false, forced := false, manager := "C", access := [("C", [.mint])] }

def readdOps : List Op :=
  [.send "B" "@mka" "mka" 10, .cancel "A" "mka", .delete "A" "mka", .beginblock, readdOp]

theorem readd_after_destroy_witness :
    ((run witnessState (readdOps.take 3)).find "mka").map (·.status) = some .destroyed ∧
    (run witnessState (readdOps.take 3)).bank.supply "mka" = 0 ∧
    (run witnessState (readdOps.take 3)).bank.bal "@mka" "mka" = 0 ∧
    (run witnessState (readdOps.take 4)).find "mka" = none ∧
    ((run witnessState readdOps).find "mka").map (fun m => (m.status, m.supply)) = some (.proposed, 7) ∧
    (run witnessState readdOps).bank.supply "mka" = 0 ∧
    (run witnessState (readdOps ++ [.finalize "C" "mka", .activate "C" "mka"])).bank.supply "mka" = 7 ∧
    (run witnessState (readdOps ++ [.finalize "C" "mka", .activate "C" "mka"])).bank.bal "@mka" "mka" = 7 := by
  decide

/-- leftover coins can only come from the environment: a foreign mint of 5 `mka` to `B` after the
purge is counted INSIDE the next incarnation's supply (activation tops up to the record, 7), or,
when the new record is smaller than what exists, blocks it (`err:preexisting`) -/
theorem foreign_leftover_is_absorbed_or_blocks :
    (run witnessState (readdOps.take 4 ++ [.fmint "B" "mka" 5, readdOp,
        .finalize "C" "mka", .activate "C" "mka"])).bank.supply "mka" = 7 ∧
    (run witnessState (readdOps.take 4 ++ [.fmint "B" "mka" 5, readdOp,
        .finalize "C" "mka", .activate "C" "mka"])).bank.bal "@mka" "mka" = 2 ∧
    exec (run witnessState (readdOps.take 4 ++ [.fmint "B" "mka" 9, readdOp]))
      (.finalize "C" "mka") = .error .preexisting := by
  refine ⟨?_, ?_, rfl⟩ <;> decide

end PvProofs.C05
