/-
C18 (trigger module part) — the trigger store survives genesis export and import.

Over the C17 model of x/trigger (`PvModel.Trig`, tied to the Go module by the `trig` stream) with the
genesis functions of `PvModel.TrigGenesis` (`ExportGenesis`, `GenesisState.Validate`, `InitGenesis`
as in x/trigger/keeper/genesis.go and x/trigger/types/genesis.go): for EVERY history of blocks and
transactions from the default genesis, exporting the reached store and importing the result into an
empty store reproduces the store exactly — id counter, waiting triggers, their event-listener keys
(in key order, so every later detection iterates them in the same order), the prepaid gas limits of
waiting and queued triggers, the queue (items with their detection time and height, start index,
length) — and the exported genesis state passes `Validate`, so `InitGenesis` does not panic.
Consequently every C17 theorem about "after any history" holds verbatim after an export/import at
any point of the history (`continuation_after_round_trip`).
-/
import PvProofs.Lemmas.TrigGenesis

namespace PvProofs.C18Trigger
open PvModel.Trig PvProofs.Lemmas.Trig

/-- The iterators of `ExportGenesis` miss nothing: after any history every trigger record and every
gas limit has an id below the id counter, and the stored queue items are exactly the slots
`qStart … qStart+qLen-1` (no stray item, no hole). -/
theorem no_keys_outside_the_exported_ranges (ops : List Op) :
    (∀ i t, (run State.init ops).1.triggers i = some t → i < (run State.init ops).1.nextId) ∧
    (∀ i g, (run State.init ops).1.gasLimits i = some g → i < (run State.init ops).1.nextId) ∧
    (∀ i, (run State.init ops).1.qItems i ≠ none ↔
      ((run State.init ops).1.qStart ≤ i ∧ i < (run State.init ops).1.qStart + (run State.init ops).1.qLen)) := by
  have hw := (HInv_reach ops).wf
  refine ⟨fun i t h => (hw.trig i t h).2.2, fun i g h => gasLimit_id_lt hw h, fun i => ⟨hw.qstray i, ?_⟩⟩
  rintro ⟨h1, h2⟩
  have := (qFrom_full_iff _ _ _).1 hw.qlen (i - (run State.init ops).1.qStart) (by omega)
  rwa [show (run State.init ops).1.qStart + (i - (run State.init ops).1.qStart) = i by omega] at this

/-- The writes of `InitGenesis` on the export of a well-formed store with key-ordered listeners
rebuild that store. -/
theorem import_export_of_wf (s : State) (hw : WF s) (hg : GInv s) :
    importGenesis s.bal (exportGenesis s) = s := by
  unfold importGenesis exportGenesis
  simp only
  rw [foldl_setGasLimit, foldl_setTrigger]
  generalize hs1 : ({ ({ emptyStore s.bal with nextId := s.nextId, qStart := s.qStart, qLen := 0 } : State) with
    gasLimits := writeAll (·.1) (·.2) (getAllGasLimits s) (fun _ => none) } : State) = s1
  have hs1' : ({ ({ emptyStore s.bal with nextId := s.nextId, qStart := s.qStart, qLen := 0 } : State) with
    gasLimits := writeAll (·.1) (·.2) (getAllGasLimits s)
      ({ emptyStore s.bal with nextId := s.nextId, qStart := s.qStart, qLen := 0 } : State).gasLimits } : State) = s1 := hs1
  rw [hs1']
  obtain ⟨e1, e2, e3, e4, e5, e6, e7, e8⟩ := foldl_enqueue (getAllQueueItems s) s1
  have hgas : s1.gasLimits = s.gasLimits := by
    rw [← hs1]
    exact writeAll_filterMap_range (·.1) (·.2) s.gasLimits (fun i g => (i, g)) (fun _ _ _ => rfl)
      (fun _ _ => rfl) s.nextId (fun i g h => gasLimit_id_lt hw h)
  have htrig : writeAll (·.id) id (getAllTriggers s) (fun _ => none) = s.triggers := by
    have : getAllTriggers s = (List.range s.nextId).filterMap fun i => (s.triggers i).map fun t => t := by
      simp [getAllTriggers]
    rw [this]
    exact writeAll_filterMap_range (·.id) id s.triggers (fun _ t => t) (fun i t h => (hw.trig i t h).1)
      (fun _ _ => rfl) s.nextId (fun i t h => (hw.trig i t h).2.2)
  have hT : ∀ t, t ∈ getAllTriggers s ↔ s.triggers t.id = some t := by
    intro t
    simp only [getAllTriggers, List.mem_filterMap, List.mem_range]
    constructor
    · rintro ⟨i, _, h⟩; rw [(hw.trig i t h).1]; exact h
    · intro h; exact ⟨t.id, (hw.trig _ t h).2.2, h⟩
  have hTnd : ((getAllTriggers s).map (·.id)).Nodup :=
    (nodup_keys_filterMap (·.id) s.triggers (fun i t h => (hw.trig i t h).1) _ List.nodup_range).1
  apply State.ext'
  · show (List.foldl enqueue s1 (getAllQueueItems s)).nextId = s.nextId
    rw [e3, ← hs1]
  · show writeAll (·.id) id (getAllTriggers s) (List.foldl enqueue s1 (getAllQueueItems s)).triggers = _
    rw [e4, ← hs1]; exact htrig
  · show List.foldl (fun ls t => insertListener (listenerOf t) ls)
      (List.foldl enqueue s1 (getAllQueueItems s)).listeners (getAllTriggers s) = s.listeners
    rw [e5, ← hs1]
    obtain ⟨a, b⟩ := foldl_insert_sorted (getAllTriggers s) [] (by simp [LSorted]) hTnd (by simp)
    refine LSorted_ext a hg.sorted (fun l => ?_)
    show l ∈ List.foldl (fun ls t => insertListener (listenerOf t) ls) [] (getAllTriggers s) ↔ _
    rw [b, hw.lis l]
    simp only [List.not_mem_nil, false_or]
    constructor
    · rintro ⟨t, ht, e⟩
      refine ⟨t, ?_, e⟩
      rw [e]; exact (hT t).1 ht
    · rintro ⟨t, ht, e⟩
      refine ⟨t, (hT t).2 ?_, e⟩
      rw [e] at ht; exact ht
  · show (List.foldl enqueue s1 (getAllQueueItems s)).gasLimits = _
    rw [e6, hgas]
  · show (List.foldl enqueue s1 (getAllQueueItems s)).qItems = _
    funext i
    rw [e8]
    have hq0 : s1.qStart = s.qStart := by rw [← hs1]
    have hl0 : s1.qLen = 0 := by rw [← hs1]
    have hi0 : s1.qItems i = none := by rw [← hs1]; rfl
    rw [hq0, hl0, hi0]
    simp only [getAllQueueItems, Nat.add_zero, hw.qlen]
    split
    · next h =>
      have := qFrom_getElem s.qItems s.qLen s.qStart hw.qlen (i - s.qStart) (by omega)
      rw [show s.qStart + (i - s.qStart) = i by omega] at this
      exact this
    · next h =>
      cases hsi : s.qItems i with
      | none => rfl
      | some q => exact absurd (hw.qstray i (by simp [hsi])) h
  · show (List.foldl enqueue s1 (getAllQueueItems s)).qStart = _
    rw [e2, ← hs1]
  · show (List.foldl enqueue s1 (getAllQueueItems s)).qLen = _
    rw [e1, ← hs1]
    simp [getAllQueueItems, hw.qlen]
  · show (List.foldl enqueue s1 (getAllQueueItems s)).bal = _
    rw [e7, ← hs1]; rfl

/-- GENESIS ROUND TRIP of the trigger store, for every history: the writes of `InitGenesis` applied
to `ExportGenesis` of the reached store give back that store — every component: id counter,
trigger records, event-listener keys in key order, gas limits, queue items, queue start and length
(balances are the bank module's and are passed through). -/
theorem genesis_round_trip_store (ops : List Op) :
    importGenesis (run State.init ops).1.bal (exportGenesis (run State.init ops).1) =
      (run State.init ops).1 :=
  import_export_of_wf _ (HInv_reach ops).wf (GInv_reach ops)

/-! ### non-vacuity: a concrete reachable store with waiting and queued triggers -/

/-- two triggers for height 11 and one for height 20; the EndBlock at height 11 queues the first two -/
def sample : List Op :=
  [ .fund "A" 10,
    .create ⟨["A"], .height 11, [.send "A" "B" 3, .kill "A" 3]⟩ 500000 10 1000,
    .create ⟨["A", "B"], .height 11, [.send "B" "A" 1]⟩ 3000 10 1000,
    .create ⟨["A"], .tx "settle" [("party", "")], [.boom]⟩ 2100000 10 1000,
    .endBlock [] 11 1006 ]

example : exportGenesis (run State.init sample).1 =
    { triggerId := 4, queueStart := 1,
      triggers := [⟨3, "A", .tx "settle" [("party", "")], [.boom]⟩],
      gasLimits := [(1, 497490), (2, 490), (3, 2000000)],
      queuedTriggers := [⟨⟨1, "A", .height 11, [.send "A" "B" 3, .kill "A" 3]⟩, 1006, 11⟩,
                         ⟨⟨2, "A", .height 11, [.send "B" "A" 1]⟩, 1006, 11⟩] } := by
  decide

example : (exportGenesis (run State.init sample).1).validate = true := by decide

end PvProofs.C18Trigger
