/-
C18 (trigger module part) — the trigger store survives genesis export and import.

Over the C17 model of x/trigger (`PvModel.Trig`, tied to the Go module by the `trig` stream) with the
genesis functions of `PvModel.TrigGenesis` (`ExportGenesis`, `GenesisState.Validate`, `InitGenesis`
as in x/trigger/keeper/genesis.go and x/trigger/types/genesis.go): for EVERY history of blocks and
transactions from the default genesis, exporting the reached store and importing the result into an
empty store reproduces the store exactly — id counter, waiting triggers, their event-listener keys
(in key order, so every later detection iterates them in the same order), the prepaid gas limits of
waiting and queued triggers, the queue (items with their detection time and height, start index,
length) — and the exported genesis state passes `Validate`, so `InitGenesis` does not panic.
Consequently every C17 theorem about "after any history" holds verbatim after an export/import at
any point of the history (`continuation_after_round_trip`).
-/
import PvProofs.Lemmas.TrigGenesis
import PvProofs.C17

namespace PvProofs.C18Trigger
open PvModel.Trig PvProofs.Lemmas.Trig

/-- The iterators of `ExportGenesis` miss nothing: after any history every trigger record and every
gas limit has an id below the id counter, and the stored queue items are exactly the slots
`qStart … qStart+qLen-1` (no stray item, no hole). -/
theorem no_keys_outside_the_exported_ranges (ops : List Op) :
    (∀ i t, (run State.init ops).1.triggers i = some t → i < (run State.init ops).1.nextId) ∧
    (∀ i g, (run State.init ops).1.gasLimits i = some g → i < (run State.init ops).1.nextId) ∧
    (∀ i, (run State.init ops).1.qItems i ≠ none ↔
      ((run State.init ops).1.qStart ≤ i ∧ i < (run State.init ops).1.qStart + (run State.init ops).1.qLen)) := by
  have hw := (HInv_reach ops).wf
  refine ⟨fun i t h => (hw.trig i t h).2.2, fun i g h => gasLimit_id_lt hw h, fun i => ⟨hw.qstray i, ?_⟩⟩
  rintro ⟨h1, h2⟩
  have := (qFrom_full_iff _ _ _).1 hw.qlen (i - (run State.init ops).1.qStart) (by omega)
  rwa [show (run State.init ops).1.qStart + (i - (run State.init ops).1.qStart) = i by omega] at this

/-- The writes of `InitGenesis` on the export of a well-formed store with key-ordered listeners
rebuild that store. -/
theorem import_export_of_wf (s : State) (hw : WF s) (hg : GInv s) :
    importGenesis s.bal (exportGenesis s) = s := by
  unfold importGenesis exportGenesis
  simp only
  rw [foldl_setGasLimit, foldl_setTrigger]
  generalize hs1 : ({ ({ emptyStore s.bal with nextId := s.nextId, qStart := s.qStart, qLen := 0 } : State) with
    gasLimits := writeAll (·.1) (·.2) (getAllGasLimits s) (fun _ => none) } : State) = s1
  have hs1' : ({ ({ emptyStore s.bal with nextId := s.nextId, qStart := s.qStart, qLen := 0 } : State) with
    gasLimits := writeAll (·.1) (·.2) (getAllGasLimits s)
      ({ emptyStore s.bal with nextId := s.nextId, qStart := s.qStart, qLen := 0 } : State).gasLimits } : State) = s1 := hs1
  rw [hs1']
  obtain ⟨e1, e2, e3, e4, e5, e6, e7, e8⟩ := foldl_enqueue (getAllQueueItems s) s1
  have hgas : s1.gasLimits = s.gasLimits := by
    rw [← hs1]
    exact writeAll_filterMap_range (·.1) (·.2) s.gasLimits (fun i g => (i, g)) (fun _ _ _ => rfl)
      (fun _ _ => rfl) s.nextId (fun i g h => gasLimit_id_lt hw h)
  have htrig : writeAll (·.id) id (getAllTriggers s) (fun _ => none) = s.triggers := by
    have : getAllTriggers s = (List.range s.nextId).filterMap fun i => (s.triggers i).map fun t => t := by
      simp [getAllTriggers]
    rw [this]
    exact writeAll_filterMap_range (·.id) id s.triggers (fun _ t => t) (fun i t h => (hw.trig i t h).1)
      (fun _ _ => rfl) s.nextId (fun i t h => (hw.trig i t h).2.2)
  have hT : ∀ t, t ∈ getAllTriggers s ↔ s.triggers t.id = some t := by
    intro t
    simp only [getAllTriggers, List.mem_filterMap, List.mem_range]
    constructor
    · rintro ⟨i, _, h⟩; rw [(hw.trig i t h).1]; exact h
    · intro h; exact ⟨t.id, (hw.trig _ t h).2.2, h⟩
  have hTnd : ((getAllTriggers s).map (·.id)).Nodup :=
    (nodup_keys_filterMap (·.id) s.triggers (fun i t h => (hw.trig i t h).1) _ List.nodup_range).1
  apply State.ext'
  · show (List.foldl enqueue s1 (getAllQueueItems s)).nextId = s.nextId
    rw [e3, ← hs1]
  · show writeAll (·.id) id (getAllTriggers s) (List.foldl enqueue s1 (getAllQueueItems s)).triggers = _
    rw [e4, ← hs1]; exact htrig
  · show List.foldl (fun ls t => insertListener (listenerOf t) ls)
      (List.foldl enqueue s1 (getAllQueueItems s)).listeners (getAllTriggers s) = s.listeners
    rw [e5, ← hs1]
    obtain ⟨a, b⟩ := foldl_insert_sorted (getAllTriggers s) [] (by simp [LSorted]) hTnd (by simp)
    refine LSorted_ext a hg.sorted (fun l => ?_)
    show l ∈ List.foldl (fun ls t => insertListener (listenerOf t) ls) [] (getAllTriggers s) ↔ _
    rw [b, hw.lis l]
    simp only [List.not_mem_nil, false_or]
    constructor
    · rintro ⟨t, ht, e⟩
      refine ⟨t, ?_, e⟩
      rw [e]; exact (hT t).1 ht
    · rintro ⟨t, ht, e⟩
      refine ⟨t, (hT t).2 ?_, e⟩
      rw [e] at ht; exact ht
  · show (List.foldl enqueue s1 (getAllQueueItems s)).gasLimits = _
    rw [e6, hgas]
  · show (List.foldl enqueue s1 (getAllQueueItems s)).qItems = _
    funext i
    rw [e8]
    have hq0 : s1.qStart = s.qStart := by rw [← hs1]
    have hl0 : s1.qLen = 0 := by rw [← hs1]
    have hi0 : s1.qItems i = none := by rw [← hs1]; rfl
    rw [hq0, hl0, hi0]
    simp only [getAllQueueItems, Nat.add_zero, hw.qlen]
    split
    · next h =>
      have := qFrom_getElem s.qItems s.qLen s.qStart hw.qlen (i - s.qStart) (by omega)
      rw [show s.qStart + (i - s.qStart) = i by omega] at this
      exact this
    · next h =>
      cases hsi : s.qItems i with
      | none => rfl
      | some q => exact absurd (hw.qstray i (by simp [hsi])) h
  · show (List.foldl enqueue s1 (getAllQueueItems s)).qStart = _
    rw [e2, ← hs1]
  · show (List.foldl enqueue s1 (getAllQueueItems s)).qLen = _
    rw [e1, ← hs1]
    simp [getAllQueueItems, hw.qlen]
  · show (List.foldl enqueue s1 (getAllQueueItems s)).bal = _
    rw [e7, ← hs1]; rfl

/-- GENESIS ROUND TRIP of the trigger store, for every history: the writes of `InitGenesis` applied
to `ExportGenesis` of the reached store give back that store — every component: id counter,
trigger records, event-listener keys in key order, gas limits, queue items, queue start and length
(balances are the bank module's and are passed through). -/
theorem genesis_round_trip_store (ops : List Op) :
    importGenesis (run State.init ops).1.bal (exportGenesis (run State.init ops).1) =
      (run State.init ops).1 :=
  import_export_of_wf _ (HInv_reach ops).wf (GInv_reach ops)

/-- every trigger stored after any history (waiting or queued) has a valid event and valid actions:
it comes unchanged from a create transaction that passed `ValidateBasic` -/
theorem stored_triggers_are_valid (ops : List Op) (t : Trigger) (h : stored (run State.init ops).1 t) :
    t.event.validate = true ∧ ∀ a ∈ t.actions, a.validateBasic = true :=
  PvProofs.C17.stored_triggers_were_authorised ops State.init [] HInv_init
    (fun t => t.event.validate = true ∧ ∀ a ∈ t.actions, a.validateBasic = true)
    (by
      intro t ht
      rcases ht with ht | ⟨q, hq, _⟩
      · simp [State.init] at ht
      · simp [State.init, qList, qFrom] at hq)
    (fun m _ _ _ _ hv _ _ _ _ => ⟨(validateBasic_ok hv).2.1, validateBasic_ok_actions hv⟩) t h

/-- After any history the exported genesis state passes `GenesisState.Validate`: counters non-zero,
one gas limit per waiting or queued trigger and no other, ids unique and not above the counter,
events and actions valid — `InitGenesis` does not panic on it. -/
theorem export_validates (ops : List Op) :
    (exportGenesis (run State.init ops).1).validate = true := by
  have hw := (HInv_reach ops).wf
  have hg := GInv_reach ops
  have hvalid := stored_triggers_are_valid ops
  generalize (run State.init ops).1 = s at hw hg hvalid
  obtain ⟨hnd, hperm⟩ := exported_ids hw
  have hqids : (qList s).map (fun q => q.trigger.id) = qIds s := rfl
  simp only [Genesis.validate, exportGenesis, getAllQueueItems, Bool.and_eq_true]
  refine ⟨⟨⟨⟨⟨?_, ?_⟩, ?_⟩, ?_⟩, ?_⟩, ?_⟩
  · have := hw.next; simp only [bne_iff_ne, ne_eq]; omega
  · have := hg.qstart; simp only [bne_iff_ne, ne_eq]; omega
  · have := hperm.length_eq
    simp only [List.length_map, List.length_append, qIds] at this
    simp only [beq_iff_eq]; omega
  · exact (allDistinct_iff _).2 (nodup_getAllGasLimits s)
  · rw [List.all_eq_true]
    intro t ht
    have hst : stored s t := by
      rcases List.mem_append.1 ht with h | h
      · exact Or.inl ((mem_getAllTriggers hw t).1 h)
      · obtain ⟨q, hq, e⟩ := List.mem_map.1 h
        exact Or.inr ⟨q, hq, e⟩
    obtain ⟨hev, hacts⟩ := hvalid t hst
    have hlt := stored_id_lt hw hst
    have hgas : t.id ∈ (getAllGasLimits s).map (·.1) := by
      rw [mem_gasKeys hw, hw.gas]
      rcases hst with h | ⟨q, hq, e⟩
      · left; rw [h]; rfl
      · right; rw [← e]; exact List.mem_map.2 ⟨q, hq, rfl⟩
    simp only [Bool.and_eq_true, List.all_eq_true, List.contains_iff_mem]
    exact ⟨⟨⟨fun a ha => genesisValidateBasic_of_validateBasic (hacts a ha),
      by first | exact Nat.le_of_lt hlt | exact decide_eq_true (Nat.le_of_lt hlt)⟩, hev⟩, hgas⟩
  · rw [allDistinct_iff, List.map_append, List.map_map]
    exact hnd

/-- GENESIS ROUND TRIP of the trigger module, for every history: `InitGenesis` on the
`ExportGenesis` of the reached store does not panic and reproduces the store, every component. -/
theorem genesis_round_trip (ops : List Op) :
    initGenesis (run State.init ops).1.bal (exportGenesis (run State.init ops).1) =
      some (run State.init ops).1 := by
  unfold initGenesis
  rw [export_validates ops, if_pos rfl, genesis_round_trip_store ops]

/-- Hence a chain restarted from an export behaves, from then on, exactly like the chain that was
never stopped: every continuation runs identically (same store, same log), so every C17 theorem about
the store after a history holds after an export/import at any point of it. -/
theorem continuation_after_round_trip (ops more : List Op) (s : State)
    (h : initGenesis (run State.init ops).1.bal (exportGenesis (run State.init ops).1) = some s) :
    run s more = run (run State.init ops).1 more := by
  rw [genesis_round_trip ops] at h
  cases h; rfl

/-! ### non-vacuity: a concrete reachable store with waiting and queued triggers -/

/-- two triggers for height 11 and one for height 20; the EndBlock at height 11 queues the first two -/
def sample : List Op :=
  [ .fund "A" 10,
    .create ⟨["A"], .height 11, [.send "A" "B" 3, .kill "A" 3]⟩ 500000 10 1000,
    .create ⟨["A", "B"], .height 11, [.send "B" "A" 1]⟩ 3000 10 1000,
    .create ⟨["A"], .tx "settle" [("party", "")], [.boom]⟩ 2100000 10 1000,
    .endBlock [] 11 1006 ]

example : exportGenesis (run State.init sample).1 =
    { triggerId := 4, queueStart := 1,
      triggers := [⟨3, "A", .tx "settle" [("party", "")], [.boom]⟩],
      gasLimits := [(1, 497490), (2, 490), (3, 2000000)],
      queuedTriggers := [⟨⟨1, "A", .height 11, [.send "A" "B" 3, .kill "A" 3]⟩, 1006, 11⟩,
                         ⟨⟨2, "A", .height 11, [.send "B" "A" 1]⟩, 1006, 11⟩] } := by
  decide

example : (exportGenesis (run State.init sample).1).validate = true := by decide

/-- the hypothesis of `continuation_after_round_trip` is satisfiable (by the round trip itself) -/
example : ∃ s, initGenesis (run State.init sample).1.bal (exportGenesis (run State.init sample).1) = some s :=
  ⟨_, genesis_round_trip sample⟩

/-- `Validate` is not vacuous: an export tampered with — a gas limit dropped, or a queued trigger
listed twice — is refused -/
example : ({ exportGenesis (run State.init sample).1 with gasLimits := [(1, 497490), (3, 2000000)] } : Genesis).validate = false ∧
    (let g := exportGenesis (run State.init sample).1
     ({ g with queuedTriggers := g.queuedTriggers ++ g.queuedTriggers.take 1,
               gasLimits := g.gasLimits ++ [(9, 1)] } : Genesis).validate = false) := by
  decide

end PvProofs.C18Trigger
