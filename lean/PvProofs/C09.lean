/-
C09 — A scope has one value owner, changed only with the current owner's consent.

Property: "Every scope has at most one value owner at any time, represented by exactly one
indivisible scope token held by that owner. The value owner changes only through an action
authorised by the current value owner (their signature, their authz grant to a signer, their
own transfer of the token, or, when the owner is a marker, a signer with withdraw permission on
it) and, when the new owner is a restricted marker, by a signer with deposit permission on it,
whichever message is used. Deleting a scope destroys its token, and no token exists for a
scope that does not exist."

All theorems are about the executable model `PvModel.Vowner` (metadata WriteScope / DeleteScope /
UpdateValueOwners / MigrateValueOwner over the bank ledger with the marker send restriction and
authz grants, plus direct bank sends), for EVERY state satisfying the invariant `Inv` — in
particular every state reachable from the empty chain by ANY sequence of operations, with any
markers / permissions / grants / contracts configuration — and every operation with any signer
list.  Helper lemmas live in `PvProofs/Lemmas/Vowner*.lean`.
-/
import PvProofs.Lemmas.VownerEffects
import PvProofs.Lemmas.VownerGrants
import PvProofs.Lemmas.VownerChecker

namespace PvProofs.C09
open PvModel PvModel.Ledger PvModel.Vowner PvProofs.VownerL

/-! ## The invariant holds along every operation sequence -/

/-- Any state without tokens satisfies the invariant (whatever scopes, grants, markers,
contracts and blocked addresses it has) — in particular the initial state of the driver. -/
theorem inv_of_empty_ledger (s : State) (h : s.ledger = []) : Inv s := by
  intro d
  exact ⟨none, by rw [h]; exact holderIs_nil d, by simp, by simp⟩

theorem inv_init : Inv {} := inv_of_empty_ledger {} rfl

/-- the kind and signers of an operation, as the property reads them: all signers of a metadata
message; the sender of a bank send -/
def opKind (op : Op) : StepKind := (stepInfo op true).kind
def opSigners (op : Op) : List Addr := (stepInfo op true).signers

/-- the signers the code actually looks at: when the first signer is a smart contract, only it -/
def opEffectiveSigners (s : State) : Op → List Addr
  | .write _ _ _ _ sg | .delete _ sg | .updvo _ _ sg | .migrate _ _ sg => effectiveSigners s sg
  | .send frm _ _ => [frm]
  | .mwithdraw _ admin _ _ => [admin]
  | _ => []

/-- One successful operation: the invariant is kept and every holder change is a `GoodStep`
(consent of the old holder, deposit permission on a restricted marker) with respect to the
effective signers. -/
theorem exec_step {s s' : State} {op : Op} (hinv : Inv s) (h : exec s op = .ok s') :
    Inv s' ∧ GoodStep s (opKind op) (opEffectiveSigners s op) s' := by
  cases op with
  | write id owners ru vo sg => obtain ⟨h1, h2, _⟩ := write_step hinv h; exact ⟨h1, h2⟩
  | delete id sg => obtain ⟨h1, h2, _⟩ := delete_step hinv h; exact ⟨h1, h2⟩
  | updvo ids vo sg => obtain ⟨h1, h2, _⟩ := updvo_step hinv h; exact ⟨h1, h2⟩
  | migrate ex pr sg => obtain ⟨h1, h2, _⟩ := migrate_step hinv h; exact ⟨h1, h2⟩
  | send frm to ids => obtain ⟨h1, h2, _⟩ := send_step hinv h; exact ⟨h1, h2⟩
  | mwithdraw mk ad to ids => obtain ⟨h1, h2, _⟩ := mwithdraw_step hinv h; exact ⟨h1, h2⟩
  | grant gr ge mt c =>
    simp [exec] at h; subst h
    exact ⟨inv_of_ledger_scopes_eq hinv rfl rfl, goodStep_of_ledger_eq _ _ rfl⟩
  | revoke gr ge mt =>
    obtain ⟨h1, h2⟩ := deleteGrant_eq h
    exact ⟨inv_of_ledger_scopes_eq hinv h1 h2, goodStep_of_ledger_eq _ _ h1⟩
  | access m a ps =>
    obtain ⟨h1, h2⟩ := setAccess_eq h
    exact ⟨inv_of_ledger_scopes_eq hinv h1 h2, goodStep_of_ledger_eq _ _ h1⟩
  | mstatus m st =>
    obtain ⟨h1, h2⟩ := setStatus_eq h
    exact ⟨inv_of_ledger_scopes_eq hinv h1 h2, goodStep_of_ledger_eq _ _ h1⟩

theorem opEffectiveSigners_sub (s : State) (op : Op) : ∀ x ∈ opEffectiveSigners s op, x ∈ opSigners op := by
  cases op <;> simp [opEffectiveSigners, opSigners, stepInfo] <;> exact effectiveSigners_sub s _

/-- the same with respect to the message's full signer list (what the property states) -/
theorem exec_step_signers {s s' : State} {op : Op} (hinv : Inv s) (h : exec s op = .ok s') :
    GoodStep s (opKind op) (opSigners op) s' := by
  have hg := (exec_step hinv h).2
  cases op with
  | send frm to ids => exact hg
  | mwithdraw mk ad to ids => exact hg
  | write id owners ru vo sg => exact hg.mono (opEffectiveSigners_sub s _) (by simp [opKind, stepInfo])
  | delete id sg => exact hg.mono (opEffectiveSigners_sub s _) (by simp [opKind, stepInfo])
  | updvo ids vo sg => exact hg.mono (opEffectiveSigners_sub s _) (by simp [opKind, stepInfo])
  | migrate ex pr sg => exact hg.mono (opEffectiveSigners_sub s _) (by simp [opKind, stepInfo])
  | grant gr ge mt c => exact hg.mono (opEffectiveSigners_sub s _) (by simp [opKind, stepInfo])
  | revoke gr ge mt => exact hg.mono (opEffectiveSigners_sub s _) (by simp [opKind, stepInfo])
  | access m a ps => exact hg.mono (opEffectiveSigners_sub s _) (by simp [opKind, stepInfo])
  | mstatus m st => exact hg.mono (opEffectiveSigners_sub s _) (by simp [opKind, stepInfo])

/-- A rejected message changes nothing (the model is transactional by construction; the harness
checks the same of the implementation by comparing dumps). -/
theorem rejected_changes_nothing (s : State) (op : Op) (e : Err) (h : exec s op = .error e) :
    (applyOp s op).1 = s := by
  simp [applyOp, h]

theorem applyOp_inv {s : State} (hinv : Inv s) (op : Op) : Inv (applyOp s op).1 := by
  unfold applyOp
  cases h : exec s op with
  | error e => exact hinv
  | ok s1 => exact (exec_step hinv h).1

theorem run_inv {s : State} (hinv : Inv s) (ops : List Op) : Inv (run s ops) := by
  induction ops generalizing s with
  | nil => exact hinv
  | cons op rest ih => exact ih (applyOp_inv hinv op)

/-! ## Clause 1 — at most one value owner, exactly one indivisible token held by that owner -/

/-- **token_supply_le_one**: after any operation sequence the supply of every scope denom is 0 or 1. -/
theorem token_supply_le_one (ops : List Op) (d : Denom) :
    supply (run {} ops).ledger d = 0 ∨ supply (run {} ops).ledger d = 1 := by
  obtain ⟨o, ho, _, _⟩ := run_inv inv_init ops d
  cases o with
  | none => left; simpa using ho.1
  | some a => right; simpa using ho.1

/-- **token_iff_owner**: after any operation sequence, for every scope: `GetScopeValueOwner`
(= `DenomOwner`) succeeds with some `o`; if `o = some h` then `h` holds exactly 1, everybody else
0, supply 1; if `o = none` nobody holds anything and the supply is 0.  So there is a token iff
there is a value owner, and the token's only holder is that owner. -/
theorem token_iff_owner (ops : List Op) (d : Denom) :
    ∃ o, denomOwner (run {} ops).ledger d = .ok o ∧
      supply (run {} ops).ledger d = (if o.isSome then 1 else 0) ∧
      ∀ a, bal (run {} ops).ledger a d = if o = some a then 1 else 0 := by
  obtain ⟨o, ho, _, _⟩ := run_inv inv_init ops d
  exact ⟨o, denomOwner_of_holderIs ho, ho.1, ho.2⟩

/-- the same from any invariant state (any markers, grants, contracts) -/
theorem token_iff_owner_inv {s : State} (hinv : Inv s) (ops : List Op) (d : Denom) :
    ∃ o, denomOwner (run s ops).ledger d = .ok o ∧
      supply (run s ops).ledger d = (if o.isSome then 1 else 0) ∧
      ∀ a, bal (run s ops).ledger a d = if o = some a then 1 else 0 := by
  obtain ⟨o, ho, _, _⟩ := run_inv hinv ops d
  exact ⟨o, denomOwner_of_holderIs ho, ho.1, ho.2⟩

/-- **value_owner_lookup_never_fails**: the "denom has more than one owner" branch of
`DenomOwner` (bank.go:37) is unreachable. -/
theorem value_owner_lookup_never_fails (ops : List Op) (d : Denom) (e : Err) :
    denomOwner (run {} ops).ledger d ≠ .error e := by
  obtain ⟨o, h, _⟩ := token_iff_owner ops d
  rw [h]; simp

/-- two different accounts never both hold (part of) a scope's token -/
theorem at_most_one_holder (ops : List Op) (d : Denom) (a b : Addr)
    (ha : bal (run {} ops).ledger a d ≠ 0) (hb : bal (run {} ops).ledger b d ≠ 0) : a = b := by
  obtain ⟨o, _, _, hbal⟩ := token_iff_owner ops d
  have h1 := hbal a; have h2 := hbal b
  by_cases hoa : o = some a
  · by_cases hob : o = some b
    · rw [hoa] at hob; injection hob
    · simp [hob] at h2; exact absurd h2 hb
  · simp [hoa] at h1; exact absurd h1 ha

/-- **no_token_without_scope**: a scope that does not exist has no token anywhere. -/
theorem no_token_without_scope (ops : List Op) (d : ScopeId) (h : hasScope (run {} ops) d = false) :
    supply (run {} ops).ledger d = 0 ∧ ∀ a, bal (run {} ops).ledger a d = 0 := by
  obtain ⟨o, ho, _, hsc⟩ := run_inv inv_init ops d
  cases o with
  | none => exact ⟨by simpa using ho.1, fun a => by simpa using ho.2 a⟩
  | some x => rw [hsc rfl] at h; cases h

/-- **delete_burns**: a successful DeleteScope leaves the scope absent, its token's supply 0 and
every balance of it 0 — whoever held it. -/
theorem delete_burns {s s' : State} (hinv : Inv s) (id : ScopeId) (signers : List Addr)
    (h : exec s (.delete id signers) = .ok s') :
    hasScope s' id = false ∧ supply s'.ledger id = 0 ∧ ∀ a, bal s'.ledger a id = 0 := by
  obtain ⟨_, _, h1, h2⟩ := delete_step hinv h
  exact ⟨h1, by simpa using h2.1, fun a => by simpa using h2.2 a⟩

/-- tokens are created only by WriteScope and destroyed only by DeleteScope: every other
operation keeps the supply of every scope denom -/
theorem supply_changes_only_by_write_delete {s s' : State} (hinv : Inv s) (op : Op)
    (h : exec s op = .ok s') (hw : ∀ id ow ru vo sg, op ≠ .write id ow ru vo sg) (hd : ∀ id sg, op ≠ .delete id sg)
    (d : Denom) : supply s'.ledger d = supply s.ledger d := by
  cases op with
  | write id owners ru vo sg => exact absurd rfl (hw _ _ _ _ _)
  | delete id sg => exact absurd rfl (hd _ _)
  | updvo ids vo sg => exact (updvo_step hinv h).2.2 d
  | migrate ex pr sg => exact (migrate_step hinv h).2.2 d
  | send frm to ids => exact (send_step hinv h).2.2 d
  | mwithdraw mk ad to ids => exact (mwithdraw_step hinv h).2.2 d
  | grant gr ge mt c => simp [exec] at h; subst h; rfl
  | revoke gr ge mt => rw [(deleteGrant_eq h).1]
  | access m a ps => rw [(setAccess_eq h).1]
  | mstatus m st => rw [(setStatus_eq h).1]

/-- a WriteScope without a value-owner field never touches any token -/
theorem write_without_value_owner_keeps_tokens {s s' : State} (hinv : Inv s) (id : ScopeId)
    (owners : List Party) (rollup : Bool) (signers : List Addr)
    (h : exec s (.write id owners rollup "" signers) = .ok s') :
    s'.ledger = s.ledger :=
  (write_step hinv h).2.2 rfl

/-! ## What each successful message does to the tokens, exactly -/

/-- WriteScope: the scope exists afterwards; with a value-owner field that address holds the
token; no other scope's token moves. -/
theorem write_sets_owner {s s' : State} (hinv : Inv s) (id : ScopeId) (owners : List Party) (rollup : Bool)
    (vo : Addr) (signers : List Addr) (h : exec s (.write id owners rollup vo signers) = .ok s') :
    hasScope s' id = true ∧ (vo ≠ "" → HolderIs s'.ledger id (some vo)) ∧
    (∀ d, d ≠ id → ∀ o, HolderIs s.ledger d o → HolderIs s'.ledger d o) :=
  write_effect hinv h

/-- UpdateValueOwners: exactly the named scopes' tokens end with the new value owner (each of
them had one), every other token stays. -/
theorem updvo_moves_exactly_named {s s' : State} (ids : List ScopeId) (vo : Addr)
    (signers : List Addr) (h : exec s (.updvo ids vo signers) = .ok s') :
    ∀ d o, HolderIs s.ledger d o → HolderIs s'.ledger d (if d ∈ ids then some vo else o) := by
  simp only [exec] at h
  unfold updateValueOwners at h
  split at h
  · simp at h
  · cases hl : getScopeValueOwners s.ledger ids with
    | error e => rw [hl] at h; simp at h
    | ok links =>
      rw [hl] at h; simp only at h
      cases hv : validateUpdateValueOwners s links vo signers .updvo with
      | error e => rw [hv] at h; simp at h
      | ok r =>
        obtain ⟨a, agents⟩ := r
        rw [hv] at h; simp only at h
        have := moveValueOwners_exact hv h
        rw [(getScopeValueOwners_spec hl).1] at this
        exact this

/-- MigrateValueOwner: exactly the tokens `ex` held end with `pr`; every other token stays. -/
theorem migrate_moves_exactly_held {s s' : State} (ex pr : Addr)
    (signers : List Addr) (h : exec s (.migrate ex pr signers) = .ok s') :
    ∀ d o, HolderIs s.ledger d o → HolderIs s'.ledger d (if o = some ex then some pr else o) := by
  simp only [exec] at h
  unfold migrateValueOwner at h
  split at h
  · simp at h
  · simp only at h
    split at h
    · simp at h
    · cases hv : validateUpdateValueOwners s (scopesForValueOwner s.ledger ex) pr signers .migrate with
      | error e => rw [hv] at h; simp at h
      | ok r =>
        obtain ⟨a, agents⟩ := r
        rw [hv] at h; simp only at h
        intro d o ho
        have := moveValueOwners_exact hv h d o ho
        by_cases hc : o = some ex
        · simpa [(mem_scopesForValueOwner ho).mpr hc, hc] using this
        · have hn : ¬ d ∈ (scopesForValueOwner s.ledger ex).map (·.2) := fun x => hc ((mem_scopesForValueOwner ho).mp x)
          simpa [hn, hc] using this

/-- bank MsgSend: the sender held every token it names; exactly those end with the receiver. -/
theorem send_moves_exactly_named {s s' : State} (hinv : Inv s) (frm to : Addr) (ids : List ScopeId)
    (h : exec s (.send frm to ids) = .ok s') :
    (∀ d ∈ ids, HolderIs s.ledger d (some frm)) ∧
    ∀ d o, HolderIs s.ledger d o → HolderIs s'.ledger d (if d ∈ ids then some to else o) :=
  send_effect hinv h

/-! ## Clause 2 — the owner changes only with the current owner's consent -/

/-- **owner_change_authorised**: in every successful step (any message kind, any signer list)
from an invariant state, if `h` held scope `d`'s token before and does not hold it after (it moved
or was burned), then the step's signers authorise `h` by one of the four routes: `h` signs; `h`
has an authz grant in force to a signer for this message type; the step is `h`'s own bank
transfer; `h` is a marker and a signer has withdraw on it. -/
theorem owner_change_authorised {s s' : State} (hinv : Inv s) (op : Op) (h : exec s op = .ok s')
    (d : ScopeId) (hd : Addr) (hbefore : HolderIs s.ledger d (some hd))
    (hafter : ¬ HolderIs s'.ledger d (some hd)) :
    Consents s (opKind op) (opSigners op) hd := by
  obtain ⟨o', ho', _, _⟩ := (exec_step hinv h).1 d
  have hne : some hd ≠ o' := fun e => hafter (e ▸ ho')
  exact (exec_step_signers hinv h d (some hd) o' hbefore ho' hne).1 hd rfl

/-- the stronger form the code implements: only the *effective* signers count (when the first
signer is a smart contract every other signer is ignored, signers.go:451) -/
theorem owner_change_authorised_effective {s s' : State} (hinv : Inv s) (op : Op) (h : exec s op = .ok s')
    (d : ScopeId) (hd : Addr) (hbefore : HolderIs s.ledger d (some hd))
    (hafter : ¬ HolderIs s'.ledger d (some hd)) :
    Consents s (opKind op) (opEffectiveSigners s op) hd := by
  obtain ⟨o', ho', _, _⟩ := (exec_step hinv h).1 d
  have hne : some hd ≠ o' := fun e => hafter (e ▸ ho')
  exact ((exec_step hinv h).2 d (some hd) o' hbefore ho' hne).1 hd rfl

/-- **deposit_authorised**: in every successful step, if `h'` holds scope `d`'s token after and did
not before (it arrived by transfer or mint) and `h'` is a restricted marker, one of the step's
signers has deposit permission on it. -/
theorem deposit_authorised {s s' : State} (hinv : Inv s) (op : Op) (h : exec s op = .ok s')
    (d : ScopeId) (hn : Addr) (hafter : HolderIs s'.ledger d (some hn))
    (hbefore : ¬ HolderIs s.ledger d (some hn)) :
    DepositP s (opSigners op) hn := by
  obtain ⟨o, ho, _, _⟩ := hinv d
  have hne : o ≠ some hn := fun e => hbefore (e ▸ ho)
  exact (exec_step_signers hinv h d o (some hn) ho hafter hne).2 hn rfl

/-- contrapositive, for metadata messages: if the holder is not a marker, does not sign and has
no grant in force to any signer for the message's type, the token stays where it is —
whichever of the four messages is used and whoever else signs. -/
theorem no_consent_no_change {s s' : State} (hinv : Inv s) (op : Op) (mt : MsgType)
    (hk : opKind op = .msg mt) (h : exec s op = .ok s')
    (d : ScopeId) (hd : Addr) (hbefore : HolderIs s.ledger d (some hd))
    (hnosig : hd ∉ opSigners op)
    (hnogrant : ∀ g ∈ s.grants, g.granter = hd → g.mt = mt → g.grantee ∉ opSigners op)
    (hnomarker : findMarker s hd = none) :
    HolderIs s'.ledger d (some hd) := by
  apply Classical.byContradiction
  intro hafter
  have hc := owner_change_authorised hinv op h d hd hbefore hafter
  rw [hk] at hc
  rcases hc with h1 | ⟨g, hg, h1, h2, h3⟩ | ⟨m, hm, _⟩
  · exact hnosig h1
  · exact hnogrant g hg h1 h3 h2
  · rw [hnomarker] at hm; cases hm

/-- **write_needs_value_owner_consent** — party validation is no substitute for the value
owner's consent: a WriteScope that goes through — on a plain scope or on a `require_party_rollup`
scope, whatever the scope's parties are and whichever of them sign, in particular when the value
owner is itself an OPTIONAL party of the scope and all the required parties sign — leaves the
token with the value owner `GetScopeValueOwner` reported unless that owner signs, has an authz
grant for MsgWriteScope in force to a signer, or is a marker. -/
theorem write_needs_value_owner_consent {s s' : State} (hinv : Inv s) (id : ScopeId) (owners : List Party)
    (rollup : Bool) (vo : Addr) (signers : List Addr)
    (h : exec s (.write id owners rollup vo signers) = .ok s')
    (hd : Addr) (hvo : denomOwner s.ledger id = .ok (some hd))
    (hnosig : hd ∉ signers)
    (hnogrant : ∀ g ∈ s.grants, g.granter = hd → g.mt = .write → g.grantee ∉ signers)
    (hnomarker : findMarker s hd = none) :
    denomOwner s'.ledger id = .ok (some hd) := by
  obtain ⟨o, ho, _, _⟩ := hinv id
  have ho' := denomOwner_of_holderIs ho
  rw [hvo] at ho'
  injection ho' with ho'
  subst ho'
  exact denomOwner_of_holderIs
    (no_consent_no_change hinv (.write id owners rollup vo signers) .write rfl h id hd ho hnosig hnogrant hnomarker)

/-- the hypotheses are satisfiable with the value owner an optional party: `B` is an optional
party and the value owner of a roll-up scope; `A` (the required party) rewrites the parties,
naming `B` as value owner again; the write goes through and `B` keeps the token -/
example : denomOwner
    (run {} [.write "s1" [req "A", opt "B"] true "B" ["A"],
             .write "s1" [req "A", opt "B", opt "C"] true "B" ["A"]]).ledger "s1" = .ok (some "B") := by
  have hinv : Inv (run {} [.write "s1" [req "A", opt "B"] true "B" ["A"]]) := run_inv inv_init _
  have hex : ∃ s', exec (run {} [.write "s1" [req "A", opt "B"] true "B" ["A"]])
      (.write "s1" [req "A", opt "B", opt "C"] true "B" ["A"]) = .ok s' ∧
      run {} [.write "s1" [req "A", opt "B"] true "B" ["A"],
              .write "s1" [req "A", opt "B", opt "C"] true "B" ["A"]] = s' := ⟨_, rfl, rfl⟩
  obtain ⟨s', h1, h2⟩ := hex
  rw [h2]
  have hg0 : (run {} [.write "s1" [req "A", opt "B"] true "B" ["A"]]).grants = [] := by decide
  exact write_needs_value_owner_consent hinv "s1" _ _ _ _ h1 "B" rfl (by decide)
    (by intro g hg; rw [hg0] at hg; simp at hg) (by decide)

/-- a bank send moves a token only when its holder is the sender -/
theorem send_only_by_holder {s s' : State} (hinv : Inv s) (frm to : Addr) (ids : List ScopeId)
    (h : exec s (.send frm to ids) = .ok s') (d : ScopeId) (hd : Addr)
    (hbefore : HolderIs s.ledger d (some hd)) (hne : hd ≠ frm) : HolderIs s'.ledger d (some hd) := by
  apply Classical.byContradiction
  intro hafter
  have hc := owner_change_authorised hinv _ h d hd hbefore hafter
  simp [opKind, opSigners, stepInfo, Consents] at hc
  exact hne hc.symm

/-- environment operations (granting, revoking, changing marker permissions) move no token -/
theorem env_ops_move_nothing {s s' : State} (op : Op) (hk : opKind op = .env) (h : exec s op = .ok s') :
    s'.ledger = s.ledger ∧ s'.scopes = s.scopes := by
  cases op with
  | grant gr ge mt c => simp [exec] at h; subst h; exact ⟨rfl, rfl⟩
  | revoke gr ge mt => exact deleteGrant_eq h
  | access m a ps => exact setAccess_eq h
  | mstatus m st => exact setStatus_eq h
  | write id owners ru vo sg => simp [opKind, stepInfo] at hk
  | delete id sg => simp [opKind, stepInfo] at hk
  | updvo ids vo sg => simp [opKind, stepInfo] at hk
  | migrate ex pr sg => simp [opKind, stepInfo] at hk
  | send frm to ids => simp [opKind, stepInfo] at hk
  | mwithdraw mk ad to ids => simp [opKind, stepInfo] at hk

/-- **messages_never_create_grants**: no message of the model creates or widens an authz
authorization — every grant in force afterwards goes back to a grant (same granter, grantee,
message type) in force before; consent cannot be manufactured by the messages it gates.
(Count authorizations are consumed: see the single-use example below.) -/
theorem messages_never_create_grants {s s' : State} (hinv : Inv s) (op : Op) (hk : opKind op ≠ .env)
    (h : exec s op = .ok s') : GrantsSub s s' := by
  cases op with
  | write id owners ru vo sg => exact write_grants hinv h
  | delete id sg => exact delete_grants hinv h
  | updvo ids vo sg =>
    simp only [exec] at h
    unfold updateValueOwners at h
    split at h
    · simp at h
    · cases hl : getScopeValueOwners s.ledger ids with
      | error e => rw [hl] at h; simp at h
      | ok links =>
        rw [hl] at h; simp only at h
        cases hv : validateUpdateValueOwners s links vo sg .updvo with
        | error e => rw [hv] at h; simp at h
        | ok r =>
          obtain ⟨a, agents⟩ := r
          rw [hv] at h; simp only at h
          exact moveValueOwners_grants hv h
  | migrate ex pr sg =>
    simp only [exec] at h
    unfold migrateValueOwner at h
    split at h
    · simp at h
    · simp only at h
      split at h
      · simp at h
      · cases hv : validateUpdateValueOwners s (scopesForValueOwner s.ledger ex) pr sg .migrate with
        | error e => rw [hv] at h; simp at h
        | ok r =>
          obtain ⟨a, agents⟩ := r
          rw [hv] at h; simp only at h
          exact moveValueOwners_grants hv h
  | send frm to ids =>
    simp only [exec] at h
    unfold bankSend at h
    split at h
    · simp at h
    · split at h
      · simp at h
      · exact grantsSub_of_eq (sendCoins_frame h).grants
  | mwithdraw mk ad to ids =>
    simp only [exec] at h
    unfold markerWithdraw at h
    split at h
    · simp at h
    · split at h
      · simp at h
      · (repeat' (split at h)) <;> simp at h
        all_goals (subst h; exact grantsSub_of_eq rfl)
  | grant gr ge mt c => simp [opKind, stepInfo] at hk
  | revoke gr ge mt => simp [opKind, stepInfo] at hk
  | access m a ps => simp [opKind, stepInfo] at hk
  | mstatus m st => simp [opKind, stepInfo] at hk

/-! ## Clause 2b — consent through an authz grant costs one of the grant's uses -/

theorem voUsed_elim {s : State} {pre cur : List Grant} {sg : List Addr} {mt : MsgType} {hd : Addr}
    (h : VoUsed s pre cur (effectiveSigners s sg) mt hd) (hnosig : hd ∉ sg) (hnomarker : findMarker s hd = none) :
    ∃ ge ∈ sg, ∃ g, lookupGrant pre ge hd mt = some g ∧ (g.count = 0 ∨ usedUp cur g = true) := by
  rcases h with h | h | ⟨ge, hge, hu⟩
  · exact absurd (effectiveSigners_sub s sg _ h) hnosig
  · simp [isMarker, hnomarker] at h
  · exact ⟨ge, effectiveSigners_sub s sg _ hge, usedR_elim hu⟩

/-- **authz_consent_uses_grant**: in every successful metadata message (WriteScope, DeleteScope,
UpdateValueOwners, MigrateValueOwner — any arguments, any signer list) from an invariant state, if
`hd` held scope `d`'s token before and not after, `hd` did not sign and is not a marker — so only
an authz grant can have authorised the change — then `hd` has a grant in force for this message
type to one of the signers which is either unlimited (a generic authorization) or has been USED
by the message: afterwards it is gone or has fewer uses left.  (`MsgUpdateValueOwners` and
`MsgMigrateValueOwner` do their signer check on the real state, not on a copy.) -/
theorem authz_consent_uses_grant {s s' : State} (hinv : Inv s) (op : Op) (mt : MsgType)
    (hk : opKind op = .msg mt) (h : exec s op = .ok s')
    (d : ScopeId) (hd : Addr) (hbefore : HolderIs s.ledger d (some hd))
    (hafter : ¬ HolderIs s'.ledger d (some hd))
    (hnosig : hd ∉ opSigners op) (hnomarker : findMarker s hd = none) :
    ∃ ge ∈ opSigners op, ∃ g, lookupGrant s.grants ge hd mt = some g ∧
      (g.count = 0 ∨ usedUp s'.grants g = true) := by
  cases op with
  | write id owners ru vo sg =>
    simp [opKind, stepInfo] at hk; subst hk
    exact voUsed_elim (write_use hinv h hbefore hafter) hnosig hnomarker
  | delete id sg =>
    simp [opKind, stepInfo] at hk; subst hk
    exact voUsed_elim (delete_use hinv h hbefore hafter) hnosig hnomarker
  | updvo ids vo sg =>
    simp [opKind, stepInfo] at hk; subst hk
    simp only [exec] at h
    unfold updateValueOwners at h
    split at h
    · simp at h
    · cases hl : getScopeValueOwners s.ledger ids with
      | error e => rw [hl] at h; simp at h
      | ok links =>
        rw [hl] at h; simp only at h
        cases hv : validateUpdateValueOwners s links vo sg .updvo with
        | error e => rw [hv] at h; simp at h
        | ok r =>
          obtain ⟨a, agents⟩ := r
          rw [hv] at h; simp only at h
          exact voUsed_elim (moveValueOwners_use hinv hv h hbefore hafter) hnosig hnomarker
  | migrate ex pr sg =>
    simp [opKind, stepInfo] at hk; subst hk
    simp only [exec] at h
    unfold migrateValueOwner at h
    split at h
    · simp at h
    · simp only at h
      split at h
      · simp at h
      · cases hv : validateUpdateValueOwners s (scopesForValueOwner s.ledger ex) pr sg .migrate with
        | error e => rw [hv] at h; simp at h
        | ok r =>
          obtain ⟨a, agents⟩ := r
          rw [hv] at h; simp only at h
          exact voUsed_elim (moveValueOwners_use hinv hv h hbefore hafter) hnosig hnomarker
  | send frm to ids => simp [opKind, stepInfo] at hk
  | mwithdraw mk ad to ids => simp [opKind, stepInfo] at hk
  | grant gr ge mt c => simp [opKind, stepInfo] at hk
  | revoke gr ge mt => simp [opKind, stepInfo] at hk
  | access m a ps => simp [opKind, stepInfo] at hk
  | mstatus m st => simp [opKind, stepInfo] at hk

/-- **one_use_grant_is_gone** — a grant for ONE use authorises one change: under the hypotheses
above, when every grant `hd` has given to a signer for this message type is a count
authorization with one use left, one of them is in force before the message and gone after it.
The next message signed by the same people then falls under `no_consent_no_change`. -/
theorem one_use_grant_is_gone {s s' : State} (hinv : Inv s) (op : Op) (mt : MsgType)
    (hk : opKind op = .msg mt) (h : exec s op = .ok s')
    (d : ScopeId) (hd : Addr) (hbefore : HolderIs s.ledger d (some hd))
    (hafter : ¬ HolderIs s'.ledger d (some hd))
    (hnosig : hd ∉ opSigners op) (hnomarker : findMarker s hd = none)
    (hone : ∀ ge ∈ opSigners op, ∀ g, lookupGrant s.grants ge hd mt = some g → g.count = 1) :
    ∃ ge ∈ opSigners op, (lookupGrant s.grants ge hd mt).isSome = true ∧ lookupGrant s'.grants ge hd mt = none := by
  obtain ⟨ge, hge, g, hl, hu⟩ := authz_consent_uses_grant hinv op mt hk h d hd hbefore hafter hnosig hnomarker
  have h1 := hone ge hge g hl
  refine ⟨ge, hge, by rw [hl]; rfl, ?_⟩
  rcases hu with hu | hu
  · rw [h1] at hu; cases hu
  · obtain ⟨_, k1, k2, k3⟩ := lookupGrant_some hl
    unfold usedUp at hu
    rw [k1, k2, k3] at hu
    cases hl2 : lookupGrant s'.grants ge hd mt with
    | none => rfl
    | some g' =>
      rw [hl2, h1] at hu
      simp only [bne_iff_ne, ne_eq, Bool.and_eq_true, decide_eq_true_eq] at hu
      omega

/-- **marker_owner_change_needs_withdraw** — when the value owner is a marker, in WHATEVER
lifecycle status (proposed, finalized, active, cancelled, destroyed: `m.status` is arbitrary), a
metadata message moves or burns the token only if one of its signers has withdraw permission on
that marker (the marker account itself neither signs nor grants). -/
theorem marker_owner_change_needs_withdraw {s s' : State} (hinv : Inv s) (op : Op) (mt : MsgType)
    (hk : opKind op = .msg mt) (h : exec s op = .ok s')
    (d : ScopeId) (mk : Addr) (m : Marker) (hm : findMarker s mk = some m)
    (hbefore : HolderIs s.ledger d (some mk)) (hafter : ¬ HolderIs s'.ledger d (some mk))
    (hnosig : mk ∉ opSigners op)
    (hnogrant : ∀ g ∈ s.grants, g.granter = mk → g.mt = mt → g.grantee ∉ opSigners op) :
    ∃ x ∈ opSigners op, m.has x .withdraw = true := by
  have hc := owner_change_authorised hinv op h d mk hbefore hafter
  rw [hk] at hc
  rcases hc with h1 | ⟨g, hg, h1, h2, h3⟩ | ⟨m', hm', x, hx, hw⟩
  · exact absurd h1 hnosig
  · exact absurd h2 (hnogrant g hg h1 h3)
  · rw [hm] at hm'; injection hm' with hm'; subst hm'
    exact ⟨x, hx, hw⟩

/-- the hypotheses are satisfiable with a cancelled marker: `B` has withdraw on `MR`, `MR` is
cancelled while it holds the token, `B` migrates it away -/
example : ∃ s', exec (run {} [.write "s1" [req "A"] false "C" ["A"], .access "MR" "C" [.deposit], .send "C" "MR" ["s1"],
    .access "MR" "B" [.withdraw], .mstatus "MR" .cancelled]) (.migrate "MR" "E" ["B"]) = .ok s' ∧
    ¬ HolderIs s'.ledger "s1" (some "MR") := by
  refine ⟨_, rfl, ?_⟩
  intro hh
  have := hh.2 "E"
  revert this
  decide

/-! ## The checker run on the implementation is the conjunction of the above

`stepClause` (PvModel/VownerSpec.lean) is what the driver evaluates on two consecutive dumps of
the IMPLEMENTATION and the operation between them.  On the model it never fires. -/

/-- **step_ok**: for every invariant state, every operation with any arguments and signers, and
every set of scope ids looked at, the property checker finds nothing wrong with the model's step —
accepted or rejected.  (The driver runs the same `stepClause` on the implementation's dumps.) -/
theorem step_ok {s : State} (hinv : Inv s) (op : Op) (ids : List ScopeId) :
    stepClause (observe s ids)
      (stepInfo op (match exec s op with | .ok _ => true | .error _ => false))
      (observe (applyOp s op).1 ids) = none := by
  have hinv' := applyOp_inv hinv op
  unfold stepClause
  rw [tokens_ok hinv' ids]
  simp only
  cases hex : exec s op with
  | error e =>
    have hs : (applyOp s op).1 = s := rejected_changes_nothing s op e hex
    rw [hs]
    have hrej : rejectOk (observe s ids) (stepInfo op false) (observe s ids) = true := by
      simp [rejectOk]
    have hcons : (observe s ids).scopes.all (consentOne (observe s ids) (stepInfo op false)) = true := by
      simp only [observe, List.all_eq_true, List.mem_map]
      rintro o ⟨id, hid, rfl⟩
      obtain ⟨o1, ho1, h1, _⟩ := observeScope_of_inv hinv id
      have := preHolder_observe hinv hid ho1
      unfold observe at this
      have hid' : (observeScope s id).id = id := rfl
      unfold consentOne
      rw [hid', this, h1]; simp
    have hdep : (observe s ids).scopes.all (depositOne (observe s ids) (stepInfo op false)) = true := by
      simp only [observe, List.all_eq_true, List.mem_map]
      rintro o ⟨id, hid, rfl⟩
      obtain ⟨o1, ho1, h1, _⟩ := observeScope_of_inv hinv id
      have := preHolder_observe hinv hid ho1
      unfold observe at this
      have hid' : (observeScope s id).id = id := rfl
      unfold depositOne
      rw [hid', this, h1]; simp
    have hdel : (observe s ids).scopes.all (deleteOne (stepInfo op false)) = true := by
      simp only [List.all_eq_true]
      intro o _
      cases op <;> simp [deleteOne, stepInfo]
    have hgu : (observe s ids).scopes.all (grantUseOne (observe s ids) (stepInfo op false) (observe s ids)) = true := by
      simp only [observe, List.all_eq_true, List.mem_map]
      rintro o ⟨id, hid, rfl⟩
      obtain ⟨o1, ho1, h1, _⟩ := observeScope_of_inv hinv id
      have := preHolder_observe hinv hid ho1
      unfold observe at this
      have hid' : (observeScope s id).id = id := rfl
      unfold grantUseOne
      split
      · simp only [hid', this, h1]; simp
      · rfl
    simp [hrej, hcons, hdep, hdel, hgu]
  | ok s1 =>
    have hs : (applyOp s op).1 = s1 := by simp [applyOp, hex]
    rw [hs] at hinv' ⊢
    have hgood := exec_step_signers hinv hex
    have hrej : rejectOk (observe s ids) (stepInfo op true) (observe s1 ids) = true := by
      cases op <;> simp [rejectOk, stepInfo]
    have hkind : (stepInfo op true).kind = opKind op := rfl
    have hsig : (stepInfo op true).signers = opSigners op := rfl
    have hcons : (observe s1 ids).scopes.all (consentOne (observe s ids) (stepInfo op true)) = true := by
      simp only [observe, List.all_eq_true, List.mem_map]
      rintro o ⟨id, hid, rfl⟩
      obtain ⟨o0, ho0, _, _⟩ := observeScope_of_inv hinv id
      obtain ⟨o1, ho1, h1, _⟩ := observeScope_of_inv hinv' id
      have hpre := preHolder_observe hinv hid ho0
      unfold observe at hpre
      unfold consentOne
      have hid' : (observeScope s1 id).id = id := rfl
      rw [hid', hpre, h1]
      by_cases heq : o0 = o1
      · simp [heq]
      · cases o0 with
        | none => simp
        | some a =>
          have := (hgood id (some a) o1 ho0 ho1 heq).1 a rfl
          have hh := authorises_of_consents (s := s) (ids := ids) (st := stepInfo op true) (h := a)
            (by rw [hkind, hsig]; exact this)
          unfold observe at hh
          simp [hh]
    have hdep : (observe s1 ids).scopes.all (depositOne (observe s ids) (stepInfo op true)) = true := by
      simp only [observe, List.all_eq_true, List.mem_map]
      rintro o ⟨id, hid, rfl⟩
      obtain ⟨o0, ho0, _, _⟩ := observeScope_of_inv hinv id
      obtain ⟨o1, ho1, h1, _⟩ := observeScope_of_inv hinv' id
      have hpre := preHolder_observe hinv hid ho0
      unfold observe at hpre
      unfold depositOne
      have hid' : (observeScope s1 id).id = id := rfl
      rw [hid', hpre, h1]
      by_cases heq : o0 = o1
      · simp [heq]
      · cases o1 with
        | none => simp
        | some b =>
          have := (hgood id o0 (some b) ho0 ho1 heq).2 b rfl
          have hh := depositAuthorised_of (s := s) (ids := ids) (st := stepInfo op true) (h := b)
            (by rw [hsig]; exact this)
          unfold observe at hh
          simp [hh]
    have hdel : (observe s1 ids).scopes.all (deleteOne (stepInfo op true)) = true := by
      simp only [observe, List.all_eq_true, List.mem_map]
      rintro o ⟨id, hid, rfl⟩
      cases op with
      | delete id0 sg =>
        by_cases hc : id0 = id
        · subst hc
          obtain ⟨h1, h2, h3⟩ := delete_burns hinv id0 sg hex
          obtain ⟨_, _, _, hnone⟩ := delete_step hinv hex
          have hhold := holdersOf_of_holderIs hnone
          simp [deleteOne, stepInfo, observeScope, h1, h2, hhold, holderList]
        · simp [deleteOne, stepInfo, observeScope, hc]
      | write _ _ _ _ _ => simp [deleteOne, stepInfo]
      | updvo _ _ _ => simp [deleteOne, stepInfo]
      | migrate _ _ _ => simp [deleteOne, stepInfo]
      | send _ _ _ => simp [deleteOne, stepInfo]
      | mwithdraw _ _ _ _ => simp [deleteOne, stepInfo]
      | grant _ _ _ _ => simp [deleteOne, stepInfo]
      | revoke _ _ _ => simp [deleteOne, stepInfo]
      | access _ _ _ => simp [deleteOne, stepInfo]
      | mstatus _ _ => simp [deleteOne, stepInfo]
    have hgu : (observe s1 ids).scopes.all (grantUseOne (observe s ids) (stepInfo op true) (observe s1 ids)) = true := by
      simp only [observe, List.all_eq_true, List.mem_map]
      rintro o ⟨id, hid, rfl⟩
      obtain ⟨o0, ho0, _, _⟩ := observeScope_of_inv hinv id
      obtain ⟨o1, ho1, h1, _⟩ := observeScope_of_inv hinv' id
      have hpre := preHolder_observe hinv hid ho0
      unfold observe at hpre
      have hid' : (observeScope s1 id).id = id := rfl
      unfold grantUseOne
      split
      · rename_i mt hkm
        simp only [hid', hpre, h1]
        by_cases heq : o0 = o1
        · simp [heq]
        · cases o0 with
          | none => simp
          | some a =>
            by_cases hsig : a ∈ (stepInfo op true).signers
            · simp [hsig]
            · cases hm : findMarker s a with
              | some m =>
                have hm' : s.markers.find? (fun m => m.addr = a) = some m := hm
                simp [hm']
              | none =>
                have hafter : ¬ HolderIs s1.ledger id (some a) := fun hh => heq (holderIs_unique hh ho1)
                obtain ⟨ge, hge, g, hl, hu⟩ := authz_consent_uses_grant hinv op mt hkm hex id a ho0 hafter hsig hm
                simp only [Bool.or_eq_true]
                right; right
                simp only [grantsTo, List.any_eq_true, List.mem_filterMap]
                refine ⟨g, ⟨ge, hge, hl⟩, ?_⟩
                rcases hu with hu | hu <;> simp [hu]
      · rfl
    simp [hrej, hcons, hdep, hdel, hgu]

/-- **all_steps_ok**: along ANY operation sequence from the empty chain every single step passes
the property checker. -/
theorem all_steps_ok (ops : List Op) (ids : List ScopeId) :
    ∀ (pre : List Op) (op : Op) (post : List Op), ops = pre ++ op :: post →
      stepClause (observe (run {} pre) ids)
        (stepInfo op (match exec (run {} pre) op with | .ok _ => true | .error _ => false))
        (observe (applyOp (run {} pre) op).1 ids) = none :=
  fun pre op _ _ => step_ok (run_inv inv_init pre) op ids

/-! ## Non-vacuity: each route really moves a token, and lack of consent really blocks it -/

section Examples

private def holder (s : State) (d : Denom) : Option (Option Addr) :=
  match denomOwner s.ledger d with
  | .ok o => some o
  | .error _ => none

/-- the owner signs -/
example : holder (run {} [.write "s1" [req "A"] false "C" ["A"], .updvo ["s1"] "D" ["C"]]) "s1" = some (some "D") := by decide
/-- a stranger signs: rejected, the owner keeps the token -/
example : holder (run {} [.write "s1" [req "A"] false "C" ["A"], .updvo ["s1"] "D" ["B"]]) "s1" = some (some "C") := by decide
/-- the scope's owners cannot move the value owner's token either -/
example : holder (run {} [.write "s1" [req "A"] false "C" ["A"], .write "s1" [req "A"] false "A" ["A"]]) "s1" = some (some "C") := by decide
/-- an authz grant from the owner to the signer for this message type -/
example : holder (run {} [.write "s1" [req "A"] false "C" ["A"], .grant "C" "B" .updvo 1, .updvo ["s1"] "D" ["B"]]) "s1"
    = some (some "D") := by decide
/-- … is single use when it is a count-1 authorization -/
example : holder (run {} [.write "s1" [req "A"] false "C" ["A"], .write "s2" [req "A"] false "C" ["A"], .grant "C" "B" .updvo 1,
    .updvo ["s1"] "D" ["B"], .updvo ["s2"] "D" ["B"]]) "s2" = some (some "C") := by decide
/-- … and does not carry over to another message type -/
example : holder (run {} [.write "s1" [req "A"] false "C" ["A"], .grant "C" "B" .migrate 0, .updvo ["s1"] "D" ["B"]]) "s1"
    = some (some "C") := by decide
/-- the owner's own bank transfer -/
example : holder (run {} [.write "s1" [req "A"] false "C" ["A"], .send "C" "D" ["s1"]]) "s1" = some (some "D") := by decide
/-- into a restricted marker only with deposit, out of a marker only with withdraw -/
example : holder (run {} [.write "s1" [req "A"] false "C" ["A"], .send "C" "MR" ["s1"]]) "s1" = some (some "C") := by decide
example : holder (run {} [.write "s1" [req "A"] false "C" ["A"], .access "MR" "C" [.deposit], .send "C" "MR" ["s1"]]) "s1"
    = some (some "MR") := by decide
example : holder (run {} [.write "s1" [req "A"] false "C" ["A"], .access "MR" "C" [.deposit], .send "C" "MR" ["s1"],
    .migrate "MR" "E" ["C"]]) "s1" = some (some "MR") := by decide
example : holder (run {} [.write "s1" [req "A"] false "C" ["A"], .access "MR" "C" [.deposit], .send "C" "MR" ["s1"],
    .access "MR" "B" [.withdraw], .migrate "MR" "E" ["B"]]) "s1" = some (some "E") := by decide
/-- the marker module's own MsgWithdraw is a fifth message that moves a marker-held token: same rule -/
example : holder (run {} [.write "s1" [req "A"] false "C" ["A"], .access "MR" "C" [.deposit], .send "C" "MR" ["s1"],
    .mwithdraw "MR" "C" "E" ["s1"]]) "s1" = some (some "MR") := by decide
example : holder (run {} [.write "s1" [req "A"] false "C" ["A"], .access "MR" "C" [.deposit, .withdraw], .send "C" "MR" ["s1"],
    .mwithdraw "MR" "C" "E" ["s1"]]) "s1" = some (some "E") := by decide
/-- a one-use grant is single use through MigrateValueOwner too -/
example : holder (run {} [.write "s1" [req "A"] false "C" ["A"], .grant "C" "B" .migrate 1, .migrate "C" "D" ["B"],
    .send "D" "C" ["s1"], .migrate "C" "D" ["B"]]) "s1" = some (some "C") := by decide
example : (run {} [.write "s1" [req "A"] false "C" ["A"], .grant "C" "B" .migrate 1, .migrate "C" "D" ["B"]]).grants = [] := by decide
/-- a two-use grant has one use left after the first message and is gone after the second -/
example : (run {} [.write "s1" [req "A"] false "C" ["A"], .write "s2" [req "A"] false "C" ["A"], .grant "C" "B" .updvo 2,
    .updvo ["s1"] "D" ["B"]]).grants = [⟨"C", "B", .updvo, 1⟩] := by decide
example : (run {} [.write "s1" [req "A"] false "C" ["A"], .write "s2" [req "A"] false "C" ["A"], .grant "C" "B" .updvo 2,
    .updvo ["s1"] "D" ["B"], .updvo ["s2"] "D" ["B"]]).grants = [] := by decide
/-! markers that are not active: a scope token leaves a cancelled / proposed / finalized / destroyed
marker under the same rule as an active one (a signer with withdraw permission) -/
example : holder (run {} [.write "s1" [req "A"] false "C" ["A"], .access "MR" "C" [.deposit], .send "C" "MR" ["s1"],
    .mstatus "MR" .cancelled, .migrate "MR" "E" ["D"]]) "s1" = some (some "MR") := by decide
example : holder (run {} [.write "s1" [req "A"] false "C" ["A"], .access "MR" "C" [.deposit], .send "C" "MR" ["s1"],
    .mstatus "MR" .cancelled, .updvo ["s1"] "E" ["A"]]) "s1" = some (some "MR") := by decide
example : holder (run {} [.write "s1" [req "A"] false "C" ["A"], .access "MR" "C" [.deposit], .send "C" "MR" ["s1"],
    .mstatus "MR" .cancelled, .write "s1" [req "A"] false "A" ["A"]]) "s1" = some (some "MR") := by decide
example : holder (run {} [.write "s1" [req "A"] false "C" ["A"], .access "MR" "C" [.deposit], .send "C" "MR" ["s1"],
    .mstatus "MR" .cancelled, .delete "s1" ["A"]]) "s1" = some (some "MR") := by decide
example : holder (run {} [.mstatus "MU" .proposed, .write "s1" [req "A"] false "MU" ["A"], .updvo ["s1"] "E" ["A"]]) "s1"
    = some (some "MU") := by decide
example : holder (run {} [.mstatus "MU" .proposed, .write "s1" [req "A"] false "MU" ["A"], .access "MU" "B" [.withdraw],
    .updvo ["s1"] "E" ["B"]]) "s1" = some (some "E") := by decide
/-- the marker module's own Withdraw message works on active markers only -/
example : (applyOp (run {} [.write "s1" [req "A"] false "C" ["A"], .access "MR" "C" [.deposit, .withdraw], .send "C" "MR" ["s1"],
    .mstatus "MR" .cancelled]) (.mwithdraw "MR" "C" "E" ["s1"])).2 = "err:status" := by decide

/-! `require_party_rollup` scopes with optional parties; the value owner may be one of them -/

/-- the required party alone cannot move the token of a value owner who is an optional party,
neither together with another change … -/
example : holder (run {} [.write "s1" [req "A", opt "B"] true "B" ["A"],
    .write "s1" [req "A", opt "B", opt "C"] true "A" ["A"]]) "s1" = some (some "B") := by decide
/-- … nor as the only change -/
example : holder (run {} [.write "s1" [req "A", opt "B"] true "B" ["A"],
    .write "s1" [req "A", opt "B"] true "A" ["A"]]) "s1" = some (some "B") := by decide
/-- with the optional party's signature it moves -/
example : holder (run {} [.write "s1" [req "A", opt "B"] true "B" ["A"],
    .write "s1" [req "A", opt "B", opt "C"] true "A" ["A", "B"]]) "s1" = some (some "A") := by decide
/-- … or with its authz grant to the signer (a count-1 grant serves both the party check and the
value-owner check of one message through the authz cache) -/
example : holder (run {} [.write "s1" [req "A", opt "B"] true "B" ["A"], .grant "B" "A" .write 1,
    .write "s1" [req "A", opt "B", opt "C"] true "A" ["A"]]) "s1" = some (some "A") := by decide
/-- the value owner alone changes only the value owner; a required party must sign anything else -/
example : holder (run {} [.write "s1" [req "A", opt "B"] true "B" ["A"],
    .write "s1" [req "A", opt "B"] true "D" ["B"]]) "s1" = some (some "D") := by decide
example : (run {} [.write "s1" [req "A", opt "B"] true "B" ["A"],
    .write "s1" [req "A", opt "C"] true "D" ["B"]]).scopes.map (·.owners) = [[req "A", opt "B"]] := by decide
/-- a scope whose parties are all optional still needs one of them for the role OWNER -/
example : (applyOp (run {} [.write "s1" [opt "A", opt "B"] true "C" ["A"]])
    (.write "s1" [opt "A"] true "" ["D"])).2 = "err:roles" := by decide
example : (run {} [.write "s1" [opt "A", opt "B"] true "C" ["A"], .grant "B" "D" .write 0,
    .write "s1" [opt "A"] true "" ["D"]]).scopes.map (·.owners) = [[opt "A"]] := by decide
/-- deleting a roll-up scope needs the value owner as well as the required parties -/
example : (run {} [.write "s1" [req "A", opt "B"] true "B" ["A"], .delete "s1" ["A"]]).ledger.supply "s1" = 1 := by decide
example : (run {} [.write "s1" [req "A", opt "B"] true "B" ["A"], .delete "s1" ["A", "B"]]).ledger.supply "s1" = 0 := by decide
/-- optional parties are only allowed with `require_party_rollup` -/
example : (applyOp {} (.write "s1" [req "A", opt "B"] false "B" ["A"])).2 = "err:invalid" := by decide
/-- delete burns; a contract as first signer hides the other signers -/
example : (run {} [.write "s1" [req "A"] false "C" ["A"], .delete "s1" ["A", "C"]]).ledger.supply "s1" = 0 := by decide
example : holder (run {} [.write "s1" [req "A"] false "C" ["A"], .updvo ["s1"] "D" ["K", "C"]]) "s1" = some (some "C") := by decide
/-- `Inv` is not vacuous: a state with a live token satisfies it -/
example : Inv (run {} [.write "s1" [req "A"] false "C" ["A"]]) := run_inv inv_init _

end Examples

end PvProofs.C09
