/-
C09 — A scope has one value owner, changed only with the current owner's consent.

Property: "Every scope has at most one value owner at any time, represented by exactly one
indivisible scope token held by that owner. The value owner changes only through an action
authorised by the current value owner (their signature, their authz grant to a signer, their
own transfer of the token, or, when the owner is a marker, a signer with withdraw permission on
it) and, when the new owner is a restricted marker, by a signer with deposit permission on it,
whichever message is used. Deleting a scope destroys its token, and no token exists for a
scope that does not exist."

All theorems are about the executable model `PvModel.Vowner` (metadata WriteScope / DeleteScope /
UpdateValueOwners / MigrateValueOwner over the bank ledger with the marker send restriction and
authz grants, plus bank MsgSend / MsgMultiSend, marker MsgWithdraw / MsgTransfer, exchange
MsgCreateAsk / MsgFillAsks / MsgCancelOrder on a scope token with the hold module's hold), for EVERY state
satisfying the invariant `Inv` — which speaks about SCOPE-TOKEN denoms only: accounts may hold any
amounts of ordinary coins — in particular every state reachable from the empty chain or from any
chain holding only ordinary coins by ANY sequence of operations, with any markers / permissions /
grants / contracts configuration — and every operation with any signer list.  Helper lemmas live in `PvProofs/Lemmas/Vowner*.lean`.
-/
import PvProofs.Lemmas.VownerEffects
import PvProofs.Lemmas.VownerGrants
import PvProofs.Lemmas.VownerChecker
import PvProofs.Lemmas.VownerFirst
import PvProofs.Lemmas.VownerExchange
import PvProofs.C09Denom

namespace PvProofs.C09
open PvModel PvModel.Ledger PvModel.Vowner PvProofs.VownerL

/-! ## The invariant holds along every operation sequence -/

/-- Any state without tokens satisfies the invariant (whatever scopes, grants, markers,
contracts and blocked addresses it has) — in particular the initial state of the driver. -/
theorem inv_of_empty_ledger (s : State) (h : s.ledger = []) : Inv s := by
  intro d _
  exact ⟨none, by rw [h]; exact holderIs_nil d, by simp, by simp⟩

theorem inv_init : Inv {} := inv_of_empty_ledger {} rfl

theorem holderIs_none_of_no_entry {l : Ledger} {d : Denom} (h : ∀ e ∈ l, e.denom ≠ d) : HolderIs l d none := by
  induction l with
  | nil => exact holderIs_nil d
  | cons e t ih =>
    have ht := ih (fun x hx => h x (List.mem_cons_of_mem _ hx))
    have he : ¬ e.denom = d := h e (by simp)
    refine ⟨?_, fun a => ?_⟩
    · have := ht.1; simp at this; simp [supply, he, this]
    · have := ht.2 a; simp at this; simp [bal, he, this]

/-- **inv_of_ordinary_coins**: any state whose ledger holds ordinary (non-scope) coins only — in
any amounts, held by any number of accounts, with whatever scopes, grants, markers — satisfies the
invariant.  So every `…` theorem below "from any `Inv` state" covers a real chain's accounts. -/
theorem inv_of_ordinary_coins (s : State) (h : ∀ e ∈ s.ledger, isScopeDenom e.denom = false) : Inv s := by
  intro d hd
  refine ⟨none, holderIs_none_of_no_entry (fun e he hc => ?_), by simp, by simp⟩
  have := h e he; rw [hc, hd] at this; cases this

/-- a state with ordinary coins spread over several accounts satisfies the invariant … -/
example : Inv { ledger := [⟨"A", "$c", 5⟩, ⟨"B", "$c", 7⟩, ⟨"MR", "$nhash", 1000⟩] } :=
  inv_of_ordinary_coins _ (by decide)

/-- the kind and signers of an operation, as the property reads them: all signers of a metadata
message; the sender of a bank send -/
def opKind (op : Op) : StepKind := (stepInfo op true).kind
def opSigners (op : Op) : List Addr := (stepInfo op true).signers

/-- the signers the code actually looks at: when the first signer is a smart contract, only it -/
def opEffectiveSigners (s : State) : Op → List Addr
  | .write _ _ _ _ sg | .delete _ sg | .updvo _ _ sg | .migrate _ _ sg => effectiveSigners s sg
  | .send frm _ _ => [frm]
  | .mwithdraw _ admin _ _ => [admin]
  | .msend frm _ => [frm]
  | .mtransfer admin _ _ _ => [admin]
  | .fill buyer _ _ => [buyer]
  | _ => []

/-- marker MsgTransfer never succeeds on a scope token (`GetMarkerByDenom` finds no marker) -/
theorem markerTransfer_ne_ok (s : State) (ad frm to : Addr) (id : ScopeId) (s' : State) :
    exec s (.mtransfer ad frm to id) ≠ .ok s' := by
  simp only [exec, markerTransfer]
  split <;> simp

/-- the model's marker request on scope `id`'s denom is answered by the unrestricted-denom test on
the denom TEXT, and that text — `nft/` + anything — fails it (`C09Denom.scopeDenom_refused`) -/
theorem markerAdd_eq_invalid (s : State) (sg : Addr) (id : ScopeId) (n : Nat) (r f : Bool) :
    markerAdd s sg id n r f = .error .invalid := by
  simp [markerAdd, scopeDenomText, C09Denom.scopeDenom_refused]

/-- a marker request for a scope denom never succeeds (`ValidateUnrestictedDenom`) -/
theorem markerAdd_ne_ok (s : State) (sg : Addr) (id : ScopeId) (n : Nat) (r f : Bool) (s' : State) :
    exec s (.mkadd sg id n r f) ≠ .ok s' := by
  simp [exec, markerAdd_eq_invalid]

/-- One successful operation: the invariant is kept and every holder change is a `GoodStep`
(consent of the old holder, deposit permission on a restricted marker) with respect to the
effective signers. -/
theorem exec_step {s s' : State} {op : Op} (hinv : Inv s) (h : exec s op = .ok s') :
    Inv s' ∧ GoodStep s (opKind op) (opEffectiveSigners s op) s' := by
  cases op with
  | write id owners ru vo sg => obtain ⟨h1, h2, _⟩ := write_step hinv h; exact ⟨h1, h2⟩
  | delete id sg => obtain ⟨h1, h2, _⟩ := delete_step hinv h; exact ⟨h1, h2⟩
  | updvo ids vo sg => obtain ⟨h1, h2, _⟩ := updvo_step hinv h; exact ⟨h1, h2⟩
  | migrate ex pr sg => obtain ⟨h1, h2, _⟩ := migrate_step hinv h; exact ⟨h1, h2⟩
  | send frm to ids => obtain ⟨h1, h2, _⟩ := send_step hinv h; exact ⟨h1, h2⟩
  | mwithdraw mk ad to ids => obtain ⟨h1, h2, _⟩ := mwithdraw_step hinv h; exact ⟨h1, h2⟩
  | msend frm outs => obtain ⟨h1, h2, _⟩ := msend_step hinv h; exact ⟨h1, h2⟩
  | mtransfer ad frm to id => exact absurd h (markerTransfer_ne_ok _ _ _ _ _ _)
  | mkadd sg id n r f => exact absurd h (markerAdd_ne_ok _ _ _ _ _ _ _)
  | fund a dn n => exact fund_step hinv h _ _
  | grant gr ge mt c =>
    simp [exec] at h; subst h
    exact ⟨inv_of_ledger_scopes_eq hinv rfl rfl, goodStep_of_ledger_eq _ _ rfl⟩
  | revoke gr ge mt =>
    obtain ⟨h1, h2⟩ := deleteGrant_eq h
    exact ⟨inv_of_ledger_scopes_eq hinv h1 h2, goodStep_of_ledger_eq _ _ h1⟩
  | access m a ps =>
    obtain ⟨h1, h2⟩ := setAccess_eq h
    exact ⟨inv_of_ledger_scopes_eq hinv h1 h2, goodStep_of_ledger_eq _ _ h1⟩
  | mstatus m st =>
    obtain ⟨h1, h2⟩ := setStatus_eq h
    exact ⟨inv_of_ledger_scopes_eq hinv h1 h2, goodStep_of_ledger_eq _ _ h1⟩
  | ask sl a p =>
    obtain ⟨h1, h2, _⟩ := createAsk_spec h
    exact ⟨inv_of_ledger_scopes_eq hinv h1 h2, goodStep_of_ledger_eq _ _ h1⟩
  | fill b oid p => obtain ⟨h1, h2, _⟩ := fill_step hinv h; exact ⟨h1, h2⟩
  | cancel sg oid =>
    obtain ⟨h1, h2, _⟩ := cancelOrder_spec h
    exact ⟨inv_of_ledger_scopes_eq hinv h1 h2, goodStep_of_ledger_eq _ _ h1⟩

theorem opEffectiveSigners_sub (s : State) (op : Op) : ∀ x ∈ opEffectiveSigners s op, x ∈ opSigners op := by
  cases op <;> simp [opEffectiveSigners, opSigners, stepInfo] <;> exact effectiveSigners_sub s _

/-- the same with respect to the message's full signer list (what the property states) -/
theorem exec_step_signers {s s' : State} {op : Op} (hinv : Inv s) (h : exec s op = .ok s') :
    GoodStep s (opKind op) (opSigners op) s' := by
  have hg := (exec_step hinv h).2
  cases op with
  | send frm to ids => exact hg
  | mwithdraw mk ad to ids => exact hg
  | msend frm outs => exact hg
  | mtransfer ad frm to id => exact hg
  | mkadd sg id n r f => exact hg.mono (opEffectiveSigners_sub s _) (by simp [opKind, stepInfo])
  | fund a dn n => exact hg.mono (opEffectiveSigners_sub s _) (by simp [opKind, stepInfo])
  | write id owners ru vo sg => exact hg.mono (opEffectiveSigners_sub s _) (by simp [opKind, stepInfo])
  | delete id sg => exact hg.mono (opEffectiveSigners_sub s _) (by simp [opKind, stepInfo])
  | updvo ids vo sg => exact hg.mono (opEffectiveSigners_sub s _) (by simp [opKind, stepInfo])
  | migrate ex pr sg => exact hg.mono (opEffectiveSigners_sub s _) (by simp [opKind, stepInfo])
  | grant gr ge mt c => exact hg.mono (opEffectiveSigners_sub s _) (by simp [opKind, stepInfo])
  | revoke gr ge mt => exact hg.mono (opEffectiveSigners_sub s _) (by simp [opKind, stepInfo])
  | access m a ps => exact hg.mono (opEffectiveSigners_sub s _) (by simp [opKind, stepInfo])
  | mstatus m st => exact hg.mono (opEffectiveSigners_sub s _) (by simp [opKind, stepInfo])
  | ask sl a p => exact hg.mono (opEffectiveSigners_sub s _) (by simp [opKind, stepInfo])
  | fill b oid p => exact hg
  | cancel sg oid => exact hg.mono (opEffectiveSigners_sub s _) (by simp [opKind, stepInfo])

/-- A rejected message changes nothing (the model is transactional by construction; the harness
checks the same of the implementation by comparing dumps). -/
theorem rejected_changes_nothing (s : State) (op : Op) (e : Err) (h : exec s op = .error e) :
    (applyOp s op).1 = s := by
  simp [applyOp, h]

theorem applyOp_inv {s : State} (hinv : Inv s) (op : Op) : Inv (applyOp s op).1 := by
  unfold applyOp
  cases h : exec s op with
  | error e => exact hinv
  | ok s1 => exact (exec_step hinv h).1

theorem run_inv {s : State} (hinv : Inv s) (ops : List Op) : Inv (run s ops) := by
  induction ops generalizing s with
  | nil => exact hinv
  | cons op rest ih => exact ih (applyOp_inv hinv op)

/-! ## Clause 1 — at most one value owner, exactly one indivisible token held by that owner -/

/-- **token_iff_owner** — from ANY invariant state `s` (any ordinary coins in any accounts, any
markers, grants, contracts), after any operation sequence, for every scope denom `d`:
`GetScopeValueOwner` (= `DenomOwner`) succeeds with some `o`; if `o = some h` then `h` holds exactly
1, everybody else 0, supply 1; if `o = none` nobody holds anything and the supply is 0.  So there is
a token iff there is a value owner, and the token's only holder is that owner. -/
theorem token_iff_owner_inv {s : State} (hinv : Inv s) (ops : List Op) (d : Denom) (hd : isScopeDenom d = true) :
    ∃ o, denomOwner (run s ops).ledger d = .ok o ∧
      supply (run s ops).ledger d = (if o.isSome then 1 else 0) ∧
      ∀ a, bal (run s ops).ledger a d = if o = some a then 1 else 0 := by
  obtain ⟨o, ho, _, _⟩ := run_inv hinv ops d hd
  exact ⟨o, denomOwner_of_holderIs ho, ho.1, ho.2⟩

/-- the same from the empty chain -/
theorem token_iff_owner (ops : List Op) (d : Denom) (hd : isScopeDenom d = true) :
    ∃ o, denomOwner (run {} ops).ledger d = .ok o ∧
      supply (run {} ops).ledger d = (if o.isSome then 1 else 0) ∧
      ∀ a, bal (run {} ops).ledger a d = if o = some a then 1 else 0 :=
  token_iff_owner_inv inv_init ops d hd

/-- **token_supply_le_one**: from any invariant state, after any operation sequence, the supply of
every scope denom is 0 or 1. -/
theorem token_supply_le_one {s : State} (hinv : Inv s) (ops : List Op) (d : Denom) (hd : isScopeDenom d = true) :
    supply (run s ops).ledger d = 0 ∨ supply (run s ops).ledger d = 1 := by
  obtain ⟨o, _, h, _⟩ := token_iff_owner_inv hinv ops d hd
  cases o with
  | none => left; simpa using h
  | some a => right; simpa using h

/-- **value_owner_lookup_never_fails**: from any invariant state the "denom has more than one
owner" branch of `DenomOwner` (bank.go:37) is unreachable for a scope denom. -/
theorem value_owner_lookup_never_fails {s : State} (hinv : Inv s) (ops : List Op) (d : Denom)
    (hd : isScopeDenom d = true) (e : Err) : denomOwner (run s ops).ledger d ≠ .error e := by
  obtain ⟨o, h, _⟩ := token_iff_owner_inv hinv ops d hd
  rw [h]; simp

/-- **at_most_one_holder**: from any invariant state, two different accounts never both hold (part
of) a scope's token -/
theorem at_most_one_holder {s : State} (hinv : Inv s) (ops : List Op) (d : Denom) (hd : isScopeDenom d = true)
    (a b : Addr) (ha : bal (run s ops).ledger a d ≠ 0) (hb : bal (run s ops).ledger b d ≠ 0) : a = b := by
  obtain ⟨o, _, _, hbal⟩ := token_iff_owner_inv hinv ops d hd
  have h1 := hbal a; have h2 := hbal b
  by_cases hoa : o = some a
  · by_cases hob : o = some b
    · rw [hoa] at hob; injection hob
    · simp [hob] at h2; exact absurd h2 hb
  · simp [hoa] at h1; exact absurd h1 ha

/-- **no_token_without_scope**: from any invariant state, a scope that does not exist has no token
anywhere. -/
theorem no_token_without_scope {s : State} (hinv : Inv s) (ops : List Op) (d : ScopeId)
    (hd : isScopeDenom d = true) (h : hasScope (run s ops) d = false) :
    supply (run s ops).ledger d = 0 ∧ ∀ a, bal (run s ops).ledger a d = 0 := by
  obtain ⟨o, ho, _, hsc⟩ := run_inv hinv ops d hd
  cases o with
  | none => exact ⟨by simpa using ho.1, fun a => by simpa using ho.2 a⟩
  | some x => rw [hsc rfl] at h; cases h

/-- the hypotheses are satisfiable on a chain whose accounts hold ordinary coins, with a live
token: `A` and `B` hold `$c`, a scope is written, its token is sent on together with ordinary
coins, a second scope is written and deleted -/
example : ∃ s : State, Inv s ∧ bal s.ledger "A" "$c" = 5 ∧
    bal (run s [.write "s1" [req "A"] false "A" ["A"], .fund "B" "$c" 2, .send "A" "B" ["s1", "$c"],
      .write "s2" [req "B"] false "B" ["B"], .delete "s2" ["B"]]).ledger "B" "s1" = 1 ∧
    bal (run s [.write "s1" [req "A"] false "A" ["A"], .fund "B" "$c" 2, .send "A" "B" ["s1", "$c"]]).ledger "B" "$c" = 10 :=
  ⟨{ ledger := [⟨"A", "$c", 5⟩, ⟨"B", "$c", 7⟩] }, inv_of_ordinary_coins _ (by decide), by decide, by decide, by decide⟩

/-- without the restriction to scope denoms the statements are false: an ordinary coin has many
holders and a supply above 1 (so the old invariant, which asked `HolderIs` of EVERY denom, excluded
every realistic state) -/
example : ∃ s : State, Inv s ∧ supply s.ledger "$c" = 12 ∧ bal s.ledger "A" "$c" ≠ 0 ∧ bal s.ledger "B" "$c" ≠ 0 :=
  ⟨{ ledger := [⟨"A", "$c", 5⟩, ⟨"B", "$c", 7⟩] }, inv_of_ordinary_coins _ (by decide), by decide, by decide, by decide⟩

/-- **delete_burns**: a successful DeleteScope leaves the scope absent, its token's supply 0 and
every balance of it 0 — whoever held it. -/
theorem delete_burns {s s' : State} (hinv : Inv s) (id : ScopeId) (signers : List Addr)
    (h : exec s (.delete id signers) = .ok s') :
    hasScope s' id = false ∧ supply s'.ledger id = 0 ∧ ∀ a, bal s'.ledger a id = 0 := by
  obtain ⟨_, _, h1, h2⟩ := delete_step hinv h
  exact ⟨h1, by simpa using h2.1, fun a => by simpa using h2.2 a⟩

/-- tokens are created only by WriteScope and destroyed only by DeleteScope: every other
operation keeps the supply of every scope denom -/
theorem supply_changes_only_by_write_delete {s s' : State} (hinv : Inv s) (op : Op)
    (h : exec s op = .ok s') (hw : ∀ id ow ru vo sg, op ≠ .write id ow ru vo sg) (hd : ∀ id sg, op ≠ .delete id sg)
    (d : Denom) (hsd : isScopeDenom d = true) : supply s'.ledger d = supply s.ledger d := by
  cases op with
  | write id owners ru vo sg => exact absurd rfl (hw _ _ _ _ _)
  | delete id sg => exact absurd rfl (hd _ _)
  | updvo ids vo sg => exact (updvo_step hinv h).2.2 d hsd
  | migrate ex pr sg => exact (migrate_step hinv h).2.2 d hsd
  | send frm to ids => exact (send_step hinv h).2.2 d
  | mwithdraw mk ad to ids => exact (mwithdraw_step hinv h).2.2 d
  | msend frm outs => exact (msend_step hinv h).2.2 d
  | mtransfer ad frm to id => exact absurd h (markerTransfer_ne_ok _ _ _ _ _ _)
  | mkadd sg id n r f => exact absurd h (markerAdd_ne_ok _ _ _ _ _ _ _)
  | fund a dn n => exact ((fundAccount_spec h).2.2 d hsd).1
  | grant gr ge mt c => simp [exec] at h; subst h; rfl
  | revoke gr ge mt => rw [(deleteGrant_eq h).1]
  | access m a ps => rw [(setAccess_eq h).1]
  | mstatus m st => rw [(setStatus_eq h).1]
  | ask sl a p => rw [(createAsk_spec h).1]
  | fill b oid p => exact (fill_step hinv h).2.2.1 d
  | cancel sg oid => rw [(cancelOrder_spec h).1]

/-- a WriteScope without a value-owner field never touches any token -/
theorem write_without_value_owner_keeps_tokens {s s' : State} (hinv : Inv s) (id : ScopeId)
    (owners : List Party) (rollup : Bool) (signers : List Addr)
    (h : exec s (.write id owners rollup "" signers) = .ok s') :
    s'.ledger = s.ledger :=
  (write_step hinv h).2.2 rfl

/-! ## What each successful message does to the tokens, exactly -/

/-- WriteScope: the scope exists afterwards; with a value-owner field that address holds the
token; no other scope's token moves. -/
theorem write_sets_owner {s s' : State} (hinv : Inv s) (id : ScopeId) (owners : List Party) (rollup : Bool)
    (vo : Addr) (signers : List Addr) (h : exec s (.write id owners rollup vo signers) = .ok s') :
    hasScope s' id = true ∧ (vo ≠ "" → HolderIs s'.ledger id (some vo)) ∧
    (∀ d, d ≠ id → ∀ o, HolderIs s.ledger d o → HolderIs s'.ledger d o) :=
  write_effect hinv h

/-- UpdateValueOwners: exactly the named scopes' tokens end with the new value owner (each of
them had one), every other token stays. -/
theorem updvo_moves_exactly_named {s s' : State} (ids : List ScopeId) (vo : Addr)
    (signers : List Addr) (h : exec s (.updvo ids vo signers) = .ok s') :
    ∀ d o, HolderIs s.ledger d o → HolderIs s'.ledger d (if d ∈ ids then some vo else o) := by
  simp only [exec] at h
  unfold updateValueOwners at h
  split at h
  · simp at h
  · cases hl : getScopeValueOwners s.ledger ids with
    | error e => rw [hl] at h; simp at h
    | ok links =>
      rw [hl] at h; simp only at h
      cases hv : validateUpdateValueOwners s links vo signers .updvo with
      | error e => rw [hv] at h; simp at h
      | ok r =>
        obtain ⟨a, agents⟩ := r
        rw [hv] at h; simp only at h
        have := moveValueOwners_exact hv h
        rw [(getScopeValueOwners_spec hl).1] at this
        exact this

/-- MigrateValueOwner: exactly the tokens `ex` held end with `pr`; every other token stays. -/
theorem migrate_moves_exactly_held {s s' : State} (ex pr : Addr)
    (signers : List Addr) (h : exec s (.migrate ex pr signers) = .ok s') :
    ∀ d, isScopeDenom d = true → ∀ o, HolderIs s.ledger d o →
      HolderIs s'.ledger d (if o = some ex then some pr else o) := by
  simp only [exec] at h
  unfold migrateValueOwner at h
  split at h
  · simp at h
  · simp only at h
    split at h
    · simp at h
    · cases hv : validateUpdateValueOwners s (scopesForValueOwner s.ledger ex) pr signers .migrate with
      | error e => rw [hv] at h; simp at h
      | ok r =>
        obtain ⟨a, agents⟩ := r
        rw [hv] at h; simp only at h
        intro d hsd o ho
        have := moveValueOwners_exact hv h d o ho
        by_cases hc : o = some ex
        · simpa [(mem_scopesForValueOwner ho hsd).mpr hc, hc] using this
        · have hn : ¬ d ∈ (scopesForValueOwner s.ledger ex).map (·.2) := fun x => hc ((mem_scopesForValueOwner ho hsd).mp x)
          simpa [hn, hc] using this

/-- bank MsgSend: the sender held every token it names; exactly those end with the receiver. -/
theorem send_moves_exactly_named {s s' : State} (hinv : Inv s) (frm to : Addr) (ids : List ScopeId)
    (h : exec s (.send frm to ids) = .ok s') :
    (∀ d ∈ ids, isScopeDenom d = true → HolderIs s.ledger d (some frm)) ∧
    ∀ d o, HolderIs s.ledger d o → HolderIs s'.ledger d (if d ∈ ids then some to else o) :=
  send_effect hinv h

/-! ## Clause 2 — the owner changes only with the current owner's consent -/

/-- **owner_change_authorised**: in every successful step (any message kind, any signer list)
from an invariant state, if `h` held scope `d`'s token before and does not hold it after (it moved
or was burned), then the step's signers authorise `h` by one of the four routes: `h` signs; `h`
has an authz grant in force to a signer for this message type; the step is `h`'s own bank
transfer; `h` is a marker and a signer has withdraw on it. -/
theorem owner_change_authorised {s s' : State} (hinv : Inv s) (op : Op) (h : exec s op = .ok s')
    (d : ScopeId) (hsd : isScopeDenom d = true) (hd : Addr) (hbefore : HolderIs s.ledger d (some hd))
    (hafter : ¬ HolderIs s'.ledger d (some hd)) :
    Consents s (opKind op) (opSigners op) hd := by
  obtain ⟨o', ho', _, _⟩ := (exec_step hinv h).1 d hsd
  have hne : some hd ≠ o' := fun e => hafter (e ▸ ho')
  exact (exec_step_signers hinv h d hsd (some hd) o' hbefore ho' hne).1 hd rfl

/-- the stronger form the code implements: only the *effective* signers count (when the first
signer is a smart contract every other signer is ignored, signers.go:451) -/
theorem owner_change_authorised_effective {s s' : State} (hinv : Inv s) (op : Op) (h : exec s op = .ok s')
    (d : ScopeId) (hsd : isScopeDenom d = true) (hd : Addr) (hbefore : HolderIs s.ledger d (some hd))
    (hafter : ¬ HolderIs s'.ledger d (some hd)) :
    Consents s (opKind op) (opEffectiveSigners s op) hd := by
  obtain ⟨o', ho', _, _⟩ := (exec_step hinv h).1 d hsd
  have hne : some hd ≠ o' := fun e => hafter (e ▸ ho')
  exact ((exec_step hinv h).2 d hsd (some hd) o' hbefore ho' hne).1 hd rfl

/-- **deposit_authorised**: in every successful step, if `h'` holds scope `d`'s token after and did
not before (it arrived by transfer or mint) and `h'` is a restricted marker, one of the step's
signers has deposit permission on it. -/
theorem deposit_authorised {s s' : State} (hinv : Inv s) (op : Op) (h : exec s op = .ok s')
    (d : ScopeId) (hsd : isScopeDenom d = true) (hn : Addr) (hafter : HolderIs s'.ledger d (some hn))
    (hbefore : ¬ HolderIs s.ledger d (some hn)) :
    DepositP s (opSigners op) hn := by
  obtain ⟨o, ho, _, _⟩ := hinv d hsd
  have hne : o ≠ some hn := fun e => hbefore (e ▸ ho)
  exact (exec_step_signers hinv h d hsd o (some hn) ho hafter hne).2 hn rfl

/-- contrapositive, for metadata messages: if the holder is not a marker, does not sign and has
no grant in force to any signer for the message's type, the token stays where it is —
whichever of the four messages is used and whoever else signs. -/
theorem no_consent_no_change {s s' : State} (hinv : Inv s) (op : Op) (mt : MsgType)
    (hk : opKind op = .msg mt) (h : exec s op = .ok s')
    (d : ScopeId) (hsd : isScopeDenom d = true) (hd : Addr) (hbefore : HolderIs s.ledger d (some hd))
    (hnosig : hd ∉ opSigners op)
    (hnogrant : ∀ g ∈ s.grants, g.granter = hd → g.mt = mt → g.grantee ∉ opSigners op)
    (hnomarker : findMarker s hd = none) :
    HolderIs s'.ledger d (some hd) := by
  apply Classical.byContradiction
  intro hafter
  have hc := owner_change_authorised hinv op h d hsd hd hbefore hafter
  rw [hk] at hc
  rcases hc with h1 | ⟨g, hg, h1, h2, h3⟩ | ⟨m, hm, _⟩
  · exact hnosig h1
  · exact hnogrant g hg h1 h3 h2
  · rw [hnomarker] at hm; cases hm

/-- **write_needs_value_owner_consent** — party validation is no substitute for the value
owner's consent: a WriteScope that goes through — on a plain scope or on a `require_party_rollup`
scope, whatever the scope's parties are and whichever of them sign, in particular when the value
owner is itself an OPTIONAL party of the scope and all the required parties sign — leaves the
token with the value owner `GetScopeValueOwner` reported unless that owner signs, has an authz
grant for MsgWriteScope in force to a signer, or is a marker. -/
theorem write_needs_value_owner_consent {s s' : State} (hinv : Inv s) (id : ScopeId) (owners : List Party)
    (rollup : Bool) (vo : Addr) (signers : List Addr)
    (h : exec s (.write id owners rollup vo signers) = .ok s')
    (hd : Addr) (hvo : denomOwner s.ledger id = .ok (some hd))
    (hnosig : hd ∉ signers)
    (hnogrant : ∀ g ∈ s.grants, g.granter = hd → g.mt = .write → g.grantee ∉ signers)
    (hnomarker : findMarker s hd = none) :
    denomOwner s'.ledger id = .ok (some hd) := by
  have hsd : isScopeDenom id = true := by
    simp only [exec, writeScope] at h
    cases hv : validateWriteScope s id owners rollup vo signers with
    | error e => rw [hv] at h; simp at h
    | ok r => exact validateWriteScope_scopeDenom hv
  obtain ⟨o, ho, _, _⟩ := hinv id hsd
  have ho' := denomOwner_of_holderIs ho
  rw [hvo] at ho'
  injection ho' with ho'
  subst ho'
  exact denomOwner_of_holderIs
    (no_consent_no_change hinv (.write id owners rollup vo signers) .write rfl h id hsd hd ho hnosig hnogrant hnomarker)

/-- the hypotheses are satisfiable with the value owner an optional party: `B` is an optional
party and the value owner of a roll-up scope; `A` (the required party) rewrites the parties,
naming `B` as value owner again; the write goes through and `B` keeps the token -/
example : denomOwner
    (run {} [.write "s1" [req "A", opt "B"] true "B" ["A"],
             .write "s1" [req "A", opt "B", opt "C"] true "B" ["A"]]).ledger "s1" = .ok (some "B") := by
  have hinv : Inv (run {} [.write "s1" [req "A", opt "B"] true "B" ["A"]]) := run_inv inv_init _
  have hex : ∃ s', exec (run {} [.write "s1" [req "A", opt "B"] true "B" ["A"]])
      (.write "s1" [req "A", opt "B", opt "C"] true "B" ["A"]) = .ok s' ∧
      run {} [.write "s1" [req "A", opt "B"] true "B" ["A"],
              .write "s1" [req "A", opt "B", opt "C"] true "B" ["A"]] = s' := ⟨_, rfl, rfl⟩
  obtain ⟨s', h1, h2⟩ := hex
  rw [h2]
  have hg0 : (run {} [.write "s1" [req "A", opt "B"] true "B" ["A"]]).grants = [] := by decide
  exact write_needs_value_owner_consent hinv "s1" _ _ _ _ h1 "B" rfl (by decide)
    (by intro g hg; rw [hg0] at hg; simp at hg) (by decide)

/-- a bank send moves a token only when its holder is the sender -/
theorem send_only_by_holder {s s' : State} (hinv : Inv s) (frm to : Addr) (ids : List ScopeId)
    (h : exec s (.send frm to ids) = .ok s') (d : ScopeId) (hsd : isScopeDenom d = true) (hd : Addr)
    (hbefore : HolderIs s.ledger d (some hd)) (hne : hd ≠ frm) : HolderIs s'.ledger d (some hd) := by
  apply Classical.byContradiction
  intro hafter
  have hc := owner_change_authorised hinv _ h d hsd hd hbefore hafter
  simp [opKind, opSigners, stepInfo, Consents] at hc
  exact hne hc.symm

/-- environment operations (granting, revoking, changing marker permissions or status, ordinary
coins arriving at an account) move no scope token -/
theorem env_ops_move_nothing {s s' : State} (op : Op) (hk : opKind op = .env) (h : exec s op = .ok s') :
    s'.scopes = s.scopes ∧
    ∀ d, isScopeDenom d = true → (supply s'.ledger d = supply s.ledger d ∧ ∀ a, bal s'.ledger a d = bal s.ledger a d) := by
  have heq : ∀ {s s' : State}, s'.ledger = s.ledger ∧ s'.scopes = s.scopes → s'.scopes = s.scopes ∧
      ∀ d, isScopeDenom d = true → (supply s'.ledger d = supply s.ledger d ∧ ∀ a, bal s'.ledger a d = bal s.ledger a d) :=
    fun ⟨h1, h2⟩ => ⟨h2, fun d _ => by rw [h1]; exact ⟨rfl, fun _ => rfl⟩⟩
  cases op with
  | grant gr ge mt c => simp [exec] at h; subst h; exact heq ⟨rfl, rfl⟩
  | revoke gr ge mt => exact heq (deleteGrant_eq h)
  | access m a ps => exact heq (setAccess_eq h)
  | mstatus m st => exact heq (setStatus_eq h)
  | fund a dn n => exact ⟨(fundAccount_spec h).1, (fundAccount_spec h).2.2⟩
  | write id owners ru vo sg => simp [opKind, stepInfo] at hk
  | delete id sg => simp [opKind, stepInfo] at hk
  | updvo ids vo sg => simp [opKind, stepInfo] at hk
  | migrate ex pr sg => simp [opKind, stepInfo] at hk
  | send frm to ids => simp [opKind, stepInfo] at hk
  | mwithdraw mk ad to ids => simp [opKind, stepInfo] at hk
  | msend frm outs => simp [opKind, stepInfo] at hk
  | mtransfer ad frm to id => simp [opKind, stepInfo] at hk
  | mkadd sg id n r f => exact absurd h (markerAdd_ne_ok _ _ _ _ _ _ _)
  | ask sl a p => exact heq ⟨(createAsk_spec h).1, (createAsk_spec h).2.1⟩
  | fill b oid p => simp [opKind, stepInfo] at hk
  | cancel sg oid => exact heq ⟨(cancelOrder_spec h).1, (cancelOrder_spec h).2.1⟩

/-- **messages_never_create_grants**: no message of the model creates or widens an authz
authorization — every grant in force afterwards goes back to a grant (same granter, grantee,
message type) in force before; consent cannot be manufactured by the messages it gates.
(Count authorizations are consumed: see the single-use example below.) -/
theorem messages_never_create_grants {s s' : State} (hinv : Inv s) (op : Op) (hk : opKind op ≠ .env)
    (h : exec s op = .ok s') : GrantsSub s s' := by
  cases op with
  | write id owners ru vo sg => exact write_grants hinv h
  | delete id sg => exact delete_grants hinv h
  | updvo ids vo sg =>
    simp only [exec] at h
    unfold updateValueOwners at h
    split at h
    · simp at h
    · cases hl : getScopeValueOwners s.ledger ids with
      | error e => rw [hl] at h; simp at h
      | ok links =>
        rw [hl] at h; simp only at h
        cases hv : validateUpdateValueOwners s links vo sg .updvo with
        | error e => rw [hv] at h; simp at h
        | ok r =>
          obtain ⟨a, agents⟩ := r
          rw [hv] at h; simp only at h
          exact moveValueOwners_grants hv h
  | migrate ex pr sg =>
    simp only [exec] at h
    unfold migrateValueOwner at h
    split at h
    · simp at h
    · simp only at h
      split at h
      · simp at h
      · cases hv : validateUpdateValueOwners s (scopesForValueOwner s.ledger ex) pr sg .migrate with
        | error e => rw [hv] at h; simp at h
        | ok r =>
          obtain ⟨a, agents⟩ := r
          rw [hv] at h; simp only at h
          exact moveValueOwners_grants hv h
  | send frm to ids =>
    simp only [exec] at h
    unfold bankSend at h
    split at h
    · simp at h
    · split at h
      · simp at h
      · exact grantsSub_of_eq (sendCoins_frame h).grants
  | mwithdraw mk ad to ids =>
    simp only [exec] at h
    unfold markerWithdraw at h
    split at h
    · simp at h
    · split at h
      · simp at h
      · (repeat' (split at h)) <;> simp at h
        all_goals (subst h; exact grantsSub_of_eq rfl)
  | msend frm outs =>
    simp only [exec] at h
    unfold bankMultiSend at h
    split at h
    · simp at h
    · rename_i hvalid
      simp only [Bool.or_eq_true, decide_eq_true_eq, not_or, List.any_eq_true, not_exists, not_and,
        Bool.not_eq_true', Bool.not_eq_false] at hvalid
      have hnd : ∀ o ∈ outs, o.2.Nodup := fun o ho => by
        have := hvalid.2 o ho
        apply nodupB_iff.mp
        cases hc : nodupB o.2 with
        | true => rfl
        | false => simp [hc] at this
      split at h
      · simp at h
      · split at h
        · simp at h
        · exact grantsSub_of_eq (msendLoop_spec hnd h).1.grants
  | mtransfer ad frm to id => exact absurd h (markerTransfer_ne_ok _ _ _ _ _ _)
  | mkadd sg id n r f => exact absurd h (markerAdd_ne_ok _ _ _ _ _ _ _)
  | fund a dn n => simp [opKind, stepInfo] at hk
  | grant gr ge mt c => simp [opKind, stepInfo] at hk
  | revoke gr ge mt => simp [opKind, stepInfo] at hk
  | access m a ps => simp [opKind, stepInfo] at hk
  | mstatus m st => simp [opKind, stepInfo] at hk
  | ask sl a p => simp [opKind, stepInfo] at hk
  | fill b oid p => exact grantsSub_of_eq (fill_step hinv h).2.2.2.1
  | cancel sg oid => simp [opKind, stepInfo] at hk

/-! ## Clause 2b — consent through an authz grant costs one of the grant's uses -/

theorem voUsed_elim {s : State} {pre cur : List Grant} {sg : List Addr} {mt : MsgType} {hd : Addr}
    (h : VoUsed s pre cur (effectiveSigners s sg) mt hd) (hnosig : hd ∉ sg) (hnomarker : findMarker s hd = none) :
    ∃ ge ∈ sg, ∃ g, lookupGrant pre ge hd mt = some g ∧ (g.count = 0 ∨ usedUp cur g = true) := by
  rcases h with h | h | ⟨ge, hge, hu⟩
  · exact absurd (effectiveSigners_sub s sg _ h) hnosig
  · simp [isMarker, hnomarker] at h
  · exact ⟨ge, effectiveSigners_sub s sg _ hge, usedR_elim hu⟩

/-- **authz_consent_uses_grant**: in every successful metadata message (WriteScope, DeleteScope,
UpdateValueOwners, MigrateValueOwner — any arguments, any signer list) from an invariant state, if
`hd` held scope `d`'s token before and not after, `hd` did not sign and is not a marker — so only
an authz grant can have authorised the change — then `hd` has a grant in force for this message
type to one of the signers which is either unlimited (a generic authorization) or has been USED
by the message: afterwards it is gone or has fewer uses left.  (`MsgUpdateValueOwners` and
`MsgMigrateValueOwner` do their signer check on the real state, not on a copy.) -/
theorem authz_consent_uses_grant {s s' : State} (hinv : Inv s) (op : Op) (mt : MsgType)
    (hk : opKind op = .msg mt) (h : exec s op = .ok s')
    (d : ScopeId) (hsd : isScopeDenom d = true) (hd : Addr) (hbefore : HolderIs s.ledger d (some hd))
    (hafter : ¬ HolderIs s'.ledger d (some hd))
    (hnosig : hd ∉ opSigners op) (hnomarker : findMarker s hd = none) :
    ∃ ge ∈ opSigners op, ∃ g, lookupGrant s.grants ge hd mt = some g ∧
      (g.count = 0 ∨ usedUp s'.grants g = true) := by
  cases op with
  | write id owners ru vo sg =>
    simp [opKind, stepInfo] at hk; subst hk
    exact voUsed_elim (write_use hinv h hbefore hafter) hnosig hnomarker
  | delete id sg =>
    simp [opKind, stepInfo] at hk; subst hk
    exact voUsed_elim (delete_use hinv h hbefore hafter) hnosig hnomarker
  | updvo ids vo sg =>
    simp [opKind, stepInfo] at hk; subst hk
    simp only [exec] at h
    unfold updateValueOwners at h
    split at h
    · simp at h
    · cases hl : getScopeValueOwners s.ledger ids with
      | error e => rw [hl] at h; simp at h
      | ok links =>
        rw [hl] at h; simp only at h
        cases hv : validateUpdateValueOwners s links vo sg .updvo with
        | error e => rw [hv] at h; simp at h
        | ok r =>
          obtain ⟨a, agents⟩ := r
          rw [hv] at h; simp only at h
          exact voUsed_elim (moveValueOwners_use hinv hv h hsd hbefore hafter) hnosig hnomarker
  | migrate ex pr sg =>
    simp [opKind, stepInfo] at hk; subst hk
    simp only [exec] at h
    unfold migrateValueOwner at h
    split at h
    · simp at h
    · simp only at h
      split at h
      · simp at h
      · cases hv : validateUpdateValueOwners s (scopesForValueOwner s.ledger ex) pr sg .migrate with
        | error e => rw [hv] at h; simp at h
        | ok r =>
          obtain ⟨a, agents⟩ := r
          rw [hv] at h; simp only at h
          exact voUsed_elim (moveValueOwners_use hinv hv h hsd hbefore hafter) hnosig hnomarker
  | send frm to ids => simp [opKind, stepInfo] at hk
  | mwithdraw mk ad to ids => simp [opKind, stepInfo] at hk
  | msend frm outs => simp [opKind, stepInfo] at hk
  | mtransfer ad frm to id => simp [opKind, stepInfo] at hk
  | mkadd sg id n r f => simp [opKind, stepInfo] at hk
  | fund a dn n => simp [opKind, stepInfo] at hk
  | grant gr ge mt c => simp [opKind, stepInfo] at hk
  | revoke gr ge mt => simp [opKind, stepInfo] at hk
  | access m a ps => simp [opKind, stepInfo] at hk
  | mstatus m st => simp [opKind, stepInfo] at hk
  | ask sl a p => simp [opKind, stepInfo] at hk
  | fill b oid p => simp [opKind, stepInfo] at hk
  | cancel sg oid => simp [opKind, stepInfo] at hk

/-- **one_use_grant_is_gone** — a grant for ONE use authorises one change: under the hypotheses
above, when every grant `hd` has given to a signer for this message type is a count
authorization with one use left, one of them is in force before the message and gone after it.
The next message signed by the same people then falls under `no_consent_no_change`. -/
theorem one_use_grant_is_gone {s s' : State} (hinv : Inv s) (op : Op) (mt : MsgType)
    (hk : opKind op = .msg mt) (h : exec s op = .ok s')
    (d : ScopeId) (hsd : isScopeDenom d = true) (hd : Addr) (hbefore : HolderIs s.ledger d (some hd))
    (hafter : ¬ HolderIs s'.ledger d (some hd))
    (hnosig : hd ∉ opSigners op) (hnomarker : findMarker s hd = none)
    (hone : ∀ ge ∈ opSigners op, ∀ g, lookupGrant s.grants ge hd mt = some g → g.count = 1) :
    ∃ ge ∈ opSigners op, (lookupGrant s.grants ge hd mt).isSome = true ∧ lookupGrant s'.grants ge hd mt = none := by
  obtain ⟨ge, hge, g, hl, hu⟩ := authz_consent_uses_grant hinv op mt hk h d hsd hd hbefore hafter hnosig hnomarker
  have h1 := hone ge hge g hl
  refine ⟨ge, hge, by rw [hl]; rfl, ?_⟩
  rcases hu with hu | hu
  · rw [h1] at hu; cases hu
  · obtain ⟨_, k1, k2, k3⟩ := lookupGrant_some hl
    unfold usedUp at hu
    rw [k1, k2, k3] at hu
    cases hl2 : lookupGrant s'.grants ge hd mt with
    | none => rfl
    | some g' =>
      rw [hl2, h1] at hu
      simp only [bne_iff_ne, ne_eq, Bool.and_eq_true, decide_eq_true_eq] at hu
      omega

/-- **marker_owner_change_needs_withdraw** — when the value owner is a marker, in WHATEVER
lifecycle status (proposed, finalized, active, cancelled, destroyed: `m.status` is arbitrary), a
metadata message moves or burns the token only if one of its signers has withdraw permission on
that marker (the marker account itself neither signs nor grants). -/
theorem marker_owner_change_needs_withdraw {s s' : State} (hinv : Inv s) (op : Op) (mt : MsgType)
    (hk : opKind op = .msg mt) (h : exec s op = .ok s')
    (d : ScopeId) (hsd : isScopeDenom d = true) (mk : Addr) (m : Marker) (hm : findMarker s mk = some m)
    (hbefore : HolderIs s.ledger d (some mk)) (hafter : ¬ HolderIs s'.ledger d (some mk))
    (hnosig : mk ∉ opSigners op)
    (hnogrant : ∀ g ∈ s.grants, g.granter = mk → g.mt = mt → g.grantee ∉ opSigners op) :
    ∃ x ∈ opSigners op, m.has x .withdraw = true := by
  have hc := owner_change_authorised hinv op h d hsd mk hbefore hafter
  rw [hk] at hc
  rcases hc with h1 | ⟨g, hg, h1, h2, h3⟩ | ⟨m', hm', x, hx, hw⟩
  · exact absurd h1 hnosig
  · exact absurd h2 (hnogrant g hg h1 h3)
  · rw [hm] at hm'; injection hm' with hm'; subst hm'
    exact ⟨x, hx, hw⟩

/-- the hypotheses are satisfiable with a cancelled marker: `B` has withdraw on `MR`, `MR` is
cancelled while it holds the token, `B` migrates it away -/
example : ∃ s', exec (run {} [.write "s1" [req "A"] false "C" ["A"], .access "MR" "C" [.deposit], .send "C" "MR" ["s1"],
    .access "MR" "B" [.withdraw], .mstatus "MR" .cancelled]) (.migrate "MR" "E" ["B"]) = .ok s' ∧
    ¬ HolderIs s'.ledger "s1" (some "MR") := by
  refine ⟨_, rfl, ?_⟩
  intro hh
  have := hh.2 "E"
  revert this
  decide

/-! ## "Whichever message is used" — every route of the extended operation set

The operation set now has every message of the model that can debit an account's scope-token
balance: the four metadata messages, bank MsgSend, bank MsgMultiSend (`InputOutputCoins`), marker
MsgWithdraw and marker MsgTransfer.  `RouteConsent` spells out, message by message, what the
holder's consent is. -/

/-- the holder `hd`'s consent, message by message -/
def RouteConsent (s : State) (hd : Addr) : Op → Prop
  | .write _ _ _ _ sg => Consents s (.msg .write) sg hd
  | .delete _ sg => Consents s (.msg .delete) sg hd
  | .updvo _ _ sg => Consents s (.msg .updvo) sg hd
  | .migrate _ _ sg => Consents s (.msg .migrate) sg hd
  | .send frm _ _ => hd = frm                       -- the holder's own MsgSend
  | .msend frm _ => hd = frm                        -- the holder's own MsgMultiSend (it is the one input)
  | .mwithdraw mk admin _ _ =>                      -- the holder is the marker, the administrator has withdraw on it
    hd = mk ∧ ∃ m, findMarker s mk = some m ∧ m.has admin .withdraw = true
  | .mtransfer .. => False                          -- marker MsgTransfer never carries a scope token
  | .fill _ oid _ => ∃ o ∈ s.orders, o.id = oid ∧ o.seller = hd   -- the holder made the ask order being filled
  | .mkadd .. => False                              -- a marker request for a scope denom is always refused
  | .fund .. | .grant .. | .revoke .. | .access .. | .mstatus .. | .ask .. | .cancel .. => False

/-- marker MsgTransfer cannot move a scope token: it is rejected in every state -/
theorem marker_transfer_never_moves_scope_token (s : State) (ad frm to : Addr) (id : ScopeId) :
    (applyOp s (.mtransfer ad frm to id)).1 = s := by
  unfold applyOp
  cases h : exec s (.mtransfer ad frm to id) with
  | error e => rfl
  | ok s1 => exact absurd h (markerTransfer_ne_ok _ _ _ _ _ _)

/-- a marker request (MsgAddMarker / MsgAddFinalizeActivateMarker, any supply, type, forced-transfer
flag) for the denom of a scope token, sent by an account that is not the governance authority, is
rejected as an invalid denom in every state and changes nothing: no marker can come to exist on a
scope denom, so neither the marker module's mint/burn nor its (forced) transfer ever applies to a
scope token.

Derived, not assumed: the model's `markerAdd` asks `DenomRegex.unrestrictedDenomOk` — the anchored
match of `[a-zA-Z][a-zA-Z0-9\-\.]{2,83}` on the WHOLE denom, as `Keeper.ValidateUnrestictedDenom`
(x/marker/keeper/params.go:53) does — about the denom text `nft/…`, and
`C09Denom.scopeDenom_refused` proves that this text fails it for every scope address (`/` is not in
the class and the end anchor does not let the match stop before it:
`C09Denom.end_anchor_is_what_refuses`, `C09Denom.unanchored_accepts_scope_denom`).  The expression
and the anchors are pinned to the source by `C09Facts.unrestricted_denom_regex_expected` /
`validate_denom_anchored_both_ends`; that the real handlers call the validation first is what the
correspondence op `mkadd` exercises.

The governance authority as sender (`msg.FromAddress == k.GetAuthority()`) SKIPS this validation
(x/marker/keeper/msg_server.go:64-73; AddFinalizeActivateMarker likewise) — a governance proposal
can create a marker on any denom.  That sender is outside the model and outside this theorem. -/
theorem marker_add_on_scope_denom_never_accepted (s : State) (sg : Addr) (id : ScopeId) (n : Nat) (r f : Bool) :
    DenomRegex.unrestrictedDenomOk (scopeDenomText id) = false ∧
    (applyOp s (.mkadd sg id n r f)).1 = s ∧ (applyOp s (.mkadd sg id n r f)).2 = "err:invalid" := by
  refine ⟨C09Denom.scopeDenom_refused id, ?_⟩
  have h : exec s (.mkadd sg id n r f) = .error .invalid := by
    simp only [exec]; exact markerAdd_eq_invalid s sg id n r f
  unfold applyOp
  rw [h]
  exact ⟨rfl, rfl⟩

/-- the refusal above really is the denom test's: were the test to accept the text (as the same
expression WITHOUT the end anchor does — `C09Denom.unanchored_accepts_scope_denom`), the model would
not answer `err:invalid` -/
theorem marker_add_answer_is_the_denom_test (s : State) (sg : Addr) (id : ScopeId) (n : Nat) (r f : Bool) :
    (markerAdd s sg id n r f = .error .invalid ↔ DenomRegex.unrestrictedDenomOk (scopeDenomText id) = false) := by
  unfold markerAdd
  cases DenomRegex.unrestrictedDenomOk (scopeDenomText id) <;> simp

/-- **whichever_message_consent_partial** — for EVERY operation of the extended set (four metadata
messages, MsgSend, MsgMultiSend, marker MsgWithdraw, marker MsgTransfer, exchange MsgCreateAsk /
MsgFillAsks / MsgCancelOrder, environment operations),
any arguments, any signers, from any invariant state: if `hd` held scope `d`'s token before and does
not hold it after, the operation is one of the consent routes and `hd` consented through it.

The exchange route IS an operation now: an ask order on a scope token (`.ask`, which only the
holder can create: `ask_only_by_holder`), `MsgFillAsks` (`.fill`, signed by the buyer alone: the
holder's consent is the order it made — `RouteConsent` says the holder is the seller of the order
being filled; `fill_moves_only_sellers_asset`) and `MsgCancelOrder`.

Full statement: "whichever message of the chain is used".  Still PARTIAL because further routes by
which the bank can move a coin are not operations of this model:
* quarantine: a send (by ANY of the routes above — the metadata keeper does not bypass quarantine)
  to a receiver that opted in parks the token with the quarantine funds holder, and `MsgAccept`
  (`x/quarantine`, `SendCoins` from the funds holder) releases it to that receiver; the redirect
  sits inside the bank's `SendCoins`, so modelling it changes the destination of every send of the
  model — not done;
* the other settlement paths of `x/exchange`: `MarketSettle` (market admin as transfer agent),
  `FillBids` / a BID order PAYING with a scope token, commitments (`MsgCommitFunds` +
  `MarketCommitmentSettle` / `MarketTransferCommitment`).
Both are listed in `checks/C09.json` as outside the model. -/
theorem whichever_message_consent_partial {s s' : State} (hinv : Inv s) (op : Op) (h : exec s op = .ok s')
    (d : ScopeId) (hsd : isScopeDenom d = true) (hd : Addr) (hbefore : HolderIs s.ledger d (some hd))
    (hafter : ¬ HolderIs s'.ledger d (some hd)) : RouteConsent s hd op := by
  have hc := owner_change_authorised hinv op h d hsd hd hbefore hafter
  cases op with
  | write id owners ru vo sg => exact hc
  | delete id sg => exact hc
  | updvo ids vo sg => exact hc
  | migrate ex pr sg => exact hc
  | send frm to ids =>
    simp only [opKind, opSigners, stepInfo, Consents] at hc
    simp only [List.cons.injEq, and_true] at hc
    exact hc.symm
  | msend frm outs =>
    simp only [opKind, opSigners, stepInfo, Consents] at hc
    simp only [List.cons.injEq, and_true] at hc
    exact hc.symm
  | mwithdraw mk ad to ids =>
    obtain ⟨m, hm, x, hx, hw⟩ := hc
    simp only [opSigners, stepInfo, List.mem_singleton] at hx
    subst hx
    -- the token left `hd`, and a marker MsgWithdraw only debits the marker it names
    have hmk : hd = mk := by
      apply Classical.byContradiction
      intro hne
      apply hafter
      simp only [exec] at h
      unfold markerWithdraw at h
      split at h
      · simp at h
      · rename_i hvalid
        simp only [Bool.or_eq_true, decide_eq_true_eq, not_or, Bool.not_eq_true', Bool.not_eq_false] at hvalid
        have hnd' : ids.Nodup := nodupB_iff.mp (by simpa using hvalid.2)
        cases hm2 : findMarker s mk with
        | none => rw [hm2] at h; simp at h
        | some m2 =>
          rw [hm2] at h; simp only at h
          (repeat' (split at h)) <;> simp at h
          rename_i hf _
          subst h
          have hf' : hasFunds s.ledger mk ids = true := by simpa using hf
          obtain ⟨hsrc, hfin⟩ := holderIs_move (b := to) hnd' hf' hbefore
          by_cases hdi : d ∈ ids
          · have := hsrc hdi; injection this with this; exact absurd this hne
          · simpa [hdi] using hfin
    subst hmk
    exact ⟨rfl, m, hm, hw⟩
  | mtransfer ad frm to id => exact absurd h (markerTransfer_ne_ok _ _ _ _ _ _)
  | mkadd sg id n r f => exact absurd h (markerAdd_ne_ok _ _ _ _ _ _ _)
  | fund a dn n => exact hc
  | grant gr ge mt c => exact hc
  | revoke gr ge mt => exact hc
  | access m a ps => exact hc
  | mstatus m st => exact hc
  | ask sl a p => exact hc
  | fill b oid p => exact hc
  | cancel sg oid => exact hc

/-- the hypotheses are satisfiable through MsgMultiSend: `C` multi-sends its two tokens to two
receivers; a stranger's multi-send of `C`'s token is rejected -/
example : bal (run {} [.write "s1" [req "A"] false "C" ["A"], .write "s2" [req "A"] false "C" ["A"],
    .msend "C" [("D", ["s1"]), ("E", ["s2"])]]).ledger "D" "s1" = 1 := by decide
example : (applyOp (run {} [.write "s1" [req "A"] false "C" ["A"]]) (.msend "B" [("D", ["s1"])])).2 = "err:funds" := by decide
/-- … into a restricted marker only with the sender's deposit permission, per output -/
example : (applyOp (run {} [.write "s1" [req "A"] false "C" ["A"], .write "s2" [req "A"] false "C" ["A"]])
    (.msend "C" [("D", ["s1"]), ("MR", ["s2"])])).2 = "err:deposit" := by decide
example : (applyOp (run {} [.write "s1" [req "A"] false "C" ["A"]]) (.mtransfer "C" "C" "D" "s1")).2 = "err:notfound" := by decide

/-! ## The exchange route: an ask order on a scope token, its hold, and the fill

A scope token is a bank coin, so it can be the `assets` of an x/exchange ask order.  The seller
signs `MsgCreateAsk`; the buyer alone signs the later `MsgFillAsks` that moves the token.  The
holder's consent to that move is the order: -/

/-- **ask_only_by_holder** — order creator = holder at creation.  A `MsgCreateAsk` naming scope
token `asset` goes through only when its signer `seller` HOLDS the token and the token is not on
hold already (so at most one open order per token); it moves nothing, records the order under the
next id and puts the token on hold. -/
theorem ask_only_by_holder {s s' : State} (hinv : Inv s) (seller : Addr) (asset : Denom) (price : Nat)
    (h : exec s (.ask seller asset price) = .ok s') :
    isScopeDenom asset = true ∧ HolderIs s.ledger asset (some seller) ∧ heldOf s seller asset = 0 ∧
    s'.ledger = s.ledger ∧ s'.scopes = s.scopes ∧
    s'.orders = s.orders ++ [⟨s.lastOrder + 1, seller, asset, price⟩] ∧ s'.holds = (seller, asset) :: s.holds := by
  obtain ⟨h1, h2, _, hsd, _, hsp, ho, hh⟩ := createAsk_spec h
  obtain ⟨o, hho, _, _⟩ := hinv asset hsd
  have hb := hho.2 seller
  simp only [spendable, List.all_cons, List.all_nil, Bool.and_true, decide_eq_true_eq] at hsp
  by_cases hc : o = some seller
  · subst hc
    simp at hb
    exact ⟨hsd, hho, by omega, h1, h2, ho, hh⟩
  · simp [hc] at hb
    omega

/-- the hypotheses are satisfiable: `C` holds `s1` and offers it -/
example : ∃ s', exec (run {} [.write "s1" [req "A"] false "C" ["A"]]) (.ask "C" "s1" 3) = .ok s' ∧
    s'.orders = [⟨1, "C", "s1", 3⟩] ∧ s'.holds = [("C", "s1")] := ⟨_, rfl, by decide, by decide⟩

/-- **fill_moves_only_sellers_asset** — a successful `MsgFillAsks` of order `oid` (signed by the
buyer only): the order is in the store, its seller is not the buyer, the price offered is the
price asked, the buyer is not a marker; the seller HELD the order's asset token; exactly that
token changes hands, seller → buyer, every other scope token stays; the order and its hold are
gone. -/
theorem fill_moves_only_sellers_asset {s s' : State} (hinv : Inv s) (buyer : Addr) (oid price : Nat)
    (h : exec s (.fill buyer oid price) = .ok s') :
    ∃ o ∈ s.orders, o.id = oid ∧ o.seller ≠ buyer ∧ o.price = price ∧ findMarker s buyer = none ∧
      (isScopeDenom o.asset = true → HolderIs s.ledger o.asset (some o.seller)) ∧
      (∀ d, isScopeDenom d = true → ∀ o0, HolderIs s.ledger d o0 →
        HolderIs s'.ledger d (if d = o.asset then some buyer else o0)) ∧
      s'.orders = s.orders.filter (·.id ≠ oid) ∧ s'.holds = s.holds.erase (o.seller, o.asset) := by
  obtain ⟨_, _, _, _, _, o, hfo, h1, h2, h3, h4, h5, h6, h7⟩ := fill_step hinv h
  exact ⟨o, (findOrder_some hfo).1, (findOrder_some hfo).2, h1, h2, h3, h4, h5, h6, h7⟩

/-- the hypotheses are satisfiable: `B` fills `C`'s order and pays the price -/
example : ∃ s', exec (run {} [.write "s1" [req "A"] false "C" ["A"], .ask "C" "s1" 3, .fund "B" "$c" 5]) (.fill "B" 1 3) = .ok s' ∧
    bal s'.ledger "B" "s1" = 1 ∧ bal s'.ledger "C" "$c" = 3 ∧ bal s'.ledger "B" "$c" = 2 ∧ s'.orders = [] ∧ s'.holds = [] :=
  ⟨_, rfl, by decide, by decide, by decide, by decide, by decide⟩

/-- **held_token_not_sendable_partial** — while a token is on hold for an order its holder's own
bank send of it is refused (the bank's locked-coins check).
Full statement: "a token on hold leaves its holder by NO route other than the fill of its order".
PARTIAL: proved for bank MsgSend only; for the metadata messages, MsgMultiSend and marker
MsgWithdraw the same `spendable` test is part of the model (`sendCoins`, `bankMultiSend`,
`markerWithdraw`) and is exercised on the real code (`held-token-other-route` in the evidence), but
the statement over all operations is not proved. -/
theorem held_token_not_sendable_partial {s s' : State} (hinv : Inv s) (frm to : Addr) (ids : List ScopeId) (d : ScopeId)
    (hsd : isScopeDenom d = true) (hd : d ∈ ids) (hheld : 1 ≤ heldOf s frm d) :
    exec s (.send frm to ids) ≠ .ok s' := by
  intro h
  simp only [exec] at h
  unfold bankSend at h
  split at h
  · simp at h
  · split at h
    · simp at h
    · have hsp := sendCoins_spendable h
      obtain ⟨o, hho, _, _⟩ := hinv d hsd
      have hb := hho.2 frm
      simp only [spendable, List.all_eq_true, decide_eq_true_eq] at hsp
      have := hsp d hd
      by_cases hc : o = some frm
      · simp [hc] at hb; omega
      · simp [hc] at hb; omega

/-- the hypothesis is satisfiable, and the send is indeed refused -/
example : 1 ≤ heldOf (run {} [.write "s1" [req "A"] false "C" ["A"], .ask "C" "s1" 3]) "C" "s1" := by decide
example : (applyOp (run {} [.write "s1" [req "A"] false "C" ["A"], .ask "C" "s1" 3]) (.send "C" "D" ["s1"])).2 = "err:funds" := by decide

/-! ## The first value owner (token minted: none → some)

`Consents` is about the CURRENT owner; a scope without a value owner has nobody to ask.  Who may
then set the first one: only WriteScope can (the bulk messages refuse scopes without an owner, a
bank send needs funds), and its party validation applies in full — it is never treated as "only
the value owner changes". -/

/-- **first_owner_set_only_by_write** — from any invariant state, if scope `d` had no token before
a successful operation and `hn` holds it afterwards, then the operation is a `MsgWriteScope` for
`d` naming `hn` as value owner, it has a signer, and — when the scope already existed — every
party of the existing scope (on a `require_party_rollup` scope: every non-optional party) signed it
or has an authz grant for MsgWriteScope in force to a signer.  (A scope that does not exist yet is
created by whoever signs: the code puts no condition on the first write of a scope id,
scope.go:497/516 only look at `existing`.)  Into a restricted marker `deposit_authorised` applies in
addition. -/
theorem first_owner_set_only_by_write {s s' : State} (hinv : Inv s) (op : Op) (h : exec s op = .ok s')
    (d : ScopeId) (hsd : isScopeDenom d = true) (hn : Addr)
    (hbefore : HolderIs s.ledger d none) (hafter : HolderIs s'.ledger d (some hn)) :
    ∃ owners rollup signers, op = .write d owners rollup hn signers ∧ signers ≠ [] ∧
      ∀ e, findScope s d = some e → PartiesAgree s e signers := by
  have hsup0 : supply s.ledger d = 0 := by simpa using hbefore.1
  have hsup1 : supply s'.ledger d = 1 := by simpa using hafter.1
  have hkeep : (∀ id ow ru vo sg, op ≠ .write id ow ru vo sg) → (∀ id sg, op ≠ .delete id sg) → False := by
    intro hw hdl
    have := supply_changes_only_by_write_delete hinv op h hw hdl d hsd
    omega
  cases op with
  | write id owners ru vo sg =>
    by_cases hid : d = id
    · subst hid
      by_cases hvo : vo = ""
      · subst hvo
        have := write_without_value_owner_keeps_tokens hinv d owners ru sg h
        rw [this] at hafter
        cases holderIs_unique hbefore hafter
      · have hnew := (write_effect hinv h).2.1 hvo
        have : some vo = some hn := holderIs_unique hnew hafter
        injection this with this; subst this
        simp only [exec, writeScope] at h
        cases hv : validateWriteScope s d owners ru vo sg with
        | error e => rw [hv] at h; simp at h
        | ok r =>
          obtain ⟨h1, h2⟩ := validateWriteScope_first hbefore hvo hv
          exact ⟨owners, ru, sg, rfl, h1, h2⟩
    · have := (write_effect hinv h).2.2 d hid none hbefore
      cases holderIs_unique this hafter
  | delete id sg =>
    by_cases hid : d = id
    · subst hid
      have := (delete_burns hinv d sg h).2.1
      omega
    · have := delete_effect hinv h d hid none hbefore
      cases holderIs_unique this hafter
  | updvo ids vo sg => exact (hkeep (by intros; simp) (by intros; simp)).elim
  | migrate ex pr sg => exact (hkeep (by intros; simp) (by intros; simp)).elim
  | send frm to ids => exact (hkeep (by intros; simp) (by intros; simp)).elim
  | mwithdraw mk ad to ids => exact (hkeep (by intros; simp) (by intros; simp)).elim
  | msend frm outs => exact (hkeep (by intros; simp) (by intros; simp)).elim
  | mtransfer ad frm to id => exact (hkeep (by intros; simp) (by intros; simp)).elim
  | mkadd sg id n r f => exact (hkeep (by intros; simp) (by intros; simp)).elim
  | fund a dn n => exact (hkeep (by intros; simp) (by intros; simp)).elim
  | grant gr ge mt c => exact (hkeep (by intros; simp) (by intros; simp)).elim
  | revoke gr ge mt => exact (hkeep (by intros; simp) (by intros; simp)).elim
  | access m a ps => exact (hkeep (by intros; simp) (by intros; simp)).elim
  | mstatus m st => exact (hkeep (by intros; simp) (by intros; simp)).elim
  | ask sl a p => exact (hkeep (by intros; simp) (by intros; simp)).elim
  | fill b oid p => exact (hkeep (by intros; simp) (by intros; simp)).elim
  | cancel sg oid => exact (hkeep (by intros; simp) (by intros; simp)).elim

/-- the hypotheses are satisfiable on an existing scope: `s1` (parties `A`, `B`) is written
without a value owner; a later write signed by both parties names `C`; signed by `A` alone it is
rejected, and so is a stranger's -/
example : bal (run {} [.write "s1" [req "A", req "B"] false "" ["A"],
    .write "s1" [req "A", req "B"] false "C" ["A", "B"]]).ledger "C" "s1" = 1 := by decide
example : (applyOp (run {} [.write "s1" [req "A", req "B"] false "" ["A"]])
    (.write "s1" [req "A", req "B"] false "C" ["A"])).2 = "err:sig" := by decide
example : (applyOp (run {} [.write "s1" [req "A", req "B"] false "" ["A"]])
    (.write "s1" [req "A", req "B"] false "C" ["C"])).2 = "err:sig" := by decide
/-- … and on a scope id nobody has written yet any signer may create the scope with any value owner -/
example : bal (run {} [.write "s1" [req "A"] false "C" ["D"]]).ledger "C" "s1" = 1 := by decide

/-! ## The two queries agree with the token

`queryScopeValueOwner` (the `Scope` query: metadata store + bank `DenomOwner`) and
`queryValueOwnership` (the `ValueOwnership` query: a prefix walk over ONE account's balances) are
computed by the model the way the Go code computes them — neither is defined from the dump's
holder column. -/

/-- **queries_agree_with_token** — in every invariant state (so after any operation sequence),
for every scope id `d` with token holder `o`:
* the `Scope` query reports `o` as value owner when the scope record exists, and nothing otherwise;
* account `a`'s `ValueOwnership` answer lists `d` exactly when `a` is the holder; so at most one
  account lists it, and none when there is no token;
* every entry of any `ValueOwnership` answer is a scope denom the account holds one unit of. -/
theorem queries_agree_with_token {s : State} (hinv : Inv s) (d : ScopeId) (hsd : isScopeDenom d = true) :
    ∃ o, HolderIs s.ledger d o ∧
      queryScopeValueOwner s d = (if hasScope s d = true then o.getD "" else "") ∧
      (∀ a, d ∈ queryValueOwnership s a ↔ o = some a) ∧
      listedBy s d = o.toList := by
  obtain ⟨o, ho, _, _⟩ := hinv d hsd
  refine ⟨o, ho, queryScopeValueOwner_of_holderIs ho, mem_queryValueOwnership ho hsd, ?_⟩
  rw [listedBy_of_holderIs ho hsd]
  cases o <;> rfl

/-- whatever an account's `ValueOwnership` answer lists is a scope whose token that account holds -/
theorem value_ownership_lists_only_held {s : State} (hinv : Inv s) (a : Addr) (d : ScopeId)
    (h : d ∈ queryValueOwnership s a) : isScopeDenom d = true ∧ bal s.ledger a d = 1 ∧ hasScope s d = true := by
  have hsd := scopesForValueOwner_scopeDenom h
  obtain ⟨o, ho, _, hsc⟩ := hinv d hsd
  have := (mem_queryValueOwnership ho hsd a).mp h
  subst this
  exact ⟨hsd, by simpa using ho.2 a, hsc rfl⟩

/-- the checker's `queries_disagree_with_token` clause, run on the model's separately computed
query columns, never fires -/
theorem queries_ok {s : State} (hinv : Inv s) (d : ScopeId) (hsd : isScopeDenom d = true) :
    queriesOk (observeScope s d) = true := by
  obtain ⟨o, ho, _, hsc⟩ := hinv d hsd
  unfold queriesOk observeScope
  simp only [holdersOf_of_holderIs ho, denomOwner_of_holderIs ho,
    queryScopeValueOwner_of_holderIs ho, listedBy_of_holderIs ho hsd]
  cases o <;> simp

private def qsDemo : State := run { ledger := [⟨"C", "$c", 5⟩, ⟨"D", "$c", 7⟩] }
  [.write "s1" [req "A"] false "C" ["A"], .send "C" "D" ["s1", "$c"]]
private def qsBad : State := { scopes := [⟨"s1", [req "A"], false⟩], ledger := [⟨"C", "s1", 1⟩, ⟨"D", "s1", 1⟩] }

/-- non-trivial instance: the token sits with `D` among accounts holding ordinary coins; `D`'s
ValueOwnership lists `s1` and not the ordinary coin, `C`'s lists nothing, the Scope query says `D` -/
example : queryValueOwnership qsDemo "D" = ["s1"] ∧ queryValueOwnership qsDemo "C" = [] ∧
    queryScopeValueOwner qsDemo "s1" = "D" ∧ listedBy qsDemo "s1" = ["D"] := by decide
/-- the two queries are really computed differently: on a (non-invariant) ledger where two accounts
hold the denom, both ValueOwnership answers list the scope while the Scope query reports nobody -/
example : listedBy qsBad "s1" = ["C", "D"] ∧ queryScopeValueOwner qsBad "s1" = "" ∧
    queriesOk (observeScope qsBad "s1") = false := by decide

/-! ## The checker run on the implementation is the conjunction of the above

`stepClause` (PvModel/VownerSpec.lean) is what the driver evaluates on two consecutive dumps of
the IMPLEMENTATION and the operation between them.  On the model it never fires. -/

/-- **step_ok**: for every invariant state, every operation with any arguments and signers, and
every set of scope ids looked at, the property checker finds nothing wrong with the model's step —
accepted or rejected.  (The driver runs the same `stepClause` on the implementation's dumps.) -/
theorem step_ok {s : State} (hinv : Inv s) (op : Op) (ids : List ScopeId)
    (hids : ∀ id ∈ ids, isScopeDenom id = true) :
    stepClause (observe s ids)
      (stepInfo op (match exec s op with | .ok _ => true | .error _ => false))
      (observe (applyOp s op).1 ids) = none := by
  have hinv' := applyOp_inv hinv op
  unfold stepClause
  rw [tokens_ok hinv' ids hids]
  simp only
  cases hex : exec s op with
  | error e =>
    have hs : (applyOp s op).1 = s := rejected_changes_nothing s op e hex
    rw [hs]
    have hrej : rejectOk (observe s ids) (stepInfo op false) (observe s ids) = true := by
      simp [rejectOk]
    have hcons : (observe s ids).scopes.all (consentOne (observe s ids) (stepInfo op false)) = true := by
      simp only [observe, List.all_eq_true, List.mem_map]
      rintro o ⟨id, hid, rfl⟩
      obtain ⟨o1, ho1, h1, _⟩ := observeScope_of_inv hinv id (hids id hid)
      have := preHolder_observe hinv hid (hids id hid) ho1
      unfold observe at this
      have hid' : (observeScope s id).id = id := rfl
      unfold consentOne
      rw [hid', this, h1]; simp
    have hdep : (observe s ids).scopes.all (depositOne (observe s ids) (stepInfo op false)) = true := by
      simp only [observe, List.all_eq_true, List.mem_map]
      rintro o ⟨id, hid, rfl⟩
      obtain ⟨o1, ho1, h1, _⟩ := observeScope_of_inv hinv id (hids id hid)
      have := preHolder_observe hinv hid (hids id hid) ho1
      unfold observe at this
      have hid' : (observeScope s id).id = id := rfl
      unfold depositOne
      rw [hid', this, h1]; simp
    have hdel : (observe s ids).scopes.all (deleteOne (stepInfo op false)) = true := by
      simp only [List.all_eq_true]
      intro o _
      cases op <;> simp [deleteOne, stepInfo]
    have hgu : (observe s ids).scopes.all (grantUseOne (observe s ids) (stepInfo op false) (observe s ids)) = true := by
      simp only [observe, List.all_eq_true, List.mem_map]
      rintro o ⟨id, hid, rfl⟩
      obtain ⟨o1, ho1, h1, _⟩ := observeScope_of_inv hinv id (hids id hid)
      have := preHolder_observe hinv hid (hids id hid) ho1
      unfold observe at this
      have hid' : (observeScope s id).id = id := rfl
      unfold grantUseOne
      split
      · simp only [hid', this, h1]; simp
      · rfl
    simp [hrej, hcons, hdep, hdel, hgu]
  | ok s1 =>
    have hs : (applyOp s op).1 = s1 := by simp [applyOp, hex]
    rw [hs] at hinv' ⊢
    have hgood := exec_step_signers hinv hex
    have hrej : rejectOk (observe s ids) (stepInfo op true) (observe s1 ids) = true := by
      cases op <;> simp [rejectOk, stepInfo]
    have hkind : (stepInfo op true).kind = opKind op := rfl
    have hsig : (stepInfo op true).signers = opSigners op := rfl
    have hcons : (observe s1 ids).scopes.all (consentOne (observe s ids) (stepInfo op true)) = true := by
      simp only [observe, List.all_eq_true, List.mem_map]
      rintro o ⟨id, hid, rfl⟩
      obtain ⟨o0, ho0, _, _⟩ := observeScope_of_inv hinv id (hids id hid)
      obtain ⟨o1, ho1, h1, _⟩ := observeScope_of_inv hinv' id (hids id hid)
      have hpre := preHolder_observe hinv hid (hids id hid) ho0
      unfold observe at hpre
      unfold consentOne
      have hid' : (observeScope s1 id).id = id := rfl
      rw [hid', hpre, h1]
      by_cases heq : o0 = o1
      · simp [heq]
      · cases o0 with
        | none => simp
        | some a =>
          have := (hgood id (hids id hid) (some a) o1 ho0 ho1 heq).1 a rfl
          have hh := authorises_of_consents (s := s) (ids := ids) (st := stepInfo op true) (h := a)
            (by rw [hkind, hsig]; exact this)
          unfold observe at hh
          simp [hh]
    have hdep : (observe s1 ids).scopes.all (depositOne (observe s ids) (stepInfo op true)) = true := by
      simp only [observe, List.all_eq_true, List.mem_map]
      rintro o ⟨id, hid, rfl⟩
      obtain ⟨o0, ho0, _, _⟩ := observeScope_of_inv hinv id (hids id hid)
      obtain ⟨o1, ho1, h1, _⟩ := observeScope_of_inv hinv' id (hids id hid)
      have hpre := preHolder_observe hinv hid (hids id hid) ho0
      unfold observe at hpre
      unfold depositOne
      have hid' : (observeScope s1 id).id = id := rfl
      rw [hid', hpre, h1]
      by_cases heq : o0 = o1
      · simp [heq]
      · cases o1 with
        | none => simp
        | some b =>
          have := (hgood id (hids id hid) o0 (some b) ho0 ho1 heq).2 b rfl
          have hh := depositAuthorised_of (s := s) (ids := ids) (st := stepInfo op true) (h := b)
            (by rw [hsig]; exact this)
          unfold observe at hh
          simp [hh]
    have hdel : (observe s1 ids).scopes.all (deleteOne (stepInfo op true)) = true := by
      simp only [observe, List.all_eq_true, List.mem_map]
      rintro o ⟨id, hid, rfl⟩
      cases op with
      | delete id0 sg =>
        by_cases hc : id0 = id
        · subst hc
          obtain ⟨h1, h2, h3⟩ := delete_burns hinv id0 sg hex
          obtain ⟨_, _, _, hnone⟩ := delete_step hinv hex
          have hhold := holdersOf_of_holderIs hnone
          simp [deleteOne, stepInfo, observeScope, h1, h2, hhold, holderList]
        · simp [deleteOne, stepInfo, observeScope, hc]
      | write _ _ _ _ _ => simp [deleteOne, stepInfo]
      | updvo _ _ _ => simp [deleteOne, stepInfo]
      | migrate _ _ _ => simp [deleteOne, stepInfo]
      | send _ _ _ => simp [deleteOne, stepInfo]
      | mwithdraw _ _ _ _ => simp [deleteOne, stepInfo]
      | msend _ _ => simp [deleteOne, stepInfo]
      | mtransfer _ _ _ _ => simp [deleteOne, stepInfo]
      | mkadd _ _ _ _ _ => simp [deleteOne, stepInfo]
      | fund _ _ _ => simp [deleteOne, stepInfo]
      | grant _ _ _ _ => simp [deleteOne, stepInfo]
      | revoke _ _ _ => simp [deleteOne, stepInfo]
      | access _ _ _ => simp [deleteOne, stepInfo]
      | mstatus _ _ => simp [deleteOne, stepInfo]
      | ask _ _ _ => simp [deleteOne, stepInfo]
      | fill _ _ _ => simp [deleteOne, stepInfo]
      | cancel _ _ => simp [deleteOne, stepInfo]
    have hgu : (observe s1 ids).scopes.all (grantUseOne (observe s ids) (stepInfo op true) (observe s1 ids)) = true := by
      simp only [observe, List.all_eq_true, List.mem_map]
      rintro o ⟨id, hid, rfl⟩
      obtain ⟨o0, ho0, _, _⟩ := observeScope_of_inv hinv id (hids id hid)
      obtain ⟨o1, ho1, h1, _⟩ := observeScope_of_inv hinv' id (hids id hid)
      have hpre := preHolder_observe hinv hid (hids id hid) ho0
      unfold observe at hpre
      have hid' : (observeScope s1 id).id = id := rfl
      unfold grantUseOne
      split
      · rename_i mt hkm
        simp only [hid', hpre, h1]
        by_cases heq : o0 = o1
        · simp [heq]
        · cases o0 with
          | none => simp
          | some a =>
            by_cases hsig : a ∈ (stepInfo op true).signers
            · simp [hsig]
            · cases hm : findMarker s a with
              | some m =>
                have hm' : s.markers.find? (fun m => m.addr = a) = some m := hm
                simp [hm']
              | none =>
                have hafter : ¬ HolderIs s1.ledger id (some a) := fun hh => heq (holderIs_unique hh ho1)
                obtain ⟨ge, hge, g, hl, hu⟩ := authz_consent_uses_grant hinv op mt hkm hex id (hids id hid) a ho0 hafter hsig hm
                simp only [Bool.or_eq_true]
                right; right
                simp only [grantsTo, List.any_eq_true, List.mem_filterMap]
                refine ⟨g, ⟨ge, hge, hl⟩, ?_⟩
                rcases hu with hu | hu <;> simp [hu]
      · rfl
    simp [hrej, hcons, hdep, hdel, hgu]

/-- **all_steps_ok**: along ANY operation sequence from any invariant state every single step passes
the property checker. -/
theorem all_steps_ok {s : State} (hinv : Inv s) (ops : List Op) (ids : List ScopeId)
    (hids : ∀ id ∈ ids, isScopeDenom id = true) :
    ∀ (pre : List Op) (op : Op) (post : List Op), ops = pre ++ op :: post →
      stepClause (observe (run s pre) ids)
        (stepInfo op (match exec (run s pre) op with | .ok _ => true | .error _ => false))
        (observe (applyOp (run s pre) op).1 ids) = none :=
  fun pre op _ _ => step_ok (run_inv hinv pre) op ids hids

/-- the scope ids the driver dumps are scope denoms -/
example : ∀ id ∈ ["s1", "s2", "s3", "s4"], isScopeDenom id = true := by decide

/-! ## Non-vacuity: each route really moves a token, and lack of consent really blocks it -/

section Examples

private def holder (s : State) (d : Denom) : Option (Option Addr) :=
  match denomOwner s.ledger d with
  | .ok o => some o
  | .error _ => none

/-- the owner signs -/
example : holder (run {} [.write "s1" [req "A"] false "C" ["A"], .updvo ["s1"] "D" ["C"]]) "s1" = some (some "D") := by decide
/-- a stranger signs: rejected, the owner keeps the token -/
example : holder (run {} [.write "s1" [req "A"] false "C" ["A"], .updvo ["s1"] "D" ["B"]]) "s1" = some (some "C") := by decide
/-- the scope's owners cannot move the value owner's token either -/
example : holder (run {} [.write "s1" [req "A"] false "C" ["A"], .write "s1" [req "A"] false "A" ["A"]]) "s1" = some (some "C") := by decide
/-- an authz grant from the owner to the signer for this message type -/
example : holder (run {} [.write "s1" [req "A"] false "C" ["A"], .grant "C" "B" .updvo 1, .updvo ["s1"] "D" ["B"]]) "s1"
    = some (some "D") := by decide
/-- … is single use when it is a count-1 authorization -/
example : holder (run {} [.write "s1" [req "A"] false "C" ["A"], .write "s2" [req "A"] false "C" ["A"], .grant "C" "B" .updvo 1,
    .updvo ["s1"] "D" ["B"], .updvo ["s2"] "D" ["B"]]) "s2" = some (some "C") := by decide
/-- … and does not carry over to another message type -/
example : holder (run {} [.write "s1" [req "A"] false "C" ["A"], .grant "C" "B" .migrate 0, .updvo ["s1"] "D" ["B"]]) "s1"
    = some (some "C") := by decide
/-- the owner's own bank transfer -/
example : holder (run {} [.write "s1" [req "A"] false "C" ["A"], .send "C" "D" ["s1"]]) "s1" = some (some "D") := by decide
/-- into a restricted marker only with deposit, out of a marker only with withdraw -/
example : holder (run {} [.write "s1" [req "A"] false "C" ["A"], .send "C" "MR" ["s1"]]) "s1" = some (some "C") := by decide
example : holder (run {} [.write "s1" [req "A"] false "C" ["A"], .access "MR" "C" [.deposit], .send "C" "MR" ["s1"]]) "s1"
    = some (some "MR") := by decide
example : holder (run {} [.write "s1" [req "A"] false "C" ["A"], .access "MR" "C" [.deposit], .send "C" "MR" ["s1"],
    .migrate "MR" "E" ["C"]]) "s1" = some (some "MR") := by decide
example : holder (run {} [.write "s1" [req "A"] false "C" ["A"], .access "MR" "C" [.deposit], .send "C" "MR" ["s1"],
    .access "MR" "B" [.withdraw], .migrate "MR" "E" ["B"]]) "s1" = some (some "E") := by decide
/-- the marker module's own MsgWithdraw is a fifth message that moves a marker-held token: same rule -/
example : holder (run {} [.write "s1" [req "A"] false "C" ["A"], .access "MR" "C" [.deposit], .send "C" "MR" ["s1"],
    .mwithdraw "MR" "C" "E" ["s1"]]) "s1" = some (some "MR") := by decide
example : holder (run {} [.write "s1" [req "A"] false "C" ["A"], .access "MR" "C" [.deposit, .withdraw], .send "C" "MR" ["s1"],
    .mwithdraw "MR" "C" "E" ["s1"]]) "s1" = some (some "E") := by decide
/-- a one-use grant is single use through MigrateValueOwner too -/
example : holder (run {} [.write "s1" [req "A"] false "C" ["A"], .grant "C" "B" .migrate 1, .migrate "C" "D" ["B"],
    .send "D" "C" ["s1"], .migrate "C" "D" ["B"]]) "s1" = some (some "C") := by decide
example : (run {} [.write "s1" [req "A"] false "C" ["A"], .grant "C" "B" .migrate 1, .migrate "C" "D" ["B"]]).grants = [] := by decide
/-- a two-use grant has one use left after the first message and is gone after the second -/
example : (run {} [.write "s1" [req "A"] false "C" ["A"], .write "s2" [req "A"] false "C" ["A"], .grant "C" "B" .updvo 2,
    .updvo ["s1"] "D" ["B"]]).grants = [⟨"C", "B", .updvo, 1⟩] := by decide
example : (run {} [.write "s1" [req "A"] false "C" ["A"], .write "s2" [req "A"] false "C" ["A"], .grant "C" "B" .updvo 2,
    .updvo ["s1"] "D" ["B"], .updvo ["s2"] "D" ["B"]]).grants = [] := by decide
/-! markers that are not active: a scope token leaves a cancelled / proposed / finalized / destroyed
marker under the same rule as an active one (a signer with withdraw permission) -/
example : holder (run {} [.write "s1" [req "A"] false "C" ["A"], .access "MR" "C" [.deposit], .send "C" "MR" ["s1"],
    .mstatus "MR" .cancelled, .migrate "MR" "E" ["D"]]) "s1" = some (some "MR") := by decide
example : holder (run {} [.write "s1" [req "A"] false "C" ["A"], .access "MR" "C" [.deposit], .send "C" "MR" ["s1"],
    .mstatus "MR" .cancelled, .updvo ["s1"] "E" ["A"]]) "s1" = some (some "MR") := by decide
example : holder (run {} [.write "s1" [req "A"] false "C" ["A"], .access "MR" "C" [.deposit], .send "C" "MR" ["s1"],
    .mstatus "MR" .cancelled, .write "s1" [req "A"] false "A" ["A"]]) "s1" = some (some "MR") := by decide
example : holder (run {} [.write "s1" [req "A"] false "C" ["A"], .access "MR" "C" [.deposit], .send "C" "MR" ["s1"],
    .mstatus "MR" .cancelled, .delete "s1" ["A"]]) "s1" = some (some "MR") := by decide
example : holder (run {} [.mstatus "MU" .proposed, .write "s1" [req "A"] false "MU" ["A"], .updvo ["s1"] "E" ["A"]]) "s1"
    = some (some "MU") := by decide
example : holder (run {} [.mstatus "MU" .proposed, .write "s1" [req "A"] false "MU" ["A"], .access "MU" "B" [.withdraw],
    .updvo ["s1"] "E" ["B"]]) "s1" = some (some "E") := by decide
/-- the marker module's own Withdraw message works on active markers only -/
example : (applyOp (run {} [.write "s1" [req "A"] false "C" ["A"], .access "MR" "C" [.deposit, .withdraw], .send "C" "MR" ["s1"],
    .mstatus "MR" .cancelled]) (.mwithdraw "MR" "C" "E" ["s1"])).2 = "err:status" := by decide

/-! `require_party_rollup` scopes with optional parties; the value owner may be one of them -/

/-- the required party alone cannot move the token of a value owner who is an optional party,
neither together with another change … -/
example : holder (run {} [.write "s1" [req "A", opt "B"] true "B" ["A"],
    .write "s1" [req "A", opt "B", opt "C"] true "A" ["A"]]) "s1" = some (some "B") := by decide
/-- … nor as the only change -/
example : holder (run {} [.write "s1" [req "A", opt "B"] true "B" ["A"],
    .write "s1" [req "A", opt "B"] true "A" ["A"]]) "s1" = some (some "B") := by decide
/-- with the optional party's signature it moves -/
example : holder (run {} [.write "s1" [req "A", opt "B"] true "B" ["A"],
    .write "s1" [req "A", opt "B", opt "C"] true "A" ["A", "B"]]) "s1" = some (some "A") := by decide
/-- … or with its authz grant to the signer (a count-1 grant serves both the party check and the
value-owner check of one message through the authz cache) -/
example : holder (run {} [.write "s1" [req "A", opt "B"] true "B" ["A"], .grant "B" "A" .write 1,
    .write "s1" [req "A", opt "B", opt "C"] true "A" ["A"]]) "s1" = some (some "A") := by decide
/-- the value owner alone changes only the value owner; a required party must sign anything else -/
example : holder (run {} [.write "s1" [req "A", opt "B"] true "B" ["A"],
    .write "s1" [req "A", opt "B"] true "D" ["B"]]) "s1" = some (some "D") := by decide
example : (run {} [.write "s1" [req "A", opt "B"] true "B" ["A"],
    .write "s1" [req "A", opt "C"] true "D" ["B"]]).scopes.map (·.owners) = [[req "A", opt "B"]] := by decide
/-- a scope whose parties are all optional still needs one of them for the role OWNER -/
example : (applyOp (run {} [.write "s1" [opt "A", opt "B"] true "C" ["A"]])
    (.write "s1" [opt "A"] true "" ["D"])).2 = "err:roles" := by decide
example : (run {} [.write "s1" [opt "A", opt "B"] true "C" ["A"], .grant "B" "D" .write 0,
    .write "s1" [opt "A"] true "" ["D"]]).scopes.map (·.owners) = [[opt "A"]] := by decide
/-- deleting a roll-up scope needs the value owner as well as the required parties -/
example : (run {} [.write "s1" [req "A", opt "B"] true "B" ["A"], .delete "s1" ["A"]]).ledger.supply "s1" = 1 := by decide
example : (run {} [.write "s1" [req "A", opt "B"] true "B" ["A"], .delete "s1" ["A", "B"]]).ledger.supply "s1" = 0 := by decide
/-- optional parties are only allowed with `require_party_rollup` -/
example : (applyOp {} (.write "s1" [req "A", opt "B"] false "B" ["A"])).2 = "err:invalid" := by decide
/-- delete burns; a contract as first signer hides the other signers -/
example : (run {} [.write "s1" [req "A"] false "C" ["A"], .delete "s1" ["A", "C"]]).ledger.supply "s1" = 0 := by decide
example : holder (run {} [.write "s1" [req "A"] false "C" ["A"], .updvo ["s1"] "D" ["K", "C"]]) "s1" = some (some "C") := by decide
/-! the exchange route: only the holder can offer the token; while it is on hold no other route
moves it (not the holder's own send, not a metadata message signed by the holder, not a delete);
a fill needs the order, the asked price and a buyer who can pay; a cancel by the seller frees it -/
example : (applyOp (run {} [.write "s1" [req "A"] false "C" ["A"]]) (.ask "B" "s1" 3)).2 = "err:funds" := by decide
example : (applyOp (run {} [.write "s1" [req "A"] false "C" ["A"], .ask "C" "s1" 3]) (.ask "C" "s1" 2)).2 = "err:funds" := by decide
example : (applyOp (run {} [.write "s1" [req "A"] false "C" ["A"], .ask "C" "s1" 3]) (.updvo ["s1"] "D" ["C"])).2 = "err:funds" := by decide
example : (applyOp (run {} [.write "s1" [req "A"] false "C" ["A"], .ask "C" "s1" 3]) (.delete "s1" ["A", "C"])).2 = "err:funds" := by decide
example : (applyOp (run {} [.write "s1" [req "A"] false "C" ["A"], .ask "C" "s1" 3]) (.msend "C" [("D", ["s1"])])).2 = "err:funds" := by decide
example : (applyOp (run {} [.write "s1" [req "A"] false "C" ["A"], .fund "B" "$c" 5]) (.fill "B" 1 3)).2 = "err:notfound" := by decide
example : (applyOp (run {} [.write "s1" [req "A"] false "C" ["A"], .ask "C" "s1" 3, .fund "B" "$c" 5]) (.fill "B" 1 2)).2 = "err:invalid" := by decide
example : (applyOp (run {} [.write "s1" [req "A"] false "C" ["A"], .ask "C" "s1" 3]) (.fill "B" 1 3)).2 = "err:funds" := by decide
example : (applyOp (run {} [.write "s1" [req "A"] false "C" ["A"], .ask "C" "s1" 3]) (.cancel "B" 1)).2 = "err:perm" := by decide
example : holder (run {} [.write "s1" [req "A"] false "C" ["A"], .ask "C" "s1" 3, .fund "B" "$c" 5, .fill "B" 1 3]) "s1"
    = some (some "B") := by decide
example : holder (run {} [.write "s1" [req "A"] false "C" ["A"], .ask "C" "s1" 3, .cancel "C" 1, .send "C" "D" ["s1"]]) "s1"
    = some (some "D") := by decide
/-- `Inv` is not vacuous: a state with a live token satisfies it -/
example : Inv (run {} [.write "s1" [req "A"] false "C" ["A"]]) := run_inv inv_init _

end Examples

end PvProofs.C09
