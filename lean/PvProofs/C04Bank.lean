/-
C04 — the MOVEMENTS: how the bank keeper's SendCoins / InputOutputCoinsProv / DelegateCoins use the
marker send restriction (`PvModel.MkrBank`, mirroring the forked SDK's x/bank keeper) and what that
means for balances (`PvModel.Ledger`).

Property theorems only (helpers: `PvProofs/Lemmas/MkrBank.lean`).  All theorems are for every world
(account/attribute stores, context flags, locked amounts, any composition of later restrictions such as
sanction and quarantine — `w.later`), every ledger, every sender/receiver, every coin list (valid or
not), every list of inputs and outputs.
-/
import PvProofs.C04
import PvProofs.Lemmas.MkrBank
import PvProofs.Lemmas.MkrBankMerge
import PvModel.MkrSendDriver

namespace PvProofs.C04
open PvModel PvModel.MkrSend PvModel.MkrSend.Bank PvProofs.MkrBankLemmas

/-! ### sdk.Coins validity: why unsorted / duplicate-denom / non-positive coin lists never reach the restriction -/

/-- `sdk.Coins.IsValid` (denom syntax aside) is exactly: denoms strictly ascending (hence no duplicates)
and every amount positive. -/
theorem coins_valid_iff (amt : Coins) :
    isValid amt = true ↔ Spec.DenomsAscending amt ∧ ∀ c ∈ amt, 0 < c.2 := isValid_iff amt

/-- **SendCoins, closed form**: invalid coins → ErrInvalidCoins; else insufficient spendable funds →
ErrInsufficientFunds; else the marker restriction's refusal; else a later restriction's refusal; else the
coins go from the sender to the receiver the restrictions returned. -/
theorem sendCoins_eq (w : World) (l : Ledger) (f t : Addr) (amt : Coins) :
    sendCoins w l f t amt =
      if isValid amt then
        if fundsSuffice w l f amt then
          match MkrSend.decide (pairCfg w.env f t) amt with
          | .error r => .error (.denied r)
          | .ok _ =>
            match w.later f t amt with
            | none => .error .later
            | some t' => .ok ((l.debit f amt).credit t' amt)
        else .error .funds
      else .error .invalid := by
  unfold sendCoins
  rw [subUnlockedCoins_eq]
  by_cases hv : isValid amt = true
  · by_cases hf : fundsSuffice w l f amt = true
    · simp only [hv, hf, if_true, applyRestriction]
      cases MkrSend.decide (pairCfg w.env f t) amt with
      | error r => rfl
      | ok u =>
        cases w.later f t amt with
        | none => rfl
        | some t' => simp [addCoins, hv]
    · simp [hv, hf]
  · simp [hv]

/-- **A send succeeds iff the coins are valid, the funds suffice, `decide = allow`** (and the
restrictions after the marker's let it through); then exactly the amount moves to the receiver they
name. -/
theorem sendCoins_ok_iff (w : World) (l l' : Ledger) (f t : Addr) (amt : Coins) :
    sendCoins w l f t amt = .ok l' ↔
      isValid amt = true ∧ fundsSuffice w l f amt = true ∧
      MkrSend.decide (pairCfg w.env f t) amt = allow ∧
      ∃ t', w.later f t amt = some t' ∧ l' = (l.debit f amt).credit t' amt := by
  rw [sendCoins_eq]
  by_cases hv : isValid amt = true
  · by_cases hf : fundsSuffice w l f amt = true
    · simp only [hv, hf, if_true, true_and]
      cases hd : MkrSend.decide (pairCfg w.env f t) amt with
      | error r => simp [allow]
      | ok u =>
        cases hl : w.later f t amt with
        | none => simp
        | some t' =>
          simp only [allow, true_and, Option.some.injEq, exists_eq_left', Except.ok.injEq]
          exact eq_comm
    · simp [hv, hf]
  · simp [hv]

/-- With no further restriction (`noLater`; in the app: neither end sanctioned, receiver not
quarantining): **a send of valid, funded coins succeeds exactly when the documented rules permit the
movement**, and then the ledger is the old one with the amount moved from sender to receiver. -/
theorem sendCoins_ok_iff_rules_permit (w : World) (hl : w.later = noLater) (l l' : Ledger) (f t : Addr)
    (amt : Coins) :
    sendCoins w l f t amt = .ok l' ↔
      isValid amt = true ∧ fundsSuffice w l f amt = true ∧
      Spec.permitted (pairCfg w.env f t) amt = true ∧ l' = l.move f t amt := by
  rw [sendCoins_ok_iff, hl]
  constructor
  · rintro ⟨hv, hf, hd, t', ht', rfl⟩
    cases ht'
    exact ⟨hv, hf, (permitted_iff_rules_permit _ _ (isValid_imp amt hv).1).mp hd, rfl⟩
  · rintro ⟨hv, hf, hp, rfl⟩
    exact ⟨hv, hf, (permitted_iff_rules_permit _ _ (isValid_imp amt hv).1).mpr hp, t, rfl, rfl⟩

/-- **An allowed send moves exactly the amount**: the sender loses it, the receiver (as named by the
restrictions) gains it, nobody else's balance changes, total supply is unchanged. -/
theorem sendCoins_moves_exactly (w : World) (l l' : Ledger) (f t : Addr) (amt : Coins)
    (h : sendCoins w l f t amt = .ok l') :
    ∃ t', w.later f t amt = some t' ∧
      (∀ a d, l'.bal a d = l.bal a d - (if f = a then Coins.amountOf amt d else 0)
                              + (if t' = a then Coins.amountOf amt d else 0)) ∧
      ∀ d, l'.supply d = l.supply d := by
  obtain ⟨_, _, _, t', ht', rfl⟩ := (sendCoins_ok_iff w l l' f t amt).mp h
  refine ⟨t', ht', fun a d => ?_, fun d => ?_⟩
  · simp
  · simp

/-- **A denied movement leaves the ledger unchanged** (the caller's cache context drops whatever the
keeper wrote before the refusal) — for any reason of failure, in particular whenever `decide ≠ allow`. -/
theorem denied_send_leaves_ledger_unchanged (w : World) (l : Ledger) (f t : Addr) (amt : Coins)
    (hd : MkrSend.decide (pairCfg w.env f t) amt ≠ allow) :
    commit l (sendCoins w l f t amt) = l ∧ ∃ e, sendCoins w l f t amt = .error e := by
  cases h : sendCoins w l f t amt with
  | error e => exact ⟨rfl, e, rfl⟩
  | ok l' => exact absurd ((sendCoins_ok_iff w l l' f t amt).mp h).2.2.1 hd

/-- … and that cache context is needed: `SendCoins` itself has already debited the sender when the
restriction refuses (send.go:313 before :318) — without the caller discarding the context the refusal
would burn the coins. -/
theorem sendCoinsRaw_denied_has_debited_sender (w : World) (l : Ledger) (f t : Addr) (amt : Coins) (r : Reason)
    (hv : isValid amt = true) (hf : fundsSuffice w l f amt = true)
    (hd : MkrSend.decide (pairCfg w.env f t) amt = deny r) :
    sendCoinsRaw w l f t amt = (l.debit f amt, some (.denied r)) := by
  unfold sendCoinsRaw
  rw [subUnlockedCoins_eq]
  simp [hv, hf, applyRestriction, hd, deny]

/-- **Invalid coin lists never reach the restriction**: an unsorted list, a repeated denom, a zero or
negative amount make `SendCoins` fail with ErrInvalidCoins before `SendRestrictionFn` is called, whatever
it would have said.  (This is why the theorems about `decide` may assume `DenomsAscending`.) -/
theorem invalid_coins_rejected_before_restriction (w : World) (l : Ledger) (f t : Addr) (amt : Coins)
    (hv : isValid amt = false) :
    sendCoins w l f t amt = .error .invalid ∧
    delegateCoins w l f t amt ≠ .ok (l.move f t amt) ∧
    ∀ outs, inputOutputCoinsProv w l [⟨f, amt⟩] outs ≠ .ok (l.move f t amt) ∧
      (∀ l', inputOutputCoinsProv w l [⟨f, amt⟩] outs ≠ .ok l') := by
  have hio : ∀ outs l', inputOutputCoinsProv w l [⟨f, amt⟩] outs ≠ .ok l' := by
    intro outs l'
    unfold inputOutputCoinsProv validateInputsOutputs
    simp only [List.isEmpty_cons, Bool.false_eq_true, if_false, List.all_cons, ioValid, hv, Bool.false_and,
      Bool.not_false, if_true]
    split_ifs <;> simp
  refine ⟨by rw [sendCoins_eq]; simp [hv], ?_, fun outs => ⟨hio outs _, hio outs⟩⟩
  unfold delegateCoins
  rw [subUnlockedCoins_eq]
  split_ifs <;> simp_all

/-- What an invalid list WOULD do to the restriction (an input no bank route can deliver): an unsorted
list hides the sender marker's own denom from `sdk.Coins.Find` (binary search), so the "marker not active
keeps its own coins" check (:61-67) is skipped; the movement is still refused — by the per-denom status
check, because the marker of that denom is the sender itself — but by ANOTHER check than the documented
flowchart names (so `decide_eq_spec` needs `DenomsAscending`; `permitted_iff_rules_permit` fails only
for configurations where the sender marker does not sit at its own denom's marker address). -/
def unsortedCfg : Cfg :=
  { bypass := false, feeGrant := false, fromAddr := "mk:dnc", toAddr := "B", agents := ["G"],
    acct := fun a => if a = "mk:dnc" then
        .marker { denom := "dnc", mtype := .coin, status := .finalized, access := [⟨"G", [.withdraw]⟩],
                  reqAttrs := [], deny := [] }
      else .none,
    markerAddr := fun d => "mk:" ++ d, attrs := fun _ => [],
    markerModuleAddr := "mod:marker", ibcTransferModuleAddr := "mod:transfer", feeCollectorAddr := "fc",
    reqAttrBypass := Spec.bypassAccounts }

theorem find_unsorted_misses : find [("dnc", (1 : Int)), ("dna", 7)] "dnc" = none := by
  rw [find]; simp [find]

theorem find_sorted_hits : find [("dna", (7 : Int)), ("dnc", 1)] "dnc" = some 1 := by
  rw [find]; simp

theorem find_duplicate_sees_zero : find [("dnc", (1 : Int)), ("dnc", 0)] "dnc" = some 0 := by
  rw [find]; simp

theorem unsorted_coins_would_change_the_refusing_check :
    isValid [("dnc", (1 : Int)), ("dna", 7)] = false ∧
    MkrSend.decide unsortedCfg [("dnc", 1), ("dna", 7)] = deny .status ∧
    Spec.sendRestrictionFn unsortedCfg [("dnc", 1), ("dna", 7)] = .denied .issma ∧
    MkrSend.decide unsortedCfg [("dna", 7), ("dnc", 1)] = deny .fromStatus ∧
    (∀ w l, sendCoins w l "mk:dnc" "B" [("dnc", 1), ("dna", 7)] = .error .invalid) := by
  refine ⟨by decide, ?_, by decide, ?_,
    fun w l => (invalid_coins_rejected_before_restriction w l _ _ _ (by decide)).1⟩
  · simp [MkrSend.decide, sendRestrictionFn, onBypassPath, unsortedCfg, checkFromMarker, getMarkerIgnoreErr,
      getMarker, checkWithdraw, validateAtLeastOneAddrHasAccess, Marker.hasAccess, Grant.hasAccess,
      checkOwnDenom, find_unsorted_misses, checkToMarker, forCoins, validateSendDenom, validateSendDenomMarker,
      allow, deny]
  · simp [MkrSend.decide, sendRestrictionFn, onBypassPath, unsortedCfg, checkFromMarker, getMarkerIgnoreErr,
      getMarker, checkWithdraw, validateAtLeastOneAddrHasAccess, Marker.hasAccess, Grant.hasAccess,
      checkOwnDenom, find_sorted_hits, allow, deny]

/-- A repeated denom: `amountOf` sees 1 + 0 of the marker's own denom, `Find` sees the zero entry. -/
theorem duplicate_denom_would_change_the_refusing_check :
    isValid [("dnc", (1 : Int)), ("dnc", 0)] = false ∧
    MkrSend.decide unsortedCfg [("dnc", 1), ("dnc", 0)] = deny .status ∧
    Spec.sendRestrictionFn unsortedCfg [("dnc", 1), ("dnc", 0)] = .denied .issma := by
  refine ⟨by decide, ?_, by decide⟩
  simp [MkrSend.decide, sendRestrictionFn, onBypassPath, unsortedCfg, checkFromMarker, getMarkerIgnoreErr,
    getMarker, checkWithdraw, validateAtLeastOneAddrHasAccess, Marker.hasAccess, Grant.hasAccess,
    checkOwnDenom, find_duplicate_sees_zero, checkToMarker, forCoins, validateSendDenom, validateSendDenomMarker,
    allow, deny]

/-! ### DelegateCoins -/

/-- **DelegateCoins** is wired like SendCoins (same checks, same restriction, on the same pair), except
that the coins always go to the module account itself. -/
theorem delegateCoins_ok_iff (w : World) (l l' : Ledger) (dlg modAcc : Addr) (amt : Coins) :
    delegateCoins w l dlg modAcc amt = .ok l' ↔
      w.hasAccount modAcc = true ∧ isValid amt = true ∧ fundsSuffice w l dlg amt = true ∧
      MkrSend.decide (pairCfg w.env dlg modAcc) amt = allow ∧ (w.later dlg modAcc amt).isSome = true ∧
      l' = l.move dlg modAcc amt := by
  unfold delegateCoins
  rw [subUnlockedCoins_eq]
  by_cases ha : w.hasAccount modAcc = true
  · by_cases hv : isValid amt = true
    · by_cases hf : fundsSuffice w l dlg amt = true
      · simp only [ha, hv, hf, Bool.not_true, Bool.false_eq_true, if_false, if_true, applyRestriction, true_and]
        cases hd : MkrSend.decide (pairCfg w.env dlg modAcc) amt with
        | error r => simp [allow]
        | ok u =>
          cases hl : w.later dlg modAcc amt with
          | none => simp
          | some t' => simp [addCoins, hv, allow, Ledger.move, eq_comm]
      · simp [ha, hv, hf]
    · simp [ha, hv]
  · simp [ha]

/-! ### InputOutputCoinsProv (multi-send; settlements with several payers) -/

/-- **A multi-send succeeds iff every (input, output) pair is allowed** (and: there are inputs and
outputs, not several of both, all coin lists valid and non-empty, totals equal, every paying address can
spend the sum of its inputs, later restrictions let every pair through); the receivers are then
credited with the coins of their pairs, on top of the debited ledger. -/
theorem inputOutputCoinsProv_ok_iff (w : World) (l l' : Ledger) (ins outs : List IO) :
    inputOutputCoinsProv w l ins outs = .ok l' ↔
      ins ≠ [] ∧ outs ≠ [] ∧ (ins.length ≤ 1 ∨ outs.length ≤ 1) ∧
      validateInputsOutputs ins outs = .ok () ∧
      ∃ l1, debitPhase w l ins = .ok l1 ∧
        (∀ p ∈ pairs ins outs,
          MkrSend.decide (pairCfg w.env p.1 p.2.1) p.2.2 = allow ∧ (w.later p.1 p.2.1 p.2.2).isSome = true) ∧
        l' = creditAll l1 ((pairs ins outs).map (resolved w)) := by
  unfold inputOutputCoinsProv
  by_cases hi : ins = []
  · simp [hi]
  by_cases ho : outs = []
  · simp [hi, ho]
  by_cases hm : ins.length ≤ 1 ∨ outs.length ≤ 1
  · have hm' : ¬ (1 < ins.length ∧ 1 < outs.length) := by omega
    simp only [List.isEmpty_iff, hi, ho, if_false, gt_iff_lt, Bool.and_eq_true, decide_eq_true_eq, hm',
      ne_eq, not_false_eq_true, true_and, hm]
    cases hvio : validateInputsOutputs ins outs with
    | error e => simp
    | ok u =>
      cases hdp : debitPhase w l ins with
      | error e => simp
      | ok l1 =>
        cases hr : restrictAll w (pairs ins outs) with
        | error e =>
          simp only [reduceCtorEq, true_and, Except.ok.injEq, exists_eq_left', false_iff, not_and]
          intro hall _
          have := (restrictAll_ok_iff w (pairs ins outs) _).mpr ⟨hall, rfl⟩
          rw [hr] at this; cases this
        | ok credits =>
          obtain ⟨hall, hc⟩ := (restrictAll_ok_iff w (pairs ins outs) credits).mp hr
          simp only [true_and, Except.ok.injEq, exists_eq_left']
          constructor
          · intro h; exact ⟨hall, by rw [← h, hc]⟩
          · rintro ⟨_, h⟩; rw [h, hc]
  · have hm' : 1 < ins.length ∧ 1 < outs.length := by omega
    simp [hi, ho, hm, hm']

/-- The multi-send clause by itself: once the shape and the funds are fine, success is **exactly**
"every pair is allowed" (one refused pair refuses the whole multi-send). -/
theorem multiSend_succeeds_iff_every_pair_allowed (w : World) (l l1 : Ledger) (ins outs : List IO)
    (hi : ins ≠ []) (ho : outs ≠ []) (hm : ins.length ≤ 1 ∨ outs.length ≤ 1)
    (hv : validateInputsOutputs ins outs = .ok ()) (hd : debitPhase w l ins = .ok l1) :
    (∃ l', inputOutputCoinsProv w l ins outs = .ok l') ↔
      ∀ p ∈ pairs ins outs,
        MkrSend.decide (pairCfg w.env p.1 p.2.1) p.2.2 = allow ∧ (w.later p.1 p.2.1 p.2.2).isSome = true := by
  constructor
  · rintro ⟨l', h⟩
    obtain ⟨_, _, _, _, l1', hd', hall, _⟩ := (inputOutputCoinsProv_ok_iff w l l' ins outs).mp h
    exact hall
  · intro hall
    exact ⟨_, (inputOutputCoinsProv_ok_iff w l _ ins outs).mpr ⟨hi, ho, hm, hv, l1, hd, hall, rfl⟩⟩

/-- Every pair the restriction is asked about carries the coin list of one input or one output, which
`ValidateInputsOutputs` has found valid. -/
theorem pairs_coins_valid (ins outs : List IO) (hv : validateInputsOutputs ins outs = .ok ())
    (p : Addr × Addr × Coins) (hp : p ∈ pairs ins outs) : isValid p.2.2 = true := by
  have hall : (∀ i ∈ ins, ioValid i = true) ∧ (∀ o ∈ outs, ioValid o = true) := by
    unfold validateInputsOutputs at hv
    by_cases h : (ins.all ioValid && outs.all ioValid) = true
    · simpa [List.all_eq_true] using h
    · simp [h] at hv
  have hio : ∀ x : IO, ioValid x = true → isValid x.coins = true := by
    intro x hx; unfold ioValid at hx; simp only [Bool.and_eq_true] at hx; exact hx.1
  unfold pairs at hp
  split at hp
  · obtain ⟨o, ho, rfl⟩ := List.mem_map.mp hp
    exact hio o (hall.2 o ho)
  · obtain ⟨i, hi, rfl⟩ := List.mem_map.mp hp
    exact hio i (hall.1 i hi)
  · cases hp

/-- … so, with no further restriction, **a multi-send succeeds exactly when the documented rules permit
every pair**. -/
theorem multiSend_succeeds_iff_rules_permit_every_pair (w : World) (hl : w.later = noLater) (l l1 : Ledger)
    (ins outs : List IO) (hi : ins ≠ []) (ho : outs ≠ []) (hm : ins.length ≤ 1 ∨ outs.length ≤ 1)
    (hv : validateInputsOutputs ins outs = .ok ()) (hd : debitPhase w l ins = .ok l1) :
    (∃ l', inputOutputCoinsProv w l ins outs = .ok l') ↔
      ∀ p ∈ pairs ins outs, Spec.permitted (pairCfg w.env p.1 p.2.1) p.2.2 = true := by
  rw [multiSend_succeeds_iff_every_pair_allowed w l l1 ins outs hi ho hm hv hd]
  refine forall_congr' fun p => forall_congr' fun hp => ?_
  have hs := (isValid_imp _ (pairs_coins_valid ins outs hv p hp)).1
  rw [permitted_iff_rules_permit _ _ hs, hl]
  simp [noLater]

/-- **An allowed multi-send moves exactly the amounts**: every address loses the sum of its inputs and
gains the coins of the pairs whose (restriction-returned) receiver it is; nothing else changes. -/
theorem multiSend_moves_exactly (w : World) (l l' : Ledger) (ins outs : List IO)
    (h : inputOutputCoinsProv w l ins outs = .ok l') (a : Addr) (d : Denom) :
    l'.bal a d = l.bal a d - inTotal ins a d + creditTotal ((pairs ins outs).map (resolved w)) a d := by
  obtain ⟨_, _, _, _, l1, hd, _, rfl⟩ := (inputOutputCoinsProv_ok_iff w l l' ins outs).mp h
  rw [bal_creditAll, bal_debitPhase w l l1 ins hd]

/-- **A multi-send with one refused pair changes nothing.** -/
theorem denied_multiSend_leaves_ledger_unchanged (w : World) (l : Ledger) (ins outs : List IO)
    (p : Addr × Addr × Coins) (hp : p ∈ pairs ins outs)
    (hd : MkrSend.decide (pairCfg w.env p.1 p.2.1) p.2.2 ≠ allow) :
    commit l (inputOutputCoinsProv w l ins outs) = l ∧ ∃ e, inputOutputCoinsProv w l ins outs = .error e := by
  cases h : inputOutputCoinsProv w l ins outs with
  | error e => exact ⟨rfl, e, rfl⟩
  | ok l' =>
    obtain ⟨_, _, _, _, _, _, hall, _⟩ := (inputOutputCoinsProv_ok_iff w l l' ins outs).mp h
    exact absurd (hall p hp).1 hd


/-! ### The two representation choices of the multi-send model are harmless

`debitPhase` debits each paying address with the UNMERGED concatenation of its inputs and `creditAll`
credits the receivers pair by pair; the Go code keeps one merged `sdk.Coins` (`Coins.Add`: sorted, one entry
per denom) per address in order of first appearance, debits it through `subUnlockedCoins` (validity test +
coin loop) and credits it through `addCoins` (validity test again).  `inputOutputCoinsProvMerged` follows
that text; the theorems below show both give the same error or ledgers with the same balances and supply —
for every world, ledger and list of inputs/outputs. -/

/-- Two ledgers that mean the same: every balance and every supply agree. -/
def SameBalances (l1 l2 : Ledger) : Prop :=
  (∀ a d, l1.bal a d = l2.bal a d) ∧ ∀ d, l1.supply d = l2.supply d

/-- The same error, or ledgers that mean the same. -/
def SameOutcome : Except Err Ledger → Except Err Ledger → Prop
  | .error e, .error e' => e = e'
  | .ok l1, .ok l2 => SameBalances l1 l2
  | _, _ => False

/-- `sdk.Coins.Add` keeps every denom's amount and, on positive coins, yields a valid `sdk.Coins`
(so the second `IsValid` test inside `subUnlockedCoins`/`addCoins` on the merged amount never fires). -/
theorem coinsAdd_valid_same_amounts (amt coins : Coins) (h1 : isValid amt = true) (h2 : isValid coins = true) :
    isValid (coinsAdd amt coins) = true ∧
    ∀ d, Coins.amountOf (coinsAdd amt coins) d = Coins.amountOf amt d + Coins.amountOf coins d := by
  refine ⟨isValid_canon _ (allPos_append (allPos_of_isValid h1) (allPos_of_isValid h2)), fun d => ?_⟩
  simp [coinsAdd, amountOf_canon]

/-- **Shortcut 1 (unmerged concatenation for the merged coins) is harmless**: debiting each paying address
once with its merged `sdk.Coins` through `subUnlockedCoins`, in order of first appearance, fails exactly
when the model's debit phase fails (with the same error) and otherwise leaves the same balances. -/
theorem debitPhase_merged_same (w : World) (l : Ledger) (ins : List IO)
    (hv : ∀ i ∈ ins, isValid i.coins = true) :
    SameOutcome (debitMerged w l (mergeAmounts (ins.map fun i => (i.addr, i.coins)))) (debitPhase w l ins) := by
  have hpos : ∀ i ∈ ins, AllPos i.coins := fun i hi => allPos_of_isValid (hv i hi)
  have hx : ∀ p ∈ inPairs ins, AllPos p.2 := by
    intro p hp
    obtain ⟨i, hi, rfl⟩ := List.mem_map.mp hp
    exact hpos i hi
  obtain ⟨hn, hvm, _, ht, hs⟩ := mergeAmounts_spec (inPairs ins) hx
  have hiff := debitPhaseAux_ok_iff w ins.length ins l (Nat.le_refl _)
  have hfund := merged_funded_iff w l ins hpos
  show SameOutcome (debitMerged w l (mergeAmounts (inPairs ins))) (debitPhase w l ins)
  rcases debitMerged_spec w (mergeAmounts (inPairs ins)) l hn hvm with ⟨he, hnot⟩ | ⟨l', hok, hall, hbal, hsup⟩
  · rw [he]
    cases hm : debitPhase w l ins with
    | error e =>
      have := debitPhaseAux_err w ins.length ins l e hm
      subst this
      rfl
    | ok l1 => exact absurd (hfund.mpr (hiff.mp ⟨l1, hm⟩)) hnot
  · rw [hok]
    obtain ⟨l1, hm⟩ := hiff.mpr (hfund.mp hall)
    have hm' : debitPhase w l ins = .ok l1 := hm
    rw [hm']
    refine ⟨fun a d => ?_, fun d => ?_⟩
    · rw [hbal a d, bal_debitPhase w l l1 ins hm a d, ht, creditTotal_inPairs]
    · rw [hsup d, supply_debitPhaseAux w ins.length ins l l1 (Nat.le_refl _) hm d, hs, allCoins_inPairs]

/-- **Shortcut 2 (receivers credited pair by pair) is harmless**: crediting each returned receiver once
with its merged `sdk.Coins` through `addCoins` always succeeds (the merged amounts are valid) and gives
the balances of crediting pair by pair. -/
theorem creditAll_merged_same (l1 l2 : Ledger) (h : SameBalances l1 l2) (credits : List (Addr × Coins))
    (hv : ∀ p ∈ credits, isValid p.2 = true) :
    ∃ l', creditMerged l1 (mergeAmounts credits) = .ok l' ∧ SameBalances l' (creditAll l2 credits) := by
  obtain ⟨_, hvm, _, ht, hs⟩ := mergeAmounts_spec credits fun p hp => allPos_of_isValid (hv p hp)
  obtain ⟨l', hok, hbal, hsup⟩ := creditMerged_spec (mergeAmounts credits) l1 hvm
  refine ⟨l', hok, fun a d => ?_, fun d => ?_⟩
  · rw [hbal a d, bal_creditAll, ht, h.1]
  · rw [hsup d, supply_creditAll, hs, h.2]
    rfl

/-- **InputOutputCoinsProv with the merged maps, as written, and the model agree** on every call: the
same error, or ledgers with the same balances and supply. -/
theorem inputOutputCoinsProv_merged_same (w : World) (l : Ledger) (ins outs : List IO) :
    SameOutcome (inputOutputCoinsProvMerged w l ins outs) (inputOutputCoinsProv w l ins outs) := by
  unfold inputOutputCoinsProvMerged inputOutputCoinsProv
  by_cases hi : ins.isEmpty = true
  · simp only [hi, if_true]; rfl
  by_cases ho : outs.isEmpty = true
  · simp only [hi, ho, if_true, Bool.false_eq_true, if_false]; rfl
  by_cases hm : (Decidable.decide (ins.length > 1) && Decidable.decide (outs.length > 1)) = true
  · simp only [hi, ho, hm, if_true, Bool.false_eq_true, if_false]; rfl
  simp only [hi, ho, hm, Bool.false_eq_true, if_false]
  cases hvio : validateInputsOutputs ins outs with
  | error e => rfl
  | ok u =>
    have hvi : ∀ i ∈ ins, isValid i.coins = true := by
      intro i hi'
      unfold validateInputsOutputs at hvio
      by_cases h : (ins.all ioValid && outs.all ioValid) = true
      · simp only [Bool.and_eq_true, List.all_eq_true] at h
        have := h.1 i hi'
        unfold ioValid at this
        simp only [Bool.and_eq_true] at this
        exact this.1
      · simp [h] at hvio
    have hd := debitPhase_merged_same w l ins hvi
    cases hgo : debitMerged w l (mergeAmounts (ins.map fun i => (i.addr, i.coins))) with
    | error e =>
      cases hmo : debitPhase w l ins with
      | error e' => rw [hgo, hmo] at hd; exact hd
      | ok l2 => rw [hgo, hmo] at hd; exact hd.elim
    | ok l1 =>
      cases hmo : debitPhase w l ins with
      | error e' => rw [hgo, hmo] at hd; exact hd.elim
      | ok l2 =>
        rw [hgo, hmo] at hd
        cases hr : restrictAll w (pairs ins outs) with
        | error e => rfl
        | ok credits =>
          obtain ⟨_, hc⟩ := (restrictAll_ok_iff w (pairs ins outs) credits).mp hr
          have hcv : ∀ p ∈ credits, isValid p.2 = true := by
            intro p hp
            rw [hc] at hp
            obtain ⟨q, hq, rfl⟩ := List.mem_map.mp hp
            exact pairs_coins_valid ins outs hvio q hq
          obtain ⟨l', hok, hsame⟩ := creditAll_merged_same l1 l2 hd credits hcv
          show SameOutcome (creditMerged l1 (mergeAmounts credits)) (.ok (creditAll l2 credits))
          rw [hok]
          exact hsame

/-- … hence everything proved about the model's multi-send holds of the merged form: it succeeds exactly
when the model does, and then every balance is the model's. -/
theorem inputOutputCoinsProvMerged_ok_iff (w : World) (l : Ledger) (ins outs : List IO) :
    (∃ l', inputOutputCoinsProvMerged w l ins outs = .ok l') ↔ ∃ l'', inputOutputCoinsProv w l ins outs = .ok l'' := by
  have h := inputOutputCoinsProv_merged_same w l ins outs
  cases h1 : inputOutputCoinsProvMerged w l ins outs with
  | error e =>
    cases h2 : inputOutputCoinsProv w l ins outs with
    | error e' => simp
    | ok l2 => rw [h1, h2] at h; exact h.elim
  | ok l1 =>
    cases h2 : inputOutputCoinsProv w l ins outs with
    | error e' => rw [h1, h2] at h; exact h.elim
    | ok l2 => simp

theorem multiSendMerged_moves_exactly (w : World) (l l' : Ledger) (ins outs : List IO)
    (h : inputOutputCoinsProvMerged w l ins outs = .ok l') (a : Addr) (d : Denom) :
    l'.bal a d = l.bal a d - inTotal ins a d + creditTotal ((pairs ins outs).map (resolved w)) a d := by
  have hs := inputOutputCoinsProv_merged_same w l ins outs
  rw [h] at hs
  cases h2 : inputOutputCoinsProv w l ins outs with
  | error e => rw [h2] at hs; exact hs.elim
  | ok l2 =>
    rw [h2] at hs
    rw [hs.1 a d]
    exact multiSend_moves_exactly w l l2 ins outs h2 a d

/-! ### The driver's configurations -/

/-- Every configuration the correspondence driver parses (`send` and `bank` lines alike) carries the
fixed bypass set; the `bypasslist` line compares the set of the real app with the same list. -/
theorem parseCase_uses_fixed_bypass_set (ws : List String) (c : Case) (h : parseCase ws = some c) :
    AppBypassSet c.cfg := by
  unfold parseCase at h
  simp only [Option.bind_eq_bind, Option.bind_eq_some_iff, Option.pure_def, Option.some.injEq] at h
  obtain ⟨_, _, _, _, _, _, _, _, _, _, _, _, rfl⟩ := h
  rfl

/-! ### Non-vacuity: concrete worlds meeting the hypotheses above -/

/-- stores of `exCfg`; sender `A` holds transfer+deposit on the restricted marker `rs`; `C` holds nothing -/
def exWorld : World :=
  { env := exCfg "" "" [] [], locked := fun a d => if a = "A" ∧ d = "usd" then 4 else 0,
    later := noLater, hasAccount := fun _ => true }

def exLedger : Ledger := Ledger.credit (Ledger.credit [] "A" [("rs", 10), ("usd", 9)]) "C" [("rs", 5)]

/-- sendCoins_ok_iff / sendCoins_ok_iff_rules_permit / sendCoins_moves_exactly: a valid, funded (5 ≤ 9 − 4
unlocked usd), permitted send. -/
example : isValid [("rs", (3 : Int)), ("usd", 5)] = true ∧
    fundsSuffice exWorld exLedger "A" [("rs", 3), ("usd", 5)] = true ∧
    Spec.permitted (pairCfg exWorld.env "A" "B") [("rs", 3), ("usd", 5)] = true ∧
    fundsSuffice exWorld exLedger "A" [("rs", 3), ("usd", 6)] = false :=
  ⟨by decide, by decide, by decide, by decide⟩

/-- denied_send_leaves_ledger_unchanged / sendCoinsRaw_denied_has_debited_sender: `C` has the funds but
no transfer right and `B` lacks the required attribute. -/
example : isValid [("rs", (3 : Int))] = true ∧ fundsSuffice exWorld exLedger "C" [("rs", 3)] = true ∧
    MkrSend.decide (pairCfg exWorld.env "C" "B") [("rs", 3)] = deny .attrs :=
  ⟨by decide, by decide, by rfl⟩

/-- multiSend_…: one input, two outputs; shape, validation and funds hold; the pair (A → B) is allowed,
the pair (A → fc) is refused, so the whole multi-send is. -/
example :
    let ins : List IO := [⟨"A", [("rs", 3)]⟩]
    let outs : List IO := [⟨"B", [("rs", 2)]⟩, ⟨"fc", [("rs", 1)]⟩]
    validateInputsOutputs ins outs = .ok () ∧
    (∃ l1, debitPhase exWorld exLedger ins = .ok l1) ∧
    pairs ins outs = [("A", "B", [("rs", 2)]), ("A", "fc", [("rs", 1)])] ∧
    MkrSend.decide (pairCfg exWorld.env "A" "B") [("rs", 2)] = allow ∧
    MkrSend.decide (pairCfg exWorld.env "A" "fc") [("rs", 1)] = deny .fc := by
  refine ⟨by rfl, ⟨_, by rfl⟩, rfl, by rfl, by rfl⟩

/-- … and several inputs towards one output (a settlement with two payers), every pair allowed. -/
example :
    let ins : List IO := [⟨"A", [("rs", 3)]⟩, ⟨"A", [("usd", 1)]⟩]
    let outs : List IO := [⟨"B", [("rs", 3), ("usd", 1)]⟩]
    validateInputsOutputs ins outs = .ok () ∧
    pairs ins outs = [("A", "B", [("rs", 3)]), ("A", "B", [("usd", 1)])] ∧
    (∀ p ∈ pairs ins outs, MkrSend.decide (pairCfg exWorld.env p.1 p.2.1) p.2.2 = allow) := by
  refine ⟨by rfl, rfl, ?_⟩
  intro p hp
  simp only [pairs, List.map_cons, List.map_nil, List.mem_cons, List.not_mem_nil, or_false] at hp
  rcases hp with rfl | rfl <;> rfl

/-- Non-vacuity (and that merging really happens): `A` pays two inputs with a common denom, the merged
debit is ONE `sdk.Coins` `[4rs, 1usd]`; both forms succeed. -/
example :
    let ins : List IO := [⟨"A", [("rs", 3)]⟩, ⟨"A", [("rs", 1), ("usd", 1)]⟩]
    let outs : List IO := [⟨"B", [("rs", 4), ("usd", 1)]⟩]
    mergeAmounts (ins.map fun i => (i.addr, i.coins)) = [("A", [("rs", 4), ("usd", 1)])] ∧
    (inputOutputCoinsProvMerged exWorld exLedger ins outs).toBool = true ∧
    (inputOutputCoinsProv exWorld exLedger ins outs).toBool = true ∧
    (∀ i ∈ ins, isValid i.coins = true) := by
  refine ⟨by decide, by rfl, by rfl, by decide⟩

/-- creditAll_merged_same: two credits for the same receiver with a common denom are merged into ONE
`sdk.Coins` `[3rs, 1usd]`; the ledgers before are the same; the credits are valid. -/
example :
    let credits : List (Addr × Coins) := [("B", [("rs", 2)]), ("C", [("usd", 7)]), ("B", [("rs", 1), ("usd", 1)])]
    mergeAmounts credits = [("B", [("rs", 3), ("usd", 1)]), ("C", [("usd", 7)])] ∧
    SameBalances exLedger exLedger ∧ (∀ p ∈ credits, isValid p.2 = true) := by
  refine ⟨by decide, ⟨fun _ _ => rfl, fun _ => rfl⟩, by decide⟩

end PvProofs.C04
