/-
C14 (addresses, bech32 text) — metadata addresses convert between bytes and bech32 text without
loss: reading back the text `String()` writes gives the bytes and the type's hrp, for EVERY
well-formed address; more generally `DecodeAndConvert ∘ ConvertAndEncode` is the identity for
every byte string and every lower-case printable hrp within the length limit.

The model (`PvModel.MdAddr`, section "bech32 text") mirrors `cosmos/btcutil/bech32` and the
cosmos-sdk wrapper; it is tied to the Go code by the `mdaddr` stream (the text `String()` returns
is compared on every valid address, `ParseMetadataAddressFromBech32` on generated texts).
-/
import PvProofs.Lemmas.MdBech32
import PvProofs.C14Addr

namespace PvProofs.C14
open PvModel.MdAddr PvProofs.Bech32Lemmas

/-- `ConvertBits(·, 5, 8, false)` undoes `ConvertBits(·, 8, 5, true)` on every byte string; the
intermediate values are 5-bit and there are `⌈8n/5⌉` of them. -/
theorem convertBits_8_5_8 (data : Bytes) :
    ∃ c, convertBits data 8 5 true = some c ∧ (∀ o ∈ c, o.toNat < 32) ∧
      5 * c.length ≤ 8 * data.length + 4 ∧ convertBits c 5 8 false = some data :=
  convertBits_roundtrip data

/-- The checksum `Encode` writes is the one `Decode` verifies: for every hrp and all values,
`bech32Polymod(hrp, values, writeBech32Checksum(hrp, values)) = 1`. -/
theorem checksum_verifies_after_create (hrp : List Char) (values : List Nat) :
    bech32Polymod hrp values (bech32Checksum hrp values) = 1 :=
  polymod_checksum hrp values

/-- `Decode(Encode(hrp, data)) = (hrp, data)` for every lower-case printable hrp and all 5-bit
data within the length limit. -/
theorem bech32Decode_encode (hrp : List Char) (data : Bytes) (limit : Nat) (hh : HrpOK hrp)
    (hd : ∀ o ∈ data, o.toNat < 32) (hl : hrp.length + data.length + 7 ≤ limit) :
    ∃ enc, bech32Encode hrp data = some enc ∧ bech32Decode enc limit = some (hrp, data) := by
  have hlow : hrp.map lowerChar = hrp := by
    conv => rhs; rw [← List.map_id hrp]
    exact List.map_congr_left fun c hc => lowerChar_of_not_upper c (hh.2 c hc).2.2
  have hany : data.any (fun b => decide (b.toNat ≥ 32)) = false := by
    rw [List.any_eq_false]; intro o ho; have := hd o ho; simp; omega
  have hvals : ∀ v ∈ data.map (·.toNat) ++ bech32Checksum hrp (data.map (·.toNat)), v < 32 := by
    intro v hv
    rcases List.mem_append.1 hv with hv | hv
    · rcases List.mem_map.1 hv with ⟨o, ho, rfl⟩; exact hd o ho
    · exact checksum_lt32 _ _ v hv
  refine ⟨hrp ++ '1' :: (data.map (·.toNat) ++ bech32Checksum hrp (data.map (·.toNat))).map charsetChar, ?_, ?_⟩
  · simp only [bech32Encode, hany, hlow]; rfl
  · have hck : (bech32Checksum hrp (data.map (·.toNat))).length = 6 := rfl
    have hlen : (hrp ++ '1' :: (data.map (·.toNat) ++ bech32Checksum hrp (data.map (·.toNat))).map charsetChar).length
        = hrp.length + data.length + 7 := by
      simp only [List.length_append, List.length_cons, List.length_map, hck]; omega
    have hnorm := normalize_id (hrp ++ '1' :: (data.map (·.toNat) ++ bech32Checksum hrp (data.map (·.toNat))).map charsetChar)
      (by
        intro c hc
        rcases List.mem_append.1 hc with hc | hc
        · exact hh.2 c hc
        · rcases List.mem_cons.1 hc with rfl | hc
          · decide
          · rcases List.mem_map.1 hc with ⟨v, hv, rfl⟩
            have := charset_facts v (hvals v hv)
            exact ⟨this.2.2.1, this.2.2.2.1, this.2.2.2.2⟩)
    have hsplit := splitLast_append '1' hrp
      ((data.map (·.toNat) ++ bech32Checksum hrp (data.map (·.toNat))).map charsetChar)
      (by
        intro hc
        rcases List.mem_map.1 hc with ⟨v, hv, he⟩
        exact (charset_facts v (hvals v hv)).2.1 he)
    have hdec := charsetDecode_map _ hvals
    have hne : hrp.isEmpty = false := by
      cases hrp with
      | nil => exact absurd rfl hh.1
      | cons _ _ => rfl
    have hpos : 0 < hrp.length := by
      cases hrp with
      | nil => exact absurd rfl hh.1
      | cons _ _ => simp
    unfold bech32Decode
    rw [if_neg (by rw [hlen]; omega), if_neg (by rw [hlen]; omega)]
    simp only [hnorm, hsplit, hne, Bool.false_or]
    rw [if_neg (by simp [hck])]
    simp only [hdec]
    have htake : (data.map (·.toNat) ++ bech32Checksum hrp (data.map (·.toNat))).take
        ((data.map (·.toNat) ++ bech32Checksum hrp (data.map (·.toNat))).length - 6) = data.map (·.toNat) := by
      rw [List.length_append, hck, Nat.add_sub_cancel]
      exact List.take_left' rfl
    have hdrop : (data.map (·.toNat) ++ bech32Checksum hrp (data.map (·.toNat))).drop
        ((data.map (·.toNat) ++ bech32Checksum hrp (data.map (·.toNat))).length - 6)
        = bech32Checksum hrp (data.map (·.toNat)) := by
      rw [List.length_append, hck, Nat.add_sub_cancel]
      exact List.drop_left' rfl
    rw [htake, hdrop, if_pos (polymod_checksum _ _)]
    have hback : (data.map (·.toNat)).map UInt8.ofNat = data := by
      rw [List.map_map]
      conv => rhs; rw [← List.map_id data]
      exact List.map_congr_left fun b _ => by simp [Function.comp]
    rw [hback]

example : HrpOK "scope".toList ∧ (∀ o ∈ ([0, 31, 7] : Bytes), o.toNat < 32) ∧
    "scope".toList.length + ([0, 31, 7] : Bytes).length + 7 ≤ 1023 := by decide

/-- cosmos-sdk `bech32.DecodeAndConvert(bech32.ConvertAndEncode(hrp, bz)) = (hrp, bz)` for EVERY
byte string `bz` and every lower-case printable hrp whose text stays within the 1023 limit. -/
theorem decodeAndConvert_convertAndEncode (hrp : String) (bz : Bytes) (hh : HrpOK hrp.toList)
    (hl : 5 * hrp.toList.length + 8 * bz.length + 39 ≤ 5 * 1023) :
    ∃ s, convertAndEncode hrp bz = some s ∧ decodeAndConvert s = some (hrp, bz) := by
  obtain ⟨c, h1, h2, h3, h4⟩ := convertBits_roundtrip bz
  obtain ⟨enc, h5, h6⟩ := bech32Decode_encode hrp.toList c 1023 hh h2 (by omega)
  refine ⟨String.ofList enc, ?_, ?_⟩
  · simp only [convertAndEncode, h1, h5, Option.map_some]
  · simp only [decodeAndConvert, String.toList_ofList, h6, h4, Option.map_some, String.ofList_toList]

example : HrpOK "recspec".toList ∧
    5 * "recspec".toList.length + 8 * (5 :: List.replicate 32 (0xab : UInt8)).length + 39 ≤ 5 * 1023 := by
  decide

theorem hrpOK_kind (k : Kind) : HrpOK k.hrp.toList := by cases k <;> decide

theorem verifyFormat_toBytes (p : Parts) (h : p.WF) :
    verifyMetadataAddressFormat p.toBytes = (p.kind.hrp, none) := by
  obtain ⟨h1, h2⟩ := h
  have hlen : p.toBytes.length = p.kind.len := by
    simp only [Parts.toBytes, List.length_cons, List.length_append, h1, h2, Kind.tailLen]
    cases p.kind <;> rfl
  have hk : Kind.ofByte? p.kind.byte = some p.kind := by cases p.kind <;> rfl
  have hl' : (p.kind.byte :: (p.primary ++ p.tail)).length = p.kind.len := hlen
  simp only [Parts.toBytes, verifyMetadataAddressFormat, hk, hl', ne_eq, not_true_eq_false, if_false]

/-- **bytes ↔ bech32 text without loss.**  For every well-formed address (all six types, all
uuids, all tails): `String()` writes a text, and `ParseMetadataAddressFromBech32` of that text
gives back exactly the bytes and the type's hrp. -/
theorem fromBech32_toString (p : Parts) (h : p.WF) :
    ∃ s, toBech32 p.toBytes = some s ∧
      parseMetadataAddressFromBech32 s = some (p.toBytes, p.kind.hrp) ∧
      metadataAddressFromBech32 s = some p.toBytes := by
  have hv := verifyFormat_toBytes p h
  have hlen : p.toBytes.length ≤ 33 := by
    obtain ⟨h1, h2⟩ := h
    simp only [Parts.toBytes, List.length_cons, List.length_append, h1, h2, Kind.tailLen]
    cases p.kind <;> decide
  have hhl : p.kind.hrp.toList.length ≤ 12 := by cases p.kind <;> decide
  obtain ⟨s, h1, h2⟩ := decodeAndConvert_convertAndEncode p.kind.hrp p.toBytes (hrpOK_kind _) (by omega)
  have hp : parseMetadataAddressFromBech32 s = some (p.toBytes, p.kind.hrp) := by
    simp only [parseMetadataAddressFromBech32, h2, hv, ne_eq, not_true_eq_false, if_false]
  refine ⟨s, ?_, hp, ?_⟩
  · simp only [toBech32, hv, h1]
  · simp only [metadataAddressFromBech32, hp, Option.map_some]

example : (⟨.session, List.replicate 16 0x11, List.replicate 16 0xfe⟩ : Parts).WF := by decide

/-- text → bytes → text for the texts `String()` writes: parsing and writing again gives the same
text (the text form is canonical), and two well-formed addresses with the same text are equal. -/
theorem toBech32_injective (p q : Parts) (hp : p.WF) (hq : q.WF)
    (h : toBech32 p.toBytes = toBech32 q.toBytes) : p = q := by
  obtain ⟨s, h1, h2, _⟩ := fromBech32_toString p hp
  obtain ⟨t, h3, h4, _⟩ := fromBech32_toString q hq
  rw [h1, h3] at h
  cases h
  rw [h2] at h4
  have hb : p.toBytes = q.toBytes := by injection h4 with h4; exact (Prod.mk.inj h4).1
  exact toBytes_injective p q hp hq hb

/-- Whatever text `ParseMetadataAddressFromBech32` accepts denotes a well-formed address whose
type is the one the text's hrp names (for ALL texts). -/
theorem parseMetadataAddressFromBech32_sound (s : String) (bz : Bytes) (hrp : String)
    (h : parseMetadataAddressFromBech32 s = some (bz, hrp)) :
    WellFormed bz ∧ verifyMetadataAddressFormat bz = (hrp, none) ∧
      ∃ p : Parts, p.WF ∧ p.toBytes = bz ∧ p.kind.hrp = hrp := by
  unfold parseMetadataAddressFromBech32 at h
  split at h
  · cases h
  · rename_i hrp' bz' hd
    split at h
    · rename_i expected hv
      split at h
      · cases h
      · rename_i hne
        have hne' : expected = hrp' := Decidable.of_not_not hne
        injection h with h
        obtain ⟨rfl, rfl⟩ := Prod.mk.inj h
        subst hne'
        have hval : validate bz' = none := by simp [validate, hv]
        have hwf := (validate_iff_wellformed bz').1 hval
        refine ⟨hwf, hv, ?_⟩
        obtain ⟨p, hp⟩ := Option.isSome_iff_exists.1 ((ofBytes_isSome_iff bz').2 hwf)
        have hb := toBytes_ofBytes bz' p hp
        refine ⟨p, hb.2, hb.1, ?_⟩
        have := verifyFormat_toBytes p hb.2
        rw [hb.1, hv] at this
        exact (Prod.mk.inj this).1.symm
    · cases h

/-- **bech32 text → bytes → text without loss.**  For EVERY text `ParseMetadataAddressFromBech32`
accepts, `String()` of the returned address is that text (lower-cased: `Decode` accepts an
all-upper-case text and `Encode` writes lower case).  So on lower-case texts parse and `String()`
are inverse bijections between accepted texts and well-formed addresses. -/
theorem toString_fromBech32 (s : String) (bz : Bytes) (hrp : String)
    (h : parseMetadataAddressFromBech32 s = some (bz, hrp)) :
    toBech32 bz = some (String.ofList (s.toList.map lowerChar)) := by
  have hv := (parseMetadataAddressFromBech32_sound s bz hrp h).2.1
  unfold parseMetadataAddressFromBech32 at h
  split at h
  · cases h
  · rename_i hrp' bz' hd
    split at h
    · split at h
      · cases h
      · have h' := Prod.mk.inj (Option.some.inj h)
        rw [h'.1, h'.2] at hd
        simp only [toBech32, hv]
        exact convertAndEncode_of_decodeAndConvert s hrp bz hd
    · cases h

/-- `ConvertBits(·, 8, 5, true)` undoes `ConvertBits(·, 5, 8, false)` on 5-bit data (the
unfinished group must be at most 4 zero bits, which is exactly what the padding restores). -/
theorem convertBits_5_8_5 (data bz : Bytes) (hd : ∀ o ∈ data, o.toNat < 32)
    (h : convertBits data 5 8 false = some bz) : convertBits bz 8 5 true = some data :=
  Bech32Lemmas.convertBits_5_8_5 data bz hd h

example : (∀ o ∈ ([0, 31, 16, 0] : Bytes), o.toNat < 32) ∧ convertBits [0, 31, 16, 0] 5 8 false = some [7, 224] := by
  decide

/-- A checksum that verifies is the one `Encode` writes (six 5-bit values are determined by the
hrp and the data). -/
theorem checksum_unique (hrp : List Char) (values cks : List Nat) (hl : cks.length = 6)
    (hc : ∀ c ∈ cks, c < 32) (h : bech32Polymod hrp values cks = 1) : cks = bech32Checksum hrp values :=
  Bech32Lemmas.checksum_unique hrp values cks hl hc h

example : (bech32Checksum "a".toList []).length = 6 ∧ (∀ c ∈ bech32Checksum "a".toList [], c < 32) ∧
    bech32Polymod "a".toList [] (bech32Checksum "a".toList []) = 1 :=
  ⟨rfl, checksum_lt32 _ _, polymod_checksum _ _⟩

/-- a text that satisfies the hypothesis: the scope address of the zero uuid -/
example : ∃ s, toBech32 (⟨.scope, List.replicate 16 0, []⟩ : Parts).toBytes = some s ∧
    parseMetadataAddressFromBech32 s = some ((⟨.scope, List.replicate 16 0, []⟩ : Parts).toBytes, "scope") := by
  obtain ⟨s, h1, h2, _⟩ := fromBech32_toString ⟨.scope, List.replicate 16 0, []⟩ (by decide)
  exact ⟨s, h1, h2⟩

end PvProofs.C14
