/-
C18 (cited from C15) — the name module's state survives genesis export and import.

Over the executable model of the name keeper (`PvModel.Name`): `exportGenesis st` is
`Keeper.ExportGenesis` (every record of the 0x03 prefix becomes a binding, x/name/keeper/genesis.go:24),
`initGenesis` is `Keeper.InitGenesis` (every binding's address is parsed and the binding goes
through `SetNameRecord`: normalize, key, "already bound" check, record + address-index entry).

`genesis_round_trip`: for every genesis file the chain starts from and every history of messages
after it, importing the export of the reached state into an empty store SUCCEEDS and rebuilds the
same store — both halves (records and address index) hold the same key-value pairs (`StateEq`; the
order of the model's association lists is a representation detail, the real store iterates in key
order), the store invariant holds, and a second export is the first up to order.  What makes it
work is exactly what the C15 invariants say: stored names are `Normalize`-stable, every record sits
under the key of its own name (so no two exported bindings clash and none is "already bound"),
stored addresses are canonical and parse.

Hypotheses on the configuration (bech32 facts, not about the module): the canonical spelling of an
address is its own canonical spelling and parses.
-/
import PvProofs.C15

namespace PvProofs.C18Name
open PvModel.Name PvModel.Name.KV

variable {κ : Type} [DecidableEq κ] (cfg : Cfg κ)

/-- the round trip for any state that satisfies the store invariants -/
theorem round_trip_of_inv {st : State κ} (hI : Inv cfg st) (hS : CanonStored cfg st)
    (hO : AddrOkStored cfg st) :
    ∃ st', initGenesis cfg {} (exportGenesis st) = .ok st' ∧ StateEq st' st ∧ Inv cfg st' ∧
      (exportGenesis st').Perm (exportGenesis st) := by
  obtain ⟨st', hst', hget⟩ := initGenesis_replay cfg st.recs {} hI.recsNodup
    (fun k r hm => by
      have hg := (mem_iff_get hI.recsNodup k r).mp hm
      exact ⟨hI.keyed k r hg, hI.normd k r hg, hS k r hg, hO k r hg⟩)
    (fun k r _ => rfl)
  have hI' : Inv cfg st' := inv_initGenesis cfg _ _ _ (inv_init cfg) hst'
  have hrecs : ∀ k, get st'.recs k = get st.recs k := by
    intro k
    rw [hget k]
    cases get st.recs k <;> simp
  have hidx : ∀ ak, get st'.idx ak = get st.idx ak := by
    rintro ⟨a, k⟩
    apply Option.ext
    intro r
    rw [hI'.idxExact a k r, hI.idxExact a k r, hrecs k]
  refine ⟨st', hst', ⟨hrecs, hidx⟩, hI', ?_⟩
  exact (KV.perm_of_get_eq hI'.recsNodup hI.recsNodup hrecs).map _

/-- GENESIS ROUND TRIP of the name module, for every start and every history: the export of the
state reached from any accepted genesis file by any sequence of messages imports into an empty
store without error, and the imported store holds exactly the same records and the same
address-index entries; exporting again gives the same bindings up to order. -/
theorem genesis_round_trip (hC : ∀ a, cfg.canon (cfg.canon a) = cfg.canon a)
    (hA : ∀ a, cfg.addrOk a = true → cfg.addrOk (cfg.canon a) = true)
    {gs : List Record} {st0 : State κ} (hg : initGenesis cfg {} gs = .ok st0) (ops : List Op) :
    ∃ st', initGenesis cfg {} (exportGenesis (run cfg st0 ops)) = .ok st' ∧
      StateEq st' (run cfg st0 ops) ∧ Inv cfg st' ∧
      (exportGenesis st').Perm (exportGenesis (run cfg st0 ops)) := by
  refine round_trip_of_inv cfg (inv_run cfg ops (inv_initGenesis cfg gs _ _ (inv_init cfg) hg)) ?_ ?_
  · intro k r h
    exact PvProofs.C15.canonStored_run cfg hC ops (canonStored_initGenesis cfg hC (canonStored_init cfg) hg) k r h
  · exact addrOkStored_run cfg hA ops (addrOkStored_initGenesis cfg hA (addrOkStored_init cfg) hg)

/-- the exported genesis state passes `GenesisState.Validate` (no blank name, no blank address),
given that the empty string is not an address -/
theorem exported_genesis_validates (hA : ∀ a, cfg.addrOk a = true → cfg.addrOk (cfg.canon a) = true)
    (hE : cfg.addrOk "" = false)
    {gs : List Record} {st0 : State κ} (hg : initGenesis cfg {} gs = .ok st0) (ops : List Op) :
    validateGenesis (exportGenesis (run cfg st0 ops)) = true := by
  have hI := inv_run cfg ops (inv_initGenesis cfg gs _ _ (inv_init cfg) hg)
  have hO := addrOkStored_run cfg hA ops (addrOkStored_initGenesis cfg hA (addrOkStored_init cfg) hg)
  unfold validateGenesis exportGenesis allRecords
  rw [List.all_eq_true]
  intro r hr
  obtain ⟨⟨k, r'⟩, hm, rfl⟩ := List.mem_map.mp hr
  have hgk := (mem_iff_get hI.recsNodup k r').mp hm
  have hkey := hI.keyed k r' hgk
  have hb : blank r'.name = false := by
    unfold blank
    by_cases ht : trimSpace r'.name = []
    · simp [getNameKeyPrefix, preimage, ht, Except.map] at hkey
    · simp [ht]
  have ha : blankAddr r'.addr = false := by
    unfold blankAddr
    by_cases he : r'.addr = ""
    · have := hO k r' hgk; rw [he, hE] at this; cases this
    · simp [he]
  simp [hb, ha]

/-! ### non-vacuity: a concrete genesis + history, with two spellings per address -/

def ncfg : Cfg Bytes :=
  { H := id, authority := "G", addrOk := fun a => a != "X" && a != "", hasAccount := fun _ => true,
    canon := fun a => if a = "A^" then "A" else if a = "B^" then "B" else a }

example : ∀ a, ncfg.canon (ncfg.canon a) = ncfg.canon a := by
  intro a; simp only [ncfg]; split_ifs <;> simp_all
example : ∀ a, ncfg.addrOk a = true → ncfg.addrOk (ncfg.canon a) = true := by
  intro a; simp only [ncfg]; split_ifs <;> simp_all

def de : Bytes := [100, 101]
def abc : Bytes := [97, 98, 99]
def nGenesis : List Record := [⟨[68, 69], "A^", true⟩]          -- "DE" bound to A in upper-case spelling
def nOps : List Op :=
  [.bind de "A^" abc "B^" false, .root "G" [120, 121, 46, 122, 122] "B" false, .modify "A" de "B" false]

/-- the import of the export reproduces the records (here even in the same order reversed) -/
example : (initGenesis ncfg {} nGenesis).toOption.map (fun st0 =>
      let st := run ncfg st0 nOps
      ((initGenesis ncfg {} (exportGenesis st)).toOption.map (fun st' => (allRecords st').length),
        (allRecords st).length)) = some (some 4, 4) := by decide

end PvProofs.C18Name
