/-
C10 — Metadata writes require the signatures that the party rules demand.

Property theorems only (helper lemmas live in `PvProofs/Lemmas/Signers*.lean`).  Every
statement is for ALL party lists, required-role lists, signer lists, message types and
grant relations (`Env` is an arbitrary triple of functions); nothing is bounded.

The model (`PvModel/Signers.lean`) mirrors the Go helper functions one to one; the spec
(`PvModel/SignersSpec.lean`) is the documentation (x/metadata/spec/01_concepts.md "Signing
Requirements", 04_authz.md) written without party-details lists, greedy loops or marking.

The only hypothesis about the environment is `env.valid "" = false`: the empty string is not
an address (`sdk.AccAddressFromBech32("")` fails).

Reading of "it must either be a party/owner" for smart-contract signers: the code accepts a
smart-contract signer that is *recorded as the signer of some party* — the party itself, or
the authz grantee standing in for a party (`usedSigners`, "used as a signer in some
capacity").  The theorems state the rule with that set and characterise it
(`used_signers_sound`, `direct_party_is_used`).
-/
import PvProofs.Lemmas.SignersMain

namespace PvProofs.C10
open PvModel.Signers PvProofs.Lemmas.Signers

/-- a result is an acceptance -/
def Accepts {α} (r : Except Err α) : Prop := ∃ a, r = .ok a

/-- no signer of the message is a smart contract, and all decode -/
def NoContracts (env : Env) (signers : List Addr) : Prop :=
  ∀ s ∈ signers, env.valid s = true ∧ env.wasm s = false

/-! ### authz: the code's table is the documented hierarchy -/

/-- `getAuthzMessageTypeURLs` lists exactly the message type itself and its documented parent
(04_authz.md "Special allowances"), for every string. -/
theorem authz_types_are_documented_hierarchy (mt t : MsgType) :
    t ∈ getAuthzMessageTypeURLs mt ↔ mt ≠ "" ∧ (t = mt ∨ Spec.parentType mt = some t) :=
  mem_getAuthzMessageTypeURLs mt t

/-- A party gets a stand-in signer from `findAuthzGrantee` iff it has granted one of the
(decodable) signers an authorization that applies to the message type. -/
theorem authz_lookup_iff_granted (env : Env) (mt : MsgType) (signers : List Addr) (a : Addr) :
    (findAuthzGrantee env mt a (accs env signers)).isSome = Spec.signsViaAuthz env mt signers a :=
  hasGrantee_eq_signsViaAuthz env mt signers a

/-- The grantee returned is a signer of the message that the party authorized. -/
theorem authz_grantee_is_authorized_signer (env : Env) (mt : MsgType) (signers : List Addr) (a g : Addr)
    (h : findAuthzGrantee env mt a (accs env signers) = some g) :
    g ∈ signers ∧ Spec.authorizes env mt a g = true := by
  obtain ⟨hva, hg, hauth⟩ := findAuthzGrantee_eq_some h
  simp only [accs, List.mem_filter] at hg
  exact ⟨hg.1, (authorizes_iff env mt a g).mpr ⟨hva, hg.2, hauth⟩⟩

/-! ### greedy role association = counting condition -/

/-- The greedy loop shared by `associateRequiredRoles` and `validateRolesPresent`, for any
eligibility condition `extra` that marking does not change and ANY party list: the
unfulfilled entries of each role are exactly the excess of demand over supply. -/
theorem greedy_leaves_exactly_the_excess (extra : PartyDetails → Bool)
    (hextra : ∀ p, extra p.markAsUsed = extra p) (ps : List PartyDetails) (roles : List Role) (r : Role) :
    (associateRolesWith (fun role p => p.isStillUsableAs role && extra p) ps roles).2.count r
      = roles.count r - ps.countP (fun p => p.isStillUsableAs r && extra p) :=
  (associateRolesWith_spec extra hextra roles ps).1 r

/-- `greedy_roles_iff_count`: the greedy association fulfils every required role entry iff
for each role the number of entries does not exceed the number of eligible parties with that
role — each party has exactly one role, so first-fit is optimal. -/
theorem greedy_roles_iff_count (extra : PartyDetails → Bool)
    (hextra : ∀ p, extra p.markAsUsed = extra p) (ps : List PartyDetails) (roles : List Role) :
    (associateRolesWith (fun role p => p.isStillUsableAs role && extra p) ps roles).2 = [] ↔
      ∀ r, roles.count r ≤ ps.countP (fun p => p.isStillUsableAs r && extra p) := by
  have h := greedy_leaves_exactly_the_excess extra hextra ps roles
  constructor
  · intro he r
    have := h r
    rw [he] at this
    simp only [List.count_nil] at this
    omega
  · intro hc
    apply List.eq_nil_iff_forall_not_mem.mpr
    intro q hq
    have hpos : 0 < (associateRolesWith (fun role p => p.isStillUsableAs role && extra p) ps roles).2.count q :=
      List.count_pos_iff.mpr hq
    have := h q
    have := hc q
    omega

/-- `associateRequiredRoles` is that loop with "has a signer" as the eligibility condition. -/
theorem associateRequiredRoles_iff_count (ps : List PartyDetails) (roles : List Role) :
    (associateRequiredRoles ps roles).2 = [] ↔
      ∀ r, roles.count r ≤ ps.countP (fun p => p.isStillUsableAs r && p.hasSigner) :=
  greedy_roles_iff_count PartyDetails.hasSigner
    (by intro p; simp [PartyDetails.hasSigner, PartyDetails.markAsUsed]) ps roles

/-- The greedy loop never touches anything but the `used` marks. -/
theorem greedy_changes_only_marks (usable : Role → PartyDetails → Bool) (ps : List PartyDetails)
    (roles : List Role) :
    (associateRolesWith usable ps roles).1.map (fun p => (p.address, p.role, p.optional, p.signer, p.canBeUsedBySpec))
      = ps.map (fun p => (p.address, p.role, p.optional, p.signer, p.canBeUsedBySpec)) := by
  induction roles generalizing ps with
  | nil => simp [associateRolesWith]
  | cons role rest ih =>
    simp only [associateRolesWith]
    cases hu : updateFirst (usable role) PartyDetails.markAsUsed ps with
    | some ps1 =>
      simp only
      rw [ih ps1]
      exact updateFirst_map_same hu (by intro x; simp [PartyDetails.markAsUsed])
    | none => exact ih ps

/-- The authz pass over the still-missing roles succeeds iff, per role, the missing entries
do not exceed the unsigned usable parties that have granted a signer. -/
theorem authz_pass_iff_count (env : Env) (mt : MsgType) (signers : List Addr) (missing : List Role)
    (ps : List PartyDetails) :
    (associateAuthorizationsForRoles env mt signers missing ps).2 = false ↔
      ∀ r, missing.count r ≤ ps.countP (fun p => p.isStillUsableAs r && !p.hasSigner
        && (findAuthzGrantee env mt p.address (accs env signers)).isSome) :=
  (associateAuthorizationsForRoles_spec env mt signers missing ps).1

/-! ### with parties (party rollup): accept ⇔ spec -/

/-- `validateAllRequiredPartiesSigned` accepts exactly when every `optional = false` required
party is covered (signer, or granter of a signer) and every required role entry can be given
its own covered available party. -/
theorem validateAllRequiredPartiesSigned_accepts_iff (env : Env) (hv : env.valid "" = false)
    (mt : MsgType) (req avail : List Party) (roles : List Role) (signers : List Addr) :
    Accepts (validateAllRequiredPartiesSigned env mt req avail roles signers) ↔
      Spec.requiredCovered env mt signers req = true ∧ Spec.rolesCovered env mt signers avail roles = true := by
  obtain ⟨c1, c2, c3⟩ := validateAllRequiredPartiesSigned_char env mt req avail roles signers hv
  constructor
  · rintro ⟨ps, hps⟩
    by_cases h1 : Spec.requiredCovered env mt signers req = true
    · by_cases h2 : Spec.rolesCovered env mt signers avail roles = true
      · exact ⟨h1, h2⟩
      · obtain ⟨_, h⟩ := c2 h1 (by simpa using h2); rw [h] at hps; cases hps
    · obtain ⟨_, h⟩ := c1 (by simpa using h1); rw [h] at hps; cases hps
  · rintro ⟨h1, h2⟩
    obtain ⟨ps, h, _⟩ := c3 h1 h2
    exact ⟨ps, h⟩

/-- "missing required signature" is returned exactly when a required party is not covered. -/
theorem missing_signature_iff (env : Env) (hv : env.valid "" = false)
    (mt : MsgType) (req avail : List Party) (roles : List Role) (signers : List Addr) :
    (∃ who, validateAllRequiredPartiesSigned env mt req avail roles signers = .error (.missingSig who)) ↔
      Spec.requiredCovered env mt signers req = false := by
  obtain ⟨c1, c2, c3⟩ := validateAllRequiredPartiesSigned_char env mt req avail roles signers hv
  constructor
  · rintro ⟨who, h⟩
    by_contra hn
    have h1 : Spec.requiredCovered env mt signers req = true := by simpa using hn
    by_cases h2 : Spec.rolesCovered env mt signers avail roles = true
    · obtain ⟨_, h', _⟩ := c3 h1 h2; rw [h'] at h; cases h
    · obtain ⟨_, h'⟩ := c2 h1 (by simpa using h2); rw [h'] at h; cases h
  · exact c1

/-- "missing signers for roles required by spec" is returned exactly when all required
parties are covered but the counting condition fails. -/
theorem missing_role_signers_iff (env : Env) (hv : env.valid "" = false)
    (mt : MsgType) (req avail : List Party) (roles : List Role) (signers : List Addr) :
    (∃ short, validateAllRequiredPartiesSigned env mt req avail roles signers
        = .error (.missingRoleSigners short)) ↔
      Spec.requiredCovered env mt signers req = true ∧ Spec.rolesCovered env mt signers avail roles = false := by
  obtain ⟨c1, c2, c3⟩ := validateAllRequiredPartiesSigned_char env mt req avail roles signers hv
  constructor
  · rintro ⟨short, h⟩
    by_cases h1 : Spec.requiredCovered env mt signers req = true
    · by_cases h2 : Spec.rolesCovered env mt signers avail roles = true
      · obtain ⟨_, h', _⟩ := c3 h1 h2; rw [h'] at h; cases h
      · exact ⟨h1, by simpa using h2⟩
    · obtain ⟨_, h'⟩ := c1 (by simpa using h1); rw [h'] at h; cases h
  · rintro ⟨h1, h2⟩; exact c2 h1 h2

/-- the party details only ever differ from the built list in signers and used marks -/
theorem validated_parties_shape (env : Env) (hv : env.valid "" = false)
    (mt : MsgType) (req avail : List Party) (roles : List Role) (signers : List Addr) (ps : List PartyDetails)
    (h : validateAllRequiredPartiesSigned env mt req avail roles signers = .ok ps) :
    ps.map (fun p => (p.canBeUsedBySpec, p.address, p.role))
      = (buildPartyDetails req avail).map (fun p => (p.canBeUsedBySpec, p.address, p.role)) := by
  obtain ⟨_, _, c3⟩ := validateAllRequiredPartiesSigned_char env mt req avail roles signers hv
  have hacc := (validateAllRequiredPartiesSigned_accepts_iff env hv mt req avail roles signers).mp ⟨ps, h⟩
  obtain ⟨ps', h', hshape, _⟩ := c3 hacc.1 hacc.2
  rw [h] at h'; cases h'
  exact hshape

/-- Every signer recorded on a party (`GetUsedSigners`) is a signer of the message, and is a
party's own address or holds an applicable authz grant from a party. -/
theorem used_signers_sound (env : Env) (hv : env.valid "" = false)
    (mt : MsgType) (req avail : List Party) (roles : List Role) (signers : List Addr) (ps : List PartyDetails)
    (h : validateAllRequiredPartiesSigned env mt req avail roles signers = .ok ps) :
    ∀ w ∈ getUsedSigners ps, w ∈ signers ∧
      ∃ q ∈ req ++ avail, w = q.address ∨ Spec.authorizes env mt q.address w = true := by
  obtain ⟨_, _, c3⟩ := validateAllRequiredPartiesSigned_char env mt req avail roles signers hv
  have hacc := (validateAllRequiredPartiesSigned_accepts_iff env hv mt req avail roles signers).mp ⟨ps, h⟩
  obtain ⟨ps', h', hshape, hso⟩ := c3 hacc.1 hacc.2
  rw [h] at h'; cases h'
  apply usedSigners_sound env mt signers (req ++ avail) ps hso
  intro p hp
  obtain ⟨d, hd, hpd⟩ := addr_of_shape hshape p hp
  obtain ⟨q, hq, hdq⟩ := buildPartyDetails_addr req avail d hd
  exact ⟨q, hq, hpd.trans hdq⟩

/-- An available party that signs the message itself is recorded as used (so a smart contract
that is a party and signs is allowed to sign). -/
theorem direct_party_is_used (env : Env) (hv : env.valid "" = false)
    (mt : MsgType) (req avail : List Party) (roles : List Role) (signers : List Addr) (ps : List PartyDetails)
    (h : validateAllRequiredPartiesSigned env mt req avail roles signers = .ok ps) :
    ∀ q ∈ avail, Spec.signsDirectly signers q.address = true → q.address ∈ getUsedSigners ps := by
  obtain ⟨_, _, c3⟩ := validateAllRequiredPartiesSigned_char env mt req avail roles signers hv
  have hacc := (validateAllRequiredPartiesSigned_accepts_iff env hv mt req avail roles signers).mp ⟨ps, h⟩
  obtain ⟨ps', h', hshape, hso⟩ := c3 hacc.1 hacc.2
  rw [h] at h'; cases h'
  exact usedSigners_direct env mt signers req avail ps hshape hso

/-- smart-contract rule: `validateSmartContractSigners` accepts exactly when every signer
decodes, every smart-contract signer has only smart-contract signers before it, and each one
either is recorded as signing for a party or is authorized by all signers after it, of which
there is at least one. -/
theorem smart_contract_rule (env : Env) (mt : MsgType) (used signers : List Addr) :
    validateSmartContractSigners env mt used signers = none ↔
      Spec.smartContractOk env mt used signers = true :=
  validateSmartContractSigners_none_iff env mt used signers

/-- without smart-contract signers the rule only asks that the signers decode -/
theorem smartContractOk_of_noContracts (env : Env) (mt : MsgType) (used signers : List Addr)
    (h : NoContracts env signers) : Spec.smartContractOk env mt used signers = true := by
  have hall : ∀ l : List Addr, (∀ s ∈ l, env.wasm s = false) →
      Spec.smartContractsFirst env l = true ∧ Spec.smartContractsAuthorized env mt used l = true := by
    intro l
    induction l with
    | nil => intro _; simp [Spec.smartContractsFirst, Spec.smartContractsAuthorized]
    | cons s rest ih =>
      intro hw
      have hs := hw s (by simp)
      have := ih (fun x hx => hw x (by simp [hx]))
      refine ⟨?_, ?_⟩
      · simp only [Spec.smartContractsFirst, List.dropWhile_cons, hs, Bool.false_eq_true, ↓reduceIte,
          List.all_cons, Bool.not_false, Bool.true_and]
        rw [List.all_eq_true]; intro x hx; simp [hw x (by simp [hx])]
      · simp [Spec.smartContractsAuthorized, hs, this.2]
  unfold Spec.smartContractOk
  have := hall signers (fun s hs => (h s hs).2)
  rw [this.1, this.2]
  simp only [Bool.and_true, List.all_eq_true]
  exact fun s hs => (h s hs).1

/-- a smart-contract signer after an ordinary signer is always rejected -/
theorem smart_contract_after_ordinary_rejected (env : Env) (mt : MsgType) (used : List Addr)
    (pre mid post : List Addr) (a w : Addr) (ha : env.wasm a = false) (hw : env.wasm w = true) :
    validateSmartContractSigners env mt used (pre ++ a :: mid ++ w :: post) ≠ none := by
  rw [Ne, smart_contract_rule]
  intro h
  simp only [Spec.smartContractOk, Bool.and_eq_true] at h
  have h2 := h.1.2
  simp only [Spec.smartContractsFirst] at h2
  have hmem : w ∈ List.dropWhile env.wasm (pre ++ a :: mid ++ w :: post) := by
    have : ∀ l : List Addr, w ∈ List.dropWhile env.wasm (l ++ a :: mid ++ w :: post) := by
      intro l
      induction l with
      | nil => simp [List.dropWhile_cons, ha]
      | cons x xs ih =>
        simp only [List.cons_append, List.dropWhile_cons]
        split_ifs
        · exact ih
        · simp
    exact this pre
  have := (List.all_eq_true.mp h2) w hmem
  simp [hw] at this

/-- a smart contract that signs for nobody and is the last signer is rejected -/
theorem smart_contract_last_unused_rejected (env : Env) (mt : MsgType) (used pre : List Addr) (w : Addr)
    (hw : env.wasm w = true) (hu : w ∉ used) :
    validateSmartContractSigners env mt used (pre ++ [w]) ≠ none := by
  rw [Ne, smart_contract_rule]
  intro h
  simp only [Spec.smartContractOk, Bool.and_eq_true] at h
  have h3 := h.2
  have : ∀ l : List Addr, Spec.smartContractsAuthorized env mt used (l ++ [w]) = false := by
    intro l
    induction l with
    | nil => simp [Spec.smartContractsAuthorized, hw, hu]
    | cons x xs ih => simp [Spec.smartContractsAuthorized, ih]
  rw [this pre] at h3
  cases h3

/-- `ValidateSignersWithParties` accepts ⇔ the documented requirements hold: required parties
covered, each required role has its own covered available party, PROVENANCE role ⇔ smart
contract for the available parties, and the smart-contract signer rule for the signers
recorded on the parties. -/
theorem validateSignersWithParties_accepts_iff (env : Env) (hv : env.valid "" = false)
    (mt : MsgType) (req avail : List Party) (roles : List Role) (signers : List Addr) :
    Accepts (validateSignersWithParties env mt req avail roles signers) ↔
      Spec.withPartiesOk env mt req avail roles signers = true ∧
      ∃ ps, validateAllRequiredPartiesSigned env mt req avail roles signers = .ok ps ∧
        Spec.smartContractOk env mt (getUsedSigners ps) signers = true := by
  obtain ⟨_, _, c3⟩ := validateAllRequiredPartiesSigned_char env mt req avail roles signers hv
  unfold validateSignersWithParties Spec.withPartiesOk
  constructor
  · rintro ⟨out, hout⟩
    cases hps : validateAllRequiredPartiesSigned env mt req avail roles signers with
    | error e => rw [hps] at hout; cases hout
    | ok ps =>
      rw [hps] at hout
      simp only at hout
      have hacc := (validateAllRequiredPartiesSigned_accepts_iff env hv mt req avail roles signers).mp ⟨ps, hps⟩
      obtain ⟨ps', h', hshape, _⟩ := c3 hacc.1 hacc.2
      rw [hps] at h'; cases h'
      cases hpr : validateProvenanceRole env ps with
      | some e => rw [hpr] at hout; cases hout
      | none =>
        rw [hpr] at hout
        simp only at hout
        cases hsc : validateSmartContractSigners env mt (getUsedSigners ps) signers with
        | some e => rw [hsc] at hout; cases hout
        | none =>
          have hprov := (validateProvenanceRole_of_shape env req avail ps hshape).mp hpr
          exact ⟨by simp [hacc.1, hacc.2, hprov], ps, rfl, (smart_contract_rule env mt _ signers).mp hsc⟩
  · rintro ⟨hspec, ps, hps, hsc⟩
    simp only [Bool.and_eq_true] at hspec
    obtain ⟨ps', h', hshape, _⟩ := c3 hspec.1.1 hspec.1.2
    rw [hps] at h'; cases h'
    have hpr := (validateProvenanceRole_of_shape env req avail ps hshape).mpr hspec.2
    have hsc' := (smart_contract_rule env mt _ signers).mpr hsc
    exact ⟨ps, by simp [hps, hpr, hsc']⟩

/-- The same without smart-contract signers: accept ⇔ the signature requirements. -/
theorem validateSignersWithParties_accepts_iff_spec (env : Env) (hv : env.valid "" = false)
    (mt : MsgType) (req avail : List Party) (roles : List Role) (signers : List Addr)
    (hnc : NoContracts env signers) :
    Accepts (validateSignersWithParties env mt req avail roles signers) ↔
      Spec.withPartiesOk env mt req avail roles signers = true := by
  rw [validateSignersWithParties_accepts_iff env hv]
  constructor
  · exact fun h => h.1
  · intro h
    refine ⟨h, ?_⟩
    simp only [Spec.withPartiesOk, Bool.and_eq_true] at h
    obtain ⟨ps, hps⟩ := (validateAllRequiredPartiesSigned_accepts_iff env hv mt req avail roles signers).mpr h.1
    exact ⟨ps, hps, smartContractOk_of_noContracts env mt _ signers hnc⟩

/-- "only when": an accepted write has every `optional = false` required party covered — its
address is a signer, or it has granted a signer an applicable authorization — and for every
role the specification requires `k` times at least `k` distinct covered available parties
with that role; and PROVENANCE-role parties are exactly the smart contracts. -/
theorem accepted_only_with_required_signatures (env : Env) (hv : env.valid "" = false)
    (mt : MsgType) (req avail : List Party) (roles : List Role) (signers : List Addr)
    (h : Accepts (validateSignersWithParties env mt req avail roles signers)) :
    (∀ p ∈ req, p.optional = false →
        Spec.signsDirectly signers p.address = true ∨ Spec.signsViaAuthz env mt signers p.address = true)
    ∧ (∀ r, roles.count r ≤ Spec.coveredWithRole env mt signers avail r)
    ∧ (∀ p ∈ avail, env.valid p.address = true → (env.wasm p.address = true ↔ p.role = rolePROVENANCE)) := by
  have hs := ((validateSignersWithParties_accepts_iff env hv mt req avail roles signers).mp h).1
  simp only [Spec.withPartiesOk, Bool.and_eq_true] at hs
  refine ⟨?_, ?_, ?_⟩
  · intro p hp ho
    have := (requiredCovered_iff env mt signers req).mp hs.1.1 p hp ho
    simpa [Spec.covered] using this
  · intro r
    by_cases hr : r ∈ roles
    · have := (List.all_eq_true.mp hs.1.2) r hr
      simpa using this
    · rw [List.count_eq_zero.mpr hr]; exact Nat.zero_le _
  · intro p hp hvp
    have := (provenanceRoleOk_iff env avail).mp hs.2 (pkey p) (List.mem_map_of_mem hp) hvp
    simp only [pkey] at this
    rw [this]; simp

/-- "When every required party signs directly and the required roles are present the write is
accepted": all `optional = false` required parties are signers, each required role has enough
distinct available parties that are signers, the PROVENANCE rule holds, and no smart contract
signs. -/
theorem all_sign_directly_accepts (env : Env) (hv : env.valid "" = false)
    (mt : MsgType) (req avail : List Party) (roles : List Role) (signers : List Addr)
    (hreq : ∀ p ∈ req, p.optional = false → Spec.signsDirectly signers p.address = true)
    (hroles : ∀ r ∈ roles, roles.count r ≤
      ((Spec.distinctParties avail).filter fun k => k.2 == r && Spec.signsDirectly signers k.1).length)
    (hprov : Spec.provenanceRoleOk env avail = true)
    (hnc : NoContracts env signers) :
    Accepts (validateSignersWithParties env mt req avail roles signers) := by
  rw [validateSignersWithParties_accepts_iff_spec env hv mt req avail roles signers hnc]
  simp only [Spec.withPartiesOk, Bool.and_eq_true]
  refine ⟨⟨?_, ?_⟩, hprov⟩
  · rw [requiredCovered_iff]
    intro p hp ho
    simp [Spec.covered, hreq p hp ho]
  · unfold Spec.rolesCovered
    rw [List.all_eq_true]
    intro r hr
    simp only [decide_eq_true_eq]
    refine Nat.le_trans (hroles r hr) ?_
    unfold Spec.coveredWithRole
    rw [← List.countP_eq_length_filter, ← List.countP_eq_length_filter]
    apply List.countP_mono_left
    intro k _ hk
    simp only [Bool.and_eq_true] at hk
    simp [Spec.covered, hk.1, hk.2]

/-! ### the decision looks at the signers as a set, and more signatures never hurt -/

theorem covered_mono (env : Env) (mt : MsgType) (s1 s2 : List Addr) (hsub : ∀ x ∈ s1, x ∈ s2) (a : Addr)
    (h : Spec.covered env mt s1 a = true) : Spec.covered env mt s2 a = true := by
  simp only [Spec.covered, Spec.signsDirectly, Spec.signsViaAuthz, Bool.or_eq_true, Bool.and_eq_true,
    List.any_eq_true, List.contains_eq_mem, decide_eq_true_eq] at h ⊢
  rcases h with ⟨h1, h2⟩ | ⟨x, hx, hauth⟩
  · exact Or.inl ⟨h1, hsub a h2⟩
  · exact Or.inr ⟨x, hsub x hx, hauth⟩

/-- Signature requirements are monotone in the signer set: whatever is satisfied by `s1` is
satisfied by any signer list containing it. -/
theorem withPartiesOk_mono (env : Env) (mt : MsgType) (req avail : List Party) (roles : List Role)
    (s1 s2 : List Addr) (hsub : ∀ x ∈ s1, x ∈ s2)
    (h : Spec.withPartiesOk env mt req avail roles s1 = true) :
    Spec.withPartiesOk env mt req avail roles s2 = true := by
  simp only [Spec.withPartiesOk, Bool.and_eq_true] at h ⊢
  refine ⟨⟨?_, ?_⟩, h.2⟩
  · rw [requiredCovered_iff] at h ⊢
    exact fun r hr ho => covered_mono env mt s1 s2 hsub _ (h.1.1 r hr ho)
  · have h2 := h.1.2
    unfold Spec.rolesCovered at h2 ⊢
    rw [List.all_eq_true] at h2 ⊢
    intro r hr
    have := h2 r hr
    simp only [decide_eq_true_eq] at this ⊢
    refine Nat.le_trans this ?_
    unfold Spec.coveredWithRole
    rw [← List.countP_eq_length_filter, ← List.countP_eq_length_filter]
    apply List.countP_mono_left
    intro k _ hk
    simp only [Bool.and_eq_true] at hk ⊢
    exact ⟨hk.1, covered_mono env mt s1 s2 hsub _ hk.2⟩

/-- "More signatures never hurt": when no smart contract signs, a write accepted with signers
`s1` is accepted with any signer list that contains them (in any order, with repeats). -/
theorem more_signers_never_hurt (env : Env) (hv : env.valid "" = false)
    (mt : MsgType) (req avail : List Party) (roles : List Role) (s1 s2 : List Addr)
    (hsub : ∀ x ∈ s1, x ∈ s2) (hnc1 : NoContracts env s1) (hnc2 : NoContracts env s2)
    (h : Accepts (validateSignersWithParties env mt req avail roles s1)) :
    Accepts (validateSignersWithParties env mt req avail roles s2) := by
  rw [validateSignersWithParties_accepts_iff_spec env hv mt req avail roles _ hnc1] at h
  rw [validateSignersWithParties_accepts_iff_spec env hv mt req avail roles _ hnc2]
  exact withPartiesOk_mono env mt req avail roles s1 s2 hsub h

/-- The order (and multiplicity) of ordinary signers does not matter. -/
theorem signer_order_irrelevant (env : Env) (hv : env.valid "" = false)
    (mt : MsgType) (req avail : List Party) (roles : List Role) (s1 s2 : List Addr)
    (hsame : ∀ x, x ∈ s1 ↔ x ∈ s2) (hnc : NoContracts env s1) :
    Accepts (validateSignersWithParties env mt req avail roles s1) ↔
      Accepts (validateSignersWithParties env mt req avail roles s2) := by
  have hnc2 : NoContracts env s2 := fun s hs => hnc s ((hsame s).mpr hs)
  exact ⟨more_signers_never_hurt env hv mt req avail roles s1 s2 (fun x hx => (hsame x).mp hx) hnc hnc2,
    more_signers_never_hurt env hv mt req avail roles s2 s1 (fun x hx => (hsame x).mpr hx) hnc2 hnc⟩

/-! ### without parties (no party rollup) -/

/-- `ValidateSignersWithoutParties` accepts ⇔ every listed address is covered and the
smart-contract signer rule holds for the signers recorded. -/
theorem validateSignersWithoutParties_accepts_iff (env : Env) (hv : env.valid "" = false)
    (mt : MsgType) (required signers : List Addr) :
    Accepts (validateSignersWithoutParties env mt required signers) ↔
      Spec.withoutPartiesOk env mt required signers = true ∧
      ∃ ps, validateAllRequiredSigned env mt required signers = .ok ps ∧
        Spec.smartContractOk env mt (getUsedSigners ps) signers = true := by
  obtain ⟨c1, c2⟩ := validateAllRequiredSigned_char env mt required signers hv
  unfold validateSignersWithoutParties
  constructor
  · rintro ⟨out, hout⟩
    by_cases hs : Spec.withoutPartiesOk env mt required signers = true
    · rw [c2 hs] at hout ⊢
      simp only at hout
      cases hsc : validateSmartContractSigners env mt
          (getUsedSigners ((required.map wrapAddr).map (stage1fn env mt signers))) signers with
      | some e => rw [hsc] at hout; cases hout
      | none => exact ⟨hs, _, rfl, (smart_contract_rule env mt _ signers).mp hsc⟩
    · obtain ⟨who, h⟩ := c1 (by simpa using hs)
      rw [h] at hout; cases hout
  · rintro ⟨hs, ps, hps, hsc⟩
    have hsc' := (smart_contract_rule env mt _ signers).mpr hsc
    exact ⟨ps, by simp [hps, hsc']⟩

theorem validateSignersWithoutParties_accepts_iff_spec (env : Env) (hv : env.valid "" = false)
    (mt : MsgType) (required signers : List Addr) (hnc : NoContracts env signers) :
    Accepts (validateSignersWithoutParties env mt required signers) ↔
      ∀ a ∈ required, Spec.signsDirectly signers a = true ∨ Spec.signsViaAuthz env mt signers a = true := by
  rw [validateSignersWithoutParties_accepts_iff env hv]
  have hiff : Spec.withoutPartiesOk env mt required signers = true ↔
      ∀ a ∈ required, Spec.signsDirectly signers a = true ∨ Spec.signsViaAuthz env mt signers a = true := by
    simp [Spec.withoutPartiesOk, Spec.covered]
  rw [hiff]
  constructor
  · exact fun h => h.1
  · intro h
    refine ⟨h, ?_⟩
    obtain ⟨_, c2⟩ := validateAllRequiredSigned_char env mt required signers hv
    exact ⟨_, c2 (hiff.mpr h), smartContractOk_of_noContracts env mt _ signers hnc⟩

/-! ### "the required roles are present" (no signatures) -/

/-- `validateRolesPresent` accepts iff each required role has as many distinct parties. -/
theorem validateRolesPresent_accepts_iff (parties : List Party) (roles : List Role) :
    validateRolesPresent parties roles = none ↔ Spec.rolesPresent parties roles = true :=
  validateRolesPresent_none_iff parties roles

/-! ### non-vacuity -/

/-- the documentation's example (01_concepts.md:116): scope owner `A` (CONTROLLER, required),
`B`, `C` optional SERVICERs; a contract spec that requires a SERVICER. -/
def exEnv : Env := { valid := fun a => a != "", wasm := fun _ => false, grant := fun g e t => g == "B" && e == "A" && t == "WriteSession" }
def exOwners : List Party := [⟨"A", 10, false⟩, ⟨"B", 2, true⟩, ⟨"C", 2, true⟩]

example : exEnv.valid "" = false := by decide
example : NoContracts exEnv ["A", "C"] := by intro s hs; simp at hs; rcases hs with rfl | rfl <;> decide
-- A and C sign: accepted; A alone: rejected (no SERVICER signs); A alone but B granted A: accepted
example : Spec.withPartiesOk exEnv "WriteSession" exOwners exOwners [2] ["A", "C"] = true := by decide
example : Spec.withPartiesOk exEnv "WriteScope" exOwners exOwners [2] ["A"] = false := by decide
example : Spec.withPartiesOk exEnv "WriteRecord" exOwners exOwners [2] ["A"] = true := by decide
example : (validateSignersWithParties exEnv "WriteRecord" exOwners exOwners [2] ["A"]).toBool = true := by decide
example : (validateSignersWithParties exEnv "WriteScope" exOwners exOwners [2] ["A"]).toBool = false := by decide
-- the hypotheses of `all_sign_directly_accepts` are met by: A and C sign, one SERVICER required
example : ∀ p ∈ exOwners, p.optional = false → Spec.signsDirectly ["A", "C"] p.address = true := by decide
example : ∀ r ∈ [2], [2].count r ≤
    ((Spec.distinctParties exOwners).filter fun k => k.2 == r && Spec.signsDirectly ["A", "C"] k.1).length := by decide
example : Spec.provenanceRoleOk exEnv exOwners = true := by decide
-- `more_signers_never_hurt` / `signer_order_irrelevant`: ["A","C"] ⊆ ["C","B","A"], both without contracts
example : ∀ x ∈ ["A", "C"], x ∈ ["C", "B", "A"] := by decide
example : (validateSignersWithParties exEnv "WriteSession" exOwners exOwners [2] ["C", "B", "A"]).toBool = true := by decide
-- greedy: two SERVICER entries need both B and C
example : Spec.withPartiesOk exEnv "WriteSession" exOwners exOwners [2, 2] ["A", "C"] = true := by decide
example : Spec.withPartiesOk exEnv "DeleteRecord" exOwners exOwners [2, 2] ["A", "C"] = false := by decide

end PvProofs.C10
