/-
C14 (store) — metadata entries keep referential integrity and faithful lookups.

Property theorems only (helper lemmas live in `PvProofs/Lemmas/Md*.lean`).  Every statement is
for ALL histories of operations (writes of scopes / sessions / records / the three kinds of
specification, owner and data-access changes, value-owner changes, record moves between sessions,
deletions, net-asset-value writes, direct `RemoveSession` calls), ALL identifiers and EVERY
record-name hash function `H` (no property of sha256 is assumed; names that collide under `H`
are covered) and EVERY function `B` from address texts to accounts (nothing is assumed about
bech32: two texts may denote the same account — lower-case and upper-case spelling — and the
stored lists, the duplicate checks and the add/remove messages work on texts while index keys and
the by-address queries work on accounts).  A rejected operation leaves the state unchanged
(transaction rollback).

The model is also the code with the repair 2f403d307 ("fix: specification owner index lost
entries when an owner was re-spelled"): `indexContractSpecification` / `indexScopeSpecification`
diff the owner lists by ACCOUNT (`findMissingOwners`), like the scope index always did, so ALL
five lookups are exact for all histories and all spellings.

HISTORICAL: before 2f403d307 the two specification indexers diffed the owner lists as TEXTS but
built the index keys from the decoded accounts, adds first, removals second; re-writing a
specification with an owner re-spelled (`pb1…` -> `PB1…`) set and then deleted the same key, and
the by-owner lookup no longer listed a specification whose stored content names the account.  The
`…_before_fix` theorems at `setContractSpecificationPreFix` / `setScopeSpecificationPreFix` are
the negation witnesses about that code (finding C14-spec-owner-respelling-drops-index-entry, now
fixed).
-/
import PvProofs.Lemmas.MdStoreMsgs

namespace PvProofs.C14
open PvModel.MdStore PvProofs.MdLemmas

/-! ### the invariant over all histories -/

theorem inv_empty (B : Addr → Addr) : FullInv B State.empty := by
  refine ⟨⟨?_, ?_, ?_, ?_, ?_, ?_, ?_, ?_, ?_, ?_, ?_⟩, ?_⟩ <;>
    simp [State.empty, KeysUnique, RecordsHaveSession, RecordsHaveScope, RecordsInSessionScope,
      AddrScopeExact, SpecScopeExact, OwnerScopeSpecExact, CSpecScopeSpecExact, OwnerCSpecExact,
      ValueOwnersHaveScope, NavsHaveScope, IdxExact, IdxSound, IdxComplete, SessionsHaveScope]

/-- `DeleteScope` (RemoveScope + RemoveNetAssetValues) preserves the full invariant -/
theorem removeScope_ok (B : Addr → Addr) (st : State) (id : UUID) (sc : Scope) (h : FullInv B st)
    (hsc : kget (·.id) st.scopes id = some sc) :
    FullInv B (removeNetAssetValues (removeScope B st id) id) :=
  ⟨(deleteScope_spec h.1 id sc hsc).1, (deleteScope_spec h.1 id sc hsc).2.2 h.2⟩

/-- one operation (accepted or rejected) keeps the full invariant -/
theorem inv_step (B : Addr → Addr) (H : String → NameKey) (st : State) (op : Op) (h : FullInv B st) :
    FullInv B (stepWith B (removeScope B) H st op) := by
  unfold stepWith
  split
  · rename_i st' hr
    exact ⟨applyOpWith_inv (removeScope B) (fun st id sc hi hsc => (deleteScope_spec hi id sc hsc).1) H h.1 op hr,
      applyOpWith_shs (removeScope B) (fun st id sc hi hs hsc => (deleteScope_spec hi id sc hsc).2.2 hs) H h.1 h.2 op hr⟩
  · exact h

/-- After EVERY history, from any state that satisfies it, whatever texts spell which account:
store keys are unique; every session and every record belongs to an existing scope; every record
belongs to an existing session of its own scope; the by-address lookup of scopes lists exactly
the (account, scope) pairs where a stored owner / data-access text denotes the account; the
by-specification lookup of scopes, the by-contract-specification lookup of scope specifications
and the two by-owner lookups of specifications (by account, like the scopes') list exactly the
pairs the stored content names; value-owner coins and net asset values exist only for existing
scopes. -/
theorem refInv_run (B : Addr → Addr) (H : String → NameKey) (st : State) (ops : List Op) (h : FullInv B st) :
    FullInv B (run B H st ops) := by
  unfold run runWith
  induction ops generalizing st with
  | nil => exact h
  | cons op t ih => exact ih _ (inv_step B H st op h)

/-- the same from the empty store: every reachable state -/
theorem refInv_reachable (B : Addr → Addr) (H : String → NameKey) (ops : List Op) :
    FullInv B (run B H State.empty ops) :=
  refInv_run B H State.empty ops (inv_empty B)

/-! ### the by-owner lookups of specifications -/

/-- Both by-owner lookups of specifications are EXACT (by account) after every history, whatever
the spellings used and re-used. -/
theorem ownerLookups_exact (B : Addr → Addr) (H : String → NameKey) (ops : List Op) :
    OwnerScopeSpecExact B (run B H State.empty ops) ∧ OwnerCSpecExact B (run B H State.empty ops) :=
  ⟨(refInv_reachable B H ops).1.ownerScopeSpec, (refInv_reachable B H ops).1.ownerCSpec⟩

/-- a `B` with two spellings of one account, for the witnesses: `A^` is account `A` -/
def witnessB (a : Addr) : Addr := if a = "A^" then "A" else a

/-- The history that lost a by-owner entry before the repair 2f403d307: write a contract
specification owned by `A`, then write it again with the owner spelled `A^` (the same account). -/
def respellWitness : List Op := [
  .writeContractSpec { id := "c1", owners := ["A"] },
  .writeContractSpec { id := "c1", owners := ["A^"] } ]

/-- the same two writes on the keeper as it was before 2f403d307 -/
def respellStatePreFix : State :=
  setContractSpecificationPreFix witnessB
    (setContractSpecificationPreFix witnessB State.empty { id := "c1", owners := ["A"] })
    { id := "c1", owners := ["A^"] }

/-- HISTORICAL NEGATION WITNESS (code before 2f403d307; finding
C14-spec-owner-respelling-drops-index-entry): after the two writes the stored contract
specification `c1` named account `A` (its owner text `A^` denotes it) but the by-owner lookup of
account `A` listed nothing. -/
theorem contractSpecsForOwner_incomplete_before_fix :
    ¬ OwnerCSpecComplete witnessB respellStatePreFix ∧
    respellStatePreFix.contractSpecs = [{ id := "c1", owners := ["A^"] }] ∧
    witnessB "A^" = "A" ∧
    contractSpecsForOwner respellStatePreFix "A" = [] ∧
    contractSpecsForOwner
      (setContractSpecificationPreFix witnessB State.empty { id := "c1", owners := ["A"] }) "A" = ["c1"] := by
  decide

/-- on the current code the same history keeps the entry (both writes accepted) -/
theorem respellWitness_entry_kept :
    (run witnessB id State.empty respellWitness).contractSpecs = [{ id := "c1", owners := ["A^"] }] ∧
    contractSpecsForOwner (run witnessB id State.empty respellWitness) "A" = ["c1"] ∧
    OwnerCSpecExact witnessB (run witnessB id State.empty respellWitness) := by
  decide

/-- the same for scope specifications -/
def respellWitnessP : List Op := [
  .writeScopeSpec { id := "p1", owners := ["A", "B"], cspecs := [] },
  .writeScopeSpec { id := "p1", owners := ["A^", "B"], cspecs := [] } ]

def respellStatePPreFix : State :=
  setScopeSpecificationPreFix witnessB
    (setScopeSpecificationPreFix witnessB State.empty { id := "p1", owners := ["A", "B"], cspecs := [] })
    { id := "p1", owners := ["A^", "B"], cspecs := [] }

theorem scopeSpecsForOwner_incomplete_before_fix :
    ¬ OwnerScopeSpecComplete witnessB respellStatePPreFix ∧
    respellStatePPreFix.scopeSpecs = [{ id := "p1", owners := ["A^", "B"], cspecs := [] }] ∧
    scopeSpecsForOwner respellStatePPreFix "A" = [] ∧
    scopeSpecsForOwner respellStatePPreFix "B" = ["p1"] ∧
    scopeSpecsForOwner (run witnessB id State.empty respellWitnessP) "A" = ["p1"] ∧
    scopeSpecsForOwner (run witnessB id State.empty respellWitnessP) "B" = ["p1"] := by
  decide

/-- The history that broke the claim before the repair: write a scope and a session, never a
record, delete the scope. -/
def orphanWitness : List Op := [
  .writeContractSpec { id := "c1", owners := ["A"] },
  .writeScopeSpec { id := "p1", owners := ["A"], cspecs := ["c1"] },
  .writeScope { id := "s1", spec := "p1", owners := ["A"], dataAccess := [] } "" 0,
  .writeSession { id := ⟨"s1", "x1"⟩, spec := "c1", parties := ["A"], name := "sess" },
  .deleteScope "s1" ]

/-- HISTORICAL NEGATION WITNESS (code before ab8bb51a7): "sessions always belong to an existing
scope" failed after `orphanWitness` (every operation of which is accepted). -/
theorem sessions_have_scope_false_before_fix :
    ¬ SessionsHaveScope (runPreFix id id State.empty orphanWitness) := by
  decide

/-- each operation of the witness history is accepted (the witness is not vacuous), and on the
current code the same history leaves no session -/
theorem orphanWitness_all_accepted :
    (runPreFix id id State.empty orphanWitness).sessions.map (·.id) = [⟨"s1", "x1"⟩] ∧
    (runPreFix id id State.empty orphanWitness).scopes = [] ∧
    (runPreFix id id State.empty (orphanWitness.take 4)).scopes.map (·.id) = ["s1"] ∧
    (run id id State.empty orphanWitness).sessions = [] ∧
    (run id id State.empty (orphanWitness.take 4)).sessions.map (·.id) = [⟨"s1", "x1"⟩] := by
  decide

/-! ### what the invariant says, in the property's words -/

/-- Records always belong to an existing session OF AN EXISTING SCOPE, after every history. -/
theorem record_has_session_and_scope (B : Addr → Addr) (H : String → NameKey) (ops : List Op) :
    ∀ r ∈ (run B H State.empty ops).records,
      (∃ x ∈ (run B H State.empty ops).sessions, x.id = r.session ∧ x.id.scope = r.id.scope) ∧
      (∃ sc ∈ (run B H State.empty ops).scopes, sc.id = r.id.scope) := by
  intro r hr
  have h := (refInv_reachable B H ops).1
  obtain ⟨x, hx, hxr⟩ := h.recSession r hr
  exact ⟨⟨x, hx, hxr, by rw [hxr]; exact h.recInScope r hr⟩, h.recScope r hr⟩

/-- Sessions always belong to an existing scope, after every history. -/
theorem session_has_scope (B : Addr → Addr) (H : String → NameKey) (ops : List Op) :
    ∀ x ∈ (run B H State.empty ops).sessions, ∃ sc ∈ (run B H State.empty ops).scopes, sc.id = x.id.scope :=
  (refInv_reachable B H ops).2

/-- The by-address lookup of an ACCOUNT lists exactly the scopes one of whose stored owner or
data-access TEXTS denotes that account — after every history, whatever the spellings used, added
or removed. -/
theorem scopesForAddress_exact (B : Addr → Addr) (H : String → NameKey) (ops : List Op) (acct : Addr) (id : UUID) :
    id ∈ scopesForAddress (run B H State.empty ops) acct ↔
      ∃ sc ∈ (run B H State.empty ops).scopes, sc.id = id ∧
        ∃ a, (a ∈ sc.owners ∨ a ∈ sc.dataAccess) ∧ B a = acct := by
  have h := idxExact_iff.mp ((refInv_reachable B H ops).1).addrScope acct id
  simp only [scopesForAddress, List.mem_map, List.mem_filter, decide_eq_true_eq, Prod.exists]
  constructor
  · rintro ⟨a', id', ⟨hm, rfl⟩, rfl⟩
    obtain ⟨sc, hsc, e, hb⟩ := h.mp hm
    obtain ⟨a, ha, rfl⟩ := List.mem_map.mp hb
    exact ⟨sc, hsc, e, a, List.mem_append.mp ha, rfl⟩
  · rintro ⟨sc, hsc, e, a, ha, rfl⟩
    exact ⟨B a, id, ⟨h.mpr ⟨sc, hsc, e, List.mem_map.mpr ⟨a, List.mem_append.mpr ha, rfl⟩⟩, rfl⟩, rfl⟩

/-- In particular: as long as one text naming the account stays in the stored scope, removing or
replacing ANOTHER text of the same account (its upper-case spelling, say) keeps the scope in the
account's by-address lookup. -/
theorem scopesForAddress_keeps_named_account (B : Addr → Addr) (H : String → NameKey) (ops : List Op)
    (sc : Scope) (hsc : sc ∈ (run B H State.empty ops).scopes) (a : Addr)
    (ha : a ∈ sc.owners ∨ a ∈ sc.dataAccess) :
    sc.id ∈ scopesForAddress (run B H State.empty ops) (B a) :=
  (scopesForAddress_exact B H ops (B a) sc.id).mpr ⟨sc, hsc, rfl, a, ha, rfl⟩

/-- The by-specification lookup lists exactly the scopes whose stored specification id is it. -/
theorem scopesForScopeSpec_exact (B : Addr → Addr) (H : String → NameKey) (ops : List Op) (sp : UUID) (id : UUID) :
    id ∈ scopesForScopeSpec (run B H State.empty ops) sp ↔
      ∃ sc ∈ (run B H State.empty ops).scopes, sc.id = id ∧ sc.spec = sp := by
  have h := idxExact_iff.mp ((refInv_reachable B H ops).1).specScope sp id
  simp only [scopesForScopeSpec, List.mem_map, List.mem_filter, decide_eq_true_eq, Prod.exists]
  constructor
  · rintro ⟨a', id', ⟨hm, rfl⟩, rfl⟩
    obtain ⟨sc, hsc, e, hb⟩ := h.mp hm
    exact ⟨sc, hsc, e, (List.mem_singleton.mp hb).symm⟩
  · rintro ⟨sc, hsc, e, rfl⟩
    exact ⟨sc.spec, id, ⟨h.mpr ⟨sc, hsc, e, by simp⟩, rfl⟩, rfl⟩

/-- The by-owner lookup of an ACCOUNT lists exactly the scope specifications one of whose stored
owner TEXTS denotes the account — after every history, whatever the spellings. -/
theorem scopeSpecsForOwner_exact (B : Addr → Addr) (H : String → NameKey) (ops : List Op) (acct : Addr) (id : UUID) :
    id ∈ scopeSpecsForOwner (run B H State.empty ops) acct ↔
      ∃ sp ∈ (run B H State.empty ops).scopeSpecs, sp.id = id ∧ ∃ a ∈ sp.owners, B a = acct := by
  have h := idxExact_iff.mp (ownerLookups_exact B H ops).1 acct id
  simp only [scopeSpecsForOwner, List.mem_map, List.mem_filter, decide_eq_true_eq, Prod.exists]
  constructor
  · rintro ⟨a', id', ⟨hm, rfl⟩, rfl⟩
    simpa using h.mp hm
  · intro hx
    exact ⟨acct, id, ⟨h.mpr (by simpa using hx), rfl⟩, rfl⟩

/-- The by-contract-specification lookup lists exactly the scope specifications whose stored
contract-specification list contains it. -/
theorem scopeSpecsForContractSpec_exact (B : Addr → Addr) (H : String → NameKey) (ops : List Op) (c : UUID) (id : UUID) :
    id ∈ scopeSpecsForContractSpec (run B H State.empty ops) c ↔
      ∃ sp ∈ (run B H State.empty ops).scopeSpecs, sp.id = id ∧ c ∈ sp.cspecs := by
  have h := idxExact_iff.mp ((refInv_reachable B H ops).1).cspecScopeSpec c id
  simp only [scopeSpecsForContractSpec, List.mem_map, List.mem_filter, decide_eq_true_eq, Prod.exists]
  constructor
  · rintro ⟨a', id', ⟨hm, rfl⟩, rfl⟩
    exact h.mp hm
  · intro hx
    exact ⟨c, id, ⟨h.mpr hx, rfl⟩, rfl⟩

/-- In particular, whatever the MULTIPLICITIES (nothing rejects a contract-specification list
that names an id more than once, and a rewrite may list it more or fewer times): a contract
specification the stored scope specification lists at least once is in the
by-contract-specification lookup after every history … -/
theorem scopeSpecsForContractSpec_keeps_listed (B : Addr → Addr) (H : String → NameKey) (ops : List Op)
    (sp : ScopeSpec) (hsp : sp ∈ (run B H State.empty ops).scopeSpecs) (c : UUID) (hc : c ∈ sp.cspecs) :
    sp.id ∈ scopeSpecsForContractSpec (run B H State.empty ops) c :=
  (scopeSpecsForContractSpec_exact B H ops c sp.id).mpr ⟨sp, hsp, rfl, hc⟩

/-- The by-owner lookup of an ACCOUNT lists exactly the contract specifications one of whose
stored owner TEXTS denotes the account — after every history, whatever the spellings. -/
theorem contractSpecsForOwner_exact (B : Addr → Addr) (H : String → NameKey) (ops : List Op) (acct : Addr) (id : UUID) :
    id ∈ contractSpecsForOwner (run B H State.empty ops) acct ↔
      ∃ sp ∈ (run B H State.empty ops).contractSpecs, sp.id = id ∧ ∃ a ∈ sp.owners, B a = acct := by
  have h := idxExact_iff.mp (ownerLookups_exact B H ops).2 acct id
  simp only [contractSpecsForOwner, List.mem_map, List.mem_filter, decide_eq_true_eq, Prod.exists]
  constructor
  · rintro ⟨a', id', ⟨hm, rfl⟩, rfl⟩
    simpa using h.mp hm
  · intro hx
    exact ⟨acct, id, ⟨h.mpr (by simpa using hx), rfl⟩, rfl⟩

/-- The by-value-owner lookup only lists existing scopes, and a scope is listed for at most one
address. -/
theorem scopesForValueOwner_sound (B : Addr → Addr) (H : String → NameKey) (ops : List Op) (a b : Addr) (id : UUID)
    (ha : id ∈ scopesForValueOwner (run B H State.empty ops) a) :
    (∃ sc ∈ (run B H State.empty ops).scopes, sc.id = id) ∧
    (id ∈ scopesForValueOwner (run B H State.empty ops) b → a = b) := by
  have h := (refInv_reachable B H ops).1
  simp only [scopesForValueOwner, List.mem_map, List.mem_filter, decide_eq_true_eq] at ha ⊢
  obtain ⟨p, ⟨hp, rfl⟩, rfl⟩ := ha
  refine ⟨h.voScope p hp, ?_⟩
  rintro ⟨q, ⟨hq, rfl⟩, e⟩
  have := kget_unique (key := fun p : UUID × Addr => p.1) h.keys.2.2.2.2.2.2 hq hp e
  rw [this]

/-! ### removal guards: a specification in use is not removed -/

/-- A scope specification named by a stored scope cannot be deleted (on any reachable state). -/
theorem scopeSpec_in_use_not_removed (B : Addr → Addr) (st st' : State) (id : UUID) (h : PvModel.MdStore.Inv B st)
    (hr : deleteScopeSpecification B st id = .ok st') : ∀ sc ∈ st.scopes, sc.spec ≠ id := by
  intro sc hsc e
  simp only [deleteScopeSpecification, removeScopeSpecification] at hr
  split at hr
  · cases hr
  · split at hr
    · cases hr
    · rename_i hu
      have : (sc.spec, sc.id) ∈ st.idxSpecScope := h.specScope.2 sc hsc sc.spec (by simp)
      simp only [isScopeSpecUsed, List.any_eq_true, decide_eq_true_eq, not_exists, not_and] at hu
      exact hu _ this e

/-- A contract specification listed by a stored scope specification cannot be deleted. -/
theorem contractSpec_in_use_not_removed (B : Addr → Addr) (st st' : State) (id : UUID) (h : PvModel.MdStore.Inv B st)
    (hr : deleteContractSpecification B st id = .ok st') : ∀ sp ∈ st.scopeSpecs, id ∉ sp.cspecs := by
  intro sp hsp e
  simp only [deleteContractSpecification, removeContractSpecification] at hr
  split at hr
  · cases hr
  · split at hr
    · cases hr
    · rename_i hu
      have : (id, sp.id) ∈ st.idxCSpecScopeSpec := h.cspecScopeSpec.2 sp hsp id e
      simp only [isContractSpecUsed, Bool.or_eq_true, List.any_eq_true, decide_eq_true_eq, not_or,
        not_exists, not_and] at hu
      exact hu.1 _ this rfl

/-- … and on every reachable state a contract specification that a stored scope specification
lists (once or several times) cannot be deleted. -/
theorem listed_contractSpec_not_removed (B : Addr → Addr) (H : String → NameKey) (ops : List Op)
    (sp : ScopeSpec) (hsp : sp ∈ (run B H State.empty ops).scopeSpecs) (c : UUID) (hc : c ∈ sp.cspecs)
    (st' : State) : deleteContractSpecification B (run B H State.empty ops) c ≠ .ok st' := by
  intro hr
  exact contractSpec_in_use_not_removed B _ st' c (refInv_reachable B H ops).1 hr sp hsp hc

/-! ### removing a session's last record removes the session -/

/-- `DeleteRecord`: if no record of the resulting state is in the deleted record's session, that
session is gone (no hypothesis on the state). -/
theorem last_record_removes_session (H : String → NameKey) (st st' : State) (scope : UUID) (name : String)
    (r : Record) (hr : deleteRecord H st scope name = .ok st')
    (hrec : kget (·.id) st.records ⟨scope, H name⟩ = some r)
    (hlast : ∀ q ∈ st'.records, q.session ≠ r.session) : ∀ x ∈ st'.sessions, x.id ≠ r.session := by
  simp only [deleteRecord] at hr
  split at hr
  · cases hr
  · cases hr
    simp only [removeRecord, hrec] at hlast ⊢
    simp only [removeSession] at hlast ⊢
    split
    · rename_i hc
      rw [if_pos hc] at hlast
      simp only [Bool.or_eq_true, Bool.not_eq_true'] at hc
      rcases hc with hc | hc
      · intro x hx e
        exact (khas_false_iff.mp hc) x hx e
      · exfalso
        simp only [sessionHasRecords, List.any_eq_true, decide_eq_true_eq] at hc
        obtain ⟨q, hq, _, hqs⟩ := hc
        exact hlast q hq hqs
    · intro x hx
      exact (mem_kdel.mp hx).2

/-- `WriteRecord` that moves a record to another session: if no record of the resulting state is
left in the old session, the old session is gone. -/
theorem record_move_removes_emptied_session (H : String → NameKey) (st st' : State) (sid : SessionId)
    (name : String) (g : Option RecSpecId) (r : Record) (hr : writeRecord H st sid name g = .ok st')
    (hrec : kget (·.id) st.records ⟨sid.scope, H name⟩ = some r) (hmove : r.session ≠ sid)
    (hlast : ∀ q ∈ st'.records, q.session ≠ r.session) : ∀ x ∈ st'.sessions, x.id ≠ r.session := by
  simp only [writeRecord, hrec] at hr
  repeat' split at hr
  all_goals cases hr
  all_goals
    simp only [removeSession] at hlast ⊢
    split
    · rename_i hc
      rw [if_pos hc] at hlast
      simp only [Bool.or_eq_true, Bool.not_eq_true'] at hc
      rcases hc with hc | hc
      · intro x hx e
        exact (khas_false_iff.mp hc) x hx e
      · exfalso
        simp only [sessionHasRecords, List.any_eq_true, decide_eq_true_eq] at hc
        obtain ⟨q, hq, _, hqs⟩ := hc
        exact hlast q hq hqs
    · intro x hx
      exact (mem_kdel.mp hx).2

/-! ### deleting a scope removes all of its sessions, records, lookups and net asset values -/

/-- `DeleteScope` leaves nothing of the scope: no scope entry, no session, no record, no entry in
the by-address and by-specification lookups, no value-owner coin, no net asset value. -/
theorem deleteScope_removes_everything (B : Addr → Addr) (st st' : State) (id : UUID) (h : PvModel.MdStore.Inv B st)
    (hr : deleteScope B st id = .ok st') : ScopeGone st' id := by
  simp only [deleteScope, deleteScopeWith] at hr
  split at hr
  · cases hr
  · rename_i hk
    cases hr
    have hk' : khas (fun x : Scope => x.id) st.scopes id = true := by simpa using hk
    obtain ⟨sc, hsc⟩ := Option.isSome_iff_exists.mp (kget_isSome_iff.mpr (khas_iff.mp hk'))
    exact (deleteScope_spec h id sc hsc).2.1

/-- HISTORICAL NEGATION WITNESS (code before ab8bb51a7): after `DeleteScope s1` in
`orphanWitness` a session of `s1` was still stored. -/
theorem deleteScope_leaves_recordless_session_before_fix :
    ¬ ScopeGone (runPreFix id id State.empty orphanWitness) "s1" := by decide

/-- on the current code the same history leaves nothing of `s1` -/
theorem orphanWitness_scope_gone : ScopeGone (run id id State.empty orphanWitness) "s1" := by decide

/-- a rejected operation changes nothing -/
theorem rejected_op_changes_nothing (B : Addr → Addr) (H : String → NameKey) (st : State) (op : Op) (e : Err)
    (hr : applyOp B H st op = .error e) : stepWith B (removeScope B) H st op = st := by
  unfold stepWith
  unfold applyOp at hr
  rw [hr]

/-! ### non-vacuity: a history whose every step is accepted and that exercises the clauses -/

def sampleHistory : List Op := [
  .writeContractSpec { id := "c1", owners := ["A"] },
  .writeRecordSpec "c1" "n1",
  .writeScopeSpec { id := "p1", owners := ["A", "B"], cspecs := ["c1"] },
  .writeScope { id := "s1", spec := "p1", owners := ["A"], dataAccess := ["C"] } "D" 5,
  .writeSession { id := ⟨"s1", "x1"⟩, spec := "c1", parties := ["A"], name := "sess" },
  .writeSession { id := ⟨"s1", "x2"⟩, spec := "c1", parties := ["A"], name := "sess" },
  .writeRecord ⟨"s1", "x1"⟩ "n1" none,
  .writeRecord ⟨"s1", "x2"⟩ "n1" none ]

example : (run id id State.empty sampleHistory).records.map (·.session) = [⟨"s1", "x2"⟩] ∧
    (run id id State.empty sampleHistory).sessions.map (·.id) = [⟨"s1", "x2"⟩] ∧
    scopesForAddress (run id id State.empty sampleHistory) "C" = ["s1"] ∧
    scopesForValueOwner (run id id State.empty sampleHistory) "D" = ["s1"] ∧
    (run id id State.empty sampleHistory).navs = [("s1", "usd")] := by decide

example : ScopeGone (run id id State.empty (sampleHistory ++ [.deleteScope "s1"])) "s1" ∧
    (run id id State.empty sampleHistory).scopes.map (·.id) = ["s1"] := by decide

/-- two spellings of one account in a scope (`witnessB`: `A^` is account `A`): the data-access
text `A^` is added and removed again while the owner text `A` stays — account `A` keeps `s1` in
its by-address lookup; after the owner is re-spelled too it still does -/
def spellingHistory : List Op := [
  .writeContractSpec { id := "c1", owners := ["A"] },
  .writeScopeSpec { id := "p1", owners := ["A"], cspecs := ["c1"] },
  .writeScope { id := "s1", spec := "p1", owners := ["A"], dataAccess := [] } "" 0,
  .addDataAccess "s1" ["A^"],
  .delDataAccess "s1" ["A^"],
  .addOwners "s1" ["A^"],
  .delOwners "s1" ["A"] ]

example : scopesForAddress (run witnessB id State.empty (spellingHistory.take 4)) "A" = ["s1"] ∧
    ((run witnessB id State.empty (spellingHistory.take 4)).scopes.map (·.dataAccess)) = [["A^"]] ∧
    scopesForAddress (run witnessB id State.empty (spellingHistory.take 5)) "A" = ["s1"] ∧
    ((run witnessB id State.empty (spellingHistory.take 5)).scopes.map (·.owners)) = [["A"]] ∧
    scopesForAddress (run witnessB id State.empty spellingHistory) "A" = ["s1"] ∧
    ((run witnessB id State.empty spellingHistory).scopes.map (·.owners)) = [["A^"]] := by decide

/-- repeated entries: a scope specification that lists `c1` twice is rewritten listing it once
(other order, an owner listed twice): `c1` stays in the lookup and cannot be deleted -/
def multiplicityHistory : List Op := [
  .writeContractSpec { id := "c1", owners := ["A"] },
  .writeContractSpec { id := "c2", owners := ["A", "A"] },
  .writeScopeSpec { id := "p1", owners := ["A"], cspecs := ["c1", "c1", "c2"] },
  .writeScopeSpec { id := "p1", owners := ["A", "A"], cspecs := ["c2", "c1"] },
  .deleteContractSpec "c1" ]

example : scopeSpecsForContractSpec (run id id State.empty (multiplicityHistory.take 3)) "c1" = ["p1"] ∧
    (run id id State.empty (multiplicityHistory.take 4)).scopeSpecs.map (·.cspecs) = [["c2", "c1"]] ∧
    scopeSpecsForContractSpec (run id id State.empty (multiplicityHistory.take 4)) "c1" = ["p1"] ∧
    scopeSpecsForContractSpec (run id id State.empty (multiplicityHistory.take 4)) "c2" = ["p1"] ∧
    scopeSpecsForOwner (run id id State.empty (multiplicityHistory.take 4)) "A" = ["p1"] ∧
    "c1" ∈ (run id id State.empty multiplicityHistory).contractSpecs.map (·.id) := by decide

end PvProofs.C14
