/-
C14 (store) — metadata entries keep referential integrity and faithful lookups.

Property theorems only (helper lemmas live in `PvProofs/Lemmas/Md*.lean`).  Every statement is
for ALL histories of operations (writes of scopes / sessions / records / the three kinds of
specification, owner and data-access changes, value-owner changes, record moves between sessions,
deletions, net-asset-value writes, direct `RemoveSession` calls), ALL identifiers and EVERY
record-name hash function `H` (no property of sha256 is assumed; names that collide under `H`
are covered).  A rejected operation leaves the state unchanged (transaction rollback).

The model is the CURRENT code, i.e. with the repair ab8bb51a7 ("fix: RemoveScope left sessions
that never had a record"): `RemoveScope` removes the scope's remaining sessions after the record
walk.  The full claim — sessions and records always belong to an existing scope, records to an
existing session, all lookups exact, `DeleteScope` leaves nothing — is proved at full strength
(`refInv_run`, `refInv_reachable`, `deleteScope_removes_everything`).

HISTORICAL: before ab8bb51a7 `RemoveScope` (x/metadata/keeper/scope.go:169-198 at d172e538b)
walked only the scope's RECORDS and relied on `RemoveRecord` to drop each session with its last
record, so a session that never had a record survived `DeleteScope`.  The `…_before_fix`
theorems are the negation witnesses about that code (`removeScopePreFix` / `runPreFix`); they are
what the finding `C14-recordless-session-survives-scope-delete` (now fixed) replayed on the real
keeper.  The address half of the property is in `PvProofs/C14Addr.lean`.
-/
import PvProofs.Lemmas.MdStoreMsgs

namespace PvProofs.C14
open PvModel.MdStore PvProofs.MdLemmas

/-! ### the invariant over all histories -/

theorem inv_empty : FullInv State.empty := by
  refine ⟨⟨?_, ?_, ?_, ?_, ?_, ?_, ?_, ?_, ?_, ?_, ?_⟩, ?_⟩ <;>
    simp [State.empty, KeysUnique, RecordsHaveSession, RecordsHaveScope, RecordsInSessionScope,
      AddrScopeExact, SpecScopeExact, OwnerScopeSpecExact, CSpecScopeSpecExact, OwnerCSpecExact,
      ValueOwnersHaveScope, NavsHaveScope, IdxExact, SessionsHaveScope]

/-- `DeleteScope` (RemoveScope + RemoveNetAssetValues) preserves the full invariant -/
theorem removeScope_ok (st : State) (id : UUID) (sc : Scope) (h : FullInv st)
    (hsc : kget (·.id) st.scopes id = some sc) :
    FullInv (removeNetAssetValues (removeScope st id) id) :=
  ⟨(deleteScope_spec h.1 id sc hsc).1, (deleteScope_spec h.1 id sc hsc).2.2 h.2⟩

/-- one operation (accepted or rejected) keeps the full invariant -/
theorem inv_step (H : String → NameKey) (st : State) (op : Op) (h : FullInv st) :
    FullInv (stepWith removeScope H st op) := by
  unfold stepWith
  split
  · rename_i st' hr
    exact ⟨applyOpWith_inv removeScope (fun st id sc hi hsc => (deleteScope_spec hi id sc hsc).1) H h.1 op hr,
      applyOpWith_shs removeScope (fun st id sc hi hs hsc => (deleteScope_spec hi id sc hsc).2.2 hs) H h.1 h.2 op hr⟩
  · exact h

/-- After EVERY history, from any state that satisfies it: store keys are unique; every session
and every record belongs to an existing scope; every record belongs to an existing session of
its own scope; each of the five lookups lists exactly the (value, id) pairs the stored scopes /
specifications name; value-owner coins and net asset values exist only for existing scopes. -/
theorem refInv_run (H : String → NameKey) (st : State) (ops : List Op) (h : FullInv st) :
    FullInv (run H st ops) := by
  unfold run runWith
  induction ops generalizing st with
  | nil => exact h
  | cons op t ih => exact ih _ (inv_step H st op h)

/-- the same from the empty store: every reachable state -/
theorem refInv_reachable (H : String → NameKey) (ops : List Op) : FullInv (run H State.empty ops) :=
  refInv_run H State.empty ops inv_empty

/-- The history that broke the claim before the repair: write a scope and a session, never a
record, delete the scope. -/
def orphanWitness : List Op := [
  .writeContractSpec { id := "c1", owners := ["A"] },
  .writeScopeSpec { id := "p1", owners := ["A"], cspecs := ["c1"] },
  .writeScope { id := "s1", spec := "p1", owners := ["A"], dataAccess := [] } "" 0,
  .writeSession { id := ⟨"s1", "x1"⟩, spec := "c1", parties := ["A"], name := "sess" },
  .deleteScope "s1" ]

/-- HISTORICAL NEGATION WITNESS (code before ab8bb51a7): "sessions always belong to an existing
scope" failed after `orphanWitness` (every operation of which is accepted). -/
theorem sessions_have_scope_false_before_fix :
    ¬ SessionsHaveScope (runPreFix id State.empty orphanWitness) := by
  decide

/-- each operation of the witness history is accepted (the witness is not vacuous), and on the
current code the same history leaves no session -/
theorem orphanWitness_all_accepted :
    (runPreFix id State.empty orphanWitness).sessions.map (·.id) = [⟨"s1", "x1"⟩] ∧
    (runPreFix id State.empty orphanWitness).scopes = [] ∧
    (runPreFix id State.empty (orphanWitness.take 4)).scopes.map (·.id) = ["s1"] ∧
    (run id State.empty orphanWitness).sessions = [] ∧
    (run id State.empty (orphanWitness.take 4)).sessions.map (·.id) = [⟨"s1", "x1"⟩] := by
  decide

/-! ### what the invariant says, in the property's words -/

/-- Records always belong to an existing session OF AN EXISTING SCOPE, after every history. -/
theorem record_has_session_and_scope (H : String → NameKey) (ops : List Op) :
    ∀ r ∈ (run H State.empty ops).records,
      (∃ x ∈ (run H State.empty ops).sessions, x.id = r.session ∧ x.id.scope = r.id.scope) ∧
      (∃ sc ∈ (run H State.empty ops).scopes, sc.id = r.id.scope) := by
  intro r hr
  have h := (refInv_reachable H ops).1
  obtain ⟨x, hx, hxr⟩ := h.recSession r hr
  exact ⟨⟨x, hx, hxr, by rw [hxr]; exact h.recInScope r hr⟩, h.recScope r hr⟩

/-- Sessions always belong to an existing scope, after every history. -/
theorem session_has_scope (H : String → NameKey) (ops : List Op) :
    ∀ x ∈ (run H State.empty ops).sessions, ∃ sc ∈ (run H State.empty ops).scopes, sc.id = x.id.scope :=
  (refInv_reachable H ops).2

/-- The by-address lookup lists exactly the scopes whose stored owners or data-access list name
the address. -/
theorem scopesForAddress_exact (H : String → NameKey) (ops : List Op) (a : Addr) (id : UUID) :
    id ∈ scopesForAddress (run H State.empty ops) a ↔
      ∃ sc ∈ (run H State.empty ops).scopes, sc.id = id ∧ (a ∈ sc.owners ∨ a ∈ sc.dataAccess) := by
  have h := idxExact_iff.mp ((refInv_reachable H ops).1).addrScope a id
  simp only [scopesForAddress, List.mem_map, List.mem_filter, decide_eq_true_eq, Prod.exists]
  constructor
  · rintro ⟨a', id', ⟨hm, rfl⟩, rfl⟩
    simpa [Scope.addrs] using h.mp hm
  · intro hx
    exact ⟨a, id, ⟨h.mpr (by simpa [Scope.addrs] using hx), rfl⟩, rfl⟩

/-- The by-specification lookup lists exactly the scopes whose stored specification id is it. -/
theorem scopesForScopeSpec_exact (H : String → NameKey) (ops : List Op) (sp : UUID) (id : UUID) :
    id ∈ scopesForScopeSpec (run H State.empty ops) sp ↔
      ∃ sc ∈ (run H State.empty ops).scopes, sc.id = id ∧ sc.spec = sp := by
  have h := idxExact_iff.mp ((refInv_reachable H ops).1).specScope sp id
  simp only [scopesForScopeSpec, List.mem_map, List.mem_filter, decide_eq_true_eq, Prod.exists]
  constructor
  · rintro ⟨a', id', ⟨hm, rfl⟩, rfl⟩
    obtain ⟨sc, hsc, e, hb⟩ := h.mp hm
    exact ⟨sc, hsc, e, (List.mem_singleton.mp hb).symm⟩
  · rintro ⟨sc, hsc, e, rfl⟩
    exact ⟨sc.spec, id, ⟨h.mpr ⟨sc, hsc, e, by simp⟩, rfl⟩, rfl⟩

/-- The by-owner lookup lists exactly the scope specifications whose stored owners name the address. -/
theorem scopeSpecsForOwner_exact (H : String → NameKey) (ops : List Op) (a : Addr) (id : UUID) :
    id ∈ scopeSpecsForOwner (run H State.empty ops) a ↔
      ∃ sp ∈ (run H State.empty ops).scopeSpecs, sp.id = id ∧ a ∈ sp.owners := by
  have h := idxExact_iff.mp ((refInv_reachable H ops).1).ownerScopeSpec a id
  simp only [scopeSpecsForOwner, List.mem_map, List.mem_filter, decide_eq_true_eq, Prod.exists]
  constructor
  · rintro ⟨a', id', ⟨hm, rfl⟩, rfl⟩
    exact h.mp hm
  · intro hx
    exact ⟨a, id, ⟨h.mpr hx, rfl⟩, rfl⟩

/-- The by-contract-specification lookup lists exactly the scope specifications whose stored
contract-specification list contains it. -/
theorem scopeSpecsForContractSpec_exact (H : String → NameKey) (ops : List Op) (c : UUID) (id : UUID) :
    id ∈ scopeSpecsForContractSpec (run H State.empty ops) c ↔
      ∃ sp ∈ (run H State.empty ops).scopeSpecs, sp.id = id ∧ c ∈ sp.cspecs := by
  have h := idxExact_iff.mp ((refInv_reachable H ops).1).cspecScopeSpec c id
  simp only [scopeSpecsForContractSpec, List.mem_map, List.mem_filter, decide_eq_true_eq, Prod.exists]
  constructor
  · rintro ⟨a', id', ⟨hm, rfl⟩, rfl⟩
    exact h.mp hm
  · intro hx
    exact ⟨c, id, ⟨h.mpr hx, rfl⟩, rfl⟩

/-- The by-owner lookup lists exactly the contract specifications whose stored owners name the
address. -/
theorem contractSpecsForOwner_exact (H : String → NameKey) (ops : List Op) (a : Addr) (id : UUID) :
    id ∈ contractSpecsForOwner (run H State.empty ops) a ↔
      ∃ sp ∈ (run H State.empty ops).contractSpecs, sp.id = id ∧ a ∈ sp.owners := by
  have h := idxExact_iff.mp ((refInv_reachable H ops).1).ownerCSpec a id
  simp only [contractSpecsForOwner, List.mem_map, List.mem_filter, decide_eq_true_eq, Prod.exists]
  constructor
  · rintro ⟨a', id', ⟨hm, rfl⟩, rfl⟩
    exact h.mp hm
  · intro hx
    exact ⟨a, id, ⟨h.mpr hx, rfl⟩, rfl⟩

/-- The by-value-owner lookup only lists existing scopes, and a scope is listed for at most one
address. -/
theorem scopesForValueOwner_sound (H : String → NameKey) (ops : List Op) (a b : Addr) (id : UUID)
    (ha : id ∈ scopesForValueOwner (run H State.empty ops) a) :
    (∃ sc ∈ (run H State.empty ops).scopes, sc.id = id) ∧
    (id ∈ scopesForValueOwner (run H State.empty ops) b → a = b) := by
  have h := (refInv_reachable H ops).1
  simp only [scopesForValueOwner, List.mem_map, List.mem_filter, decide_eq_true_eq] at ha ⊢
  obtain ⟨p, ⟨hp, rfl⟩, rfl⟩ := ha
  refine ⟨h.voScope p hp, ?_⟩
  rintro ⟨q, ⟨hq, rfl⟩, e⟩
  have := kget_unique (key := fun p : UUID × Addr => p.1) h.keys.2.2.2.2.2.2 hq hp e
  rw [this]

/-! ### removal guards: a specification in use is not removed -/

/-- A scope specification named by a stored scope cannot be deleted (on any reachable state). -/
theorem scopeSpec_in_use_not_removed (st st' : State) (id : UUID) (h : PvModel.MdStore.Inv st)
    (hr : deleteScopeSpecification st id = .ok st') : ∀ sc ∈ st.scopes, sc.spec ≠ id := by
  intro sc hsc e
  simp only [deleteScopeSpecification, removeScopeSpecification] at hr
  split at hr
  · cases hr
  · split at hr
    · cases hr
    · rename_i hu
      have : (sc.spec, sc.id) ∈ st.idxSpecScope := h.specScope.2 sc hsc sc.spec (by simp)
      simp only [isScopeSpecUsed, List.any_eq_true, decide_eq_true_eq, not_exists, not_and] at hu
      exact hu _ this e

/-- A contract specification listed by a stored scope specification cannot be deleted. -/
theorem contractSpec_in_use_not_removed (st st' : State) (id : UUID) (h : PvModel.MdStore.Inv st)
    (hr : deleteContractSpecification st id = .ok st') : ∀ sp ∈ st.scopeSpecs, id ∉ sp.cspecs := by
  intro sp hsp e
  simp only [deleteContractSpecification, removeContractSpecification] at hr
  split at hr
  · cases hr
  · split at hr
    · cases hr
    · rename_i hu
      have : (id, sp.id) ∈ st.idxCSpecScopeSpec := h.cspecScopeSpec.2 sp hsp id e
      simp only [isContractSpecUsed, Bool.or_eq_true, List.any_eq_true, decide_eq_true_eq, not_or,
        not_exists, not_and] at hu
      exact hu.1 _ this rfl

/-! ### removing a session's last record removes the session -/

/-- `DeleteRecord`: if no record of the resulting state is in the deleted record's session, that
session is gone (no hypothesis on the state). -/
theorem last_record_removes_session (H : String → NameKey) (st st' : State) (scope : UUID) (name : String)
    (r : Record) (hr : deleteRecord H st scope name = .ok st')
    (hrec : kget (·.id) st.records ⟨scope, H name⟩ = some r)
    (hlast : ∀ q ∈ st'.records, q.session ≠ r.session) : ∀ x ∈ st'.sessions, x.id ≠ r.session := by
  simp only [deleteRecord] at hr
  split at hr
  · cases hr
  · cases hr
    simp only [removeRecord, hrec] at hlast ⊢
    simp only [removeSession] at hlast ⊢
    split
    · rename_i hc
      rw [if_pos hc] at hlast
      simp only [Bool.or_eq_true, Bool.not_eq_true'] at hc
      rcases hc with hc | hc
      · intro x hx e
        exact (khas_false_iff.mp hc) x hx e
      · exfalso
        simp only [sessionHasRecords, List.any_eq_true, decide_eq_true_eq] at hc
        obtain ⟨q, hq, _, hqs⟩ := hc
        exact hlast q hq hqs
    · intro x hx
      exact (mem_kdel.mp hx).2

/-- `WriteRecord` that moves a record to another session: if no record of the resulting state is
left in the old session, the old session is gone. -/
theorem record_move_removes_emptied_session (H : String → NameKey) (st st' : State) (sid : SessionId)
    (name : String) (g : Option RecSpecId) (r : Record) (hr : writeRecord H st sid name g = .ok st')
    (hrec : kget (·.id) st.records ⟨sid.scope, H name⟩ = some r) (hmove : r.session ≠ sid)
    (hlast : ∀ q ∈ st'.records, q.session ≠ r.session) : ∀ x ∈ st'.sessions, x.id ≠ r.session := by
  simp only [writeRecord, hrec] at hr
  repeat' split at hr
  all_goals cases hr
  all_goals
    simp only [removeSession] at hlast ⊢
    split
    · rename_i hc
      rw [if_pos hc] at hlast
      simp only [Bool.or_eq_true, Bool.not_eq_true'] at hc
      rcases hc with hc | hc
      · intro x hx e
        exact (khas_false_iff.mp hc) x hx e
      · exfalso
        simp only [sessionHasRecords, List.any_eq_true, decide_eq_true_eq] at hc
        obtain ⟨q, hq, _, hqs⟩ := hc
        exact hlast q hq hqs
    · intro x hx
      exact (mem_kdel.mp hx).2

/-! ### deleting a scope removes all of its sessions, records, lookups and net asset values -/

/-- `DeleteScope` leaves nothing of the scope: no scope entry, no session, no record, no entry in
the by-address and by-specification lookups, no value-owner coin, no net asset value. -/
theorem deleteScope_removes_everything (st st' : State) (id : UUID) (h : PvModel.MdStore.Inv st)
    (hr : deleteScope st id = .ok st') : ScopeGone st' id := by
  simp only [deleteScope, deleteScopeWith] at hr
  split at hr
  · cases hr
  · rename_i hk
    cases hr
    have hk' : khas (fun x : Scope => x.id) st.scopes id = true := by simpa using hk
    obtain ⟨sc, hsc⟩ := Option.isSome_iff_exists.mp (kget_isSome_iff.mpr (khas_iff.mp hk'))
    exact (deleteScope_spec h id sc hsc).2.1

/-- HISTORICAL NEGATION WITNESS (code before ab8bb51a7): after `DeleteScope s1` in
`orphanWitness` a session of `s1` was still stored. -/
theorem deleteScope_leaves_recordless_session_before_fix :
    ¬ ScopeGone (runPreFix id State.empty orphanWitness) "s1" := by decide

/-- on the current code the same history leaves nothing of `s1` -/
theorem orphanWitness_scope_gone : ScopeGone (run id State.empty orphanWitness) "s1" := by decide

/-- a rejected operation changes nothing -/
theorem rejected_op_changes_nothing (H : String → NameKey) (st : State) (op : Op) (e : Err)
    (hr : applyOp H st op = .error e) : stepWith removeScope H st op = st := by
  unfold stepWith
  unfold applyOp at hr
  rw [hr]

/-! ### non-vacuity: a history whose every step is accepted and that exercises the clauses -/

def sampleHistory : List Op := [
  .writeContractSpec { id := "c1", owners := ["A"] },
  .writeRecordSpec "c1" "n1",
  .writeScopeSpec { id := "p1", owners := ["A", "B"], cspecs := ["c1"] },
  .writeScope { id := "s1", spec := "p1", owners := ["A"], dataAccess := ["C"] } "D" 5,
  .writeSession { id := ⟨"s1", "x1"⟩, spec := "c1", parties := ["A"], name := "sess" },
  .writeSession { id := ⟨"s1", "x2"⟩, spec := "c1", parties := ["A"], name := "sess" },
  .writeRecord ⟨"s1", "x1"⟩ "n1" none,
  .writeRecord ⟨"s1", "x2"⟩ "n1" none ]

example : (run id State.empty sampleHistory).records.map (·.session) = [⟨"s1", "x2"⟩] ∧
    (run id State.empty sampleHistory).sessions.map (·.id) = [⟨"s1", "x2"⟩] ∧
    scopesForAddress (run id State.empty sampleHistory) "C" = ["s1"] ∧
    scopesForValueOwner (run id State.empty sampleHistory) "D" = ["s1"] ∧
    (run id State.empty sampleHistory).navs = [("s1", "usd")] := by decide

example : ScopeGone (run id State.empty (sampleHistory ++ [.deleteScope "s1"])) "s1" ∧
    (run id State.empty sampleHistory).scopes.map (·.id) = ["s1"] := by decide

end PvProofs.C14
