/-
C16 — Attributes: only the name's owner writes them; lookups and expiry are faithful.

Property theorems over the executable model `PvModel.Attr` (attribute + name keepers,
message servers, begin-blocker) of the CURRENT code (with the sweep as repaired by commit
f2249cacd), for ALL message sequences, signers, accounts, names, values, types, expirations
and block times (no bound, block times need not even increase).  `s0` is any state with an
empty attribute store (`Init`); `run s0 ops` is the state after the history `ops` (rejected
messages change nothing).  Helper lemmas: `PvProofs/Lemmas/Attr*`.

Clauses of the property and where they are proved:
 1. only the current owner of a name writes under it   → `only_name_owner_writes`,
    `writes_are_what_the_owner_signed`, `transfer_and_bind_keep_attributes`
 1b. names bound under RESTRICTED parents (only the parent's owner binds) → `bindNameUnder_refines`,
    `restricted_parent_only_owner_binds`, `runR_reachable`, `only_name_owner_writes_with_restricted_binds`;
    the owner's valid add is never refused → `add_accepted_iff`
 2. the lookup never omits a holder                     → `lookup_never_omits`
    (via the invariant `counter_dominates_records`; equality of counter and record count is
    FALSE of the code: `counter_can_exceed_records`; what the counter IS in general:
    `counter_is_records_plus_overwrites`, `counter_exact_iff_no_overwrite`)
 3. an attribute disappears only by owner deletion, name deletion or its stored expiration
    passing → `disappears_only_if` (all histories, every accepted message),
    `unexpired_survives_begin`, `on_witnesses`.
    Before commit f2249cacd the clause was false of the code (stale expiration-queue entries):
    `disappears_only_if_false_before_fix`, `verdict_on_witness_before_fix` (about `runPreFix`).
 4. an expired attribute is gone after the next block begins → FALSE of the code when more than
    `attribute.MaxExpiredAttributionCount` = 100 000 (`sweep_cap_is_100000`) attributes are
    expired when a block begins: the sweep stops after 100 000 deletions
    (`expired_survives_above_cap`, `expired_survives_begin_block_in_a_history`,
    `capped_sweep_witness`); what holds: `expired_gone_after_begin_partial` (up to the cap),
    `capped_sweep_removes_min` (exactly min(cap, expired) expired attributes go, in every case),
    `sweep_removes_min` (the same for `Keeper.DeleteExpiredAttributes` with any limit);
    the state invariant "no stored expiration is before the time of the last begun block":
    `no_stored_expiration_before_block_time_partial` (histories below the cap); the boundary
    (expiration = block time survives): `expiration_equal_to_block_time_survives`,
    `expiration_before_block_time_gone`, `expiry_boundary_witness`
 5. name deletion removes exactly the attributes under the name → `deleteName_purges_exactly`
 6. the checker run on the implementation is these conclusions → `verdict_ok`,
    `verdict_above_cap`, `verdictBulk_ok` (a transaction of many adds, op line `bulk`)
 6b. genesis export / import over this model (cited by C18): `PvProofs.C18Attr`
 7. names spelt non-normalised (mixed case, white space; `SOp` / `stepS` / `runS`): an accepted
    message does what the message with the normalised name does (`stepS_refines`,
    `runS_reachable`), so every clause holds with "the owner of the NORMALISED name"
    (`only_owner_of_normalised_name_writes`, `spelled_history_satisfies_property`,
    `verdict_ok_spelled`); a misspelt delete is never accepted (`misspelt_delete_refused`).
-/
import PvProofs.Lemmas.AttrStep
import PvProofs.Lemmas.AttrExact
import PvProofs.Lemmas.AttrBulk
import PvProofs.Lemmas.AttrGenesis
import PvProofs.Lemmas.AttrExcess

set_option linter.unusedSimpArgs false
set_option linter.unusedVariables false

namespace PvProofs.C16
open PvModel.Attr PvProofs.Lemmas.AttrStore PvProofs.Lemmas.AttrInv PvProofs.Lemmas.AttrSweep
  PvProofs.Lemmas.AttrStep PvProofs.Lemmas.AttrExact PvProofs.Lemmas.AttrCap PvProofs.Lemmas.AttrBulk
  PvProofs.Lemmas.AttrGenesis PvProofs.Lemmas.AttrExcess

/-- The error class a message is refused with (`none` = accepted). -/
def refusal (r : Except Err State) : Option Err :=
  match r with
  | .error e => some e
  | .ok _ => none

/-! ## Invariants of every reachable state -/

/-- All four store invariants (distinct keys, counter ≥ records, attributes only under bound
names, every stored expiration queued) hold after every history. -/
theorem invariants_hold (s0 : State) (h0 : Init s0) (ops : List Op) : Inv (run s0 ops) :=
  run_inv ops s0 (init_inv h0)

/-- The per-(name, account) counter is never below the number of attribute records. -/
theorem counter_dominates_records (s0 : State) (h0 : Init s0) (ops : List Op) (name addr : String) :
    count (run s0 ops) name addr ≤ getCnt (run s0 ops) name addr :=
  (invariants_hold s0 h0 ops).cntGe name addr

/-- "counter = number of records" is false of the code: `SetAttribute` increments the counter
when it overwrites the record stored under the same key; after deleting the single record the
lookup still lists the account. -/
theorem counter_can_exceed_records :
    let s0 : State := { now := 100, accts := ["A"], names := [("kyc.vf", "A")] }
    let s := run s0 [.add "A" ⟨"B", "kyc.vf", "1", .string, none⟩, .add "A" ⟨"B", "kyc.vf", "1", .int, none⟩,
      .delete "A" "B" "kyc.vf"]
    s.recs = [] ∧ getCnt s "kyc.vf" "B" = 1 ∧ accountsByAttribute s "kyc.vf" = ["B"] := by
  decide

/-- PARTIAL form of "counter = number of records" (full statement false, see
`counter_can_exceed_records`): it holds after every history in which no `add` / `update` stores
over an existing record (`noOverwriteRun`).  Missing: exactly the overwrite case, where
`SetAttribute` / `UpdateAttribute` increment the counter without a new record. -/
theorem counter_exact_partial (s0 : State) (h0 : Init s0) (ops : List Op)
    (hb : noOverwriteRun s0 ops = true) (name addr : String) :
    count (run s0 ops) name addr = getCnt (run s0 ops) name addr := by
  apply run_cntEq ops s0 (init_inv h0) _ hb
  intro n a
  unfold count getCnt
  rw [h0.1, h0.2.1]; rfl

example :
    let s0 : State := { now := 100, accts := ["A"], names := [("kyc.vf", "A")] }
    let ops : List Op := [.add "A" ⟨"B", "kyc.vf", "1", .string, none⟩, .add "A" ⟨"B", "kyc.vf", "2", .int, some 120⟩,
      .update "A" "B" "kyc.vf" "1" .string "7" .string, .deleteDistinct "A" "B" "kyc.vf" "2"]
    Init s0 ∧ noOverwriteRun s0 ops = true ∧ count (run s0 ops) "kyc.vf" "B" = 1 := by decide

/-- What the lookup counter IS, after EVERY history (re-adds of identical attributes, updates onto
stored values, deletions, purges, expiry included): the number of records under (name, account)
plus the number of accepted OVERWRITING writes under it so far (`overwrites`: an `add` onto a stored
key, an `update` onto another stored value).  The surplus is never compensated: every removal takes
exactly one record and one counter unit. -/
theorem counter_is_records_plus_overwrites (s0 : State) (h0 : Init s0) (ops : List Op) (name addr : String) :
    getCnt (run s0 ops) name addr = count (run s0 ops) name addr + overwrites s0 ops name addr := by
  have h := run_off ops (fun _ _ => 0) s0 (init_inv h0)
    (by intro n a; unfold count getCnt; rw [h0.1, h0.2.1]; rfl) name addr
  simp only [Nat.zero_add] at h
  omega

/-- So the counter equals the record count exactly when no accepted write of the history stored
over a record under that (name, account) — and once it exceeds it, it does so for ever. -/
theorem counter_exact_iff_no_overwrite (s0 : State) (h0 : Init s0) (ops : List Op) (name addr : String) :
    getCnt (run s0 ops) name addr = count (run s0 ops) name addr ↔ overwrites s0 ops name addr = 0 := by
  have := counter_is_records_plus_overwrites s0 h0 ops name addr
  omega

/-- An account listed by the lookup without holding an attribute under the name: exactly the
(name, account) pairs with no record and at least one overwriting write in the history. -/
theorem listed_without_attribute_iff (s0 : State) (h0 : Init s0) (ops : List Op) (name addr : String)
    (hc : count (run s0 ops) name addr = 0) :
    0 < getCnt (run s0 ops) name addr ↔ 0 < overwrites s0 ops name addr := by
  have := counter_is_records_plus_overwrites s0 h0 ops name addr
  omega

example :
    let s0 : State := { now := 100, accts := ["A"], names := [("kyc.vf", "A")] }
    let ops : List Op := [.add "A" ⟨"B", "kyc.vf", "1", .string, none⟩, .add "A" ⟨"B", "kyc.vf", "1", .int, some 120⟩,
      .add "A" ⟨"B", "kyc.vf", "2", .int, none⟩, .update "A" "B" "kyc.vf" "2" .int "1" .string,
      .add "B" ⟨"B", "kyc.vf", "1", .int, none⟩, .delete "A" "B" "kyc.vf"]
    Init s0 ∧ overwrites s0 ops "kyc.vf" "B" = 2 ∧ count (run s0 ops) "kyc.vf" "B" = 0 ∧
      getCnt (run s0 ops) "kyc.vf" "B" = 2 := by decide

/-! ## Clause 1 — only the owner of the name writes -/

/-- Every accepted add / update / update-expiration / delete / delete-distinct message was
signed by the address the name resolves to at that moment — in every reachable state (the
"name not bound ⇒ no permission check" branch of `DeleteAttribute` can never delete anything,
because attributes only exist under bound names). -/
theorem only_name_owner_writes_inv {s s' : State} {op : Op} (hi : Inv s) (h : step s op = .ok s') :
    writerIsOwner s op = true := by
  have del : ∀ {sg addr name : String} {v : Option String},
      (resolvesTo s name sg = true ∨ nameExists s name = false) → toDelete s addr name v ≠ [] →
      resolvesTo s name sg = true := by
    intro sg addr name v h1 h2
    rcases h1 with h1 | h1
    · exact h1
    · obtain ⟨a, ha⟩ := List.exists_mem_of_ne_nil _ h2
      obtain ⟨hm, _, hn, _⟩ := toDelete_mem ha
      have := hi.bound a hm
      rw [hn, h1] at this
      cases this
  cases op with
  | add sg a => exact (add_ok h).2.1
  | update sg addr name ov ot nv nt => exact (update_ok h).1
  | updateExp sg addr name v e => exact (updateExp_ok h).1
  | delete sg addr name =>
    obtain ⟨h1, h2, _⟩ := delete_ok h
    exact del h1 h2
  | deleteDistinct sg addr name v =>
    obtain ⟨h1, h2, _⟩ := deleteDistinct_ok h
    exact del h1 h2
  | bind _ _ => rfl
  | transfer _ _ _ => rfl
  | deleteName _ _ => rfl
  | beginBlock _ => rfl

theorem only_name_owner_writes (s0 : State) (h0 : Init s0) (ops : List Op) (op : Op) (s' : State)
    (h : step (run s0 ops) op = .ok s') : writerIsOwner (run s0 ops) op = true :=
  only_name_owner_writes_inv (invariants_hold s0 h0 ops) h

/-- Frame: whatever is stored after a message and was not stored identically before is exactly
the attribute an owner-signed add / update / update-expiration message describes.  In
particular name messages and the sweep never create or alter an attribute, and a write under
one name never alters attributes under another. -/
theorem writes_are_what_the_owner_signed {s s' : State} {op : Op} (hi : Inv s) (h : step s op = .ok s') :
    appearancesJustified s op s' = true := by
  unfold appearancesJustified
  simp only [List.all_eq_true, Bool.or_eq_true, List.contains_iff_mem]
  intro r' hr'
  cases op with
  | add sg a =>
    obtain ⟨_, hr, rfl⟩ := add_ok h
    rw [put_recs] at hr'
    rcases List.mem_cons.mp hr' with e | e
    · right; simp [mayWrite, hr, e]
    · left; exact (List.mem_filter.mp e).1
  | update sg addr name ov ot nv nt =>
    obtain ⟨hr, cur, _, _, _, rfl⟩ := update_ok h
    rw [put_recs, deleteOne_recs] at hr'
    rcases List.mem_cons.mp hr' with e | e
    · right; simp [mayWrite, hr, e]
    · left; exact (List.mem_filter.mp (List.mem_filter.mp e).1).1
  | updateExp sg addr name v e =>
    obtain ⟨hr, cur, hc, hk, rfl⟩ := updateExp_ok h
    rw [reexp_recs] at hr'
    rcases List.mem_cons.mp hr' with e' | e'
    · right
      subst e'
      have hk' : ({ cur with exp := e } : Attribute).key = (addr, name, v) := hk
      simp only [mayWrite, hr, hk', Bool.true_and, decide_true, Bool.and_eq_true, decide_eq_true_eq,
        List.any_eq_true, true_and]
      exact ⟨cur, hc, hk, rfl⟩
    · left; exact (List.mem_filter.mp e').1
  | delete sg addr name =>
    obtain ⟨_, _, rfl⟩ := delete_ok h
    left; exact ((foldl_deleteOne_recs _ s r').mp hr').1
  | deleteDistinct sg addr name v =>
    obtain ⟨_, _, rfl⟩ := deleteDistinct_ok h
    left; exact ((foldl_deleteOne_recs _ s r').mp hr').1
  | bind name owner =>
    obtain ⟨_, rfl⟩ := bind_ok h
    left; exact hr'
  | transfer au name owner =>
    obtain ⟨_, rfl⟩ := transfer_ok h
    left; exact hr'
  | deleteName sg name =>
    obtain ⟨_, rfl⟩ := deleteName_ok h
    left; exact ((foldl_purgeAcct_recs name _ _ r').mp hr').1
  | beginBlock t =>
    obtain ⟨l, _, rfl⟩ := begin_fold h
    have hi0 : Inv { s with now := t } := ⟨hi.keys, hi.cntGe, hi.bound, hi.queueComplete⟩
    left; exact ((foldl_expireOne_recs _ _ hi0 r').mp hr').1

/-- Binding a name and transferring it (`MsgModifyName`) leave every attribute in place: the new
owner inherits control over the attributes already stored under the name. -/
theorem transfer_and_bind_keep_attributes {s s' : State} :
    (∀ au name owner, step s (.transfer au name owner) = .ok s' →
        s'.recs = s.recs ∧ s'.cnt = s.cnt ∧ s'.queue = s.queue ∧ getRecordByName s' name = some owner) ∧
    (∀ name owner, step s (.bind name owner) = .ok s' →
        s'.recs = s.recs ∧ s'.cnt = s.cnt ∧ s'.queue = s.queue ∧ getRecordByName s' name = some owner) := by
  constructor
  · intro au name owner h
    obtain ⟨_, rfl⟩ := transfer_ok h
    refine ⟨rfl, rfl, rfl, ?_⟩
    simp [getRecordByName, kvGet_set]
  · intro name owner h
    obtain ⟨_, rfl⟩ := bind_ok h
    refine ⟨rfl, rfl, rfl, ?_⟩
    simp [getRecordByName, kvGet_set]

/-- A rejected message changes nothing. -/
theorem rejected_changes_nothing (s : State) (op : Op) (e : Err) (h : step s op = .error e) :
    apply s op = s := by
  unfold apply; rw [h]

/-- The other direction of "only the owner writes" for `MsgAddAttribute`: the add of a valid,
unexpired attribute signed by the account that owns the name is never refused — on any account,
whatever is stored already (and a refusal is exactly the failure of one of the four checks). -/
theorem add_accepted_iff (s : State) (sg : String) (a : Attribute) :
    (∃ s', step s (.add sg a) = .ok s') ↔
      (validateExpirationDate s a = true ∧ validateBasic a = true ∧ s.accts.contains sg = true ∧
        resolvesTo s a.name sg = true) := by
  constructor
  · rintro ⟨s', h⟩
    refine ⟨(add_ok h).1, add_valid h, ?_, (add_ok h).2.1⟩
    simp only [step] at h
    split at h; · cases h
    unfold setAttribute at h
    split at h; · cases h
    split at h; · cases h
    split at h; · cases h
    rename_i h3
    simpa using h3
  · rintro ⟨h1, h2, h3, h4⟩
    have h3' : sg ∈ s.accts := by simpa using h3
    exact ⟨put s a, by simp [step, setAttribute, h1, h2, h3', h4, put]⟩

example :
    let s : State := { now := 100, accts := ["A"], names := [("kyc.vf", "A")] }
    let a : Attribute := ⟨"B", "kyc.vf", "1", .string, some 100⟩
    validateExpirationDate s a = true ∧ validateBasic a = true ∧ s.accts.contains "A" = true ∧
      resolvesTo s a.name "A" = true := by decide

/-! ## Clause 2 — the lookup never omits a holder -/

/-- In every reachable state, every account that holds an attribute under a name is returned
by `AccountsByAttribute(name)`. -/
theorem lookup_never_omits (s0 : State) (h0 : Init s0) (ops : List Op) (r : Attribute)
    (hr : r ∈ (run s0 ops).recs) : r.addr ∈ accountsByAttribute (run s0 ops) r.name :=
  holder_listed (invariants_hold s0 h0 ops).cntGe hr

theorem lookupComplete_of_inv {s : State} (hi : Inv s) : lookupComplete s = true := by
  unfold lookupComplete
  simp only [List.all_eq_true, List.contains_iff_mem]
  intro r hr
  exact holder_listed hi.cntGe hr

/-! ## Clause 3 — why an attribute may disappear -/

/-- BEFORE commit f2249cacd ("fix: expired-attribute sweep deleted attributes through stale
expiration-queue entries") the clause was false of the code.  `runPreFix` / `applyPreFix` are
the model with the sweep as it was then.  Three histories, each ending in a block at time
106/111 that removed an attribute whose stored expiration is later or absent:
 (a) identical (account, name, value) re-added with a later expiration (`SetAttribute` leaves
     the old queue entry);
 (b) name deleted (`PurgeAttribute` leaves queue entries), re-bound, attribute re-added;
 (c) `UpdateAttribute` onto a value that is already stored with an expiration.
The same histories on the current code: `on_witnesses`. -/
theorem disappears_only_if_false_before_fix :
    let s0 : State := { now := 100, accts := ["A", "C"], names := [("kyc.vf", "A")] }
    let a : List Op := [.add "A" ⟨"B", "kyc.vf", "1", .string, some 110⟩, .add "A" ⟨"B", "kyc.vf", "1", .int, some 200⟩]
    let b : List Op := [.add "A" ⟨"B", "kyc.vf", "1", .string, some 110⟩, .deleteName "A" "kyc.vf",
      .bind "kyc.vf" "C", .add "C" ⟨"B", "kyc.vf", "1", .string, none⟩]
    let c : List Op := [.add "A" ⟨"B", "kyc.vf", "1", .string, none⟩, .add "A" ⟨"B", "kyc.vf", "2", .string, some 105⟩,
      .update "A" "B" "kyc.vf" "1" .string "2" .string]
    (runPreFix s0 a).recs = [⟨"B", "kyc.vf", "1", .int, some 200⟩] ∧
      (applyPreFix (runPreFix s0 a) (.beginBlock 111)).recs = [] ∧
      disappearancesJustified (runPreFix s0 a) (.beginBlock 111) (applyPreFix (runPreFix s0 a) (.beginBlock 111)) = false ∧
    (runPreFix s0 b).recs = [⟨"B", "kyc.vf", "1", .string, none⟩] ∧
      disappearancesJustified (runPreFix s0 b) (.beginBlock 111) (applyPreFix (runPreFix s0 b) (.beginBlock 111)) = false ∧
    (runPreFix s0 c).recs = [⟨"B", "kyc.vf", "2", .string, none⟩] ∧
      disappearancesJustified (runPreFix s0 c) (.beginBlock 106) (applyPreFix (runPreFix s0 c) (.beginBlock 106)) = false := by
  decide

/-- Every message other than the begin-block sweep satisfies the clause unconditionally: an
attribute whose key is gone afterwards was deleted (or updated away) by a message signed by the
owner of its name, or its name was deleted by the name's owner. -/
theorem disappears_only_if_except_sweep {s s' : State} {op : Op} (hi : Inv s) (h : step s op = .ok s')
    (hns : ∀ t, op ≠ .beginBlock t) : disappearancesJustified s op s' = true := by
  unfold disappearancesJustified
  simp only [List.all_eq_true, Bool.or_eq_true, hasKey_iff]
  intro r hr
  have hown := only_name_owner_writes_inv hi h
  have del : ∀ (l : List Attribute), (∀ a ∈ l, a ∈ s.recs) →
      (r ∈ (l.foldl deleteOne s).recs) ∨ r ∈ l := by
    intro l hl
    by_cases hx : ∀ a ∈ l, r.key ≠ a.key
    · left; exact (foldl_deleteOne_recs l s r).mpr ⟨hr, hx⟩
    · right
      simp only [Classical.not_forall, Classical.not_imp, Decidable.not_not] at hx
      obtain ⟨a, ha, hk⟩ := hx
      have : r = a := hi.keys.eq_of_key hr (hl a ha) hk
      rw [this]; exact ha
  cases op with
  | add sg a =>
    obtain ⟨_, _, rfl⟩ := add_ok h
    left
    rw [put_recs]
    by_cases hk : r.key = a.key
    · exact ⟨a, List.mem_cons_self, hk.symm⟩
    · exact ⟨r, List.mem_cons_of_mem _ (List.mem_filter.mpr ⟨hr, by simpa using hk⟩), rfl⟩
  | update sg addr name ov ot nv nt =>
    obtain ⟨hres, cur, hc, hck, hty, rfl⟩ := update_ok h
    rw [put_recs, deleteOne_recs]
    by_cases hk : r.key = (⟨addr, name, nv, nt, none⟩ : Attribute).key
    · left; exact ⟨_, List.mem_cons_self, hk.symm⟩
    · by_cases hk2 : r.key = cur.key
      · right
        have : r = cur := hi.keys.eq_of_key hr hc hk2
        subst this
        simp [justified, hres, hck, hty]
      · left
        refine ⟨r, List.mem_cons_of_mem _ (List.mem_filter.mpr ⟨List.mem_filter.mpr ⟨hr, ?_⟩, ?_⟩), rfl⟩
        · simpa using hk2
        · simpa using hk
  | updateExp sg addr name v e =>
    obtain ⟨_, cur, hc, _, rfl⟩ := updateExp_ok h
    left
    rw [reexp_recs]
    by_cases hk : r.key = cur.key
    · exact ⟨_, List.mem_cons_self, hk.symm⟩
    · exact ⟨r, List.mem_cons_of_mem _ (List.mem_filter.mpr ⟨hr, by simpa using hk⟩), rfl⟩
  | delete sg addr name =>
    obtain ⟨_, _, rfl⟩ := delete_ok h
    rcases del _ (fun a ha => (toDelete_mem ha).1) with h1 | h1
    · left; exact ⟨r, h1, rfl⟩
    · right
      obtain ⟨_, h2, h3, _⟩ := toDelete_mem h1
      have hown' : resolvesTo s name sg = true := hown
      simp [justified, hown', h2, h3]
  | deleteDistinct sg addr name v =>
    obtain ⟨_, _, rfl⟩ := deleteDistinct_ok h
    rcases del _ (fun a ha => (toDelete_mem ha).1) with h1 | h1
    · left; exact ⟨r, h1, rfl⟩
    · right
      obtain ⟨_, h2, h3, h4⟩ := toDelete_mem h1
      have hown' : resolvesTo s name sg = true := hown
      simp [justified, hown', h2, h3, h4 v rfl]
  | bind name owner =>
    obtain ⟨_, rfl⟩ := bind_ok h
    left; exact ⟨r, hr, rfl⟩
  | transfer au name owner =>
    obtain ⟨_, rfl⟩ := transfer_ok h
    left; exact ⟨r, hr, rfl⟩
  | deleteName sg name =>
    obtain ⟨hres, rfl⟩ := deleteName_ok h
    by_cases hn : r.name = name
    · right; simp [justified, hres, hn]
    · left
      refine ⟨r, (foldl_purgeAcct_recs name _ _ r).mpr ⟨hr, ?_⟩, rfl⟩
      exact fun hx => hn hx.2
  | beginBlock t => exact absurd rfl (hns t)

/-- The begin-block sweep satisfies the clause: every attribute it removes has a stored
expiration strictly before the new block time (the queue entry must be the one of the stored
expiration, and only entries before the block time are visited). -/
theorem sweep_disappears_only_if {s s' : State} {t : Nat} (hi : Inv s)
    (h : step s (.beginBlock t) = .ok s') : disappearancesJustified s (.beginBlock t) s' = true := by
  unfold disappearancesJustified
  simp only [List.all_eq_true, Bool.or_eq_true, hasKey_iff]
  intro r hr
  obtain ⟨l, hl, rfl⟩ := begin_fold h
  have hi0 : Inv { s with now := t } := ⟨hi.keys, hi.cntGe, hi.bound, hi.queueComplete⟩
  by_cases hx : ∀ q ∈ l, ¬ (r.key = q.2 ∧ r.exp = some q.1)
  · left; exact ⟨r, (foldl_expireOne_recs _ _ hi0 r).mpr ⟨hr, hx⟩, rfl⟩
  · right
    simp only [Classical.not_forall, Classical.not_imp, Decidable.not_not] at hx
    obtain ⟨q, hq, _, hx0⟩ := hx
    have hq2 := (hl q hq).2
    simp [justified, hx0, hq2]

theorem disappears_only_if_inv {s s' : State} {op : Op} (hi : Inv s) (h : step s op = .ok s') :
    disappearancesJustified s op s' = true := by
  by_cases hs : ∃ t, op = .beginBlock t
  · obtain ⟨t, rfl⟩ := hs
    exact sweep_disappears_only_if hi h
  · exact disappears_only_if_except_sweep hi h (fun t e => hs ⟨t, e⟩)

/-- Clause 3 at full strength: after ANY history, for every accepted message, an attribute
whose key is gone afterwards was deleted (or updated away) by a message signed by the owner of
its name, or its name was deleted by the name's owner, or the message is a block beginning at
a time after the expiration currently stored on the attribute. -/
theorem disappears_only_if (s0 : State) (h0 : Init s0) (ops : List Op) (op : Op) (s' : State)
    (h : step (run s0 ops) op = .ok s') : disappearancesJustified (run s0 ops) op s' = true :=
  disappears_only_if_inv (invariants_hold s0 h0 ops) h

/-! ## Clause 4 — expired attributes are gone after the next block begins: up to the sweep's cap

`BeginBlocker` calls `DeleteExpiredAttributes(ctx, MaxExpiredAttributionCount)`; the loop stops
after that many deletions.  So the clause "gone after the next block begins" is a theorem only
while at most 100 000 attributes are expired when the block begins; above that exactly 100 000
of them go per block (in store-key order: earliest expiration first) and the rest stays readable
until later blocks have worked the backlog off. -/

/-- The cap of the unchanged code (x/attribute/abci.go:12). -/
theorem sweep_cap_is_100000 : maxExpiredAttributionCount = 100000 := rfl

/-- `Keeper.DeleteExpiredAttributes(ctx, limit)` at block time `t`, from any state that satisfies
the store invariants, whatever the order in which the store returns the due queue entries:
the number of expired attributes drops by exactly `min(limit, expired)`; without a limit
(`limit = 0`) none is left. -/
theorem sweep_removes_min {s : State} (hi : Inv s) (t limit : Nat) :
    expiredCount (deleteExpiredAttributes { s with now := t } limit) t =
      if limit = 0 then 0 else expiredCount s t - limit :=
  sweep_expiredCount hi t limit

/-- What every begin-block sweep does, with or without a backlog: exactly
`min(100 000, expired)` expired attributes go. -/
theorem capped_sweep_removes_min {s s' : State} {t : Nat} (hi : Inv s)
    (h : step s (.beginBlock t) = .ok s') :
    expiredCount s' t = expiredCount s t - maxExpiredAttributionCount := by
  rw [begin_ok h, sweep_expiredCount hi]
  simp [maxExpiredAttributionCount]

/-- PARTIAL form of clause 4.  Full statement (FALSE of the code, see
`expired_survives_above_cap`): "after `BeginBlocker` at time `t` no stored attribute has an
expiration before `t`".  It holds whenever at most `MaxExpiredAttributionCount` = 100 000
attributes are expired when the block begins.  Missing: the case of more than 100 000
simultaneously expired attributes, where the sweep stops at its cap. -/
theorem expired_gone_after_begin_partial_inv {s s' : State} {t : Nat} (hi : Inv s)
    (h : step s (.beginBlock t) = .ok s') (hcap : expiredCount s t ≤ maxExpiredAttributionCount) :
    expiredGone t s' = true := by
  rw [expiredGone_iff, capped_sweep_removes_min hi h]
  omega

theorem expired_gone_after_begin_partial (s0 : State) (h0 : Init s0) (ops : List Op) (t : Nat) (s' : State)
    (h : step (run s0 ops) (.beginBlock t) = .ok s')
    (hcap : expiredCount (run s0 ops) t ≤ maxExpiredAttributionCount)
    (r : Attribute) (hr : r ∈ s'.recs) (e : Nat) (he : r.exp = some e) : t ≤ e := by
  have := expired_gone_after_begin_partial_inv (invariants_hold s0 h0 ops) h hcap
  unfold expiredGone at this
  simp only [List.all_eq_true] at this
  have h2 := this r hr
  rw [he] at h2
  simpa using h2

example :
    let s0 : State := { now := 100, accts := ["A"], names := [("kyc.vf", "A")] }
    let ops : List Op := [.add "A" ⟨"B", "kyc.vf", "1", .string, some 105⟩, .add "A" ⟨"B", "kyc.vf", "2", .int, some 106⟩]
    Init s0 ∧ expiredCount (run s0 ops) 111 = 2 ∧ expiredCount (run s0 ops) 111 ≤ maxExpiredAttributionCount := by
  decide

/-- Clause 4 is FALSE of the code above the cap: from every state (that satisfies the store
invariants) with more than 100 000 expired attributes, expired attributes are still stored
after the block has begun — exactly the surplus. -/
theorem expired_survives_above_cap {s s' : State} {t : Nat} (hi : Inv s)
    (h : step s (.beginBlock t) = .ok s') (hcap : maxExpiredAttributionCount < expiredCount s t) :
    expiredGone t s' = false ∧ expiredCount s' t = expiredCount s t - maxExpiredAttributionCount := by
  have hc := capped_sweep_removes_min hi h
  refine ⟨?_, hc⟩
  cases hg : expiredGone t s' with
  | false => rfl
  | true =>
    have := (expiredGone_iff t s').mp hg
    omega

/-- Such states are reachable: `n` add messages by the name's owner, with `n` different values
and one expiration, store `n` attributes that are all expired once the block time has passed it. -/
theorem above_cap_reachable (n : Nat) :
    let s0 : State := { now := 100, accts := ["A"], names := [("kyc.vf", "A")] }
    Init s0 ∧ expiredCount (run s0 (manyAdds "A" "B" "kyc.vf" 110 n)) 111 = n := by
  refine ⟨by decide, ?_⟩
  exact manyAdds_expiredCount (s0 := { now := 100, accts := ["A"], names := [("kyc.vf", "A")] })
    (sg := "A") (addr := "B") (name := "kyc.vf") (e := 110) (t := 111)
    (by decide) (by decide) (by decide) (by decide) (by decide) (by decide) (by decide) n

/-- The negation of clause 4 on a history: 100 001 adds with expiration 110, then a block at
111 — an attribute whose stored expiration has passed is still stored after the block began. -/
theorem expired_survives_begin_block_in_a_history :
    ∃ (s0 : State) (ops : List Op) (t : Nat) (s' : State), Init s0 ∧
      step (run s0 ops) (.beginBlock t) = .ok s' ∧ expiredGone t s' = false ∧ expiredCount s' t = 1 := by
  refine ⟨{ now := 100, accts := ["A"], names := [("kyc.vf", "A")] },
    manyAdds "A" "B" "kyc.vf" 110 100001, 111, _, by decide, rfl, ?_⟩
  have hr := (above_cap_reachable 100001).2
  have hi := invariants_hold _ (above_cap_reachable 100001).1 (manyAdds "A" "B" "kyc.vf" 110 100001)
  have := expired_survives_above_cap (t := 111) hi rfl (by rw [hr]; decide)
  rw [hr] at this
  exact this

/-- The mechanism on a small instance (`Keeper.DeleteExpiredAttributes` with limit 2 and three
expired attributes): the two with the earliest expirations go, the third stays although its
stored expiration has passed. -/
theorem capped_sweep_witness :
    let s0 : State := { now := 100, accts := ["A"], names := [("kyc.vf", "A")] }
    let s := run s0 [.add "A" ⟨"B", "kyc.vf", "1", .string, some 105⟩, .add "A" ⟨"B", "kyc.vf", "2", .string, some 107⟩,
      .add "A" ⟨"B", "kyc.vf", "3", .string, some 106⟩]
    let s' := deleteExpiredAttributes { s with now := 111 } 2
    s'.recs = [⟨"B", "kyc.vf", "2", .string, some 107⟩] ∧ expiredGone 111 s' = false ∧
      sweepResult 2 s 111 s' = .capped ∧
      (deleteExpiredAttributes { s with now := 111 } 3).recs = [] ∧
      (deleteExpiredAttributes { s with now := 111 } 0).recs = [] := by
  decide

/-- Expiry is not early either: an attribute whose stored expiration has not passed (or that
has none) survives the sweep, whatever is in the queue. -/
theorem unexpired_survives_begin {s s' : State} {t : Nat} (hi : Inv s)
    (h : step s (.beginBlock t) = .ok s') (r : Attribute) (hr : r ∈ s.recs)
    (hne : ∀ e, r.exp = some e → t ≤ e) : r ∈ s'.recs := by
  obtain ⟨l, hl, rfl⟩ := begin_fold h
  have hi0 : Inv { s with now := t } := ⟨hi.keys, hi.cntGe, hi.bound, hi.queueComplete⟩
  refine (foldl_expireOne_recs _ _ hi0 r).mpr ⟨hr, ?_⟩
  rintro q hq ⟨_, hx⟩
  have hq2 := (hl q hq).2
  have := hne q.1 hx
  omega

/-! ## No stored expiration is before the time of the last begun block (up to the cap)

`ValidateExpirationDate` refuses an expiration before the block time on every write, and the sweep
of every block removes what has expired since — as long as it does not hit its cap. -/

/-- One message keeps "no stored expiration is before the block time"; a block re-establishes it
for the NEW block time provided at most 100 000 attributes were expired when it began. -/
theorem step_keeps_none_expired {s s' : State} {op : Op} (hi : Inv s) (hf : noneExpired s = true)
    (h : step s op = .ok s')
    (hcap : ∀ t, op = .beginBlock t → expiredCount s t ≤ maxExpiredAttributionCount) :
    noneExpired s' = true := by
  unfold noneExpired at hf ⊢
  by_cases hs : ∃ t, op = .beginBlock t
  · obtain ⟨t, rfl⟩ := hs
    rw [begin_now h]
    exact expired_gone_after_begin_partial_inv hi h (hcap t rfl)
  · rw [fresh_iff] at hf ⊢
    exact step_fresh hf h (writes_are_what_the_owner_signed hi h) (fun t e => hs ⟨t, e⟩)

theorem run_keeps_none_expired (ops : List Op) : ∀ s : State, Inv s → noneExpired s = true →
    underCapRun s ops = true → noneExpired (run s ops) = true := by
  induction ops with
  | nil => intro s _ h _; exact h
  | cons op rest ih =>
    intro s hi hf hc
    simp only [underCapRun, Bool.and_eq_true] at hc
    refine ih (apply s op) (apply_inv op hi) ?_ hc.2
    unfold apply
    cases h : step s op with
    | error e => exact hf
    | ok s' =>
      refine step_keeps_none_expired hi hf h ?_
      intro t e
      subst e
      simpa using hc.1

/-- PARTIAL (the cap).  Full statement (FALSE of the code, `expired_survives_begin_block_in_a_history`):
"in every reachable state no stored attribute has an expiration before the time of the last begun
block".  It holds after every history in which no block began with more than
`MaxExpiredAttributionCount` = 100 000 expired attributes (`underCapRun`) — whatever else the
history does (re-adds, updates of the expiration, transfers, block times that do not increase).
Missing: the states in which the capped sweep has left a backlog. -/
theorem no_stored_expiration_before_block_time_partial (s0 : State) (h0 : Init s0) (ops : List Op)
    (hcap : underCapRun s0 ops = true) (r : Attribute) (hr : r ∈ (run s0 ops).recs) (e : Nat)
    (he : r.exp = some e) : (run s0 ops).now ≤ e := by
  have h1 : noneExpired s0 = true := by
    unfold noneExpired expiredGone; rw [h0.1]; rfl
  have := run_keeps_none_expired ops s0 (init_inv h0) h1 hcap
  unfold noneExpired at this
  exact (fresh_iff _).mp this r hr e he

example :
    let s0 : State := { now := 100, accts := ["A"], names := [("kyc.vf", "A")] }
    let ops : List Op := [.add "A" ⟨"B", "kyc.vf", "1", .string, some 105⟩, .add "A" ⟨"B", "kyc.vf", "2", .int, some 120⟩,
      .beginBlock 111, .updateExp "A" "B" "kyc.vf" "2" (some 111), .beginBlock 111]
    Init s0 ∧ underCapRun s0 ops = true ∧ (run s0 ops).now = 111 ∧
      (run s0 ops).recs = [⟨"B", "kyc.vf", "2", .int, some 111⟩] := by
  decide

/-- The boundary of "has passed": an attribute whose stored expiration EQUALS the time of the block
survives that block (the sweep visits queue entries strictly before the block time only) … -/
theorem expiration_equal_to_block_time_survives {s s' : State} {t : Nat} (hi : Inv s)
    (h : step s (.beginBlock t) = .ok s') (r : Attribute) (hr : r ∈ s.recs) (he : r.exp = some t) :
    r ∈ s'.recs :=
  unexpired_survives_begin hi h r hr (fun e hx => by rw [he] at hx; cases hx; exact Nat.le_refl _)

/-- … and an attribute whose stored expiration is one second (or more) earlier is gone after it
(below the cap). -/
theorem expiration_before_block_time_gone {s s' : State} {t : Nat} (hi : Inv s)
    (h : step s (.beginBlock t) = .ok s') (hcap : expiredCount s t ≤ maxExpiredAttributionCount)
    (r : Attribute) (e : Nat) (he : r.exp = some e) (hlt : e < t) : r ∉ s'.recs := by
  intro hr
  have hg := expired_gone_after_begin_partial_inv hi h hcap
  rw [show t = s'.now from (begin_now h).symm, fresh_iff] at hg
  have := hg r hr e he
  rw [begin_now h] at this
  omega

/-- The boundary on a history: an expiration equal to the block time is accepted by
`ValidateExpirationDate` (add at time 100 with expiration 100); the attribute with expiration 110
is still stored after the block at 110 and gone after the block at 111. -/
theorem expiry_boundary_witness :
    let s0 : State := { now := 100, accts := ["A"], names := [("kyc.vf", "A")] }
    let a : Attribute := ⟨"B", "kyc.vf", "1", .string, some 110⟩
    (run s0 [.add "A" ⟨"B", "kyc.vf", "9", .string, some 100⟩]).recs = [⟨"B", "kyc.vf", "9", .string, some 100⟩] ∧
    (run s0 [.add "A" ⟨"B", "kyc.vf", "9", .string, some 99⟩]).recs = [] ∧
    (run s0 [.add "A" a, .beginBlock 110]).recs = [a] ∧
    (run s0 [.add "A" a, .beginBlock 110, .beginBlock 111]).recs = [] := by
  decide

example :
    let s0 : State := { now := 100, accts := ["A"], names := [("kyc.vf", "A")] }
    let s := run s0 [.add "A" ⟨"B", "kyc.vf", "1", .string, some 110⟩]
    Inv s ∧ (∃ s', step s (.beginBlock 110) = .ok s') ∧ (⟨"B", "kyc.vf", "1", .string, some 110⟩ : Attribute) ∈ s.recs ∧
      expiredCount s 111 ≤ maxExpiredAttributionCount :=
  ⟨invariants_hold _ (by decide) _, ⟨_, rfl⟩, by decide, by decide⟩

/-! ## Clause 5 — deleting a name -/

/-- `MsgDeleteName` is accepted only from the owner, unbinds the name and removes exactly the
attributes stored under it, on every account (this uses lookup completeness). -/
theorem deleteName_purges_exactly {s s' : State} {sg name : String} (hi : Inv s)
    (h : step s (.deleteName sg name) = .ok s') :
    resolvesTo s name sg = true ∧ nameExists s' name = false ∧
      ∀ r, r ∈ s'.recs ↔ (r ∈ s.recs ∧ r.name ≠ name) := by
  obtain ⟨hres, rfl⟩ := deleteName_ok h
  refine ⟨hres, ?_, ?_⟩
  · unfold nameExists getRecordByName
    rw [foldl_purgeAcct_names]
    show (kvGet (kvErase s.names name) name).isSome = false
    rw [kvGet_erase]; simp
  · intro r
    constructor
    · intro hr
      have hc : CntGe (unbind s name) := hi.cntGe
      exact purge_complete (s := unbind s name) name hc r hr
    · rintro ⟨hr, hn⟩
      exact (foldl_purgeAcct_recs name _ _ r).mpr ⟨hr, fun hx => hn hx.2⟩

/-! ## Functional correctness of the writes -/

/-- An accepted add stores exactly the attribute of the message under its key. -/
theorem add_stores {s s' : State} {sg : String} {a : Attribute} (h : step s (.add sg a) = .ok s') :
    getAttr s' a.key = some a := by
  obtain ⟨_, _, rfl⟩ := add_ok h
  unfold getAttr
  rw [put_recs]
  simp [List.find?_cons]

/-- An accepted expiration update changes the expiration of the stored attribute and nothing
else of it. -/
theorem updateExp_stores {s s' : State} {sg addr name v : String} {e : Option Nat}
    (h : step s (.updateExp sg addr name v e) = .ok s') :
    ∃ cur, getAttr s (addr, name, v) = some cur ∧ getAttr s' (addr, name, v) = some { cur with exp := e } := by
  obtain ⟨_, cur, hc, hk, rfl⟩ := updateExp_ok h
  simp only [step, updateAttributeExpiration] at h
  split at h; · cases h
  split at h; · cases h
  split at h; · cases h
  split at h
  · cases h
  · rename_i cur' hcur'
    refine ⟨cur', hcur', ?_⟩
    injection h with h
    rw [← h]
    unfold getAttr
    have hk' : cur'.key = (addr, name, v) := (getAttr_some hcur').2
    simp [List.find?_cons, Attribute.key] at hk' ⊢
    simp [Attribute.key, hk']

/-! ## The checker is the conjunction of the conclusions above -/

theorem sweepResult_ok {limit : Nat} {s s' : State} {t : Nat} (h : expiredGone t s' = true) :
    sweepResult limit s t s' = .ok := by
  simp [sweepResult, h]

/-- The checker's clause on `MsgDeleteName` (`namePurged`): after an accepted name deletion no
attribute is left under the name; every other message satisfies the clause trivially. -/
theorem name_deletion_leaves_no_attribute {s s' : State} {op : Op} (hi : Inv s) (h : step s op = .ok s') :
    namePurged op s' = true := by
  cases op with
  | deleteName sg name =>
    obtain ⟨_, _, h3⟩ := deleteName_purges_exactly hi h
    simp only [namePurged, List.all_eq_true, decide_eq_true_eq]
    intro r hr
    exact ((h3 r).mp hr).2
  | _ => rfl

/-- On every transition of the model from a reachable state the checker that `bin/check` runs
on the implementation's dumps answers `ok` — for a block that begins with more than 100 000
expired attributes see `verdict_above_cap`. -/
theorem verdict_ok {s s' : State} {op : Op} (hi : Inv s) (h : step s op = .ok s')
    (hcap : ∀ t, op = .beginBlock t → expiredCount s t ≤ maxExpiredAttributionCount) :
    verdict s op true s' = "ok" := by
  have h1 := only_name_owner_writes_inv hi h
  have h2 := lookupComplete_of_inv (step_inv hi h)
  have h3 := writes_are_what_the_owner_signed hi h
  have h4 := disappears_only_if_inv hi h
  have h5 : s.recs.find? (fun r => !(hasKey s' r.key || justified s op r)) = none := by
    rw [List.find?_eq_none]
    intro r hr
    unfold disappearancesJustified at h4
    simp only [List.all_eq_true] at h4
    simp [h4 r hr]
  have h6 := name_deletion_leaves_no_attribute hi h
  unfold verdict verdictCap
  simp only [h1, h2, h3, h5, h6, Bool.not_true, Bool.false_eq_true, if_false]
  cases op with
  | beginBlock t =>
    simp only [sweepResult_ok (expired_gone_after_begin_partial_inv hi h (hcap t rfl))]
  | _ => rfl

/-- On a block that begins with more than 100 000 expired attributes the checker reports the
model's own transition, under the narrow clause of the open finding `C16-sweep-cap`: the
property's "gone after the next block begins" is not what the code does there. -/
theorem verdict_above_cap {s s' : State} {t : Nat} (hi : Inv s) (h : step s (.beginBlock t) = .ok s')
    (hcap : maxExpiredAttributionCount < expiredCount s t) :
    verdict s (.beginBlock t) true s' = "fail:expired_survives_begin_block:more_expired_than_the_sweep_cap" := by
  have h1 := only_name_owner_writes_inv hi h
  have h2 := lookupComplete_of_inv (step_inv hi h)
  have h3 := writes_are_what_the_owner_signed hi h
  have h4 := disappears_only_if_inv hi h
  have h5 : s.recs.find? (fun r => !(hasKey s' r.key || justified s (.beginBlock t) r)) = none := by
    rw [List.find?_eq_none]
    intro r hr
    unfold disappearancesJustified at h4
    simp only [List.all_eq_true] at h4
    simp [h4 r hr]
  obtain ⟨hg, hc⟩ := expired_survives_above_cap hi h hcap
  have hne : maxExpiredAttributionCount ≠ 0 := by decide
  have hle : expiredCount s' t + maxExpiredAttributionCount ≤ expiredCount s t := by omega
  have hr : sweepResult maxExpiredAttributionCount s t s' = .capped := by
    simp [sweepResult, hg, hne, hcap, hle]
  have h6 : namePurged (.beginBlock t) s' = true := rfl
  unfold verdict verdictCap
  simp only [h1, h2, h3, h5, h6, Bool.not_true, Bool.false_eq_true, if_false, hr]

/-- BEFORE commit f2249cacd: on the re-add witness the checker named the narrow clause that
was recorded (now `fixed`) in `known_findings.json`. -/
theorem verdict_on_witness_before_fix :
    let s0 : State := { now := 100, accts := ["A"], names := [("kyc.vf", "A")] }
    let s := runPreFix s0 [.add "A" ⟨"B", "kyc.vf", "1", .string, some 110⟩, .add "A" ⟨"B", "kyc.vf", "1", .int, some 200⟩]
    verdict s (.beginBlock 111) true (applyPreFix s (.beginBlock 111)) = "fail:disappears:swept_at_stale_queue_time" := by
  decide

/-- The three witness histories on the current code: the sweep keeps the attribute and drops
the stale entry. -/
theorem on_witnesses :
    let s0 : State := { now := 100, accts := ["A", "C"], names := [("kyc.vf", "A")] }
    let a : List Op := [.add "A" ⟨"B", "kyc.vf", "1", .string, some 110⟩, .add "A" ⟨"B", "kyc.vf", "1", .int, some 200⟩, .beginBlock 111]
    let b : List Op := [.add "A" ⟨"B", "kyc.vf", "1", .string, some 110⟩, .deleteName "A" "kyc.vf",
      .bind "kyc.vf" "C", .add "C" ⟨"B", "kyc.vf", "1", .string, none⟩, .beginBlock 111]
    let c : List Op := [.add "A" ⟨"B", "kyc.vf", "1", .string, none⟩, .add "A" ⟨"B", "kyc.vf", "2", .string, some 105⟩,
      .update "A" "B" "kyc.vf" "1" .string "2" .string, .beginBlock 106]
    (run s0 a).recs = [⟨"B", "kyc.vf", "1", .int, some 200⟩] ∧ (run s0 a).queue = [(200, ("B", "kyc.vf", "1"))] ∧
    (run s0 b).recs = [⟨"B", "kyc.vf", "1", .string, none⟩] ∧ (run s0 b).queue = [] ∧
    (run s0 c).recs = [⟨"B", "kyc.vf", "2", .string, none⟩] ∧ (run s0 c).queue = [] := by
  decide

/-! ## Names bound under restricted parents (`bindNameUnder`, `ROp`, `runR`)

`MsgBindName` names a parent record; when that record is restricted only its owner may bind under
it.  The plain `.bind` of the model is the bind under an unrestricted parent, which accepts MORE;
so every history with restricted-parent binds is a history of the plain model, and every clause
above covers the names bound that way. -/

/-- Refinement: an accepted bind under any parent (restricted or not) does exactly what the plain
bind does. -/
theorem bindNameUnder_refines {s s' : State} {p sg n o : String} {r : Bool}
    (h : bindNameUnder s p r sg n o = .ok s') : step s (.bind n o) = .ok s' := by
  unfold bindNameUnder at h
  split at h
  · cases h
  · split at h
    · cases h
    · exact h

/-- Under a RESTRICTED parent only the parent's owner binds (and the parent must exist). -/
theorem restricted_parent_only_owner_binds {s s' : State} {p sg n o : String}
    (h : bindNameUnder s p true sg n o = .ok s') : resolvesTo s p sg = true := by
  unfold bindNameUnder at h
  split at h
  · cases h
  · split at h
    · cases h
    · rename_i hx
      simpa using hx

theorem applyR_eq (s : State) (x : ROp) :
    applyR s x = s ∨ ∃ op, applyR s x = apply s op := by
  cases x with
  | plain op => right; exact ⟨op, rfl⟩
  | bindUnder p r sg n o =>
    unfold applyR
    cases hx : stepR s (.bindUnder p r sg n o) with
    | error e => left; rfl
    | ok s' => right; exact ⟨.bind n o, by simp [apply, bindNameUnder_refines hx]⟩

/-- Every state reached by a history with binds under restricted parents is reached by a history of
the plain model: all theorems about `run s0 ops` hold of `runR s0 xs`. -/
theorem runR_reachable (s0 : State) (xs : List ROp) : ∃ ops, runR s0 xs = run s0 ops := by
  induction xs generalizing s0 with
  | nil => exact ⟨[], rfl⟩
  | cons x xs ih =>
    obtain ⟨ops, h⟩ := ih (applyR s0 x)
    rcases applyR_eq s0 x with e | ⟨op, e⟩
    · refine ⟨ops, ?_⟩
      show runR (applyR s0 x) xs = run s0 ops
      rw [h, e]
    · refine ⟨op :: ops, ?_⟩
      show runR (applyR s0 x) xs = run (apply s0 op) ops
      rw [h, e]

/-- Clauses 1-3 in histories whose names are (also) bound under restricted parents: every accepted
attribute write is signed by the current owner of the name, the lookup is complete, every new
record is what the owner signed, every disappearance is justified. -/
theorem only_name_owner_writes_with_restricted_binds (s0 : State) (h0 : Init s0) (xs : List ROp) (op : Op)
    (s' : State) (h : step (runR s0 xs) op = .ok s') :
    writerIsOwner (runR s0 xs) op = true ∧ lookupComplete s' = true ∧
      appearancesJustified (runR s0 xs) op s' = true ∧ disappearancesJustified (runR s0 xs) op s' = true := by
  obtain ⟨ops, e⟩ := runR_reachable s0 xs
  rw [e] at h ⊢
  have hi := invariants_hold s0 h0 ops
  exact ⟨only_name_owner_writes_inv hi h, lookupComplete_of_inv (step_inv hi h),
    writes_are_what_the_owner_signed hi h, disappears_only_if_inv hi h⟩

/-- `A` owns the restricted root `vf`.  The stranger `C` cannot bind `kyc.vf` under it; `A` binds it
for `C`; from then on `C` — and not `A` — writes attributes under `kyc.vf`.  Under an unrestricted
root, or one that does not exist, the flag decides nothing / the bind is refused. -/
theorem restricted_bind_witness :
    let s0 : State := { now := 100, accts := ["A", "C"], names := [("vf", "A")] }
    refusal (stepR s0 (.bindUnder "vf" true "C" "kyc.vf" "C")) = some .invalid ∧
    refusal (stepR s0 (.bindUnder "vf" false "C" "kyc.vf" "C")) = none ∧
    refusal (stepR s0 (.bindUnder "xx" false "A" "kyc.xx" "C")) = some .invalid ∧
    getRecordByName (runR s0 [.bindUnder "vf" true "C" "kyc.vf" "C", .bindUnder "vf" true "A" "kyc.vf" "C"]) "kyc.vf" = some "C" ∧
    (runR s0 [.bindUnder "vf" true "C" "kyc.vf" "C", .bindUnder "vf" true "A" "kyc.vf" "C",
        .plain (.add "A" ⟨"B", "kyc.vf", "1", .string, none⟩),
        .plain (.add "C" ⟨"B", "kyc.vf", "2", .string, none⟩)]).recs = [⟨"B", "kyc.vf", "2", .string, none⟩] := by
  decide

/-! ## Non-normalised spellings of the name (`SOp`, `stepS`, `runS`)

A message may spell its name in mixed case or with white space around the name / a segment
(`ValidateBasic` accepts all of these).  `x.op` is the message with the NORMALISED name; the
clauses are judged on it: "the owner" is the owner of the normalised name. -/

/-- A message that spells the normalised name itself is the plain message. -/
theorem stepS_exact (s : State) (sp : Spelling) (op : Op) (h : sp.exact = true) :
    stepS s ⟨sp, op⟩ = step s op := by
  simp [stepS, h]

/-- Refinement: whatever the spelling, an ACCEPTED message does exactly what the message with
the normalised name does (a spelling can only turn an accepted message into a refused one). -/
theorem stepS_refines {s s' : State} {x : SOp} (h : stepS s x = .ok s') : step s x.op = .ok s' := by
  obtain ⟨sp, op⟩ := x
  unfold stepS at h
  by_cases he : sp.exact = true
  · simpa [he] using h
  · simp only [he, Bool.false_eq_true, if_false] at h
    cases op with
    | add _ _ => exact h
    | updateExp _ _ _ _ _ => exact h
    | deleteName _ _ => exact h
    | bind _ _ => exact h
    | beginBlock _ => exact h
    | update sg addr name ov ot nv nt =>
      simp only at h
      split at h
      · exact h
      · unfold updateAttributeKeyMiss at h
        repeat (split at h <;> try cases h)
    | delete sg addr name =>
      simp only at h
      split at h
      · cases h
      · unfold deleteAttributeMisspelt at h
        repeat (split at h <;> try cases h)
    | deleteDistinct sg addr name v =>
      simp only at h
      split at h
      · cases h
      · unfold deleteAttributeMisspelt at h
        repeat (split at h <;> try cases h)
    | transfer au name o =>
      simp only at h
      split at h
      · exact h
      · cases h

/-- The narrow fact behind "deleted only by the owner of the normalised name": a delete /
delete-distinct message whose name is not spelt exactly as stored is never accepted, whoever
signs it — `DeleteAttribute` skips the owner check when the raw name does not resolve, and only
the exact comparison `attr.Name == name` keeps the attributes of the normalised name safe. -/
theorem misspelt_delete_refused (s s' : State) (sp : Spelling) (hsp : sp.exact = false)
    (sg addr name v : String) :
    stepS s ⟨sp, .delete sg addr name⟩ ≠ .ok s' ∧ stepS s ⟨sp, .deleteDistinct sg addr name v⟩ ≠ .ok s' := by
  constructor <;>
  · intro h
    simp only [stepS, hsp, Bool.false_eq_true, if_false] at h
    split at h
    · cases h
    · unfold deleteAttributeMisspelt at h
      repeat (split at h <;> try cases h)

theorem applyS_eq (s : State) (x : SOp) : applyS s x = s ∨ applyS s x = apply s x.op := by
  unfold applyS
  cases hx : stepS s x with
  | error e => left; rfl
  | ok s' => right; simp [apply, stepS_refines hx]

/-- Every state reached by a history of arbitrarily spelt messages is reached by a history of
messages with normalised names: all theorems above about `run s0 ops` hold of `runS s0 xs`. -/
theorem runS_reachable (s0 : State) (xs : List SOp) : ∃ ops, runS s0 xs = run s0 ops := by
  induction xs generalizing s0 with
  | nil => exact ⟨[], rfl⟩
  | cons x xs ih =>
    obtain ⟨ops, h⟩ := ih (applyS s0 x)
    rcases applyS_eq s0 x with e | e
    · refine ⟨ops, ?_⟩
      show runS (applyS s0 x) xs = run s0 ops
      rw [h, e]
    · refine ⟨x.op :: ops, ?_⟩
      show runS (applyS s0 x) xs = run (apply s0 x.op) ops
      rw [h, e]

theorem invariants_hold_spelled (s0 : State) (h0 : Init s0) (xs : List SOp) : Inv (runS s0 xs) := by
  obtain ⟨ops, h⟩ := runS_reachable s0 xs
  rw [h]; exact invariants_hold s0 h0 ops

/-- Clause 1 for arbitrary spellings, all histories: every accepted add / update /
update-expiration / delete / delete-distinct message is signed by the address the NORMALISED
name resolves to at that moment. -/
theorem only_owner_of_normalised_name_writes (s0 : State) (h0 : Init s0) (xs : List SOp) (x : SOp)
    (s' : State) (h : stepS (runS s0 xs) x = .ok s') : writerIsOwner (runS s0 xs) x.op = true :=
  only_name_owner_writes_inv (invariants_hold_spelled s0 h0 xs) (stepS_refines h)

/-- Clauses 2-4 for arbitrary spellings, all histories: after every accepted message the lookup
is complete, every new record is what the owner of the normalised name signed, every record
that is gone was deleted by the owner of its (normalised) name / with its name / by its stored
expiration, and after a block begins nothing expired is left (unless more than 100 000 attributes
were expired when it began). -/
theorem spelled_history_satisfies_property (s0 : State) (h0 : Init s0) (xs : List SOp) (x : SOp)
    (s' : State) (h : stepS (runS s0 xs) x = .ok s') :
    lookupComplete s' = true ∧ appearancesJustified (runS s0 xs) x.op s' = true ∧
      disappearancesJustified (runS s0 xs) x.op s' = true ∧
      (∀ t, x.op = .beginBlock t → expiredCount (runS s0 xs) t ≤ maxExpiredAttributionCount →
        expiredGone t s' = true) := by
  have hi := invariants_hold_spelled s0 h0 xs
  have hs := stepS_refines h
  refine ⟨lookupComplete_of_inv (step_inv hi hs), writes_are_what_the_owner_signed hi hs,
    disappears_only_if_inv hi hs, ?_⟩
  intro t ht hcap
  rw [ht] at hs
  exact expired_gone_after_begin_partial_inv hi hs hcap

/-- The checker (which judges the message by its normalised name) answers `ok` on every
transition of the model, whatever the spelling. -/
theorem verdict_ok_spelled {s s' : State} {x : SOp} (hi : Inv s) (h : stepS s x = .ok s')
    (hcap : ∀ t, x.op = .beginBlock t → expiredCount s t ≤ maxExpiredAttributionCount) :
    verdict s x.op true s' = "ok" :=
  verdict_ok hi (stepS_refines h) hcap

/-- After every history, an accepted `MsgDeleteName` (whatever the spelling of its name) leaves no
attribute under the normalised name. -/
theorem name_deletion_leaves_no_attribute_spelled (s0 : State) (h0 : Init s0) (xs : List SOp) {x : SOp}
    {s' : State} (h : stepS (runS s0 xs) x = .ok s') : namePurged x.op s' = true :=
  name_deletion_leaves_no_attribute (invariants_hold_spelled s0 h0 xs) (stepS_refines h)

/-- A transaction of add messages (op line `bulk`: one signer, one spelling of the name, many
values) that the model accepts is a chain of accepted adds … -/
theorem stepAll_adds {sp : Spelling} {sg : String} : ∀ {attrs : List Attribute} {s s' : State},
    stepAll s (attrs.map fun a => ⟨sp, .add sg a⟩) = .ok s' → AddChain sg s attrs s' := by
  intro attrs
  induction attrs with
  | nil =>
    intro s s' h
    simp only [List.map_nil, stepAll] at h
    injection h with h
    rw [← h]; exact AddChain.nil s
  | cons a rest ih =>
    intro s s' h
    simp only [List.map_cons, stepAll] at h
    cases hx : stepS s ⟨sp, .add sg a⟩ with
    | error e => rw [hx] at h; cases h
    | ok s1 =>
      rw [hx] at h
      exact AddChain.cons (stepS_refines hx) (ih h)

/-- … and the checker of the `bulk` line (`verdictBulk`: every message signed by the owner of
its name, lookup complete, every new record one of the transaction, nothing gone) answers `ok`
on it. -/
theorem verdictBulk_ok {sp : Spelling} {sg : String} {attrs : List Attribute} {s s' : State} (hi : Inv s)
    (h : stepAll s (attrs.map fun a => ⟨sp, .add sg a⟩) = .ok s') :
    verdictBulk s sg attrs true s' = "ok" := by
  obtain ⟨h1, h2, h3, h4, _⟩ := addChain_facts (stepAll_adds h) hi
  have e1 : attrs.all (fun a => resolvesTo s a.name sg) = true := by
    rw [List.all_eq_true]; exact h1
  have e2 := lookupComplete_of_inv h2
  have e3 : s'.recs.all (fun r' => s.recs.contains r' || attrs.contains r') = true := by
    rw [List.all_eq_true]
    intro r' hr'
    rcases h3 r' hr' with e | e
    · simp [e]
    · simp [e]
  have e4 : s.recs.all (fun r => hasKey s' r.key) = true := by
    rw [List.all_eq_true]
    intro r hr
    rw [hasKey_iff]
    exact h4 r hr
  unfold verdictBulk
  simp only [e1, e2, e3, e4, Bool.not_true, Bool.false_eq_true, if_false]

example :
    let s0 : State := { now := 100, accts := ["A"], names := [("kyc.vf", "A")] }
    let attrs : List Attribute := [⟨"B", "kyc.vf", "1", .int, some 105⟩, ⟨"B", "kyc.vf", "2", .int, some 105⟩]
    ∃ s', stepAll s0 (attrs.map fun a => ⟨{}, .add "A" a⟩) = .ok s' ∧ s'.recs.length = 2 :=
  ⟨_, rfl, by decide⟩

/-- Spellings at work: `A` owns `kyc.vf`, `B` holds an attribute.  The stranger `C` is refused
with the normalised name (`perm`), with a white-space spelling (the name key still hits: `perm`)
and with a mixed-case spelling (owner check skipped, nothing matches: `notfound`); the owner's
own mixed-case delete is refused too; the owner's mixed-case add / update are accepted and store
the normalised name; with white space inside the name the update finds nothing.  On the checker,
an implementation that lets `C`'s mixed-case delete through is reported. -/
theorem spelling_witnesses :
    let s0 : State := { now := 100, accts := ["A", "C"], names := [("kyc.vf", "A")] }
    let mixed : Spelling := { exact := false, nameKeyHit := false, attrKeyHit := true }
    let outer : Spelling := { exact := false, nameKeyHit := true, attrKeyHit := true }
    let inner : Spelling := { exact := false, nameKeyHit := true, attrKeyHit := false }
    let s := runS s0 [⟨mixed, .add "A" ⟨"B", "kyc.vf", "1", .string, none⟩⟩]
    s.recs = [⟨"B", "kyc.vf", "1", .string, none⟩] ∧
    refusal (stepS s ⟨{}, .delete "C" "B" "kyc.vf"⟩) = some .perm ∧
    refusal (stepS s ⟨outer, .delete "C" "B" "kyc.vf"⟩) = some .perm ∧
    refusal (stepS s ⟨mixed, .delete "C" "B" "kyc.vf"⟩) = some .notfound ∧
    refusal (stepS s ⟨mixed, .deleteDistinct "A" "B" "kyc.vf" "1"⟩) = some .notfound ∧
    (runS s [⟨mixed, .update "A" "B" "kyc.vf" "1" .string "2" .string⟩]).recs = [⟨"B", "kyc.vf", "2", .string, none⟩] ∧
    refusal (stepS s ⟨inner, .update "A" "B" "kyc.vf" "1" .string "2" .string⟩) = some .notfound ∧
    refusal (stepS s ⟨mixed, .transfer "A" "kyc.vf" "C"⟩) = some .notfound ∧
    verdict s (.delete "C" "B" "kyc.vf") true { s with recs := [], cnt := [] } = "fail:write_by_non_owner" := by
  decide

/-! ## Values with surrounding white space; attributes left under a deleted name -/

/-- `types.NewAttribute` trims once: building the attribute again changes nothing. -/
theorem newAttribute_keeps_verbatim_types (a : Attribute) (h : a.ty = .bytes ∨ a.ty = .proto) :
    newAttribute a = a := by
  unfold newAttribute
  rcases h with h | h <;> simp [h]

/-- Values at work: `"1 "` stored as `bytes` (verbatim) and `"1"` stored from a `string` message
`" 1 "` (trimmed by `NewAttribute`) are two attributes of one (account, name).  Deleting by the value
`"1 "` removes exactly the first, deleting by `"1"` exactly the second, deleting by `" 1"` finds
nothing; an update may store a padded `string` value verbatim; an `int` is judged on the trimmed
value.  On the checker: an implementation that answers the deletion by `"1 "` by removing `"1"`, or
whose name deletion leaves an attribute under the name, is reported. -/
theorem value_white_space_witnesses :
    let s0 : State := { now := 100, accts := ["A", "C"], names := [("kyc.vf", "A")] }
    let padded : Attribute := ⟨"B", "kyc.vf", "1 ", .bytes, none⟩
    let plain : Attribute := ⟨"B", "kyc.vf", "1", .string, none⟩
    let s := run s0 [.add "A" (newAttribute padded), .add "A" (newAttribute ⟨"B", "kyc.vf", " 1 ", .string, none⟩)]
    s.recs = [plain, padded] ∧
    (run s [.deleteDistinct "A" "B" "kyc.vf" "1 "]).recs = [plain] ∧
    (run s [.deleteDistinct "A" "B" "kyc.vf" "1"]).recs = [padded] ∧
    refusal (step s (.deleteDistinct "A" "B" "kyc.vf" " 1")) = some .notfound ∧
    (run s [.update "A" "B" "kyc.vf" "1" .string "x " .string]).recs = [⟨"B", "kyc.vf", "x ", .string, none⟩, padded] ∧
    refusal (step s (.update "A" "B" "kyc.vf" "1" .string " 7 " .int)) = none ∧
    refusal (step s (.update "A" "B" "kyc.vf" "1" .string " x " .int)) = some .invalid ∧
    verdict s (.deleteDistinct "A" "B" "kyc.vf" "1 ") true { s with recs := [padded] } =
      "fail:disappears:not_deleted_by_owner" ∧
    verdict s (.deleteName "A" "kyc.vf") true { s with names := [] } = "fail:name_deleted_attributes_remain" := by
  decide

/-! ## Non-vacuity -/

/-- A history with two names, a transfer, a refused foreign write, a re-add of an identical key
with a later expiration (the former defect), an expiry and a name deletion. -/
example :
    let s0 : State := { now := 100, accts := ["A", "B", "C"], names := [("kyc.vf", "A"), ("aml.vf", "B")] }
    let ops : List Op := [
      .add "A" ⟨"C", "kyc.vf", "1", .string, some 110⟩, .add "B" ⟨"C", "aml.vf", "7", .int, none⟩,
      .add "B" ⟨"C", "kyc.vf", "2", .string, none⟩,          -- refused: B does not own kyc.vf
      .transfer "A" "kyc.vf" "B", .updateExp "B" "C" "kyc.vf" "1" (some 120),
      .beginBlock 115, .add "B" ⟨"A", "kyc.vf", "2", .proto, some 116⟩,
      .add "B" ⟨"A", "kyc.vf", "2", .proto, some 300⟩, .beginBlock 117,
      .deleteName "B" "aml.vf"]
    Init s0 ∧
      (run s0 ops).recs = [⟨"A", "kyc.vf", "2", .proto, some 300⟩, ⟨"C", "kyc.vf", "1", .string, some 120⟩] ∧
      accountsByAttribute (run s0 ops) "kyc.vf" = ["A", "C"] := by
  decide

end PvProofs.C16
