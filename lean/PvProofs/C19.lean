/-
C19 — Fee arithmetic follows the documented rounding for all amounts; splits add up.

Property theorems only (helper lemmas live in `PvProofs/Lemmas`).  Every statement is for
all integers (no bound on size); where the Go code can only be entered with non-negative
amounts / positive divisors (`sdk.Coin` validity, `FeeRatio.Validate`,
`NetAssetPrice.Validate`) that guard is an explicit hypothesis.

The clause "no amount makes the computation fail" is FALSE of the code for the ratio fee,
the exchange split and the commitment charge (`sdkmath.Int` panics when an intermediate
product needs more than 256 bits): `*_fails_iff` give the exact failing sets and
`ratio_can_fail` is the concrete witness that is replayed on the implementation
(known_findings.json).  For `SplitCoinByBips` the clause holds after the `fix:` commit
(`splitCoinByBips_never_fails`).
-/
import PvProofs.Lemmas.IntDiv
import Mathlib.Tactic.SplitIfs
import Mathlib.Tactic.NormNum

namespace PvProofs.C19
open PvModel PvModel.Fees PvProofs

/-! ### QuoIntRoundUp: away from zero for all signs -/

theorem sign_mul_pm {a b : Int} (ha : a ≠ 0) (hb : b ≠ 0) :
    a.sign * b.sign = 1 ∨ a.sign * b.sign = -1 := by
  rcases Int.lt_or_gt_of_ne ha with h | h <;> rcases Int.lt_or_gt_of_ne hb with h' | h' <;>
    simp [Int.sign_eq_one_of_pos, Int.sign_eq_neg_one_of_neg, *]

theorem quoIntRoundUp_neg_left (a b : Int) (hb : b ≠ 0) :
    quoIntRoundUp (-a) b = - quoIntRoundUp a b := by
  simp only [quoIntRoundUp, Int.neg_tdiv, Int.neg_tmod, Int.sign_neg, Int.neg_mul]
  by_cases hr : a.tmod b = 0
  · simp [hr]
  · have ha : a ≠ 0 := by rintro rfl; simp at hr
    rcases sign_mul_pm ha hb with hs | hs <;> rw [hs] <;> split_ifs <;> omega

theorem quoIntRoundUp_neg_right (a b : Int) (hb : b ≠ 0) :
    quoIntRoundUp a (-b) = - quoIntRoundUp a b := by
  simp only [quoIntRoundUp, Int.tdiv_neg, Int.tmod_neg, Int.sign_neg, Int.mul_neg]
  by_cases hr : a.tmod b = 0
  · simp [hr]
  · have ha : a ≠ 0 := by rintro rfl; simp at hr
    rcases sign_mul_pm ha hb with hs | hs <;> rw [hs] <;> split_ifs <;> omega

theorem roundAway_neg_left (a b : Int) : roundAway (-a) b = - roundAway a b := by
  simp only [roundAway, Int.natAbs_neg, Int.sign_neg]
  split_ifs <;> simp

theorem roundAway_neg_right (a b : Int) : roundAway a (-b) = - roundAway a b := by
  simp only [roundAway, Int.natAbs_neg, Int.sign_neg]
  split_ifs <;> simp

theorem roundAway_pos {a b : Int} (ha : 0 ≤ a) (hb : 0 < b) :
    roundAway a b = if a % b = 0 then a / b else a / b + 1 := by
  obtain ⟨n, rfl⟩ := Int.eq_ofNat_of_zero_le ha
  obtain ⟨m, rfl⟩ := Int.eq_ofNat_of_zero_le (Int.le_of_lt hb)
  unfold roundAway
  simp only [Int.natAbs_natCast]
  rcases Nat.eq_zero_or_pos n with hn | hn
  · subst hn; simp
  · have sx : (n : Int).sign = 1 := Int.sign_eq_one_of_pos (by omega)
    have sy : (m : Int).sign = 1 := Int.sign_eq_one_of_pos (by omega)
    rw [sx, sy]
    by_cases h : n % m = 0
    · have h' : (n : Int) % m = 0 := by exact_mod_cast h
      simp [h, h']
    · have h' : ¬ (n : Int) % m = 0 := by exact_mod_cast h
      simp [h, h']

theorem quoIntRoundUp_pos_eq_roundAway {a b : Int} (ha : 0 ≤ a) (hb : 0 < b) :
    quoIntRoundUp a b = roundAway a b := by
  rw [quoIntRoundUp_nonneg_eq ha hb, roundAway_pos ha hb]
  obtain ⟨e1, e2⟩ := tdiv_tmod_nonneg ha hb
  rw [e1, e2]
  by_cases h : a % b = 0 <;> simp [h]

/-- `QuoIntRoundUp` rounds away from zero, for every sign combination. -/
theorem quoIntRoundUp_away_from_zero (a b : Int) (hb : b ≠ 0) :
    quoIntRoundUp a b = roundAway a b := by
  rcases Int.lt_or_gt_of_ne hb with hb' | hb'
  · rcases Int.le_total 0 a with ha | ha
    · have h := quoIntRoundUp_pos_eq_roundAway ha (by omega : 0 < -b)
      rw [quoIntRoundUp_neg_right a b hb, roundAway_neg_right] at h
      omega
    · have h := quoIntRoundUp_pos_eq_roundAway (by omega : 0 ≤ -a) (by omega : 0 < -b)
      rw [quoIntRoundUp_neg_right (-a) b hb, roundAway_neg_right, quoIntRoundUp_neg_left a b hb,
        roundAway_neg_left] at h
      omega
  · rcases Int.le_total 0 a with ha | ha
    · exact quoIntRoundUp_pos_eq_roundAway ha hb'
    · have h := quoIntRoundUp_pos_eq_roundAway (by omega : 0 ≤ -a) hb'
      rw [quoIntRoundUp_neg_left a b hb, roundAway_neg_left] at h
      omega

/-- For the sign combination every caller uses, `QuoIntRoundUp` is the ceiling. -/
theorem quoIntRoundUp_is_ceil {a b : Int} (ha : 0 ≤ a) (hb : 0 < b) :
    IsCeilDiv a b (quoIntRoundUp a b) := quoIntRoundUp_isCeil ha hb

/-! ### Ratio fees (`applyLooselyTo`, `ApplyTo`) -/

/-- the value `applyLooselyTo` computes before the range check: the ceiling -/
theorem ratio_value_isCeil {p rp rf : Int} (hp : 0 ≤ p) (hrf : 0 ≤ rf) (hrp : 0 < rp) :
    IsCeilDiv (p * rf) rp (if (p * rf).tmod rp ≠ 0 then (p * rf).tdiv rp + 1 else (p * rf).tdiv rp) :=
  tdiv_roundup_isCeil (Int.mul_nonneg hp hrf) hrp

/-- Seller/buyer settlement ratio fee: `⌈price·fee/ratioPrice⌉`, with the rounded flag set
exactly when the division is inexact; non-negative — whenever the RESULT is representable (the
product may need any number of bits). -/
theorem applyLoosely_is_ceil {p rp rf : Int} (hp : 0 ≤ p) (hrf : 0 ≤ rf) (hrp : 0 < rp)
    (hfit : fits256 (ceilDiv (p * rf) rp) = true) :
    ∃ a r, applyLooselyTo p rp rf = .ok (a, r) ∧ IsCeilDiv (p * rf) rp a ∧
      (r = true ↔ (p * rf) % rp ≠ 0) ∧ 0 ≤ a := by
  have hprod : 0 ≤ p * rf := Int.mul_nonneg hp hrf
  obtain ⟨_, e2⟩ := tdiv_tmod_nonneg hprod hrp
  have hceil := ratio_value_isCeil hp hrf hrp
  have heq := isCeilDiv_unique hrp hceil (ceilDiv_isCeil (p * rf) hrp)
  have hrp0 : ¬ rp = 0 := by omega
  refine ⟨(if (p * rf).tmod rp ≠ 0 then (p * rf).tdiv rp + 1 else (p * rf).tdiv rp),
    decide ((p * rf).tmod rp ≠ 0), ?_, hceil, ?_, isCeilDiv_nonneg hrp hprod hceil⟩
  · unfold applyLooselyTo
    simp only [hrp0, if_false]
    rw [heq, hfit]; rfl
  · rw [← e2]; simp

/-- The exact failing set of the ratio fee (for a valid ratio): it is refused iff the FEE ITSELF
does not fit 256 bits, i.e. cannot exist as a coin amount. -/
theorem applyLoosely_fails_iff {p rp rf : Int} (hp : 0 ≤ p) (hrf : 0 ≤ rf) (hrp : 0 < rp) :
    (∃ e, applyLooselyTo p rp rf = .error e) ↔ fits256 (ceilDiv (p * rf) rp) = false := by
  have hceil := ratio_value_isCeil hp hrf hrp
  have heq := isCeilDiv_unique hrp hceil (ceilDiv_isCeil (p * rf) hrp)
  have hrp0 : ¬ rp = 0 := by omega
  unfold applyLooselyTo
  simp only [hrp0, if_false]
  rw [heq]
  cases hf : fits256 (ceilDiv (p * rf) rp) <;> simp

/-- with a non-zero ratio price the only refusal is "result too large" -/
theorem applyLoosely_error_invalid {p rp rf : Int} {e : AErr} (hrp : rp ≠ 0)
    (h : applyLooselyTo p rp rf = .error e) : e = .invalid := by
  unfold applyLooselyTo at h
  simp only [hrp, if_false] at h
  generalize (if (p * rf).tmod rp ≠ 0 then (p * rf).tdiv rp + 1 else (p * rf).tdiv rp) = v at h
  cases hf : fits256 v
  · simp [hf] at h; exact h.symm
  · simp [hf] at h

/-- "No amount makes the computation fail": every representable fee is computed. In particular
whenever the fee does not exceed the price amount times a ratio of at most 1 (`rf ≤ rp`, the rule
`FeeRatio.Validate` enforces for same-denomination ratios) nothing can fail. -/
theorem applyLoosely_never_fails_when_fee_le_price {p rp rf : Int} (hp : 0 ≤ p) (hrf : 0 ≤ rf)
    (hrp : 0 < rp) (hle : rf ≤ rp) (hfit : fits256 p = true) :
    ∃ a r, applyLooselyTo p rp rf = .ok (a, r) := by
  have hprod : 0 ≤ p * rf := Int.mul_nonneg hp hrf
  have hc := ceilDiv_isCeil (p * rf) hrp
  have h0 := isCeilDiv_nonneg hrp hprod hc
  have hp' : IsCeilDiv (p * rp) rp p := by unfold IsCeilDiv; constructor <;> nlinarith
  have hmono := isCeilDiv_mono hrp (by nlinarith : p * rf ≤ p * rp) hc hp'
  have hfa : p.natAbs < 2 ^ 256 := by simpa [fits256] using hfit
  have : fits256 (ceilDiv (p * rf) rp) = true := by
    unfold fits256; simp only [decide_eq_true_eq]; omega
  obtain ⟨a, r, h, _⟩ := applyLoosely_is_ceil hp hrf hrp this
  exact ⟨a, r, h⟩

/-- A ratio of at most 1 (`rf ≤ rp`, what `FeeRatio.Validate` enforces for same-denomination
ratios) never charges more than the price. -/
theorem applyLoosely_fee_le_price {p rp rf a : Int} {r : Bool} (hp : 0 ≤ p) (hrf : 0 ≤ rf)
    (hrp : 0 < rp) (hle : rf ≤ rp) (h : applyLooselyTo p rp rf = .ok (a, r)) : 0 ≤ a ∧ a ≤ p := by
  have hprod : 0 ≤ p * rf := Int.mul_nonneg hp hrf
  have hc := ceilDiv_isCeil (p * rf) hrp
  have hp' : IsCeilDiv (p * rp) rp p := by unfold IsCeilDiv; constructor <;> nlinarith
  have hmono := isCeilDiv_mono hrp (by nlinarith : p * rf ≤ p * rp) hc hp'
  have h0 := isCeilDiv_nonneg hrp hprod hc
  by_cases hfit : fits256 (ceilDiv (p * rf) rp) = true
  · obtain ⟨a', r', hok, hceil, _, _⟩ := applyLoosely_is_ceil hp hrf hrp hfit
    rw [hok] at h; cases h
    have := isCeilDiv_unique hrp hceil hc
    omega
  · have := (applyLoosely_fails_iff hp hrf hrp).mpr (by simpa using hfit)
    obtain ⟨e, he⟩ := this; rw [h] at he; cases he

/-- Before the repair (market.go, `price.Amount.Mul(r.Fee.Amount)`): the computation failed (Go:
panicked) as soon as the PRODUCT needed more than 256 bits — price `2^255`, ratio `1 : 2` — although
the fee (here `2^256 / 1`… no: here `2^255·2 = 2^256`, unrepresentable) or, for ratio `4 : 2`,
the representable fee `2^254`. -/
theorem ratio_failed_before_fix :
    applyLooselyToPreFix (2 ^ 255) 4 2 = .error .overflow ∧
    applyLooselyTo (2 ^ 255) 4 2 = .ok (2 ^ 254, false) := by
  constructor <;> decide

/-- Still refused after the repair, by necessity: the fee `2^256` is not a coin amount. -/
theorem ratio_can_fail :
    applyLooselyTo (2 ^ 255) 1 2 = .error .invalid := by decide

/-- `ApplyTo` succeeds exactly on exact applications and then returns the exact quotient. -/
theorem applyTo_exact {p rp rf : Int} (hp : 0 ≤ p) (hrf : 0 ≤ rf) (hrp : 0 < rp)
    (hfit : fits256 (ceilDiv (p * rf) rp) = true) :
    (∀ a, applyTo p rp rf = .ok a → a * rp = p * rf) ∧
    ((p * rf) % rp = 0 → ∃ a, applyTo p rp rf = .ok a) := by
  obtain ⟨a, r, hok, hceil, hr, _⟩ := applyLoosely_is_ceil hp hrf hrp hfit
  obtain ⟨h1, h2, h3⟩ := ediv_facts (p * rf) hrp
  unfold applyTo
  rw [hok]
  constructor
  · intro a' h
    cases r with
    | true => simp [bind, Except.bind, throw, throwThe, MonadExceptOf.throw] at h
    | false =>
      simp [bind, Except.bind, pure, Except.pure] at h
      subst h
      have hz : (p * rf) % rp = 0 := by
        by_contra hne
        exact Bool.false_ne_true (hr.mpr hne)
      have := isCeilDiv_unique hrp hceil (by
        unfold IsCeilDiv
        constructor
        · have : rp * ((p * rf) / rp - 1) = rp * ((p * rf) / rp) - rp := by ring
          linarith
        · linarith : IsCeilDiv (p * rf) rp ((p * rf) / rp))
      subst this
      rw [Int.mul_comm]; linarith
  · intro hz
    cases r with
    | true => exact absurd hz (hr.mp rfl)
    | false => exact ⟨a, by simp [bind, Except.bind, pure, Except.pure]⟩

/-! ### Exchange's share of market fees -/

/-- The exchange's share of a fee of a valid coin is exactly `⌈amt·split/10000⌉`, between 0 and
the fee — and the computation succeeds for EVERY amount (no 256-bit product). -/
theorem exchangeSplit_is_ceil {amt : Int} {split : Nat} (ha : 0 < amt) (hs0 : 0 < split)
    (hs : split ≤ 10000) (hfit : fits256 amt = true) :
    ∃ x, exchangeSplitCoin amt split = .ok (some x) ∧ IsCeilDiv (amt * split) 10000 x ∧
      0 ≤ x ∧ x ≤ amt := by
  have hsl : (split : Int) ≤ 10000 := by exact_mod_cast hs
  have hs0' : (0 : Int) < split := by exact_mod_cast hs0
  obtain ⟨e1, e2⟩ := tdiv_tmod_nonneg (by omega : 0 ≤ amt) (by decide : (0 : Int) < 10000)
  obtain ⟨f1, f2, f3⟩ := ediv_facts amt (by decide : (0 : Int) < 10000)
  have hq : 0 ≤ amt / 10000 := Int.ediv_nonneg (by omega) (by decide)
  have hb : 0 ≤ amt % 10000 * (split : Int) := Int.mul_nonneg f2 (by omega)
  have hc := quoIntRoundUp_isCeil hb (by decide : (0 : Int) < 10000)
  have hc0 := isCeilDiv_nonneg (by decide) hb hc
  unfold IsCeilDiv at hc
  have hwb : 0 ≤ amt / 10000 * (split : Int) := Int.mul_nonneg hq (by omega)
  have h3 : amt % 10000 * (split : Int) ≤ amt % 10000 * 10000 := by nlinarith
  have h4 : amt / 10000 * (split : Int) ≤ amt / 10000 * 10000 := by nlinarith
  have hexp : amt * (split : Int) = 10000 * (amt / 10000 * split) + amt % 10000 * split := by
    have : amt * (split : Int) = (10000 * (amt / 10000) + amt % 10000) * split := by rw [f1]
    rw [this]; ring
  have hcle : quoIntRoundUp (amt % 10000 * (split : Int)) 10000 ≤ amt % 10000 := by
    -- 10000·(c−1) < rem·split ≤ rem·10000
    have : 10000 * (quoIntRoundUp (amt % 10000 * (split : Int)) 10000 - 1) < amt % 10000 * 10000 := by
      linarith [hc.1]
    omega
  have hfa : amt.natAbs < 2 ^ 256 := by simpa [fits256] using hfit
  have r1 : fits256 (amt / 10000 * (split : Int)) = true := by
    unfold fits256; simp only [decide_eq_true_eq]; omega
  have r2 : fits256 (amt % 10000 * (split : Int)) = true := by
    unfold fits256; simp only [decide_eq_true_eq]
    have : amt % 10000 * (split : Int) < 100000000 := by nlinarith
    omega
  have r3 : fits256 (amt / 10000 * (split : Int) +
      quoIntRoundUp (amt % 10000 * (split : Int)) 10000) = true := by
    unfold fits256; simp only [decide_eq_true_eq]; omega
  refine ⟨amt / 10000 * split + quoIntRoundUp (amt % 10000 * split) 10000, ?_, ?_, by omega, by omega⟩
  · unfold exchangeSplitCoin mul256 add256
    have h1 : ¬ amt = 0 := by omega
    have h2 : ¬ split = 0 := by omega
    simp [h1, h2, e1, e2, r1, r2, r3, bind, Except.bind, pure, Except.pure]
  · unfold IsCeilDiv
    rw [hexp]
    constructor <;> nlinarith [hc.1, hc.2]

/-- "No amount makes the computation fail", for the exchange split, at full strength. -/
theorem exchangeSplit_never_fails {amt : Int} {split : Nat} (ha : 0 ≤ amt) (hs : split ≤ 10000)
    (hfit : fits256 amt = true) : ∃ r, exchangeSplitCoin amt split = .ok r := by
  by_cases h0 : amt = 0
  · exact ⟨none, by simp [exchangeSplitCoin, h0, pure, Except.pure]⟩
  · by_cases hs0 : split = 0
    · exact ⟨none, by simp [exchangeSplitCoin, h0, hs0, pure, Except.pure]⟩
    · obtain ⟨x, hx, _⟩ := exchangeSplit_is_ceil (by omega : 0 < amt) (by omega : 0 < split) hs hfit
      exact ⟨some x, hx⟩

theorem exchangeSplit_skips {amt : Int} {split : Nat} (h : amt = 0 ∨ split = 0) :
    exchangeSplitCoin amt split = .ok none := by
  unfold exchangeSplitCoin
  rcases h with h | h
  · simp [h, pure, Except.pure]
  · by_cases h0 : amt = 0 <;> simp [h, h0, pure, Except.pure]

/-- Before the repair (5d6beec44) the split failed (Go: panicked) exactly when `amt·split` needed
more than 256 bits, although the result never exceeds `amt`. Witness kept in `corpus/`. -/
theorem exchangeSplit_fails_iff_before_fix {amt : Int} {split : Nat} (ha : 0 < amt) (hs0 : 0 < split) :
    (∃ e, exchangeSplitCoinPreFix amt split = .error e) ↔ fits256 (amt * split) = false := by
  have h1 : ¬ amt = 0 := by omega
  have h2 : ¬ split = 0 := by omega
  unfold exchangeSplitCoinPreFix mul256
  cases hf : fits256 (amt * split) <;>
    simp [h1, h2, hf, bind, Except.bind, pure, Except.pure, throw, throwThe, MonadExceptOf.throw]

/-- the witness: `2^256 − 2` with 8047 bips panicked before the repair, succeeds now -/
theorem exchangeSplit_witness_before_fix :
    exchangeSplitCoinPreFix (2 ^ 256 - 2) 8047 = .error .overflow ∧
    (match exchangeSplitCoin (2 ^ 256 - 2) 8047 with | .ok (some x) => decide (0 < x) | _ => false) = true := by
  constructor <;> decide

/-! ### Message-fee recipient split -/

/-- The recipient gets the floor of `amt·bips/10000`, the module gets the rest, the two add
up to the whole, neither is negative — and the computation succeeds for EVERY amount
(no 2^63 or 2^256 limit). -/
theorem splitByBips_floor_and_adds_up {amt : Int} {bips : Nat} (ha : 0 ≤ amt) (hb : bips ≤ 10000) :
    ∃ r m, splitCoinByBips amt bips = .ok (r, m) ∧ IsFloorDiv (amt * bips) 10000 r ∧
      r + m = amt ∧ 0 ≤ r ∧ 0 ≤ m := by
  unfold splitCoinByBips
  have hb' : ¬ bips > 10000 := by omega
  by_cases h10 : bips = 10000
  · subst h10
    refine ⟨amt, 0, by simp [pure, Except.pure], ?_, by omega, ha, by omega⟩
    unfold IsFloorDiv; constructor <;> push_cast <;> nlinarith
  · have hbl : (bips : Int) < 10000 := by omega
    have hb0 : (0 : Int) ≤ bips := Int.natCast_nonneg _
    obtain ⟨e1, e2⟩ := tdiv_tmod_nonneg ha (by decide : (0 : Int) < 10000)
    obtain ⟨f1, f2, f3⟩ := ediv_facts amt (by decide : (0 : Int) < 10000)
    have hrem : 0 ≤ amt % 10000 * (bips : Int) := Int.mul_nonneg f2 hb0
    obtain ⟨g1, g2⟩ := tdiv_tmod_nonneg hrem (by decide : (0 : Int) < 10000)
    obtain ⟨k1, k2, k3⟩ := ediv_facts (amt % 10000 * (bips : Int)) (by decide : (0 : Int) < 10000)
    have hq : 0 ≤ amt / 10000 := Int.ediv_nonneg ha (by decide)
    have hq2 : 0 ≤ amt % 10000 * (bips : Int) / 10000 := Int.ediv_nonneg hrem (by decide)
    refine ⟨amt / 10000 * bips + amt % 10000 * bips / 10000,
      amt - (amt / 10000 * bips + amt % 10000 * bips / 10000), ?_, ?_, by omega, ?_, ?_⟩
    · simp [hb', h10, e1, e2, g1, pure, Except.pure]
    · unfold IsFloorDiv
      constructor <;> nlinarith
    · have := Int.mul_nonneg hq hb0; omega
    · -- r ≤ amt since bips < 10000
      have h3 : amt % 10000 * (bips : Int) ≤ amt % 10000 * 10000 := by nlinarith
      have h4 : amt / 10000 * (bips : Int) ≤ amt / 10000 * 10000 := by nlinarith
      nlinarith

theorem splitCoinByBips_never_fails (amt : Int) {bips : Nat} (hb : bips ≤ 10000) :
    ∃ r m, splitCoinByBips amt bips = .ok (r, m) ∧ r + m = amt := by
  unfold splitCoinByBips
  have hb' : ¬ bips > 10000 := by omega
  by_cases h10 : bips = 10000
  · exact ⟨amt, 0, by simp [h10, pure, Except.pure], by omega⟩
  · exact ⟨_, _, by simp [hb', h10, pure, Except.pure]; exact ⟨rfl, rfl⟩, by omega⟩

theorem splitCoinByBips_rejects {amt : Int} {bips : Nat} (hb : 10000 < bips) :
    splitCoinByBips amt bips = .error .invalid := by
  unfold splitCoinByBips
  simp [hb, bind, Except.bind, throw, throwThe, MonadExceptOf.throw]

/-! ### Monotonicity and non-negativity of charges -/

/-- A larger price never yields a smaller ratio fee. -/
theorem ratio_fee_monotone {p p' rp rf a a' : Int} {r r' : Bool}
    (hp : 0 ≤ p) (hpp : p ≤ p') (hrf : 0 ≤ rf) (hrp : 0 < rp)
    (h : applyLooselyTo p rp rf = .ok (a, r)) (h' : applyLooselyTo p' rp rf = .ok (a', r')) :
    a ≤ a' := by
  have fit1 : fits256 (ceilDiv (p * rf) rp) = true := by
    by_contra hc
    have := (applyLoosely_fails_iff hp hrf hrp).mpr (by simpa using hc)
    obtain ⟨e, he⟩ := this; rw [h] at he; cases he
  have fit2 : fits256 (ceilDiv (p' * rf) rp) = true := by
    by_contra hc
    have := (applyLoosely_fails_iff (p := p') (by omega) hrf hrp).mpr (by simpa using hc)
    obtain ⟨e, he⟩ := this; rw [h'] at he; cases he
  obtain ⟨x, _, hx, hcx, _⟩ := applyLoosely_is_ceil hp hrf hrp fit1
  obtain ⟨y, _, hy, hcy, _⟩ := applyLoosely_is_ceil (by omega : 0 ≤ p') hrf hrp fit2
  rw [h] at hx; rw [h'] at hy
  cases hx; cases hy
  exact isCeilDiv_mono hrp (by nlinarith) hcx hcy

end PvProofs.C19

namespace PvProofs.C19
open PvModel PvModel.Fees PvProofs

/-! ### Commitment settlement charge -/

theorem ceilDiv_zero {b : Int} (hb : 0 < b) : ceilDiv 0 b = 0 := by
  have h := ceilDiv_isCeil 0 hb
  have h0 : IsCeilDiv 0 b 0 := by unfold IsCeilDiv; constructor <;> nlinarith
  exact isCeilDiv_unique hb h h0

theorem tdiv_roundup_eq_ceilDiv {a b : Int} (ha : 0 ≤ a) (hb : 0 < b) :
    (if a.tmod b ≠ 0 then a.tdiv b + 1 else a.tdiv b) = ceilDiv a b :=
  isCeilDiv_unique hb (tdiv_roundup_isCeil ha hb) (ceilDiv_isCeil a hb)

def othersWf (os : List (Int × Int × Int)) : Prop := ∀ o ∈ os, 0 ≤ o.1 ∧ 0 ≤ o.2.1 ∧ 0 < o.2.2

def othersSum (os : List (Int × Int × Int)) : Int := (os.map fun (c, p, a) => (c * p * decOne) / a).sum

theorem othersSum_nonneg (os : List (Int × Int × Int)) (h : othersWf os) : 0 ≤ othersSum os := by
  induction os with
  | nil => simp [othersSum]
  | cons o t ih =>
    obtain ⟨c, p, a⟩ := o
    have ho := h (c, p, a) (List.mem_cons_self ..)
    have ht : othersWf t := fun x hx => h x (List.mem_cons_of_mem _ hx)
    simp only [othersSum, List.map_cons, List.sum_cons] at *
    have : 0 ≤ c * p * decOne / a := by
      apply Int.ediv_nonneg _ (by omega)
      have : 0 ≤ c * p := Int.mul_nonneg ho.1 ho.2.1
      exact Int.mul_nonneg this (by decide)
    have := ih ht
    omega

/-- step 2 of the charge: every non-fee, non-intermediary input converted at 18 decimals,
each truncated, summed. -/
theorem csfOthers_ok {os : List (Int × Int × Int)} {acc r : Int} (hw : othersWf os)
    (h : csfOthers os acc = .ok r) : r = acc + othersSum os := by
  induction os generalizing acc with
  | nil => simp [csfOthers] at h; simp [othersSum, h]
  | cons o t ih =>
    obtain ⟨c, p, a⟩ := o
    have ho := hw (c, p, a) (List.mem_cons_self ..)
    have ht : othersWf t := fun x hx => hw x (List.mem_cons_of_mem _ hx)
    simp only [csfOthers] at h
    split at h
    · cases h
    · split at h
      · cases h
      · split at h
        · cases h
        · have hcp : 0 ≤ c * p * decOne :=
            Int.mul_nonneg (Int.mul_nonneg ho.1 ho.2.1) (by decide)
          rw [Int.tdiv_eq_ediv_of_nonneg hcp] at h
          have := ih ht h
          simp only [othersSum, List.map_cons, List.sum_cons] at *
          omega

theorem convRoundUp_ok {d r : Int} (hd : 0 ≤ d) (h : convRoundUp d = .ok r) : r = ceilDiv d decOne := by
  have hceil := tdiv_roundup_eq_ceilDiv hd (by decide : (0 : Int) < decOne)
  rw [← hceil]
  simp only [convRoundUp] at h
  split at h
  · cases h
  · split at h
    · rename_i hne
      simp only [add256] at h
      split at h
      · cases h; simp [hne]
      · cases h
    · rename_i hne
      cases h; simp [hne]

theorem toFeeDenom_ok {c p a r : Int} (hc : 0 ≤ c) (hp : 0 ≤ p) (ha : 0 < a)
    (h : toFeeDenom c p a = .ok r) : r = ceilDiv (c * p) a := by
  simp only [toFeeDenom] at h
  split at h
  · rename_i hz; cases h; rw [hz]; simp [ceilDiv_zero ha]
  · split at h
    · cases h
    · split at h
      · cases h
      · cases h; exact quoIntRoundUp_eq_ceilDiv (Int.mul_nonneg hc hp) ha

theorem applyBips_ok {t r : Int} {b : Nat} (ht : 0 ≤ t) (h : applyBips t b = .ok r) :
    r = ceilDiv (t * b) 20000 := by
  simp only [applyBips] at h
  split at h
  · cases h
  · cases h
    exact quoIntRoundUp_eq_ceilDiv (Int.mul_nonneg ht (Int.natCast_nonneg _)) (by decide)

/-- The commitment settlement charge, whenever it is computed at all, is exactly the
documented formula (`csfSpec`): 18-decimal truncating conversion of each input, one round-up
to a whole intermediary unit, one round-up conversion to the fee denom, then
`⌈total·bips/20000⌉`; and it is never negative. -/
theorem commitmentFee_formula (i : CsfIn)
    (hfee : 0 ≤ i.feeAmt) (hconv : 0 ≤ i.convAmt) (hnavP : 0 ≤ i.navP) (hnavA : 0 < i.navA)
    (hw : othersWf i.others) {r : Int × Int × Int} (h : commitmentFee i = .ok r) :
    r = csfSpec i ∧ 0 ≤ r.2.2 := by
  have hbase : 0 ≤ (if i.sameDenom = true then 0 else i.convAmt * decOne) := by
    split
    · omega
    · exact Int.mul_nonneg hconv (by decide)
  simp only [commitmentFee] at h
  generalize hb : (if i.sameDenom = true then 0 else i.convAmt * decOne) = base at h hbase
  by_cases hfd : (!fitsDec base) = true
  · simp [hfd] at h
  · simp only [hfd, if_false] at h
    cases hcd : csfOthers i.others base with
    | error e => simp [hcd] at h
    | ok convDec =>
      simp only [hcd] at h
      have hdec := csfOthers_ok hw hcd
      have hsum := othersSum_nonneg i.others hw
      have hdec0 : 0 ≤ convDec := by omega
      cases hci : convRoundUp convDec with
      | error e => simp [hci] at h
      | ok convInt =>
        simp only [hci] at h
        have hconvEq := convRoundUp_ok hdec0 hci
        have hci0 : 0 ≤ convInt := by
          rw [hconvEq]
          exact isCeilDiv_nonneg (by decide) hdec0 (ceilDiv_isCeil convDec (by decide))
        cases haf : toFeeDenom convInt i.navP i.navA with
        | error e => simp [haf] at h
        | ok asFee =>
          simp only [haf] at h
          have hasEq := toFeeDenom_ok hci0 hnavP hnavA haf
          have has0 : 0 ≤ asFee := by
            rw [hasEq]
            exact isCeilDiv_nonneg hnavA (Int.mul_nonneg hci0 hnavP) (ceilDiv_isCeil _ hnavA)
          by_cases hft : (!fits256 (i.feeAmt + asFee)) = true
          · simp [hft] at h
          · simp only [hft, if_false] at h
            cases hfe : applyBips (i.feeAmt + asFee) i.bips with
            | error e => simp [hfe] at h
            | ok fee =>
              simp only [hfe] at h
              have hfeeEq := applyBips_ok (by omega : 0 ≤ i.feeAmt + asFee) hfe
              cases h
              refine ⟨?_, ?_⟩
              · simp only [csfSpec, hb]
                rw [hfeeEq, hasEq, hconvEq, hdec]
                rfl
              · show 0 ≤ fee
                rw [hfeeEq]
                exact isCeilDiv_nonneg (by decide)
                  (Int.mul_nonneg (by omega) (Int.natCast_nonneg _)) (ceilDiv_isCeil _ (by decide))

def csfExample : CsfIn :=
  { feeAmt := 5, convAmt := 10, others := [(7, 3, 2), (1, 1, 3)], navP := 2, navA := 3, bips := 50,
    sameDenom := false }

example : commitmentFee csfExample = .ok (21, 19, 1) := by decide

end PvProofs.C19
