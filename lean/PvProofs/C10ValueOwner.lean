/-
C10, part 4 — scope writes and deletions on scopes WITH a value owner, and records written into
sessions that outlived a change of the scope's `require_party_rollup` flag.

`validateWriteScopeVO` / `validateDeleteScopeVO` (PvModel/Signers.lean) are `ValidateWriteScope` /
`ValidateDeleteScope` in full: the stored value owner (looked up in the bank module), the
"ONLY the value owner changes" shortcut, `ValidateScopeValueOwnersSigners`, and the
smart-contract rule over the used signers of both.

* `writeScopeVO_without_value_owner`, `deleteScopeVO_without_value_owner` — without value owners
  they ARE `validateWriteScope` / `validateDeleteScope`: the theorems of `C10Callers.lean` apply;
* `valueOwnerSigners_accepts_iff` — `ValidateScopeValueOwnersSigners` accepts exactly when the
  replaced value owner is covered by the signers that count (all of them, or only the first one
  when that is a smart contract) and those decode;
* `writeScopeVO_only_when` / `writeScopeVO_iff` — a scope write is accepted only when (iff, when
  no smart contract signs) the value owner being replaced is covered AND, unless the value owner
  is the ONLY thing that changes, the documented owner / role requirements hold;
* `writeScope_other_change_needs_owner_signatures` — whatever the value owners, a write that
  changes anything else (`require_party_rollup`, owners, data access, specification) is accepted
  only when the stored scope's owners / roles are covered: the value owner alone cannot flip
  the rollup flag;
* `deleteScopeVO_only_when` / `deleteScopeVO_iff`;
* `writeRecord_plain_scope_every_session_party_signs` — without party rollup EVERY session party
  must be covered, whatever its `optional` flag says (a session written while the scope had
  rollup keeps optional parties after the scope is rewritten with rollup off).
-/
import PvProofs.C10Callers

namespace PvProofs.C10
open PvModel.Signers PvProofs.Lemmas.Signers PvProofs.Lemmas.SignersCallers

/-! ### the signers that count for the value owner -/

theorem valueOwnerSignerAccs_some {env : Env} {signers sa : List Addr}
    (h : valueOwnerSignerAccs env signers = some sa) :
    sa = Spec.valueOwnerSigners env signers ∧ ∀ a ∈ sa, env.valid a = true := by
  cases signers with
  | nil =>
    simp only [valueOwnerSignerAccs, Option.some.injEq] at h
    subst h
    simp [Spec.valueOwnerSigners]
  | cons s0 rest =>
    simp only [valueOwnerSignerAccs] at h
    by_cases h0 : env.valid s0 = true
    · by_cases hw : env.wasm s0 = true
      · simp only [h0, hw, Bool.not_true, Bool.false_eq_true, ↓reduceIte, Option.some.injEq] at h
        subst h
        simp [Spec.valueOwnerSigners, hw, h0]
      · by_cases hr : rest.all env.valid = true
        · simp only [h0, hw, hr, Bool.not_true, Bool.false_eq_true, ↓reduceIte, Option.some.injEq] at h
          subst h
          refine ⟨by simp [Spec.valueOwnerSigners, hw], ?_⟩
          intro a ha
          rcases List.mem_cons.mp ha with rfl | ha
          · exact h0
          · exact (List.all_eq_true.mp hr) a ha
        · simp [h0, hw, hr] at h
    · simp [h0] at h

theorem valueOwnerSignerAccs_none {env : Env} {signers : List Addr}
    (h : valueOwnerSignerAccs env signers = none) : signers.any (fun s => !env.valid s) = true := by
  cases signers with
  | nil => simp [valueOwnerSignerAccs] at h
  | cons s0 rest =>
    simp only [valueOwnerSignerAccs] at h
    by_cases h0 : env.valid s0 = true
    · by_cases hw : env.wasm s0 = true
      · simp [h0, hw] at h
      · by_cases hr : rest.all env.valid = true
        · simp [h0, hw, hr] at h
        · simp only [List.all_eq_true, not_forall] at hr
          obtain ⟨a, ha, hna⟩ := hr
          simp only [List.any_cons, Bool.or_eq_true, Bool.not_eq_true', List.any_eq_true]
          exact Or.inr ⟨a, ha, by simpa using hna⟩
    · simp [h0]

theorem valueOwnerSignerAccs_of_noContracts {env : Env} {signers : List Addr}
    (hnc : NoContracts env signers) : valueOwnerSignerAccs env signers = some signers := by
  cases signers with
  | nil => rfl
  | cons s0 rest =>
    have h0 := hnc s0 (by simp)
    have hr : rest.all env.valid = true := by
      rw [List.all_eq_true]; intro a ha; exact (hnc a (by simp [ha])).1
    simp [valueOwnerSignerAccs, h0.1, h0.2, hr]

/-- among decoded signers, "is one of them, or has granted one of them" is `Spec.covered` -/
theorem contains_or_grantee_eq_covered (env : Env) (hv : env.valid "" = false) (mt : MsgType)
    (sa : List Addr) (hsa : ∀ a ∈ sa, env.valid a = true) (vo : Addr) (hne : vo ≠ "") :
    (sa.contains vo || (findAuthzGrantee env mt vo sa).isSome) = Spec.covered env mt sa vo := by
  have hacc : accs env sa = sa := by
    unfold accs
    exact List.filter_eq_self.mpr hsa
  have := hasGrantee_eq_signsViaAuthz env mt sa vo
  unfold hasGrantee at this
  rw [hacc] at this
  rw [this]
  have hb : (vo != "") = true := by simpa using hne
  simp [Spec.covered, Spec.signsDirectly, hb]

/-! ### `ValidateScopeValueOwnersSigners` -/

/-- `ValidateScopeValueOwnersSigners` accepts exactly when the message names the value owner
the scope already has, or the signers that count decode and the existing value owner — if there
is one — is covered by them (is one of them, or has granted one of them an authorization that
applies). -/
theorem valueOwnerSigners_accepts_iff (env : Env) (hv : env.valid "" = false) (mt : MsgType)
    (existing proposed : Addr) (signers : List Addr) :
    Accepts (validateScopeValueOwnersSigners env mt existing proposed signers) ↔
      (existing ≠ "" ∧ existing = proposed) ∨
      ((valueOwnerSignerAccs env signers).isSome = true ∧
        (existing = "" ∨ Spec.valueOwnerCovered env mt signers existing = true)) := by
  unfold validateScopeValueOwnersSigners
  by_cases h1 : existing ≠ "" ∧ existing = proposed
  · have : (existing != "" && existing == proposed) = true := by
      obtain ⟨ha, hb⟩ := h1
      subst hb
      simp [ha]
    rw [if_pos this]
    exact ⟨fun _ => Or.inl h1, fun _ => ⟨_, rfl⟩⟩
  · have : ¬ ((existing != "" && existing == proposed) = true) := by
      intro hc
      simp only [Bool.and_eq_true, bne_iff_ne, ne_eq, beq_iff_eq] at hc
      exact h1 hc
    rw [if_neg this]
    cases hd : valueOwnerSignerAccs env signers with
    | none =>
      simp only [Option.isSome_none, Bool.false_eq_true, false_and, or_false]
      constructor
      · rintro ⟨a, ha⟩; cases ha
      · intro h; exact absurd h h1
    | some sa =>
      obtain ⟨hsa, hvalid⟩ := valueOwnerSignerAccs_some hd
      simp only [Option.isSome_some, true_and]
      by_cases he : existing = ""
      · simp only [he, beq_self_eq_true, ↓reduceIte]
        exact ⟨fun _ => Or.inr (Or.inl trivial), fun _ => ⟨_, rfl⟩⟩
      · have heb : (existing == "") = false := by simpa using he
        simp only [heb, Bool.false_eq_true, ↓reduceIte]
        have hcov := contains_or_grantee_eq_covered env hv mt sa hvalid existing he
        have hspec : Spec.valueOwnerCovered env mt signers existing = Spec.covered env mt sa existing := by
          rw [hsa]; rfl
        rw [hspec, ← hcov]
        by_cases hc : sa.contains existing = true
        · simp only [hc, ↓reduceIte, Bool.true_or]
          exact ⟨fun _ => Or.inr (Or.inr trivial), fun _ => ⟨_, rfl⟩⟩
        · have hcf : sa.contains existing = false := by simpa using hc
          simp only [hcf, Bool.false_eq_true, ↓reduceIte, Bool.false_or]
          cases hf : findAuthzGrantee env mt existing sa with
          | none =>
            simp only [Option.isSome_none, Bool.false_eq_true, or_false]
            constructor
            · rintro ⟨a, ha⟩; cases ha
            · rintro (h | h)
              · exact absurd h h1
              · exact absurd h he
          | some g =>
            simp only [Option.isSome_some, or_true]
            exact ⟨fun _ => trivial, fun _ => ⟨_, rfl⟩⟩

/-- the only reject classes of the value-owner check -/
theorem valueOwnerSigners_error (env : Env) (mt : MsgType) (existing proposed : Addr) (signers : List Addr)
    (e : Err) (h : validateScopeValueOwnersSigners env mt existing proposed signers = .error e) :
    e = .invalidSigner ∨ e = .valueOwner := by
  unfold validateScopeValueOwnersSigners at h
  by_cases c1 : (existing != "" && existing == proposed) = true
  · rw [if_pos c1] at h; cases h
  · rw [if_neg c1] at h
    cases hd : valueOwnerSignerAccs env signers with
    | none => rw [hd] at h; cases h; exact Or.inl rfl
    | some sa =>
      rw [hd] at h
      simp only at h
      by_cases c2 : (existing == "") = true
      · rw [if_pos c2] at h; cases h
      · rw [if_neg c2] at h
        by_cases c3 : sa.contains existing = true
        · rw [if_pos c3] at h; cases h
        · rw [if_neg c3] at h
          cases hf : findAuthzGrantee env mt existing sa with
          | none => rw [hf] at h; cases h; exact Or.inr rfl
          | some g => rw [hf] at h; cases h

/-! ### the tail `thenValueOwner` -/

theorem thenValueOwner_ok_iff (env : Env) (mt : MsgType) (exVO pVO : Addr) (signers : List Addr)
    (r : Except Err (List PartyDetails)) :
    thenValueOwner env mt exVO pVO signers r = .ok () ↔
      ∃ parties used, r = .ok parties
        ∧ validateScopeValueOwnersSigners env mt exVO pVO signers = .ok used
        ∧ validateSmartContractSigners env mt (used ++ getUsedSigners parties) signers = none := by
  unfold thenValueOwner
  cases r with
  | error e => simp
  | ok parties =>
    cases hvo : validateScopeValueOwnersSigners env mt exVO pVO signers with
    | error e => simp
    | ok used =>
      cases hsc : validateSmartContractSigners env mt (used ++ getUsedSigners parties) signers with
      | none => simp [hsc]
      | some e => simp [hsc]

/-- without an existing value owner the tail is the plain smart-contract tail -/
theorem thenValueOwner_no_value_owner (env : Env) (mt : MsgType) (pVO : Addr) (signers : List Addr)
    (r : Except Err (List PartyDetails)) :
    thenValueOwner env mt "" pVO signers r = thenSmartContract env mt signers r := by
  unfold thenValueOwner thenSmartContract validateScopeValueOwnersSigners
  cases r with
  | error e => rfl
  | ok parties =>
    simp only [bne_self_eq_false, Bool.false_and, Bool.false_eq_true, ↓reduceIte, beq_self_eq_true]
    cases hd : valueOwnerSignerAccs env signers with
    | none =>
      have hany := valueOwnerSignerAccs_none hd
      simp [validateSmartContractSigners, hany]
    | some sa => simp

/-- when no smart contract signs, the tail accepts iff the value-owner check does -/
theorem thenValueOwner_of_noContracts (env : Env) (mt : MsgType) (exVO pVO : Addr) (signers : List Addr)
    (hnc : NoContracts env signers) (r : Except Err (List PartyDetails)) :
    thenValueOwner env mt exVO pVO signers r = .ok () ↔
      Accepts r ∧ Accepts (validateScopeValueOwnersSigners env mt exVO pVO signers) := by
  rw [thenValueOwner_ok_iff]
  constructor
  · rintro ⟨parties, used, h1, h2, _⟩
    exact ⟨⟨parties, h1⟩, ⟨used, h2⟩⟩
  · rintro ⟨⟨parties, h1⟩, ⟨used, h2⟩⟩
    exact ⟨parties, used, h1, h2,
      (smart_contract_rule env mt _ signers).mpr (smartContractOk_of_noContracts env mt _ signers hnc)⟩

/-! ### without value owners: the endpoints of `C10Callers.lean` -/

/-- A scope write whose message names no value owner is judged by `validateWriteScope`,
whatever value owner the stored scope has (it is not even looked up): every theorem about
`validateWriteScope` applies. -/
theorem writeScopeVO_without_value_owner (env : Env) (existing : Option Scope) (storedVO : Addr)
    (proposed : Scope) (specRoles : List Role) (existingSpecRoles : Option (List Role)) (signers : List Addr) :
    validateWriteScopeVO env existing storedVO proposed "" specRoles existingSpecRoles signers
      = validateWriteScope env existing proposed specRoles existingSpecRoles signers := by
  unfold validateWriteScopeVO validateWriteScope writeScopeOwnerChecks lookedUpVO
  simp only [bne_self_eq_false, Bool.and_false, Bool.false_eq_true, ↓reduceIte, Bool.false_and,
    beq_self_eq_true, Bool.and_true, thenValueOwner_no_value_owner]
  cases existing with
  | none =>
    simp only
    cases validateRolesPresent proposed.owners specRoles with
    | some e => simp [orElse, thenSmartContract]
    | none =>
      cases validateProvenanceRole env (buildPartyDetails [] proposed.owners) with
      | some e => simp [orElse, thenSmartContract]
      | none => simp [orElse]
  | some ex =>
    simp only
    cases validateRolesPresent proposed.owners specRoles with
    | some e => simp [orElse, thenSmartContract]
    | none =>
      cases validateProvenanceRole env (buildPartyDetails [] proposed.owners) with
      | some e => simp [orElse, thenSmartContract]
      | none =>
        simp only [orElse]
        by_cases hr : ex.rollup = true
        · simp [hr]
        · simp only [hr, Bool.not_false, ↓reduceIte]
          by_cases he : ex.equals proposed = true <;> simp [he]

/-- deleting a scope that has no value owner is judged by `validateDeleteScope` -/
theorem deleteScopeVO_without_value_owner (env : Env) (scope : Scope) (specRoles : Option (List Role))
    (signers : List Addr) :
    validateDeleteScopeVO env scope "" specRoles signers = validateDeleteScope env scope specRoles signers := by
  unfold validateDeleteScopeVO validateDeleteScope
  rw [thenValueOwner_no_value_owner]
  by_cases hr : scope.rollup = true
  · simp only [hr, Bool.not_true, Bool.false_eq_true, ↓reduceIte]
    cases specRoles <;> rfl
  · simp [hr]

/-! ### writing a scope that has / gets a value owner -/

theorem only_eq (ex : Scope) (storedVO : Addr) (proposed : Scope) (proposedVO : Addr) :
    (lookedUpVO (some ex) storedVO proposedVO != "" && lookedUpVO (some ex) storedVO proposedVO != proposedVO
        && ex.equals proposed)
      = Spec.onlyValueOwnerChanges (some ex) storedVO proposed proposedVO := by
  unfold lookedUpVO Spec.onlyValueOwnerChanges Spec.valueOwnerChanging
  by_cases hp : proposedVO = ""
  · subst hp; simp
  · have : (proposedVO != "") = true := by simpa using hp
    simp [this, Bool.and_comm, Bool.and_assoc, Bool.and_left_comm]

theorem same_eq (ex : Scope) (storedVO : Addr) (proposed : Scope) (proposedVO : Addr) :
    (ex.equals proposed && lookedUpVO (some ex) storedVO proposedVO == proposedVO)
      = (ex.equals proposed && (proposedVO == "" || storedVO == proposedVO)) := by
  unfold lookedUpVO
  by_cases hp : proposedVO = ""
  · subst hp; simp
  · have h1 : (proposedVO != "") = true := by simpa using hp
    have h2 : (proposedVO == "") = false := by simpa using hp
    simp [h1, h2]

/-- an accepted value-owner check means the documented value-owner requirement holds -/
theorem writeScope_valueOwner_only_when (env : Env) (hv : env.valid "" = false) (existing : Option Scope)
    (storedVO proposedVO : Addr) (signers : List Addr)
    (h : Accepts (validateScopeValueOwnersSigners env "WriteScope" (lookedUpVO existing storedVO proposedVO)
      proposedVO signers)) :
    Spec.writeScopeValueOwnerOk env existing storedVO proposedVO signers = true := by
  unfold Spec.writeScopeValueOwnerOk
  by_cases hch : Spec.valueOwnerChanging existing storedVO proposedVO = true
  · simp only [hch, Bool.not_true, Bool.false_or]
    unfold Spec.valueOwnerChanging at hch
    simp only [Bool.and_eq_true, bne_iff_ne, ne_eq] at hch
    obtain ⟨⟨⟨hs, hst⟩, hp⟩, hne⟩ := hch
    have hb : (proposedVO != "") = true := by simpa using hp
    have hl : lookedUpVO existing storedVO proposedVO = storedVO := by simp [lookedUpVO, hs, hb]
    rw [hl] at h
    rcases (valueOwnerSigners_accepts_iff env hv _ _ _ _).mp h with ⟨_, heq⟩ | ⟨_, he | hc⟩
    · exact absurd heq hne
    · exact absurd he hst
    · exact hc
  · simp [hch]

/-- … and conversely, when the signers decode -/
theorem writeScope_valueOwner_of_ok (env : Env) (hv : env.valid "" = false) (existing : Option Scope)
    (storedVO proposedVO : Addr) (signers : List Addr)
    (hdec : (valueOwnerSignerAccs env signers).isSome = true)
    (h : Spec.writeScopeValueOwnerOk env existing storedVO proposedVO signers = true) :
    Accepts (validateScopeValueOwnersSigners env "WriteScope" (lookedUpVO existing storedVO proposedVO)
      proposedVO signers) := by
  rw [valueOwnerSigners_accepts_iff env hv]
  by_cases hl : lookedUpVO existing storedVO proposedVO = ""
  · exact Or.inr ⟨hdec, Or.inl hl⟩
  · -- the value owner was looked up and exists
    have hcond : (existing.isSome && proposedVO != "") = true := by
      by_contra hc
      apply hl
      simp [lookedUpVO, hc]
    have hl2 : lookedUpVO existing storedVO proposedVO = storedVO := by simp [lookedUpVO, hcond]
    rw [hl2] at hl ⊢
    by_cases heq : storedVO = proposedVO
    · exact Or.inl ⟨hl, heq⟩
    · refine Or.inr ⟨hdec, Or.inr ?_⟩
      simp only [Bool.and_eq_true, bne_iff_ne, ne_eq] at hcond
      have hch : Spec.valueOwnerChanging existing storedVO proposedVO = true := by
        simp [Spec.valueOwnerChanging, hcond.1, hcond.2, hl, heq]
      simpa [Spec.writeScopeValueOwnerOk, hch] using h

/-- The owner / role part of a scope write accepts exactly when — unless the value owner is
the ONLY thing that changes — the roles of the named specification are present in the proposed
owners, the PROVENANCE rule holds for them, and the stored scope's owners / the governing
specification's roles are covered (`Spec.writeScopeReqVO`). -/
theorem writeScopeOwnerChecks_accepts_iff (env : Env) (hv : env.valid "" = false) (existing : Option Scope)
    (storedVO : Addr) (proposed : Scope) (proposedVO : Addr) (specRoles : List Role)
    (existingSpecRoles : Option (List Role)) (signers : List Addr) :
    Accepts (writeScopeOwnerChecks env existing (lookedUpVO existing storedVO proposedVO) proposed proposedVO
        specRoles existingSpecRoles signers) ↔
      (Spec.onlyValueOwnerChanges existing storedVO proposed proposedVO = false →
          Spec.rolesPresent proposed.owners specRoles = true
            ∧ Spec.provenanceRoleOk env proposed.owners = true)
      ∧ (Spec.writeScopeReqVO existing storedVO proposed proposedVO (existingSpecRoles.getD specRoles)).ok
          env "WriteScope" signers = true := by
  unfold writeScopeOwnerChecks
  simp only
  cases existing with
  | none =>
    simp only [Bool.false_eq_true, ↓reduceIte, Spec.onlyValueOwnerChanges, true_implies]
    have hreq : (Spec.writeScopeReqVO none storedVO proposed proposedVO (existingSpecRoles.getD specRoles)).ok
        env "WriteScope" signers = true := by
      simp [Spec.writeScopeReqVO, Spec.Req.ok, Spec.withoutPartiesOk]
    simp only [hreq, and_true]
    cases hrp : validateRolesPresent proposed.owners specRoles with
    | some e =>
      have : ¬ Spec.rolesPresent proposed.owners specRoles = true := by
        rw [← validateRolesPresent_accepts_iff, hrp]; simp
      simp [Accepts, this]
    | none =>
      have h1 := (validateRolesPresent_accepts_iff _ _).mp hrp
      cases hpr : validateProvenanceRole env (buildPartyDetails [] proposed.owners) with
      | some e =>
        have : ¬ Spec.provenanceRoleOk env proposed.owners = true := by
          rw [← validateProvenanceRole_fresh_iff, hpr]; simp
        simp [Accepts, this]
      | none =>
        have h2 := (validateProvenanceRole_fresh_iff env _).mp hpr
        simp [Accepts, h1, h2]
  | some ex =>
    simp only
    rw [only_eq ex storedVO proposed proposedVO]
    by_cases honly : Spec.onlyValueOwnerChanges (some ex) storedVO proposed proposedVO = true
    · simp [honly, Accepts, Spec.writeScopeReqVO, Spec.Req.ok, Spec.withoutPartiesOk]
    · have honly' : Spec.onlyValueOwnerChanges (some ex) storedVO proposed proposedVO = false := by
        simpa using honly
      simp only [honly', Bool.false_eq_true, ↓reduceIte, true_implies]
      cases hrp : validateRolesPresent proposed.owners specRoles with
      | some e =>
        have : ¬ Spec.rolesPresent proposed.owners specRoles = true := by
          rw [← validateRolesPresent_accepts_iff, hrp]; simp
        simp [Accepts, this]
      | none =>
        have h1 := (validateRolesPresent_accepts_iff _ _).mp hrp
        cases hpr : validateProvenanceRole env (buildPartyDetails [] proposed.owners) with
        | some e =>
          have : ¬ Spec.provenanceRoleOk env proposed.owners = true := by
            rw [← validateProvenanceRole_fresh_iff, hpr]; simp
          simp [Accepts, this]
        | none =>
          have h2 := (validateProvenanceRole_fresh_iff env _).mp hpr
          simp only [h1, h2, and_self, true_and]
          unfold Spec.writeScopeReqVO
          simp only [honly', Bool.false_eq_true, ↓reduceIte]
          by_cases hr : ex.rollup = true
          · simp only [hr, Bool.not_true, Bool.false_eq_true, ↓reduceIte]
            rw [validateAllRequiredPartiesSigned_accepts_iff env hv]
            simp [Spec.Req.ok]
          · simp only [hr, Bool.not_false, ↓reduceIte, Bool.false_eq_true]
            rw [same_eq ex storedVO proposed proposedVO]
            by_cases hs : (ex.equals proposed && (proposedVO == "" || storedVO == proposedVO)) = true
            · simp [hs, Accepts, Spec.Req.ok, Spec.withoutPartiesOk]
            · simp only [hs, Bool.not_false, ↓reduceIte, Bool.false_eq_true]
              rw [accepts_allRequiredSigned_iff env hv, withoutPartiesOk_getPartyAddresses]
              simp [Spec.Req.ok]

/-- "Writing a Scope" in full, for ALL inputs (smart-contract signers included): an accepted
write has the value owner being replaced covered by the signers that count, and — unless the
value owner is the ONLY thing that changes — the roles of the named specification present in the
proposed owners, the PROVENANCE rule holding for them, and the stored scope's owners / the
governing specification's roles covered as in `writeScope_only_when`. -/
theorem writeScopeVO_only_when (env : Env) (hv : env.valid "" = false) (existing : Option Scope)
    (storedVO : Addr) (proposed : Scope) (proposedVO : Addr) (specRoles : List Role)
    (existingSpecRoles : Option (List Role)) (signers : List Addr)
    (h : validateWriteScopeVO env existing storedVO proposed proposedVO specRoles existingSpecRoles signers
      = .ok ()) :
    Spec.writeScopeValueOwnerOk env existing storedVO proposedVO signers = true
      ∧ (Spec.onlyValueOwnerChanges existing storedVO proposed proposedVO = false →
          Spec.rolesPresent proposed.owners specRoles = true
            ∧ Spec.provenanceRoleOk env proposed.owners = true)
      ∧ (Spec.writeScopeReqVO existing storedVO proposed proposedVO (existingSpecRoles.getD specRoles)).ok
          env "WriteScope" signers = true := by
  unfold validateWriteScopeVO at h
  simp only at h
  rw [thenValueOwner_ok_iff] at h
  obtain ⟨parties, used, hval, hvo, _⟩ := h
  exact ⟨writeScope_valueOwner_only_when env hv existing storedVO proposedVO signers ⟨used, hvo⟩,
    (writeScopeOwnerChecks_accepts_iff env hv existing storedVO proposed proposedVO specRoles
      existingSpecRoles signers).mp ⟨parties, hval⟩⟩

/-- … and exactly then, when no smart contract signs. -/
theorem writeScopeVO_iff (env : Env) (hv : env.valid "" = false) (existing : Option Scope)
    (storedVO : Addr) (proposed : Scope) (proposedVO : Addr) (specRoles : List Role)
    (existingSpecRoles : Option (List Role)) (signers : List Addr) (hnc : NoContracts env signers) :
    validateWriteScopeVO env existing storedVO proposed proposedVO specRoles existingSpecRoles signers = .ok () ↔
      Spec.writeScopeValueOwnerOk env existing storedVO proposedVO signers = true
        ∧ (Spec.onlyValueOwnerChanges existing storedVO proposed proposedVO = false →
            Spec.rolesPresent proposed.owners specRoles = true
              ∧ Spec.provenanceRoleOk env proposed.owners = true)
        ∧ (Spec.writeScopeReqVO existing storedVO proposed proposedVO (existingSpecRoles.getD specRoles)).ok
            env "WriteScope" signers = true := by
  constructor
  · exact writeScopeVO_only_when env hv existing storedVO proposed proposedVO specRoles existingSpecRoles signers
  · rintro ⟨h1, h2⟩
    unfold validateWriteScopeVO
    simp only
    rw [thenValueOwner_of_noContracts env _ _ _ signers hnc]
    refine ⟨(writeScopeOwnerChecks_accepts_iff env hv existing storedVO proposed proposedVO specRoles
      existingSpecRoles signers).mpr h2, ?_⟩
    apply writeScope_valueOwner_of_ok env hv existing storedVO proposedVO signers _ h1
    rw [valueOwnerSignerAccs_of_noContracts hnc]; rfl

/-- A write that changes ANYTHING besides the value owner (`Scope.Equals` on the other fields:
owners, specification, data access, `require_party_rollup`) is accepted only when the stored
scope's owners / the governing specification's roles are covered exactly as for a scope without
value owner (`Spec.writeScopeReq`) — whoever the value owners are and whoever signs for them. -/
theorem writeScope_other_change_needs_owner_signatures (env : Env) (hv : env.valid "" = false) (ex : Scope)
    (storedVO : Addr) (proposed : Scope) (proposedVO : Addr) (specRoles : List Role)
    (existingSpecRoles : Option (List Role)) (signers : List Addr)
    (hch : ex.equals proposed = false)
    (h : validateWriteScopeVO env (some ex) storedVO proposed proposedVO specRoles existingSpecRoles signers
      = .ok ()) :
    Spec.rolesPresent proposed.owners specRoles = true ∧ Spec.provenanceRoleOk env proposed.owners = true
      ∧ (Spec.writeScopeReq (some ex) proposed (existingSpecRoles.getD specRoles)).ok env "WriteScope" signers
          = true := by
  obtain ⟨_, h2, h3⟩ := writeScopeVO_only_when env hv (some ex) storedVO proposed proposedVO specRoles
    existingSpecRoles signers h
  have honly : Spec.onlyValueOwnerChanges (some ex) storedVO proposed proposedVO = false := by
    simp [Spec.onlyValueOwnerChanges, hch]
  refine ⟨(h2 honly).1, (h2 honly).2, ?_⟩
  unfold Spec.writeScopeReqVO at h3
  unfold Spec.writeScopeReq
  simpa [honly, hch] using h3

/-- a different `require_party_rollup` is a change -/
theorem equals_false_of_rollup_ne (ex proposed : Scope) (h : ex.rollup ≠ proposed.rollup) :
    ex.equals proposed = false := by
  unfold Scope.equals
  have : (ex.rollup == proposed.rollup) = false := by simpa using h
  simp [this]

/-- The value owner alone cannot flip `require_party_rollup`: a write that changes the flag —
together with the value owner or not — is accepted only when the stored scope's owners (all of
them without rollup; with rollup the `optional = false` ones and one per role of the governing
specification) are covered. -/
theorem writeScope_rollup_flag_change_needs_owner_signatures (env : Env) (hv : env.valid "" = false)
    (ex : Scope) (storedVO : Addr) (proposed : Scope) (proposedVO : Addr) (specRoles : List Role)
    (existingSpecRoles : Option (List Role)) (signers : List Addr)
    (hflag : ex.rollup ≠ proposed.rollup)
    (h : validateWriteScopeVO env (some ex) storedVO proposed proposedVO specRoles existingSpecRoles signers
      = .ok ()) :
    (Spec.scopeUpdateReq ex (existingSpecRoles.getD specRoles)).ok env "WriteScope" signers = true := by
  have := (writeScope_other_change_needs_owner_signatures env hv ex storedVO proposed proposedVO specRoles
    existingSpecRoles signers (equals_false_of_rollup_ne ex proposed hflag) h).2.2
  unfold Spec.writeScopeReq at this
  unfold Spec.scopeUpdateReq
  by_cases hr : ex.rollup = true
  · simpa [hr] using this
  · simpa [hr, equals_false_of_rollup_ne ex proposed hflag] using this

/-! ### deleting a scope that has a value owner -/

theorem deleteScope_valueOwner_iff (env : Env) (hv : env.valid "" = false) (storedVO : Addr) (signers : List Addr) :
    Accepts (validateScopeValueOwnersSigners env "DeleteScope" storedVO "" signers) ↔
      (valueOwnerSignerAccs env signers).isSome = true ∧ Spec.deleteScopeValueOwnerOk env storedVO signers = true := by
  rw [valueOwnerSigners_accepts_iff env hv]
  unfold Spec.deleteScopeValueOwnerOk
  constructor
  · rintro (⟨h1, h2⟩ | ⟨hd, h⟩)
    · exact absurd h2 h1
    · refine ⟨hd, ?_⟩
      rcases h with h | h
      · simp [h]
      · simp [h]
  · rintro ⟨hd, h⟩
    refine Or.inr ⟨hd, ?_⟩
    simp only [Bool.or_eq_true, beq_iff_eq] at h
    exact h

theorem deleteScope_checks_accepts_iff (env : Env) (hv : env.valid "" = false) (scope : Scope)
    (roles : Option (List Role)) (signers : List Addr) :
    Accepts (if !scope.rollup then
        validateAllRequiredSigned env "DeleteScope" (getPartyAddresses scope.owners) signers
      else match roles with
        | none => validateAllRequiredSigned env "DeleteScope" (getRequiredPartyAddresses scope.owners) signers
        | some rs => validateAllRequiredPartiesSigned env "DeleteScope" scope.owners scope.owners rs signers) ↔
      (Spec.deleteScopeReq scope roles).ok env "DeleteScope" signers = true := by
  unfold Spec.deleteScopeReq
  by_cases hr : scope.rollup = true
  · simp only [hr, Bool.not_true, Bool.false_eq_true, ↓reduceIte]
    cases roles with
    | none =>
      simp only
      rw [accepts_allRequiredSigned_iff env hv, getRequiredPartyAddresses, withoutPartiesOk_getPartyAddresses]
      simp [Spec.Req.ok]
    | some rs =>
      simp only
      rw [validateAllRequiredPartiesSigned_accepts_iff env hv]
      simp [Spec.Req.ok]
  · simp only [hr, Bool.not_false, ↓reduceIte, Bool.false_eq_true]
    rw [accepts_allRequiredSigned_iff env hv, withoutPartiesOk_getPartyAddresses]
    simp [Spec.Req.ok]

/-- "Deleting a Scope" in full: the owners / roles as in `deleteScope_only_when`, and the
scope's value owner is covered by the signers that count. -/
theorem deleteScopeVO_only_when (env : Env) (hv : env.valid "" = false) (scope : Scope) (storedVO : Addr)
    (roles : Option (List Role)) (signers : List Addr)
    (h : validateDeleteScopeVO env scope storedVO roles signers = .ok ()) :
    Spec.deleteScopeValueOwnerOk env storedVO signers = true
      ∧ (Spec.deleteScopeReq scope roles).ok env "DeleteScope" signers = true := by
  unfold validateDeleteScopeVO at h
  simp only at h
  rw [thenValueOwner_ok_iff] at h
  obtain ⟨parties, used, hval, hvo, _⟩ := h
  exact ⟨((deleteScope_valueOwner_iff env hv storedVO signers).mp ⟨used, hvo⟩).2,
    (deleteScope_checks_accepts_iff env hv scope roles signers).mp ⟨parties, hval⟩⟩

theorem deleteScopeVO_iff (env : Env) (hv : env.valid "" = false) (scope : Scope) (storedVO : Addr)
    (roles : Option (List Role)) (signers : List Addr) (hnc : NoContracts env signers) :
    validateDeleteScopeVO env scope storedVO roles signers = .ok () ↔
      Spec.deleteScopeValueOwnerOk env storedVO signers = true
        ∧ (Spec.deleteScopeReq scope roles).ok env "DeleteScope" signers = true := by
  constructor
  · exact deleteScopeVO_only_when env hv scope storedVO roles signers
  · rintro ⟨h1, h2⟩
    unfold validateDeleteScopeVO
    simp only
    rw [thenValueOwner_of_noContracts env _ _ _ signers hnc]
    refine ⟨(deleteScope_checks_accepts_iff env hv scope roles signers).mpr h2, ?_⟩
    rw [deleteScope_valueOwner_iff env hv]
    exact ⟨by rw [valueOwnerSignerAccs_of_noContracts hnc]; rfl, h1⟩

/-! ### records in sessions that outlived a change of the rollup flag -/

/-- Without party rollup EVERY party of the record's session (and of its previous session when
the record moves) must be covered, whatever its `optional` flag says: the flag has no meaning
without rollup, but a session written while the scope had rollup keeps `optional = true` parties
after the scope is rewritten with `require_party_rollup = false`. -/
theorem writeRecord_plain_scope_every_session_party_signs (env : Env) (hv : env.valid "" = false)
    (scope : Scope) (session : List Party) (oldSession : Option (List Party)) (specRoles : List Role)
    (signers : List Addr) (hplain : scope.rollup = false)
    (h : validateWriteRecord env scope session oldSession specRoles signers = .ok ()) :
    ∀ p ∈ session ++ oldSession.getD [], Spec.covered env "WriteRecord" signers p.address = true := by
  have := (writeRecord_only_when env hv scope session oldSession specRoles signers h).1
  unfold Spec.writeRecordReq at this
  simp only [hplain, Bool.false_eq_true, ↓reduceIte, Spec.Req.ok, Spec.withoutPartiesOk, Spec.addresses,
    List.all_eq_true, List.mem_append, List.mem_map] at this
  intro p hp
  rcases List.mem_append.mp hp with hp | hp
  · exact this p.address (Or.inl ⟨p, hp, rfl⟩)
  · exact this p.address (Or.inr ⟨p, hp, rfl⟩)

/-! ### non-vacuity and the two histories in small -/

def voPlain : Scope := { owners := [⟨"A", 5, false⟩, ⟨"B", 5, false⟩], rollup := false }
def voFlipped : Scope := { voPlain with rollup := true }

/-- The value owner `C` hands the scope to `D`.  If that is the ONLY change, `C` alone signs; if
`require_party_rollup` is flipped in the same write, `C` alone is rejected, the owners without
`C` are rejected, and all three together are accepted. -/
theorem value_owner_alone_cannot_flip_rollup_witness :
    validateWriteScopeVO exEnv (some voPlain) "C" voPlain "D" [5] none ["C"] = .ok ()
    ∧ validateWriteScopeVO exEnv (some voPlain) "C" voFlipped "D" [5] none ["C"] ≠ .ok ()
    ∧ validateWriteScopeVO exEnv (some voPlain) "C" voFlipped "D" [5] none ["A", "B"] ≠ .ok ()
    ∧ validateWriteScopeVO exEnv (some voPlain) "C" voFlipped "D" [5] none ["C", "A", "B"] = .ok () := by
  decide

example : voPlain.rollup ≠ voFlipped.rollup := by decide
example : voPlain.equals voFlipped = false := by decide
example : Spec.onlyValueOwnerChanges (some voPlain) "C" voPlain "D" = true := by decide
example : Spec.writeScopeValueOwnerOk exEnv (some voPlain) "C" "D" ["A", "B"] = false := by decide
-- a scope with a value owner is deleted by its owners AND its value owner
example : validateDeleteScopeVO exEnv voPlain "C" (some [5]) ["A", "B"] ≠ .ok () := by decide
example : validateDeleteScopeVO exEnv voPlain "C" (some [5]) ["A", "B", "C"] = .ok () := by decide
example : validateDeleteScopeVO exEnv voPlain "" (some [5]) ["A", "B"] = .ok () := by decide

/-- the rollup scope of the second history: `A` required, `C` optional, both OWNER -/
def histRollup : Scope := { owners := [⟨"A", 5, false⟩, ⟨"C", 5, true⟩], rollup := true }
/-- … rewritten with `require_party_rollup = false` (no optional owner without rollup) -/
def histPlain : Scope := { owners := [⟨"A", 5, false⟩, ⟨"C", 5, false⟩], rollup := false }
/-- the session written while the scope had rollup: `C` is an optional party -/
def histSession : List Party := [⟨"A", 5, false⟩, ⟨"C", 5, true⟩]

/-- The history "rollup scope → session with an optional party → scope rewritten with rollup
off → record": `A` alone writes the session and rewrites the scope (only `A` is required while
the scope has rollup), but the record needs `C` too: without rollup all session parties sign,
the session's stale `optional` flag notwithstanding. -/
theorem rollup_off_rewrite_keeps_session_parties_required :
    validateWriteSession exEnv histRollup none histSession [5] ["A"] = .ok ()
    ∧ validateWriteScopeVO exEnv (some histRollup) "" histPlain "" [5] none ["A"] = .ok ()
    ∧ validateWriteRecord exEnv histPlain histSession none [5] ["A"] ≠ .ok ()
    ∧ validateWriteRecord exEnv histPlain histSession none [5] ["A", "C"] = .ok () := by
  decide

end PvProofs.C10
