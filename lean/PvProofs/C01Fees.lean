/-
C01 — the seller's fee formula with its guard discharged.

`fee_formula` states the ratio fee `⌈received·fee/price⌉` under the guard `0 ≤ filledA p.trP k` (the
price an ask receives is non-negative).  For stored orders that guard always holds — an ask receives
at least its (positive) price — so at statement level it is not an assumption: `fee_formula_stored`
(for `BuildSettlement` on positive orders) and `settle_fee_formula` (for every accepted
`MsgMarketSettle` of every state satisfying the store invariant).
-/
import PvProofs.C01Checker
import PvProofs.C01Examples

namespace PvProofs.C01
open PvModel PvModel.Settle PvModel.Coins PvModel.Ledger PvProofs.Settle

/-- **Every ask receives at least its positive price** — already when `BuildSettlement` got past
`allocatePrice` (no appeal to the final validation). -/
theorem ask_received_ge_price {asks bids : List Order} {lookup : Denom → Except Err (Option Ratio)} {p : Plan}
    (hp : plan asks bids lookup = .ok p) (hv : ∀ o ∈ asks ++ bids, OrderPos o) :
    ∀ k o, p.asks[k]? = some o → 0 < o.price ∧ o.price ≤ filledA p.trP k := by
  obtain ⟨left1, ratio, h1, h2, h3, h4, h5, h6, h7, h8⟩ := plan_unfold hp
  obtain ⟨ad, pd, W⟩ := plan_wf hp
  obtain ⟨posA, asA⟩ := splitOrderFulfillments_pos h3 (fun o ho => hv o (by simp [ho]))
  obtain ⟨posB, asB⟩ := splitOrderFulfillments_pos h4 (fun o ho => hv o (by simp [ho]))
  simp only [Nat.zero_add] at asA asB
  have hap : AllPos (p.asks.map (·.price)) := by
    intro y hy
    obtain ⟨o, ho, rfl⟩ := List.mem_map.mp hy
    exact (posA o ho).price
  have hbp : AllPos (p.bids.map (·.price)) := by
    intro y hy
    obtain ⟨o, ho, rfl⟩ := List.mem_map.mp hy
    exact (posB o ho).price
  have haf : AllPos ((List.range p.asks.length).map (filledA p.trA)) := by
    intro y hy
    obtain ⟨k, hk, rfl⟩ := List.mem_map.mp hy
    have hk' : k < p.asks.length := by simpa using hk
    have hget : p.asks[k]? = some p.asks[k] := List.getElem?_eq_getElem hk'
    rw [← asA k _ hget]
    exact (posA _ (List.getElem_mem hk')).assets
  obtain ⟨_, hok⟩ := allocatePrice_spec hap hbp haf (by simp) (by simpa using W.posA)
  obtain ⟨_, pA, _⟩ := hok p.trP h5
  intro k o hk
  have := pA k
  rw [slot_zero_map p.asks (·.price) k o hk] at this
  exact ⟨(posA o (List.mem_of_getElem? hk)).price, this⟩

/-- **Fees, guard discharged** (`fee_formula` for stored orders).  For positive orders: a bid pays
exactly its own settlement fees; an ask `o` receives `filledA p.trP k ≥ o.price > 0` and pays its flat
fee plus — when the market has a seller ratio `price : fee` with a positive price amount and a
non-negative fee amount (`FeeRatio.Validate`) — exactly `⌈received · fee / price⌉` in the ratio's fee
denom.  No hypothesis on the received amount is left. -/
theorem fee_formula_stored {asks bids : List Order} {lookup : Denom → Except Err (Option Ratio)} {p : Plan}
    (hp : plan asks bids lookup = .ok p) (hv : ∀ o ∈ asks ++ bids, OrderPos o) :
    p.bidFees = p.bids.map (·.fees) ∧
    ∃ ratio, lookup (p.asks.headD default).priceDenom = .ok ratio ∧
      ∀ k o, p.asks[k]? = some o →
        0 < o.price ∧ o.price ≤ filledA p.trP k ∧
        match ratio with
        | none => p.askFees[k]? = some o.fees
        | some r => ∃ amt, p.askFees[k]? = some (o.fees ++ [(r.feeDenom, amt)]) ∧
            (0 < r.priceAmt → 0 ≤ r.feeAmt →
              Fees.IsCeilDiv (filledA p.trP k * r.feeAmt) r.priceAmt amt) := by
  obtain ⟨hb, ratio, hlk, hf⟩ := fee_formula hp
  refine ⟨hb, ratio, hlk, ?_⟩
  intro k o hk
  obtain ⟨h0, h1⟩ := ask_received_ge_price hp hv k o hk
  refine ⟨h0, h1, ?_⟩
  have := hf k o hk
  cases ratio with
  | none => exact this
  | some r =>
    obtain ⟨amt, e1, e2⟩ := this
    exact ⟨amt, e1, fun hrp hrf => e2 (by omega) hrp hrf⟩

/-- **The fee formula for every accepted `MsgMarketSettle` of every reachable state**: from the store
invariant alone (`history_invariant`) — the orders the keeper fetched are stored orders, every ask
receives at least its positive price, and with the market's own ratio `r` (for the asks' price denom)
its fee is its flat fee plus exactly `⌈received·fee/price⌉`. -/
theorem settle_fee_formula {s s' : KState} {m c : Addr} {a b : List Nat} {ep : Bool}
    (hI : StoreInv s) (h : s.msgMarketSettle m c a b ep = .ok s') :
    ∃ asks bids p st, s.getOrders true a "" = .ok asks ∧ s.getOrders false b "" = .ok bids ∧
      plan asks bids s.lookup = .ok p ∧ p.settlement = .ok st ∧
      p.bidFees = p.bids.map (·.fees) ∧
      ∀ k o, p.asks[k]? = some o →
        0 < o.price ∧ o.price ≤ filledA p.trP k ∧
        match s.ratio with
        | none => p.askFees[k]? = some o.fees
        | some r => ∃ amt, p.askFees[k]? = some (o.fees ++ [(r.feeDenom, amt)]) ∧
            (0 < r.priceAmt → 0 ≤ r.feeAmt →
              Fees.IsCeilDiv (filledA p.trP k * r.feeAmt) r.priceAmt amt) := by
  obtain ⟨asks, bids, st, L, ha, hb, hst, _, _, _, hv, _⟩ := msgMarketSettle_covered hI h
  obtain ⟨p, hp, hs⟩ := buildSettlement_eq.mp hst
  obtain ⟨hbf, ratio, hlk, hf⟩ := fee_formula_stored hp hv
  have hrr := lookup_ok hlk
  subst hrr
  refine ⟨asks, bids, p, st, ha, hb, hp, hs, hbf, fun k o hk => ?_⟩
  obtain ⟨h0, h1, h2⟩ := hf k o hk
  refine ⟨h0, h1, ?_⟩
  cases hr : s.ratio with
  | none => simpa [hr] using h2
  | some r => simpa [hr] using h2

/-- non-vacuity: the example state satisfies `StoreInv` and accepts the example settlement (whose asks
receive 116 ≥ 100 and 58 ≥ 50 usd and pay `⌈116·3/1000⌉ = 1`, `⌈58·3/1000⌉ = 1` usd of ratio fee) -/
example :
    (∀ o ∈ exState.orders, 0 < o.assets ∧ 0 < o.price ∧ ∀ x ∈ o.fees, 0 ≤ x.2) ∧
    (exState.orders.map (·.id)).Nodup ∧ (∀ o ∈ exState.orders, o.id < exState.nextId) ∧
    (match exState.msgMarketSettle "mkt" "feecol" [1, 2] [11, 12, 13] true with
      | .ok _ => true | .error _ => false) = true := by decide

end PvProofs.C01
