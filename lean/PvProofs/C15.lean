/-
C15 — Names: only owners bind, change, delete; lookups agree; resolution unambiguous.

Property theorems only (helper lemmas live in `PvProofs/Lemmas/Name*.lean`).  The model is
`PvModel.Name` (x/name keeper, msg server, key derivation); `cfg.H` is the hash of the store key
(`0x03 ‖ sha256`), an arbitrary function: where a theorem needs collision resistance it is the
HYPOTHESIS `Function.Injective cfg.H`, never an axiom.  All theorems are for every configuration
(limits, authority, address predicates), every state / every history of messages.

The last clause of the property is FALSE of the code: the key pre-image concatenates the reversed
segments without a separator (x/name/types/keys.go:47-56), so different valid names that are
different segmentations of one byte string share a key.  `key_collision` is the concrete witness
(`abc.de` / `bc.dea`), `collision_confers_authority` its consequence on a concrete history,
`key_injective_partial` / `key_injective_normalized_partial` what does hold (equal segment-length
profiles), `key_collision_iff_resegmentation` the exact collision condition.  Recorded as known
finding `C15-key-collision`.
-/
import PvProofs.Lemmas.NameHandlers
import Mathlib.Data.List.Nodup

namespace PvProofs.C15
open PvModel.Name PvModel.Name.KV

variable {κ : Type} [DecidableEq κ] (cfg : Cfg κ)

/-! ### who may do what (one message, any state) -/

/-- A name is bound only under a parent name that resolves, and if that parent is restricted only
when the signer is the parent's owner. -/
theorem bind_requires_parent {st st' : State κ} {pn rn : Bytes} {pa ra : Addr} {r : Bool}
    (h : step cfg st (.bind pn pa rn ra r) = .ok st') :
    bindAllowed (getRecordByName cfg st pn) pa = true := by
  obtain ⟨par, name, k, hpar, hres, -⟩ := bindName_ok cfg (step_ok_cases cfg h)
  rw [hpar]
  simp only [bindAllowed, Bool.or_eq_true, Bool.not_eq_true', beq_iff_eq]
  cases hr : par.restricted with
  | false => exact Or.inl rfl
  | true => exact Or.inr (hres hr)

/-- The same clause stated for the name that is actually bound, whatever parent the message
mentions: a successful `BindName` binds a name of at least two segments whose IMMEDIATE parent
(the bound name minus its first segment) is the normalized parent name of the message, resolves
in the state before, and — if restricted — belongs to the signer.  This is what
`MsgBindNameRequest.ValidateBasic` refusing a record name with a "." buys: the bound name cannot
reach below any other name than the checked parent.  (Reachable state, collision-free hash: the
raw parent name and its normalized form then have the same key.) -/
theorem bind_under_immediate_parent (hH : Function.Injective cfg.H) {st st' : State κ}
    (hI : Inv cfg st) {pn rn : Bytes} {pa ra : Addr} {r : Bool}
    (h : step cfg st (.bind pn pa rn ra r) = .ok st') :
    ∃ name, normalize cfg (rn ++ dot :: pn) = .ok name ∧ 2 ≤ (splitDot name).length ∧
      immediateParent name = normalizeName pn ∧
      bindAllowed (getRecordByName cfg st (immediateParent name)) pa = true := by
  have hvb : validateBasic cfg (.bind pn pa rn ra r) = true := by
    unfold step at h
    split at h
    · cases h
    · rename_i hv; simpa using hv
  have hfree : dot ∉ rn := by
    simp only [validateBasic, Bool.and_eq_true, Bool.not_eq_true', List.contains_eq_mem,
      decide_eq_false_iff_not] at hvb
    exact hvb.1.2
  obtain ⟨par, name, k0, hpar, hres, hn, -⟩ := bindName_ok cfg (step_ok_cases cfg h)
  have hname := normalize_eq_normalizeName cfg hn
  have hsplit : splitDot (rn ++ dot :: pn) = rn :: splitDot pn := by
    have := splitDot_append_dotfree rn hfree (dot :: pn) [] (splitDot pn) (splitDot_cons_dot pn)
    simpa using this
  have hs : splitDot name = normSeg rn :: (splitDot pn).map normSeg := by
    rw [hname, splitDot_normalizeName, hsplit, List.map_cons]
  have hne : (splitDot pn).map normSeg ≠ [] := by simpa using splitDot_ne_nil pn
  have hip : immediateParent name = normalizeName pn := by
    unfold immediateParent; rw [hs, List.tail_cons, normalizeName_eq]
  refine ⟨name, hn, ?_, hip, ?_⟩
  · rw [hs, List.length_cons]
    have : 0 < ((splitDot pn).map normSeg).length := List.length_pos_iff.mpr hne
    omega
  · obtain ⟨k, hk, hg⟩ := getRecordByName_some cfg hpar
    have hkey := key_normalizeName_of_resolves cfg hH hk (hI.keyed k par hg) (hI.lower cfg k par hg)
    rw [hip, getRecordByName_eq cfg hkey, hg]
    simp only [bindAllowed, Bool.or_eq_true, Bool.not_eq_true', beq_iff_eq]
    cases hr : par.restricted with
    | false => exact Or.inl rfl
    | true => exact Or.inr (hres hr)

/-- Only the owner of the record the name resolves to, or governance, modifies a name. -/
theorem modify_only_owner_or_gov {st st' : State κ} {a ad : Addr} {n : Bytes} {r : Bool}
    (h : step cfg st (.modify a n ad r) = .ok st') :
    modifyAllowed cfg.authority (getRecordByName cfg st n) a = true := by
  obtain ⟨ex, nn, k, hex, hauth, -⟩ := modifyName_ok cfg (step_ok_cases cfg h)
  rw [hex]
  simp only [modifyAllowed, Bool.or_eq_true, beq_iff_eq]
  exact hauth

/-- Only the owner deletes a name (governance cannot). -/
theorem delete_only_owner {st st' : State κ} {n : Bytes} {a : Addr}
    (h : step cfg st (.delete n a) = .ok st') :
    ∃ nn, normalize cfg n = .ok nn ∧ deleteAllowed (getRecordByName cfg st nn) a = true := by
  obtain ⟨name, k, rec, hn, hk, hg, haddr, -⟩ := deleteName_ok cfg (step_ok_cases cfg h)
  refine ⟨name, hn, ?_⟩
  rw [getRecordByName_eq cfg hk, hg]
  simp [deleteAllowed, haddr]

/-- Root names are created by the governance authority only. -/
theorem root_only_gov {st st' : State κ} {a o : Addr} {n : Bytes} {r : Bool}
    (h : step cfg st (.root a n o r) = .ok st') : rootAllowed cfg.authority a = true := by
  obtain ⟨ha, -⟩ := createRootNameMsg_ok cfg (step_ok_cases cfg h)
  simp [rootAllowed, ha]

/-! ### what a message changes -/

/-- `BindName` adds exactly one record, under a key that was free, named by the normalized
`child.parent`, and changes no other record. -/
theorem bind_effect {st st' : State κ} {pn rn : Bytes} {pa ra : Addr} {r : Bool}
    (h : step cfg st (.bind pn pa rn ra r) = .ok st') :
    ∃ name k, normalize cfg (rn ++ dot :: pn) = .ok name ∧ getNameKeyPrefix cfg name = .ok k ∧
      get st.recs k = none ∧ get st'.recs k = some ⟨name, ra, r⟩ ∧
      ∀ k', k' ≠ k → get st'.recs k' = get st.recs k' := by
  obtain ⟨par, name, k, -, -, hn, hk, hfree, rfl⟩ := bindName_ok cfg (step_ok_cases cfg h)
  exact ⟨name, k, hn, hk, hfree, get_set_self _ _ _, fun k' hk' => get_set_ne _ _ hk'⟩

/-- `ModifyName` rewrites exactly the record under the key of the normalized name. -/
theorem modify_effect {st st' : State κ} {a ad : Addr} {n : Bytes} {r : Bool}
    (h : step cfg st (.modify a n ad r) = .ok st') :
    ∃ name k, normalize cfg n = .ok name ∧ getNameKeyPrefix cfg name = .ok k ∧
      get st'.recs k = some ⟨name, ad, r⟩ ∧ ∀ k', k' ≠ k → get st'.recs k' = get st.recs k' := by
  obtain ⟨ex, name, k, -, -, hn, hk, rfl⟩ := modifyName_ok cfg (step_ok_cases cfg h)
  exact ⟨name, k, hn, hk, get_set_self _ _ _, fun k' hk' => get_set_ne _ _ hk'⟩

/-- `DeleteName` removes exactly the record under the key of the normalized name. -/
theorem delete_effect {st st' : State κ} {n : Bytes} {a : Addr}
    (h : step cfg st (.delete n a) = .ok st') :
    ∃ name k, normalize cfg n = .ok name ∧ getNameKeyPrefix cfg name = .ok k ∧
      get st'.recs k = none ∧ ∀ k', k' ≠ k → get st'.recs k' = get st.recs k' := by
  obtain ⟨name, k, rec, hn, hk, -, -, rfl⟩ := deleteName_ok cfg (step_ok_cases cfg h)
  exact ⟨name, k, hn, hk, get_del_self _ _, fun k' hk' => get_del_ne _ hk'⟩

/-- `CreateRootName` never touches an existing record; what it adds is bound to the given owner,
with the given restriction, under a name `Normalize` accepts. -/
theorem root_effect {st st' : State κ} {a o : Addr} {n : Bytes} {r : Bool}
    (h : step cfg st (.root a n o r) = .ok st') :
    (∀ k e, get st.recs k = some e → get st'.recs k = some e) ∧
    (∀ k r', get st'.recs k = some r' → get st.recs k = some r' ∨
      (get st.recs k = none ∧ r'.addr = o ∧ r'.restricted = r ∧ IsNormalized cfg r'.name)) := by
  obtain ⟨-, hl⟩ := createRootNameMsg_ok cfg (step_ok_cases cfg h)
  exact createRootLoop_effect cfg _ _ _ _ _ _ hl

/-- A rejected message changes nothing (the model's `apply` drops the failed transaction; on the
implementation this is checked after every rejected message of the correspondence run). -/
theorem rejected_changes_nothing {st : State κ} {op : Op} {e : Err} (h : step cfg st op = .error e) :
    apply cfg st op = st := by
  simp [apply, h]

/-- Records never change except by their owner or governance: if a message alters or removes an
existing record, its signer is that record's owner or the governance authority.  (In a reachable
state, for a collision-free hash; `ModifyName` looks the record up under the raw name but writes
under the normalized one, the two keys agree because stored names are lower-case.) -/
theorem existing_record_changed_only_by_owner_or_gov (hH : Function.Injective cfg.H)
    {st st' : State κ} (hI : Inv cfg st) {op : Op} (h : step cfg st op = .ok st')
    {k : κ} {e : Record} (hg : get st.recs k = some e) (hch : get st'.recs k ≠ some e) :
    op.signer = e.addr ∨ op.signer = cfg.authority := by
  cases op with
  | root a n o r => exact absurd ((root_effect cfg h).1 k e hg) hch
  | bind pn pa rn ra r =>
    obtain ⟨name, k0, -, -, hfree, -, hframe⟩ := bind_effect cfg h
    by_cases hk : k = k0
    · subst hk; rw [hfree] at hg; cases hg
    · rw [hframe k hk] at hch; exact absurd hg hch
  | delete n a =>
    obtain ⟨name, k0, rec, -, -, hg0, haddr, rfl⟩ := deleteName_ok cfg (step_ok_cases cfg h)
    by_cases hk : k = k0
    · subst hk; rw [hg0] at hg; cases hg; exact Or.inl haddr.symm
    · rw [get_del_ne _ hk] at hch; exact absurd hg hch
  | modify a n ad r =>
    obtain ⟨ex, name, k0, hex, hauth, hn, hk0, rfl⟩ := modifyName_ok cfg (step_ok_cases cfg h)
    by_cases hk : k = k0
    · subst hk
      obtain ⟨k1, hk1, hg1⟩ := getRecordByName_some cfg hex
      have hkey := key_normalizeName_of_resolves cfg hH hk1 (hI.keyed k1 ex hg1) (hI.lower cfg k1 ex hg1)
      rw [← normalize_eq_normalizeName cfg hn, hk0] at hkey
      cases hkey
      rw [hg1] at hg; cases hg
      rcases hauth with h1 | h2
      · exact Or.inr h1
      · exact Or.inl h2
    · rw [get_set_ne _ _ hk] at hch; exact absurd hg hch

/-! ### invariants over all histories -/

/-- the store invariant holds after every history of messages -/
theorem inv_reachable (ops : List Op) : Inv cfg (run cfg {} ops) := inv_run cfg ops (inv_init cfg)

/-- Keeper-level: the three writing keeper functions used by other modules keep the invariant. -/
theorem keeper_calls_preserve_inv {st st' : State κ} (hI : Inv cfg st) (name : Bytes) (addr : Addr)
    (restrict : Bool) :
    (setNameRecord cfg st name addr restrict = .ok st' → Inv cfg st') ∧
    (updateNameRecord cfg st name addr restrict = .ok st' → Inv cfg st') ∧
    (deleteRecord cfg st name = .ok st' → Inv cfg st') :=
  ⟨inv_setNameRecord cfg hI, inv_updateNameRecord cfg hI, inv_deleteRecord cfg hI⟩

/-- After every history the address index holds, under (address, key), exactly a copy of each
record whose address it is: no entry is missing, stale or left behind by a change of owner. -/
theorem index_entries_exact (ops : List Op) (a : Addr) (k : κ) (r : Record) :
    get (run cfg {} ops).idx (a, k) = some r ↔
      (get (run cfg {} ops).recs k = some r ∧ r.addr = a) :=
  (inv_reachable cfg ops).idxExact a k r

theorem indexAgrees_of_inv {st : State κ} (hI : Inv cfg st) (a : Addr) :
    IndexAgrees (allRecords st) a (getRecordsByAddress st a) := by
  unfold IndexAgrees
  have hrecs : st.recs.Nodup := List.Nodup.of_map _ hI.recsNodup
  have hidx : st.idx.Nodup := List.Nodup.of_map _ hI.idxNodup
  -- values determine keys
  have hvalsR : (allRecords st).Nodup := by
    unfold allRecords
    refine List.Nodup.map_on ?_ hrecs
    rintro ⟨k1, r1⟩ h1 ⟨k2, r2⟩ h2 (heq : r1 = r2)
    subst heq
    have e1 := hI.keyed k1 r1 ((mem_iff_get hI.recsNodup k1 r1).mp h1)
    have e2 := hI.keyed k2 r1 ((mem_iff_get hI.recsNodup k2 r1).mp h2)
    rw [e1] at e2; cases e2; rfl
  have hvalsI : ((st.idx.filter fun e => e.1.1 = a).map (·.2)).Nodup := by
    refine List.Nodup.map_on ?_ (hidx.filter _)
    rintro ⟨⟨a1, k1⟩, r1⟩ h1 ⟨⟨a2, k2⟩, r2⟩ h2 (heq : r1 = r2)
    subst heq
    obtain ⟨m1, ha1⟩ := List.mem_filter.mp h1
    obtain ⟨m2, ha2⟩ := List.mem_filter.mp h2
    simp only [decide_eq_true_eq] at ha1 ha2
    subst ha1; subst ha2
    have g1 := ((hI.idxExact _ k1 r1).mp ((mem_iff_get hI.idxNodup _ r1).mp m1)).1
    have g2 := ((hI.idxExact _ k2 r1).mp ((mem_iff_get hI.idxNodup _ r1).mp m2)).1
    have e1 := hI.keyed k1 r1 g1
    have e2 := hI.keyed k2 r1 g2
    rw [e1] at e2; cases e2; rfl
  unfold getRecordsByAddress
  rw [List.perm_ext_iff_of_nodup (hvalsI.filter _) (hvalsR.filter _)]
  intro r
  simp only [allRecords, List.mem_filter, List.mem_map, decide_eq_true_eq]
  constructor
  · rintro ⟨⟨⟨⟨a', k⟩, r'⟩, ⟨hm, ha'⟩, rfl⟩, hra⟩
    simp only at ha'; subst ha'
    have := (hI.idxExact _ k _).mp ((mem_iff_get hI.idxNodup _ _).mp hm)
    exact ⟨⟨(k, r'), (mem_iff_get hI.recsNodup k r').mpr this.1, rfl⟩, hra⟩
  · rintro ⟨⟨⟨k, r'⟩, hm, rfl⟩, hra⟩
    have hg := (mem_iff_get hI.recsNodup k r').mp hm
    have := (hI.idxExact a k r').mpr ⟨hg, hra⟩
    exact ⟨⟨((a, k), r'), ⟨(mem_iff_get hI.idxNodup _ _).mpr this, rfl⟩, rfl⟩, hra⟩

/-- The by-address lookup lists exactly the names currently bound to each address — after every
history of root creations, binds, modifications and deletions, by owners and strangers. -/
theorem index_agrees (ops : List Op) (a : Addr) :
    IndexAgrees (allRecords (run cfg {} ops)) a (getRecordsByAddress (run cfg {} ops) a) :=
  indexAgrees_of_inv cfg (inv_reachable cfg ops) a

/-- Every record sits under the key derived from its own name. -/
theorem records_keyed_by_own_name (ops : List Op) (k : κ) (r : Record)
    (h : get (run cfg {} ops).recs k = some r) : getNameKeyPrefix cfg r.name = .ok k :=
  (inv_reachable cfg ops).keyed k r h

/-- Every stored name is one `Keeper.Normalize` accepts unchanged: valid, normalized, within the
configured segment and level limits. -/
theorem stored_names_normalized (ops : List Op) (k : κ) (r : Record)
    (h : get (run cfg {} ops).recs k = some r) : IsNormalized cfg r.name :=
  (inv_reachable cfg ops).normd k r h

/-- What a name resolves to has the same store key as the name (so resolution is unambiguous
exactly as far as the key derivation is injective). -/
theorem resolve_same_key (ops : List Op) {n : Bytes} {r : Record}
    (h : getRecordByName cfg (run cfg {} ops) n = some r) :
    getNameKeyPrefix cfg r.name = getNameKeyPrefix cfg n := by
  obtain ⟨k, hk, hg⟩ := getRecordByName_some cfg h
  rw [hk]; exact records_keyed_by_own_name cfg ops k r hg

/-- A record outlives every history in which neither its owner nor governance signs anything. -/
theorem record_persists_without_owner_or_gov (hH : Function.Injective cfg.H) {k : κ} {e : Record}
    (ops : List Op) : ∀ {st : State κ}, Inv cfg st → get st.recs k = some e →
      (∀ op ∈ ops, op.signer ≠ e.addr ∧ op.signer ≠ cfg.authority) →
      get (run cfg st ops).recs k = some e := by
  induction ops with
  | nil => intro st _ hg _; exact hg
  | cons op ops ih =>
    intro st hI hg hs
    have hop := hs op (by simp)
    refine ih (inv_apply cfg hI op) ?_ (fun o ho => hs o (List.mem_cons_of_mem _ ho))
    unfold apply
    split
    · rename_i st' hstep
      by_cases hch : get st'.recs k = some e
      · exact hch
      · rcases existing_record_changed_only_by_owner_or_gov cfg hH hI hstep hg hch with h1 | h2
        · exact absurd h1 hop.1
        · exact absurd h2 hop.2
    · exact hg

/-! ### validation: what `Keeper.Normalize` accepts -/

omit [DecidableEq κ] in
/-- A name `Keeper.Normalize` accepts is the trimmed, lower-cased input; all its segments are valid
segments, at least `minSeg` bytes long and at most `maxSeg` unless they are UUIDs, and there are
at most `maxLevels` of them. -/
theorem normalize_within_limits {name n : Bytes} (h : normalize cfg name = .ok n) :
    n = normalizeName name ∧ validateName n = true ∧
      (∀ seg ∈ splitDot n, cfg.minSeg ≤ seg.length ∧ (seg.length ≤ cfg.maxSeg ∨ isValidUUID seg = true)) ∧
      (splitDot n).length ≤ cfg.maxLevels := by
  have hn := normalize_eq_normalizeName cfg h
  subst hn
  unfold normalize at h
  simp only at h
  split at h
  · cases h
  · rename_i hv
    split at h
    · cases h
    · rename_i hnone
      split at h
      · cases h
      · rename_i hlev
        refine ⟨rfl, by simpa using hv, ?_, Nat.le_of_not_lt hlev⟩
        intro seg hseg
        have := (List.findSome?_eq_none_iff.mp hnone) seg hseg
        by_cases h1 : seg.length < cfg.minSeg
        · simp [h1] at this
        · by_cases h2 : seg.length > cfg.maxSeg
          · cases hu : isValidUUID seg with
            | true => exact ⟨Nat.le_of_not_lt h1, Or.inr rfl⟩
            | false => simp [h1, h2, hu] at this
          · exact ⟨Nat.le_of_not_lt h1, Or.inl (Nat.le_of_not_lt h2)⟩

omit [DecidableEq κ] in
/-- `Keeper.Normalize` is idempotent: its output is accepted unchanged. -/
theorem normalize_idempotent {name n : Bytes} (h : normalize cfg name = .ok n) : IsNormalized cfg n :=
  normalize_idem cfg h

/-! ### the key derivation -/

/-- lists of lists with the same length profile and the same concatenation are equal -/
theorem flatten_inj_of_lengths {α : Type} : ∀ (l1 l2 : List (List α)),
    l1.map List.length = l2.map List.length → l1.flatten = l2.flatten → l1 = l2
  | [], [], _, _ => rfl
  | [], _ :: _, h, _ => by simp at h
  | _ :: _, [], h, _ => by simp at h
  | x :: xs, y :: ys, hl, hf => by
    simp only [List.map_cons, List.cons.injEq] at hl
    simp only [List.flatten_cons] at hf
    obtain ⟨h1, h2⟩ := List.append_inj hf hl.1
    rw [h1, flatten_inj_of_lengths xs ys hl.2 h2]

omit [DecidableEq κ] in
/-- The exact collision condition: with a collision-free hash, two names share a store key iff
their reversed segments concatenate to the same byte string. -/
theorem key_collision_iff_resegmentation (hH : Function.Injective cfg.H) {n1 n2 p1 p2 : Bytes}
    (h1 : preimage n1 = .ok p1) (h2 : preimage n2 = .ok p2) :
    getNameKeyPrefix cfg n1 = getNameKeyPrefix cfg n2 ↔
      (segments n1).reverse.flatten = (segments n2).reverse.flatten := by
  have e1 : p1 = (segments n1).reverse.flatten := by
    rw [preimage_eq] at h1; split at h1
    · cases h1
    · cases h1; rfl
  have e2 : p2 = (segments n2).reverse.flatten := by
    rw [preimage_eq] at h2; split at h2
    · cases h2
    · cases h2; rfl
  simp only [getNameKeyPrefix, h1, h2, Except.map, ← e1, ← e2]
  constructor
  · intro h; exact hH (by injection h)
  · intro h; rw [h]

/-- PARTIAL (full statement, "different valid names have different keys", is false —
`key_collision`): names with the same segment-length profile and the same key have the same
segments, for a collision-free hash. -/
theorem key_injective_partial (hH : Function.Injective cfg.H) {n1 n2 : Bytes} {k : κ}
    (h1 : getNameKeyPrefix cfg n1 = .ok k) (h2 : getNameKeyPrefix cfg n2 = .ok k)
    (hp : profile n1 = profile n2) : segments n1 = segments n2 := by
  unfold getNameKeyPrefix at h1 h2
  cases hp1 : preimage n1 with
  | error e => rw [hp1] at h1; cases h1
  | ok p1 =>
    cases hp2 : preimage n2 with
    | error e => rw [hp2] at h2; cases h2
    | ok p2 =>
      have hk : getNameKeyPrefix cfg n1 = getNameKeyPrefix cfg n2 := by
        unfold getNameKeyPrefix; rw [h1, h2]
      have hflat := (key_collision_iff_resegmentation cfg hH hp1 hp2).mp hk
      have hrev : (segments n1).reverse = (segments n2).reverse := by
        apply flatten_inj_of_lengths _ _ _ hflat
        simp only [List.map_reverse]
        exact congrArg List.reverse hp
      simpa using congrArg List.reverse hrev

omit [DecidableEq κ] in
theorem segments_of_normalized {n : Bytes} (hn : IsNormalized cfg n) : segments n = splitDot n := by
  have e : n = normalizeName n := normalize_eq_normalizeName cfg hn
  have hs : splitDot n = (splitDot n).map normSeg := by
    conv => lhs; rw [e]
    exact splitDot_normalizeName n
  unfold segments
  conv => lhs; rw [hs]
  rw [List.map_map]
  conv => rhs; rw [hs]
  apply List.map_congr_left
  intro seg _
  exact trimSpace_normSeg seg

/-- PARTIAL, on names as strings: two valid normalized names (accepted unchanged by
`Keeper.Normalize`) with the same segment-length profile and the same store key are the same
name, for a collision-free hash. -/
theorem key_injective_normalized_partial (hH : Function.Injective cfg.H) {n1 n2 : Bytes} {k : κ}
    (hn1 : IsNormalized cfg n1) (hn2 : IsNormalized cfg n2)
    (h1 : getNameKeyPrefix cfg n1 = .ok k) (h2 : getNameKeyPrefix cfg n2 = .ok k)
    (hp : profile n1 = profile n2) : n1 = n2 := by
  have hs := key_injective_partial cfg hH h1 h2 hp
  rw [segments_of_normalized cfg hn1, segments_of_normalized cfg hn2] at hs
  rw [← joinDot_splitDot n1, ← joinDot_splitDot n2, hs]

/-- PARTIAL (unambiguous resolution holds between names of equal profile): after every history,
if a valid normalized name resolves to a record whose name has the same segment-length profile,
that record carries this very name. -/
theorem resolution_unambiguous_partial (hH : Function.Injective cfg.H) (ops : List Op) {n : Bytes}
    {r : Record} (hn : IsNormalized cfg n) (h : getRecordByName cfg (run cfg {} ops) n = some r)
    (hp : profile r.name = profile n) : ResolvesOwn n r := by
  obtain ⟨k, hk, hg⟩ := getRecordByName_some cfg h
  exact key_injective_normalized_partial cfg hH (stored_names_normalized cfg ops k r hg) hn
    (records_keyed_by_own_name cfg ops k r hg) hk hp

/-! ### the collision (negation witness) -/

def abcde : Bytes := [97, 98, 99, 46, 100, 101]   -- "abc.de"
def bcdea : Bytes := [98, 99, 46, 100, 101, 97]   -- "bc.dea"

omit [DecidableEq κ] in
/-- NEGATION of "two different valid names never resolve to the same record": under the default
limits (min 2, max 32, 16 levels) `abc.de` and `bc.dea` are two different names that
`Keeper.Normalize` accepts unchanged, and whatever the hash function is they get the same store
key — both pre-images are the bytes of "deabc". -/
theorem key_collision (cfg : Cfg κ) (h2 : cfg.minSeg = 2) (h32 : cfg.maxSeg = 32)
    (h16 : cfg.maxLevels = 16) :
    IsNormalized cfg abcde ∧ IsNormalized cfg bcdea ∧ abcde ≠ bcdea ∧
      preimage abcde = .ok [100, 101, 97, 98, 99] ∧ preimage bcdea = .ok [100, 101, 97, 98, 99] ∧
      getNameKeyPrefix cfg abcde = getNameKeyPrefix cfg bcdea := by
  have p1 : preimage abcde = .ok [100, 101, 97, 98, 99] := by decide
  have p2 : preimage bcdea = .ok [100, 101, 97, 98, 99] := by decide
  refine ⟨?_, ?_, by decide, p1, p2, by simp [getNameKeyPrefix, p1, p2]⟩
  · have e : normalizeName abcde = abcde := by decide
    have v : validateName abcde = true := by decide
    have s : splitDot abcde = [[97, 98, 99], [100, 101]] := by decide
    simp [IsNormalized, normalize, e, v, s, h2, h32, h16]
  · have e : normalizeName bcdea = bcdea := by decide
    have v : validateName bcdea = true := by decide
    have s : splitDot bcdea = [[98, 99], [100, 101, 97]] := by decide
    simp [IsNormalized, normalize, e, v, s, h2, h32, h16]

/-- the two names have different segment-length profiles (so `key_injective_partial` does not apply) -/
example : profile abcde ≠ profile bcdea := by decide

/-- configuration of the witness history: the pre-image itself as key (`H := id`, injective) -/
def wcfg : Cfg Bytes :=
  { H := id, authority := "G", addrOk := fun _ => true, hasAccount := fun _ => true }

def de : Bytes := [100, 101]
def dea : Bytes := [100, 101, 97]
def abc : Bytes := [97, 98, 99]
def bc : Bytes := [98, 99]

/-- governance creates the open root `de` for A and the RESTRICTED root `dea` for B; A binds `abc.de` -/
def witnessState : State Bytes :=
  run wcfg {} [.root "G" de "A" false, .root "G" dea "B" true, .bind de "A" abc "A" false]

/-- CONSEQUENCE of the collision ("owning one name confers authority over another"), on a concrete
history with an injective key function: A owns `abc.de`, B owns the restricted root `dea`.
(1) A may not bind `bc` under B's restricted `dea`; (2) B himself cannot bind `bc.dea` either (the
key is taken); (3) `bc.dea` resolves to A's record `abc.de`; (4) A's `ModifyName bc.dea` succeeds,
after which the record is NAMED `bc.dea`, owned by A — a name under B's restricted root that B
never allowed — and `abc.de` resolves to that record too. -/
theorem collision_confers_authority :
    (step wcfg witnessState (.bind dea "A" bc "A" false)).toBool = false ∧
    (step wcfg witnessState (.bind dea "B" bc "B" false)).toBool = false ∧
    getRecordByName wcfg witnessState bcdea = some ⟨abcde, "A", false⟩ ∧
    getRecordByName wcfg witnessState dea = some ⟨dea, "B", true⟩ ∧
    (step wcfg witnessState (.modify "A" bcdea "A" false)).toOption.map
        (fun s => (getRecordByName wcfg s bcdea, getRecordByName wcfg s abcde)) =
      some (some ⟨bcdea, "A", false⟩, some ⟨bcdea, "A", false⟩) := by
  decide

/-! ### non-vacuity -/

/-- the hypotheses `Function.Injective cfg.H` and `Inv` are satisfiable -/
example : Function.Injective wcfg.H := fun _ _ h => h
example : Inv wcfg witnessState := inv_reachable wcfg _

/-- each message kind succeeds on a concrete state (the `= .ok _` hypotheses are satisfiable) -/
example : (step wcfg {} (.root "G" de "A" false)).toBool = true := by decide
example : (step wcfg witnessState (.bind de "A" bc "C" true)).toBool = true := by decide
/-- a record name that itself has several segments is refused (it would reach below `abc.de`) -/
example : (step wcfg witnessState (.bind de "A" (bc ++ dot :: abc) "C" true)).toBool = false := by decide
example : (step wcfg witnessState (.modify "G" abcde "C" true)).toBool = true := by decide
example : (step wcfg witnessState (.modify "B" dea "C" false)).toBool = true := by decide
example : (step wcfg witnessState (.delete abcde "A")).toBool = true := by decide
/-- and strangers are refused -/
example : (step wcfg witnessState (.modify "C" abcde "C" true)).toBool = false := by decide
example : (step wcfg witnessState (.delete abcde "B")).toBool = false := by decide
example : (step wcfg witnessState (.delete abcde "G")).toBool = false := by decide
example : (step wcfg {} (.root "A" de "A" false)).toBool = false := by decide

end PvProofs.C15
