/-
C15 — Names: only owners bind, change, delete; lookups agree; resolution unambiguous.

Property theorems only (helper lemmas live in `PvProofs/Lemmas/Name*.lean`).  The model is
`PvModel.Name` (x/name keeper, msg server, key derivation); `cfg.H` is the hash of the store key
(`0x03 ‖ sha256`), an arbitrary function: where a theorem needs collision resistance it is the
HYPOTHESIS `NoHashCollision cfg names` — `cfg.H` is injective ON THE FINITE LIST of key pre-images
of `names` (the names stored in the state and the names the messages mention) — never an axiom and
never `Function.Injective cfg.H`, which is false of SHA-256 (`noHashCollision_of_injective`
recovers the idealised statements; `trunc_not_injective` shows a non-injective hash satisfies the
hypotheses).  All theorems are for every configuration
(limits, authority, address predicates, canonical-spelling function), every state / every history
of messages, and — for the statements about reachable states — every genesis file `InitGenesis`
accepts as the start of the history (`initGenesis cfg {} gs = .ok st0`; `gs = []` is the empty
chain).  Address strings are AS WRITTEN in the message / genesis file; `cfg.canon` is the canonical
spelling of the address they parse to ("the signer is the owner" compares canonical spellings,
i.e. address bytes).

The last clause of the property is FALSE of the code: the key pre-image concatenates the reversed
segments without a separator (x/name/types/keys.go:47-56), so different valid names that are
different segmentations of one byte string share a key.  `key_collision` is the concrete witness
(`abc.de` / `bc.dea`), `collision_confers_authority` its consequence on a concrete history,
`key_injective_partial` / `key_injective_normalized_partial` what does hold (equal segment-length
profiles), `key_collision_iff_resegmentation` the exact collision condition.  Recorded as known
finding `C15-key-collision`.
-/
import PvProofs.Lemmas.NameNames
import Mathlib.Data.List.Nodup

namespace PvProofs.C15
open PvModel.Name PvModel.Name.KV

variable {κ : Type} [DecidableEq κ] (cfg : Cfg κ)

/-! ### who may do what (one message, any state) -/

/-- A name is bound only under a parent name that resolves, and if that parent is restricted only
when the signer (the address the parent-address string parses to) is the parent's owner. -/
theorem bind_requires_parent {st st' : State κ} {pn rn : Bytes} {pa ra : Addr} {r : Bool}
    (h : step cfg st (.bind pn pa rn ra r) = .ok st') :
    bindAllowed (getRecordByName cfg st pn) (cfg.canon pa) = true := by
  obtain ⟨par, name, k, hpar, hres, -⟩ := bindName_ok cfg (step_ok_cases cfg h)
  rw [hpar]
  simp only [bindAllowed, Bool.or_eq_true, Bool.not_eq_true', beq_iff_eq]
  cases hr : par.restricted with
  | false => exact Or.inl rfl
  | true => exact Or.inr (hres hr)

/-- The same clause stated for the name that is actually bound, whatever parent the message
mentions: a successful `BindName` binds a name of at least two segments whose IMMEDIATE parent
(the bound name minus its first segment) is the normalized parent name of the message, resolves
in the state before, and — if restricted — belongs to the signer.  This is what
`MsgBindNameRequest.ValidateBasic` refusing a record name with a "." buys: the bound name cannot
reach below any other name than the checked parent.  (Reachable state; the hash does not collide
on the parent name as written and the stored names: the raw parent name and its normalized form
then have the same key.) -/
theorem bind_under_immediate_parent {st st' : State κ} {pn rn : Bytes} {pa ra : Addr} {r : Bool}
    (hH : NoHashCollision cfg (pn :: storedNames st)) (hI : Inv cfg st)
    (h : step cfg st (.bind pn pa rn ra r) = .ok st') :
    ∃ name, normalize cfg (rn ++ dot :: pn) = .ok name ∧ 2 ≤ (splitDot name).length ∧
      immediateParent name = normalizeName pn ∧
      bindAllowed (getRecordByName cfg st (immediateParent name)) (cfg.canon pa) = true := by
  have hvb : validateBasic cfg (.bind pn pa rn ra r) = true := by
    unfold step at h
    split at h
    · cases h
    · rename_i hv; simpa using hv
  have hfree : dot ∉ rn := by
    simp only [validateBasic, Bool.and_eq_true, Bool.not_eq_true', List.contains_eq_mem,
      decide_eq_false_iff_not] at hvb
    exact hvb.1.2
  obtain ⟨par, name, k0, hpar, hres, hn, -⟩ := bindName_ok cfg (step_ok_cases cfg h)
  have hname := normalize_eq_normalizeName cfg hn
  have hsplit : splitDot (rn ++ dot :: pn) = rn :: splitDot pn := by
    have := splitDot_append_dotfree rn hfree (dot :: pn) [] (splitDot pn) (splitDot_cons_dot pn)
    simpa using this
  have hs : splitDot name = normSeg rn :: (splitDot pn).map normSeg := by
    rw [hname, splitDot_normalizeName, hsplit, List.map_cons]
  have hne : (splitDot pn).map normSeg ≠ [] := by simpa using splitDot_ne_nil pn
  have hip : immediateParent name = normalizeName pn := by
    unfold immediateParent; rw [hs, List.tail_cons, normalizeName_eq]
  refine ⟨name, hn, ?_, hip, ?_⟩
  · rw [hs, List.length_cons]
    have : 0 < ((splitDot pn).map normSeg).length := List.length_pos_iff.mpr hne
    omega
  · obtain ⟨k, hk, hg⟩ := getRecordByName_some cfg hpar
    have hkey := key_normalizeName_of_resolves cfg hH List.mem_cons_self
      (List.mem_cons_of_mem _ (mem_storedNames_of_get hg)) hk (hI.keyed k par hg) (hI.lower cfg k par hg)
    rw [hip, getRecordByName_eq cfg hkey, hg]
    simp only [bindAllowed, Bool.or_eq_true, Bool.not_eq_true', beq_iff_eq]
    cases hr : par.restricted with
    | false => exact Or.inl rfl
    | true => exact Or.inr (hres hr)

/-- Only the owner of the record the name resolves to, or governance, modifies a name. -/
theorem modify_only_owner_or_gov {st st' : State κ} {a ad : Addr} {n : Bytes} {r : Bool}
    (h : step cfg st (.modify a n ad r) = .ok st') :
    modifyAllowed cfg.authority (getRecordByName cfg st n) a = true := by
  obtain ⟨ex, nn, k, hex, hauth, -⟩ := modifyName_ok cfg (step_ok_cases cfg h)
  rw [hex]
  simp only [modifyAllowed, Bool.or_eq_true, beq_iff_eq]
  exact hauth

/-- Only the owner deletes a name (governance cannot). -/
theorem delete_only_owner {st st' : State κ} {n : Bytes} {a : Addr}
    (h : step cfg st (.delete n a) = .ok st') :
    ∃ nn, normalize cfg n = .ok nn ∧
      deleteAllowed (getRecordByName cfg st nn) (cfg.canon a) = true := by
  obtain ⟨name, k, rec, hn, hk, hg, haddr, -⟩ := deleteName_ok cfg (step_ok_cases cfg h)
  refine ⟨name, hn, ?_⟩
  rw [getRecordByName_eq cfg hk, hg]
  simp [deleteAllowed, haddr]

/-- Root names are created by the governance authority only. -/
theorem root_only_gov {st st' : State κ} {a o : Addr} {n : Bytes} {r : Bool}
    (h : step cfg st (.root a n o r) = .ok st') : rootAllowed cfg.authority a = true := by
  obtain ⟨ha, -, -⟩ := createRootNameMsg_ok cfg (step_ok_cases cfg h)
  simp [rootAllowed, ha]

/-! ### what a message changes -/

/-- `BindName` adds exactly one record, under a key that was free, named by the normalized
`child.parent`, bound to the CANONICAL spelling of the record address, and changes no other
record. -/
theorem bind_effect {st st' : State κ} {pn rn : Bytes} {pa ra : Addr} {r : Bool}
    (h : step cfg st (.bind pn pa rn ra r) = .ok st') :
    ∃ name k, normalize cfg (rn ++ dot :: pn) = .ok name ∧ getNameKeyPrefix cfg name = .ok k ∧
      get st.recs k = none ∧ get st'.recs k = some ⟨name, cfg.canon ra, r⟩ ∧
      ∀ k', k' ≠ k → get st'.recs k' = get st.recs k' := by
  obtain ⟨par, name, k, -, -, hn, hk, hfree, -, rfl⟩ := bindName_ok cfg (step_ok_cases cfg h)
  exact ⟨name, k, hn, hk, hfree, get_set_self _ _ _, fun k' hk' => get_set_ne _ _ hk'⟩

/-- `ModifyName` rewrites exactly the record under the key of the normalized name. -/
theorem modify_effect {st st' : State κ} {a ad : Addr} {n : Bytes} {r : Bool}
    (h : step cfg st (.modify a n ad r) = .ok st') :
    ∃ name k, normalize cfg n = .ok name ∧ getNameKeyPrefix cfg name = .ok k ∧
      get st'.recs k = some ⟨name, cfg.canon ad, r⟩ ∧
      ∀ k', k' ≠ k → get st'.recs k' = get st.recs k' := by
  obtain ⟨ex, name, k, -, -, hn, hk, -, rfl⟩ := modifyName_ok cfg (step_ok_cases cfg h)
  exact ⟨name, k, hn, hk, get_set_self _ _ _, fun k' hk' => get_set_ne _ _ hk'⟩

/-- `DeleteName` removes exactly the record under the key of the normalized name. -/
theorem delete_effect {st st' : State κ} {n : Bytes} {a : Addr}
    (h : step cfg st (.delete n a) = .ok st') :
    ∃ name k, normalize cfg n = .ok name ∧ getNameKeyPrefix cfg name = .ok k ∧
      get st'.recs k = none ∧ ∀ k', k' ≠ k → get st'.recs k' = get st.recs k' := by
  obtain ⟨name, k, rec, hn, hk, -, -, rfl⟩ := deleteName_ok cfg (step_ok_cases cfg h)
  exact ⟨name, k, hn, hk, get_del_self _ _, fun k' hk' => get_del_ne _ hk'⟩

/-- What `CreateRootName` changes, exactly: it never touches an existing record, and every record
it adds is `⟨t, canonical owner, restriction⟩` for a level `t` of the name (`rootSuffixes n` =
`Op.targets`: the normalized suffixes `c`, `b.c`, `a.b.c` of `a.b.c`), stored under the key of
`t`, with `t` a name `Normalize` accepts — nothing else is created, nothing removed.  That every
level IS bound afterwards is `root_binds_every_level`. -/
theorem root_effect {st st' : State κ} {a o : Addr} {n : Bytes} {r : Bool}
    (h : step cfg st (.root a n o r) = .ok st') :
    (∀ k e, get st.recs k = some e → get st'.recs k = some e) ∧
    (∀ k r', get st'.recs k = some r' → get st.recs k = some r' ∨
      (get st.recs k = none ∧ ∃ t ∈ (Op.root a n o r).targets, r' = ⟨t, cfg.canon o, r⟩ ∧
        getNameKeyPrefix cfg t = .ok k ∧ IsNormalized cfg t)) := by
  obtain ⟨-, -, hl⟩ := createRootNameMsg_ok cfg (step_ok_cases cfg h)
  refine ⟨(createRootLoop_effect cfg _ _ _ _ _ _ hl).1, fun k r' hg => ?_⟩
  rcases createRootLoop_created cfg _ _ _ _ _ _ hl k r' hg with h1 | ⟨h0, x, hx, rfl, hk⟩
  · exact Or.inl h1
  · refine Or.inr ⟨h0, normalizeName x, mem_rootSuffixes.mpr ⟨x, hx, rfl⟩, rfl, hk, ?_⟩
    rcases (createRootLoop_effect cfg _ _ _ _ _ _ hl).2 k _ hg with h1 | ⟨-, -, -, hn⟩
    · rw [h0] at h1; cases h1
    · exact hn

/-- `CreateRootName` binds EVERY level of the name it is given: after it each level `t` (each
normalized suffix, `Op.targets`) has a key and resolves — to the record that was there before
(unchanged), or to a new record owned by the given owner with the given restriction (by
`root_effect` that new record is `⟨t', owner, restriction⟩` for a level `t'` with the key of `t`;
`t' = t` unless two levels of the one name share a key).  (Reachable state; no hash collision
among the levels as written / normalized and the stored names.) -/
theorem root_binds_every_level {st st' : State κ} {a o : Addr} {n : Bytes} {r : Bool}
    (hH : NoHashCollision cfg ((Op.root a n o r).names ++ storedNames st)) (hI : Inv cfg st)
    (h : step cfg st (.root a n o r) = .ok st') :
    ∀ t ∈ (Op.root a n o r).targets, ∃ k r', getNameKeyPrefix cfg t = .ok k ∧
      get st'.recs k = some r' ∧
      (get st.recs k = some r' ∨
        (get st.recs k = none ∧ r'.addr = cfg.canon o ∧ r'.restricted = r)) := by
  obtain ⟨-, -, hl⟩ := createRootNameMsg_ok cfg (step_ok_cases cfg h)
  intro t ht
  obtain ⟨x, hx, rfl⟩ := mem_rootSuffixes.mp ht
  exact createRootLoop_all_bound cfg hH _ _ _ _ _ _ hI (rootPath_mem_names st a o n r)
    (fun y hy => List.mem_append_right _ hy) hl x hx

/-- `CreateRootName` establishes every level of the name it is given: a name it brings into being
with two or more segments has its immediate parent bound afterwards (created by the same message,
or there before) — "a name can be bound only under an existing parent" for root creation.
(Reachable state; no hash collision among the levels and the stored names: an existing level is
looked up under the raw spelling.) -/
theorem root_establishes_all_levels {st st' : State κ} {a o : Addr} {n : Bytes} {r : Bool}
    (hH : NoHashCollision cfg ((Op.root a n o r).names ++ storedNames st)) (hI : Inv cfg st)
    (h : step cfg st (.root a n o r) = .ok st') :
    ∀ k r', get st'.recs k = some r' → get st.recs k = none → 2 ≤ (splitDot r'.name).length →
      (getRecordByName cfg st' (immediateParent r'.name)).isSome = true := by
  obtain ⟨-, -, hl⟩ := createRootNameMsg_ok cfg (step_ok_cases cfg h)
  exact createRootLoop_levels cfg hH _ _ _ [] st st'
    (fun s hs => splitDot_dotfree n s (List.mem_reverse.mp hs)) hI (by decide)
    (rootPath_mem_names st a o n r) (fun y hy => List.mem_append_right _ hy) (Or.inl rfl) hl

/-- A rejected message changes nothing (the model's `apply` drops the failed transaction; on the
implementation this is checked after every rejected message of the correspondence run). -/
theorem rejected_changes_nothing {st : State κ} {op : Op} {e : Err} (h : step cfg st op = .error e) :
    apply cfg st op = st := by
  simp [apply, h]

/-- Every message keeps the stored addresses canonical (`canon` is idempotent: the canonical
spelling of an address parses to that address). -/
theorem canonStored_step (hC : ∀ a, cfg.canon (cfg.canon a) = cfg.canon a) {st st' : State κ}
    (hS : CanonStored cfg st) {op : Op} (h : step cfg st op = .ok st') : CanonStored cfg st' := by
  intro k r' hg
  cases op with
  | root a n o r =>
    rcases (root_effect cfg h).2 k r' hg with h1 | ⟨-, t, -, rfl, -⟩
    · exact hS k r' h1
    · exact hC o
  | bind pn pa rn ra r =>
    obtain ⟨name, k0, -, -, -, hnew, hframe⟩ := bind_effect cfg h
    by_cases hk : k = k0
    · subst hk; rw [hnew] at hg; cases hg; exact hC ra
    · rw [hframe k hk] at hg; exact hS k r' hg
  | modify a n ad r =>
    obtain ⟨name, k0, -, -, hnew, hframe⟩ := modify_effect cfg h
    by_cases hk : k = k0
    · subst hk; rw [hnew] at hg; cases hg; exact hC ad
    · rw [hframe k hk] at hg; exact hS k r' hg
  | delete n a =>
    obtain ⟨name, k0, -, -, hnew, hframe⟩ := delete_effect cfg h
    by_cases hk : k = k0
    · subst hk; rw [hnew] at hg; cases hg
    · rw [hframe k hk] at hg; exact hS k r' hg

theorem canonStored_apply (hC : ∀ a, cfg.canon (cfg.canon a) = cfg.canon a) {st : State κ}
    (hS : CanonStored cfg st) (op : Op) : CanonStored cfg (apply cfg st op) := by
  unfold apply
  split
  · rename_i st' h; exact canonStored_step cfg hC hS h
  · exact hS

theorem canonStored_run (hC : ∀ a, cfg.canon (cfg.canon a) = cfg.canon a) (ops : List Op) :
    ∀ {st : State κ}, CanonStored cfg st → CanonStored cfg (run cfg st ops) := by
  induction ops with
  | nil => intro st hS; exact hS
  | cons op ops ih => intro st hS; exact ih (canonStored_apply cfg hC hS op)

/-- Records never change except by their owner or governance: if a message alters or removes an
existing record, its signer — the address the signer string parses to — is that record's owner,
or the signer is the governance authority.  (In a reachable state; the hash does not collide on
the names of the message and the stored names;
`ModifyName` looks the record up under the raw name but writes under the normalized one, the two
keys agree because stored names are lower-case; it compares the authority string as written with
the stored owner string, which is canonical.) -/
theorem existing_record_changed_only_by_owner_or_gov
    {st st' : State κ} {op : Op} (hH : NoHashCollision cfg (op.names ++ storedNames st))
    (hI : Inv cfg st) (hS : CanonStored cfg st)
    (h : step cfg st op = .ok st')
    {k : κ} {e : Record} (hg : get st.recs k = some e) (hch : get st'.recs k ≠ some e) :
    cfg.canon op.signer = e.addr ∨ op.signer = cfg.authority := by
  cases op with
  | root a n o r => exact absurd ((root_effect cfg h).1 k e hg) hch
  | bind pn pa rn ra r =>
    obtain ⟨name, k0, -, -, hfree, -, hframe⟩ := bind_effect cfg h
    by_cases hk : k = k0
    · subst hk; rw [hfree] at hg; cases hg
    · rw [hframe k hk] at hch; exact absurd hg hch
  | delete n a =>
    obtain ⟨name, k0, rec, -, -, hg0, haddr, rfl⟩ := deleteName_ok cfg (step_ok_cases cfg h)
    by_cases hk : k = k0
    · subst hk; rw [hg0] at hg; cases hg; exact Or.inl haddr.symm
    · rw [get_del_ne _ hk] at hch; exact absurd hg hch
  | modify a n ad r =>
    obtain ⟨ex, name, k0, hex, hauth, hn, hk0, -, rfl⟩ := modifyName_ok cfg (step_ok_cases cfg h)
    by_cases hk : k = k0
    · subst hk
      obtain ⟨k1, hk1, hg1⟩ := getRecordByName_some cfg hex
      have hkey := key_normalizeName_of_resolves cfg hH (name := n) (by simp [Op.names, Op.lookups])
        (List.mem_append_right _ (mem_storedNames_of_get hg1)) hk1 (hI.keyed k1 ex hg1)
        (hI.lower cfg k1 ex hg1)
      rw [← normalize_eq_normalizeName cfg hn, hk0] at hkey
      cases hkey
      rw [hg1] at hg; cases hg
      rcases hauth with h1 | h2
      · exact Or.inr h1
      · exact Or.inl (by simp only [Op.signer]; rw [h2]; exact hS _ _ hg1)
    · rw [get_set_ne _ _ hk] at hch; exact absurd hg hch

/-! ### invariants over all histories -/

/-- what a genesis import stores: `InitGenesis` (on the empty store) binds every binding of the
file under its normalized name to the CANONICAL spelling of the binding's address — whatever
valid spelling the file used — and stores nothing else. -/
theorem genesis_effect {gs : List Record} {st0 : State κ} (hg : initGenesis cfg {} gs = .ok st0) :
    (∀ b ∈ gs, ∃ n k, normalize cfg b.name = .ok n ∧ getNameKeyPrefix cfg n = .ok k ∧
      get st0.recs k = some ⟨n, cfg.canon b.addr, b.restricted⟩) ∧
    (∀ k r, get st0.recs k = some r → ∃ b ∈ gs, cfg.addrOk b.addr = true ∧
      normalize cfg b.name = .ok r.name ∧ r.addr = cfg.canon b.addr ∧ r.restricted = b.restricted) := by
  obtain ⟨-, hB, hC⟩ := initGenesis_effect cfg gs {} st0 hg
  refine ⟨hC, fun k r h => ?_⟩
  rcases hB k r h with h0 | h1
  · simp [KV.get] at h0
  · exact h1

/-- the store invariant holds after every genesis import followed by every history of messages -/
theorem inv_reachable {gs : List Record} {st0 : State κ} (hg : initGenesis cfg {} gs = .ok st0)
    (ops : List Op) : Inv cfg (run cfg st0 ops) :=
  inv_run cfg ops (inv_initGenesis cfg gs _ _ (inv_init cfg) hg)

/-- Every stored address is in canonical spelling — after every genesis import (whatever valid
spelling the file used for an address) followed by every history of messages (whatever spelling
the messages used). -/
theorem stored_addresses_canonical (hC : ∀ a, cfg.canon (cfg.canon a) = cfg.canon a)
    {gs : List Record} {st0 : State κ} (hg : initGenesis cfg {} gs = .ok st0) (ops : List Op)
    (k : κ) (r : Record) (h : get (run cfg st0 ops).recs k = some r) : cfg.canon r.addr = r.addr :=
  canonStored_run cfg hC ops (canonStored_initGenesis cfg hC (canonStored_init cfg) hg) k r h

/-- Keeper-level: the three writing keeper functions used by other modules keep the invariant. -/
theorem keeper_calls_preserve_inv {st st' : State κ} (hI : Inv cfg st) (name : Bytes) (addr : Addr)
    (restrict : Bool) :
    (setNameRecord cfg st name addr restrict = .ok st' → Inv cfg st') ∧
    (updateNameRecord cfg st name addr restrict = .ok st' → Inv cfg st') ∧
    (deleteRecord cfg st name = .ok st' → Inv cfg st') :=
  ⟨inv_setNameRecord cfg hI, inv_updateNameRecord cfg hI, inv_deleteRecord cfg hI⟩

/-- After every history the address index holds, under (address, key), exactly a copy of each
record whose address it is: no entry is missing, stale or left behind by a change of owner. -/
theorem index_entries_exact {gs : List Record} {st0 : State κ}
    (hg : initGenesis cfg {} gs = .ok st0) (ops : List Op) (a : Addr) (k : κ) (r : Record) :
    get (run cfg st0 ops).idx (a, k) = some r ↔
      (get (run cfg st0 ops).recs k = some r ∧ r.addr = a) :=
  (inv_reachable cfg hg ops).idxExact a k r

theorem indexAgrees_of_inv {st : State κ} (hI : Inv cfg st) (a : Addr) :
    IndexAgrees (allRecords st) a (getRecordsByAddress st a) := by
  unfold IndexAgrees
  have hrecs : st.recs.Nodup := List.Nodup.of_map _ hI.recsNodup
  have hidx : st.idx.Nodup := List.Nodup.of_map _ hI.idxNodup
  -- values determine keys
  have hvalsR : (allRecords st).Nodup := by
    unfold allRecords
    refine List.Nodup.map_on ?_ hrecs
    rintro ⟨k1, r1⟩ h1 ⟨k2, r2⟩ h2 (heq : r1 = r2)
    subst heq
    have e1 := hI.keyed k1 r1 ((mem_iff_get hI.recsNodup k1 r1).mp h1)
    have e2 := hI.keyed k2 r1 ((mem_iff_get hI.recsNodup k2 r1).mp h2)
    rw [e1] at e2; cases e2; rfl
  have hvalsI : ((st.idx.filter fun e => e.1.1 = a).map (·.2)).Nodup := by
    refine List.Nodup.map_on ?_ (hidx.filter _)
    rintro ⟨⟨a1, k1⟩, r1⟩ h1 ⟨⟨a2, k2⟩, r2⟩ h2 (heq : r1 = r2)
    subst heq
    obtain ⟨m1, ha1⟩ := List.mem_filter.mp h1
    obtain ⟨m2, ha2⟩ := List.mem_filter.mp h2
    simp only [decide_eq_true_eq] at ha1 ha2
    subst ha1; subst ha2
    have g1 := ((hI.idxExact _ k1 r1).mp ((mem_iff_get hI.idxNodup _ r1).mp m1)).1
    have g2 := ((hI.idxExact _ k2 r1).mp ((mem_iff_get hI.idxNodup _ r1).mp m2)).1
    have e1 := hI.keyed k1 r1 g1
    have e2 := hI.keyed k2 r1 g2
    rw [e1] at e2; cases e2; rfl
  unfold getRecordsByAddress
  rw [List.perm_ext_iff_of_nodup (hvalsI.filter _) (hvalsR.filter _)]
  intro r
  simp only [allRecords, List.mem_filter, List.mem_map, decide_eq_true_eq]
  constructor
  · rintro ⟨⟨⟨⟨a', k⟩, r'⟩, ⟨hm, ha'⟩, rfl⟩, hra⟩
    simp only at ha'; subst ha'
    have := (hI.idxExact _ k _).mp ((mem_iff_get hI.idxNodup _ _).mp hm)
    exact ⟨⟨(k, r'), (mem_iff_get hI.recsNodup k r').mpr this.1, rfl⟩, hra⟩
  · rintro ⟨⟨⟨k, r'⟩, hm, rfl⟩, hra⟩
    have hg := (mem_iff_get hI.recsNodup k r').mp hm
    have := (hI.idxExact a k r').mpr ⟨hg, hra⟩
    exact ⟨⟨((a, k), r'), ⟨(mem_iff_get hI.idxNodup _ _).mpr this, rfl⟩, rfl⟩, hra⟩

/-- The by-address lookup lists exactly the names currently bound to each address — after every
genesis import and every history of root creations, binds, modifications and deletions, by owners
and strangers. -/
theorem index_agrees {gs : List Record} {st0 : State κ} (hg : initGenesis cfg {} gs = .ok st0)
    (ops : List Op) (a : Addr) :
    IndexAgrees (allRecords (run cfg st0 ops)) a (getRecordsByAddress (run cfg st0 ops) a) :=
  indexAgrees_of_inv cfg (inv_reachable cfg hg ops) a

/-- The same on address BYTES: the listing for (the canonical string of) an address is, up to
order, the records whose address string parses to that address — a record is never hidden from
its owner's listing by the spelling it was written with in a genesis file or a message. -/
theorem index_agrees_by_address (hC : ∀ a, cfg.canon (cfg.canon a) = cfg.canon a)
    {gs : List Record} {st0 : State κ} (hg : initGenesis cfg {} gs = .ok st0) (ops : List Op)
    (a : Addr) :
    (getRecordsByAddress (run cfg st0 ops) (cfg.canon a)).Perm
      ((allRecords (run cfg st0 ops)).filter fun r => cfg.canon r.addr = cfg.canon a) := by
  have h := index_agrees cfg hg ops (cfg.canon a)
  unfold IndexAgrees at h
  refine h.trans (List.Perm.of_eq (List.filter_congr ?_))
  intro r hr
  obtain ⟨⟨k, r'⟩, hm, rfl⟩ := List.mem_map.mp hr
  have hI := inv_reachable cfg hg ops
  have hc := stored_addresses_canonical cfg hC hg ops k r' ((mem_iff_get hI.recsNodup k r').mp hm)
  simp only [hc]

omit [DecidableEq κ] in
/-- The `ReverseLookup` query lists the names bound to the address it is asked about, however
that address is spelled: it answers with exactly the names of the by-address listing of the
canonical spelling (full statement since the repair; before it only for `canon a = a`, see
`reverse_lookup_spelling_before_fix`). -/
theorem reverse_lookup_agrees (st : State κ) {a : Addr} (hok : cfg.addrOk a = true) :
    reverseLookup cfg st a = .ok ((getRecordsByAddress st (cfg.canon a)).map (·.name)) := by
  simp [reverseLookup, getRecordsByAddress, hok]

omit [DecidableEq κ] in
/-- the earlier partial statement, kept: asked with the canonical spelling -/
theorem reverse_lookup_agrees_partial (st : State κ) {a : Addr} (hok : cfg.addrOk a = true)
    (hc : cfg.canon a = a) :
    reverseLookup cfg st a = .ok ((getRecordsByAddress st a).map (·.name)) := by
  simp [reverseLookup, getRecordsByAddress, hok, hc]

/-- Every record sits under the key derived from its own name. -/
theorem records_keyed_by_own_name {gs : List Record} {st0 : State κ}
    (hg : initGenesis cfg {} gs = .ok st0) (ops : List Op) (k : κ) (r : Record)
    (h : get (run cfg st0 ops).recs k = some r) : getNameKeyPrefix cfg r.name = .ok k :=
  (inv_reachable cfg hg ops).keyed k r h

/-- Every stored name is one `Keeper.Normalize` accepts unchanged: valid, normalized, within the
configured segment and level limits. -/
theorem stored_names_normalized {gs : List Record} {st0 : State κ}
    (hg : initGenesis cfg {} gs = .ok st0) (ops : List Op) (k : κ) (r : Record)
    (h : get (run cfg st0 ops).recs k = some r) : IsNormalized cfg r.name :=
  (inv_reachable cfg hg ops).normd k r h

/-- What a name resolves to has the same store key as the name (so resolution is unambiguous
exactly as far as the key derivation is injective). -/
theorem resolve_same_key {gs : List Record} {st0 : State κ}
    (hg0 : initGenesis cfg {} gs = .ok st0) (ops : List Op) {n : Bytes} {r : Record}
    (h : getRecordByName cfg (run cfg st0 ops) n = some r) :
    getNameKeyPrefix cfg r.name = getNameKeyPrefix cfg n := by
  obtain ⟨k, hk, hg⟩ := getRecordByName_some cfg h
  rw [hk]; exact records_keyed_by_own_name cfg hg0 ops k r hg

/-- The exported bindings are a third listing of the names, and it agrees with by-name resolution:
after every genesis + history `ExportGenesis` lists a binding exactly when that binding's own name
resolves to this very record (name, address and restriction). -/
theorem export_agrees_with_resolve {gs : List Record} {st0 : State κ}
    (hg0 : initGenesis cfg {} gs = .ok st0) (ops : List Op) (r : Record) :
    r ∈ exportGenesis (run cfg st0 ops) ↔ getRecordByName cfg (run cfg st0 ops) r.name = some r := by
  have hI := inv_reachable cfg hg0 ops
  constructor
  · intro h
    unfold exportGenesis allRecords at h
    obtain ⟨⟨k, r'⟩, hm, rfl⟩ := List.mem_map.mp h
    have hget := (mem_iff_get hI.recsNodup k r').mp hm
    unfold getRecordByName
    rw [hI.keyed k r' hget]; exact hget
  · intro h
    obtain ⟨k, _, hget⟩ := getRecordByName_some cfg h
    unfold exportGenesis allRecords
    exact List.mem_map.mpr ⟨(k, r), KV.get_some_mem hget, rfl⟩

/-- A record outlives every history in which neither its owner (under any spelling of his
address) nor governance signs anything.  (The hash does not collide on the finitely many names
involved: those stored at the start and those the messages of the history mention.) -/
theorem record_persists_without_owner_or_gov
    (hC : ∀ a, cfg.canon (cfg.canon a) = cfg.canon a) {k : κ} {e : Record}
    (ops : List Op) : ∀ {st : State κ}, NoHashCollision cfg (storedNames st ++ ops.flatMap Op.names) →
      Inv cfg st → CanonStored cfg st → get st.recs k = some e →
      (∀ op ∈ ops, cfg.canon op.signer ≠ e.addr ∧ op.signer ≠ cfg.authority) →
      get (run cfg st ops).recs k = some e := by
  induction ops with
  | nil => intro st _ _ _ hg _; exact hg
  | cons op ops ih =>
    intro st hH hI hS hg hs
    have hop := hs op (by simp)
    have hH1 := noHashCollision_head cfg op ops hH
    refine ih (noHashCollision_apply cfg hI op ops hH) (inv_apply cfg hI op)
      (canonStored_apply cfg hC hS op) ?_
      (fun o ho => hs o (List.mem_cons_of_mem _ ho))
    unfold apply
    split
    · rename_i st' hstep
      by_cases hch : get st'.recs k = some e
      · exact hch
      · rcases existing_record_changed_only_by_owner_or_gov cfg hH1 hI hS hstep hg hch with h1 | h2
        · exact absurd h1 hop.1
        · exact absurd h2 hop.2
    · exact hg

/-! ### validation: what `Keeper.Normalize` accepts -/

omit [DecidableEq κ] in
/-- A name `Keeper.Normalize` accepts is the trimmed, lower-cased input; all its segments are valid
segments, at least `minSeg` bytes long and at most `maxSeg` unless they are UUIDs, and there are
at most `maxLevels` of them. -/
theorem normalize_within_limits {name n : Bytes} (h : normalize cfg name = .ok n) :
    n = normalizeName name ∧ validateName n = true ∧
      (∀ seg ∈ splitDot n, cfg.minSeg ≤ seg.length ∧ (seg.length ≤ cfg.maxSeg ∨ isValidUUID seg = true)) ∧
      (splitDot n).length ≤ cfg.maxLevels := by
  have hn := normalize_eq_normalizeName cfg h
  subst hn
  unfold normalize at h
  simp only at h
  split at h
  · cases h
  · rename_i hv
    split at h
    · cases h
    · rename_i hnone
      split at h
      · cases h
      · rename_i hlev
        refine ⟨rfl, by simpa using hv, ?_, Nat.le_of_not_lt hlev⟩
        intro seg hseg
        have := (List.findSome?_eq_none_iff.mp hnone) seg hseg
        by_cases h1 : seg.length < cfg.minSeg
        · simp [h1] at this
        · by_cases h2 : seg.length > cfg.maxSeg
          · cases hu : isValidUUID seg with
            | true => exact ⟨Nat.le_of_not_lt h1, Or.inr rfl⟩
            | false => simp [h1, h2, hu] at this
          · exact ⟨Nat.le_of_not_lt h1, Or.inl (Nat.le_of_not_lt h2)⟩

omit [DecidableEq κ] in
/-- `Keeper.Normalize` is idempotent: its output is accepted unchanged. -/
theorem normalize_idempotent {name n : Bytes} (h : normalize cfg name = .ok n) : IsNormalized cfg n :=
  normalize_idem cfg h

/-! ### the key derivation -/

/-- lists of lists with the same length profile and the same concatenation are equal -/
theorem flatten_inj_of_lengths {α : Type} : ∀ (l1 l2 : List (List α)),
    l1.map List.length = l2.map List.length → l1.flatten = l2.flatten → l1 = l2
  | [], [], _, _ => rfl
  | [], _ :: _, h, _ => by simp at h
  | _ :: _, [], h, _ => by simp at h
  | x :: xs, y :: ys, hl, hf => by
    simp only [List.map_cons, List.cons.injEq] at hl
    simp only [List.flatten_cons] at hf
    obtain ⟨h1, h2⟩ := List.append_inj hf hl.1
    rw [h1, flatten_inj_of_lengths xs ys hl.2 h2]

omit [DecidableEq κ] in
/-- The exact collision condition: if the hash does not collide on the pre-images of these two
names, they share a store key iff their reversed segments concatenate to the same byte string. -/
theorem key_collision_iff_resegmentation {n1 n2 p1 p2 : Bytes} (hH : NoHashCollision cfg [n1, n2])
    (h1 : preimage n1 = .ok p1) (h2 : preimage n2 = .ok p2) :
    getNameKeyPrefix cfg n1 = getNameKeyPrefix cfg n2 ↔
      (segments n1).reverse.flatten = (segments n2).reverse.flatten := by
  have e1 : p1 = (segments n1).reverse.flatten := by
    rw [preimage_eq] at h1; split at h1
    · cases h1
    · cases h1; rfl
  have e2 : p2 = (segments n2).reverse.flatten := by
    rw [preimage_eq] at h2; split at h2
    · cases h2
    · cases h2; rfl
  simp only [getNameKeyPrefix, h1, h2, Except.map, ← e1, ← e2]
  constructor
  · intro h; exact hH.eq cfg (by simp) (by simp) h1 h2 (by injection h)
  · intro h; rw [h]

omit [DecidableEq κ] in
/-- PARTIAL (full statement, "different valid names have different keys", is false —
`key_collision`): names with the same segment-length profile and the same key have the same
segments, if the hash does not collide on the pre-images of these two names. -/
theorem key_injective_partial {n1 n2 : Bytes} (hH : NoHashCollision cfg [n1, n2]) {k : κ}
    (h1 : getNameKeyPrefix cfg n1 = .ok k) (h2 : getNameKeyPrefix cfg n2 = .ok k)
    (hp : profile n1 = profile n2) : segments n1 = segments n2 := by
  unfold getNameKeyPrefix at h1 h2
  cases hp1 : preimage n1 with
  | error e => rw [hp1] at h1; cases h1
  | ok p1 =>
    cases hp2 : preimage n2 with
    | error e => rw [hp2] at h2; cases h2
    | ok p2 =>
      have hk : getNameKeyPrefix cfg n1 = getNameKeyPrefix cfg n2 := by
        unfold getNameKeyPrefix; rw [h1, h2]
      have hflat := (key_collision_iff_resegmentation cfg hH hp1 hp2).mp hk
      have hrev : (segments n1).reverse = (segments n2).reverse := by
        apply flatten_inj_of_lengths _ _ _ hflat
        simp only [List.map_reverse]
        exact congrArg List.reverse hp
      simpa using congrArg List.reverse hrev

omit [DecidableEq κ] in
theorem segments_of_normalized {n : Bytes} (hn : IsNormalized cfg n) : segments n = splitDot n := by
  have e : n = normalizeName n := normalize_eq_normalizeName cfg hn
  have hs : splitDot n = (splitDot n).map normSeg := by
    conv => lhs; rw [e]
    exact splitDot_normalizeName n
  unfold segments
  conv => lhs; rw [hs]
  rw [List.map_map]
  conv => rhs; rw [hs]
  apply List.map_congr_left
  intro seg _
  exact trimSpace_normSeg seg

omit [DecidableEq κ] in
/-- PARTIAL, on names as strings: two valid normalized names (accepted unchanged by
`Keeper.Normalize`) with the same segment-length profile and the same store key are the same
name, if the hash does not collide on the pre-images of these two names. -/
theorem key_injective_normalized_partial {n1 n2 : Bytes} (hH : NoHashCollision cfg [n1, n2]) {k : κ}
    (hn1 : IsNormalized cfg n1) (hn2 : IsNormalized cfg n2)
    (h1 : getNameKeyPrefix cfg n1 = .ok k) (h2 : getNameKeyPrefix cfg n2 = .ok k)
    (hp : profile n1 = profile n2) : n1 = n2 := by
  have hs := key_injective_partial cfg hH h1 h2 hp
  rw [segments_of_normalized cfg hn1, segments_of_normalized cfg hn2] at hs
  rw [← joinDot_splitDot n1, ← joinDot_splitDot n2, hs]

/-- PARTIAL (unambiguous resolution holds between names of equal profile): after every history,
if a valid normalized name resolves to a record whose name has the same segment-length profile,
that record carries this very name.  (No hash collision among the queried name and the stored
names.) -/
theorem resolution_unambiguous_partial {gs : List Record}
    {st0 : State κ} (hg0 : initGenesis cfg {} gs = .ok st0) (ops : List Op) {n : Bytes}
    (hH : NoHashCollision cfg (n :: storedNames (run cfg st0 ops)))
    {r : Record} (hn : IsNormalized cfg n) (h : getRecordByName cfg (run cfg st0 ops) n = some r)
    (hp : profile r.name = profile n) : ResolvesOwn n r := by
  obtain ⟨k, hk, hg⟩ := getRecordByName_some cfg h
  have hH2 : NoHashCollision cfg [r.name, n] := hH.mono cfg (by
    intro x hx
    rcases List.mem_cons.mp hx with rfl | hx
    · exact List.mem_cons_of_mem _ (mem_storedNames_of_get hg)
    · rw [List.mem_singleton.mp hx]; exact List.mem_cons_self)
  exact key_injective_normalized_partial cfg hH2 (stored_names_normalized cfg hg0 ops k r hg) hn
    (records_keyed_by_own_name cfg hg0 ops k r hg) hk hp

/-! ### every valid name has a key; stored names are pairwise distinct -/

omit [DecidableEq κ] in
/-- A name `Keeper.Normalize` accepts unchanged has a store key (`GetNameKeyPrefix` succeeds on
it; its pre-image is the reversed concatenation of its segments) — provided the configured minimum
segment length is at least 1.  (With `minSeg = 0` the statement is false: `valid_name_without_key`.) -/
theorem normalized_name_has_key (hmin : 1 ≤ cfg.minSeg) {n : Bytes} (hn : IsNormalized cfg n) :
    preimage n = .ok (splitDot n).reverse.flatten ∧
      getNameKeyPrefix cfg n = .ok (cfg.H (splitDot n).reverse.flatten) := by
  have hseg := segments_of_normalized cfg hn
  have hlim := (normalize_within_limits cfg hn).2.2.1
  have hp : preimage n = .ok (splitDot n).reverse.flatten := by
    rw [preimage_eq]
    have hs : (splitDot n).map trimSpace = splitDot n := hseg
    rw [hs, if_neg]
    simp only [List.any_eq_true, List.isEmpty_iff, not_exists, not_and]
    intro seg hm he
    have := (hlim seg hm).1
    rw [he] at this; simp at this; omega
  exact ⟨hp, by simp [getNameKeyPrefix, hp, Except.map]⟩

omit [DecidableEq κ] in
/-- NEGATION for `minSeg = 0` (a parameter value `Params` does not exclude): the empty name and
`a..b`-style names with an empty segment pass `Keeper.Normalize` but `GetNameKeyPrefix` refuses
them — such a name can never be bound (no harm: `SetNameRecord` returns the key error). -/
theorem valid_name_without_key (cfg : Cfg κ) (h0 : cfg.minSeg = 0) (hl : 1 ≤ cfg.maxLevels) :
    IsNormalized cfg [] ∧ getNameKeyPrefix cfg [] = .error .nameInvalid := by
  have l1 : ¬ 1 > cfg.maxLevels := by omega
  constructor
  · have e : normalizeName [] = [] := by decide
    have v : validateName [] = true := by decide
    have s : splitDot [] = [[]] := by decide
    simp [IsNormalized, normalize, e, v, s, h0, l1]
  · rfl

/-- The names of the stored records are pairwise distinct (no name is stored twice) — after every
genesis import and every history. -/
theorem stored_names_distinct {gs : List Record} {st0 : State κ}
    (hg : initGenesis cfg {} gs = .ok st0) (ops : List Op) :
    (storedNames (run cfg st0 ops)).Nodup := by
  have hI := inv_reachable cfg hg ops
  have hrecs : (run cfg st0 ops).recs.Nodup := List.Nodup.of_map _ hI.recsNodup
  unfold storedNames allRecords
  rw [List.map_map]
  refine List.Nodup.map_on ?_ hrecs
  rintro ⟨k1, r1⟩ h1 ⟨k2, r2⟩ h2 (heq : r1.name = r2.name)
  have g1 := (mem_iff_get hI.recsNodup k1 r1).mp h1
  have g2 := (mem_iff_get hI.recsNodup k2 r2).mp h2
  have e1 := hI.keyed k1 r1 g1
  have e2 := hI.keyed k2 r2 g2
  rw [heq, e2] at e1
  cases e1
  rw [g1] at g2; cases g2; rfl

/-! ### names, not store entries: owning one name confers no authority over another -/

omit [DecidableEq κ] in
/-- names whose reversed segments concatenate to different byte strings have different keys, if
the hash does not collide on these two pre-images -/
theorem keys_ne_of_diff {t n : Bytes} (hH : NoHashCollision cfg [t, n]) {kt kn : κ}
    (ht : getNameKeyPrefix cfg t = .ok kt) (hn : getNameKeyPrefix cfg n = .ok kn)
    (hdiff : (segments t).reverse.flatten ≠ (segments n).reverse.flatten) : kt ≠ kn := by
  intro e
  subst e
  cases hp1 : preimage t with
  | error e => simp [getNameKeyPrefix, hp1, Except.map] at ht
  | ok p1 =>
    cases hp2 : preimage n with
    | error e => simp [getNameKeyPrefix, hp2, Except.map] at hn
    | ok p2 =>
      exact hdiff ((key_collision_iff_resegmentation cfg hH hp1 hp2).mp (by rw [ht, hn]))

/-- FRAME, on names: a message none of whose target names is a re-segmentation of `n` (same
reversed concatenation = the key collision of `key_collision`) leaves what `n` resolves to exactly
as it was — whoever signs it, whatever it does to its own targets.  (Any state; the hash does not
collide on `n` and the targets.) -/
theorem message_about_other_names_leaves_name {st st' : State κ} {op : Op} {n : Bytes}
    (hH : NoHashCollision cfg (n :: op.targets)) (h : step cfg st op = .ok st')
    (hdiff : ∀ t ∈ op.targets, (segments t).reverse.flatten ≠ (segments n).reverse.flatten) :
    getRecordByName cfg st' n = getRecordByName cfg st n := by
  cases hkn : getNameKeyPrefix cfg n with
  | error e => simp [getRecordByName, hkn]
  | ok kn =>
    rw [getRecordByName_eq cfg hkn, getRecordByName_eq cfg hkn]
    have hne : ∀ t ∈ op.targets, ∀ kt, getNameKeyPrefix cfg t = .ok kt → kn ≠ kt := by
      intro t ht kt hkt e
      refine keys_ne_of_diff cfg (hH.mono cfg ?_) hkt hkn (hdiff t ht) e.symm
      intro x hx
      rcases List.mem_cons.mp hx with rfl | hx
      · exact List.mem_cons_of_mem _ ht
      · rw [List.mem_singleton.mp hx]; exact List.mem_cons_self
    cases op with
    | root a nn o r =>
      obtain ⟨hkeep, hnew⟩ := root_effect cfg h
      cases hg : get st.recs kn with
      | some e => exact hkeep kn e hg
      | none =>
        cases hg' : get st'.recs kn with
        | none => rfl
        | some r' =>
          rcases hnew kn r' hg' with h1 | ⟨-, t, ht, -, hkt, -⟩
          · rw [hg] at h1; cases h1
          · exact absurd rfl (hne t ht kn hkt)
    | bind pn pa rn ra r =>
      obtain ⟨name, k0, hnm, hk0, -, -, hframe⟩ := bind_effect cfg h
      exact hframe kn (hne name (by simp [Op.targets, normalize_eq_normalizeName cfg hnm]) k0 hk0)
    | modify a nn ad r =>
      obtain ⟨name, k0, hnm, hk0, -, hframe⟩ := modify_effect cfg h
      exact hframe kn (hne name (by simp [Op.targets, normalize_eq_normalizeName cfg hnm]) k0 hk0)
    | delete nn a =>
      obtain ⟨name, k0, hnm, hk0, -, hframe⟩ := delete_effect cfg h
      exact hframe kn (hne name (by simp [Op.targets, normalize_eq_normalizeName cfg hnm]) k0 hk0)

/-- the same over every history: messages about other names (no target a re-segmentation of `n`)
never change what `n` resolves to, whoever signs them -/
theorem messages_about_other_names_leave_name {n : Bytes} (ops : List Op) : ∀ {st : State κ},
    NoHashCollision cfg (n :: ops.flatMap Op.targets) →
    (∀ op ∈ ops, ∀ t ∈ op.targets, (segments t).reverse.flatten ≠ (segments n).reverse.flatten) →
    getRecordByName cfg (run cfg st ops) n = getRecordByName cfg st n := by
  induction ops with
  | nil => intro st _ _; rfl
  | cons op ops ih =>
    intro st hH hd
    have hH' : NoHashCollision cfg (n :: ops.flatMap Op.targets) := hH.mono cfg (by
      intro x hx
      rcases List.mem_cons.mp hx with rfl | hx
      · exact List.mem_cons_self
      · exact List.mem_cons_of_mem _ (by simp [List.flatMap_cons, hx]))
    show getRecordByName cfg (run cfg (apply cfg st op) ops) n = _
    rw [ih hH' (fun o ho => hd o (List.mem_cons_of_mem _ ho))]
    unfold apply
    split
    · rename_i st' hstep
      refine message_about_other_names_leaves_name cfg (hH.mono cfg ?_) hstep (hd op (by simp))
      intro x hx
      rcases List.mem_cons.mp hx with rfl | hx
      · exact List.mem_cons_self
      · exact List.mem_cons_of_mem _ (by simp [List.flatMap_cons, hx])
    · rfl

/-- AUTHORITY, on names: what a name resolves to — owner, restriction, stored name — survives
every history in which neither the owner of that record (under any spelling of his address) nor
governance signs anything; whatever names the other signers own and whatever they do with them. -/
theorem name_changed_only_by_its_owner_or_gov
    (hC : ∀ a, cfg.canon (cfg.canon a) = cfg.canon a) {st : State κ} {n : Bytes} {e : Record}
    (ops : List Op) (hH : NoHashCollision cfg (storedNames st ++ ops.flatMap Op.names))
    (hI : Inv cfg st) (hS : CanonStored cfg st) (hn : getRecordByName cfg st n = some e)
    (hs : ∀ op ∈ ops, cfg.canon op.signer ≠ e.addr ∧ op.signer ≠ cfg.authority) :
    getRecordByName cfg (run cfg st ops) n = some e := by
  obtain ⟨k, hk, hg⟩ := getRecordByName_some cfg hn
  rw [getRecordByName_eq cfg hk]
  exact record_persists_without_owner_or_gov cfg hC ops hH hI hS hg hs

/-- "Two different valid names never resolve to the same record, so owning one name never confers
authority over another", as far as it is true: let `n1`, `n2` resolve (to `e1`, `e2`), let their
reversed segments concatenate to DIFFERENT byte strings (they are not the two sides of a key
collision), and let the owner of `n1` be neither the owner of `n2` nor governance.  Then `n1` and
`n2` are different store entries, and after every history signed — every message of it — by the
owner of `n1` (any spelling of his address; any messages: on `n1`, on `n2`, on anything), `n2`
still resolves to the very record `e2`.  (Without the hypothesis on the concatenations the two
names are one store entry and the owner of `n1` owns `n2`: `collision_confers_authority`.) -/
theorem owning_one_name_confers_no_authority_over_another
    (hC : ∀ a, cfg.canon (cfg.canon a) = cfg.canon a) {st : State κ} {n1 n2 : Bytes}
    {e1 e2 : Record} (ops : List Op)
    (hH : NoHashCollision cfg (n1 :: n2 :: (storedNames st ++ ops.flatMap Op.names)))
    (hI : Inv cfg st) (hS : CanonStored cfg st)
    (h1 : getRecordByName cfg st n1 = some e1) (h2 : getRecordByName cfg st n2 = some e2)
    (hdiff : (segments n1).reverse.flatten ≠ (segments n2).reverse.flatten)
    (hown : e1.addr ≠ e2.addr)
    (hs : ∀ op ∈ ops, cfg.canon op.signer = e1.addr ∧ op.signer ≠ cfg.authority) :
    getNameKeyPrefix cfg n1 ≠ getNameKeyPrefix cfg n2 ∧
      getRecordByName cfg (run cfg st ops) n2 = some e2 := by
  constructor
  · obtain ⟨k1, hk1, -⟩ := getRecordByName_some cfg h1
    obtain ⟨k2, hk2, -⟩ := getRecordByName_some cfg h2
    rw [hk1, hk2]
    intro e
    refine keys_ne_of_diff cfg (hH.mono cfg ?_) hk1 hk2 hdiff (by injection e)
    intro x hx
    rcases List.mem_cons.mp hx with rfl | hx
    · exact List.mem_cons_self
    · rw [List.mem_singleton.mp hx]; exact List.mem_cons_of_mem _ List.mem_cons_self
  · refine name_changed_only_by_its_owner_or_gov cfg hC ops (hH.mono cfg ?_) hI hS h2 ?_
    · intro x hx; exact List.mem_cons_of_mem _ (List.mem_cons_of_mem _ hx)
    · intro op hop
      obtain ⟨ha, hg⟩ := hs op hop
      exact ⟨by rw [ha]; exact hown, hg⟩

/-! ### the collision (negation witness) -/

def abcde : Bytes := [97, 98, 99, 46, 100, 101]   -- "abc.de"
def bcdea : Bytes := [98, 99, 46, 100, 101, 97]   -- "bc.dea"

omit [DecidableEq κ] in
/-- NEGATION of "two different valid names never resolve to the same record": under the default
limits (min 2, max 32, 16 levels) `abc.de` and `bc.dea` are two different names that
`Keeper.Normalize` accepts unchanged, and whatever the hash function is they get the same store
key — both pre-images are the bytes of "deabc". -/
theorem key_collision (cfg : Cfg κ) (h2 : cfg.minSeg = 2) (h32 : cfg.maxSeg = 32)
    (h16 : cfg.maxLevels = 16) :
    IsNormalized cfg abcde ∧ IsNormalized cfg bcdea ∧ abcde ≠ bcdea ∧
      preimage abcde = .ok [100, 101, 97, 98, 99] ∧ preimage bcdea = .ok [100, 101, 97, 98, 99] ∧
      getNameKeyPrefix cfg abcde = getNameKeyPrefix cfg bcdea := by
  have p1 : preimage abcde = .ok [100, 101, 97, 98, 99] := by decide
  have p2 : preimage bcdea = .ok [100, 101, 97, 98, 99] := by decide
  refine ⟨?_, ?_, by decide, p1, p2, by simp [getNameKeyPrefix, p1, p2]⟩
  · have e : normalizeName abcde = abcde := by decide
    have v : validateName abcde = true := by decide
    have s : splitDot abcde = [[97, 98, 99], [100, 101]] := by decide
    simp [IsNormalized, normalize, e, v, s, h2, h32, h16]
  · have e : normalizeName bcdea = bcdea := by decide
    have v : validateName bcdea = true := by decide
    have s : splitDot bcdea = [[98, 99], [100, 101, 97]] := by decide
    simp [IsNormalized, normalize, e, v, s, h2, h32, h16]

/-! ### the collision for every configured limit -/

/-- a segment of lower-case letters only -/
def Plain (s : Bytes) : Prop := ∀ c ∈ s, isLower c = true

set_option maxRecDepth 4000 in
theorem plain_facts : ∀ c : UInt8, isLower c = true →
    c ≠ dot ∧ isSpace c = false ∧ isUpper c = false ∧ c ≠ dash := u8_forall (by decide)

theorem plain_normSeg {s : Bytes} (h : Plain s) : normSeg s = s := by
  have hsp : ∀ c ∈ s, isSpace c = false := fun c hc => (plain_facts c (h c hc)).2.1
  have ht : trimSpace s = s := by
    rw [trimSpace_eq]
    have h1 : s.dropWhile isSpace = s := by
      cases s with
      | nil => rfl
      | cons c cs => simp [List.dropWhile, hsp c (by simp)]
    rw [h1, List.rdropWhile_eq_self_iff]
    intro hl
    simp [hsp _ (List.getLast_mem hl)]
  unfold normSeg
  rw [ht]
  exact map_toLower_of_noUpper (fun c hc => (plain_facts c (h c hc)).2.2.1)

theorem plain_dotfree {s : Bytes} (h : Plain s) : dot ∉ s :=
  fun hm => (plain_facts dot (h dot hm)).1 rfl

theorem plain_valid {s : Bytes} (h : Plain s) : validateNameSegment s = true := by
  have hc : s.count dash = 0 := List.count_eq_zero.mpr fun hm => (plain_facts dash (h dash hm)).2.2.2 rfl
  have ha : (s.all fun c => c == dash || isLower c || isDigit c) = true :=
    List.all_eq_true.mpr fun c hc => by simp [h c hc]
  simp [validateNameSegment, hc, ha]

theorem splitDot_two {s1 s2 : Bytes} (h1 : Plain s1) (h2 : Plain s2) :
    splitDot (s1 ++ dot :: s2) = [s1, s2] := by
  have := splitDot_append_dotfree s1 (plain_dotfree h1) (dot :: s2) [] (splitDot s2) (splitDot_cons_dot s2)
  rw [splitDot_dotfree_eq (plain_dotfree h2)] at this
  simpa using this

omit [DecidableEq κ] in
/-- a name of two lower-case segments whose lengths are within the limits is a valid normalized name -/
theorem isNormalized_two {s1 s2 : Bytes} (h1 : Plain s1) (h2 : Plain s2)
    (l1 : cfg.minSeg ≤ s1.length ∧ s1.length ≤ cfg.maxSeg)
    (l2 : cfg.minSeg ≤ s2.length ∧ s2.length ≤ cfg.maxSeg) (hl : 2 ≤ cfg.maxLevels) :
    IsNormalized cfg (s1 ++ dot :: s2) := by
  have hn : normalizeName (s1 ++ dot :: s2) = s1 ++ dot :: s2 := by
    rw [normalizeName_eq, splitDot_two h1 h2]
    simp [plain_normSeg h1, plain_normSeg h2, joinDot]
  have hv : validateName (s1 ++ dot :: s2) = true := by
    simp [validateName, splitDot_two h1 h2, plain_valid h1, plain_valid h2]
  have e1 : ¬ s1.length < cfg.minSeg := by omega
  have e2 : ¬ s2.length < cfg.minSeg := by omega
  have e3 : ¬ s1.length > cfg.maxSeg := by omega
  have e4 : ¬ s2.length > cfg.maxSeg := by omega
  have e5 : ¬ 2 > cfg.maxLevels := by omega
  simp [IsNormalized, normalize, hn, hv, splitDot_two h1 h2, List.findSome?, e1, e2, e3, e4, e5]

theorem preimage_two {s1 s2 : Bytes} (h1 : Plain s1) (h2 : Plain s2) (n1 : s1 ≠ []) (n2 : s2 ≠ []) :
    preimage (s1 ++ dot :: s2) = .ok (s2 ++ s1) := by
  have t1 : trimSpace s1 = s1 := by have := trimSpace_normSeg s1; rwa [plain_normSeg h1] at this
  have t2 : trimSpace s2 = s2 := by have := trimSpace_normSeg s2; rwa [plain_normSeg h2] at this
  rw [preimage_eq, splitDot_two h1 h2]
  simp [t1, t2, n1, n2]

def aaa (k : Nat) : Bytes := List.replicate k 97
def bbb (k : Nat) : Bytes := List.replicate k 98
/-- `a…a.b…b` with `m+1` a's and `m` b's — `aaa.bb` for `m = 2` -/
def collA (m : Nat) : Bytes := aaa (m + 1) ++ dot :: bbb m
/-- `a…a.b…ba` with `m` a's, then `m` b's and one a — `aa.bba` for `m = 2` -/
def collB (m : Nat) : Bytes := aaa m ++ dot :: (bbb m ++ [97])

theorem plain_aaa (k : Nat) : Plain (aaa k) := by
  intro c hc; rw [List.eq_of_mem_replicate hc]; decide
theorem plain_bbb (k : Nat) : Plain (bbb k) := by
  intro c hc; rw [List.eq_of_mem_replicate hc]; decide
theorem plain_bbba (k : Nat) : Plain (bbb k ++ [97]) := by
  intro c hc
  rcases List.mem_append.mp hc with h | h
  · exact plain_bbb k c h
  · rw [List.mem_singleton.mp h]; decide

omit [DecidableEq κ] in
/-- NEGATION of "two different valid names never resolve to the same record" FOR EVERY CONFIGURED
LIMIT that admits two levels and two different segment lengths: whenever `maxLevels ≥ 2` and some
length `m ≥ 1` has `minSeg ≤ m` and `m + 1 ≤ maxSeg` (i.e. `max 1 minSeg < maxSeg`), the names
`a^(m+1).b^m` and `a^m.b^m a` are two different names `Keeper.Normalize` accepts unchanged, both
have a key, and — whatever the hash function — the same one (both pre-images are `b^m a^(m+1)`).
`key_collision` is the instance of this pattern at the default limits. -/
theorem key_collision_family (cfg : Cfg κ) (m : Nat) (hm : 1 ≤ m) (hmin : cfg.minSeg ≤ m)
    (hmax : m + 1 ≤ cfg.maxSeg) (hlev : 2 ≤ cfg.maxLevels) :
    IsNormalized cfg (collA m) ∧ IsNormalized cfg (collB m) ∧ collA m ≠ collB m ∧
      preimage (collA m) = .ok (bbb m ++ aaa (m + 1)) ∧
      preimage (collB m) = .ok (bbb m ++ aaa (m + 1)) ∧
      getNameKeyPrefix cfg (collA m) = getNameKeyPrefix cfg (collB m) := by
  have la : (aaa (m + 1)).length = m + 1 := by simp [aaa]
  have la' : (aaa m).length = m := by simp [aaa]
  have lb : (bbb m).length = m := by simp [bbb]
  have lb' : (bbb m ++ [97]).length = m + 1 := by simp [bbb]
  have p1 : preimage (collA m) = .ok (bbb m ++ aaa (m + 1)) :=
    preimage_two (plain_aaa _) (plain_bbb _) (by intro h; rw [h] at la; simp at la)
      (by intro h; rw [h] at lb; simp at lb; omega)
  have p2 : preimage (collB m) = .ok (bbb m ++ aaa (m + 1)) := by
    have := preimage_two (plain_aaa m) (plain_bbba m) (by intro h; rw [h] at la'; simp at la'; omega)
      (by simp)
    rw [collB, this]
    simp [aaa, List.replicate_succ]
  refine ⟨isNormalized_two cfg (plain_aaa _) (plain_bbb _) (by omega) (by omega) hlev,
    isNormalized_two cfg (plain_aaa _) (plain_bbba _) (by omega) (by omega) hlev, ?_, p1, p2,
    by simp [getNameKeyPrefix, p1, p2]⟩
  intro h
  have := congrArg (fun n => (splitDot n).map List.length) h
  simp only [collA, collB, splitDot_two (plain_aaa _) (plain_bbb _),
    splitDot_two (plain_aaa _) (plain_bbba _), List.map_cons, la, la', List.map_nil] at this
  simp at this

/-- the family is not empty at the default limits (m = 2 … 31), at the smallest limits that admit
it (min 1, max 2, 2 levels), and for `minSeg = 0` -/
example : collA 2 = [97, 97, 97, 46, 98, 98] ∧ collB 2 = [97, 97, 46, 98, 98, 97] := by decide
example (cfg : Cfg κ) (h1 : cfg.minSeg = 1) (h2 : cfg.maxSeg = 2) (h3 : cfg.maxLevels = 2) :
    getNameKeyPrefix cfg (collA 1) = getNameKeyPrefix cfg (collB 1) :=
  (key_collision_family cfg 1 (by omega) (by omega) (by omega) (by omega)).2.2.2.2.2

omit [DecidableEq κ] in
/-- … and where NO collision exists (1): with at most ONE level, valid normalized names with the
same key are the same name (if the hash does not collide on their two pre-images). -/
theorem no_key_collision_single_level (hlev : cfg.maxLevels ≤ 1) {n1 n2 : Bytes}
    (hH : NoHashCollision cfg [n1, n2]) (hn1 : IsNormalized cfg n1) (hn2 : IsNormalized cfg n2)
    {k : κ} (h1 : getNameKeyPrefix cfg n1 = .ok k) (h2 : getNameKeyPrefix cfg n2 = .ok k) :
    n1 = n2 := by
  refine key_injective_normalized_partial cfg hH hn1 hn2 h1 h2 ?_
  have one : ∀ n, IsNormalized cfg n → ∃ s, splitDot n = [s] := by
    intro n hn
    have hl := (normalize_within_limits cfg hn).2.2.2
    match hs : splitDot n with
    | [] => exact absurd hs (splitDot_ne_nil n)
    | [s] => exact ⟨s, rfl⟩
    | _ :: _ :: _ => rw [hs] at hl; simp at hl; omega
  obtain ⟨s1, e1⟩ := one n1 hn1
  obtain ⟨s2, e2⟩ := one n2 hn2
  -- one segment each: the pre-image is the segment itself
  have hs : segments n1 = segments n2 := by
    cases hp1 : preimage n1 with
    | error e => simp [getNameKeyPrefix, hp1, Except.map] at h1
    | ok p1 =>
      cases hp2 : preimage n2 with
      | error e => simp [getNameKeyPrefix, hp2, Except.map] at h2
      | ok p2 =>
        have := (key_collision_iff_resegmentation cfg hH hp1 hp2).mp (by rw [h1, h2])
        rw [segments_of_normalized cfg hn1, segments_of_normalized cfg hn2, e1, e2] at this ⊢
        simpa using this
  unfold profile; rw [hs]

omit [DecidableEq κ] in
/-- … (2): among names ALL of whose segments have one and the same length `ℓ ≥ 1` — in particular
when `minSeg = maxSeg` and no segment is a UUID (the only segments exempt from `maxSeg`) — valid
normalized names with the same key are the same name.  So a collision needs two levels AND
two different segment lengths; `key_collision_family` gives one whenever the limits admit that
with plain segments, `uuid_collision_fixed_length` one through the UUID exemption. -/
theorem no_key_collision_uniform_length {n1 n2 : Bytes} (hH : NoHashCollision cfg [n1, n2])
    (hn1 : IsNormalized cfg n1) (hn2 : IsNormalized cfg n2) {l : Nat} (hl : 1 ≤ l)
    (u1 : ∀ seg ∈ splitDot n1, seg.length = l) (u2 : ∀ seg ∈ splitDot n2, seg.length = l)
    {k : κ} (h1 : getNameKeyPrefix cfg n1 = .ok k) (h2 : getNameKeyPrefix cfg n2 = .ok k) :
    n1 = n2 := by
  refine key_injective_normalized_partial cfg hH hn1 hn2 h1 h2 ?_
  have prof : ∀ n, IsNormalized cfg n → (∀ seg ∈ splitDot n, seg.length = l) →
      profile n = List.replicate (splitDot n).length l ∧
      ((segments n).reverse.flatten).length = (splitDot n).length * l := by
    intro n hn hu
    have hp : profile n = List.replicate (splitDot n).length l := by
      unfold profile; rw [segments_of_normalized cfg hn]
      exact List.eq_replicate_iff.mpr ⟨by simp, by
        intro x hx; obtain ⟨seg, hseg, rfl⟩ := List.mem_map.mp hx; exact hu seg hseg⟩
    refine ⟨hp, ?_⟩
    rw [List.length_flatten, List.map_reverse]
    have : (segments n).map List.length = profile n := rfl
    rw [this, hp]; simp
  obtain ⟨p1, f1⟩ := prof n1 hn1 u1
  obtain ⟨p2, f2⟩ := prof n2 hn2 u2
  cases hp1 : preimage n1 with
  | error e => simp [getNameKeyPrefix, hp1, Except.map] at h1
  | ok q1 =>
    cases hp2 : preimage n2 with
    | error e => simp [getNameKeyPrefix, hp2, Except.map] at h2
    | ok q2 =>
      have hf := (key_collision_iff_resegmentation cfg hH hp1 hp2).mp (by rw [h1, h2])
      have hlen : (splitDot n1).length * l = (splitDot n2).length * l := by rw [← f1, ← f2, hf]
      have : (splitDot n1).length = (splitDot n2).length := Nat.eq_of_mul_eq_mul_right (by omega) hlen
      rw [p1, p2, this]

def hex32 : Bytes := List.replicate 32 97                                    -- 32 × "a": a UUID in its 32-hex form
def hex8x4 : Bytes := joinDot (List.replicate 8 (List.replicate 4 97))      -- "aaaa.aaaa.….aaaa", 8 levels

omit [DecidableEq κ] in
/-- … and `minSeg = maxSeg` does NOT exclude collisions: a segment that parses as a UUID is exempt
from `maxSeg` (keeper.go:277), and the 32-hex-digit form consists of valid segment characters.  With
`minSeg = maxSeg = 4` and 8 levels the one-segment name of 32 a's (a UUID) and the eight-level name
`aaaa.aaaa.….aaaa` are both accepted by `Keeper.Normalize` and share their key for every hash. -/
theorem uuid_collision_fixed_length (cfg : Cfg κ) (h4 : cfg.minSeg = 4) (h4' : cfg.maxSeg = 4)
    (hl : 8 ≤ cfg.maxLevels) :
    IsNormalized cfg hex32 ∧ IsNormalized cfg hex8x4 ∧ hex32 ≠ hex8x4 ∧
      getNameKeyPrefix cfg hex32 = getNameKeyPrefix cfg hex8x4 := by
  have p1 : preimage hex32 = .ok hex32 := by decide
  have p2 : preimage hex8x4 = .ok hex32 := by decide
  have l1 : ¬ 1 > cfg.maxLevels := by omega
  have l8 : ¬ 8 > cfg.maxLevels := by omega
  refine ⟨?_, ?_, by decide, by simp [getNameKeyPrefix, p1, p2]⟩
  · have e : normalizeName hex32 = hex32 := by decide
    have v : validateName hex32 = true := by decide
    have s : splitDot hex32 = [hex32] := by decide
    have u : isValidUUID hex32 = true := by decide
    have ln : hex32.length = 32 := by decide
    simp [IsNormalized, normalize, e, v, s, u, ln, h4, h4', l1]
  · have e : normalizeName hex8x4 = hex8x4 := by decide
    have v : validateName hex8x4 = true := by decide
    have s : splitDot hex8x4 = List.replicate 8 (List.replicate 4 97) := by decide
    simp [IsNormalized, normalize, e, v, s, h4, h4', l8]

/-- the two names have different segment-length profiles (so `key_injective_partial` does not apply) -/
example : profile abcde ≠ profile bcdea := by decide

/-- configuration of the witness history: the pre-image itself as key (`H := id`, injective) -/
def wcfg : Cfg Bytes :=
  { H := id, authority := "G", addrOk := fun _ => true, hasAccount := fun _ => true }

def de : Bytes := [100, 101]
def dea : Bytes := [100, 101, 97]
def abc : Bytes := [97, 98, 99]
def bc : Bytes := [98, 99]

/-- governance creates the open root `de` for A and the RESTRICTED root `dea` for B; A binds `abc.de` -/
def witnessState : State Bytes :=
  run wcfg {} [.root "G" de "A" false, .root "G" dea "B" true, .bind de "A" abc "A" false]

/-- CONSEQUENCE of the collision ("owning one name confers authority over another"), on a concrete
history with an injective key function: A owns `abc.de`, B owns the restricted root `dea`.
(1) A may not bind `bc` under B's restricted `dea`; (2) B himself cannot bind `bc.dea` either (the
key is taken); (3) `bc.dea` resolves to A's record `abc.de`; (4) A's `ModifyName bc.dea` succeeds,
after which the record is NAMED `bc.dea`, owned by A — a name under B's restricted root that B
never allowed — and `abc.de` resolves to that record too. -/
theorem collision_confers_authority :
    (step wcfg witnessState (.bind dea "A" bc "A" false)).toBool = false ∧
    (step wcfg witnessState (.bind dea "B" bc "B" false)).toBool = false ∧
    getRecordByName wcfg witnessState bcdea = some ⟨abcde, "A", false⟩ ∧
    getRecordByName wcfg witnessState dea = some ⟨dea, "B", true⟩ ∧
    (step wcfg witnessState (.modify "A" bcdea "A" false)).toOption.map
        (fun s => (getRecordByName wcfg s bcdea, getRecordByName wcfg s abcde)) =
      some (some ⟨bcdea, "A", false⟩, some ⟨bcdea, "A", false⟩) := by
  decide

/-! ### address spellings: genesis import and the ReverseLookup query -/

/-- configuration with two spellings per address: `A^` is the upper-case bech32 spelling of the
address whose canonical string is `A` (the symbols of the correspondence harness) -/
def scfg : Cfg Bytes :=
  { H := id, authority := "G", addrOk := fun a => a != "X", hasAccount := fun _ => true,
    canon := fun a => if a = "A^" then "A" else if a = "B^" then "B" else a }

def DE : Bytes := [68, 69]   -- "DE"

/-- a genesis file that spells the name of the root in upper case and its owner's address in the
upper-case bech32 form, and binds `abc.de` to B in canonical spelling -/
def spelledGenesis : List Record := [⟨DE, "A^", true⟩, ⟨abcde, "B", false⟩]

/-- the hypotheses of the genesis theorems are satisfiable with a non-canonical spelling, and the
import stores the canonical one: the root resolves to A, A's listing shows it, and A (under either
spelling) may bind under his restricted root while B may not -/
example : ∀ a, scfg.canon (scfg.canon a) = scfg.canon a := by
  intro a
  simp only [scfg]
  split_ifs <;> simp_all
example :
    (initGenesis scfg {} spelledGenesis).toOption.map (fun s =>
      (getRecordByName scfg s de, getRecordsByAddress s "A",
        (step scfg s (.bind de "A^" bc "B^" false)).toOption.map (fun s' => getRecordsByAddress s' "B"),
        (step scfg s (.bind de "B" bc "B" false)).toBool)) =
      some (some ⟨de, "A", true⟩, [⟨de, "A", true⟩],
        some [⟨bc ++ dot :: de, "B", false⟩, ⟨abcde, "B", false⟩], false) := by decide

/-- BEFORE THE REPAIR the `ReverseLookup` QUERY asked with a non-canonical spelling negated "the
by-address lookup lists exactly the names bound to each address": after the genesis import above
the root `de` is bound to A; asked about `A` the query listed it, asked about the same address
spelled `A^` (which `sdk.AccAddressFromBech32` accepts) it listed nothing, because it filtered
the index entries by comparing the stored address with the request string as written
(query_server.go:59). The repaired query lists it under both spellings. Finding
`C15-reverse-lookup-spelling` (fixed). -/
theorem reverse_lookup_spelling_before_fix :
    (initGenesis scfg {} spelledGenesis).toOption.map (fun s =>
      ((reverseLookupPreFix scfg s "A").toOption, (reverseLookupPreFix scfg s "A^").toOption,
        getRecordsByAddress s (scfg.canon "A^"))) =
      some (some [de], some [], [⟨de, "A", true⟩]) ∧
    (initGenesis scfg {} spelledGenesis).toOption.map (fun s =>
      ((reverseLookup scfg s "A").toOption, (reverseLookup scfg s "A^").toOption)) =
      some (some [de], some [de]) := by
  constructor <;> decide

/-! ### non-vacuity -/

/-- the hypotheses `NoHashCollision` and `Inv` are satisfiable — by a hash that is NOT injective:
`tcfg.H` keeps the first 8 bytes of the pre-image (a finite-codomain-style truncation). -/
def tcfg : Cfg Bytes :=
  { H := fun p => p.take 8, authority := "G", addrOk := fun _ => true, hasAccount := fun _ => true }
theorem trunc_not_injective : ¬ Function.Injective tcfg.H := by
  intro h
  have : ([1,2,3,4,5,6,7,8,9] : Bytes) = [1,2,3,4,5,6,7,8,10] := h (by decide)
  exact absurd this (by decide)
def tState : State Bytes :=
  run tcfg {} [.root "G" de "A" false, .root "G" dea "B" true, .bind de "A" abc "A" false]
example : NoHashCollision tcfg (de :: storedNames tState) := by decide
example : NoHashCollision tcfg ((Op.root "G" abcde "A" true).names ++ storedNames tState) := by decide
example : NoHashCollision tcfg ((Op.modify "A" abcde "C" true).names ++ storedNames tState) := by decide
example : NoHashCollision tcfg (storedNames tState ++
    [Op.modify "B" abcde "B" true, .delete abcde "B", .bind de "C" bc "C" false].flatMap Op.names) := by
  decide
example : NoHashCollision tcfg [abcde, bcdea] := by decide
example : Inv tcfg tState := inv_reachable tcfg (gs := []) rfl _
example : Inv wcfg witnessState := inv_reachable wcfg (gs := []) rfl _
/-- the hypotheses of `owning_one_name_confers_no_authority_over_another` /
`name_changed_only_by_its_owner_or_gov` / `messages_about_other_names_leave_name` hold on a concrete
state and history (with the non-injective hash): A owns `abc.de`, B the restricted root `dea`; A
modifies his own name, tries to modify and delete B's, and binds `bc.de` -/
def aOps : List Op :=
  [.modify "A" abcde "A" true, .modify "A" dea "A" false, .delete dea "A", .bind de "A" bc "A" false]
example : NoHashCollision tcfg (abcde :: dea :: (storedNames tState ++ aOps.flatMap Op.names)) := by
  decide
example : CanonStored tcfg tState := by intro k r h; rfl
example : getRecordByName tcfg tState abcde = some ⟨abcde, "A", false⟩ ∧
    getRecordByName tcfg tState dea = some ⟨dea, "B", true⟩ := by decide
example : (segments abcde).reverse.flatten ≠ (segments dea).reverse.flatten := by decide
example : ∀ op ∈ aOps, tcfg.canon op.signer = "A" ∧ op.signer ≠ tcfg.authority := by decide
/-- … and the history is no no-op: A's own name did change, a new name exists -/
example : getRecordByName tcfg (run tcfg tState aOps) abcde = some ⟨abcde, "A", true⟩ ∧
    (getRecordByName tcfg (run tcfg tState aOps) (bc ++ dot :: de)).isSome = true := by decide
example : NoHashCollision tcfg (dea :: [Op.modify "G" abcde "C" true, .delete abcde "C"].flatMap Op.targets) ∧
    ∀ op ∈ [Op.modify "G" abcde "C" true, .delete abcde "C"], ∀ t ∈ op.targets,
      (segments t).reverse.flatten ≠ (segments dea).reverse.flatten := by decide
/-- `root_binds_every_level` / `root_effect`: a root message that succeeds on `tState`, creating the
level `bc.de` under the existing `de`, with the collision hypothesis satisfied -/
example : NoHashCollision tcfg ((Op.root "G" (bc ++ dot :: de) "C" true).names ++ storedNames tState) ∧
    (step tcfg tState (.root "G" (bc ++ dot :: de) "C" true)).toBool = true ∧
    (Op.root "G" (bc ++ dot :: de) "C" true).targets = [bc ++ dot :: de, de] := by decide
/-- `normalized_name_has_key`, `no_key_collision_uniform_length` (ℓ = 2), `no_key_collision_single_level` -/
example : 1 ≤ wcfg.minSeg ∧ IsNormalized wcfg abcde :=
  ⟨by decide, (key_collision wcfg rfl rfl rfl).1⟩
example : IsNormalized wcfg (bc ++ dot :: de) ∧ ∀ seg ∈ splitDot (bc ++ dot :: de), seg.length = 2 :=
  ⟨isNormalized_two wcfg (by unfold Plain; decide) (by unfold Plain; decide) (by decide) (by decide)
    (by decide), by decide⟩
example : ({ wcfg with maxLevels := 1 } : Cfg Bytes).maxLevels ≤ 1 ∧
    IsNormalized ({ wcfg with maxLevels := 1 } : Cfg Bytes) de := by
  refine ⟨by decide, ?_⟩
  have e : normalizeName de = de := by decide
  have v : validateName de = true := by decide
  have s : splitDot de = [de] := by decide
  have ln : de.length = 2 := rfl
  simp [IsNormalized, normalize, e, v, s, ln, wcfg]
/-- the idealised hypothesis of the earlier statements implies the finite one -/
example (hH : Function.Injective cfg.H) (names : List Bytes) : NoHashCollision cfg names :=
  noHashCollision_of_injective cfg hH names

/-- each message kind succeeds on a concrete state (the `= .ok _` hypotheses are satisfiable) -/
example : (step wcfg {} (.root "G" de "A" false)).toBool = true := by decide
/-- a root name of several segments creates every level -/
example : (step wcfg {} (.root "G" abcde "A" true)).toOption.map
    (fun s => (getRecordByName wcfg s de, getRecordByName wcfg s abcde)) =
    some (some ⟨de, "A", true⟩, some ⟨abcde, "A", true⟩) := by decide
example : (step wcfg witnessState (.bind de "A" bc "C" true)).toBool = true := by decide
/-- a record name that itself has several segments is refused (it would reach below `abc.de`) -/
example : (step wcfg witnessState (.bind de "A" (bc ++ dot :: abc) "C" true)).toBool = false := by decide
example : (step wcfg witnessState (.modify "G" abcde "C" true)).toBool = true := by decide
example : (step wcfg witnessState (.modify "B" dea "C" false)).toBool = true := by decide
example : (step wcfg witnessState (.delete abcde "A")).toBool = true := by decide
/-- and strangers are refused -/
example : (step wcfg witnessState (.modify "C" abcde "C" true)).toBool = false := by decide
example : (step wcfg witnessState (.delete abcde "B")).toBool = false := by decide
example : (step wcfg witnessState (.delete abcde "G")).toBool = false := by decide
example : (step wcfg {} (.root "A" de "A" false)).toBool = false := by decide

end PvProofs.C15
