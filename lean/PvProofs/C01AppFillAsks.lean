/-
C01 — soundness of the keeper-level checker: an accepted `MsgFillAsks` in the abstract form `MoneyCtx`
(the named asks, each with its own ratio fee, plus the buyer as the virtual bid order the checker builds
from the dump).
-/
import PvProofs.C01AppMsgBase
import Mathlib.Tactic.Linarith
namespace PvProofs.C01
open PvModel PvModel.Settle PvModel.Coins PvModel.Ledger PvProofs.Settle

theorem fa_perm_sum {l₁ l₂ : List Int} (h : l₁.Perm l₂) : l₁.sum = l₂.sum := by
  induction h with
  | nil => rfl
  | cons x _ ih => simp only [List.sum_cons, ih]
  | swap x y l => simp only [List.sum_cons]; omega
  | trans _ _ ih1 ih2 => exact ih1.trans ih2

theorem fa_amountOf_nonneg {c : Coins} (h : ∀ x ∈ c, 0 ≤ x.2) (d : Denom) : 0 ≤ amountOf c d := by
  induction c with
  | nil => simp
  | cons x t ih =>
    obtain ⟨d', a⟩ := x
    have h1 : 0 ≤ a := h (d', a) (by simp)
    have h2 := ih (fun y hy => h y (by simp [hy]))
    simp only [amountOf_cons]
    split <;> omega

theorem fa_ratioCeil_nonneg {ratio : Option Ratio} (hr : SellerRatioOk ratio) {P : Int} (hP : 0 ≤ P) :
    0 ≤ ratioCeil ratio P := by
  unfold ratioCeil
  cases ratio with
  | none => simp
  | some r =>
    obtain ⟨_, hb, hf, _⟩ := hr r rfl
    exact isCeilDiv_nonneg hb (Int.mul_nonneg hP hf) (ceilDiv_isCeil _ hb)

theorem fa_forall₂_append_single {α β : Type} {R : α → β → Prop} {l₁ : List α} {l₂ : List β} {a : α} {b : β}
    (h : List.Forall₂ R l₁ l₂) (hab : R a b) : List.Forall₂ R (l₁ ++ [a]) (l₂ ++ [b]) := by
  induction h with
  | nil => exact .cons hab .nil
  | cons h1 _ ih => exact .cons h1 ih

/-- a relation between the elements of `l` and what `F` makes of the pairs of `l.zip r` -/
theorem fa_forall₂_zip_map {α β γ : Type} {R : α → γ → Prop} (F : α × β → γ) (l : List α) (r : List β)
    (hlen : r.length = l.length) (H : ∀ p ∈ l.zip r, R p.1 (F p)) :
    List.Forall₂ R l ((l.zip r).map F) := by
  induction l generalizing r with
  | nil => exact .nil
  | cons a t ih =>
    cases r with
    | nil => simp at hlen
    | cons b rs =>
      simp only [List.length_cons, Nat.add_right_cancel_iff] at hlen
      simp only [List.zip_cons_cons, List.map_cons]
      exact .cons (H (a, b) (by simp)) (ih rs hlen fun p hp => H p (by simp [hp]))

/-- the pairs of `l.zip r` are related when `l` and `r` are element-wise -/
theorem fa_forall₂_zip_mem {α β : Type} {R : α → β → Prop} {l : List α} {r : List β}
    (h : List.Forall₂ R l r) : ∀ p ∈ l.zip r, p.1 ∈ l ∧ R p.1 p.2 := by
  induction h with
  | nil => intro p hp; simp at hp
  | cons hab _ ih =>
    intro p hp
    simp only [List.zip_cons_cons, List.mem_cons] at hp
    rcases hp with rfl | hp
    · exact ⟨by simp, hab⟩
    · exact ⟨by simp [(ih p hp).1], (ih p hp).2⟩

theorem fa_sum_ite_sub {α : Type} (l : List α) (c : α → Prop) [DecidablePred c] (f g : α → Int) :
    (l.map fun a => if c a then f a - g a else 0).sum
      = (l.map fun a => if c a then f a else 0).sum - (l.map fun a => if c a then g a else 0).sum := by
  rw [← sum_map_sub]
  congr 1
  apply List.map_congr_left
  intro a _
  split <;> omega

/-- the stored orders named by `ids` are, up to their order, the orders `getOrders` fetched -/
theorem fa_filter_perm {s : KState} {ids : List Nat} {buyer : Addr} {orders : List Order}
    (hI : (s.orders.map (·.id)).Nodup) (hg : s.getOrders true ids buyer = .ok orders)
    (hnd : (orders.map (·.id)).Nodup) :
    (s.orders.filter (fun o => ids.contains o.id)).Perm orders := by
  have hmem := getOrders_mem hg
  have hidl := getOrders_ids hg
  have n1 : s.orders.Nodup := List.Pairwise.of_map _ (fun a b hab e => hab (by rw [e])) hI
  have n2 : orders.Nodup := List.Pairwise.of_map _ (fun a b hab e => hab (by rw [e])) hnd
  rw [List.perm_ext_iff_of_nodup (n1.filter _) n2]
  intro a
  simp only [List.mem_filter, List.contains_eq_mem, decide_eq_true_eq]
  constructor
  · rintro ⟨ha, hid⟩
    rw [← hidl, List.mem_map] at hid
    obtain ⟨b, hb, hbid⟩ := hid
    have : b = a := eq_of_mem_same_key (·.id) hI (hmem b hb).1 ha hbid
    exact this ▸ hb
  · intro ha
    refine ⟨(hmem a ha).1, ?_⟩
    rw [← hidl]
    exact List.mem_map.mpr ⟨a, ha, rfl⟩

/-- the buyer of a `FillAsks` as the bid order it stands for -/
def fa_virt (buyer : Addr) (ad pd : Denom) (fees : Coins) (orders : List Order) : Order :=
  { id := 0, isAsk := false, owner := buyer, assetsDenom := ad, assets := (orders.map (·.assets)).sum,
    priceDenom := pd, price := (orders.map (·.price)).sum, fees := fees, allowPartial := false }

theorem fa_fillVirt_eq {s : KState} {accts : List Addr} {ids : List Nat} {buyer : Addr} {orders : List Order}
    {fees : Coins} {ad pd : Denom}
    (hI : (s.orders.map (·.id)).Nodup) (hg : s.getOrders true ids buyer = .ok orders)
    (hnd : (orders.map (·.id)).Nodup) (hne : orders ≠ []) (hsd : SingleDenom s ad pd) :
    fillVirt false buyer ids fees (dumpOf accts s) = some (fa_virt buyer ad pd fees orders) := by
  have hperm := fa_filter_perm hI hg hnd
  have hdo : (dumpOf accts s).orders = s.orders := rfl
  cases hF : s.orders.filter (fun o => ids.contains o.id) with
  | nil =>
    rw [hF] at hperm
    exact absurd hperm.symm.eq_nil hne
  | cons o t =>
    have ho : o ∈ s.orders := by
      have : o ∈ s.orders.filter (fun o => ids.contains o.id) := by rw [hF]; simp
      exact (List.mem_filter.mp this).1
    obtain ⟨h1, h2⟩ := hsd o ho
    have ha : ((o :: t).map (·.assets)).sum = (orders.map (·.assets)).sum := by
      rw [← hF]; exact fa_perm_sum (hperm.map _)
    have hp : ((o :: t).map (·.price)).sum = (orders.map (·.price)).sum := by
      rw [← hF]; exact fa_perm_sum (hperm.map _)
    simp only [fillVirt, hdo, hF, ha, hp, h1, h2, fa_virt]

theorem fa_sum_fillOwnerDelta (orders : List Order) (ad pd d : Denom)
    (h : ∀ o ∈ orders, o.assetsDenom = ad ∧ o.priceDenom = pd) :
    (orders.map fun o => fillOwnerDelta o d).sum =
      (if ad = d then (orders.map (·.assets)).sum else 0) - (if pd = d then (orders.map (·.price)).sum else 0) := by
  induction orders with
  | nil => simp
  | cons o t ih =>
    obtain ⟨h1, h2⟩ := h o (by simp)
    have ih := ih (fun o ho => h o (by simp [ho]))
    simp only [List.map_cons, List.sum_cons]
    rw [ih]
    simp only [fillOwnerDelta, h1, h2]
    split <;> split <;> omega

/-- the filled order of an ask with its ratio fee -/
def fa_fo (p : Order × Coins) : FilledOrder := ⟨p.1, p.1.price, p.1.fees ++ p.2⟩

theorem fa_expectedDelta (zs : List (Order × Coins)) (hask : ∀ p ∈ zs, p.1.isAsk = true) (v : FilledOrder)
    (x : Addr) (d : Denom) :
    expectedDelta (zs.map fa_fo ++ [v]) x d =
      (zs.map fun p => if p.1.owner = x then - fillOwnerDelta p.1 d else 0).sum
        + (if v.order.owner = x then v.delta d else 0) := by
  unfold expectedDelta
  simp only [List.map_append, List.sum_append, List.map_map, List.map_cons, List.map_nil, List.sum_cons,
    List.sum_nil, Int.add_zero]
  congr 2
  apply List.map_congr_left
  intro p hp
  simp only [Function.comp, fa_fo, FilledOrder.delta, fillOwnerDelta, hask p hp, if_true]
  by_cases h0 : p.1.owner = x <;> by_cases h1 : p.1.assetsDenom = d <;> by_cases h2 : p.1.priceDenom = d <;>
    simp only [h0, h1, h2, ↓reduceIte, eq_self] <;> omega

theorem fa_expectedFees (zs : List (Order × Coins)) (v : FilledOrder) (x : Addr) (d : Denom) :
    expectedFees (zs.map fa_fo ++ [v]) x d =
      (zs.map fun p => if p.1.owner = x then amountOf (p.1.fees ++ p.2) d else 0).sum
        + (if v.order.owner = x then amountOf v.actualFees d else 0) := by
  unfold expectedFees
  simp only [List.map_append, List.sum_append, List.map_map, List.map_cons, List.map_nil, List.sum_cons,
    List.sum_nil, Int.add_zero]
  rfl

theorem fa_totalFees (zs : List (Order × Coins)) (v : FilledOrder) (d : Denom) :
    totalFees (zs.map fa_fo ++ [v]) d =
      (zs.map fun p => amountOf (p.1.fees ++ p.2) d).sum + amountOf v.actualFees d := by
  unfold totalFees
  simp only [List.map_append, List.sum_append, List.map_map, List.map_cons, List.map_nil, List.sum_cons,
    List.sum_nil, Int.add_zero]
  rfl

/-- an ask's ratio fee: `⌈price·fee/ratio price⌉` in the price denom -/
theorem fa_ratio_fee {s : KState} {o : Order} {rf : Coins} (hr : SellerRatioOk s.ratio) (hpos : 0 < o.price)
    (h : IsRatioFeeOf s (o.priceDenom, o.price) rf) (d : Denom) :
    amountOf rf d = if d = o.priceDenom then ratioCeil s.ratio o.price else 0 := by
  unfold IsRatioFeeOf at h
  cases hsr : s.ratio with
  | none =>
    rw [hsr] at h
    simp only at h
    simp [h, ratioCeil]
  | some r =>
    rw [hsr] at h
    simp only at h
    obtain ⟨hpdn, amt, hfee, hceil⟩ := h
    obtain ⟨hrd, hrp, hrf0, _⟩ := hr r hsr
    have hamt : amt = ratioCeil (some r) o.price :=
      ratioCeil_of_isCeil hrp (hceil (Int.le_of_lt hpos) hrp hrf0)
    rw [hfee, ← hamt]
    simp only [amountOf_cons, amountOf_nil, Int.add_zero]
    have e : r.feeDenom = o.priceDenom := hrd.trans hpdn
    by_cases hd : d = o.priceDenom
    · simp [hd, e]
    · have hd' : ¬ r.feeDenom = d := fun e' => hd (e'.symm.trans e)
      simp [hd, hd']

theorem fillAsks_moneyCtx {s s' : KState} {accts : List Addr} {buyer : Addr} {ids : List Nat} {tp : Denom × Int}
    {fees : Coins} {ad pd : Denom}
    (hI : StoreInv s) (h : s.msgFillAsks marketName collectorName buyer ids tp fees = .ok s')
    (hn : (accts ++ [marketName, collectorName]).Nodup) (hown : ∀ o ∈ s.orders, o.owner ∈ accts)
    (hbuyer : buyer ∈ accts) (hr : SellerRatioOk s.ratio) (hsd : SingleDenom s ad pd)
    (hfees : ∀ c ∈ fees, 0 ≤ c.2) :
    ∃ orders virt, s.getOrders true ids buyer = .ok orders ∧
      fillVirt false buyer ids fees (dumpOf accts s) = some virt ∧
      ∃ ctx : MoneyCtx accts s s' s.ratio s.splitOf (orders ++ [virt]), ∀ d, supply ctx.L d = 0 := by
  obtain ⟨hfa, orders0, hg0, hnd, _⟩ := msgFillAsks_once h
  have hids : ids ≠ [] := by
    unfold KState.msgFillAsks at h
    split at h; · simp at h
    rename_i hv
    exact (validateOrderIDs_ok hv).1
  obtain ⟨orders, ratioFees, ex, L, hg, hrfm, hrf, hL, _, hshare, hbal, hsup⟩ := fillAsks_deltas hfa
  have he : orders0 = orders := by
    rw [hg0] at hg; exact Except.ok.inj hg
  subst he
  have hmem := getOrders_mem hg
  have hidl := getOrders_ids hg
  have hne : orders0 ≠ [] := by
    intro e; rw [e] at hidl; exact hids hidl.symm
  have hlen : ratioFees.length = orders0.length := mapM_ok_length _ _ _ hrfm
  have hden : ∀ o ∈ orders0, o.assetsDenom = ad ∧ o.priceDenom = pd := fun o ho => hsd o (hmem o ho).1
  have hpos : ∀ o ∈ orders0, OrderPos o := fun o ho => hI.pos o (hmem o ho).1
  have hz := fa_forall₂_zip_mem hrf
  have hzask : ∀ p ∈ orders0.zip ratioFees, p.1.isAsk = true := fun p hp => (hmem p.1 (hz p hp).1).2.1
  have hzfee : ∀ p ∈ orders0.zip ratioFees, ∀ d,
      amountOf p.2 d = if d = p.1.priceDenom then ratioCeil s.ratio p.1.price else 0 :=
    fun p hp d => fa_ratio_fee hr (hpos p.1 (hz p hp).1).price (hz p hp).2 d
  refine ⟨orders0, fa_virt buyer ad pd fees orders0, hg, fa_fillVirt_eq hI.nodup hg hnd hne hsd, ?_⟩
  refine ⟨{ L := L
            fos := (orders0.zip ratioFees).map fa_fo ++
              [⟨fa_virt buyer ad pd fees orders0, (fa_virt buyer ad pd fees orders0).price, fees⟩]
            ex := ex
            nodup := hn
            ledger := hL
            bal := ?_
            share := ?_
            owners := ?_
            feesNonneg := ?_
            ratioOk := hr.ratioOk
            parts := ?_ }, hsup⟩
  · intro x d
    rw [hbal x d, fa_expectedDelta _ hzask, fa_expectedFees, fa_totalFees]
    have hsplit := fa_sum_ite_sub (orders0.zip ratioFees) (fun p => p.1.owner = x)
      (fun p => - fillOwnerDelta p.1 d) (fun p => amountOf (p.1.fees ++ p.2) d)
    have hvd : (⟨fa_virt buyer ad pd fees orders0, (fa_virt buyer ad pd fees orders0).price, fees⟩ :
        FilledOrder).delta d = (orders0.map fun o => fillOwnerDelta o d).sum := by
      rw [fa_sum_fillOwnerDelta orders0 ad pd d hden]
      by_cases h1 : ad = d <;> by_cases h2 : pd = d <;> simp [FilledOrder.delta, fa_virt, h1, h2]
    rw [hsplit, hvd]
    simp only [fa_virt]
    by_cases hb : buyer = x <;> by_cases hm : marketName = x <;> by_cases hc : collectorName = x <;>
      simp only [hb, hm, hc, ↓reduceIte, eq_self] <;> omega
  · intro d
    rw [fa_totalFees]
    exact hshare d
  · intro f hf
    rw [List.mem_append] at hf
    rcases hf with hf | hf
    · obtain ⟨p, hp, rfl⟩ := List.mem_map.mp hf
      exact hown p.1 (hmem p.1 (hz p hp).1).1
    · rw [List.mem_singleton] at hf
      subst hf
      exact hbuyer
  · intro f hf d
    rw [List.mem_append] at hf
    rcases hf with hf | hf
    · obtain ⟨p, hp, rfl⟩ := List.mem_map.mp hf
      show 0 ≤ amountOf (p.1.fees ++ p.2) d
      rw [amountOf_append, hzfee p hp d]
      have hp1 := hpos p.1 (hz p hp).1
      have h1 := fa_amountOf_nonneg hp1.fees d
      have h2 := fa_ratioCeil_nonneg hr (Int.le_of_lt hp1.price)
      split <;> omega
    · rw [List.mem_singleton] at hf
      subst hf
      exact fa_amountOf_nonneg hfees d
  · refine fa_forall₂_append_single (fa_forall₂_zip_map fa_fo _ _ hlen ?_) ?_
    · intro p hp
      refine partOf_self (f := fa_fo p) ?_ ?_
      · simp [fa_fo]
      · intro d
        show amountOf (p.1.fees ++ p.2) d = amountOf p.1.fees d +
          (if p.1.isAsk = true ∧ d = p.1.priceDenom then ratioCeil s.ratio p.1.price else 0)
        rw [amountOf_append, hzfee p hp d]
        simp [hzask p hp]
    · refine partOf_self
        (f := ⟨fa_virt buyer ad pd fees orders0, (fa_virt buyer ad pd fees orders0).price, fees⟩) ?_ ?_
      · simp [fa_virt]
      · intro d
        simp [fa_virt]

end PvProofs.C01
