/-
C01 — soundness of the keeper-level checker (`acceptedViolation` / `rejectedViolation`,
`PvModel/SettleAppSpec.lean`): definitions.

* `dumpOf accts k` — the model's own dump of a keeper state, structurally what the driver's
  `showDump` prints and `parseDump?` reads back (balances of the involved accounts, the market account
  and the fee collector; the open orders; what is on hold per involved account);
* the clauses of `acceptedViolation`, one named `Bool` each (`true` = the clause FIRES), and
  `acceptedViolation_eq_clauses`: the checker is *definitionally* the first firing clause — so
  "clause `c` never fires on the model's own dumps" is a statement about the checker itself.
-/
import PvProofs.C01Deep

namespace PvProofs.C01
open PvModel PvModel.Settle PvModel.Coins PvModel.Ledger PvProofs.Settle

/-- the model's own dump (cf. `showDump` in `PvModel/SettleAppDriver.lean`) -/
def dumpOf (accts : List Addr) (k : KState) : Dump :=
  { bals := (accts ++ [marketName, collectorName]).map fun a => (a, Ledger.balances k.ledger a)
    orders := k.orders
    holds := accts.map fun a => (a, k.holdsOf a) }

/-! ### The checker's intermediate values -/

def cAccts (before : Dump) : List Addr := before.bals.map (·.1)
def cUsers (before : Dump) : List Addr := (cAccts before).filter (fun x => x ≠ marketName ∧ x ≠ collectorName)
def cDenoms (before after : Dump) : List Denom :=
  (before.bals ++ after.bals).flatMap (fun p => denoms p.2) |>.eraseDups
def cDelta (before after : Dump) (x : Addr) (d : Denom) : Int := after.bal x d - before.bal x d
def cTouched (ids : List Nat) (before after : Dump) : List (Order × Option Order) :=
  ids.eraseDups.filterMap fun id =>
    (before.orders.find? (·.id = id)).map fun ob => (ob, after.orders.find? (·.id = id))
def cParts (ids : List Nat) (virt : Option Order) (before after : Dump) : List Order :=
  ((cTouched ids before after).map fun p => filledPart p.1 p.2) ++ virt.toList

/-! ### The clauses (`true` = fires) -/

def clUnknown (ids : List Nat) (before after : Dump) : Prop :=
  (cTouched ids before after).length ≠ ids.eraseDups.length
instance (ids : List Nat) (before after : Dump) : Decidable (clUnknown ids before after) := by
  unfold clUnknown; exact inferInstance
def clOther (ids : List Nat) (before after : Dump) : Bool :=
  before.orders.any (fun o => !ids.eraseDups.contains o.id && !after.orders.contains o)
def clNew (before after : Dump) : Bool :=
  after.orders.any (fun o => !before.orders.any (·.id = o.id))
def clTwoPartials (ids : List Nat) (before after : Dump) : Prop :=
  ((cTouched ids before after).filter (·.2.isSome)).length > 1
instance (ids : List Nat) (before after : Dump) : Decidable (clTwoPartials ids before after) := by
  unfold clTwoPartials; exact inferInstance
def clPartial (ids : List Nat) (before after : Dump) : Option String :=
  (cTouched ids before after).findSome? fun p => match p.2 with
    | some l => (splitViolation p.1 (p.1.assets - l.assets)
        { filledPart p.1 (some l) with fees := dropZero (filledPart p.1 (some l)).fees } l).map ("app_partial_" ++ ·)
    | none => none
def clSupply (before after : Dump) : Bool :=
  (cDenoms before after).any (fun d => decide (((cAccts before).map fun x => cDelta before after x d).sum ≠ 0))
def clAssets (ids : List Nat) (virt : Option Order) (before after : Dump) : Bool :=
  let parts := cParts ids virt before after
  parts.any (fun p =>
      let ad := p.assetsDenom
      decide (parts.all fun q => q.priceDenom ≠ ad ∧ (denoms q.fees).all (· ≠ ad)) &&
      (cUsers before).any fun x => decide (cDelta before after x ad ≠
        ((parts.filter fun q => q.owner = x ∧ q.assetsDenom = ad).map fun q =>
          if q.isAsk then - q.assets else q.assets).sum))
def clBuyer (ids : List Nat) (virt : Option Order) (before after : Dump) : Bool :=
  let parts := cParts ids virt before after
  (cUsers before).any (fun x =>
      let mine := parts.filter (·.owner = x)
      !mine.isEmpty && mine.all (fun q => !q.isAsk) &&
      (cDenoms before after).any fun d => decide (mine.all (fun q => q.assetsDenom ≠ d)) &&
        decide (cDelta before after x d ≠
          - (mine.map fun q => (if q.priceDenom = d then q.price else 0) + amountOf q.fees d).sum))
def clSeller (ratio : Option Ratio) (ids : List Nat) (virt : Option Order) (before after : Dump) : Bool :=
  let parts := cParts ids virt before after
  (cUsers before).any (fun x =>
      let mine := parts.filter (·.owner = x)
      !mine.isEmpty && mine.all (fun q => q.isAsk) &&
      (cDenoms before after).any fun d => decide (mine.all (fun q => q.assetsDenom ≠ d)) &&
        decide (cDelta before after x d < (mine.map fun q =>
          (if q.priceDenom = d then q.price - ratioCeil ratio q.price else 0) - amountOf q.fees d).sum))
def clBystander (ids : List Nat) (virt : Option Order) (before after : Dump) : Bool :=
  let parts := cParts ids virt before after
  (cUsers before).any (fun x => parts.all (·.owner ≠ x) &&
    (cDenoms before after).any fun d => decide (cDelta before after x d ≠ 0))
def clCollector (splitOf : Denom → Nat) (before after : Dump) : Bool :=
  (cDenoms before after).any (fun d =>
      let e := cDelta before after collectorName d
      let f := cDelta before after marketName d + e
      decide (f < 0) ||
      decide (e ≠ (if f = 0 ∨ splitOf d = 0 then 0 else Fees.ceilDiv (f * splitOf d) 10000)))
def clHolds (before after : Dump) : Bool :=
  (cUsers before).any (fun x => (cDenoms before after).any fun d =>
      decide (after.hold x d ≠ (((after.orders.filter (·.owner = x)).map fun o => amountOf o.holdAmount d).sum)))

/-- the checker, clause by clause -/
def acceptedViolation' (ratio : Option Ratio) (splitOf : Denom → Nat) (ids : List Nat) (virt : Option Order)
    (before after : Dump) : Option String :=
  if clUnknown ids before after then some "app_unknown_order"
  else if clOther ids before after then some "app_other_order_changed"
  else if clNew before after then some "app_new_order"
  else if clTwoPartials ids before after then some "app_two_partials"
  else match clPartial ids before after with
  | some c => some c
  | none =>
  if clSupply before after then some "app_supply"
  else if clAssets ids virt before after then some "app_assets_exact"
  else if clBuyer ids virt before after then some "app_buyer_pays_exact"
  else if clSeller ratio ids virt before after then some "app_seller_gets_at_least"
  else if clBystander ids virt before after then some "app_bystander_changed"
  else if clCollector splitOf before after then some "app_collector_share"
  else if clHolds before after then some "app_holds"
  else none

/-- The checker IS the first firing clause. -/
theorem acceptedViolation_eq_clauses (ratio : Option Ratio) (splitOf : Denom → Nat) (ids : List Nat)
    (virt : Option Order) (before after : Dump) :
    acceptedViolation ratio splitOf ids virt before after = acceptedViolation' ratio splitOf ids virt before after := by
  rfl

/-- so it is silent exactly when no clause fires -/
theorem acceptedViolation_none_of {ratio : Option Ratio} {splitOf : Denom → Nat} {ids : List Nat}
    {virt : Option Order} {before after : Dump}
    (h1 : ¬ clUnknown ids before after) (h2 : clOther ids before after = false)
    (h3 : clNew before after = false) (h4 : ¬ clTwoPartials ids before after)
    (h5 : clPartial ids before after = none) (h6 : clSupply before after = false)
    (h7 : clAssets ids virt before after = false) (h8 : clBuyer ids virt before after = false)
    (h9 : clSeller ratio ids virt before after = false) (h10 : clBystander ids virt before after = false)
    (h11 : clCollector splitOf before after = false) (h12 : clHolds before after = false) :
    acceptedViolation ratio splitOf ids virt before after = none := by
  rw [acceptedViolation_eq_clauses]
  unfold acceptedViolation'
  simp [h1, h2, h3, h4, h5, h6, h7, h8, h9, h10, h11, h12]

end PvProofs.C01
